package layoutaudit

import (
	"bytes"
	"encoding/json"
	"fmt"
	"os"
	"path/filepath"
	"sort"
	"strings"
)

// Store gives raw access to content by digest. A registry keeps manifests and blobs
// apart; a layout keeps both under blobs/.
type Store interface {
	Manifest(digest string) (raw []byte, mediaType string, ok bool)
	Blob(digest string) (raw []byte, ok bool)
}

// Node is one object of a closure.
type Node struct {
	Digest     string
	IsManifest bool
	MediaType  string
	Foreign    bool
	Parent     string
}

// WalkOpts steers a closure walk.
type WalkOpts struct {
	// Stop returns true when the content of manifest d must not be descended into
	// (the manifest itself is still part of the closure).
	Stop func(d string) bool
	// SkipForeign leaves blobs with URLs out unless the store has them.
	SkipForeign bool
}

// Closure walks from top over store and returns every node reached (top first) and the
// list of problems (missing objects, digest mismatches, unparsable manifests).
func Closure(s Store, top string, topMT string, o WalkOpts) (nodes []Node, problems []string) {
	seen := map[string]bool{}
	var walk func(d, mt, parent string)
	walk = func(d, mt, parent string) {
		key := "m:" + d
		if seen[key] {
			return
		}
		seen[key] = true
		raw, smt, ok := s.Manifest(d)
		if !ok {
			problems = append(problems, fmt.Sprintf("manifest %s (child of %s) missing", d, short(parent)))
			return
		}
		if mt == "" {
			mt = smt
		}
		nodes = append(nodes, Node{Digest: d, IsManifest: true, MediaType: mt, Parent: parent})
		if !Matches(d, raw) {
			// signed schema1 manifests are named by their payload digest
			if p, err := Schema1Payload(raw); err != nil || !Matches(d, p) {
				problems = append(problems, fmt.Sprintf("manifest %s content does not hash to its name", d))
				return
			}
		}
		if o.Stop != nil && o.Stop(d) {
			return
		}
		m, err := Parse(raw, mt)
		if err != nil {
			problems = append(problems, fmt.Sprintf("manifest %s: %v", d, err))
			return
		}
		for _, c := range m.Children() {
			if c.IsManifest {
				walk(c.Desc.Digest, c.Desc.MediaType, d)
				continue
			}
			bk := "b:" + c.Desc.Digest
			if seen[bk] {
				continue
			}
			b, ok := s.Blob(c.Desc.Digest)
			if !ok {
				if c.Foreign && o.SkipForeign {
					continue
				}
				seen[bk] = true
				problems = append(problems, fmt.Sprintf("blob %s (child of %s) missing", c.Desc.Digest, short(d)))
				continue
			}
			seen[bk] = true
			nodes = append(nodes, Node{Digest: c.Desc.Digest, MediaType: c.Desc.MediaType, Foreign: c.Foreign, Parent: d})
			if !Matches(c.Desc.Digest, b) {
				problems = append(problems, fmt.Sprintf("blob %s content does not hash to its name", c.Desc.Digest))
			}
			if c.Desc.Size >= 0 && int64(len(b)) != c.Desc.Size && m.Kind != "schema1" {
				problems = append(problems, fmt.Sprintf("blob %s has %d bytes, descriptor in %s says %d", c.Desc.Digest, len(b), short(d), c.Desc.Size))
			}
		}
	}
	walk(top, topMT, "")
	return nodes, problems
}

func short(d string) string {
	if i := strings.IndexByte(d, ':'); i >= 0 && len(d) > i+13 {
		return d[:i+13]
	}
	return d
}

// Compare checks that every node of want (taken from src) is present in dst with the
// same bytes. It returns the list of differences.
func Compare(src, dst Store, want []Node) []string {
	var diff []string
	for _, n := range want {
		if n.IsManifest {
			a, _, _ := src.Manifest(n.Digest)
			b, _, ok := dst.Manifest(n.Digest)
			if !ok {
				diff = append(diff, "manifest "+n.Digest+" missing at target")
			} else if !bytes.Equal(a, b) {
				diff = append(diff, "manifest "+n.Digest+" differs at target")
			}
		} else {
			a, _ := src.Blob(n.Digest)
			b, ok := dst.Blob(n.Digest)
			if !ok {
				diff = append(diff, "blob "+n.Digest+" missing at target")
			} else if !bytes.Equal(a, b) {
				diff = append(diff, "blob "+n.Digest+" differs at target")
			}
		}
	}
	return diff
}

// ---------------------------------------------------------------------------------
// OCI layout directories

// Layout is a raw view of a layout directory.
type Layout struct{ Dir string }

func (l Layout) path(d string) (string, bool) {
	i := strings.IndexByte(d, ':')
	if i <= 0 || strings.ContainsAny(d, "/\\") || strings.Contains(d, "..") {
		return "", false
	}
	return filepath.Join(l.Dir, "blobs", d[:i], d[i+1:]), true
}

// Manifest implements Store.
func (l Layout) Manifest(d string) ([]byte, string, bool) {
	b, ok := l.Blob(d)
	if !ok {
		return nil, "", false
	}
	var mt struct {
		MediaType string `json:"mediaType"`
	}
	_ = json.Unmarshal(b, &mt)
	return b, mt.MediaType, true
}

// Blob implements Store.
func (l Layout) Blob(d string) ([]byte, bool) {
	p, ok := l.path(d)
	if !ok {
		return nil, false
	}
	b, err := os.ReadFile(p)
	if err != nil {
		return nil, false
	}
	return b, true
}

// Index is a parsed index.json.
type Index struct {
	SchemaVersion int               `json:"schemaVersion"`
	MediaType     string            `json:"mediaType,omitempty"`
	Manifests     []Desc            `json:"manifests"`
	Annotations   map[string]string `json:"annotations,omitempty"`
}

const (
	AnnotRefName     = "org.opencontainers.image.ref.name"
	AnnotContainerd  = "io.containerd.image.name"
	layoutVersionTxt = "1.0.0"
)

// ReadIndex parses index.json strictly (complete JSON, nothing trailing but white space).
func (l Layout) ReadIndex() (*Index, error) {
	b, err := os.ReadFile(filepath.Join(l.Dir, "index.json"))
	if err != nil {
		return nil, err
	}
	dec := json.NewDecoder(bytes.NewReader(b))
	var idx Index
	if err := dec.Decode(&idx); err != nil {
		return nil, fmt.Errorf("index.json is not complete JSON: %w", err)
	}
	var extra any
	if err := dec.Decode(&extra); err == nil {
		return nil, fmt.Errorf("index.json has trailing content")
	}
	if idx.SchemaVersion != 2 {
		return nil, fmt.Errorf("index.json schemaVersion %d", idx.SchemaVersion)
	}
	if idx.MediaType != "" && idx.MediaType != MTOCIIndex {
		return nil, fmt.Errorf("index.json mediaType %q", idx.MediaType)
	}
	return &idx, nil
}

// CheckMarker validates the oci-layout file.
func (l Layout) CheckMarker() error {
	b, err := os.ReadFile(filepath.Join(l.Dir, "oci-layout"))
	if err != nil {
		return err
	}
	var m struct {
		V string `json:"imageLayoutVersion"`
	}
	if err := json.Unmarshal(b, &m); err != nil {
		return fmt.Errorf("oci-layout is not JSON (%d bytes): %w", len(b), err)
	}
	if m.V != layoutVersionTxt {
		return fmt.Errorf("oci-layout version %q", m.V)
	}
	return nil
}

// Tags returns tag -> digests of index entries (a correct layout has one digest per tag).
// The tag of an entry is its ref.name annotation; full image names ("repo:tag") are
// reduced to the part after the last ':' that follows the last '/'.
func (idx *Index) Tags() map[string][]string {
	out := map[string][]string{}
	for _, d := range idx.Manifests {
		n, ok := d.Annotations[AnnotRefName]
		if !ok || n == "" {
			continue
		}
		out[TagOf(n)] = append(out[TagOf(n)], d.Digest)
	}
	return out
}

// TagOf reduces a ref.name to its tag.
func TagOf(n string) string {
	slash := strings.LastIndexByte(n, '/')
	if c := strings.LastIndexByte(n, ':'); c > slash {
		return n[c+1:]
	}
	return n
}

// DigestFiles lists every file below blobs/ as alg:hex -> path, and other (non-digest,
// e.g. temp) files separately.
func (l Layout) DigestFiles() (files map[string]string, others []string) {
	files = map[string]string{}
	algs, _ := os.ReadDir(filepath.Join(l.Dir, "blobs"))
	for _, a := range algs {
		if !a.IsDir() {
			others = append(others, filepath.Join("blobs", a.Name()))
			continue
		}
		ents, _ := os.ReadDir(filepath.Join(l.Dir, "blobs", a.Name()))
		for _, e := range ents {
			d := a.Name() + ":" + e.Name()
			if _, _, ok := SplitDigest(d); ok && !e.IsDir() {
				files[d] = filepath.Join(l.Dir, "blobs", a.Name(), e.Name())
			} else {
				others = append(others, filepath.Join("blobs", a.Name(), e.Name()))
			}
		}
	}
	sort.Strings(others)
	return files, others
}

// Reachable computes the set of digests reachable from index.json following index entries,
// nested indexes, configs, layers and artifact blobs. Missing children are ignored (sparse
// layouts are legal); it is a mark phase, not a completeness check.
func (l Layout) Reachable() (map[string]bool, error) {
	idx, err := l.ReadIndex()
	if err != nil {
		return nil, err
	}
	seen := map[string]bool{}
	var walk func(d, mt string)
	walk = func(d, mt string) {
		if seen[d] {
			return
		}
		seen[d] = true
		b, ok := l.Blob(d)
		if !ok {
			return
		}
		if mt != "" && !IsManifestMT(mt) {
			return
		}
		m, err := Parse(b, mt)
		if err != nil {
			return
		}
		for _, c := range m.Children() {
			if c.IsManifest {
				walk(c.Desc.Digest, c.Desc.MediaType)
			} else {
				seen[c.Desc.Digest] = true
			}
		}
	}
	for _, e := range idx.Manifests {
		walk(e.Digest, e.MediaType)
	}
	return seen, nil
}

// Audit checks layout validity: marker, index, at most one entry per tag, every
// digest-named file hashes to its name, every tagged entry has a complete closure.
// It returns a list of problems (empty = valid).
func (l Layout) Audit(requireClosure bool) []string {
	var probs []string
	if err := l.CheckMarker(); err != nil {
		probs = append(probs, "marker: "+err.Error())
	}
	idx, err := l.ReadIndex()
	if err != nil {
		probs = append(probs, "index: "+err.Error())
		return probs
	}
	for t, ds := range idx.Tags() {
		if len(ds) > 1 {
			probs = append(probs, fmt.Sprintf("tag %q has %d index entries", t, len(ds)))
		}
	}
	files, _ := l.DigestFiles()
	for d, p := range files {
		b, err := os.ReadFile(p)
		if err != nil || !Matches(d, b) {
			probs = append(probs, "file "+d+" does not hash to its name")
		}
	}
	if requireClosure {
		for _, e := range idx.Manifests {
			if _, ok := e.Annotations[AnnotRefName]; !ok {
				continue
			}
			_, ps := Closure(l, e.Digest, e.MediaType, WalkOpts{SkipForeign: true})
			for _, p := range ps {
				probs = append(probs, "tag "+e.Annotations[AnnotRefName]+": "+p)
			}
		}
	}
	sort.Strings(probs)
	return probs
}

// AuditManifestFiles checks every digest-named file that is a manifest (listed in the index
// or not): all of its non-foreign children must be present. Returns problems.
func (l Layout) AuditManifestFiles() []string {
	var probs []string
	files, _ := l.DigestFiles()
	for d, p := range files {
		b, err := os.ReadFile(p)
		if err != nil || len(b) == 0 || b[0] != '{' {
			continue
		}
		var probe struct {
			SchemaVersion int             `json:"schemaVersion"`
			MediaType     string          `json:"mediaType"`
			Manifests     json.RawMessage `json:"manifests"`
			Layers        json.RawMessage `json:"layers"`
			FSLayers      json.RawMessage `json:"fsLayers"`
		}
		if json.Unmarshal(b, &probe) != nil || probe.SchemaVersion == 0 {
			continue
		}
		if !(IsManifestMT(probe.MediaType) || (probe.MediaType == "" && (probe.Manifests != nil || probe.Layers != nil || probe.FSLayers != nil))) {
			continue
		}
		m, err := Parse(b, probe.MediaType)
		if err != nil {
			continue
		}
		for _, c := range m.Children() {
			if c.Foreign {
				continue
			}
			if _, ok := l.Blob(c.Desc.Digest); !ok {
				probs = append(probs, fmt.Sprintf("manifest file %s is present but its child %s is not", short(d), c.Desc.Digest))
			}
		}
	}
	sort.Strings(probs)
	return probs
}
