// Package layoutaudit is an independent reader of OCI / Docker manifests, registry raw
// state and OCI layout directories. It deliberately imports nothing from regclient so that
// a defect in regclient's own parsers is not shared by the oracle.
package layoutaudit

import (
	"bytes"
	"crypto/sha256"
	"crypto/sha512"
	"encoding/base64"
	"encoding/hex"
	"encoding/json"
	"fmt"
	"strings"
)

const (
	MTOCIManifest = "application/vnd.oci.image.manifest.v1+json"
	MTOCIIndex    = "application/vnd.oci.image.index.v1+json"
	MTOCIArtifact = "application/vnd.oci.artifact.manifest.v1+json"
	MTOCIConfig   = "application/vnd.oci.image.config.v1+json"
	MTOCILayerGz  = "application/vnd.oci.image.layer.v1.tar+gzip"
	MTOCILayer    = "application/vnd.oci.image.layer.v1.tar"
	MTOCILayerZst = "application/vnd.oci.image.layer.v1.tar+zstd"
	MTOCIEmpty    = "application/vnd.oci.empty.v1+json"
	MTD2Manifest  = "application/vnd.docker.distribution.manifest.v2+json"
	MTD2List      = "application/vnd.docker.distribution.manifest.list.v2+json"
	MTD2Config    = "application/vnd.docker.container.image.v1+json"
	MTD2LayerGz   = "application/vnd.docker.image.rootfs.diff.tar.gzip"
	MTD2Layer     = "application/vnd.docker.image.rootfs.diff.tar"
	MTD2Foreign   = "application/vnd.docker.image.rootfs.foreign.diff.tar.gzip"
	MTD1          = "application/vnd.docker.distribution.manifest.v1+json"
	MTD1Signed    = "application/vnd.docker.distribution.manifest.v1+prettyjws"
)

// IsManifestMT reports whether a media type names a manifest (something to recurse into).
func IsManifestMT(mt string) bool {
	switch mt {
	case MTOCIManifest, MTOCIIndex, MTOCIArtifact, MTD2Manifest, MTD2List, MTD1, MTD1Signed:
		return true
	}
	return false
}

// Platform of an index entry.
type Platform struct {
	OS           string   `json:"os"`
	Architecture string   `json:"architecture"`
	Variant      string   `json:"variant,omitempty"`
	OSVersion    string   `json:"os.version,omitempty"`
	OSFeatures   []string `json:"os.features,omitempty"`
}

// Desc is a descriptor as found in raw JSON.
type Desc struct {
	MediaType    string            `json:"mediaType"`
	Digest       string            `json:"digest"`
	Size         int64             `json:"size"`
	URLs         []string          `json:"urls,omitempty"`
	Annotations  map[string]string `json:"annotations,omitempty"`
	Data         *string           `json:"data,omitempty"`
	ArtifactType string            `json:"artifactType,omitempty"`
	Platform     *Platform         `json:"platform,omitempty"`
}

// InlineData decodes the data field (nil, false if absent).
func (d Desc) InlineData() ([]byte, bool, error) {
	if d.Data == nil {
		return nil, false, nil
	}
	b, err := base64.StdEncoding.DecodeString(*d.Data)
	return b, true, err
}

// Manifest is the structural content of a manifest of any supported type.
type Manifest struct {
	Kind         string // image | index | artifact | schema1
	MediaType    string // declared in the body ("" if absent)
	Config       *Desc
	Layers       []Desc
	Manifests    []Desc
	Blobs        []Desc
	Subject      *Desc
	ArtifactType string
	Annotations  map[string]string
	FSLayers     []string // schema1 blobSums
}

type rawManifest struct {
	SchemaVersion int               `json:"schemaVersion"`
	MediaType     string            `json:"mediaType"`
	Config        *Desc             `json:"config"`
	Layers        []Desc            `json:"layers"`
	Manifests     []Desc            `json:"manifests"`
	Blobs         []Desc            `json:"blobs"`
	Subject       *Desc             `json:"subject"`
	ArtifactType  string            `json:"artifactType"`
	Annotations   map[string]string `json:"annotations"`
	FSLayers      []struct {
		BlobSum string `json:"blobSum"`
	} `json:"fsLayers"`
}

// Parse decodes a manifest from raw bytes. hint is the media type known from elsewhere
// (descriptor / Content-Type), used only when the body does not declare one.
func Parse(raw []byte, hint string) (*Manifest, error) {
	var rm rawManifest
	if err := json.Unmarshal(raw, &rm); err != nil {
		return nil, fmt.Errorf("manifest is not JSON: %w", err)
	}
	m := &Manifest{MediaType: rm.MediaType, Config: rm.Config, Layers: rm.Layers, Manifests: rm.Manifests,
		Blobs: rm.Blobs, Subject: rm.Subject, ArtifactType: rm.ArtifactType, Annotations: rm.Annotations}
	mt := rm.MediaType
	if mt == "" {
		mt = hint
	}
	switch mt {
	case MTOCIManifest, MTD2Manifest:
		m.Kind = "image"
	case MTOCIIndex, MTD2List:
		m.Kind = "index"
	case MTOCIArtifact:
		m.Kind = "artifact"
	case MTD1, MTD1Signed:
		m.Kind = "schema1"
	default:
		switch {
		case rm.FSLayers != nil || rm.SchemaVersion == 1:
			m.Kind = "schema1"
		case rm.Manifests != nil:
			m.Kind = "index"
		case rm.Blobs != nil:
			m.Kind = "artifact"
		case rm.Config != nil:
			m.Kind = "image"
		default:
			return nil, fmt.Errorf("cannot classify manifest (mediaType %q)", mt)
		}
	}
	for _, l := range rm.FSLayers {
		m.FSLayers = append(m.FSLayers, l.BlobSum)
	}
	return m, nil
}

// Child is an outgoing edge of a manifest (subject excluded).
type Child struct {
	Desc       Desc
	IsManifest bool
	Foreign    bool // has URLs (content may live elsewhere)
}

// Children lists everything the manifest references, excluding its subject.
func (m *Manifest) Children() []Child {
	var out []Child
	add := func(d Desc, forceBlob bool) {
		out = append(out, Child{Desc: d, IsManifest: !forceBlob && IsManifestMT(d.MediaType), Foreign: len(d.URLs) > 0})
	}
	switch m.Kind {
	case "image":
		if m.Config != nil {
			add(*m.Config, true)
		}
		for _, l := range m.Layers {
			add(l, true)
		}
	case "index":
		for _, e := range m.Manifests {
			add(e, false)
		}
	case "artifact":
		for _, b := range m.Blobs {
			add(b, true)
		}
	case "schema1":
		for _, s := range m.FSLayers {
			add(Desc{Digest: s, Size: -1}, true)
		}
	}
	return out
}

// Digest computes alg:hex of b. alg is "sha256" or "sha512".
func Digest(alg string, b []byte) string {
	switch alg {
	case "sha512":
		s := sha512.Sum512(b)
		return "sha512:" + hex.EncodeToString(s[:])
	default:
		s := sha256.Sum256(b)
		return "sha256:" + hex.EncodeToString(s[:])
	}
}

// SplitDigest splits alg:hex and validates the shape for the two supported algorithms.
func SplitDigest(d string) (alg, enc string, ok bool) {
	i := strings.IndexByte(d, ':')
	if i < 0 {
		return "", "", false
	}
	alg, enc = d[:i], d[i+1:]
	want := 0
	switch alg {
	case "sha256":
		want = 64
	case "sha512":
		want = 128
	default:
		return alg, enc, false
	}
	if len(enc) != want {
		return alg, enc, false
	}
	for _, c := range enc {
		if !(c >= '0' && c <= '9' || c >= 'a' && c <= 'f') {
			return alg, enc, false
		}
	}
	return alg, enc, true
}

// Matches reports whether b hashes to digest d.
func Matches(d string, b []byte) bool {
	alg, _, ok := SplitDigest(d)
	if !ok {
		return false
	}
	return Digest(alg, b) == d
}

// Schema1Payload extracts the JWS payload of a signed schema1 manifest (the bytes the
// registry digest names), using protected.formatLength / formatTail. Returns raw itself
// for unsigned manifests.
func Schema1Payload(raw []byte) ([]byte, error) {
	var s struct {
		Signatures []struct {
			Protected string `json:"protected"`
		} `json:"signatures"`
	}
	if err := json.Unmarshal(raw, &s); err != nil {
		return nil, err
	}
	if len(s.Signatures) == 0 {
		return raw, nil
	}
	pb, err := base64.RawURLEncoding.DecodeString(s.Signatures[0].Protected)
	if err != nil {
		return nil, err
	}
	var p struct {
		FormatLength int    `json:"formatLength"`
		FormatTail   string `json:"formatTail"`
	}
	if err := json.Unmarshal(pb, &p); err != nil {
		return nil, err
	}
	tail, err := base64.RawURLEncoding.DecodeString(p.FormatTail)
	if err != nil {
		return nil, err
	}
	if p.FormatLength > len(raw) {
		return nil, fmt.Errorf("formatLength beyond body")
	}
	return append(bytes.Clone(raw[:p.FormatLength]), tail...), nil
}
