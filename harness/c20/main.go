// C20 — remote or archive content never causes writes outside the chosen directory.
//
// Monitor: a recursive snapshot (names, types, modes, owners, link counts, inode numbers,
// sizes, sha256, mtimes, link targets) of a GUARD directory that encloses the designated
// output directory / layout and holds sentinel files, empty directories and siblings with
// tempting names at every level a "../" climb can reach; it is compared before and after
// every single operation. Objects named with the run's unique marker are also looked for next
// to the guard in $VERIF_BIN. For the regctl child processes a second monitor parses
// `strace -ff` logs of all path-taking system calls. The check never names a path outside
// $VERIF_BIN: see the safety rule at the top of hostile.go.
//
// Workloads: (a) regctl artifact get -o out [--strip-dirs] against a model registry / a
// layout holding artifacts with hostile titles, hostile unpacked tars, hostile layer digests;
// (b) archive.Extract; (c) RegClient.ImageImport of hostile archives into a layout;
// (d) every ocidir operation taking a digest / tag / descriptor, with hostile arguments and
// hostile layouts; (e) the blob tar reader.
package main

import (
	"fmt"
	"os"
	"os/exec"
	"path/filepath"
	"strings"
	"sync"
	"time"

	"verif/ev"
)

func main() {
	run := ev.Start("C20", "exploration")
	run.Rule("cases are derived from VERIF_SEED only: a regression core (every title class x strip-dirs x unpack; every tar pattern; every import class; every ocidir operation x every digest class) followed by seeded combinations. " +
		"Titles / tar names: absolute, 1-8 and 9-200 '../', climbing after a prefix, dots only, empty / missing, NUL, 255-5000 byte components, deep nesting, collisions with existing files and directories, odd separators, trailing slash, names that exist in the working directory; " +
		"tar entries: regular, directory (odd modes), symlink / hard link / device / fifo with hostile names and targets, symlink-then-write sequences, raw ustar prefix, GNU long names, duplicates, truncated archives, none/gzip/zstd; " +
		"digests: '../' in the encoded part or in the algorithm, absolute, no colon, empty parts, NUL, long, '.', '..', names inside the layout, multi-colon, unknown algorithms, valid controls. " +
		"A case is non-trivial when the hostile element was demonstrably presented to the code: the registry log shows the blob GET of the hostile layer (artifact get), a standard tar reader reaches the entries (extract / import / tar reader), " +
		"or the API call was made with the hostile argument / against the hostile layout (ocidir). distinct = (workload, operation, input class, option) tuples of non-trivial cases")
	run.Assume("the designated directory contains no links planted by the user (statement); it may contain ordinary files and directories",
		"only create / modify / delete / metadata / mtime changes outside the designated directory are judged; reads outside are counted, never judged",
		"the snapshot monitor sees the guard tree (and marker-named objects next to it in $VERIF_BIN); a write to a location outside the guard is visible only to the strace monitor of the regctl runs",
		"every hostile string names a path inside the guard tree below $VERIF_BIN under every reading (asserted by the generators); the number of '../' segments is bounded by the depth of the designated directory inside the guard, longer chains are compensated by as many leading directory components",
		"a panic inside regclient on generated input is reported as a violation of this property's workload",
		"strace sees the regctl child processes only (quick: a fixed fraction of the runs, thorough: all); the in-process workloads are judged by the snapshot monitor")
	bin := os.Getenv("VERIF_BIN")
	if bin == "" {
		fmt.Println("BROKEN: VERIF_BIN is not set")
		os.Exit(2)
	}
	bin, _ = filepath.Abs(bin)
	if real, err := filepath.EvalSymlinks(bin); err == nil {
		bin = real
	}
	regctl := filepath.Join(bin, "regctl")
	if _, err := os.Stat(regctl); err != nil {
		fmt.Println("BROKEN: regctl binary missing:", err)
		os.Exit(2)
	}
	// temporary files and configuration look-ups of the code under test stay below $VERIF_BIN too
	tmp := filepath.Join(bin, "tmp")
	_ = os.MkdirAll(tmp, 0o755)
	_ = os.Setenv("TMPDIR", tmp)
	_ = os.Setenv("HOME", filepath.Join(bin, "no-such-home"))
	_ = os.Setenv("REGCTL_CONFIG", filepath.Join(bin, "no-such-home", "regctl.json"))
	_ = os.Setenv("DOCKER_CONFIG", filepath.Join(bin, "no-such-home", "docker"))
	marker := fmt.Sprintf("c20x%dx%d", ev.Seed(), os.Getpid())
	run.Put("marker", marker)

	// ---- monitor self-validation -----------------------------------------------------
	atimeOK := selfTestMonitor(run, bin, marker)
	run.Put("reads_outside_observable_by_atime", atimeOK)
	straceOK := selfTestStrace(run, bin, marker)
	run.Put("strace_available", straceOK)

	// ---- workloads ---------------------------------------------------------------------
	nArt := ev.Scale(336, 4200)
	straceEvery := ev.Scale(4, 1)
	workers := 8
	var wg sync.WaitGroup
	wg.Add(1)
	t0 := time.Now()
	go func() {
		defer wg.Done()
		cliWorkloads(run, bin, regctl, marker, nArt, ev.Scale(112, 1400), ev.Scale(160, 2000), workers, straceEvery, straceOK)
		run.Put("cli_workloads_wall_s", time.Since(t0).Seconds())
	}()

	ip, err := newInproc(run, bin, marker)
	if err != nil {
		run.Inconclusive("cannot build the in-process guard: " + err.Error())
	} else {
		t1 := time.Now()
		timed := func(name string, f func()) {
			t := time.Now()
			f()
			run.Put(name+"_wall_s", time.Since(t).Seconds())
		}
		timed("extract", func() { ip.extractWorkload(ev.Scale(900, 11000)) })
		timed("tarreader", func() { ip.tarReaderWorkload(ev.Scale(300, 3600)) })
		timed("import", func() { ip.importWorkload(ev.Scale(420, 5600)) })
		timed("ocidir", func() { ip.ocidirWorkload(ev.Scale(1700, 21000)) })
		run.Put("inprocess_workloads_wall_s", time.Since(t1).Seconds())
		_ = os.Chdir(bin)
		_ = chmodAll(ip.g.Root)
		_ = os.RemoveAll(ip.g.Root)
	}
	wg.Wait()

	// ---- non-vacuity -------------------------------------------------------------------
	need := map[string]int64{
		"artifact_runs_exit0":                  10,
		"artifact_files_written_inside_out":    10,
		"artifact_hostile_layers_presented":    int64(nArt / 2),
		"artifact_unpack_layers_presented":     10,
		"artifact_strip_dirs_layers_presented": 10,
		"extract_calls_returned_nil":           10,
		"extract_files_inside":                 10,
		"extract_tar_entries_reachable":        100,
		"tarreader_files_found":                5,
		"import_calls_returned_nil":            10,
		"ocidir_calls_returned_nil":            10,
		"ocidir_calls_with_escaping_digest":    100,
		"ocidir_manifest_delete_calls":         20,
		"cli_import_runs_exit0":                5,
		"cli_layout_runs_exit0":                5,
	}
	if straceOK {
		need["strace_runs"] = 10
		need["strace_writes_inside_designated"] = 10
	}
	for k, min := range need {
		if run.Get(k) < min {
			run.Inconclusive(fmt.Sprintf("clause observed too rarely: %s = %d (< %d)", k, run.Get(k), min))
		}
	}
	if run.SetLen("cli_layout_commands_run") < len(cliLayoutCmds) {
		run.Inconclusive("not every regctl layout command was run")
	}
	if run.SetLen("artifact_title_classes_presented") < len(titleClasses) {
		run.Inconclusive(fmt.Sprintf("only %d title classes reached regctl's path handling", run.SetLen("artifact_title_classes_presented")))
	}
	if run.SetLen("ocidir_ops_called") < len(ocidirOps) {
		run.Inconclusive("not every ocidir operation was called")
	}
	for _, rep := range ev.RaceReports(filepath.Join(bin, "race")) {
		_ = rep
		run.Count("unattributed_race_reports", 1)
	}
	os.Exit(run.Finish())
}

// selfTestMonitor plants real outside-writes in a scratch guard and requires the snapshot
// monitor to see each of them, and requires it to stay silent on writes inside the
// designated directories. Returns whether reads are observable through atime.
func selfTestMonitor(run *ev.Run, bin, marker string) (atimeOK bool) {
	g, err := NewGuard(filepath.Join(bin, "gs"), marker)
	if err != nil {
		run.Inconclusive("monitor self-test: cannot build guard: " + err.Error())
		return false
	}
	defer func() { _ = chmodAll(g.Root); _ = os.RemoveAll(g.Root) }()
	lvl := g.Levels[4]
	victim := filepath.Join(lvl, g.vFile())
	marker = g.marker
	canaries := []struct {
		name string
		do   func() error
	}{
		{"create-file", func() error { return os.WriteFile(filepath.Join(lvl, "pwn-"+marker), []byte("x"), 0o644) }},
		{"modify-same-size", func() error {
			b, _ := os.ReadFile(victim)
			b[0] ^= 1
			return os.WriteFile(victim, b, 0o644)
		}},
		{"delete-file", func() error { return os.Remove(victim) }},
		{"mtime-only", func() error { return os.Chtimes(victim, oldTime, time.Now()) }},
		{"chmod", func() error { return os.Chmod(victim, 0o600) }},
		{"remove-empty-dir", func() error { return os.Remove(filepath.Join(lvl, g.vEmpty())) }},
		{"transient-create-delete", func() error {
			p := filepath.Join(lvl, g.vEmpty(), "t")
			if err := os.WriteFile(p, nil, 0o644); err != nil {
				return err
			}
			return os.Remove(p)
		}},
		{"rename-over", func() error {
			p := filepath.Join(lvl, "tmp-"+marker)
			b, _ := os.ReadFile(victim)
			if err := os.WriteFile(p, b, 0o644); err != nil {
				return err
			}
			_ = os.Chtimes(p, oldTime, oldTime)
			return os.Rename(p, victim)
		}},
		{"symlink", func() error { return os.Symlink(g.Root, filepath.Join(g.Cwd, "ln")) }},
		{"hardlink-into-out", func() error { return os.Link(victim, filepath.Join(g.Out, "hl")) }},
		{"mkdir-in-cwd", func() error { return os.Mkdir(filepath.Join(g.Cwd, "d-"+marker), 0o755) }},
		{"root-level-create", func() error { return os.WriteFile(filepath.Join(g.Root, "x2"), nil, 0o644) }},
	}
	for _, c := range canaries {
		if err := c.do(); err != nil {
			run.Inconclusive("monitor self-test: canary " + c.name + " could not be planted: " + err.Error())
			continue
		}
		ch, _ := g.Check()
		if len(ch) == 0 {
			run.Inconclusive("monitor self-test: the snapshot monitor did not see canary " + c.name)
		} else {
			run.Count("monitor_selftest_canaries_detected", 1)
		}
		if err := g.Rebuild(); err != nil {
			run.Inconclusive("monitor self-test: rebuild failed: " + err.Error())
			return false
		}
	}
	// silent on legitimate writes
	_ = os.WriteFile(filepath.Join(g.Out, "a"), []byte("x"), 0o644)
	_ = os.MkdirAll(filepath.Join(g.Layout, "blobs", "sha256"), 0o755)
	_ = os.WriteFile(filepath.Join(g.Layout, "index.json"), []byte("{}"), 0o644)
	_ = os.Remove(filepath.Join(g.Out, "a"))
	if ch, _ := g.Check(); len(ch) != 0 {
		run.Inconclusive(fmt.Sprintf("monitor self-test: false alarm on writes inside the designated directories: %+v", ch[0]))
	} else {
		run.Count("monitor_selftest_silent_on_inside_writes", 1)
	}
	if err := g.ResetDesignated(); err != nil {
		run.Inconclusive("monitor self-test: reset failed: " + err.Error())
	}
	if ch, _ := g.Check(); len(ch) != 0 {
		run.Inconclusive(fmt.Sprintf("monitor self-test: false alarm after resetting the designated directories: %+v", ch[0]))
	}
	// marker escape detection
	p := filepath.Join(filepath.Dir(g.Root), "pwn-"+marker)
	_ = os.WriteFile(p, nil, 0o644)
	if esc := g.escaped(g.markerLeaves()); len(esc) != 1 {
		run.Inconclusive("monitor self-test: marker-named object outside the guard was not found")
	} else {
		run.Count("monitor_selftest_canaries_detected", 1)
	}
	// reads
	_, _ = os.ReadFile(filepath.Join(g.Levels[2], g.vEtc()))
	_, reads := g.Check()
	if len(reads) == 1 {
		atimeOK = true
		if _, reads = g.Check(); len(reads) != 0 {
			atimeOK = false // re-arming does not work here
		}
	}
	return atimeOK
}

// selfTestStrace checks that strace can trace a child here and that the parser recognises
// the calls that matter.
func selfTestStrace(run *ev.Run, bin, marker string) bool {
	if _, err := exec.LookPath("strace"); err != nil {
		run.Assume("strace is not installed: the system-call monitor was not used")
		return false
	}
	dir := filepath.Join(bin, "st-self")
	_ = os.RemoveAll(dir)
	_ = os.MkdirAll(filepath.Join(dir, "w"), 0o755)
	defer os.RemoveAll(dir)
	prefix := filepath.Join(dir, "log")
	script := "echo x > w/f1; mkdir w/d1; mv w/f1 w/f2; ln -s . w/sl; rm w/f2; rmdir w/d1"
	cmd := exec.Command("strace", "-ff", "-o", prefix, "-s", "16384", "-y", "-e", "trace="+straceSet, "-e", "signal=none", "/bin/sh", "-c", script)
	cmd.Dir = dir
	if out, err := cmd.CombinedOutput(); err != nil {
		run.Assume("strace cannot trace children in this environment (" + clip(strings.TrimSpace(string(out)), 120) + "): the system-call monitor was not used")
		return false
	}
	evs, lines := parseStrace(prefix, dir)
	want := map[string]bool{"w/f1": false, "w/d1": false, "w/f2": false, "w/sl": false}
	for _, e := range evs {
		if !e.Write {
			continue
		}
		for _, p := range e.Paths {
			for k := range want {
				if p == filepath.Join(dir, k) {
					want[k] = true
				}
			}
		}
	}
	for k, ok := range want {
		if !ok {
			run.Inconclusive(fmt.Sprintf("strace self-test: the parser missed the write to %s (%d lines, %d events)", k, lines, len(evs)))
			return false
		}
	}
	run.Count("monitor_selftest_strace_paths_recognised", len(want))
	return true
}
