package main

// Workload (d): every OCI-layout operation that takes a digest, tag or descriptor, called
// through the public API (regclient.RegClient with an ocidir:// reference) and directly on
// the scheme (ocidir.OCIDir), with hostile digests / tags and with layouts whose index.json
// and manifests carry hostile descriptors. Victim files and empty victim directories sit
// where the digest, read as blobs/<alg>/<enc>, resolves to.

import (
	"bytes"
	"context"
	"encoding/json"
	"fmt"
	"io"
	"os"
	"strings"

	"github.com/opencontainers/go-digest"
	"github.com/regclient/regclient"
	"github.com/regclient/regclient/scheme"
	"github.com/regclient/regclient/scheme/ocidir"
	"github.com/regclient/regclient/types/descriptor"
	"github.com/regclient/regclient/types/manifest"
	"github.com/regclient/regclient/types/ref"

	"verif/ev"
	la "verif/layoutaudit"
)

var layoutVariants = []string{"clean", "clean", "index-entry-hostile", "manifest-hostile-layer", "index-child-hostile", "subject-hostile", "referrers-hostile"}

// digestGroup coarsens digest classes for fingerprints (one defect, one fingerprint).
func digestGroup(cls string) string {
	switch cls {
	case "enc-dotdot", "enc-dotdot-emptydir", "enc-dotdot-new", "enc-dotdot-sha512", "enc-dotdot-many", "long", "odd-sep", "unknown-alg", "multi-colon", "abs-enc":
		return "enc-traversal"
	case "alg-slash", "alg-dotdot", "empty-parts":
		return "alg-traversal"
	case "no-colon", "nul", "case-short":
		return "malformed"
	case "dot-enc", "inside-layout":
		return "dots"
	}
	return cls
}

type oenv struct {
	rc     *regclient.RegClient
	o      *ocidir.OCIDir
	direct bool
	r, r2  ref.Ref
	h      string // hostile digest
	t      string // hostile tag
	im     img
	art    []byte // artifact manifest with subject = im.manD (present in the layout)
	artD   string
	evilD  string // digest of the manifest tagged "evil" in hostile layout variants ("" if none)
	mBenign, mArt, mHostileSubject manifest.Manifest
}

type ocidirOp struct {
	Name   string
	Site   string // call site used in fingerprints
	Layout bool   // the hostile content comes from the layout (tag "evil"), not from an argument
	RcOnly bool
	Run    func(ctx context.Context, e *oenv) error
}

func hdesc(e *oenv) descriptor.Descriptor {
	return descriptor.Descriptor{Digest: digest.Digest(e.h), MediaType: la.MTOCILayerGz}
}

func drain(rdr io.ReadCloser, err error) error {
	if err != nil {
		return err
	}
	_, err = io.Copy(io.Discard, rdr)
	_ = rdr.Close()
	return err
}

var ocidirOps = []ocidirOp{
	{Name: "BlobGet", Site: "BlobGet", Run: func(ctx context.Context, e *oenv) error {
		if e.direct {
			return drain(e.o.BlobGet(ctx, e.r, hdesc(e)))
		}
		return drain(e.rc.BlobGet(ctx, e.r, hdesc(e)))
	}},
	{Name: "BlobGet+size", Site: "BlobGet", Run: func(ctx context.Context, e *oenv) error {
		d := hdesc(e)
		d.Size = 17
		if e.direct {
			return drain(e.o.BlobGet(ctx, e.r, d))
		}
		return drain(e.rc.BlobGet(ctx, e.r, d))
	}},
	{Name: "BlobHead", Site: "BlobHead", Run: func(ctx context.Context, e *oenv) error {
		if e.direct {
			_, err := e.o.BlobHead(ctx, e.r, hdesc(e))
			return err
		}
		_, err := e.rc.BlobHead(ctx, e.r, hdesc(e))
		return err
	}},
	{Name: "BlobDelete", Site: "BlobDelete", Run: func(ctx context.Context, e *oenv) error {
		if e.direct {
			return e.o.BlobDelete(ctx, e.r, hdesc(e))
		}
		return e.rc.BlobDelete(ctx, e.r, hdesc(e))
	}},
	{Name: "BlobPut", Site: "BlobPut", Run: func(ctx context.Context, e *oenv) error {
		b := []byte("blob put payload")
		d := hdesc(e)
		d.Size = int64(len(b))
		if e.direct {
			_, err := e.o.BlobPut(ctx, e.r, d, bytes.NewReader(b))
			return err
		}
		_, err := e.rc.BlobPut(ctx, e.r, d, bytes.NewReader(b))
		return err
	}},
	{Name: "BlobPut-nosize", Site: "BlobPut", Run: func(ctx context.Context, e *oenv) error {
		b := []byte("blob put payload, size unknown")
		if e.direct {
			_, err := e.o.BlobPut(ctx, e.r, hdesc(e), bytes.NewReader(b))
			return err
		}
		_, err := e.rc.BlobPut(ctx, e.r, hdesc(e), bytes.NewReader(b))
		return err
	}},
	{Name: "BlobCopy", Site: "BlobCopy", RcOnly: true, Run: func(ctx context.Context, e *oenv) error {
		return e.rc.BlobCopy(ctx, e.r, e.r2, hdesc(e))
	}},
	{Name: "BlobGetOCIConfig", Site: "BlobGet", RcOnly: true, Run: func(ctx context.Context, e *oenv) error {
		_, err := e.rc.BlobGetOCIConfig(ctx, e.r, hdesc(e))
		return err
	}},
	{Name: "ManifestGet", Site: "ManifestGet", Run: func(ctx context.Context, e *oenv) error {
		if e.direct {
			_, err := e.o.ManifestGet(ctx, e.r.SetDigest(e.h))
			return err
		}
		_, err := e.rc.ManifestGet(ctx, e.r.SetDigest(e.h))
		return err
	}},
	{Name: "ManifestGet+AddDigest", Site: "ManifestGet", Run: func(ctx context.Context, e *oenv) error {
		if e.direct {
			_, err := e.o.ManifestGet(ctx, e.r.SetTag("v1").AddDigest(e.h))
			return err
		}
		_, err := e.rc.ManifestGet(ctx, e.r.SetTag("v1").AddDigest(e.h))
		return err
	}},
	{Name: "ManifestGet+WithManifestDesc", Site: "ManifestGet", RcOnly: true, Run: func(ctx context.Context, e *oenv) error {
		d := hdesc(e)
		d.MediaType = la.MTOCIManifest
		_, err := e.rc.ManifestGet(ctx, e.r.SetTag("v1"), regclient.WithManifestDesc(d))
		return err
	}},
	{Name: "ManifestHead", Site: "ManifestHead", Run: func(ctx context.Context, e *oenv) error {
		if e.direct {
			_, err := e.o.ManifestHead(ctx, e.r.SetDigest(e.h))
			return err
		}
		_, err := e.rc.ManifestHead(ctx, e.r.SetDigest(e.h), regclient.WithManifestRequireDigest())
		return err
	}},
	{Name: "ManifestPut", Site: "ManifestPut", Run: func(ctx context.Context, e *oenv) error {
		if e.direct {
			return e.o.ManifestPut(ctx, e.r.SetDigest(e.h), e.mBenign)
		}
		return e.rc.ManifestPut(ctx, e.r.SetDigest(e.h), e.mBenign)
	}},
	{Name: "ManifestPut+child", Site: "ManifestPut", Run: func(ctx context.Context, e *oenv) error {
		if e.direct {
			return e.o.ManifestPut(ctx, e.r.SetDigest(e.h), e.mBenign, scheme.WithManifestChild())
		}
		return e.rc.ManifestPut(ctx, e.r.SetDigest(e.h), e.mBenign, regclient.WithManifestChild())
	}},
	{Name: "ManifestPut-hostile-tag", Site: "ManifestPut", Run: func(ctx context.Context, e *oenv) error {
		if e.direct {
			return e.o.ManifestPut(ctx, e.r.SetTag(e.t), e.mBenign)
		}
		return e.rc.ManifestPut(ctx, e.r.SetTag(e.t), e.mBenign)
	}},
	{Name: "ManifestPut-subject-hostile", Site: "ManifestPut", Run: func(ctx context.Context, e *oenv) error {
		if e.mHostileSubject == nil {
			return fmt.Errorf("harness: manifest with hostile subject could not be built")
		}
		if e.direct {
			return e.o.ManifestPut(ctx, e.r.SetTag("withsubject"), e.mHostileSubject)
		}
		return e.rc.ManifestPut(ctx, e.r.SetTag("withsubject"), e.mHostileSubject)
	}},
	{Name: "ManifestDelete", Site: "ManifestDelete", Run: func(ctx context.Context, e *oenv) error {
		if e.direct {
			return e.o.ManifestDelete(ctx, e.r.SetDigest(e.h))
		}
		return e.rc.ManifestDelete(ctx, e.r.SetDigest(e.h))
	}},
	{Name: "ManifestDelete+CheckReferrers", Site: "ManifestDelete", Run: func(ctx context.Context, e *oenv) error {
		if e.direct {
			return e.o.ManifestDelete(ctx, e.r.SetDigest(e.h), scheme.WithManifestCheckReferrers())
		}
		return e.rc.ManifestDelete(ctx, e.r.SetDigest(e.h), regclient.WithManifestCheckReferrers())
	}},
	{Name: "ManifestDelete+WithManifest", Site: "ManifestDelete+WithManifest", Run: func(ctx context.Context, e *oenv) error {
		if e.direct {
			return e.o.ManifestDelete(ctx, e.r.SetDigest(e.h), scheme.WithManifest(e.mBenign))
		}
		return e.rc.ManifestDelete(ctx, e.r.SetDigest(e.h), regclient.WithManifest(e.mBenign))
	}},
	{Name: "ManifestDelete+WithManifest(subject)", Site: "ManifestDelete+WithManifest", Run: func(ctx context.Context, e *oenv) error {
		if e.direct {
			return e.o.ManifestDelete(ctx, e.r.SetDigest(e.h), scheme.WithManifest(e.mArt))
		}
		return e.rc.ManifestDelete(ctx, e.r.SetDigest(e.h), regclient.WithManifest(e.mArt))
	}},
	{Name: "ManifestDelete(valid)+WithManifest(hostile-subject)", Site: "ManifestDelete+WithManifest/subject", Run: func(ctx context.Context, e *oenv) error {
		if e.mHostileSubject == nil {
			return fmt.Errorf("harness: manifest with hostile subject could not be built")
		}
		if e.direct {
			return e.o.ManifestDelete(ctx, e.r.SetDigest(e.artD), scheme.WithManifest(e.mHostileSubject))
		}
		return e.rc.ManifestDelete(ctx, e.r.SetDigest(e.artD), regclient.WithManifest(e.mHostileSubject))
	}},
	{Name: "ReferrerList", Site: "ReferrerList", Run: func(ctx context.Context, e *oenv) error {
		if e.direct {
			_, err := e.o.ReferrerList(ctx, e.r.SetDigest(e.h))
			return err
		}
		_, err := e.rc.ReferrerList(ctx, e.r.SetDigest(e.h))
		return err
	}},
	{Name: "ReferrerList+source", Site: "ReferrerList", Run: func(ctx context.Context, e *oenv) error {
		if e.direct {
			_, err := e.o.ReferrerList(ctx, e.r.SetDigest(e.h), scheme.WithReferrerSource(e.r2))
			return err
		}
		_, err := e.rc.ReferrerList(ctx, e.r.SetDigest(e.h), scheme.WithReferrerSource(e.r2))
		return err
	}},
	{Name: "TagDelete", Site: "TagDelete", Run: func(ctx context.Context, e *oenv) error {
		if e.direct {
			return e.o.TagDelete(ctx, e.r.SetTag(e.t))
		}
		return e.rc.TagDelete(ctx, e.r.SetTag(e.t))
	}},
	{Name: "TagList", Site: "TagList", Layout: true, Run: func(ctx context.Context, e *oenv) error {
		if e.direct {
			_, err := e.o.TagList(ctx, e.r)
			return err
		}
		_, err := e.rc.TagList(ctx, e.r)
		return err
	}},
	{Name: "Close-after-put(GC)", Site: "Close", Layout: true, Run: func(ctx context.Context, e *oenv) error {
		b := []byte("unreferenced blob that the collection may remove")
		if e.direct {
			if _, err := e.o.BlobPut(ctx, e.r, descriptor.Descriptor{}, bytes.NewReader(b)); err != nil {
				return err
			}
			return e.o.Close(ctx, e.r)
		}
		if _, err := e.rc.BlobPut(ctx, e.r, descriptor.Descriptor{}, bytes.NewReader(b)); err != nil {
			return err
		}
		return e.rc.Close(ctx, e.r)
	}},
	{Name: "Close-after-tagdelete(GC)", Site: "Close", Layout: true, Run: func(ctx context.Context, e *oenv) error {
		if e.direct {
			if err := e.o.TagDelete(ctx, e.r.SetTag("v1")); err != nil {
				return err
			}
			return e.o.Close(ctx, e.r)
		}
		if err := e.rc.TagDelete(ctx, e.r.SetTag("v1")); err != nil {
			return err
		}
		return e.rc.Close(ctx, e.r)
	}},
	{Name: "ManifestGet(tag evil)", Site: "ManifestGet", Layout: true, Run: func(ctx context.Context, e *oenv) error {
		if e.direct {
			_, err := e.o.ManifestGet(ctx, e.r.SetTag("evil"))
			return err
		}
		_, err := e.rc.ManifestGet(ctx, e.r.SetTag("evil"))
		return err
	}},
	{Name: "ManifestHead(tag evil)", Site: "ManifestHead", Layout: true, Run: func(ctx context.Context, e *oenv) error {
		if e.direct {
			_, err := e.o.ManifestHead(ctx, e.r.SetTag("evil"))
			return err
		}
		_, err := e.rc.ManifestHead(ctx, e.r.SetTag("evil"))
		return err
	}},
	{Name: "ManifestDelete(evil manifest from layout)", Site: "ManifestDelete", Layout: true, Run: func(ctx context.Context, e *oenv) error {
		if e.evilD == "" {
			return fmt.Errorf("layout variant has no evil manifest")
		}
		var err error
		if e.direct {
			err = e.o.ManifestDelete(ctx, e.r.SetDigest(e.evilD))
			_ = e.o.Close(ctx, e.r)
		} else {
			err = e.rc.ManifestDelete(ctx, e.r.SetDigest(e.evilD), regclient.WithManifestCheckReferrers())
			_ = e.rc.Close(ctx, e.r)
		}
		return err
	}},
	{Name: "ReferrerList(tag v1)", Site: "ReferrerList", Layout: true, RcOnly: true, Run: func(ctx context.Context, e *oenv) error {
		rl, err := e.rc.ReferrerList(ctx, e.r.SetTag("v1"))
		if err != nil {
			return err
		}
		// follow what the list says, as a CLI would
		for _, d := range rl.Descriptors {
			_, _ = e.rc.ManifestGet(ctx, e.r.SetDigest(d.Digest.String()))
			_, _ = e.rc.ManifestHead(ctx, e.r.SetDigest(d.Digest.String()))
		}
		return nil
	}},
	{Name: "ImageCopy(evil->layout2)", Site: "ImageCopy", Layout: true, RcOnly: true, Run: func(ctx context.Context, e *oenv) error {
		err := e.rc.ImageCopy(ctx, e.r.SetTag("evil"), e.r2.SetTag("copy"))
		_ = e.rc.Close(ctx, e.r2)
		return err
	}},
	{Name: "ImageCopy(v1->layout2,referrers,digest-tags)", Site: "ImageCopy", Layout: true, RcOnly: true, Run: func(ctx context.Context, e *oenv) error {
		err := e.rc.ImageCopy(ctx, e.r.SetTag("v1"), e.r2.SetTag("copy"), regclient.ImageWithReferrers(), regclient.ImageWithDigestTags(), regclient.ImageWithForceRecursive())
		_ = e.rc.Close(ctx, e.r2)
		return err
	}},
	{Name: "ImageCopy(@hostile->layout2)", Site: "ImageCopy", RcOnly: true, Run: func(ctx context.Context, e *oenv) error {
		err := e.rc.ImageCopy(ctx, e.r.SetDigest(e.h), e.r2.SetTag("copy"))
		_ = e.rc.Close(ctx, e.r2)
		return err
	}},
	{Name: "ImageCopy(layout2<-v1 to @hostile)", Site: "ImageCopy", RcOnly: true, Run: func(ctx context.Context, e *oenv) error {
		err := e.rc.ImageCopy(ctx, e.r.SetTag("v1"), e.r2.SetDigest(e.h))
		_ = e.rc.Close(ctx, e.r2)
		return err
	}},
	{Name: "ImageExport(evil)", Site: "ImageExport", Layout: true, RcOnly: true, Run: func(ctx context.Context, e *oenv) error {
		return e.rc.ImageExport(ctx, e.r.SetTag("evil"), io.Discard)
	}},
}

// buildLayout writes the layout of a case with plain os calls and returns the pieces.
func buildLayout(g *Guard, variant string, h string, im img) (art []byte, evilD string, err error) {
	desc := func(mt, d string, size int) map[string]any { return map[string]any{"mediaType": mt, "digest": d, "size": size} }
	art, _ = json.Marshal(map[string]any{"schemaVersion": 2, "mediaType": la.MTOCIManifest, "artifactType": "application/vnd.verif.c20",
		"config": desc("application/vnd.oci.empty.v1+json", la.Digest("sha256", []byte(emptyCfg)), 2),
		"layers":  []map[string]any{desc("application/octet-stream", la.Digest("sha256", []byte(emptyCfg)), 2)},
		"subject": desc(la.MTOCIManifest, im.manD, len(im.man))})
	artD := la.Digest("sha256", art)
	blobs := map[string][]byte{im.manD: im.man, im.cfgD: im.cfg, im.layerD: im.layer, la.Digest("sha256", []byte(emptyCfg)): []byte(emptyCfg), artD: art}
	tagEntry := func(mt, d string, size int, tag string) map[string]any {
		e := desc(mt, d, size)
		e["annotations"] = map[string]string{la.AnnotRefName: tag}
		return e
	}
	index := []map[string]any{tagEntry(la.MTOCIManifest, im.manD, len(im.man), "v1")}
	// referrers fallback tag of the image
	fb := "sha256-" + strings.TrimPrefix(im.manD, "sha256:")
	refEntries := []map[string]any{{"mediaType": la.MTOCIManifest, "digest": artD, "size": len(art), "artifactType": "application/vnd.verif.c20"}}
	switch variant {
	case "index-entry-hostile":
		index = append(index, tagEntry(la.MTOCIManifest, h, len(im.man), "evil"))
		index = append(index, desc(la.MTOCIManifest, h, 3)) // untagged entry as well
	case "manifest-hostile-layer":
		man, _ := json.Marshal(map[string]any{"schemaVersion": 2, "mediaType": la.MTOCIManifest,
			"config": desc(la.MTOCIConfig, im.cfgD, len(im.cfg)),
			"layers": []map[string]any{desc(la.MTOCILayerGz, im.layerD, len(im.layer)), desc(la.MTOCILayerGz, h, 9)}})
		evilD = la.Digest("sha256", man)
		blobs[evilD] = man
		index = append(index, tagEntry(la.MTOCIManifest, evilD, len(man), "evil"))
	case "index-child-hostile":
		idx, _ := json.Marshal(map[string]any{"schemaVersion": 2, "mediaType": la.MTOCIIndex,
			"manifests": []map[string]any{desc(la.MTOCIManifest, im.manD, len(im.man)), desc(la.MTOCIManifest, h, 11)}})
		evilD = la.Digest("sha256", idx)
		blobs[evilD] = idx
		index = append(index, tagEntry(la.MTOCIIndex, evilD, len(idx), "evil"))
	case "subject-hostile":
		man, _ := json.Marshal(map[string]any{"schemaVersion": 2, "mediaType": la.MTOCIManifest, "artifactType": "application/vnd.verif.c20",
			"config":  desc("application/vnd.oci.empty.v1+json", la.Digest("sha256", []byte(emptyCfg)), 2),
			"layers":  []map[string]any{desc("application/octet-stream", la.Digest("sha256", []byte(emptyCfg)), 2)},
			"subject": desc(la.MTOCIManifest, h, 7)})
		evilD = la.Digest("sha256", man)
		blobs[evilD] = man
		index = append(index, tagEntry(la.MTOCIManifest, evilD, len(man), "evil"))
	case "referrers-hostile":
		refEntries = append(refEntries, map[string]any{"mediaType": la.MTOCIManifest, "digest": h, "size": 5, "artifactType": "application/vnd.verif.c20"})
	}
	refIdx, _ := json.Marshal(map[string]any{"schemaVersion": 2, "mediaType": la.MTOCIIndex, "manifests": refEntries})
	refIdxD := la.Digest("sha256", refIdx)
	blobs[refIdxD] = refIdx
	index = append(index, tagEntry(la.MTOCIIndex, refIdxD, len(refIdx), fb))
	if variant == "referrers-hostile" {
		evilD = refIdxD
		index = append(index, tagEntry(la.MTOCIIndex, refIdxD, len(refIdx), "evil"))
	}
	if err := writeRawLayout(g.Layout, blobs, index); err != nil {
		return nil, "", err
	}
	// an empty algorithm directory, as left behind by other tools
	_ = os.MkdirAll(g.Layout+"/blobs/sha512", 0o755)
	return art, evilD, nil
}

func (ip *inproc) ocidirWorkload(n int) {
	run, g := ip.run, ip.g
	type combo struct{ op, dc int }
	var core []combo
	for o := range ocidirOps {
		seen := map[string]bool{}
		for d, c := range digestClasses {
			if seen[c] {
				continue
			}
			seen[c] = true
			core = append(core, combo{o, d})
		}
	}
	byOp := map[string]map[string]int{}
	defer func() { run.Put("ocidir_outcomes_by_op", byOp) }()
	for i := 0; i < n && !inprocDead; i++ {
		rng := ev.Rand(fmt.Sprintf("c20/ocidir/%d", i))
		var op ocidirOp
		var dcls string
		if i < len(core) {
			op, dcls = ocidirOps[core[i].op], digestClasses[core[i].dc]
		} else {
			op, dcls = ocidirOps[rng.Intn(len(ocidirOps))], digestClasses[rng.Intn(len(digestClasses))]
		}
		variant := layoutVariants[rng.Intn(len(layoutVariants))]
		if op.Layout && variant == "clean" {
			variant = layoutVariants[2+rng.Intn(len(layoutVariants)-2)]
		}
		direct := !op.RcOnly && rng.Intn(2) == 0
		im := mkImage(rng, g.marker)
		hd := g.digest(rng, dcls, g.Layout, im.layerD)
		ht := g.tag(rng)
		if !ip.prepare() {
			return
		}
		art, evilD, err := buildLayout(g, variant, hd.S, im)
		if err != nil {
			run.Inconclusive("cannot write layout: " + err.Error())
			return
		}
		if rng.Intn(2) == 0 {
			// the second layout exists already
			_ = writeRawLayout(g.Layout2, map[string][]byte{}, nil)
		}
		_ = os.Chtimes(g.Levels[spineDepth], oldTime, oldTime)
		// refresh the baseline view of nothing: designated dirs are not part of it
		e := &oenv{direct: direct, h: hd.S, t: ht.S, im: im, art: art, artD: la.Digest("sha256", art), evilD: evilD}
		e.r, err = ref.New("ocidir://" + g.Layout)
		if err != nil {
			run.Inconclusive("cannot build reference: " + err.Error())
			return
		}
		e.r2, _ = ref.New("ocidir://" + g.Layout2)
		e.mBenign, err = manifest.New(manifest.WithRaw(im.man))
		if err != nil {
			run.Inconclusive("cannot parse own manifest: " + err.Error())
			return
		}
		e.mArt, err = manifest.New(manifest.WithRaw(art))
		if err != nil {
			run.Inconclusive("cannot parse own artifact manifest: " + err.Error())
			return
		}
		hs, _ := json.Marshal(map[string]any{"schemaVersion": 2, "mediaType": la.MTOCIManifest, "artifactType": "application/vnd.verif.c20",
			"config":  map[string]any{"mediaType": "application/vnd.oci.empty.v1+json", "digest": la.Digest("sha256", []byte(emptyCfg)), "size": 2},
			"layers":  []map[string]any{{"mediaType": "application/octet-stream", "digest": la.Digest("sha256", []byte(emptyCfg)), "size": 2}},
			"subject": map[string]any{"mediaType": la.MTOCIManifest, "digest": hd.S, "size": 7}})
		e.mHostileSubject, _ = manifest.New(manifest.WithRaw(hs)) // may be refused by the parser: then the op reports a harness error
		res := guarded(func(ctx context.Context) error {
			if direct {
				e.o = ocidir.New()
			} else {
				e.rc = regclient.New()
			}
			return op.Run(ctx, e)
		})
		run.Eval(1)
		run.Count("ocidir_calls", 1)
		if byOp[op.Name] == nil {
			byOp[op.Name] = map[string]int{}
		}
		if res.err == nil && !res.panicked {
			run.Count("ocidir_calls_returned_nil", 1)
			byOp[op.Name]["nil"]++
			if isEscapingDigest(dcls) && !op.Layout {
				byOp[op.Name]["nil_with_escaping_digest"]++
			}
		} else {
			run.Count("ocidir_calls_returned_error", 1)
			byOp[op.Name]["error"]++
		}
		via := "regclient.RegClient"
		if direct {
			via = "ocidir.OCIDir"
		}
		wit := map[string]any{"workload": "ocidir operation", "case": i, "op": op.Name, "via": via, "layout": g.Layout, "layout2": g.Layout2, "layout_variant": variant,
			"hostile_digest": clip(fmt.Sprintf("%q", hd.S), 500), "digest_class": dcls, "hostile_tag": clip(fmt.Sprintf("%q", ht.S), 200),
			"how_to_reproduce": fmt.Sprintf("r, _ := ref.New(\"ocidir://<layout>\"); call %s with r.SetDigest(hostile_digest) / the descriptor digest set to it (see op); layout as described by layout_variant", op.Name)}
		fp := "ocidir/" + op.Site + "/" + digestGroup(dcls)
		if op.Layout {
			fp = "ocidir/" + op.Site + "/layout:" + variant + "/" + digestGroup(dcls)
		}
		ip.observe(fp, op.Name+" ("+via+")", res, wit)
		run.Distinct(fmt.Sprintf("ocidir/%s/%s/%s/direct=%v", op.Name, dcls, variant, direct))
		run.SetAdd("ocidir_ops_called", op.Name)
		run.SetAdd("ocidir_digest_classes", dcls)
		if isEscapingDigest(dcls) {
			run.Count("ocidir_calls_with_escaping_digest", 1)
		}
		if strings.HasPrefix(op.Name, "ManifestDelete") {
			run.Count("ocidir_manifest_delete_calls", 1)
		}
		if i%331 == 11 {
			run.Sample(map[string]any{"workload": "ocidir", "op": op.Name, "via": via, "layout_variant": variant, "digest": clip(fmt.Sprintf("%q", hd.S), 200), "digest_class": dcls, "error": res.errString()})
		}
	}
}
