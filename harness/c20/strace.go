package main

// Second, independent monitor for the regctl runs: the child is run under
// `strace -ff` restricted to path-taking system calls; every successful call that creates,
// removes, renames, links or changes attributes of a path, and every successful open with
// write / create / truncate flags, is resolved to an absolute path and classified as
// inside a designated directory / inside the guard but outside / elsewhere.

import (
	"os"
	"path/filepath"
	"regexp"
	"strconv"
	"strings"
)

const straceSet = "open,openat,openat2,creat,mkdir,mkdirat,rmdir,unlink,unlinkat,rename,renameat,renameat2,symlink,symlinkat,link,linkat,mknod,mknodat,chmod,fchmodat,chown,lchown,fchownat,truncate,utimensat,utime,utimes,futimesat,chdir,setxattr,lsetxattr,removexattr,lremovexattr"

type sysEvent struct {
	Call   string   `json:"call"`
	Paths  []string `json:"paths"` // absolute, lexically cleaned (open: kernel-resolved)
	Write  bool     `json:"write"` // namespace / attribute mutation or open for writing
	Create bool     `json:"create,omitempty"`
	Line   string   `json:"line"`
}

var reCall = regexp.MustCompile(`^([a-z0-9_]+)\((.*)\)\s+= (-?\d+|\?)(.*)$`)

// parseStrace reads every per-thread log with the given prefix.
func parseStrace(prefix, cwd string) (evs []sysEvent, lines int) {
	files, _ := filepath.Glob(prefix + ".*")
	for _, f := range files {
		b, err := os.ReadFile(f)
		if err != nil {
			continue
		}
		for _, l := range strings.Split(string(b), "\n") {
			if l == "" || strings.HasPrefix(l, "+++") || strings.HasPrefix(l, "---") {
				continue
			}
			lines++
			m := reCall.FindStringSubmatch(l)
			if m == nil {
				continue
			}
			ret, _ := strconv.Atoi(m[3])
			if m[3] == "?" || ret < 0 {
				continue
			}
			if e, ok := classify(m[1], m[2], m[4], cwd, l); ok {
				evs = append(evs, e)
			}
		}
	}
	return evs, lines
}

// splitArgs splits a strace argument list at top-level commas, honouring quotes and brackets.
func splitArgs(s string) []string {
	var out []string
	depth, inq, esc := 0, false, false
	cur := strings.Builder{}
	for i := 0; i < len(s); i++ {
		c := s[i]
		if inq {
			cur.WriteByte(c)
			if esc {
				esc = false
			} else if c == '\\' {
				esc = true
			} else if c == '"' {
				inq = false
			}
			continue
		}
		switch c {
		case '"':
			inq = true
			cur.WriteByte(c)
		case '{', '[', '<', '(':
			depth++
			cur.WriteByte(c)
		case '}', ']', '>', ')':
			depth--
			cur.WriteByte(c)
		case ',':
			if depth == 0 {
				out = append(out, strings.TrimSpace(cur.String()))
				cur.Reset()
			} else {
				cur.WriteByte(c)
			}
		default:
			cur.WriteByte(c)
		}
	}
	if cur.Len() > 0 {
		out = append(out, strings.TrimSpace(cur.String()))
	}
	return out
}

// unq decodes a strace string literal ("..." with C escapes, optional trailing "...").
func unq(s string) (string, bool) {
	s = strings.TrimSuffix(s, "...")
	if len(s) < 2 || s[0] != '"' || s[len(s)-1] != '"' {
		return "", false
	}
	s = s[1 : len(s)-1]
	var b strings.Builder
	for i := 0; i < len(s); i++ {
		c := s[i]
		if c != '\\' || i+1 >= len(s) {
			b.WriteByte(c)
			continue
		}
		i++
		switch s[i] {
		case 'n':
			b.WriteByte('\n')
		case 't':
			b.WriteByte('\t')
		case 'r':
			b.WriteByte('\r')
		case 'v':
			b.WriteByte('\v')
		case 'f':
			b.WriteByte('\f')
		case '"':
			b.WriteByte('"')
		case '\\':
			b.WriteByte('\\')
		case 'x':
			if i+2 < len(s) {
				v, _ := strconv.ParseUint(s[i+1:i+3], 16, 8)
				b.WriteByte(byte(v))
				i += 2
			}
		default:
			// octal, 1-3 digits
			j := i
			for j < len(s) && j < i+3 && s[j] >= '0' && s[j] <= '7' {
				j++
			}
			if j > i {
				v, _ := strconv.ParseUint(s[i:j], 8, 8)
				b.WriteByte(byte(v))
				i = j - 1
			} else {
				b.WriteByte(s[i])
			}
		}
	}
	return b.String(), true
}

// dirOf extracts the directory a dirfd argument denotes: AT_FDCWD</p> or 5</p>.
func dirOf(arg, cwd string) string {
	if i := strings.IndexByte(arg, '<'); i >= 0 && strings.HasSuffix(arg, ">") {
		return arg[i+1 : len(arg)-1]
	}
	return cwd
}

func absJoin(dir, p string) string {
	if filepath.IsAbs(p) {
		return filepath.Clean(p)
	}
	return filepath.Join(dir, p)
}

func classify(call, args, tail, cwd, line string) (sysEvent, bool) {
	a := splitArgs(args)
	e := sysEvent{Call: call, Line: line}
	if len(line) > 600 {
		e.Line = line[:300] + " ... " + line[len(line)-200:]
	}
	str := func(i int) (string, bool) {
		if i >= len(a) {
			return "", false
		}
		return unq(a[i])
	}
	switch call {
	case "open", "openat", "openat2", "creat":
		pi, fi, dir := 0, 1, cwd
		if call != "open" && call != "creat" {
			pi, fi = 1, 2
			if len(a) > 0 {
				dir = dirOf(a[0], cwd)
			}
		}
		p, ok := str(pi)
		if !ok {
			return e, false
		}
		flags := ""
		if fi < len(a) {
			flags = a[fi]
		}
		if call == "creat" {
			flags = "O_WRONLY|O_CREAT|O_TRUNC"
		}
		e.Write = strings.Contains(flags, "O_WRONLY") || strings.Contains(flags, "O_RDWR") || strings.Contains(flags, "O_CREAT") || strings.Contains(flags, "O_TRUNC")
		e.Create = strings.Contains(flags, "O_CREAT")
		// the kernel-resolved path is printed after the return value: " = 3</real/path>"
		res := absJoin(dir, p)
		if i := strings.IndexByte(tail, '<'); i >= 0 {
			if j := strings.LastIndexByte(tail, '>'); j > i {
				res = tail[i+1 : j]
			}
		}
		e.Paths = []string{res}
		if strings.Contains(flags, "O_DIRECTORY") && !e.Write {
			e.Call = call + "(dir)"
		}
		return e, true
	case "mkdir", "rmdir", "unlink", "chmod", "chown", "lchown", "truncate", "utime", "utimes", "mknod", "setxattr", "lsetxattr", "removexattr", "lremovexattr":
		p, ok := str(0)
		if !ok {
			return e, false
		}
		e.Write = true
		e.Create = call == "mkdir" || call == "mknod"
		e.Paths = []string{absJoin(cwd, p)}
		return e, true
	case "mkdirat", "unlinkat", "fchmodat", "fchownat", "mknodat", "futimesat", "utimensat":
		if len(a) < 2 {
			return e, false
		}
		p, ok := str(1)
		if !ok {
			// utimensat(fd, NULL, ...) acts on the descriptor itself
			if call == "utimensat" && a[1] == "NULL" {
				e.Write = true
				e.Paths = []string{dirOf(a[0], cwd)}
				return e, true
			}
			return e, false
		}
		e.Write = true
		e.Create = call == "mkdirat" || call == "mknodat"
		e.Paths = []string{absJoin(dirOf(a[0], cwd), p)}
		return e, true
	case "rename", "link", "symlink":
		p1, ok1 := str(0)
		p2, ok2 := str(1)
		if !ok1 || !ok2 {
			return e, false
		}
		e.Write = true
		e.Create = true
		if call == "symlink" {
			e.Paths = []string{absJoin(cwd, p2)} // the target string is not a path that is touched
		} else {
			e.Paths = []string{absJoin(cwd, p1), absJoin(cwd, p2)}
		}
		return e, true
	case "renameat", "renameat2", "linkat":
		if len(a) < 4 {
			return e, false
		}
		p1, ok1 := str(1)
		p2, ok2 := str(3)
		if !ok1 || !ok2 {
			return e, false
		}
		e.Write = true
		e.Create = true
		e.Paths = []string{absJoin(dirOf(a[0], cwd), p1), absJoin(dirOf(a[2], cwd), p2)}
		return e, true
	case "symlinkat":
		if len(a) < 3 {
			return e, false
		}
		p2, ok := str(2)
		if !ok {
			return e, false
		}
		e.Write = true
		e.Create = true
		e.Paths = []string{absJoin(dirOf(a[1], cwd), p2)}
		return e, true
	case "chdir":
		p, ok := str(0)
		if !ok {
			return e, false
		}
		e.Call = "chdir"
		e.Paths = []string{absJoin(cwd, p)}
		return e, true
	}
	return e, false
}
