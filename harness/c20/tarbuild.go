package main

// Hostile tar construction. Entries are written with the standard library writer (PAX or
// GNU long names when needed) or, for the "raw" format, with our own 512-byte ustar header
// writer so that the prefix field and odd type flags can be chosen freely.

import (
	"archive/tar"
	"bytes"
	"compress/gzip"
	"fmt"
	"io"
	"math/rand"
	"path/filepath"
	"strings"
	"sync"

	"github.com/klauspost/compress/zstd"
)

type tarEntry struct {
	Name   string `json:"name"`
	Prefix string `json:"prefix,omitempty"` // raw format only
	Link   string `json:"link,omitempty"`
	Type   byte   `json:"type"`
	Mode   int64  `json:"mode"`
	Body   string `json:"body,omitempty"`
	Format string `json:"format,omitempty"` // "", "gnu", "raw"
	Short  int    `json:"short,omitempty"`  // declare Size = len(Body)+Short (truncated archive)
}

func (e tarEntry) short() string {
	n := e.Name
	if len(n) > 120 {
		n = fmt.Sprintf("%s...(%d bytes)", n[:100], len(n))
	}
	s := fmt.Sprintf("%c %q", e.Type, n)
	if e.Prefix != "" {
		s += fmt.Sprintf(" prefix=%q", e.Prefix)
	}
	if e.Link != "" {
		s += fmt.Sprintf(" -> %q", e.Link)
	}
	return s
}

func octal(b []byte, v int64) {
	s := fmt.Sprintf("%0*o", len(b)-1, v)
	copy(b, s)
	b[len(b)-1] = 0
}

func rawHeader(e tarEntry) []byte {
	h := make([]byte, 512)
	copy(h[0:100], e.Name)
	octal(h[100:108], e.Mode&0o7777777)
	octal(h[108:116], 0)
	octal(h[116:124], 0)
	octal(h[124:136], int64(len(e.Body)+e.Short))
	octal(h[136:148], 1000000000)
	h[156] = e.Type
	copy(h[157:257], e.Link)
	copy(h[257:263], "ustar\x00")
	copy(h[263:265], "00")
	copy(h[345:500], e.Prefix)
	for i := 148; i < 156; i++ {
		h[i] = ' '
	}
	sum := 0
	for _, c := range h {
		sum += int(c)
	}
	copy(h[148:156], fmt.Sprintf("%06o\x00 ", sum))
	return h
}

// buildTar renders entries. It never fails: entries the standard writer refuses are
// written in raw form instead (truncated to the field sizes).
func buildTar(entries []tarEntry) []byte {
	var buf bytes.Buffer
	tw := tar.NewWriter(&buf)
	for _, e := range entries {
		if e.Format != "raw" {
			h := &tar.Header{Name: e.Name, Linkname: e.Link, Typeflag: e.Type, Mode: e.Mode, Size: int64(len(e.Body) + e.Short)}
			if e.Type != tar.TypeReg {
				h.Size = 0
			}
			if e.Type == tar.TypeChar || e.Type == tar.TypeBlock {
				h.Devmajor, h.Devminor = 1, 3
			}
			if e.Format == "gnu" {
				h.Format = tar.FormatGNU
			}
			if err := tw.WriteHeader(h); err == nil {
				if e.Type == tar.TypeReg {
					_, _ = tw.Write([]byte(e.Body))
					if e.Short > 0 {
						// leave the archive truncated here
						_ = tw.Flush()
						return buf.Bytes()
					}
				}
				continue
			}
			// fall through to the raw writer
			_ = tw.Flush()
		} else {
			_ = tw.Flush()
		}
		// raw: write straight into the buffer (the writer has flushed its padding)
		buf.Write(rawHeader(e))
		if e.Type == tar.TypeReg || e.Type == 0 {
			buf.WriteString(e.Body)
			if e.Short > 0 {
				return buf.Bytes()
			}
			if pad := (512 - len(e.Body)%512) % 512; pad > 0 {
				buf.Write(make([]byte, pad))
			}
		}
	}
	_ = tw.Close()
	return buf.Bytes()
}

func compress(kind string, b []byte) []byte {
	switch kind {
	case "gzip":
		var out bytes.Buffer
		zw := gzip.NewWriter(&out)
		_, _ = zw.Write(b)
		_ = zw.Close()
		return out.Bytes()
	case "zstd":
		zstdOnce.Do(func() {
			zstdEnc, _ = zstd.NewWriter(nil, zstd.WithEncoderConcurrency(1), zstd.WithWindowSize(1<<16), zstd.WithLowerEncoderMem(true))
		})
		zstdMu.Lock()
		defer zstdMu.Unlock()
		return zstdEnc.EncodeAll(b, nil)
	}
	return b
}

var (
	zstdOnce sync.Once
	zstdMu   sync.Mutex
	zstdEnc  *zstd.Encoder
)

// reachable parses the archive with the standard reader and returns how many of its
// entries a conforming reader reaches (the harness' own non-triviality evidence).
func reachable(tarBytes []byte) int {
	tr := tar.NewReader(bytes.NewReader(tarBytes))
	n := 0
	for {
		_, err := tr.Next()
		if err != nil {
			return n
		}
		n++
		_, _ = io.Copy(io.Discard, tr)
	}
}

var tarPatterns = []string{"single-reg", "dir-then-reg", "symlink-then-write", "symlink-dir-then-mkdir", "hardlink-then-write", "special-files", "benign-plus-collide",
	"raw-prefix", "dup-and-type-flip", "truncated", "dir-mode", "many-mixed", "symlink-chain", "gnu-longname"}

// hostileTar builds a list of entries following pattern pat. Every entry name, prefix+name
// and link target is asserted to stay inside the guard (see hostile.go).
func (g *Guard) hostileTar(rng *rand.Rand, pat string) (entries []tarEntry, class string) {
	entries, class = g.hostileTarRaw(rng, pat)
	for _, e := range entries {
		// entries are extracted into the designated directory or one of its sub-directories
		g.assertContained("tar entry name", e.Name)
		if e.Prefix != "" {
			g.assertContained("tar entry prefix", e.Prefix)
			g.assertContained("tar entry prefix+name", e.Prefix+"/"+e.Name)
		}
		if e.Link != "" {
			if strings.HasPrefix(e.Link, "/") {
				g.assertContained("tar link target", e.Link)
			} else {
				// a relative target is resolved against the directory of the link
				for _, base := range []string{g.Out, g.Cwd, g.Layout, g.Layout2} {
					g.assertContained("tar link target", e.Link, filepath.Dir(filepath.Join(base, e.Name)))
				}
			}
		}
	}
	return entries, class
}

func (g *Guard) hostileTarRaw(rng *rand.Rand, pat string) (entries []tarEntry, class string) {
	body := func() string { return fmt.Sprintf("payload-%s-%d\n", g.marker, rng.Int63()) }
	class = pat
	switch pat {
	case "single-reg":
		n := g.entryName(rng)
		class += "/" + n.Class
		entries = append(entries, tarEntry{Name: n.S, Type: tar.TypeReg, Mode: 0o644, Body: body()})
	case "dir-then-reg":
		n := g.entryName(rng)
		class += "/" + n.Class
		d := strings.TrimSuffix(n.S, "/")
		entries = append(entries, tarEntry{Name: d + "/", Type: tar.TypeDir, Mode: 0o755},
			tarEntry{Name: d + "/" + g.pwn(), Type: tar.TypeReg, Mode: 0o644, Body: body()},
			tarEntry{Name: d + "/" + g.vFile(), Type: tar.TypeReg, Mode: 0o644, Body: body()})
	case "symlink-then-write":
		t := g.linkTarget(rng, true)
		class += "/" + t.Class
		ln := []string{"ln", "sub/ln", "existdir", "exist.txt", "./ln"}[rng.Intn(5)]
		if strings.HasPrefix(ln, "sub/") {
			entries = append(entries, tarEntry{Name: "sub/", Type: tar.TypeDir, Mode: 0o755})
		}
		entries = append(entries, tarEntry{Name: ln, Link: t.S, Type: tar.TypeSymlink, Mode: 0o777},
			tarEntry{Name: ln + "/" + g.pwn(), Type: tar.TypeReg, Mode: 0o644, Body: body()},
			tarEntry{Name: ln + "/" + g.vFile(), Type: tar.TypeReg, Mode: 0o644, Body: body()},
			tarEntry{Name: ln + "/" + g.vEmpty() + "/" + g.pwn(), Type: tar.TypeReg, Mode: 0o644, Body: body()})
	case "symlink-dir-then-mkdir":
		t := g.linkTarget(rng, true)
		class += "/" + t.Class
		entries = append(entries, tarEntry{Name: "ln", Link: t.S, Type: tar.TypeSymlink, Mode: 0o777},
			tarEntry{Name: "ln/" + g.dnew() + "/", Type: tar.TypeDir, Mode: 0o755},
			tarEntry{Name: "ln/" + g.dnew() + "/f", Type: tar.TypeReg, Mode: 0o644, Body: body()})
	case "hardlink-then-write":
		t := g.linkTarget(rng, false)
		class += "/" + t.Class
		entries = append(entries, tarEntry{Name: "hl", Link: t.S, Type: tar.TypeLink, Mode: 0o644},
			tarEntry{Name: "hl", Type: tar.TypeReg, Mode: 0o644, Body: body()},
			tarEntry{Name: "sl", Link: t.S, Type: tar.TypeSymlink, Mode: 0o777},
			tarEntry{Name: "sl", Type: tar.TypeReg, Mode: 0o644, Body: body()})
	case "special-files":
		for _, ty := range []byte{tar.TypeChar, tar.TypeBlock, tar.TypeFifo} {
			n := g.entryName(rng)
			entries = append(entries, tarEntry{Name: n.S, Type: ty, Mode: 0o666})
		}
		n := g.entryName(rng)
		class += "/" + n.Class
		entries = append(entries, tarEntry{Name: n.S, Type: tar.TypeReg, Mode: 0o4755, Body: body()})
	case "benign-plus-collide":
		entries = append(entries, tarEntry{Name: "ok/", Type: tar.TypeDir, Mode: 0o755}, tarEntry{Name: "ok/file", Type: tar.TypeReg, Mode: 0o644, Body: body()})
		n := g.title(rng, "collide")
		entries = append(entries, tarEntry{Name: n.S, Type: []byte{tar.TypeReg, tar.TypeDir}[rng.Intn(2)], Mode: 0o755, Body: ""})
		n2 := g.entryName(rng)
		class += "/" + n2.Class
		entries = append(entries, tarEntry{Name: n2.S, Type: tar.TypeReg, Mode: 0o644, Body: body()})
	case "raw-prefix":
		k := 1 + rng.Intn(8)
		// the prefix is joined with the name by readers: absolute prefixes are guard directories
		pre := []string{strings.TrimSuffix(dotdots(k), "/"), g.Levels[1+rng.Intn(3)], "a/" + dotdots(k+1) + g.vEmpty(), ".", g.Levels[1]}[rng.Intn(5)]
		if len(pre) > 155 {
			pre = strings.TrimSuffix(dotdots(k), "/")
		}
		class += "/" + []string{"reg", "dir", "old-nul-type"}[rng.Intn(3)]
		ty := byte(tar.TypeReg)
		name := []string{g.vFile(), g.pwn(), g.vEtc(), g.vEmpty() + "/" + g.pwn()}[rng.Intn(4)]
		if strings.HasSuffix(class, "dir") {
			ty = tar.TypeDir
			name = g.dnew() + "/"
		} else if strings.HasSuffix(class, "old-nul-type") {
			ty = 0
		}
		entries = append(entries, tarEntry{Name: name, Prefix: pre, Type: ty, Mode: 0o755, Body: body(), Format: "raw"})
		entries = append(entries, tarEntry{Name: dotdots(k) + g.pwn(), Type: tar.TypeReg, Mode: 0o644, Body: body(), Format: "raw"})
	case "dup-and-type-flip":
		n := g.entryName(rng)
		class += "/" + n.Class
		entries = append(entries, tarEntry{Name: n.S, Type: tar.TypeReg, Mode: 0o644, Body: body()},
			tarEntry{Name: n.S, Type: tar.TypeDir, Mode: 0o755},
			tarEntry{Name: n.S, Type: tar.TypeReg, Mode: 0o644, Body: body()},
			tarEntry{Name: strings.TrimSuffix(n.S, "/") + "/below", Type: tar.TypeReg, Mode: 0o644, Body: body()})
	case "truncated":
		n := g.entryName(rng)
		class += "/" + n.Class
		entries = append(entries, tarEntry{Name: "first", Type: tar.TypeReg, Mode: 0o644, Body: body()},
			tarEntry{Name: n.S, Type: tar.TypeReg, Mode: 0o644, Body: body(), Short: 1 + rng.Intn(5000)})
	case "dir-mode":
		n := g.entryName(rng)
		class += "/" + n.Class
		d := strings.TrimSuffix(n.S, "/")
		entries = append(entries, tarEntry{Name: d + "/", Type: tar.TypeDir, Mode: []int64{0, 0o111, 0o7777, 0o200, 0o40755}[rng.Intn(5)]},
			tarEntry{Name: d + "/in", Type: tar.TypeReg, Mode: 0o644, Body: body()},
			tarEntry{Name: dotdots(1+rng.Intn(8)) + g.vEmpty() + "/", Type: tar.TypeDir, Mode: 0},
			tarEntry{Name: dotdots(1+rng.Intn(8)) + g.vEmpty(), Type: tar.TypeDir, Mode: 0o777})
	case "many-mixed":
		for i := 0; i < 6+rng.Intn(10); i++ {
			n := g.entryName(rng)
			ty := []byte{tar.TypeReg, tar.TypeReg, tar.TypeDir, tar.TypeSymlink, tar.TypeLink}[rng.Intn(5)]
			e := tarEntry{Name: n.S, Type: ty, Mode: 0o755}
			if ty == tar.TypeReg {
				e.Body = body()
			}
			if ty == tar.TypeSymlink || ty == tar.TypeLink {
				// the link itself has a hostile location: only absolute (guard-internal) targets
				e.Link = g.absLinkTarget(rng, rng.Intn(2) == 0).S
			}
			entries = append(entries, e)
		}
	case "symlink-chain":
		t := g.linkTarget(rng, true)
		class += "/" + t.Class
		entries = append(entries, tarEntry{Name: "a", Link: "b", Type: tar.TypeSymlink, Mode: 0o777},
			tarEntry{Name: "b", Link: "c", Type: tar.TypeSymlink, Mode: 0o777},
			tarEntry{Name: "c", Link: t.S, Type: tar.TypeSymlink, Mode: 0o777},
			tarEntry{Name: "a/" + g.pwn(), Type: tar.TypeReg, Mode: 0o644, Body: body()},
			tarEntry{Name: "loop1", Link: "loop2", Type: tar.TypeSymlink, Mode: 0o777},
			tarEntry{Name: "loop2", Link: "loop1", Type: tar.TypeSymlink, Mode: 0o777},
			tarEntry{Name: "loop1/x", Type: tar.TypeReg, Mode: 0o644, Body: body()})
	case "gnu-longname":
		k := 1 + rng.Intn(8)
		long := dotdots(k) + strings.Repeat("L", 120) + "/../" + g.leaf(rng)
		class += "/dotdot-long"
		entries = append(entries, tarEntry{Name: long, Type: tar.TypeReg, Mode: 0o644, Body: body(), Format: "gnu"},
			tarEntry{Name: "ln", Link: filepath.Join(g.Levels[rng.Intn(len(g.Levels))], strings.Repeat(g.vEmpty()+"/../", 10)+g.vEmpty()), Type: tar.TypeSymlink, Mode: 0o777, Format: "gnu"},
			tarEntry{Name: "ln/" + g.pwn(), Type: tar.TypeReg, Mode: 0o644, Body: body(), Format: "gnu"})
	default:
		panic("unknown tar pattern " + pat)
	}
	return entries, class
}

func describeEntries(es []tarEntry) []string {
	var out []string
	for _, e := range es {
		out = append(out, e.short())
	}
	return out
}
