package main

// In-process workloads (b) archive.Extract, (c) RegClient.ImageImport into a layout,
// (e) blob tar reader. Every call runs under recover and a watchdog; the guard snapshot is
// compared after every single call.

import (
	"archive/tar"
	"bytes"
	"context"
	"encoding/json"
	"fmt"
	"io"
	"math/rand"
	"os"
	"path/filepath"
	"runtime/debug"
	"strings"
	"time"

	"github.com/regclient/regclient"
	"github.com/regclient/regclient/pkg/archive"
	"github.com/regclient/regclient/types/blob"
	"github.com/regclient/regclient/types/ref"

	"verif/ev"
	la "verif/layoutaudit"
)

type opResult struct {
	err      error
	panicked bool
	panicVal string
	stack    string
	hung     bool
}

func (r opResult) errString() string {
	if r.err == nil {
		return ""
	}
	return clip(r.err.Error(), 300)
}

var inprocDead bool // a call hung: its goroutine may still run, stop the in-process workloads

// guarded runs f with recover and a watchdog.
func guarded(f func(ctx context.Context) error) opResult {
	ctx, cancel := context.WithTimeout(context.Background(), 60*time.Second)
	defer cancel()
	ch := make(chan opResult, 1)
	go func() {
		var r opResult
		defer func() {
			if p := recover(); p != nil {
				r.panicked = true
				r.panicVal = clip(fmt.Sprint(p), 300)
				r.stack = clip(string(debug.Stack()), 2500)
			}
			ch <- r
		}()
		r.err = f(ctx)
	}()
	select {
	case r := <-ch:
		return r
	case <-time.After(90 * time.Second):
		inprocDead = true
		return opResult{hung: true}
	}
}

// inproc is the shared state of the in-process workloads.
type inproc struct {
	run *ev.Run
	g   *Guard
}

func newInproc(run *ev.Run, binDir, marker string) (*inproc, error) {
	g, err := NewGuard(filepath.Join(binDir, "gi"), marker)
	if err != nil {
		return nil, err
	}
	if err := os.Chdir(g.Cwd); err != nil {
		return nil, err
	}
	return &inproc{run: run, g: g}, nil
}

// prepare empties the designated directories and re-arms the monitor.
func (ip *inproc) prepare() bool {
	if err := ip.g.ResetDesignated(); err != nil {
		ip.run.Inconclusive("cannot reset designated directories: " + err.Error())
		return false
	}
	return true
}

func (ip *inproc) populateOut() {
	g := ip.g
	_ = os.WriteFile(filepath.Join(g.Out, "exist.txt"), []byte("pre-existing\n"), 0o644)
	_ = os.MkdirAll(filepath.Join(g.Out, "existdir"), 0o755)
	_ = os.WriteFile(filepath.Join(g.Out, "existdir", "inner.txt"), []byte("pre-existing inner\n"), 0o644)
	_ = os.MkdirAll(filepath.Join(g.Out, "sub"), 0o755)
	_ = os.Chtimes(g.Levels[spineDepth], oldTime, oldTime)
}

// observe runs the monitor after an operation and reports. fp is the fingerprint prefix
// (workload/op/class), wit the witness. Returns true if the case was clean.
func (ip *inproc) observe(fp, what string, r opResult, wit map[string]any) bool {
	g, run := ip.g, ip.run
	clean := true
	if r.hung {
		run.Inconclusive("in-process call did not return within the watchdog: " + fp)
		return false
	}
	wit["guard"] = g.Root
	wit["designated"] = []string{g.Out, g.Layout, g.Layout2}
	wit["returned_error"] = r.errString()
	if r.panicked {
		wit["panic"] = r.panicVal
		wit["stack"] = r.stack
		run.Violation("panic/"+fp, what+": panic inside regclient: "+r.panicVal, wit)
		delete(wit, "stack")
		clean = false
	}
	changes, reads := g.Check()
	run.Count("reads_outside_designated_seen_by_atime", len(reads))
	if len(reads) > 0 {
		run.SetAdd("ops_that_read_outside", fp)
	}
	if len(changes) > 0 {
		wit["changes_outside"] = capChanges(changes)
		run.Violation(fp+"/"+changeKinds(changes)+"-outside",
			fmt.Sprintf("%s changed %d path(s) outside the designated directory, first: %s %s (call returned error=%q)", what, len(changes), changes[0].Kind, changes[0].Path, r.errString()), wit)
		if err := g.Rebuild(); err != nil {
			run.Inconclusive("cannot rebuild guard: " + err.Error())
			inprocDead = true
		}
		_ = os.Chdir(g.Cwd)
		clean = false
	}
	if esc := g.escaped(g.markerLeaves()); len(esc) > 0 {
		wit["escaped"] = esc
		run.Violation(fp+"/created-outside-guard", fmt.Sprintf("%s created %v outside the designated directory and outside the guard", what, esc), wit)
		clean = false
	}
	return clean
}

// ------------------------------------------------------------------------------------
// (b) archive.Extract

func (ip *inproc) extractWorkload(n int) {
	run, g := ip.run, ip.g
	for i := 0; i < n && !inprocDead; i++ {
		rng := ev.Rand(fmt.Sprintf("c20/extract/%d", i))
		pat := tarPatterns[i%len(tarPatterns)]
		if i >= 4*len(tarPatterns) {
			pat = tarPatterns[rng.Intn(len(tarPatterns))]
		}
		es, class := g.hostileTar(rng, pat)
		raw := buildTar(es)
		comp := []string{"", "gzip", "zstd"}[rng.Intn(3)]
		data := compress(comp, raw)
		if !ip.prepare() {
			return
		}
		ip.populateOut()
		target := []string{g.Out, filepath.Join(g.Out, "sub"), "../out", g.Out + "/", "../out/sub/."}[rng.Intn(5)]
		res := guarded(func(ctx context.Context) error {
			return archive.Extract(ctx, target, bytes.NewReader(data))
		})
		run.Eval(1)
		run.Count("extract_calls", 1)
		if res.err == nil && !res.panicked {
			run.Count("extract_calls_returned_nil", 1)
		}
		wit := map[string]any{"workload": "archive.Extract", "case": i, "target": target, "cwd": g.Cwd, "compression": comp, "tar_class": class, "tar_entries": describeEntries(es)}
		ip.observe("extract/"+class, "archive.Extract", res, wit)
		f, d := countInside(g.Out)
		run.Count("extract_files_inside", f-2)
		run.Count("extract_dirs_inside", d-2)
		if reach := reachable(raw); reach > 0 {
			run.Count("extract_tar_entries_reachable", reach)
			run.Distinct("extract/" + class + "/" + comp)
			run.SetAdd("extract_tar_classes", class)
		}
		if i%211 == 5 {
			run.Sample(map[string]any{"workload": "archive.Extract", "target": target, "tar_class": class, "tar_entries": describeEntries(es), "compression": comp, "error": res.errString(), "files_inside_after": f})
		}
	}
}

// ------------------------------------------------------------------------------------
// (e) blob tar reader

func (ip *inproc) tarReaderWorkload(n int) {
	run, g := ip.run, ip.g
	for i := 0; i < n && !inprocDead; i++ {
		rng := ev.Rand(fmt.Sprintf("c20/tarreader/%d", i))
		pat := tarPatterns[rng.Intn(len(tarPatterns))]
		es, class := g.hostileTar(rng, pat)
		data := compress([]string{"", "gzip"}[rng.Intn(2)], buildTar(es))
		var want string
		switch rng.Intn(4) {
		case 0:
			want = es[rng.Intn(len(es))].Name
		case 1:
			want = g.entryName(rng).S
		case 2:
			want = "/" + es[rng.Intn(len(es))].Name
		default:
			want = []string{"", ".", "..", ".wh..wh..opq", "a/.wh.b", g.vEtc(), "./."}[rng.Intn(7)]
		}
		if !ip.prepare() {
			return
		}
		found := false
		res := guarded(func(ctx context.Context) error {
			tr := blob.NewTarReader(blob.WithReader(bytes.NewReader(data)))
			defer tr.Close()
			_, rdr, err := tr.ReadFile(want)
			if err != nil {
				return err
			}
			found = true
			_, err = io.Copy(io.Discard, rdr)
			return err
		})
		run.Eval(1)
		run.Count("tarreader_calls", 1)
		if found {
			run.Count("tarreader_files_found", 1)
		}
		wit := map[string]any{"workload": "blob.BTarReader.ReadFile", "case": i, "filename": clip(want, 300), "tar_class": class, "tar_entries": describeEntries(es)}
		ip.observe("tarreader/"+class, "BTarReader.ReadFile", res, wit)
		run.Distinct("tarreader/" + class)
	}
}

// ------------------------------------------------------------------------------------
// (c) ImageImport

type img struct {
	cfg, layer, man   []byte
	cfgD, layerD, manD string
}

func mkImage(rng *rand.Rand, marker string) img {
	var im img
	layerTar := buildTar([]tarEntry{{Name: "hello.txt", Type: tar.TypeReg, Mode: 0o644, Body: fmt.Sprintf("hello %s %d\n", marker, rng.Int63())}})
	im.layer = compress("gzip", layerTar)
	im.layerD = la.Digest("sha256", im.layer)
	im.cfg, _ = json.Marshal(map[string]any{"architecture": "amd64", "os": "linux", "config": map[string]any{}, "rootfs": map[string]any{"type": "layers", "diff_ids": []string{la.Digest("sha256", layerTar)}}})
	im.cfgD = la.Digest("sha256", im.cfg)
	im.man, _ = json.Marshal(map[string]any{"schemaVersion": 2, "mediaType": la.MTOCIManifest,
		"config": map[string]any{"mediaType": la.MTOCIConfig, "digest": im.cfgD, "size": len(im.cfg)},
		"layers": []map[string]any{{"mediaType": la.MTOCILayerGz, "digest": im.layerD, "size": len(im.layer)}}})
	im.manD = la.Digest("sha256", im.man)
	return im
}

func blobPath(d string) string {
	alg, enc, _ := strings.Cut(d, ":")
	return "blobs/" + alg + "/" + enc
}

var importClasses = []string{"valid+hostile-extra-entries", "blob-via-symlink-outside", "index-hostile-digest", "index-multi-hostile", "manifest-hostile-layer", "manifest-hostile-config",
	"nested-index-hostile-child", "docker-hostile-paths", "docker-layersources-hostile", "entry-name-variants", "import-name-hostile", "tag-hostile", "valid-control", "ref-digest-hostile"}

func reg(name string, body []byte) tarEntry {
	return tarEntry{Name: name, Type: tar.TypeReg, Mode: 0o644, Body: string(body)}
}

type impCase struct {
	cls, detail string
	es          []tarEntry
	raw, data   []byte
	comp        string
	importName  string
	tgtTag      string
	setDigest   string
	hd          named
	preLayout   bool
	old         img
}

var ociLayoutBytes = []byte(`{"imageLayoutVersion":"1.0.0"}`)

// genImport derives import case i (class i mod #classes, everything else from the seed).
func genImport(g *Guard, rng *rand.Rand, i int) impCase {
	c := impCase{cls: importClasses[i%len(importClasses)], tgtTag: "imported"}
	cls := c.cls
	ociLayout := ociLayoutBytes
	im := mkImage(rng, g.marker)
	dcls := digestClasses[rng.Intn(len(digestClasses))]
	hd := g.digest(rng, dcls, g.Layout, im.layerD)
	c.hd = hd
	idxEntry := func(d string, size int, tag string) map[string]any {
		e := map[string]any{"mediaType": la.MTOCIManifest, "digest": d, "size": size}
		if tag != "" {
			e["annotations"] = map[string]string{la.AnnotRefName: tag}
		}
		return e
	}
	mkIndex := func(entries ...map[string]any) []byte {
		b, _ := json.Marshal(map[string]any{"schemaVersion": 2, "mediaType": la.MTOCIIndex, "manifests": entries})
		return b
	}
	valid := func(index []byte) []tarEntry {
		return []tarEntry{reg("oci-layout", ociLayout), reg("index.json", index), {Name: "blobs/", Type: tar.TypeDir, Mode: 0o755}, {Name: "blobs/sha256/", Type: tar.TypeDir, Mode: 0o755},
			reg(blobPath(im.manD), im.man), reg(blobPath(im.cfgD), im.cfg), reg(blobPath(im.layerD), im.layer)}
	}
	var es []tarEntry
	detail := dcls
	switch cls {
	case "valid-control":
		es = valid(mkIndex(idxEntry(im.manD, len(im.man), "v1")))
		detail = "-"
	case "valid+hostile-extra-entries":
		pat := tarPatterns[rng.Intn(len(tarPatterns))]
		extra, tc := g.hostileTar(rng, pat)
		detail = tc
		v := valid(mkIndex(idxEntry(im.manD, len(im.man), "v1")))
		if rng.Intn(2) == 0 {
			es = append(extra, v...)
		} else {
			es = append(v[:2:2], append(extra, v[2:]...)...)
		}
	case "blob-via-symlink-outside":
		t := g.linkTarget(rng, false)
		detail = t.Class
		es = []tarEntry{reg("oci-layout", ociLayout), reg("index.json", mkIndex(idxEntry(im.manD, len(im.man), "v1"))), reg(blobPath(im.manD), im.man), reg(blobPath(im.cfgD), im.cfg),
			{Name: blobPath(im.layerD), Link: t.S, Type: []byte{tar.TypeSymlink, tar.TypeLink}[rng.Intn(2)], Mode: 0o777},
			{Name: "blobs/sha256/" + strings.Repeat("0", 64), Link: dotdots(1+rng.Intn(8)) + g.vFile(), Type: tar.TypeSymlink, Mode: 0o777}}
	case "index-hostile-digest":
		es = append(valid(mkIndex(idxEntry(hd.S, len(im.man), "v1"))), reg(g.vFile(), []byte("x")))
	case "index-multi-hostile":
		es = valid(mkIndex(idxEntry(im.manD, len(im.man), "v1"), idxEntry(hd.S, len(im.man), "evil")))
		switch rng.Intn(3) {
		case 0:
			c.tgtTag = "evil"
		case 1:
			c.importName = "evil"
		default:
			c.setDigest = hd.S
		}
	case "manifest-hostile-layer", "manifest-hostile-config":
		cfgD, layerD := im.cfgD, im.layerD
		if cls == "manifest-hostile-layer" {
			layerD = hd.S
		} else {
			cfgD = hd.S
		}
		man, _ := json.Marshal(map[string]any{"schemaVersion": 2, "mediaType": la.MTOCIManifest,
			"config": map[string]any{"mediaType": la.MTOCIConfig, "digest": cfgD, "size": len(im.cfg)},
			"layers": []map[string]any{{"mediaType": la.MTOCILayerGz, "digest": im.layerD, "size": len(im.layer)}, {"mediaType": la.MTOCILayerGz, "digest": layerD, "size": len(im.layer)}}})
		manD := la.Digest("sha256", man)
		es = []tarEntry{reg("oci-layout", ociLayout), reg("index.json", mkIndex(idxEntry(manD, len(man), "v1"))), reg(blobPath(manD), man), reg(blobPath(im.cfgD), im.cfg), reg(blobPath(im.layerD), im.layer)}
	case "nested-index-hostile-child":
		child, _ := json.Marshal(map[string]any{"schemaVersion": 2, "mediaType": la.MTOCIIndex, "manifests": []map[string]any{idxEntry(im.manD, len(im.man), ""), idxEntry(hd.S, 10, "")}})
		childD := la.Digest("sha256", child)
		e := idxEntry(childD, len(child), "v1")
		e["mediaType"] = la.MTOCIIndex
		es = append(valid(mkIndex(e)), reg(blobPath(childD), child))
	case "docker-hostile-paths", "docker-layersources-hostile":
		cfgName := g.entryName(rng)
		layerName := g.entryName(rng)
		if cls == "docker-layersources-hostile" {
			cfgName, layerName = named{"config.json", "benign"}, named{"layer/layer.tar", "benign"}
		}
		detail = cfgName.Class + "+" + layerName.Class
		layerTar := buildTar([]tarEntry{{Name: "hello.txt", Type: tar.TypeReg, Mode: 0o644, Body: "hello docker " + g.marker}})
		dm := map[string]any{"Config": cfgName.S, "RepoTags": []string{"repo:evil", g.tag(rng).S}, "Layers": []string{layerName.S}}
		if cls == "docker-layersources-hostile" {
			dm["LayerSources"] = map[string]any{hd.S: map[string]any{"mediaType": la.MTD2LayerGz, "digest": hd.S, "size": 5},
				la.Digest("sha256", im.cfg): map[string]any{"mediaType": la.MTD2Config, "digest": hd.S, "size": len(im.cfg)}}
			detail = dcls
		}
		dmb, _ := json.Marshal([]any{dm})
		es = []tarEntry{reg("manifest.json", dmb), reg(cfgName.S, im.cfg), reg(layerName.S, layerTar), reg("repositories", []byte("{}"))}
	case "entry-name-variants":
		v := valid(mkIndex(idxEntry(im.manD, len(im.man), "v1")))
		variant := []func(string) string{
			func(s string) string { return "./" + s },
			func(s string) string { return "/" + s },
			func(s string) string { return "x/../" + s },
			func(s string) string { return strings.ReplaceAll(s, "/", "//") },
			func(s string) string { return "../" + s },
			func(s string) string { return filepath.Join(g.Levels[rng.Intn(len(g.Levels))], s) },
		}
		k := rng.Intn(len(variant))
		detail = fmt.Sprintf("variant-%d", k)
		for _, e := range v {
			e.Name = variant[k](e.Name)
			es = append(es, e)
		}
	case "import-name-hostile":
		es = valid(mkIndex(idxEntry(im.manD, len(im.man), "v1"), idxEntry(im.manD, len(im.man), "v2")))
		t := g.tag(rng)
		detail = t.Class
		c.importName = t.S
	case "tag-hostile":
		es = valid(mkIndex(idxEntry(im.manD, len(im.man), "v1")))
		t := g.tag(rng)
		detail = t.Class
		c.tgtTag = t.S
	case "ref-digest-hostile":
		es = valid(mkIndex(idxEntry(im.manD, len(im.man), "v1"), idxEntry(im.manD, len(im.man), "v2")))
		c.setDigest = hd.S
	}
	c.es, c.detail = es, detail
	c.raw = buildTar(es)
	c.comp = []string{"", "gzip"}[rng.Intn(2)]
	c.data = compress(c.comp, c.raw)
	c.preLayout = rng.Intn(2) == 0
	c.old = mkImage(rng, g.marker)
	return c
}

// writePreLayout makes the import target a valid layout that already holds one image.
func (c impCase) writePreLayout(g *Guard) {
	if !c.preLayout {
		return
	}
	old := c.old
	_ = writeRawLayout(g.Layout, map[string][]byte{old.manD: old.man, old.cfgD: old.cfg, old.layerD: old.layer},
		[]map[string]any{{"mediaType": la.MTOCIManifest, "digest": old.manD, "size": len(old.man), "annotations": map[string]string{la.AnnotRefName: "old"}}})
	_ = os.Chtimes(g.Levels[spineDepth], oldTime, oldTime)
}

func (ip *inproc) importWorkload(n int) {
	run, g := ip.run, ip.g
	byClass := map[string]map[string]int{}
	defer func() { run.Put("import_outcomes_by_class", byClass) }()
	for i := 0; i < n && !inprocDead; i++ {
		rng := ev.Rand(fmt.Sprintf("c20/import/%d", i))
		c := genImport(g, rng, i)
		cls, detail, es, hd := c.cls, c.detail, c.es, c.hd
		var opts []regclient.ImageOpts
		if c.importName != "" {
			opts = append(opts, regclient.ImageWithImportName(c.importName))
		}
		if !ip.prepare() {
			return
		}
		c.writePreLayout(g)
		r, err := ref.New("ocidir://" + g.Layout)
		if err != nil {
			run.Inconclusive("cannot build layout reference: " + err.Error())
			return
		}
		r = r.SetTag(c.tgtTag)
		if c.setDigest != "" {
			r = r.SetDigest(c.setDigest)
		}
		res := guarded(func(ctx context.Context) error {
			rc := regclient.New()
			err := rc.ImageImport(ctx, r, bytes.NewReader(c.data), opts...)
			_ = rc.Close(ctx, r)
			return err
		})
		run.Eval(1)
		run.Count("import_calls", 1)
		f, _ := countInside(g.Layout)
		if byClass[cls] == nil {
			byClass[cls] = map[string]int{}
		}
		if res.err == nil && !res.panicked {
			run.Count("import_calls_returned_nil", 1)
			byClass[cls]["nil"]++
		} else {
			byClass[cls]["error"]++
		}
		wit := map[string]any{"workload": "RegClient.ImageImport", "case": i, "class": cls, "detail": detail, "target_ref": clip(r.CommonName(), 300), "compression": c.comp,
			"hostile_digest": clip(fmt.Sprintf("%q", hd.S), 400), "tar_entries": describeEntries(es), "pre_existing_layout": c.preLayout, "import_name": clip(c.importName, 200)}
		ip.observe("import/"+cls+"/"+detail, "ImageImport", res, wit)
		run.Count("import_files_in_layout_after", f)
		if reach := reachable(c.raw); reach == len(es) || reach >= 2 {
			run.Distinct("import/" + cls + "/" + detail)
			run.SetAdd("import_classes", cls)
		}
		if i%53 == 7 {
			run.Sample(map[string]any{"workload": "ImageImport", "class": cls, "detail": detail, "tar_entries": describeEntries(es), "error": res.errString(), "files_in_layout_after": f})
		}
	}
}
