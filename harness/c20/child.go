package main

// Running regctl as a child process under the two monitors, and judging what they saw.

import (
	"bytes"
	"context"
	"fmt"
	"os"
	"os/exec"
	"path/filepath"
	"strings"
	"time"

	"verif/ev"
)

type childResult struct {
	exit     int
	timedOut bool
	output   string
	changes  []change
	reads    []string
	escaped  []string
	straced  bool
	sys      []sysEvent
	sysLines int
	dur      time.Duration
}

// runChild runs regctl with args in the guard's working directory and applies the monitors.
func runChild(g *Guard, regctl string, args []string, strace bool) childResult {
	var res childResult
	ctx, cancel := context.WithTimeout(context.Background(), 120*time.Second)
	defer cancel()
	var cmd *exec.Cmd
	stPrefix := ""
	if strace {
		stDir := filepath.Join(filepath.Dir(g.Root), "strace-"+filepath.Base(g.Root))
		_ = os.RemoveAll(stDir)
		_ = os.MkdirAll(stDir, 0o755)
		stPrefix = filepath.Join(stDir, "log")
		sargs := append([]string{"-ff", "-o", stPrefix, "-s", "16384", "-y", "-e", "trace=" + straceSet, "-e", "signal=none", regctl}, args...)
		cmd = exec.CommandContext(ctx, "strace", sargs...)
		res.straced = true
	} else {
		cmd = exec.CommandContext(ctx, regctl, args...)
	}
	cmd.Dir = g.Cwd
	// configuration locations are non-existent paths below $VERIF_BIN: nothing the check passes to
	// the child names a location outside $VERIF_BIN
	none := filepath.Join(filepath.Dir(g.Root), "no-such-home")
	cmd.Env = []string{"PATH=/usr/bin:/bin", "HOME=" + none, "REGCTL_CONFIG=" + filepath.Join(none, "regctl.json"), "DOCKER_CONFIG=" + filepath.Join(none, "docker"), "TMPDIR=" + filepath.Join(filepath.Dir(g.Root), "tmp")}
	var out bytes.Buffer
	cmd.Stderr = &out
	cmd.Stdout = &out
	t0 := time.Now()
	err := cmd.Run()
	res.dur = time.Since(t0)
	res.output = clip(out.String(), 600)
	if ctx.Err() != nil {
		res.timedOut = true
	}
	if err != nil {
		res.exit = 1
		if ee, ok := err.(*exec.ExitError); ok {
			res.exit = ee.ExitCode()
		}
	}
	res.changes, res.reads = g.Check()
	res.escaped = g.escaped(g.markerLeaves())
	if stPrefix != "" {
		res.sys, res.sysLines = parseStrace(stPrefix, g.Cwd)
		_ = os.RemoveAll(filepath.Dir(stPrefix))
	}
	return res
}

// judgeChild reports what the monitors saw. counter is the prefix of the evidence counters,
// fp the fingerprint prefix, what the operation in words. Returns false if the run could
// not be judged (watchdog).
func judgeChild(run *ev.Run, g *Guard, counter, fp, what string, wit func(map[string]any) map[string]any, r childResult) bool {
	if r.timedOut {
		run.Inconclusive(fmt.Sprintf("%s: regctl did not finish within the watchdog (%s)", what, fp))
		if len(r.changes) > 0 {
			_ = g.Rebuild()
		}
		return false
	}
	if strings.Contains(r.output, "goroutine 1 [running]") || (r.exit == 2 && strings.Contains(r.output, "panic: ")) {
		run.Violation("panic/"+fp, what+" panicked on untrusted content", wit(map[string]any{"output": r.output}))
	}
	run.Count("reads_outside_designated_seen_by_atime", len(r.reads))
	if len(r.changes) > 0 {
		run.Violation(fp+"/"+changeKinds(r.changes)+"-outside",
			fmt.Sprintf("%s changed %d path(s) outside the designated directory, first: %s %s", what, len(r.changes), r.changes[0].Kind, r.changes[0].Path),
			wit(map[string]any{"changes_outside": capChanges(r.changes)}))
		_ = g.Rebuild()
	}
	if len(r.escaped) > 0 {
		run.Violation(fp+"/created-outside-guard",
			fmt.Sprintf("%s created %v, outside the designated directory and outside the guard", what, r.escaped), wit(map[string]any{"escaped": r.escaped}))
	}
	if !r.straced {
		return true
	}
	if r.sysLines == 0 {
		run.Count("strace_runs_without_log", 1)
		return true
	}
	run.Count("strace_runs", 1)
	run.Count(counter+"_strace_runs", 1)
	run.Count("strace_syscalls_parsed", len(r.sys))
	for _, e := range r.sys {
		if e.Call == "chdir" {
			run.Count("strace_chdir_calls", 1)
			continue
		}
		for _, p := range e.Paths {
			inDes := g.designated(p)
			inGuard := p == g.Root || strings.HasPrefix(p, g.Root+"/")
			switch {
			case e.Write && inDes:
				run.Count("strace_writes_inside_designated", 1)
			case e.Write && inGuard:
				_, existed := g.base[strings.TrimPrefix(p, g.Root+"/")]
				nsChange := !strings.HasPrefix(e.Call, "open") && e.Call != "creat"
				if nsChange || (e.Create && !existed) || strings.Contains(e.Line, "O_TRUNC") {
					run.Violation(fp+"/syscall-"+e.Call+"-outside",
						fmt.Sprintf("%s issued a successful %s on %s, outside the designated directory", what, e.Call, p), wit(map[string]any{"syscall": e}))
				} else {
					run.Count("strace_write_opens_outside_without_create", 1)
				}
			case e.Write && strings.Contains(p, g.marker):
				run.Violation(fp+"/syscall-"+e.Call+"-outside-guard",
					fmt.Sprintf("%s issued a successful %s on %s, outside the designated directory and the guard", what, e.Call, p), wit(map[string]any{"syscall": e}))
			case e.Write:
				run.Count("strace_writes_elsewhere_unattributed", 1)
				run.SetAdd("strace_unattributed_write_paths", p)
			case inGuard && !inDes && !strings.HasSuffix(e.Call, "(dir)") && p != g.Cwd:
				run.Count("strace_read_opens_outside_designated", 1)
			}
		}
	}
	return true
}
