package main

// Child-process variants of workloads (c) and (d): `regctl image import` of hostile archives
// into a layout, and regctl commands that read hostile layouts or take a digest argument.
// Both monitors (snapshot + strace) apply, as for artifact get.

import (
	"fmt"
	"os"
	"path/filepath"
	"strings"
	"sync"

	"verif/ev"
)

func cliImportCase(run *ev.Run, mu *sync.Mutex, g *Guard, regctl, binDir string, i int, strace bool) {
	rng := ev.Rand(fmt.Sprintf("c20/cli-import/%d", i))
	c := genImport(g, rng, i)
	if c.setDigest != "" {
		c.setDigest = "" // a hostile digest cannot be spelled in a CLI reference (the parser refuses it): import by tag instead
	}
	if err := g.ResetDesignated(); err != nil {
		run.Inconclusive("cli-import: cannot reset designated directories: " + err.Error())
		return
	}
	c.writePreLayout(g)
	tarFile := filepath.Join(binDir, "import-"+filepath.Base(g.Root)+".tar")
	if err := os.WriteFile(tarFile, c.data, 0o644); err != nil {
		run.Inconclusive("cli-import: cannot write archive: " + err.Error())
		return
	}
	defer os.Remove(tarFile)
	tag := c.tgtTag
	// a tag with a path separator can be typed (or, in regsync, pasted together from a registry's tag listing):
	// <layout>:<tag> must then be refused as a reference, not re-read as a longer path
	keepSlash := strings.Contains(tag, "/") && !strings.ContainsAny(tag, "\x00@ ") && len(tag) <= 128
	if keepSlash {
		run.Count("cli_import_refs_with_separator_in_tag", 1)
	} else if strings.ContainsAny(tag, "/\x00:@ ") || len(tag) > 128 || tag == ".." || tag == "" {
		tag = "imported" // not spellable on the command line
	}
	args := []string{"image", "import"}
	if c.importName != "" && !strings.Contains(c.importName, "\x00") {
		args = append(args, "--name", c.importName)
	}
	layoutArg := g.Layout
	if rng.Intn(3) == 0 {
		layoutArg = "../layout"
	}
	args = append(args, "ocidir://"+layoutArg+":"+tag, tarFile)
	r := runChild(g, regctl, args, strace)
	files, _ := countInside(g.Layout)
	mu.Lock()
	defer mu.Unlock()
	run.Eval(1)
	run.Count("cli_import_runs", 1)
	wit := func(extra map[string]any) map[string]any {
		w := map[string]any{"workload": "regctl image import", "case": i, "class": c.cls, "detail": c.detail, "args": args, "cwd": g.Cwd, "guard": g.Root, "designated": []string{g.Layout},
			"tar_entries": describeEntries(c.es), "compression": c.comp, "hostile_digest": clip(fmt.Sprintf("%q", c.hd.S), 400), "regctl_exit": r.exit, "regctl_output": r.output}
		for k, v := range extra {
			w[k] = v
		}
		return w
	}
	if !judgeChild(run, g, "cli_import", "cli-import/"+c.cls+"/"+c.detail, "regctl image import", wit, r) {
		return
	}
	if r.exit == 0 {
		run.Count("cli_import_runs_exit0", 1)
	}
	run.Count("cli_import_files_in_layout_after", files)
	if reach := reachable(c.raw); reach == len(c.es) || reach >= 2 {
		run.Distinct("cli-import/" + c.cls + "/" + c.detail)
	}
	if i%71 == 9 {
		run.Sample(map[string]any{"workload": "regctl image import", "class": c.cls, "detail": c.detail, "tar_entries": describeEntries(c.es), "exit": r.exit, "files_in_layout_after": files})
	}
}

// cliLayoutCmds are regctl commands that consume a (hostile) layout or a digest argument.
// %L = layout, %M = second layout, %H = hostile digest, %E = digest of the evil manifest.
var cliLayoutCmds = []struct {
	Name   string
	Args   []string
	Layout bool // hostile content comes from the layout variant
}{
	{"manifest-get-evil", []string{"manifest", "get", "ocidir://%L:evil"}, true},
	{"manifest-head-evil", []string{"manifest", "head", "ocidir://%L:evil"}, true},
	{"image-copy-evil", []string{"image", "copy", "ocidir://%L:evil", "ocidir://%M:copy"}, true},
	{"image-copy-v1-referrers", []string{"image", "copy", "--referrers", "--digest-tags", "--force-recursive", "ocidir://%L:v1", "ocidir://%M:copy"}, true},
	{"manifest-delete-evil-referrers", []string{"manifest", "delete", "--referrers", "ocidir://%L@%E"}, true},
	{"manifest-delete-tag-deref", []string{"manifest", "delete", "--force-tag-dereference", "--referrers", "ocidir://%L:evil"}, true},
	{"tag-delete-evil", []string{"tag", "delete", "ocidir://%L:evil"}, true},
	{"tag-delete-v1", []string{"tag", "delete", "ocidir://%L:v1"}, true},
	{"artifact-list-v1", []string{"artifact", "list", "ocidir://%L:v1"}, true},
	{"artifact-tree-v1", []string{"artifact", "tree", "ocidir://%L:v1"}, true},
	{"image-export-evil", []string{"image", "export", "ocidir://%L:evil"}, true},
	{"image-inspect-evil", []string{"image", "inspect", "ocidir://%L:evil"}, true},
	{"image-digest-evil", []string{"image", "digest", "ocidir://%L:evil"}, true},
	{"blob-get-hostile", []string{"blob", "get", "ocidir://%L", "%H"}, false},
	{"blob-head-hostile", []string{"blob", "head", "ocidir://%L", "%H"}, false},
	{"blob-delete-hostile", []string{"blob", "delete", "ocidir://%L", "%H"}, false},
	{"blob-copy-hostile", []string{"blob", "copy", "ocidir://%L", "ocidir://%M", "%H"}, false},
	{"blob-put-hostile-digest", []string{"blob", "put", "--digest", "%H", "ocidir://%L"}, false},
	{"blob-get-file-hostile", []string{"blob", "get-file", "ocidir://%L", "%H", "etc/hello"}, false},
	{"manifest-get-hostile-digest", []string{"manifest", "get", "ocidir://%L@%H"}, false},
	{"manifest-delete-hostile-digest", []string{"manifest", "delete", "ocidir://%L@%H"}, false},
}

func cliLayoutCase(run *ev.Run, mu *sync.Mutex, g *Guard, regctl string, i int, strace bool) {
	rng := ev.Rand(fmt.Sprintf("c20/cli-layout/%d", i))
	cmd := cliLayoutCmds[i%len(cliLayoutCmds)]
	dcls := digestClasses[rng.Intn(len(digestClasses))]
	variant := layoutVariants[rng.Intn(len(layoutVariants))]
	if cmd.Layout && variant == "clean" {
		variant = layoutVariants[2+rng.Intn(len(layoutVariants)-2)]
	}
	im := mkImage(rng, g.marker)
	hd := g.digest(rng, dcls, g.Layout, im.layerD)
	if strings.Contains(hd.S, "\x00") {
		if !cmd.Layout {
			dcls = "enc-dotdot" // NUL cannot be passed in argv
			hd = g.digest(rng, dcls, g.Layout, im.layerD)
		}
	}
	if err := g.ResetDesignated(); err != nil {
		run.Inconclusive("cli-layout: cannot reset designated directories: " + err.Error())
		return
	}
	_, evilD, err := buildLayout(g, variant, hd.S, im)
	if err != nil {
		run.Inconclusive("cli-layout: cannot write layout: " + err.Error())
		return
	}
	if evilD == "" {
		evilD = im.manD
	}
	if rng.Intn(2) == 0 {
		_ = writeRawLayout(g.Layout2, map[string][]byte{}, nil)
	}
	_ = os.Chtimes(g.Levels[spineDepth], oldTime, oldTime)
	layoutArg := g.Layout
	if rng.Intn(3) == 0 {
		layoutArg = "../layout"
	}
	var args []string
	for _, a := range cmd.Args {
		a = strings.ReplaceAll(a, "%L", layoutArg)
		a = strings.ReplaceAll(a, "%M", g.Layout2)
		a = strings.ReplaceAll(a, "%H", hd.S)
		a = strings.ReplaceAll(a, "%E", evilD)
		args = append(args, a)
	}
	r := runChild(g, regctl, args, strace)
	mu.Lock()
	defer mu.Unlock()
	run.Eval(1)
	run.Count("cli_layout_runs", 1)
	wit := func(extra map[string]any) map[string]any {
		w := map[string]any{"workload": "regctl on a layout", "case": i, "command": cmd.Name, "args": args, "cwd": g.Cwd, "guard": g.Root, "designated": []string{g.Layout, g.Layout2},
			"layout_variant": variant, "digest_class": dcls, "hostile_digest": clip(fmt.Sprintf("%q", hd.S), 400), "regctl_exit": r.exit, "regctl_output": r.output}
		for k, v := range extra {
			w[k] = v
		}
		return w
	}
	fp := "cli-layout/" + cmd.Name + "/" + digestGroup(dcls)
	if cmd.Layout {
		fp = "cli-layout/" + cmd.Name + "/layout:" + variant + "/" + digestGroup(dcls)
	}
	if !judgeChild(run, g, "cli_layout", fp, "regctl "+strings.Join(cmd.Args[:2], " "), wit, r) {
		return
	}
	if r.exit == 0 {
		run.Count("cli_layout_runs_exit0", 1)
	}
	run.Distinct(fmt.Sprintf("cli-layout/%s/%s/%s", cmd.Name, dcls, variant))
	run.SetAdd("cli_layout_commands_run", cmd.Name)
	if i%83 == 13 {
		run.Sample(map[string]any{"workload": "regctl on a layout", "args": args, "layout_variant": variant, "digest_class": dcls, "exit": r.exit, "output": clip(r.output, 200)})
	}
}
