package main

// The guard directory: a private tree below $VERIF_BIN that encloses the designated
// directory (output dir / layout) of a case and holds sentinel files, empty directories and
// siblings with tempting names at every level a "../"-climb can reach. The monitor is a
// plain recursive snapshot (lstat + sha256 + link target) of everything in the guard that is
// NOT below a designated directory, compared before / after the operation. It uses only the
// standard library.

import (
	"crypto/sha256"
	"encoding/hex"
	"fmt"
	"io/fs"
	"os"
	"path/filepath"
	"sort"
	"strings"
	"syscall"
	"time"
)

// spineDepth is the number of directory levels between the guard root and the designated
// directory: up to spineDepth "../" segments applied to the designated directory (and
// spineDepth+3 applied to <layout>/blobs/<alg>/) still land inside the guard.
const spineDepth = 10

var oldTime = time.Date(2001, 2, 3, 4, 5, 6, 0, time.UTC)

type entry struct {
	Type  string // file dir symlink other
	Mode  uint32
	UID   uint32
	GID   uint32
	Nlink uint64
	Ino   uint64
	Size  int64
	Mtime int64
	Atime int64
	SHA   string
	Link  string
	ctime int64 // used only to decide whether a file must be re-hashed
}

type snapshot map[string]entry // path relative to the guard root

// Guard is one guard tree.
type Guard struct {
	Root   string   // absolute, symlink-free
	Levels []string // Levels[0] == Root ... Levels[spineDepth] == parent of the designated dir
	Out    string   // designated directory of artifact-get / extract cases
	Layout string   // designated directory of import / ocidir cases
	Layout2 string  // second designated layout (copy target)
	Cwd    string   // working directory of the operation (a sibling of Out)
	marker string
	base   snapshot
}

// victim names planted at every spine level (relative to the level directory). All but the
// structural names carry the run marker.
func (g *Guard) victimFiles() []string {
	return []string{g.vFile(), g.vEtc(), "index.json", "oci-layout", g.vBlob(), "exist.txt", g.vX()}
}
func (g *Guard) victimDirs() []string { return []string{g.vEmpty(), g.vEmptyBlob(), g.vSib()} }

func sentinelContent(rel string) []byte {
	return []byte("sentinel:" + rel + "\n")
}

// NewGuard builds a fresh guard tree at root (which must not exist).
func NewGuard(root, marker string) (*Guard, error) {
	// the marker is unique per run AND per guard, so that an object found outside the guards is
	// attributed to the guard (worker) whose case created it
	g := &Guard{Root: root, marker: marker + filepath.Base(root)}
	if err := g.build(); err != nil {
		return nil, err
	}
	return g, nil
}

func (g *Guard) build() error {
	_ = chmodAll(g.Root)
	if err := os.RemoveAll(g.Root); err != nil {
		return err
	}
	if err := os.MkdirAll(g.Root, 0o755); err != nil {
		return err
	}
	real, err := filepath.EvalSymlinks(g.Root)
	if err != nil {
		return err
	}
	g.Root = real
	g.Levels = []string{g.Root}
	cur := g.Root
	for i := 1; i <= spineDepth; i++ {
		cur = filepath.Join(cur, fmt.Sprintf("s%d", i))
		if err := os.Mkdir(cur, 0o755); err != nil {
			return err
		}
		g.Levels = append(g.Levels, cur)
	}
	for _, lvl := range g.Levels {
		for _, v := range g.victimFiles() {
			p := filepath.Join(lvl, v)
			if err := os.MkdirAll(filepath.Dir(p), 0o755); err != nil {
				return err
			}
			rel, _ := filepath.Rel(g.Root, p)
			if err := os.WriteFile(p, sentinelContent(rel), 0o644); err != nil {
				return err
			}
		}
		for _, v := range g.victimDirs() {
			if err := os.MkdirAll(filepath.Join(lvl, v), 0o755); err != nil {
				return err
			}
		}
	}
	last := g.Levels[spineDepth]
	g.Out = filepath.Join(last, "out")
	g.Layout = filepath.Join(last, "layout")
	g.Layout2 = filepath.Join(last, "layout2")
	g.Cwd = filepath.Join(last, "cwd")
	for _, d := range []string{g.Out, g.Layout, g.Layout2, g.Cwd} {
		if err := os.Mkdir(d, 0o755); err != nil {
			return err
		}
	}
	// the working directory holds victims too (a relative name used without the output dir lands here)
	for _, v := range []string{g.vFile(), "exist.txt", g.vEtc()} {
		p := filepath.Join(g.Cwd, v)
		_ = os.MkdirAll(filepath.Dir(p), 0o755)
		rel, _ := filepath.Rel(g.Root, p)
		if err := os.WriteFile(p, sentinelContent(rel), 0o644); err != nil {
			return err
		}
	}
	if err := os.Mkdir(filepath.Join(g.Cwd, g.vEmpty()), 0o755); err != nil {
		return err
	}
	g.arm()
	g.base = nil
	g.base = g.Snapshot()
	return nil
}

// chmodAll makes every directory below root traversable / writable again (extracted
// directories may carry mode 0).
func chmodAll(root string) error {
	return filepath.WalkDir(root, func(p string, d fs.DirEntry, err error) error {
		if d != nil && d.IsDir() {
			_ = os.Chmod(p, 0o755)
		}
		return nil
	})
}

// designated reports whether abs lies in (or is) a designated directory.
func (g *Guard) designated(abs string) bool {
	for _, d := range []string{g.Out, g.Layout, g.Layout2} {
		if abs == d || strings.HasPrefix(abs, d+string(filepath.Separator)) {
			return true
		}
	}
	return false
}

// arm sets atime = mtime = oldTime on everything outside the designated directories so
// that (a) any later modification moves mtime away from a value no clock produces and
// (b) with relatime the first read moves atime (reads are counted, never judged).
func (g *Guard) arm() {
	var paths []string
	_ = filepath.WalkDir(g.Root, func(p string, d fs.DirEntry, err error) error {
		if err != nil {
			return nil
		}
		if g.designated(p) && p != g.Out && p != g.Layout && p != g.Layout2 {
			if d.IsDir() {
				return filepath.SkipDir
			}
			return nil
		}
		paths = append(paths, p)
		return nil
	})
	// children first so that touching a child never disturbs an already armed parent
	sort.Sort(sort.Reverse(sort.StringSlice(paths)))
	for _, p := range paths {
		if g.designated(p) {
			continue
		}
		_ = os.Chtimes(p, oldTime, oldTime)
	}
}

// Snapshot records everything in the guard outside the designated directories. The
// designated directories themselves are recorded by type only (their own mtime changes
// legitimately when something is created inside). A file whose inode number, size, mtime
// and ctime all equal the previous snapshot's is not re-read (ctime cannot be set from user
// space, so its content hash is carried over); everything else is hashed.
func (g *Guard) Snapshot() snapshot {
	prev := g.base
	s := snapshot{}
	_ = filepath.WalkDir(g.Root, func(p string, d fs.DirEntry, err error) error {
		rel, _ := filepath.Rel(g.Root, p)
		if err != nil {
			s[rel] = entry{Type: "error:" + err.Error()}
			return nil
		}
		fi, lerr := d.Info()
		if lerr != nil {
			s[rel] = entry{Type: "error:" + lerr.Error()}
			return nil
		}
		e := entry{Mode: uint32(fi.Mode())}
		switch {
		case fi.Mode().IsRegular():
			e.Type = "file"
		case fi.IsDir():
			e.Type = "dir"
		case fi.Mode()&os.ModeSymlink != 0:
			e.Type = "symlink"
		default:
			e.Type = "other"
		}
		if g.designated(p) {
			// p is a designated directory itself (we never descend further)
			s[rel] = entry{Type: e.Type}
			if d.IsDir() {
				return filepath.SkipDir
			}
			return nil
		}
		if st, ok := fi.Sys().(*syscall.Stat_t); ok {
			e.UID, e.GID, e.Nlink, e.Ino = st.Uid, st.Gid, uint64(st.Nlink), st.Ino
			e.Atime = st.Atim.Sec*1e9 + st.Atim.Nsec
			e.ctime = st.Ctim.Sec*1e9 + st.Ctim.Nsec
		}
		e.Mtime = fi.ModTime().UnixNano()
		switch e.Type {
		case "file":
			e.Size = fi.Size()
			if pe, ok := prev[rel]; ok && pe.Type == "file" && pe.Ino == e.Ino && pe.Size == e.Size && pe.Mtime == e.Mtime && pe.ctime == e.ctime && pe.ctime != 0 && !strings.HasPrefix(pe.SHA, "unreadable") {
				e.SHA = pe.SHA
				break
			}
			b, rerr := os.ReadFile(p)
			if rerr != nil {
				e.SHA = "unreadable:" + rerr.Error()
			} else {
				h := sha256.Sum256(b)
				e.SHA = hex.EncodeToString(h[:8])
			}
			// re-arm the access time our own read moved; mtime is put back to the value just observed
			if e.Atime == oldTime.UnixNano() {
				_ = os.Chtimes(p, oldTime, fi.ModTime())
				if fi2, err2 := os.Lstat(p); err2 == nil {
					if st, ok := fi2.Sys().(*syscall.Stat_t); ok {
						e.ctime = st.Ctim.Sec*1e9 + st.Ctim.Nsec
					}
				}
			}
		case "symlink":
			e.Link, _ = os.Readlink(p)
		case "dir":
			e.Nlink = 0 // sub-directory count is already visible through the names
		}
		s[rel] = e
		return nil
	})
	return s
}

// change is one difference between two snapshots.
type change struct {
	Path string `json:"path"`
	Kind string `json:"kind"` // created removed modified mtime meta type
	Was  string `json:"was,omitempty"`
	Now  string `json:"now,omitempty"`
}

func (e entry) brief() string {
	return fmt.Sprintf("%s mode=%o uid=%d nlink=%d ino=%d size=%d mtime=%d sha=%s link=%s", e.Type, e.Mode, e.UID, e.Nlink, e.Ino, e.Size, e.Mtime, e.SHA, e.Link)
}

// diff lists the changes from a to b; reads (atime only) are returned separately.
func diff(a, b snapshot) (changes []change, reads []string) {
	for p, ea := range a {
		eb, ok := b[p]
		if !ok {
			changes = append(changes, change{Path: p, Kind: "removed", Was: ea.brief()})
			continue
		}
		at, bt := ea.Atime, eb.Atime
		ea.Atime, eb.Atime = 0, 0
		ea.ctime, eb.ctime = 0, 0
		if ea == eb {
			if at != bt && ea.Type == "file" {
				reads = append(reads, p)
			}
			continue
		}
		k := "modified"
		switch {
		case ea.Type != eb.Type:
			k = "type"
		case ea.SHA != eb.SHA || ea.Size != eb.Size || ea.Link != eb.Link || ea.Ino != eb.Ino:
			k = "modified"
		case ea.Mode != eb.Mode || ea.UID != eb.UID || ea.GID != eb.GID || ea.Nlink != eb.Nlink:
			k = "meta"
		case ea.Mtime != eb.Mtime:
			k = "mtime"
		}
		changes = append(changes, change{Path: p, Kind: k, Was: ea.brief(), Now: eb.brief()})
	}
	for p, eb := range b {
		if _, ok := a[p]; !ok {
			changes = append(changes, change{Path: p, Kind: "created", Now: eb.brief()})
		}
	}
	// primary effects first, bare mtime moves (usually the parent directory of a primary effect) last
	sort.Slice(changes, func(i, j int) bool {
		if (changes[i].Kind == "mtime") != (changes[j].Kind == "mtime") {
			return changes[j].Kind == "mtime"
		}
		return changes[i].Path < changes[j].Path
	})
	sort.Strings(reads)
	return changes, reads
}

// Check compares the current state with the baseline. On a change the guard is rebuilt.
func (g *Guard) Check() (changes []change, reads []string) {
	now := g.Snapshot()
	changes, reads = diff(g.base, now)
	if len(changes) > 0 {
		return changes, reads
	}
	if len(reads) > 0 {
		// re-arm files that were read so that the next case can be observed again
		for _, r := range reads {
			p := filepath.Join(g.Root, r)
			_ = os.Chtimes(p, oldTime, oldTime)
			if fi, err := os.Lstat(p); err == nil {
				if st, ok := fi.Sys().(*syscall.Stat_t); ok {
					e := g.base[r]
					e.ctime = st.Ctim.Sec*1e9 + st.Ctim.Nsec
					g.base[r] = e
				}
			}
		}
	}
	return nil, reads
}

// Rebuild restores the pristine guard (after a violation or when the tree is polluted).
func (g *Guard) Rebuild() error { return g.build() }

// ResetDesignated empties the designated directories. It is the harness' own write to the
// parent directory, so the parent is re-armed afterwards.
func (g *Guard) ResetDesignated() error {
	for _, d := range []string{g.Out, g.Layout, g.Layout2} {
		if ents, err := os.ReadDir(d); err == nil && len(ents) == 0 {
			continue
		}
		if err := os.RemoveAll(d); err != nil {
			_ = chmodAll(d)
			if err := os.RemoveAll(d); err != nil {
				return err
			}
		}
		if err := os.Mkdir(d, 0o755); err != nil {
			return err
		}
	}
	_ = os.Chtimes(g.Levels[spineDepth], oldTime, oldTime)
	return nil
}

// countInside returns the number of files / directories below a designated directory.
func countInside(dir string) (files, dirs int) {
	_ = filepath.WalkDir(dir, func(p string, d fs.DirEntry, err error) error {
		if err != nil || p == dir {
			return nil
		}
		if d.IsDir() {
			dirs++
		} else {
			files++
		}
		return nil
	})
	return
}

// escapeCandidates are the places in $VERIF_BIN, next to the guard, where a marker-named
// object would appear if a hostile name climbed one level above the guard root. (No generated
// name does: the generators assert containment. This is a backstop, and like everything else
// in this check it never names a path outside $VERIF_BIN.)
func (g *Guard) escapeCandidates(leaves []string) []string {
	d := filepath.Dir(g.Root)
	var out []string
	for _, l := range leaves {
		out = append(out, filepath.Join(d, l))
	}
	return out
}

// escaped returns the candidates that exist (and removes them).
func (g *Guard) escaped(leaves []string) []string {
	var hit []string
	for _, p := range g.escapeCandidates(leaves) {
		if _, err := os.Lstat(p); err == nil {
			hit = append(hit, p)
			_ = os.RemoveAll(p)
		}
	}
	return hit
}
