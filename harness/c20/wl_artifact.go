package main

// Workload (a): `regctl artifact get -o <out> [--strip-dirs] <ref>` as a child process
// against a model registry (or a layout) that holds artifacts with hostile layer titles,
// hostile unpacked tar layers and hostile layer digests.

import (
	"encoding/json"
	"fmt"
	"math/rand"
	"os"
	"path/filepath"
	"strings"
	"sync"

	"verif/ev"
	la "verif/layoutaudit"
	"verif/modelreg"
)

const (
	annTitle  = "org.opencontainers.image.title"
	annUnpack = "io.deis.oras.content.unpack"
)

type layerSpec struct {
	Title      string   `json:"title"`
	TitleClass string   `json:"title_class"`
	NoTitle    bool     `json:"no_title,omitempty"`
	Unpack     bool     `json:"unpack,omitempty"`
	Tar        bool     `json:"tar,omitempty"`
	TarClass   string   `json:"tar_class,omitempty"`
	Entries    []string `json:"tar_entries,omitempty"`
	Comp       string   `json:"compression,omitempty"`
	Digest     string   `json:"digest"`
	HostileDig string   `json:"hostile_digest_class,omitempty"`
	content    []byte
	reach      int
}

type artCase struct {
	ID       int         `json:"id"`
	Strip    bool        `json:"strip_dirs"`
	OutArg   string      `json:"out_arg"`
	Source   string      `json:"source"` // reg | ocidir
	ViaIndex bool        `json:"via_index,omitempty"`
	Layers   []layerSpec `json:"layers"`
	Strace   bool        `json:"strace,omitempty"`
}

func clip(s string, n int) string {
	if len(s) <= n {
		return s
	}
	return fmt.Sprintf("%s...(%d bytes)", s[:n], len(s))
}

func (c artCase) witness() map[string]any {
	ls := []map[string]any{}
	for _, l := range c.Layers {
		m := map[string]any{"title": clip(l.Title, 300), "title_quoted": clip(fmt.Sprintf("%q", l.Title), 400), "title_class": l.TitleClass, "unpack": l.Unpack, "digest": clip(l.Digest, 300)}
		if l.NoTitle {
			m["no_title_annotation"] = true
		}
		if l.Tar {
			m["tar_class"], m["tar_entries"], m["compression"] = l.TarClass, l.Entries, l.Comp
		}
		ls = append(ls, m)
	}
	return map[string]any{"case": c.ID, "strip_dirs": c.Strip, "out_arg": c.OutArg, "source": c.Source, "via_index": c.ViaIndex, "layers": ls}
}

// genArtCase derives case i. The first cases enumerate the regression core (every title
// class x strip x unpack), the rest is seeded.
func genArtCase(g *Guard, rng *rand.Rand, i int) artCase {
	c := artCase{ID: i, Source: "reg"}
	nCore := len(titleClasses) * 4
	var first layerSpec
	if i < nCore {
		cls := titleClasses[i%len(titleClasses)]
		c.Strip = (i/len(titleClasses))&1 == 1
		first = genLayer(g, rng, cls, (i/len(titleClasses))&2 == 2)
		c.Layers = []layerSpec{first}
	} else {
		c.Strip = rng.Intn(2) == 0
		n := 1 + rng.Intn(3)
		for k := 0; k < n; k++ {
			cls := titleClasses[rng.Intn(len(titleClasses))]
			c.Layers = append(c.Layers, genLayer(g, rng, cls, rng.Intn(3) == 0))
		}
		if rng.Intn(7) == 0 {
			c.Source = "ocidir"
		}
		if rng.Intn(8) == 0 {
			c.ViaIndex = true
		}
		if rng.Intn(12) == 0 {
			// a layer whose digest itself is hostile and that has no title (the digest becomes the file name)
			k := 1 + rng.Intn(8)
			l := layerSpec{NoTitle: true, TitleClass: "no-title+hostile-digest", HostileDig: "enc-dotdot"}
			if c.Source == "ocidir" {
				l.Digest = g.digest(rng, "enc-dotdot", g.Layout, "").S
			} else {
				enc := dotdots(k) + g.leaf(rng)
				g.assertContained("digest used as file name", enc)
				l.Digest = "sha256:" + enc
			}
			l.content = []byte("hostile-digest-blob " + g.marker)
			c.Layers = append([]layerSpec{l}, c.Layers...)
		}
	}
	c.OutArg = []string{"abs", "abs", "rel", "rel-dot", "abs-slash"}[rng.Intn(5)]
	return c
}

func genLayer(g *Guard, rng *rand.Rand, cls string, unpack bool) layerSpec {
	t := g.title(rng, cls)
	l := layerSpec{Title: t.S, TitleClass: t.Class, Unpack: unpack}
	if cls == "empty" && rng.Intn(2) == 0 {
		l.NoTitle = true
		l.TitleClass = "no-title"
	}
	if unpack || strings.HasSuffix(t.S, "/") || rng.Intn(6) == 0 {
		pat := tarPatterns[rng.Intn(len(tarPatterns))]
		es, tc := g.hostileTar(rng, pat)
		l.Tar, l.TarClass, l.Entries = true, tc, describeEntries(es)
		raw := buildTar(es)
		l.reach = reachable(raw)
		l.Comp = []string{"", "gzip", "zstd"}[rng.Intn(3)]
		l.content = compress(l.Comp, raw)
	} else {
		l.content = []byte(fmt.Sprintf("layer-content %s %d\n", g.marker, rng.Int63()))
	}
	// make the blob unique so that its GET identifies the layer
	if !l.Tar {
		l.content = append(l.content, []byte(fmt.Sprintf("nonce %d", rng.Int63()))...)
	}
	l.Digest = la.Digest("sha256", l.content)
	return l
}

const emptyCfg = "{}"

// manifestBytes renders the artifact manifest with encoding/json (harness' own bytes).
func (c artCase) manifestBytes() []byte {
	layers := []map[string]any{}
	for _, l := range c.Layers {
		d := map[string]any{"mediaType": "application/octet-stream", "digest": l.Digest, "size": len(l.content)}
		if l.Tar {
			d["mediaType"] = "application/vnd.oci.image.layer.v1.tar"
		}
		ann := map[string]string{}
		if !l.NoTitle {
			ann[annTitle] = l.Title
		}
		if l.Unpack {
			ann[annUnpack] = "true"
		}
		if len(ann) > 0 {
			d["annotations"] = ann
		}
		layers = append(layers, d)
	}
	m := map[string]any{"schemaVersion": 2, "mediaType": la.MTOCIManifest, "artifactType": "application/vnd.verif.c20",
		"config": map[string]any{"mediaType": "application/vnd.oci.empty.v1+json", "digest": la.Digest("sha256", []byte(emptyCfg)), "size": len(emptyCfg)},
		"layers": layers}
	b, _ := json.Marshal(m)
	return b
}

func indexOver(man []byte, mt string) []byte {
	idx := map[string]any{"schemaVersion": 2, "mediaType": la.MTOCIIndex,
		"manifests": []map[string]any{{"mediaType": mt, "digest": la.Digest("sha256", man), "size": len(man), "artifactType": "application/vnd.verif.c20"}}}
	b, _ := json.Marshal(idx)
	return b
}

type artResult struct {
	childResult
	fetched     map[string]bool // layer digest -> blob GET answered 200
	manFetched  bool
	insideF     int
	insideD     int
	setupErr    error
}

// writeRawLayout writes blobs + index with plain os calls.
func writeRawLayout(dir string, blobs map[string][]byte, index []map[string]any) error {
	if err := os.MkdirAll(filepath.Join(dir, "blobs", "sha256"), 0o755); err != nil {
		return err
	}
	for d, b := range blobs {
		alg, enc, ok := strings.Cut(d, ":")
		if !ok || strings.ContainsAny(enc, "/\x00") || strings.ContainsAny(alg, "/\x00") || enc == "" || enc == "." || enc == ".." {
			continue // a hostile digest has no honest file name; the layout simply lacks that blob
		}
		p := filepath.Join(dir, "blobs", alg)
		if err := os.MkdirAll(p, 0o755); err != nil {
			return err
		}
		if err := os.WriteFile(filepath.Join(p, enc), b, 0o644); err != nil {
			return err
		}
	}
	if err := os.WriteFile(filepath.Join(dir, "oci-layout"), []byte(`{"imageLayoutVersion":"1.0.0"}`), 0o644); err != nil {
		return err
	}
	if index == nil {
		index = []map[string]any{}
	}
	b, _ := json.Marshal(map[string]any{"schemaVersion": 2, "mediaType": la.MTOCIIndex, "manifests": index})
	return os.WriteFile(filepath.Join(dir, "index.json"), b, 0o644)
}

func runArtCase(g *Guard, host *modelreg.Host, regctl string, c artCase, straceOK bool) artResult {
	res := artResult{fetched: map[string]bool{}}
	if err := g.ResetDesignated(); err != nil {
		res.setupErr = err
		return res
	}
	// pre-existing content of the output directory (no links: statement)
	_ = os.WriteFile(filepath.Join(g.Out, "exist.txt"), []byte("pre-existing\n"), 0o644)
	_ = os.MkdirAll(filepath.Join(g.Out, "existdir"), 0o755)
	_ = os.WriteFile(filepath.Join(g.Out, "existdir", "inner.txt"), []byte("pre-existing inner\n"), 0o644)
	man := c.manifestBytes()
	top, topMT := man, la.MTOCIManifest
	if c.ViaIndex {
		top, topMT = indexOver(man, la.MTOCIManifest), la.MTOCIIndex
	}
	repo := fmt.Sprintf("c20/%s/case%d", g.marker, c.ID)
	var refArg string
	if c.Source == "reg" {
		host.PutBlob(repo, "sha256", []byte(emptyCfg))
		host.W.Lock()
		for _, l := range c.Layers {
			host.Repo(repo).Blobs[l.Digest] = l.content
		}
		host.W.Unlock()
		host.PutManifest(repo, "sha256", la.MTOCIManifest, man, "")
		host.PutManifest(repo, "sha256", topMT, top, "t")
		refArg = host.Addr() + "/" + repo + ":t"
	} else {
		blobs := map[string][]byte{la.Digest("sha256", []byte(emptyCfg)): []byte(emptyCfg), la.Digest("sha256", man): man, la.Digest("sha256", top): top}
		for _, l := range c.Layers {
			blobs[l.Digest] = l.content
		}
		idx := []map[string]any{{"mediaType": topMT, "digest": la.Digest("sha256", top), "size": len(top), "annotations": map[string]string{la.AnnotRefName: "t"}}}
		if err := writeRawLayout(g.Layout, blobs, idx); err != nil {
			res.setupErr = err
			return res
		}
		refArg = "ocidir://" + g.Layout + ":t"
	}
	_ = os.Chtimes(g.Levels[spineDepth], oldTime, oldTime)
	var out string
	switch c.OutArg {
	case "rel":
		out = "../out"
	case "rel-dot":
		out = "./../out/."
	case "abs-slash":
		out = g.Out + "/"
	default:
		out = g.Out
	}
	args := []string{"--host", "reg=" + host.Addr() + ",tls=disabled", "artifact", "get", "-o", out}
	if c.Strip {
		args = append(args, "--strip-dirs")
	}
	args = append(args, refArg)
	res.childResult = runChild(g, regctl, args, c.Strace && straceOK)
	res.insideF, res.insideD = countInside(g.Out)
	if c.Source == "reg" {
		for _, e := range host.W.Log() {
			if e.Repo != repo || e.Method != "GET" || e.Status != 200 {
				continue
			}
			if e.Kind == "blob" {
				res.fetched[e.Ref] = true
			}
			if e.Kind == "manifest" {
				res.manFetched = true
			}
		}
	} else {
		res.manFetched = true // not observable for a layout source; the layout written above is complete
	}
	return res
}

func changeKinds(cs []change) string {
	set := map[string]bool{}
	for _, c := range cs {
		set[c.Kind] = true
	}
	var ks []string
	for _, k := range []string{"created", "removed", "modified", "type", "meta"} {
		if set[k] {
			ks = append(ks, k)
		}
	}
	if len(ks) == 0 {
		// only directory / file mtimes moved (e.g. something was created and removed again)
		return "mtime"
	}
	return strings.Join(ks, "+")
}

func capChanges(cs []change) []change {
	if len(cs) > 12 {
		return cs[:12]
	}
	return cs
}

// judgeArt turns the observations of one run into verdicts / evidence.
func judgeArt(run *ev.Run, g *Guard, c artCase, r artResult) {
	run.Eval(1)
	run.Count("artifact_runs", 1)
	if r.setupErr != nil {
		run.Inconclusive(fmt.Sprintf("artifact case %d: harness setup failed: %v", c.ID, r.setupErr))
		return
	}
	// which layers were actually presented to the path handling? Layers are processed in
	// order and the first failure ends the run: a layer was presented if its blob was fetched
	// (registry log), or it is the first layer of a manifest that was fetched, or the run
	// succeeded as a whole.
	exercised := []layerSpec{}
	for k, l := range c.Layers {
		if r.fetched[l.Digest] || (k == 0 && r.manFetched) || (r.exit == 0 && r.manFetched && !r.timedOut) {
			exercised = append(exercised, l)
		}
	}
	lead := c.Layers[0]
	if len(exercised) > 0 {
		lead = exercised[len(exercised)-1]
	}
	fpClass := fmt.Sprintf("title:%s/strip=%v/unpack=%v", lead.TitleClass, c.Strip, lead.Unpack)
	if lead.Tar && (lead.Unpack || strings.HasSuffix(lead.Title, "/")) {
		fpClass += "/tar:" + lead.TarClass
	}
	wit := func(extra map[string]any) map[string]any {
		w := map[string]any{"case": c.witness(), "regctl_exit": r.exit, "regctl_output": r.output, "guard": g.Root, "designated": []string{g.Out},
			"how_to_reproduce": "serve the manifest described under case.layers from any registry and run: regctl artifact get -o <empty dir> " + map[bool]string{true: "--strip-dirs ", false: ""}[c.Strip] + "<ref>; then list the parent directories"}
		if c.Source == "ocidir" {
			w["designated"] = []string{g.Out, g.Layout}
		}
		for k, v := range extra {
			w[k] = v
		}
		return w
	}
	if !judgeChild(run, g, "artifact", "artifact-get/"+fpClass, "regctl artifact get", wit, r.childResult) {
		return
	}
	if r.exit == 0 {
		run.Count("artifact_runs_exit0", 1)
	} else {
		run.Count("artifact_runs_rejected", 1)
	}
	if n := r.insideF - 2; n > 0 {
		run.Count("artifact_files_written_inside_out", n)
	}
	if n := r.insideD - 1; n > 0 {
		run.Count("artifact_dirs_created_inside_out", n)
	}
	// non-triviality: a hostile layer was presented to regctl's path handling
	for _, l := range exercised {
		if l.TitleClass == "benign" && !l.Tar {
			continue
		}
		run.Count("artifact_hostile_layers_presented", 1)
		key := fmt.Sprintf("art/%s/strip=%v/unpack=%v/src=%s", l.TitleClass, c.Strip, l.Unpack, c.Source)
		if l.Tar && (l.Unpack || strings.HasSuffix(l.Title, "/")) {
			key += "/tar:" + l.TarClass
			run.Count("artifact_unpack_layers_presented", 1)
			run.Count("artifact_tar_entries_reachable", l.reach)
		}
		if c.Strip {
			run.Count("artifact_strip_dirs_layers_presented", 1)
		}
		if l.HostileDig != "" {
			run.Count("artifact_hostile_digest_layers_presented", 1)
		}
		run.Distinct(key)
		base, _, _ := strings.Cut(l.TitleClass, "/")
		run.SetAdd("artifact_title_classes_presented", base)
	}
	if c.ID%97 == 3 {
		run.Sample(map[string]any{"workload": "artifact-get", "case": c.witness(), "exit": r.exit, "files_inside_out": r.insideF, "layers_fetched": len(r.fetched)})
	}
}

// cliWorkloads runs the child-process workloads on parallel workers, each with its own guard.
// A case depends only on (seed, workload, index), never on the worker or on scheduling.
func cliWorkloads(run *ev.Run, binDir, regctl, marker string, nArt, nImp, nLay, workers, straceEvery int, straceOK bool) {
	world := modelreg.NewWorld()
	host := world.NewHost("art")
	defer world.Close()
	var wg sync.WaitGroup
	var mu sync.Mutex // verdicts of one case are reported together
	jobs := make(chan func(g *Guard))
	for w := 0; w < workers; w++ {
		wg.Add(1)
		go func(w int) {
			defer wg.Done()
			g, err := NewGuard(filepath.Join(binDir, fmt.Sprintf("ga%d", w)), marker)
			if err != nil {
				run.Inconclusive("cannot build guard: " + err.Error())
				for range jobs {
				}
				return
			}
			for j := range jobs {
				j(g)
			}
			_ = chmodAll(g.Root)
			_ = os.RemoveAll(g.Root)
		}(w)
	}
	traced := func(i int) bool { return straceOK && straceEvery > 0 && i%straceEvery == 0 }
	for i := 0; i < nArt; i++ {
		i := i
		jobs <- func(g *Guard) {
			rng := ev.Rand(fmt.Sprintf("c20/artifact/%d", i))
			c := genArtCase(g, rng, i)
			c.Strace = traced(i)
			r := runArtCase(g, host, regctl, c, straceOK)
			mu.Lock()
			judgeArt(run, g, c, r)
			mu.Unlock()
		}
	}
	for i := 0; i < nImp; i++ {
		i := i
		jobs <- func(g *Guard) { cliImportCase(run, &mu, g, regctl, binDir, i, traced(i)) }
	}
	for i := 0; i < nLay; i++ {
		i := i
		jobs <- func(g *Guard) { cliLayoutCase(run, &mu, g, regctl, i, traced(i)) }
	}
	close(jobs)
	wg.Wait()
}
