package main

// Generators of hostile strings: artifact titles, tar entry names / link targets, digests
// and tags. Every generator returns the string together with a class label; the label is
// what fingerprints and the distinct-case count are built from.
//
// SAFETY RULE (enforced by assertContained / assertDigest, which panic = broken check):
// every hostile string, under every way a careless implementation might resolve it
// (absolute; relative to the output directory, the working directory or a layout; with
// NULs cut or removed; with encoded / odd separators decoded), names a path INSIDE the
// guard tree below $VERIF_BIN. Absolute hostile paths are built by prefixing a guard
// directory; the number of "../" segments is bounded by the depth of the designated
// directory inside the guard (longer chains are compensated by a prefix of as many
// directory components). In addition every leaf that is not a structural name carries the
// run's unique marker, so that even a leaf resolved against an unforeseen base cannot
// coincide with a real file of the machine.

import (
	"fmt"
	"math/rand"
	"os"
	"path/filepath"
	"strings"
)

type named struct {
	S     string
	Class string
}

// maxClimb is the largest net number of "../" a hostile relative name may climb from a
// designated directory: the designated directories sit spineDepth+1 levels below the guard root.
const maxClimb = spineDepth

// marker-carrying victim names (relative to a spine level)
func (g *Guard) vFile() string  { return "victim-" + g.marker + ".txt" }
func (g *Guard) vEtc() string   { return "etc/passwd-" + g.marker }
func (g *Guard) vX() string     { return "x-" + g.marker }
func (g *Guard) vBlob() string  { return "blobs/sha256/victimblob-" + g.marker }
func (g *Guard) vEmpty() string { return "emptyvictim-" + g.marker }
func (g *Guard) vEmptyBlob() string {
	return "blobs/sha256/emptyvictim-" + g.marker
}
func (g *Guard) vSib() string { return "sibling-" + g.marker }
func (g *Guard) pwn() string  { return "pwn-" + g.marker }
func (g *Guard) dnew() string { return "d-" + g.marker }

func (g *Guard) inside(abs string) bool {
	c := filepath.Clean(abs)
	return c == g.Root || strings.HasPrefix(c, g.Root+"/")
}

// variants lists the readings of a hostile string a careless implementation might use.
func variants(s string) []string {
	vs := []string{s}
	if strings.Contains(s, "\x00") {
		vs = append(vs, strings.ReplaceAll(s, "\x00", ""), s[:strings.IndexByte(s, 0)], s[strings.LastIndexByte(s, 0)+1:])
	}
	dec := strings.NewReplacer("\\", "/", "%2f", "/", "%2F", "/", "%2e", ".", "%2E", ".", "∕", "/", "．", ".", "\n", "")
	for _, v := range append([]string(nil), vs...) {
		if d := dec.Replace(v); d != v {
			vs = append(vs, d)
		}
		if t := strings.TrimSpace(v); t != v {
			vs = append(vs, t)
		}
		if t := strings.ReplaceAll(v, " ", ""); t != v {
			vs = append(vs, t, dec.Replace(t))
		}
	}
	return vs
}

// assertContained panics unless every reading of the hostile path string s stays inside
// the guard: as an absolute path, and relative to each base.
func (g *Guard) assertContained(kind, s string, bases ...string) {
	if len(bases) == 0 {
		bases = []string{g.Out, g.Cwd, g.Layout, g.Layout2}
	}
	for _, v := range variants(s) {
		if strings.HasPrefix(v, "/") && !g.inside(v) {
			panic(fmt.Sprintf("c20 harness: hostile %s %q resolves (absolute) to %s, outside the guard %s", kind, clip(s, 200), filepath.Clean(v), g.Root))
		}
		for _, b := range bases {
			if r := filepath.Join(b, v); !g.inside(r) {
				panic(fmt.Sprintf("c20 harness: hostile %s %q resolves against %s to %s, outside the guard %s", kind, clip(s, 200), b, r, g.Root))
			}
		}
	}
	// physical check of the primary reading: the deepest existing ancestor of its parent,
	// with symbolic links resolved, must lie inside the guard
	p := s
	if i := strings.IndexByte(p, 0); i >= 0 {
		p = p[:i]
	}
	if !strings.HasPrefix(p, "/") {
		p = filepath.Join(bases[0], p)
	}
	anc := filepath.Dir(filepath.Clean(p))
	for {
		if _, err := os.Lstat(anc); err == nil || anc == "/" {
			break
		}
		anc = filepath.Dir(anc)
	}
	if real, err := filepath.EvalSymlinks(anc); err != nil || !g.inside(real) {
		panic(fmt.Sprintf("c20 harness: parent of hostile %s %q resolves to %s (%v), outside the guard %s", kind, clip(s, 200), real, err, g.Root))
	}
}

// assertDigest panics unless the digest, read as <layout>/blobs/<alg>/<enc> (split at the
// first colon, or not at all), stays inside the guard for both layouts.
func (g *Guard) assertDigest(d string) {
	for _, v := range variants(d) {
		alg, enc, ok := strings.Cut(v, ":")
		cands := []string{filepath.Join("blobs", alg, enc), filepath.Join("blobs", v), filepath.Join("blobs", "sha256", v)}
		if !ok {
			cands = append(cands, filepath.Join("blobs", "sha256", alg))
		}
		if strings.HasPrefix(enc, "/") && !g.inside(enc) {
			panic(fmt.Sprintf("c20 harness: hostile digest %q has an absolute part outside the guard", clip(d, 200)))
		}
		for _, layout := range []string{g.Layout, g.Layout2} {
			for _, c := range cands {
				if r := filepath.Join(layout, c); !g.inside(r) {
					panic(fmt.Sprintf("c20 harness: hostile digest %q resolves to %s, outside the guard %s", clip(d, 200), r, g.Root))
				}
			}
		}
	}
}

// leaves a hostile name may aim at, relative to a spine level.
func (g *Guard) leafExisting(rng *rand.Rand) string {
	return []string{g.vFile(), g.vEtc(), "exist.txt", g.vX(), "index.json", g.vEmpty(), g.vSib(), g.vBlob()}[rng.Intn(8)]
}

func (g *Guard) leafNew(rng *rand.Rand) string {
	return []string{g.pwn(), g.dnew() + "/f", g.vSib() + "/" + g.pwn(), g.vEmpty() + "/" + g.pwn(), "etc/" + g.pwn()}[rng.Intn(5)]
}

func (g *Guard) leaf(rng *rand.Rand) string {
	if rng.Intn(2) == 0 {
		return g.leafExisting(rng)
	}
	return g.leafNew(rng)
}

// markerLeaves are the top-level marker names looked for in $VERIF_BIN, next to the guard.
func (g *Guard) markerLeaves() []string {
	return []string{g.pwn(), g.dnew(), g.vFile(), g.vX(), g.vEmpty(), g.vSib(), "etc/passwd-" + g.marker, "etc/" + g.pwn()}
}

func dotdots(k int) string { return strings.Repeat("../", k) }

// compensated returns n directory components followed by n+k "../": a chain of any length
// whose net climb is k.
func compensated(comp string, n, k int) string {
	return strings.Repeat(comp+"/", n) + dotdots(n+k)
}

var titleClasses = []string{"benign", "abs-victim", "abs-new", "dotdot-k", "dotdot-many", "mid-dotdot", "dots-only", "nul", "long", "collide", "odd-sep", "dotdot-trailing-slash", "cwd-relative", "sibling-prefix", "empty"}

// title returns a hostile (or benign control) title annotation of class cls.
func (g *Guard) title(rng *rand.Rand, cls string) named {
	n := g.titleRaw(rng, cls)
	g.assertContained("name", n.S)
	return n
}

func (g *Guard) titleRaw(rng *rand.Rand, cls string) named {
	switch cls {
	case "benign":
		return named{[]string{"file.txt", "dir/file.txt", "a/b/c/file.bin", "chart-0.1.0.tgz", "Readme .md"}[rng.Intn(5)], cls}
	case "abs-victim":
		lvl := g.Levels[rng.Intn(len(g.Levels))]
		v := []string{g.vFile(), g.vEtc(), "exist.txt", g.vEmpty()}[rng.Intn(4)]
		if rng.Intn(4) == 0 {
			lvl = g.Cwd
			v = []string{g.vFile(), g.vEtc(), "exist.txt", g.vEmpty()}[rng.Intn(4)]
		}
		p := filepath.Join(lvl, v)
		if rng.Intn(3) == 0 {
			p = "/" + p // double leading slash
		}
		return named{p, cls}
	case "abs-new":
		// absolute names of objects that do not exist yet — always below a guard directory
		switch rng.Intn(3) {
		case 0:
			return named{filepath.Join(g.Root, g.pwn()), cls}
		case 1:
			return named{filepath.Join(g.Cwd, g.pwn()), cls}
		}
		return named{filepath.Join(g.Levels[rng.Intn(len(g.Levels))], g.leafNew(rng)), cls}
	case "dotdot-k":
		k := 1 + rng.Intn(8)
		return named{dotdots(k) + g.leaf(rng), fmt.Sprintf("%s/%d", cls, k)}
	case "dotdot-many":
		// more segments than any realistic depth, net climb bounded by maxClimb
		switch rng.Intn(3) {
		case 0:
			return named{dotdots(maxClimb-rng.Intn(2)) + g.leaf(rng), cls}
		case 1:
			return named{compensated("p", []int{4, 12, 40, 200}[rng.Intn(4)], 1+rng.Intn(maxClimb)) + g.leaf(rng), cls}
		}
		return named{compensated("..p", 30, 1+rng.Intn(8)) + g.leaf(rng), cls}
	case "mid-dotdot":
		k := 1 + rng.Intn(6)
		pre := []string{"a/b/", "./", "a/./", "a//b//", "a/b/c/../", ".//", "a/..//"}[rng.Intn(7)]
		up := strings.Count(strings.ReplaceAll(pre, "..", ""), "/") // generous: climbs past the prefix, by at most 3 extra levels
		sep := []string{"../", "..//", ".././"}[rng.Intn(3)]
		return named{pre + strings.Repeat(sep, up+k) + g.leaf(rng), cls}
	case "dots-only":
		// (the bare root "/" is deliberately absent: no hostile string may name a path outside the guard)
		return named{[]string{".", "..", "../", "../..", "../../", "a/..", "a/../", "./", "...", "a/../..", "a/../../", "./.", "../.", ".././..", "..//"}[rng.Intn(15)], cls}
	case "nul":
		k := 1 + rng.Intn(6)
		switch rng.Intn(5) {
		case 0:
			return named{"a\x00" + dotdots(k) + g.leaf(rng), cls}
		case 1:
			return named{dotdots(k) + g.leaf(rng) + "\x00.png", cls}
		case 2:
			return named{"\x00", cls}
		case 3:
			return named{"ok.txt\x00" + dotdots(2) + g.leaf(rng), cls}
		}
		return named{dotdots(k) + "\x00" + g.leaf(rng), cls}
	case "long":
		switch rng.Intn(5) {
		case 0:
			return named{strings.Repeat("A", []int{255, 256, 1024, 4096, 5000}[rng.Intn(5)]), cls + "/component"}
		case 1:
			return named{strings.Repeat("d/", 300+rng.Intn(2000)) + "f", cls + "/deep"}
		case 2:
			return named{compensated("q", 1000+rng.Intn(1500), 1+rng.Intn(8)) + g.pwn(), cls + "/dotdot"}
		case 3:
			return named{compensated(strings.Repeat("B", 200), 25, 2+rng.Intn(8)) + g.leaf(rng), cls + "/deep-then-up"}
		}
		return named{dotdots(1+rng.Intn(8)) + strings.Repeat("C", 4096) + "/" + g.leaf(rng), cls + "/up-then-long"}
	case "collide":
		return named{[]string{"exist.txt", "existdir", "exist.txt/sub", "existdir/inner.txt", "existdir/../exist.txt", "existdir/", "exist.txt/", "existdir/inner.txt/x", "EXIST.TXT"}[rng.Intn(9)], cls}
	case "odd-sep":
		k := 1 + rng.Intn(6)
		l := g.leaf(rng)
		switch rng.Intn(8) {
		case 0:
			return named{strings.Repeat("..\\", k) + l, cls + "/backslash"}
		case 1:
			return named{strings.Repeat("..%2f", k) + l, cls + "/pct"}
		case 2:
			return named{strings.Repeat("%2e%2e/", k) + l, cls + "/pct"}
		case 3:
			return named{strings.Repeat("..∕", k) + l, cls + "/unicode"}
		case 4:
			return named{strings.Repeat("．．/", k) + l, cls + "/unicode"}
		case 5:
			return named{" " + dotdots(k) + l, cls + "/space"}
		case 6:
			return named{strings.Repeat(".. /", k) + l, cls + "/space"}
		}
		return named{"a\n" + dotdots(k) + l, cls + "/newline"}
	case "dotdot-trailing-slash":
		k := 1 + rng.Intn(8)
		return named{dotdots(k) + []string{g.vEmpty(), g.vSib(), "etc", g.dnew(), "blobs/sha256"}[rng.Intn(5)] + "/", cls}
	case "cwd-relative":
		// names that exist in the working directory: a name used without the output directory lands there
		return named{[]string{g.vFile(), "exist.txt", g.vEtc(), g.vEmpty(), "./" + g.vFile(), g.pwn()}[rng.Intn(6)], cls}
	case "sibling-prefix":
		// one level up and into a sibling whose name merely starts with the designated directory's name:
		// a containment test by string prefix (without the separator) lets these through
		base := filepath.Base(g.Out)
		sfx := []string{"2", "-old", ".bak", "x", "_"}[rng.Intn(5)]
		switch rng.Intn(4) {
		case 0:
			return named{"../" + base + sfx + "/" + g.pwn(), cls}
		case 1:
			return named{"sub/../../" + base + sfx + "/" + g.pwn(), cls}
		case 2:
			return named{"../" + base + sfx, cls} // a file next to the directory
		}
		return named{"./../" + base + sfx + "/d/" + g.pwn(), cls}
	case "empty":
		return named{"", cls}
	}
	panic("unknown title class " + cls)
}

var entryNameClasses = []string{"benign", "abs-victim", "abs-new", "dotdot-k", "dotdot-many", "mid-dotdot", "dots-only", "long", "collide", "odd-sep", "dotdot-trailing-slash", "cwd-relative", "sibling-prefix"}

// entryName returns a tar entry name (no NUL: the tar format cannot carry one).
func (g *Guard) entryName(rng *rand.Rand) named {
	return g.title(rng, entryNameClasses[rng.Intn(len(entryNameClasses))])
}

// linkTarget returns a hostile link target. Absolute targets are guard directories /
// sentinels; relative ones climb at most 8 levels and are only used for links that the
// generator places directly in the designated directory (or one level below it).
func (g *Guard) linkTarget(rng *rand.Rand, wantDir bool) named {
	lvl := g.Levels[1+rng.Intn(len(g.Levels)-1)] // never the guard root itself: the target's parent must be inside the guard too
	var n named
	switch rng.Intn(5) {
	case 0:
		if wantDir {
			n = named{lvl, "abs-dir"}
		} else {
			n = named{filepath.Join(lvl, g.vFile()), "abs-file"}
		}
	case 1:
		k := 1 + rng.Intn(8)
		if wantDir {
			n = named{strings.TrimSuffix(dotdots(k), "/"), "rel-dir"}
		} else {
			n = named{dotdots(k) + g.vFile(), "rel-file"}
		}
	case 2:
		if wantDir {
			n = named{filepath.Join(lvl, g.vEmpty()), "abs-emptydir"}
		} else {
			n = named{filepath.Join(lvl, g.vEtc()), "abs-file"}
		}
	case 3:
		if wantDir {
			n = named{filepath.Join(lvl, g.vSib()), "abs-dir"}
		} else {
			n = named{filepath.Join(g.Cwd, g.vFile()), "abs-file"}
		}
	default:
		if wantDir {
			n = named{g.Levels[1], "abs-guard-top"}
		} else {
			n = named{filepath.Join(g.Root, g.vX()), "abs-guard-top-file"}
		}
	}
	g.assertContained("link target", n.S)
	return n
}

// absLinkTarget is linkTarget restricted to absolute (guard-internal) targets, for links
// whose own location is itself a hostile name.
func (g *Guard) absLinkTarget(rng *rand.Rand, wantDir bool) named {
	for {
		if t := g.linkTarget(rng, wantDir); strings.HasPrefix(t.S, "/") {
			return t
		}
	}
}

// ------------------------------------------------------------------------------------
// digests

var digestClasses = []string{"enc-dotdot", "enc-dotdot", "enc-dotdot-emptydir", "enc-dotdot-new", "enc-dotdot-sha512", "alg-slash", "alg-slash", "alg-dotdot", "abs-enc",
	"no-colon", "empty-parts", "nul", "long", "dot-enc", "inside-layout", "valid-absent", "valid-present", "multi-colon", "case-short", "odd-sep", "enc-dotdot-many", "unknown-alg", "valid-prefix-then-dotdot", "valid-prefix-then-dotdot"}

// digest builds a hostile digest string aimed at a victim, as seen from layout.
// present is a digest that exists in the layout (for the control class).
func (g *Guard) digest(rng *rand.Rand, cls, layout, present string) named {
	n := g.digestRaw(rng, cls, layout, present)
	g.assertDigest(n.S)
	return n
}

func (g *Guard) digestRaw(rng *rand.Rand, cls, layout, present string) named {
	// victims of digests sit at least three levels below the guard root, so that a reading of
	// the same "../" chain from <layout> or <layout>/blobs (instead of <layout>/blobs/<alg>)
	// still ends inside the guard
	lvl := g.Levels[3+rng.Intn(len(g.Levels)-3)]
	victimFile := filepath.Join(lvl, []string{g.vFile(), g.vEtc(), g.vX(), g.vBlob(), "index.json", "oci-layout"}[rng.Intn(6)])
	if rng.Intn(6) == 0 {
		victimFile = filepath.Join(g.Cwd, g.vFile())
	}
	emptyDir := filepath.Join(lvl, []string{g.vEmpty(), g.vEmptyBlob(), g.vSib()}[rng.Intn(3)])
	newFile := filepath.Join(lvl, []string{g.pwn(), g.vEmpty() + "/" + g.pwn(), g.dnew() + "/f"}[rng.Intn(3)])
	rel := func(alg, target string) string {
		r, err := filepath.Rel(filepath.Join(layout, "blobs", alg), target)
		if err != nil {
			panic(err)
		}
		return r
	}
	switch cls {
	case "enc-dotdot":
		return named{"sha256:" + rel("sha256", victimFile), cls}
	case "enc-dotdot-emptydir":
		return named{"sha256:" + rel("sha256", emptyDir), cls}
	case "enc-dotdot-new":
		return named{"sha256:" + rel("sha256", newFile), cls}
	case "enc-dotdot-sha512":
		return named{"sha512:" + rel("sha512", victimFile), cls}
	case "enc-dotdot-many":
		// a very long chain whose net effect is the exact climb to the victim
		return named{"sha256:" + compensated("p", 40+rng.Intn(100), 0) + rel("sha256", victimFile), cls}
	case "alg-slash":
		// blobs/<alg>/<enc> with alg = relative path to the victim's directory
		r, _ := filepath.Rel(filepath.Join(layout, "blobs"), filepath.Dir(victimFile))
		switch rng.Intn(3) {
		case 0:
			return named{r + ":" + filepath.Base(victimFile), cls}
		case 1:
			return named{"sha256/../" + r + ":" + filepath.Base(victimFile), cls}
		}
		r2, _ := filepath.Rel(filepath.Join(layout, "blobs"), filepath.Dir(emptyDir))
		return named{r2 + ":" + filepath.Base(emptyDir), cls}
	case "alg-dotdot":
		r, _ := filepath.Rel(layout, victimFile) // from <layout>/blobs/..
		return named{"..:" + r, cls}
	case "abs-enc":
		return named{"sha256:" + victimFile, cls}
	case "no-colon":
		return named{[]string{"sha256", g.vFile(), rel("sha256", victimFile), "../../" + filepath.Base(victimFile), "sha256/", "sha256-abc"}[rng.Intn(6)], cls}
	case "empty-parts":
		return named{[]string{":", "sha256:", ":" + rel("", victimFile), "::", ":abc"}[rng.Intn(5)], cls}
	case "nul":
		return named{[]string{"sha256:" + rel("sha256", victimFile) + "\x00", "sha256:\x00", "sha256\x00:" + rel("sha256", victimFile), "sha256:" + strings.Repeat("0", 64) + "\x00" + rel("sha256", victimFile)}[rng.Intn(4)], cls}
	case "long":
		switch rng.Intn(3) {
		case 0:
			return named{"sha256:" + strings.Repeat("a", 5000), cls}
		case 1:
			return named{strings.Repeat("a", 5000) + ":" + rel("", victimFile), cls}
		}
		return named{"sha256:" + compensated("a", 300, 0) + rel("sha256", victimFile), cls}
	case "dot-enc":
		return named{[]string{"sha256:.", "sha256:..", "sha256:../..", "sha256:./.", ".:.", "..:..", "sha256:../../..", "sha256:../../../.."}[rng.Intn(8)], cls}
	case "inside-layout":
		return named{[]string{"sha256:../../index.json", "sha256:../../oci-layout", "sha256:../sha256/" + strings.TrimPrefix(present, "sha256:"), "blobs:sha256", "sha256:./" + strings.TrimPrefix(present, "sha256:")}[rng.Intn(5)], cls}
	case "valid-prefix-then-dotdot":
		// starts exactly like a digest (a validation that is not anchored at the end lets it through),
		// then leaves the directory: <hex>/../<path to the victim>
		hex := []string{strings.Repeat("0", 64), strings.TrimPrefix(present, "sha256:"), strings.Repeat("ab", 16), strings.Repeat("c", 40)}[rng.Intn(4)]
		tgt := []string{victimFile, emptyDir, newFile}[rng.Intn(3)]
		if rng.Intn(4) == 0 {
			return named{"sha512:" + strings.Repeat("0", 128) + "/../" + rel("sha512", tgt), cls}
		}
		return named{"sha256:" + hex + "/../" + rel("sha256", tgt), cls}
	case "valid-absent":
		b := make([]byte, 32)
		rng.Read(b)
		return named{fmt.Sprintf("sha256:%x", b), cls}
	case "valid-present":
		return named{present, cls}
	case "multi-colon":
		return named{[]string{"sha256:abc:" + rel("sha256", victimFile), "sha256:sha256:" + strings.Repeat("0", 64), "sha256:" + rel("sha256", victimFile) + ":x"}[rng.Intn(3)], cls}
	case "case-short":
		return named{[]string{"SHA256:" + strings.Repeat("A", 64), "sha256:abc", "sha256:" + strings.Repeat("g", 64), "sha256:" + strings.Repeat("0", 63), "sha256:" + strings.Repeat("0", 65)}[rng.Intn(5)], cls}
	case "odd-sep":
		r := rel("sha256", victimFile)
		return named{[]string{"sha256:" + strings.ReplaceAll(r, "/", "\\"), "sha256:" + strings.ReplaceAll(r, "/", "%2f"), "sha256: " + r, "sha256:" + strings.ReplaceAll(r, "/", "//")}[rng.Intn(4)], cls}
	case "unknown-alg":
		return named{[]string{"md5:" + strings.Repeat("0", 32), "sha1:" + strings.Repeat("0", 40), "blake3:" + strings.Repeat("0", 64), "sha256+b64:" + rel("sha256+b64", victimFile), "sha384:" + rel("sha384", victimFile)}[rng.Intn(5)], cls}
	}
	panic("unknown digest class " + cls)
}

// isEscapingDigest reports classes whose path interpretation blobs/<alg>/<enc> leaves the layout.
func isEscapingDigest(cls string) bool {
	switch cls {
	case "enc-dotdot", "enc-dotdot-emptydir", "enc-dotdot-new", "enc-dotdot-sha512", "alg-slash", "alg-dotdot", "enc-dotdot-many", "multi-colon", "long", "nul", "unknown-alg", "empty-parts", "odd-sep":
		return true
	}
	return false
}

// tag returns a hostile tag.
func (g *Guard) tag(rng *rand.Rand) named {
	k := 1 + rng.Intn(8)
	var n named
	switch rng.Intn(7) {
	case 0:
		n = named{dotdots(k) + g.leaf(rng), "tag-dotdot"}
	case 1:
		n = named{filepath.Join(g.Levels[rng.Intn(len(g.Levels))], g.vFile()), "tag-abs"}
	case 2:
		n = named{"v1\x00" + dotdots(k) + g.vFile(), "tag-nul"}
	case 3:
		n = named{strings.Repeat("t", 5000), "tag-long"}
	case 4:
		n = named{"sha256-" + dotdots(k) + g.vFile(), "tag-fallback-like"}
	case 5:
		n = named{"..", "tag-dots"}
	default:
		n = named{"evil", "tag-plain"}
	}
	g.assertContained("tag", n.S)
	return n
}
