// C01 — blob reads never complete cleanly on content that does not match the descriptor.
// Monitor: the harness owns both ends. It knows the intended content, chooses what is actually
// served (corrupted, truncated, over-long, substituted, wrongly resumed), accumulates what the
// caller received and evaluates: clean completion => digest and size match the descriptor.
package main

import (
	"bytes"
	"context"
	"errors"
	"fmt"
	"io"
	"math/rand"
	"net/http"
	"os"
	"strings"
	"sync"
	"sync/atomic"
	"time"

	"github.com/opencontainers/go-digest"
	"github.com/regclient/regclient/config"
	"github.com/regclient/regclient/types/blob"
	"github.com/regclient/regclient/types/descriptor"

	"verif/ev"
	"verif/gen"
	la "verif/layoutaudit"
	"verif/modelreg"
	"verif/rcx"
)

var run *ev.Run

// scripted underlying reader
type script struct {
	data   []byte
	pos    int
	style  string // plain together zero dribble
	errAt  int    // >=0: return errInjected once pos reaches errAt
	zeroed bool
	next   []byte // content served after the next rewind (nil: unchanged)
}

var errInjected = errors.New("injected stream error")

func (s *script) Read(p []byte) (int, error) {
	if s.errAt >= 0 && s.pos >= s.errAt {
		return 0, errInjected
	}
	if s.style == "zero" && !s.zeroed && len(p) > 0 {
		s.zeroed = true
		return 0, nil // a legal zero-length read
	}
	s.zeroed = false
	if s.pos >= len(s.data) {
		return 0, io.EOF
	}
	n := len(p)
	if s.style == "dribble" && n > 1 {
		n = 1
	}
	if n > len(s.data)-s.pos {
		n = len(s.data) - s.pos
	}
	if s.errAt >= 0 && s.pos+n > s.errAt {
		n = s.errAt - s.pos
	}
	copy(p, s.data[s.pos:s.pos+n])
	s.pos += n
	if s.style == "together" && s.pos >= len(s.data) {
		return n, io.EOF
	}
	return n, nil
}

func (s *script) Seek(off int64, whence int) (int64, error) {
	if off != 0 || whence != io.SeekStart {
		return int64(s.pos), fmt.Errorf("unsupported")
	}
	s.pos = 0
	if s.next != nil {
		// the source changed between the passes (file overwritten, request re-issued and answered differently)
		s.data, s.next = s.next, nil
	}
	return 0, nil
}

// drain reads r with the given buffer-size sequence (cycled); returns what was received and the final error (nil = clean EOF).
func drain(r io.Reader, bufs []int) ([]byte, error) {
	var got []byte
	for i := 0; i < 1<<20; i++ {
		b := make([]byte, bufs[i%len(bufs)])
		n, err := r.Read(b)
		got = append(got, b[:n]...)
		if err == io.EOF {
			return got, nil
		}
		if err != nil {
			return got, err
		}
	}
	return got, fmt.Errorf("reader never ended")
}

type served struct {
	kind string
	data []byte
}

func corruptions(c []byte, full bool, rng *rand.Rand) []served {
	out := []served{{"correct", c}}
	L := len(c)
	// small contents: every offset; large contents: the edges plus three seeded offsets
	pick := func(i int) bool { return full || i == 0 || i == L-1 }
	var extraOff []int
	if !full && L > 2 {
		extraOff = []int{1 + rng.Intn(L-1), 1 + rng.Intn(L-1), 1 + rng.Intn(L-1)}
	}
	for t := 0; t < L; t++ {
		if pick(t) || t == L/2 {
			out = append(out, served{fmt.Sprintf("truncated@%d", t), c[:t]})
		}
		if !full && t > 0 && t < L-1 && t != L/2 {
			t = L - 2 // jump to the last offset
			if L/2 > 0 && L/2 < L-1 {
				out = append(out, served{fmt.Sprintf("truncated@%d", L/2), c[:L/2]})
			}
		}
	}
	for _, t := range extraOff {
		out = append(out, served{fmt.Sprintf("truncated@%d", t), c[:t]})
	}
	flip := func(i int) {
		f := bytes.Clone(c)
		f[i] ^= 1 << uint(rng.Intn(8))
		out = append(out, served{fmt.Sprintf("bitflip@%d", i), f})
	}
	if full {
		for i := 0; i < L; i++ {
			flip(i)
		}
	} else if L > 0 {
		flip(0)
		flip(L - 1)
		for _, i := range extraOff {
			flip(i)
		}
	}
	for k := 1; k <= 3; k++ {
		out = append(out, served{fmt.Sprintf("extra+%d", k), append(bytes.Clone(c), bytes.Repeat([]byte{0x41}, k)...)})
	}
	sub := make([]byte, L)
	rng.Read(sub)
	if L > 0 && !bytes.Equal(sub, c) {
		out = append(out, served{"substituted", sub})
	}
	return out
}

func verdict(level, what string, d descriptor.Descriptor, intended, got []byte, err error, wit map[string]any) {
	run.Eval(1)
	sizeKnown := d.Size > 0
	ok := la.Matches(string(d.Digest), got) && (!sizeKnown || int64(len(got)) == d.Size)
	if err == nil {
		run.Count("reads_completed_cleanly", 1)
		if !ok {
			cls := strings.SplitN(what, "@", 2)[0]
			cls = strings.SplitN(cls, "+", 2)[0]
			wit["received_len"], wit["descriptor"], wit["served"] = len(got), fmt.Sprintf("%s size %d", d.Digest, d.Size), what
			run.Violation(fmt.Sprintf("clean-read-of-mismatch/%s/%s/size-known=%t", level, cls, sizeKnown), fmt.Sprintf("[%s] a stream that is '%s' was read to the end without error: received %d bytes that do not match descriptor %s size %d", level, what, len(got), d.Digest, d.Size), wit)
		}
	} else {
		run.Count("reads_ended_in_error", 1)
		if what == "correct" || strings.HasPrefix(what, "correct") {
			wit["err"] = err.Error()
			run.Violation(fmt.Sprintf("correct-stream-rejected/%s/size-known=%t", level, sizeKnown), fmt.Sprintf("[%s] a correct stream ended in an error: %v", level, err), wit)
		}
	}
	_ = intended
}

// ---- level 1: blob.NewReader over scripted readers ----------------------------------------------

func level1() {
	rng := ev.Rand("c01/l1")
	bufSeqs := [][]int{{1}, {2}, {3}, {7}, {512}, {32768}, {1, 2, 3}, {7, 1, 512}, {3, 32768}}
	styles := []string{"plain", "together", "zero", "dribble"}
	maxFull := ev.Scale(20, 40)
	lengths := []int{}
	for l := 0; l <= maxFull; l++ {
		lengths = append(lengths, l)
	}
	lengths = append(lengths, 63, 64, 65, 511, 512, 513, 4096, 32767, 32768, 32769, 70000)
	if ev.Tier() == "thorough" {
		lengths = append(lengths, 131072, 262144, 262145)
	}
	var wg sync.WaitGroup
	sem := make(chan struct{}, 14)
	for _, L := range lengths {
		wg.Add(1)
		sem <- struct{}{}
		c := make([]byte, L)
		rng.Read(c)
		seed := rng.Int63()
		go func(L int, c []byte, seed int64) {
			defer wg.Done()
			defer func() { <-sem }()
			lr := rand.New(rand.NewSource(seed))
			full := L <= maxFull
			for _, alg := range []string{"sha256", "sha512"} {
				dg := digest.Digest(la.Digest(alg, c))
				for _, sizeKnown := range []bool{true, false} {
					d := descriptor.Descriptor{Digest: dg}
					if sizeKnown {
						d.Size = int64(L)
					}
					all := corruptions(c, full, lr)
					var changed []served
					for _, sv2 := range all {
						if sv2.kind != "correct" {
							changed = append(changed, sv2)
						}
					}
					if !full && len(changed) > 8 {
						changed = changed[:8]
					}
					for _, sv := range all {
						for _, st := range styles {
							for bi, bs := range bufSeqs {
								if !full && (bi+len(st))%3 != 0 {
									continue
								}
								if L > 1000 && (st == "dribble" || bs[0] < 7) && !(bi == 3 && st == "plain") {
									continue // byte-sized reads of large streams only once
								}
								src := &script{data: sv.data, style: st, errAt: -1}
								br := blob.NewReader(blob.WithReader(src), blob.WithDesc(d))
								got, err := drain(br, append(bs, L-1, L, L+1)[:len(bs)+func() int {
									if L > 1 {
										return 3
									}
									return 0
								}()])
								w := map[string]any{"len": L, "alg": alg, "reader_style": st, "buffers": bs}
								verdict("reader", sv.kind, d, c, got, err, w)
								// rewind and read again: same law
								if _, serr := br.Seek(0, io.SeekStart); serr == nil {
									got2, err2 := drain(br, bs)
									run.Count("rewinds", 1)
									verdict("reader-after-rewind", sv.kind, d, c, got2, err2, w)
								} else if bi == 0 {
									run.Count("rewind_refused", 1)
								}
								// a clean first pass must not vouch for the second: rewind onto a source that changed meanwhile
								if sv.kind == "correct" && (st == "plain" || st == "together") && bi%3 == 0 {
									for _, sv2 := range changed {
										src := &script{data: c, style: st, errAt: -1, next: sv2.data}
										br := blob.NewReader(blob.WithReader(src), blob.WithDesc(d))
										if _, err1 := drain(br, bs); err1 != nil {
											continue
										}
										if _, serr := br.Seek(0, io.SeekStart); serr != nil {
											continue
										}
										got2, err2 := drain(br, bs)
										run.Count("rewinds_onto_changed_source", 1)
										verdict("reader-rewind-onto-changed-source", sv2.kind, d, c, got2, err2, w)
									}
								}
							}
						}
					}
					// correct bytes but the descriptor states a different size
					if sizeKnown {
						for _, delta := range []int64{-1, 1, 3} {
							dw := d
							dw.Size = int64(L) + delta
							if dw.Size <= 0 {
								continue
							}
							for _, st := range styles {
								src := &script{data: c, style: st, errAt: -1}
								br := blob.NewReader(blob.WithReader(src), blob.WithDesc(dw))
								got, err := drain(br, []int{7, 1, 512})
								verdict("reader", "stated-size-wrong", dw, c, got, err, map[string]any{"len": L, "stated": dw.Size, "reader_style": st})
							}
						}
					}
					// mid-stream error must surface
					if L > 0 {
						at := lr.Intn(L + 1)
						src := &script{data: c, style: "plain", errAt: at}
						br := blob.NewReader(blob.WithReader(src), blob.WithDesc(d))
						_, err := drain(br, []int{5})
						run.Eval(1)
						if err == nil {
							run.Violation("stream-error-swallowed/reader", fmt.Sprintf("the underlying stream failed at offset %d of %d but the read completed cleanly", at, L), map[string]any{"len": L, "at": at})
						}
					}
				}
			}
			run.Distinct(fmt.Sprintf("reader/len=%d", L))
		}(L, c, seed)
	}
	wg.Wait()
	run.Sample(map[string]any{"level": "reader", "len": 5, "served": "bitflip@2", "descriptor": "sha256 of the intended 5 bytes, size 5", "reader_style": "together (last bytes and io.EOF in one call)", "buffers": []int{7, 1, 512}, "law": "clean EOF => received bytes hash to the digest and number exactly size"})
}

// ---- level 2: RegClient.BlobGet against the model registry ----------------------------------------

type l2case struct {
	I         int
	Len       int
	Alg       string
	SizeKnown bool
	Served    string
	CL        string // "", wrong, none
	DigestHdr string // "", none, actual (what Docker-Content-Digest says)
	Cuts      []int  // body truncated after this many bytes on the k-th GET
	Range     string // resume behaviour
	Redirect  bool
	Inline    string // "", right, wrong
	Conc      int64
	Rewind    string // "", after-end, mid-stream, after-end-onto-changed-source: the returned reader is rewound (Seek to the start) and read again
}

func level2() {
	n := ev.Scale(2500, 30000)
	var wg sync.WaitGroup
	sem := make(chan struct{}, 12)
	for i := 0; i < n; i++ {
		wg.Add(1)
		sem <- struct{}{}
		go func(i int) {
			defer wg.Done()
			defer func() { <-sem }()
			l2one(i)
		}(i)
	}
	wg.Wait()
	run.Count("registry_rewinds", int(rewinds.Load()))
}

var rewinds atomic.Int64

func l2one(i int) {
	rng := ev.Rand(fmt.Sprintf("c01/l2/%d", i))
	c := l2case{I: i, Alg: []string{"sha256", "sha256", "sha512"}[rng.Intn(3)], SizeKnown: rng.Intn(4) > 0,
		CL: []string{"", "", "", "wrong", "none"}[rng.Intn(5)], Range: []string{"", "", "ignore", "wrongoffset", "wrongbytes", "nocr"}[rng.Intn(6)],
		Redirect: rng.Intn(5) == 0, Conc: []int64{3, 3, 8, 1}[rng.Intn(4)]}
	c.DigestHdr = []string{"", "", "none", "actual"}[rng.Intn(4)]
	if i%5 == 0 {
		// the combination in which the response itself carries nothing to check against: size unknown to the
		// caller, no Content-Length, and a digest header that is absent or simply describes what is served
		c.SizeKnown, c.CL, c.DigestHdr = false, "none", []string{"none", "actual"}[rng.Intn(2)]
	}
	c.Len = []int{0, 1, 2, 5, 17, 64, 300, 1000, 5000}[rng.Intn(9)]
	content := make([]byte, c.Len)
	rng.Read(content)
	svs := corruptions(content, false, rng)
	sv := svs[rng.Intn(len(svs))]
	if rng.Intn(2) == 0 {
		sv = svs[0] // correct content, faults only in transport
	}
	c.Served = sv.kind
	if rng.Intn(2) == 0 && len(sv.data) > 1 {
		k := 1 + rng.Intn(4)
		for j := 0; j < k; j++ {
			c.Cuts = append(c.Cuts, rng.Intn(len(sv.data)))
		}
	}
	if rng.Intn(8) == 0 {
		c.Inline = []string{"right", "wrong"}[rng.Intn(2)]
	}
	if i%3 == 1 && c.Inline == "" {
		c.Rewind = []string{"after-end", "mid-stream", "after-end-onto-changed-source"}[(i/3)%3]
	}
	w := modelreg.NewWorld()
	defer w.Close()
	h := w.NewHost("reg")
	dg := la.Digest(c.Alg, content)
	// raw state lets us store any bytes under the intended digest
	w.Lock()
	h.Repo("proj/app").Blobs[dg] = sv.data
	w.Unlock()
	h.Cfg.BlobCL = c.CL
	h.Cfg.BlobDigestHdr = c.DigestHdr
	h.Cfg.RangeMode = c.Range
	var cdn *modelreg.Host
	if c.Redirect {
		cdn = w.NewHost("cdn")
		w.Lock()
		cdn.Repo("proj/app").Blobs[dg] = sv.data
		w.Unlock()
		cdn.Cfg.BlobCL, cdn.Cfg.RangeMode, cdn.Cfg.BlobDigestHdr = c.CL, c.Range, c.DigestHdr
		h.Cfg.BlobRedirect = cdn.Srv.URL
	}
	// k-th blob GET with a body is cut
	var mu sync.Mutex
	gets := 0
	cutter := func(host *modelreg.Host) {
		host.Intercept = func(e *modelreg.Event, rw httpRW, r httpReq) bool {
			if e.Kind != "blob" || e.Method != "GET" || (host == h && c.Redirect) {
				return false
			}
			mu.Lock()
			k := gets
			gets++
			mu.Unlock()
			if k < len(c.Cuts) {
				pl := &modelreg.Plan{Faults: []*modelreg.Fault{{Action: fmt.Sprintf("cut:%d", cutLen(c.Cuts[k], e.Range))}}}
				return pl.InterceptOn(host, e, rw, r)
			}
			return false
		}
	}
	cutter(h)
	if cdn != nil {
		cutter(cdn)
	}
	hosts := []*modelreg.Host{h}
	if cdn != nil {
		hosts = append(hosts, cdn)
	}
	rc := rcx.New(hosts, rcx.Opts{RetryLimit: 6, Mutate: func(name string, hc *config.Host) { hc.ReqConcurrent = c.Conc }})
	d := descriptor.Descriptor{Digest: digest.Digest(dg)}
	if c.SizeKnown {
		d.Size = int64(c.Len)
	}
	if c.SizeKnown && sv.kind == "correct" && rng.Intn(6) == 0 {
		d.Size = int64(c.Len) + []int64{-1, 1, 5}[rng.Intn(3)]
		if d.Size <= 0 {
			d.Size = int64(c.Len) + 1
		}
		sv.kind = "stated-size-wrong"
		c.Served = sv.kind
	}
	switch c.Inline {
	case "right":
		d.Data = content
		d.Size = int64(c.Len)
	case "wrong":
		d.Data = append(bytes.Clone(content), 'x')
	}
	ctx, cancel := context.WithTimeout(context.Background(), 30*time.Second)
	defer cancel()
	type res struct {
		got     []byte
		err     error
		expired bool // the harness' context had expired when the read returned
	}
	ch := make(chan res, 1)
	second := make(chan *res, 1)
	go func() {
		defer func() {
			if p := recover(); p != nil {
				ch <- res{nil, fmt.Errorf("PANIC: %v", p), false}
			}
		}()
		r, err := rc.BlobGet(ctx, rcx.Ref(h, "proj/app", ""), d)
		if err != nil {
			ch <- res{nil, fmt.Errorf("open: %w", err), ctx.Err() != nil}
			return
		}
		defer r.Close()
		bufs := []int{[]int{1, 7, 512, 32768}[rng.Intn(4)]}
		if c.Rewind == "mid-stream" && c.Len > 1 {
			// part of the stream is consumed, then the reader is rewound: what follows is one complete read
			part := make([]byte, 1+rng.Intn(c.Len))
			_, _ = io.ReadFull(r, part)
			if _, serr := r.Seek(0, io.SeekStart); serr != nil {
				ch <- res{nil, fmt.Errorf("rewind refused: %w", serr), ctx.Err() != nil}
				return
			}
			rewinds.Add(1)
		}
		got, err := drain(r, bufs)
		first := res{got, err, ctx.Err() != nil}
		if strings.HasPrefix(c.Rewind, "after-end") && err == nil {
			if c.Rewind == "after-end-onto-changed-source" && len(sv.data) > 0 {
				// the registry serves other bytes of the same length under the name from now on
				other := bytes.Clone(sv.data)
				other[len(other)/2] ^= 0x20
				w.Lock()
				h.Repo("proj/app").Blobs[dg] = other
				if cdn != nil {
					cdn.Repo("proj/app").Blobs[dg] = other
				}
				w.Unlock()
			}
			if _, serr := r.Seek(0, io.SeekStart); serr == nil {
				rewinds.Add(1)
				got2, err2 := drain(r, bufs)
				second <- &res{got2, err2, ctx.Err() != nil}
			}
		}
		ch <- first
	}()
	var out res
	select {
	case out = <-ch:
	case <-time.After(60 * time.Second):
		run.Inconclusive(fmt.Sprintf("registry read %d did not return", i))
		return
	}
	wit := map[string]any{"case": c}
	if out.err != nil && strings.HasPrefix(out.err.Error(), "PANIC") {
		run.Violation("panic/registry-read", out.err.Error(), wit)
		return
	}
	what := sv.kind
	if len(c.Cuts) > 0 {
		run.Count("registry_reads_with_connection_drops", 1)
	}
	level := "registry"
	// a stalled read that only ends because the harness' context expired is not an error the client produced
	if out.expired {
		wit["err"] = fmt.Sprint(out.err)
		run.Violation(fmt.Sprintf("read-stalls/registry/drops=%d/concurrency=%d", min(len(c.Cuts), 3), c.Conc), fmt.Sprintf("reading a blob whose connection dropped %d time(s) neither completed nor failed by itself: it only returned once the harness' 30 s context had expired (host concurrency %d)", len(c.Cuts), c.Conc), wit)
		return
	}
	// "must succeed" only without transport games
	if out.err != nil && what == "correct" && (len(c.Cuts) > 0 && c.Range != "" || c.CL == "wrong" || c.Inline == "wrong" && false) {
		what = "correct-but-transport-broken"
		run.Eval(1)
		run.Count("reads_ended_in_error", 1)
	} else {
		if what == "correct" && (len(c.Cuts) > 0 || c.CL != "") {
			// correct bytes over a lossy but honest transport: completion is not demanded here (C12 covers recovery), only the law
			if out.err != nil {
				run.Eval(1)
				run.Count("reads_ended_in_error", 1)
			} else {
				verdict(level, "correct", d, content, out.got, nil, wit)
			}
		} else {
			verdict(level, what, d, content, out.got, out.err, wit)
		}
	}
	// the pass after a rewind: only the law (a clean end needs matching bytes); whether the second pass completes
	// over a lossy transport is not demanded
	select {
	case s2 := <-second:
		run.Count("registry_second_passes_after_rewind", 1)
		if s2.err != nil || s2.expired {
			run.Eval(1)
			run.Count("reads_ended_in_error", 1)
		} else {
			k2 := sv.kind
			if c.Rewind == "after-end-onto-changed-source" {
				k2 = "source-changed-between-the-passes"
			}
			verdict("registry-after-rewind", k2, d, content, s2.got, nil, wit)
		}
	default:
	}
	run.Distinct(fmt.Sprintf("registry/%s/cl=%s/cuts=%d/range=%s/redir=%t/inline=%s/size=%t/rewind=%s", strings.SplitN(sv.kind, "@", 2)[0], c.CL, min(len(c.Cuts), 3), c.Range, c.Redirect, c.Inline, c.SizeKnown, c.Rewind))
	if i < 3 {
		run.Sample(map[string]any{"level": "registry", "case": c, "err": fmt.Sprint(out.err), "received": len(out.got)})
	}
}

func cutLen(at int, rng string) int {
	// for a resumed request the body is the remainder; cut relative to it
	if rng == "" {
		return at
	}
	return at / 2
}

// ---- level 3: OCI layouts ---------------------------------------------------------------------------

func level3() {
	rng := ev.Rand("c01/l3")
	n := ev.Scale(400, 5000)
	for i := 0; i < n; i++ {
		L := []int{0, 1, 3, 40, 700, 40000}[rng.Intn(6)]
		content := make([]byte, L)
		rng.Read(content)
		alg := []string{"sha256", "sha512"}[rng.Intn(2)]
		svs := corruptions(content, false, rng)
		sv := svs[rng.Intn(len(svs))]
		dir, _ := os.MkdirTemp(os.Getenv("VERIF_BIN"), "c01l")
		dg := la.Digest(alg, content)
		_ = gen.WriteLayoutIndex(dir, nil)
		_ = gen.WriteLayoutBlob(dir, dg, sv.data)
		rc := rcx.New(nil, rcx.Opts{})
		d := descriptor.Descriptor{Digest: digest.Digest(dg)}
		sizeMode := rng.Intn(4)
		if sizeMode > 0 {
			d.Size = int64(L)
		}
		if sizeMode == 3 && sv.kind == "correct" {
			// the stored bytes are right but the descriptor states another size
			d.Size = int64(L) + []int64{-1, 1, 2}[rng.Intn(3)]
			if d.Size <= 0 {
				d.Size = int64(L) + 1
			}
			sv.kind = "stated-size-wrong"
		}
		r, err := rc.BlobGet(context.Background(), rcx.DirRef(dir, ""), d)
		if err != nil {
			run.Eval(1)
			if sv.kind == "correct" {
				run.Violation("correct-stream-rejected/layout-open", err.Error(), nil)
			}
			_ = os.RemoveAll(dir)
			continue
		}
		bs := []int{[]int{1, 3, 512, 32768}[rng.Intn(4)]}
		got, rerr := drain(r, bs)
		w := map[string]any{"len": L, "alg": alg, "size_known": d.Size > 0, "buffers": bs}
		verdict("layout", sv.kind, d, content, got, rerr, w)
		if _, serr := r.Seek(0, io.SeekStart); serr == nil {
			got2, err2 := drain(r, bs)
			run.Count("rewinds", 1)
			verdict("layout-after-rewind", sv.kind, d, content, got2, err2, w)
		}
		_ = r.Close()
		run.Distinct(fmt.Sprintf("layout/%s/len=%d/size=%t", strings.SplitN(sv.kind, "@", 2)[0], L, d.Size > 0))
		_ = os.RemoveAll(dir)
	}
}

func main() {
	run = ev.Start("C01", "exploration")
	run.Rule("level 1: blob.NewReader over scripted readers, exhaustive for content lengths 0..20 (thorough 0..40): every truncation offset, one bit flip per byte, 1-3 extra bytes, whole substitution x reader return styles (EOF separate / together with data / zero-length reads / 1-byte dribble / mid-stream error) x 9 caller buffer sequences x sha256/sha512 x size known/unknown, each followed by a rewind and re-read; sampled up to 70 KB (256 KB thorough); " +
		"level 2: RegClient.BlobGet against the model registry storing arbitrary bytes under the intended digest: Content-Length right/wrong/absent, 0-4 mid-body connection drops followed by resumes answered correctly / ignoring the range / at the wrong offset / with wrong bytes / without Content-Range, redirect to a second host, inline descriptor data right/wrong, host concurrency 1/3/8; level 3: OCI layouts whose digest-named file was corrupted; conversions that read to the end on the caller's behalf (ToOCIConfig, tar RawBody, tar ReadFile of an absent name, RegClient.BlobGetOCIConfig against registry and layout) over variants that stay well-formed JSON / tar; " +
		"non-trivial = every evaluated read (each has a known expected class); distinct = (level, corruption class, transport class)")
	run.Assume("clean completion is what io.ReadAll / io.Copy see: the final error is exactly io.EOF", "a correct stream over an honest transport must complete (otherwise the law would be vacuous); over a lossy transport only the law itself is demanded")
	level1()
	level2()
	level3()
	conversions()
	run.Races(func(rep string) string {
		for _, frag := range []string{"/repo/types/blob/", "/repo/internal/limitread/", "/repo/internal/reghttp/", "/repo/scheme/reg/blob.go", "/repo/scheme/ocidir/blob.go"} {
			if fn := ev.RaceFrame(rep, frag); fn != "" {
				return "race/blob-read/" + fn
			}
		}
		return ""
	})
	if run.Get("reads_completed_cleanly") < 1000 || run.Get("reads_ended_in_error") < 1000 || run.Get("registry_reads_with_connection_drops") < 100 || run.Get("rewinds") < 100 {
		run.Inconclusive("too few reads in one of the classes")
	}
	os.Exit(run.Finish())
}

type httpRW = http.ResponseWriter
type httpReq = *http.Request
