package main

import (
	"archive/tar"
	"bytes"
	"context"
	"errors"
	"fmt"
	"io"
	"os"

	"github.com/opencontainers/go-digest"
	"github.com/regclient/regclient/types/blob"
	"github.com/regclient/regclient/types/descriptor"
	"github.com/regclient/regclient/types/errs"

	"verif/ev"
	"verif/gen"
	la "verif/layoutaudit"
	"verif/modelreg"
	"verif/rcx"
)

// Conversions read the stream to the end on the caller's behalf: BReader.ToOCIConfig, BTarReader.RawBody,
// BTarReader.ReadFile for a name that is not in the archive (it has to walk to the end), and
// RegClient.BlobGetOCIConfig. The same law applies to them: no clean result on content that does not
// match the descriptor. The served variants keep the content well-formed (JSON stays JSON, the tar stays
// a tar), so a parser error cannot stand in for the missing verification.
func conversions() {
	rng := ev.Rand("c01/conv")
	mkTar := func(files map[string][]byte, order []string) []byte {
		var b bytes.Buffer
		tw := tar.NewWriter(&b)
		for _, n := range order {
			_ = tw.WriteHeader(&tar.Header{Name: n, Mode: 0o644, Size: int64(len(files[n])), Typeflag: tar.TypeReg})
			_, _ = tw.Write(files[n])
		}
		_ = tw.Close()
		return b.Bytes()
	}
	n := ev.Scale(60, 600)
	for i := 0; i < n; i++ {
		label := fmt.Sprintf("value-%d-%d", i, rng.Intn(1000))
		cfg := []byte(fmt.Sprintf(`{"architecture":"amd64","os":"linux","config":{"Labels":{"k":"%s"}},"rootfs":{"type":"layers","diff_ids":[]}}`, label))
		other := []byte(fmt.Sprintf(`{"architecture":"arm64","os":"linux","config":{"Labels":{"k":"%s"}},"rootfs":{"type":"layers","diff_ids":[]}}`, label))
		flipped := bytes.Replace(bytes.Clone(cfg), []byte(label), []byte("V"+label[1:]), 1)
		cfgVariants := []served{{"correct", cfg}, {"flipped-inside-a-string", flipped}, {"substituted", other}, {"extra-whitespace", append(bytes.Clone(cfg), ' ', '\n')}, {"truncated-then-closed", append(bytes.Clone(cfg[:len(cfg)-3]), []byte(`]}}`)...)}}
		body := make([]byte, 20+rng.Intn(200))
		rng.Read(body)
		files := map[string][]byte{"a.txt": body, "b/c.txt": []byte("second")}
		tarOK := mkTar(files, []string{"a.txt", "b/c.txt"})
		fb := bytes.Clone(body)
		fb[rng.Intn(len(fb))] ^= 0x20
		tarFlip := mkTar(map[string][]byte{"a.txt": fb, "b/c.txt": []byte("second")}, []string{"a.txt", "b/c.txt"})
		tarSub := mkTar(map[string][]byte{"x": []byte("other")}, []string{"x"})
		tarVariants := []served{{"correct", tarOK}, {"flipped-inside-a-file", tarFlip}, {"substituted", tarSub}, {"extra-trailing-zeros", append(bytes.Clone(tarOK), make([]byte, 512)...)}, {"truncated-trailer", tarOK[:len(tarOK)-512]}}
		for _, alg := range []string{"sha256", "sha512"} {
			for _, sizeKnown := range []bool{true, false} {
				for _, st := range []string{"plain", "together", "dribble"} {
					mk := func(intended, data []byte) *blob.BReader {
						d := descriptor.Descriptor{Digest: digest.Digest(la.Digest(alg, intended))}
						if sizeKnown {
							d.Size = int64(len(intended))
						}
						return blob.NewReader(blob.WithReader(&script{data: data, style: st, errAt: -1}), blob.WithDesc(d))
					}
					for _, sv := range cfgVariants {
						_, err := mk(cfg, sv.data).ToOCIConfig()
						convVerdict("to-oci-config", sv, cfg, err, alg, sizeKnown, st)
					}
					for _, sv := range tarVariants {
						if tr, err := mk(tarOK, sv.data).ToTarReader(); err == nil {
							_, err = tr.RawBody()
							convVerdict("tar-raw-body", sv, tarOK, err, alg, sizeKnown, st)
						}
						if tr, err := mk(tarOK, sv.data).ToTarReader(); err == nil {
							_, _, err = tr.ReadFile("not/in/the/archive")
							if errors.Is(err, errs.ErrFileNotFound) {
								err = nil // the archive was walked to its end and nothing was objected to
							}
							convVerdict("tar-read-file-to-the-end", sv, tarOK, err, alg, sizeKnown, st)
						}
					}
				}
			}
		}
		// through the client: registry and layout holding other bytes under the config's digest
		if i%6 == 0 {
			for _, sv := range cfgVariants {
				w := modelreg.NewWorld()
				h := w.NewHost("reg")
				dg := la.Digest("sha256", cfg)
				w.Lock()
				h.Repo("proj/app").Blobs[dg] = sv.data
				w.Unlock()
				rc := rcx.New([]*modelreg.Host{h}, rcx.Opts{})
				ctx := context.Background()
				for _, sizeKnown := range []bool{true, false} {
					d := descriptor.Descriptor{Digest: digest.Digest(dg)}
					if sizeKnown {
						d.Size = int64(len(cfg))
					}
					_, err := rc.BlobGetOCIConfig(ctx, rcx.Ref(h, "proj/app", ""), d)
					convVerdict("client-get-oci-config/registry", sv, cfg, err, "sha256", sizeKnown, "http")
				}
				w.Close()
				dir, _ := os.MkdirTemp(os.Getenv("VERIF_BIN"), "c01cfg")
				_ = gen.WriteLayoutIndex(dir, nil)
				_ = gen.WriteLayoutBlob(dir, dg, sv.data)
				rc2 := rcx.New(nil, rcx.Opts{})
				_, err := rc2.BlobGetOCIConfig(ctx, rcx.DirRef(dir, ""), descriptor.Descriptor{Digest: digest.Digest(dg), Size: int64(len(cfg))})
				convVerdict("client-get-oci-config/layout", sv, cfg, err, "sha256", true, "file")
				_ = os.RemoveAll(dir)
			}
		}
	}
}

func convVerdict(conv string, sv served, intended []byte, err error, alg string, sizeKnown bool, style string) {
	run.Eval(1)
	run.Count("conversions_checked", 1)
	w := map[string]any{"conversion": conv, "served": sv.kind, "alg": alg, "size_known": sizeKnown, "reader_style": style, "intended_len": len(intended), "served_len": len(sv.data)}
	matches := bytes.Equal(sv.data, intended)
	if err == nil {
		run.Count("reads_completed_cleanly", 1)
		if !matches {
			run.Violation(fmt.Sprintf("clean-conversion-of-mismatch/%s/%s/size-known=%t", conv, sv.kind, sizeKnown), fmt.Sprintf("[%s] content that is '%s' (%d bytes, not what the descriptor names) was converted without error", conv, sv.kind, len(sv.data)), w)
		}
		return
	}
	run.Count("reads_ended_in_error", 1)
	if matches {
		w["err"] = err.Error()
		run.Violation(fmt.Sprintf("correct-stream-rejected/%s/size-known=%t", conv, sizeKnown), fmt.Sprintf("[%s] correct content ended in an error: %v", conv, err), w)
	}
	_ = io.EOF
}
