// driver performs exactly ONE operation on an OCI layout directory through regclient's public
// API and is the kill target of the C07 crash enumeration (it is run under strace with SIGKILL
// injection). It is silent; after the operation returned nil it prints the line "DONE" and then,
// with a second write, the line "EXIT", so that "the driver had already reported success" is an
// observable fact of a killed run. Exit status: 0 success, 1 the operation returned an error
// (printed as "ERROR ..." on stdout), 2 usage / panic.
//
//	driver <op> <layout-dir> [key=value ...]
//
//	blob-put         file=<path> [known=1]                     BlobPut (descriptor with / without digest+size)
//	manifest-put     file=<path> [tag=<t>] [child=1]           ManifestPut by tag, by digest, by digest as child
//	tag-delete       tag=<t>                                   TagDelete
//	manifest-delete  digest=<d>                                ManifestDelete
//	gc               mod=retag file=<path> tag=<t> | mod=tagdel tag=<t>   one modification, then RegClient.Close (GC)
//	copy             src=<ref> tag=<t> [plainhttp=<host:port>] [referrers=1] [digesttags=1] [close=1]   ImageCopy into the layout
//	import           file=<tar> tag=<t>                        ImageImport of an OCI tar
//	audit                                                      read-only: a fresh client lists the tags and reads
//	                                                           every manifest and blob below every tag
//
// Common keys: procs=<n> (GOMAXPROCS, default 1).
package main

import (
	"bytes"
	"context"
	"errors"
	"fmt"
	"io"
	"os"
	"runtime"
	"sort"
	"strconv"
	"strings"
	"time"

	"github.com/regclient/regclient"
	"github.com/regclient/regclient/config"
	"github.com/regclient/regclient/types/descriptor"
	"github.com/regclient/regclient/types/manifest"
	"github.com/regclient/regclient/types/mediatype"
	"github.com/regclient/regclient/types/ref"

	"github.com/opencontainers/go-digest"
)

func init() {
	// the main goroutine stays on the initial thread: strace's `when=` counters are per thread
	runtime.LockOSThread()
}

func usage(msg string) {
	fmt.Fprintln(os.Stdout, "USAGE "+msg)
	os.Exit(2)
}

func main() {
	if len(os.Args) < 3 {
		usage("driver <op> <layout-dir> [key=value ...]")
	}
	op, dir := os.Args[1], os.Args[2]
	kv := map[string]string{}
	for _, a := range os.Args[3:] {
		i := strings.IndexByte(a, '=')
		if i <= 0 {
			usage("bad argument " + a)
		}
		kv[a[:i]] = a[i+1:]
	}
	procs := 1
	if p, err := strconv.Atoi(kv["procs"]); err == nil && p > 0 {
		procs = p
	}
	runtime.GOMAXPROCS(procs)
	if !strings.HasPrefix(dir, "/") {
		usage("layout directory must be absolute")
	}
	if op == "audit" {
		audit(dir)
		return
	}
	// every input is read into memory before the first call into the library
	var file []byte
	if f := kv["file"]; f != "" {
		b, err := os.ReadFile(f)
		if err != nil {
			usage("cannot read input: " + err.Error())
		}
		file = b
	}
	err := func() (err error) {
		defer func() {
			if p := recover(); p != nil {
				buf := make([]byte, 8192)
				buf = buf[:runtime.Stack(buf, false)]
				fmt.Fprintf(os.Stdout, "PANIC %v\n%s\n", p, buf)
				os.Exit(2)
			}
		}()
		return perform(op, dir, kv, file)
	}()
	if err != nil {
		cls := "other"
		if errors.Is(err, os.ErrNotExist) || strings.Contains(err.Error(), "not found") {
			cls = "notfound"
		}
		fmt.Fprintf(os.Stdout, "ERROR class=%s %s\n", cls, strings.ReplaceAll(err.Error(), dir, "<dir>"))
		os.Exit(1)
	}
	// two separate writes: a kill at the entry of the second one is a process that died after it
	// had reported success
	_, _ = os.Stdout.WriteString("DONE\n")
	_, _ = os.Stdout.WriteString("EXIT\n")
}

func baseRef(dir string) (ref.Ref, error) { return ref.New("ocidir://" + dir) }

func perform(op, dir string, kv map[string]string, file []byte) error {
	ctx, cancel := context.WithTimeout(context.Background(), 120*time.Second)
	defer cancel()
	opts := []regclient.Opt{}
	if h := kv["plainhttp"]; h != "" {
		c := *config.HostNewName(h)
		c.TLS = config.TLSDisabled
		opts = append(opts, regclient.WithConfigHost(c), regclient.WithRetryDelay(time.Millisecond, 4*time.Millisecond))
	}
	rc := regclient.New(opts...)
	base, err := baseRef(dir)
	if err != nil {
		return err
	}
	switch op {
	case "blob-put":
		d := descriptor.Descriptor{}
		if kv["known"] == "1" {
			d.Digest = digest.FromBytes(file)
			d.Size = int64(len(file))
			d.MediaType = mediatype.OCI1LayerGzip
		}
		_, err := rc.BlobPut(ctx, base, d, bytes.NewReader(file))
		return err
	case "manifest-put":
		m, err := manifest.New(manifest.WithRaw(file))
		if err != nil {
			return fmt.Errorf("driver: manifest.New: %w", err)
		}
		r := base
		var mo []regclient.ManifestOpts
		if t := kv["tag"]; t != "" {
			r = base.SetTag(t)
		} else {
			r = base.SetDigest(m.GetDescriptor().Digest.String())
		}
		if kv["child"] == "1" {
			mo = append(mo, regclient.WithManifestChild())
		}
		return rc.ManifestPut(ctx, r, m, mo...)
	case "tag-delete":
		return rc.TagDelete(ctx, base.SetTag(kv["tag"]))
	case "manifest-delete":
		return rc.ManifestDelete(ctx, base.SetDigest(kv["digest"]))
	case "gc":
		switch kv["mod"] {
		case "retag":
			m, err := manifest.New(manifest.WithRaw(file))
			if err != nil {
				return fmt.Errorf("driver: manifest.New: %w", err)
			}
			if err := rc.ManifestPut(ctx, base.SetTag(kv["tag"]), m); err != nil {
				return err
			}
		case "tagdel":
			if err := rc.TagDelete(ctx, base.SetTag(kv["tag"])); err != nil {
				return err
			}
		default:
			usage("gc needs mod=retag|tagdel")
		}
		return rc.Close(ctx, base)
	case "copy":
		src, err := ref.New(kv["src"])
		if err != nil {
			return fmt.Errorf("driver: source reference: %w", err)
		}
		var iopts []regclient.ImageOpts
		if kv["referrers"] == "1" {
			iopts = append(iopts, regclient.ImageWithReferrers())
		}
		if kv["digesttags"] == "1" {
			iopts = append(iopts, regclient.ImageWithDigestTags())
		}
		tgt := base.SetTag(kv["tag"])
		if err := rc.ImageCopy(ctx, src, tgt, iopts...); err != nil {
			return err
		}
		if kv["close"] == "1" {
			return rc.Close(ctx, tgt)
		}
		return nil
	case "import":
		return rc.ImageImport(ctx, base.SetTag(kv["tag"]), bytes.NewReader(file))
	}
	usage("unknown operation " + op)
	return nil
}

// audit: a fresh client lists the tags and reads every manifest and blob of every tag. One line
// per problem ("PROBLEM tag=<t> <what> <digest>: <error>"), then "AUDIT-END ..."; always exit 0
// unless the audit itself panics.
func audit(dir string) {
	ctx, cancel := context.WithTimeout(context.Background(), 120*time.Second)
	defer cancel()
	var out bytes.Buffer
	problem := func(tag, what, d string, err error) {
		fmt.Fprintf(&out, "PROBLEM tag=%s %s %s: %s\n", tag, what, d, strings.ReplaceAll(err.Error(), dir, "<dir>"))
	}
	nm, nb := 0, 0
	defer func() {
		if p := recover(); p != nil {
			buf := make([]byte, 8192)
			buf = buf[:runtime.Stack(buf, false)]
			fmt.Fprintf(&out, "PANIC %v\n%s\n", p, buf)
			_, _ = os.Stdout.Write(out.Bytes())
			os.Exit(2)
		}
	}()
	rc := regclient.New()
	base, err := baseRef(dir)
	if err != nil {
		usage(err.Error())
	}
	tl, err := rc.TagList(ctx, base)
	if err != nil {
		problem("-", "tag-list", "-", err)
		fmt.Fprintf(&out, "AUDIT-END tags=0 manifests=0 blobs=0\n")
		_, _ = os.Stdout.Write(out.Bytes())
		return
	}
	tags, err := tl.GetTags()
	if err != nil {
		problem("-", "tag-list", "-", err)
	}
	sort.Strings(tags)
	for _, t := range tags {
		seen := map[string]bool{}
		var walk func(r ref.Ref, what string)
		walk = func(r ref.Ref, what string) {
			key := r.Digest + "/" + r.Tag
			if seen[key] {
				return
			}
			seen[key] = true
			m, err := rc.ManifestGet(ctx, r)
			if err != nil {
				problem(t, what, r.Digest, err)
				return
			}
			nm++
			md := m.GetDescriptor().Digest.String()
			if mi, ok := m.(manifest.Indexer); ok && m.IsList() {
				dl, err := mi.GetManifestList()
				if err != nil {
					problem(t, "manifest-list", md, err)
					return
				}
				for _, d := range dl {
					walk(base.SetDigest(d.Digest.String()), "child-manifest")
				}
				return
			}
			if mi, ok := m.(manifest.Imager); ok {
				var ds []descriptor.Descriptor
				if cd, err := mi.GetConfig(); err == nil && cd.Digest != "" {
					ds = append(ds, cd)
				}
				ls, err := mi.GetLayers()
				if err != nil {
					problem(t, "layers", md, err)
				}
				ds = append(ds, ls...)
				for _, d := range ds {
					if len(d.URLs) > 0 || seen["b/"+d.Digest.String()] {
						continue
					}
					seen["b/"+d.Digest.String()] = true
					br, err := rc.BlobGet(ctx, base, d)
					if err != nil {
						problem(t, "blob", d.Digest.String(), err)
						continue
					}
					_, err = io.Copy(io.Discard, br)
					_ = br.Close()
					if err != nil {
						problem(t, "blob-read", d.Digest.String(), err)
						continue
					}
					nb++
				}
			}
		}
		walk(base.SetTag(t), "tag-manifest")
	}
	fmt.Fprintf(&out, "AUDIT-END tags=%d manifests=%d blobs=%d\n", len(tags), nm, nb)
	_, _ = os.Stdout.Write(out.Bytes())
}
