package copyeng

import (
	"context"
	"crypto/sha256"
	"encoding/hex"
	"fmt"
	"math/rand"
	"os"
	"path/filepath"
	"runtime"
	"strings"
	"sync"
	"time"

	"github.com/regclient/regclient"
	"github.com/regclient/regclient/config"
	"github.com/regclient/regclient/scheme"
	"github.com/regclient/regclient/types/descriptor"

	"verif/gen"
	"verif/modelreg"
	"verif/rcx"
)

// Case is one copy scenario (fully determined by its fields; written to replay files).
type Case struct {
	I       int
	Seed    int64
	Alg     string
	Shape   gen.Shape
	Pair    string // same-repo same-reg two-reg reg2dir dir2reg dir2dir
	Pre     string // empty partial stale complete tagged-incomplete partial-manifests tagged-manifest-gone
	Opt     string // default recursive referrers referrers-filter digest-tags external fast
	Mount   string // grant decline refuse (same-reg only)
	SrcAPI  bool   // referrers API at the source registry
	TgtAPI  bool   // referrers API at the target registry
	NoHeadD bool   // registries omit Docker-Content-Digest on manifest HEAD/GET
	Procs   int
	Jitter  bool
	TagPage int
}

// Key is the shape class for distinct counting.
func (c Case) Key() string {
	return fmt.Sprintf("%s|%s|%s|%s|%s|m=%s|api=%t/%t|nhd=%t", c.Shape.Key(), c.Alg, c.Pair, c.Pre, c.Opt, c.Mount, c.SrcAPI, c.TgtAPI, c.NoHeadD)
}

var (
	pairs = []string{"two-reg", "two-reg", "same-reg", "same-reg", "same-repo", "reg2dir", "dir2reg", "dir2dir"}
	pres  = []string{"empty", "empty", "partial", "stale", "complete", "tagged-incomplete", "partial-manifests", "tagged-manifest-gone"}
	opts  = []string{"default", "default", "default", "recursive", "referrers", "referrers", "referrers-filter", "referrers-two-filters", "digest-tags", "digest-tags", "external", "fast"}
)

// RandomCase draws a case.
func RandomCase(rng *rand.Rand, i int) Case {
	c := Case{I: i, Seed: rng.Int63(), Alg: "sha256", Shape: gen.RandomShape(rng), Pair: pairs[rng.Intn(len(pairs))], Pre: pres[rng.Intn(len(pres))],
		Opt: opts[rng.Intn(len(opts))], Mount: []string{"grant", "grant", "decline", "refuse"}[rng.Intn(4)], SrcAPI: rng.Intn(2) == 0, TgtAPI: rng.Intn(2) == 0,
		NoHeadD: rng.Intn(5) == 0, Procs: []int{1, 4, 16}[rng.Intn(3)], Jitter: rng.Intn(3) > 0, TagPage: []int{0, 0, 1, 2}[rng.Intn(4)]}
	if rng.Intn(6) == 0 {
		c.Alg = "sha512"
		// a registry that names manifests with a non-default algorithm has to announce the digest;
		// without the header "the digest of the source tag" is not defined for the client
		c.NoHeadD = false
	}
	switch c.Opt {
	case "referrers", "referrers-filter", "referrers-two-filters":
		if c.Opt == "referrers-two-filters" && c.Shape.Referrers < 2 {
			c.Shape.Referrers = 2 + rng.Intn(2)
		}
		if c.Shape.Referrers == 0 {
			c.Shape.Referrers = 1 + rng.Intn(3)
			c.Shape.RefOfRef = rng.Intn(2) == 0
		}
		if c.Shape.ChildRefs == 0 && rng.Intn(2) == 0 {
			c.Shape.ChildRefs = 1 + rng.Intn(2)
		}
	case "digest-tags":
		if c.Shape.DigestTags == 0 {
			c.Shape.DigestTags = 1 + rng.Intn(2)
		}
		c.Shape.DTagAlias = rng.Intn(2) == 0
		if rng.Intn(2) == 0 {
			c.Shape.ChildDTags = 1
		}
	case "external":
		c.Shape.Foreign = true
	}
	if c.Shape.Kind == "schema1" || c.Alg == "sha512" {
		// schema1 cannot carry referrers; keep sha512 graphs to the plain options
		if c.Shape.Kind == "schema1" {
			c.Shape.Referrers, c.Shape.RefOfRef, c.Shape.ChildRefs = 0, false, 0
			if c.Opt == "referrers" || c.Opt == "referrers-filter" || c.Opt == "referrers-two-filters" {
				c.Opt = "default"
			}
		}
	}
	if c.Pair == "same-repo" {
		c.Pre = "empty" // the repository is its own pre-state
	}
	return c
}

// Result of running a case.
type Result struct {
	Case      Case
	G         *gen.Graph
	W         *modelreg.World
	Src, Tgt  Endpoint
	SrcTag    string
	TgtTag    string
	Err       error
	PreHas    map[string]bool // digests present at the target before the copy
	PreTags   map[string]string
	Want      Want
	Events    []*modelreg.Event
	OrderHash string
	Dirs      []string
	Hung      bool
	// Phase guards Returned: observers that audit the target "while the copy is running" hold the
	// read lock; Run takes the write lock to mark the copy as returned before it closes the client.
	Phase    sync.RWMutex
	Returned bool
}

// Cleanup releases servers and directories.
func (r *Result) Cleanup() {
	if r.W != nil {
		r.W.Close()
	}
	for _, d := range r.Dirs {
		_ = os.RemoveAll(d)
	}
}

// RunOpts allow fault plans etc. to be installed between setup and the copy.
type RunOpts struct {
	// Prepare is called after the world is populated and before the copy starts.
	Prepare func(r *Result)
	// Ctx overrides the context of the copy.
	Ctx context.Context
	// RetryLimit for the client (default 3).
	RetryLimit int
	// Setup only: do not run the copy.
	SetupOnly bool
	// NoClose leaves the client open after the copy: the target is then judged as the copy left it,
	// not as a garbage collection of unreachable content (legitimate after a failed copy) left it.
	NoClose bool
}

var procsMu sync.Mutex

// Setup builds the world of a case without running the copy.
func Setup(c Case) (*Result, error) {
	rng := rand.New(rand.NewSource(c.Seed))
	w := modelreg.NewWorld()
	var ext *modelreg.Host
	if c.Shape.Foreign {
		// the URLs of foreign layers point at a host that really serves them (a probe of the URL succeeds)
		ext = w.NewHost("ext")
		c.Shape.ForeignURL = ext.Srv.URL + "/v2/ext/blobs"
	}
	g := gen.Random(rng, c.Alg, c.Shape, "v1")
	if ext != nil {
		for _, n := range g.Nodes {
			if len(n.URLs) > 0 {
				ext.PutBlob("ext", c.Alg, n.Content)
			}
		}
	}
	if c.Opt == "external" {
		for _, n := range g.Nodes {
			if len(n.URLs) > 0 {
				n.External = false // hosted by the source: must be copied when include-external is requested
			}
		}
	}
	r := &Result{Case: c, G: g, SrcTag: "v1", TgtTag: "v1", PreHas: map[string]bool{}, PreTags: map[string]string{}}
	r.W = w
	tmp := func(name string) string {
		base := os.Getenv("VERIF_BIN")
		if base == "" {
			base = os.TempDir()
		}
		d, _ := os.MkdirTemp(base, name)
		r.Dirs = append(r.Dirs, d)
		return d
	}
	mkHost := func(name string, api bool) *modelreg.Host {
		h := w.NewHost(name)
		h.Cfg.ReferrersAPI = api
		h.Cfg.NoHeadDigest = c.NoHeadD
		if c.I%6 == 3 {
			// every sixth case: blob responses (HEAD and GET) carry no Docker-Content-Digest either - the header is
			// optional, an existence probe answered 200 without it is still "the blob is there"
			h.Cfg.BlobDigestHdr = "none"
		}
		h.Cfg.TagPage = c.TagPage
		h.Cfg.TagDeleteAPI = true
		return h
	}
	switch c.Pair {
	case "two-reg":
		r.Src = Endpoint{Host: mkHost("src", c.SrcAPI), Repo: "proj/src"}
		r.Tgt = Endpoint{Host: mkHost("tgt", c.TgtAPI), Repo: "mirror/tgt"}
	case "same-reg":
		h := mkHost("reg", c.SrcAPI)
		h.Cfg.Mount = c.Mount
		r.Src = Endpoint{Host: h, Repo: "proj/src"}
		r.Tgt = Endpoint{Host: h, Repo: "proj/tgt"}
	case "same-repo":
		h := mkHost("reg", c.SrcAPI)
		r.Src = Endpoint{Host: h, Repo: "proj/src"}
		r.Tgt = r.Src
		r.TgtTag = "v2"
	case "reg2dir":
		r.Src = Endpoint{Host: mkHost("src", c.SrcAPI), Repo: "proj/src"}
		r.Tgt = Endpoint{Dir: tmp("tgt")}
	case "dir2reg":
		r.Src = Endpoint{Dir: tmp("src")}
		r.Tgt = Endpoint{Host: mkHost("tgt", c.TgtAPI), Repo: "mirror/tgt"}
	case "dir2dir":
		r.Src = Endpoint{Dir: tmp("src")}
		r.Tgt = Endpoint{Dir: tmp("tgt")}
	}
	if err := Populate(r.Src, g); err != nil {
		return r, err
	}
	// pre-state of the target
	top := g.Nodes[g.Top]
	var keep func(n *gen.Node) bool
	tags := map[string]int{}
	switch c.Pre {
	case "empty":
		keep = func(n *gen.Node) bool { return false }
	case "partial":
		sel := map[int]bool{}
		for _, n := range g.Nodes {
			// blobs and complete sub-images only: a manifest is kept only with its whole closure
			if !n.IsManifest() && rng.Intn(2) == 0 {
				sel[n.ID] = true
			}
		}
		keep = func(n *gen.Node) bool { return sel[n.ID] }
	case "partial-manifests":
		sel := map[int]bool{}
		for _, n := range g.Nodes {
			if n.IsManifest() && n.ID != g.Top && n.Subject < 0 && rng.Intn(2) == 0 {
				for _, id := range g.Closure(n.ID) {
					sel[id] = true
				}
			}
		}
		keep = func(n *gen.Node) bool { return sel[n.ID] }
	case "stale":
		// the target tag points at some other complete image of the graph (or a child)
		cands := []int{}
		for _, n := range g.Nodes {
			if n.IsManifest() && n.ID != g.Top && n.Subject < 0 {
				cands = append(cands, n.ID)
			}
		}
		sel := map[int]bool{}
		if len(cands) > 0 {
			st := cands[rng.Intn(len(cands))]
			for _, id := range g.Closure(st) {
				sel[id] = true
			}
			tags[r.TgtTag] = st
			if c.Opt == "digest-tags" {
				// the digest tags exist at the target as well, and name something older
				for t := range g.Tags {
					if strings.Contains(t, "-") && strings.Contains(t, ".") && t != r.TgtTag && t != r.SrcTag && (strings.HasPrefix(t, "sha256-") || strings.HasPrefix(t, "sha512-")) {
						tags[t] = st
					}
				}
			}
		}
		keep = func(n *gen.Node) bool { return sel[n.ID] }
	case "complete":
		sel := map[int]bool{}
		for _, id := range g.Closure(g.Top) {
			sel[id] = true
		}
		tags[r.TgtTag] = g.Top
		keep = func(n *gen.Node) bool { return sel[n.ID] }
	case "tagged-incomplete":
		tags[r.TgtTag] = g.Top
		keep = func(n *gen.Node) bool { return n.ID == top.ID }
	case "tagged-manifest-gone":
		// a damaged layout: the index lists the tag with the right digest, the manifest file is gone
		// (a registry cannot be in that state: there it is "tagged-incomplete")
		tags[r.TgtTag] = g.Top
		if r.Tgt.IsDir() {
			keep = func(n *gen.Node) bool { return false }
		} else {
			keep = func(n *gen.Node) bool { return n.ID == top.ID }
		}
	}
	if c.Pair != "same-repo" {
		if err := PrePopulate(r.Tgt, g, keep, tags); err != nil {
			return r, err
		}
	}
	for _, n := range g.Nodes {
		if r.Tgt.Has(n) {
			r.PreHas[n.Digest] = true
		}
	}
	if d, ok := r.Tgt.Tag(r.TgtTag); ok {
		r.PreTags[r.TgtTag] = d
	}
	// options
	switch c.Opt {
	case "recursive":
		r.Want.ForceRecursive = true
	case "referrers", "referrers-two-filters":
		// (the two filters together select every referrer the generator makes: signatures and SBOMs)
		r.Want.Referrers = true
	case "referrers-filter":
		r.Want.Referrers = true
		r.Want.ReferrerFilter = func(n *gen.Node) bool { return n.ArtifactType == "application/vnd.example.sig" }
	case "digest-tags":
		r.Want.DigestTags = true
	case "external":
		r.Want.IncludeExternal = true
	}
	if c.Jitter {
		var mu sync.Mutex
		jr := rand.New(rand.NewSource(c.Seed ^ 0x5eed))
		lat := func(ev *modelreg.Event) time.Duration {
			mu.Lock()
			defer mu.Unlock()
			return time.Duration(jr.Intn(1500)) * time.Microsecond
		}
		for _, h := range w.Hosts {
			h.Cfg.Latency = lat
		}
	}
	w.ResetLog()
	return r, nil
}

// ImageOpts translates the case option into client options.
func (r *Result) ImageOpts() []regclient.ImageOpts {
	switch r.Case.Opt {
	case "recursive":
		return []regclient.ImageOpts{regclient.ImageWithForceRecursive()}
	case "referrers":
		return []regclient.ImageOpts{regclient.ImageWithReferrers()}
	case "referrers-filter":
		return []regclient.ImageOpts{regclient.ImageWithReferrers(scheme.WithReferrerMatchOpt(descriptor.MatchOpt{ArtifactType: "application/vnd.example.sig"}))}
	case "referrers-two-filters":
		// two filters in one copy, as regsync's referrerFilters list produces them
		a, b := "application/vnd.example.sbom", "application/vnd.example.sig"
		if r.Case.I%2 == 1 {
			a, b = b, a
		}
		return []regclient.ImageOpts{regclient.ImageWithReferrers(scheme.WithReferrerMatchOpt(descriptor.MatchOpt{ArtifactType: a})),
			regclient.ImageWithReferrers(scheme.WithReferrerMatchOpt(descriptor.MatchOpt{ArtifactType: b}))}
	case "digest-tags":
		return []regclient.ImageOpts{regclient.ImageWithDigestTags()}
	case "external":
		return []regclient.ImageOpts{regclient.ImageWithIncludeExternal()}
	case "fast":
		return []regclient.ImageOpts{regclient.ImageWithFastCheck()}
	}
	return nil
}

// Run sets the case up and executes the copy.
func Run(c Case, o RunOpts) *Result {
	r, err := Setup(c)
	if err != nil {
		r.Err = fmt.Errorf("harness setup: %w", err)
		return r
	}
	if o.Prepare != nil {
		o.Prepare(r)
	}
	if o.SetupOnly {
		return r
	}
	rl := o.RetryLimit
	if rl == 0 {
		rl = 3
	}
	rc := rcx.New(r.W.Hosts, rcx.Opts{RetryLimit: rl, Mutate: func(name string, h *config.Host) { h.ReqConcurrent = 4 }})
	ctx := o.Ctx
	if ctx == nil {
		var cancel context.CancelFunc
		ctx, cancel = context.WithTimeout(context.Background(), 60*time.Second)
		defer cancel()
	}
	prev := 0
	if c.Procs > 0 {
		procsMu.Lock()
		prev = runtime.GOMAXPROCS(c.Procs)
	}
	done := make(chan error, 1)
	go func() {
		defer func() {
			if p := recover(); p != nil {
				done <- fmt.Errorf("PANIC in ImageCopy: %v", p)
			}
		}()
		done <- rc.ImageCopy(ctx, r.Src.Ref(r.SrcTag), r.Tgt.Ref(r.TgtTag), r.ImageOpts()...)
	}()
	select {
	case r.Err = <-done:
	case <-time.After(90 * time.Second):
		r.Hung = true
		r.Err = fmt.Errorf("copy did not return within the watchdog")
	}
	if c.Procs > 0 {
		runtime.GOMAXPROCS(prev)
		procsMu.Unlock()
	}
	r.Phase.Lock()
	r.Returned = true
	r.Phase.Unlock()
	if !o.NoClose {
		_ = rc.Close(ctx, r.Tgt.Ref(r.TgtTag))
	}
	r.W.WaitIdle()
	r.Events = r.W.Log()
	h := sha256.New()
	for _, e := range r.Events {
		fmt.Fprintf(h, "%s %s %s|", e.Host, e.Method, e.Kind)
	}
	r.OrderHash = hex.EncodeToString(h.Sum(nil)[:8])
	return r
}

// Describe renders a compact witness of the case.
func (r *Result) Describe() map[string]any {
	nodes := []string{}
	for _, n := range r.G.Nodes {
		s := fmt.Sprintf("%d %s %s %s refs=%v", n.ID, n.Kind, short(n.Digest), n.MT, n.Refs)
		if n.Subject >= 0 {
			s += fmt.Sprintf(" subject=%d", n.Subject)
		}
		if r.PreHas[n.Digest] {
			s += " [pre-existing at target]"
		}
		nodes = append(nodes, s)
	}
	errS := ""
	if r.Err != nil {
		errS = r.Err.Error()
	}
	return map[string]any{"case": r.Case, "top": r.G.Top, "tags": r.G.Tags, "nodes": nodes, "src": r.Src.String(), "tgt": r.Tgt.String(), "err": errS, "pre_tags": r.PreTags}
}

func short(d string) string {
	if i := strings.IndexByte(d, ':'); i >= 0 && len(d) > i+13 {
		return d[:i+13]
	}
	return d
}

// PreFn adapts PreHas for Expected.
func (r *Result) PreFn() func(n *gen.Node) bool {
	return func(n *gen.Node) bool { return r.PreHas[n.Digest] }
}

// ScratchDir returns a directory below the check's build dir for scratch data.
func ScratchDir(name string) string {
	base := os.Getenv("VERIF_BIN")
	if base == "" {
		base = os.TempDir()
	}
	d := filepath.Join(base, name)
	_ = os.MkdirAll(d, 0o755)
	return d
}
