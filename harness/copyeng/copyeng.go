// Package copyeng sets up source / target endpoints from generated image graphs and
// computes, independently of regclient, what a successful copy must leave at the target.
package copyeng

import (
	"encoding/json"
	"fmt"
	"os"
	"path/filepath"
	"sort"
	"strings"

	"github.com/regclient/regclient/types/ref"

	"verif/gen"
	la "verif/layoutaudit"
	"verif/modelreg"
	"verif/rcx"
)

// Endpoint is a registry repository or a layout directory.
type Endpoint struct {
	Host *modelreg.Host
	Repo string
	Dir  string
}

func (e Endpoint) IsDir() bool { return e.Dir != "" }

func (e Endpoint) String() string {
	if e.IsDir() {
		return "ocidir:" + filepath.Base(e.Dir)
	}
	return e.Host.Name + "/" + e.Repo
}

// Ref builds a client reference to the endpoint.
func (e Endpoint) Ref(tagOrDigest string) ref.Ref {
	if e.IsDir() {
		return rcx.DirRef(e.Dir, tagOrDigest)
	}
	return rcx.Ref(e.Host, e.Repo, tagOrDigest)
}

// Store is the raw storage of the endpoint.
func (e Endpoint) Store() la.Store {
	if e.IsDir() {
		return la.Layout{Dir: e.Dir}
	}
	return modelreg.Store{H: e.Host, Name: e.Repo}
}

// Tag resolves a tag from raw storage (layout: index.json ref.name annotation).
func (e Endpoint) Tag(t string) (string, bool) {
	if e.IsDir() {
		idx, err := la.Layout{Dir: e.Dir}.ReadIndex()
		if err != nil {
			return "", false
		}
		for _, d := range idx.Manifests {
			if d.Annotations[la.AnnotRefName] == t {
				return d.Digest, true
			}
		}
		return "", false
	}
	return modelreg.Store{H: e.Host, Name: e.Repo}.Tag(t)
}

// Has reports whether the endpoint's raw storage has an object.
func (e Endpoint) Has(n *gen.Node) bool {
	if n.IsManifest() {
		_, _, ok := e.Store().Manifest(n.Digest)
		return ok
	}
	_, ok := e.Store().Blob(n.Digest)
	return ok
}

// Snapshot returns digest -> present for every object plus tags, for before/after diffs.
func (e Endpoint) Snapshot() map[string]string {
	out := map[string]string{}
	if e.IsDir() {
		l := la.Layout{Dir: e.Dir}
		files, others := l.DigestFiles()
		for d := range files {
			out["obj/"+d] = "1"
		}
		for _, o := range others {
			out["other/"+o] = "1"
		}
		if idx, err := l.ReadIndex(); err == nil {
			for i, d := range idx.Manifests {
				out[fmt.Sprintf("idx/%s/%d", d.Annotations[la.AnnotRefName], i)] = d.Digest
			}
		}
		return out
	}
	for k, v := range e.Host.Snapshot()[e.Repo] {
		out[k] = v
	}
	return out
}

// FallbackTag is the referrers fallback tag for a subject digest.
func FallbackTag(d string) string {
	i := strings.IndexByte(d, ':')
	alg, enc := d[:i], d[i+1:]
	if len(alg) > 32 {
		alg = alg[:32]
	}
	if len(enc) > 64 {
		enc = enc[:64]
	}
	return alg + "-" + enc
}

// fallbackIndex renders the fallback-tag index for the referrers of subject id.
func fallbackIndex(g *gen.Graph, id int) []byte {
	var es []gen.Obj
	for _, rid := range g.ReferrersOf(id) {
		n := g.Nodes[rid]
		o := gen.Obj{{"mediaType", n.MT}, {"digest", n.Digest}, {"size", len(n.Content)}}
		at := n.ArtifactType
		if at == "" && len(n.Refs) > 0 {
			at = g.Nodes[n.Refs[0]].MT
		}
		if at != "" {
			o = append(o, gen.KV{K: "artifactType", V: at})
		}
		if len(n.Annotations) > 0 {
			o = append(o, gen.KV{K: "annotations", V: n.Annotations})
		}
		es = append(es, o)
	}
	b, _ := json.Marshal(gen.Obj{{"schemaVersion", 2}, {"mediaType", la.MTOCIIndex}, {"manifests", es}})
	return b
}

// Populate writes the whole graph (with tags) into the endpoint as a *source*. When the
// endpoint cannot answer the referrers API (layout, or registry with the API off) the
// fallback tags are written as well, the way a real producer would have left them.
func Populate(e Endpoint, g *gen.Graph) error {
	needFallback := e.IsDir() || !e.Host.Cfg.ReferrersAPI
	extra := map[string][]byte{}
	if needFallback {
		for _, n := range g.Nodes {
			if len(g.ReferrersOf(n.ID)) > 0 {
				extra[FallbackTag(n.Digest)] = fallbackIndex(g, n.ID)
			}
		}
	}
	if e.IsDir() {
		if err := g.ToLayout(e.Dir, nil, false); err != nil {
			return err
		}
		var entries []gen.Obj
		tags := []string{}
		for t := range g.Tags {
			tags = append(tags, t)
		}
		sort.Strings(tags)
		for _, t := range tags {
			n := g.Nodes[g.Tags[t]]
			entries = append(entries, gen.Obj{{"mediaType", n.MT}, {"digest", n.Digest}, {"size", len(n.Content)}, {"annotations", map[string]string{la.AnnotRefName: t}}})
		}
		ft := []string{}
		for t := range extra {
			ft = append(ft, t)
		}
		sort.Strings(ft)
		for _, t := range ft {
			d := la.Digest("sha256", extra[t])
			if err := gen.WriteLayoutBlob(e.Dir, d, extra[t]); err != nil {
				return err
			}
			entries = append(entries, gen.Obj{{"mediaType", la.MTOCIIndex}, {"digest", d}, {"size", len(extra[t])}, {"annotations", map[string]string{la.AnnotRefName: t}}})
		}
		return gen.WriteLayoutIndex(e.Dir, entries)
	}
	g.ToHost(e.Host, e.Repo, nil, true)
	for t, b := range extra {
		e.Host.PutManifest(e.Repo, "sha256", la.MTOCIIndex, b, t)
	}
	return nil
}

// PrePopulate writes a subset of the graph into the *target* before the copy.
// keep selects nodes; tags: tag -> node id to point existing tags at.
func PrePopulate(e Endpoint, g *gen.Graph, keep func(n *gen.Node) bool, tags map[string]int) error {
	if e.IsDir() {
		if err := os.MkdirAll(e.Dir, 0o755); err != nil {
			return err
		}
		for _, n := range g.Nodes {
			if n.External || (keep != nil && !keep(n)) {
				continue
			}
			if err := gen.WriteLayoutBlob(e.Dir, n.Digest, n.Content); err != nil {
				return err
			}
		}
		var entries []gen.Obj
		ts := []string{}
		for t := range tags {
			ts = append(ts, t)
		}
		sort.Strings(ts)
		for _, t := range ts {
			n := g.Nodes[tags[t]]
			entries = append(entries, gen.Obj{{"mediaType", n.MT}, {"digest", n.Digest}, {"size", len(n.Content)}, {"annotations", map[string]string{la.AnnotRefName: t}}})
		}
		return gen.WriteLayoutIndex(e.Dir, entries)
	}
	g.ToHost(e.Host, e.Repo, keep, false)
	for t, id := range tags {
		e.Host.SetTag(e.Repo, t, g.Nodes[id].Digest)
	}
	return nil
}

// Want describes the options of a copy that matter for the expectation.
type Want struct {
	ForceRecursive  bool
	Referrers       bool
	ReferrerFilter  func(n *gen.Node) bool // nil = all
	DigestTags      bool
	IncludeExternal bool
}

// Expect is what must be at the target after a successful copy.
type Expect struct {
	Nodes []*gen.Node       // objects that must exist with identical bytes
	Tags  map[string]string // tags that must resolve to the given digest
	// Entered lists manifests whose content had to be (re)examined; for diagnostics.
	Entered []string
}

// Expected computes the required target content from the graph (ground truth of the source),
// the target's pre-state and the options, by the rules of the property statement:
//   - the top manifest and everything reachable from it through its own content is required;
//   - descent into the content of a manifest stops when that manifest already existed in the
//     target before the copy, unless a recursive copy is requested;
//   - with the referrers / digest-tags options, the (filtered) referrers and digest-tags of every
//     manifest of the source closure are required, each with its own content by the same rules.
func Expected(g *gen.Graph, top int, pre func(n *gen.Node) bool, w Want) Expect {
	ex := Expect{Tags: map[string]string{}}
	need := map[int]bool{}
	visited := map[int]bool{}
	var visit func(id int, descend bool)
	visit = func(id int, descend bool) {
		n := g.Nodes[id]
		if n.External && !w.IncludeExternal {
			return
		}
		if n.External {
			return // not hosted by the source: cannot be required
		}
		need[id] = true
		if !n.IsManifest() {
			return
		}
		key := id*2 + b2i(descend)
		if visited[key] {
			return
		}
		visited[key] = true
		enter := descend && (w.ForceRecursive || !pre(n))
		if enter {
			ex.Entered = append(ex.Entered, n.Digest)
		}
		for _, c := range n.Refs {
			cn := g.Nodes[c]
			if enter {
				visit(c, true)
			} else if cn.IsManifest() && (w.Referrers || w.DigestTags) {
				// trusted content: children are not required, but their referrers / digest tags are
				visitExtras(g, c, w, &ex, visit, need, false)
			}
		}
		visitExtras(g, id, w, &ex, visit, need, true)
	}
	visit(top, true)
	for id := range need {
		ex.Nodes = append(ex.Nodes, g.Nodes[id])
	}
	sort.Slice(ex.Nodes, func(i, j int) bool { return ex.Nodes[i].ID < ex.Nodes[j].ID })
	return ex
}

func b2i(b bool) int {
	if b {
		return 1
	}
	return 0
}

func visitExtras(g *gen.Graph, id int, w Want, ex *Expect, visit func(int, bool), need map[int]bool, self bool) {
	n := g.Nodes[id]
	if !n.IsManifest() {
		return
	}
	if !self {
		// a trusted child: walk its own manifest children for extras only
		for _, c := range n.Refs {
			if g.Nodes[c].IsManifest() {
				visitExtras(g, c, w, ex, visit, need, false)
			}
		}
	}
	if w.Referrers {
		for _, rid := range g.ReferrersOf(id) {
			if w.ReferrerFilter == nil || w.ReferrerFilter(g.Nodes[rid]) {
				visit(rid, true)
			}
		}
	}
	if w.DigestTags {
		alg, enc, _ := la.SplitDigest(n.Digest)
		prefix := alg + "-" + enc
		for t, tid := range g.Tags {
			if strings.HasPrefix(t, prefix) {
				ex.Tags[t] = g.Nodes[tid].Digest
				visit(tid, true)
			}
		}
	}
}

// Verify compares the expectation with the target's raw storage. Returns differences.
func Verify(tgt Endpoint, ex Expect) []string {
	var diff []string
	st := tgt.Store()
	for _, n := range ex.Nodes {
		if n.IsManifest() {
			b, _, ok := st.Manifest(n.Digest)
			if !ok {
				diff = append(diff, fmt.Sprintf("manifest %s (%s, node %d) missing at target", n.Digest, n.Kind, n.ID))
			} else if string(b) != string(n.Content) {
				diff = append(diff, fmt.Sprintf("manifest %s bytes differ at target", n.Digest))
			}
		} else {
			b, ok := st.Blob(n.Digest)
			if !ok {
				diff = append(diff, fmt.Sprintf("blob %s (%s, node %d) missing at target", n.Digest, n.Kind, n.ID))
			} else if string(b) != string(n.Content) {
				diff = append(diff, fmt.Sprintf("blob %s bytes differ at target", n.Digest))
			}
		}
	}
	for t, d := range ex.Tags {
		got, ok := tgt.Tag(t)
		if !ok {
			diff = append(diff, fmt.Sprintf("tag %s missing at target (want %s)", t, d))
		} else if got != d {
			diff = append(diff, fmt.Sprintf("tag %s resolves to %s at target, want %s", t, got, d))
		}
	}
	sort.Strings(diff)
	return diff
}

// FallbackListed returns the digests listed by the referrers fallback tag of a subject at the endpoint
// (nil, false if the tag does not exist or cannot be read).
func FallbackListed(e Endpoint, subject string) (map[string]bool, bool) {
	d, ok := e.Tag(FallbackTag(subject))
	if !ok {
		return nil, false
	}
	raw, _, ok := e.Store().Manifest(d)
	if !ok {
		return nil, false
	}
	var idx struct {
		Manifests []la.Desc `json:"manifests"`
	}
	if err := json.Unmarshal(raw, &idx); err != nil {
		return nil, false
	}
	out := map[string]bool{}
	for _, m := range idx.Manifests {
		out[m.Digest] = true
	}
	return out, true
}
