package main

// Phase E: the clause "every entry under a digest name has that digest" is only non-trivial when
// the source hands out bytes that do not match: raw state of the source corrupted under an
// unchanged name, or a blob body truncated in flight. The exporter may refuse (counted); an export
// that returns nil must still have produced a well-formed archive.

import (
	"bytes"
	"fmt"
	"math/rand"
	"os"
	"path/filepath"
	"strings"

	"verif/copyeng"
	"verif/gen"
	"verif/modelreg"
)

type hsCase struct {
	I        int
	Seed     int64
	Shape    gen.Shape
	Src      string // reg | dir
	Kind     string // blob-bytes blob-short blob-long manifest-ws cut
	Compress bool
}

func (c hsCase) key() string {
	return fmt.Sprintf("hostile|%s/%s|%s|%s|gz=%t", c.Shape.Family, c.Shape.Kind, c.Src, c.Kind, c.Compress)
}

func randomHS(rng *rand.Rand, i int) hsCase {
	kinds := []string{"blob-bytes", "blob-short", "blob-long", "manifest-ws", "cut"}
	c := hsCase{I: i, Seed: rng.Int63(), Shape: importShape(rng), Src: []string{"reg", "dir"}[rng.Intn(2)], Kind: kinds[i%len(kinds)], Compress: rng.Intn(3) == 0}
	c.Shape.Inline = false // inline data would hide the stored bytes of that blob from the exporter
	if c.Kind == "cut" {
		c.Src = "reg"
		if c.Shape.MaxBlob < 600 {
			c.Shape.MaxBlob = 600 + rng.Intn(1500)
		}
	}
	return c
}

// corruptStore replaces the stored bytes of digest d at the endpoint without renaming them.
func corruptStore(e copyeng.Endpoint, n *gen.Node, b []byte) error {
	if e.IsDir() {
		i := strings.IndexByte(n.Digest, ':')
		p := filepath.Join(e.Dir, "blobs", n.Digest[:i], n.Digest[i+1:])
		if !strings.HasPrefix(p, scratch+string(filepath.Separator)) {
			return fmt.Errorf("refusing to write outside the scratch directory")
		}
		return os.WriteFile(p, b, 0o644)
	}
	e.Host.W.Lock()
	defer e.Host.W.Unlock()
	rp := e.Host.Repo(e.Repo)
	if n.IsManifest() {
		m, ok := rp.Manifests[n.Digest]
		if !ok {
			return fmt.Errorf("manifest not in the model repository")
		}
		rp.Manifests[n.Digest] = &modelreg.Man{Raw: b, MT: m.MT}
		return nil
	}
	if _, ok := rp.Blobs[n.Digest]; !ok {
		return fmt.Errorf("blob not in the model repository")
	}
	rp.Blobs[n.Digest] = b
	return nil
}

func runHostile(run *runT, c hsCase) {
	run.Eval(1)
	rng := rand.New(rand.NewSource(c.Seed))
	g := gen.Random(rng, "sha256", c.Shape, "v1")
	top := g.Nodes[g.Top]
	w := newWorld(false)
	defer w.close()
	src := w.endpoint(c.Src, "src")
	if err := copyeng.Populate(src, g); err != nil {
		run.Inconclusive("harness: cannot populate hostile source: " + err.Error())
		return
	}
	// choose the victim
	var blobs, mans []*gen.Node
	for _, id := range g.Closure(g.Top) {
		n := g.Nodes[id]
		if n.IsManifest() {
			mans = append(mans, n)
		} else if len(n.Content) >= 2 {
			blobs = append(blobs, n)
		}
	}
	var victim *gen.Node
	var plan *modelreg.Plan
	switch c.Kind {
	case "manifest-ws":
		victim = mans[rng.Intn(len(mans))]
		if err := corruptStore(src, victim, append(bytes.Clone(victim.Content), '\n')); err != nil {
			run.Inconclusive("harness: " + err.Error())
			return
		}
	case "cut":
		if len(blobs) == 0 {
			run.Count("hostile_cases_without_a_victim", 1)
			return
		}
		victim = blobs[rng.Intn(len(blobs))]
		at := 1 + rng.Intn(len(victim.Content)-1)
		v := victim
		plan = (&modelreg.Plan{Faults: []*modelreg.Fault{{Match: func(ev *modelreg.Event) bool {
			return ev.Kind == "blob" && ev.Method == "GET" && ev.Ref == v.Digest
		}, At: 1, Action: fmt.Sprintf("cut:%d", at)}}}).Install(src.Host)
	default:
		if len(blobs) == 0 {
			run.Count("hostile_cases_without_a_victim", 1)
			return
		}
		victim = blobs[rng.Intn(len(blobs))]
		b := bytes.Clone(victim.Content)
		switch c.Kind {
		case "blob-bytes":
			b[rng.Intn(len(b))] ^= 0x20
		case "blob-short":
			b = b[:len(b)-1-rng.Intn(len(b)/2)]
		case "blob-long":
			b = append(b, make([]byte, 1+rng.Intn(9))...)
		}
		if err := corruptStore(src, victim, b); err != nil {
			run.Inconclusive("harness: " + err.Error())
			return
		}
	}
	rc := w.client()
	raw, res := doExport(rc, src.Ref("v1"), exportOpts(c.Compress)...)
	closeRef(rc, src.Ref("v1"))
	wit := func(extra map[string]any) map[string]any {
		extra["phase"] = "hostile"
		extra["case"] = c
		extra["graph"] = describeGraph(g)
		extra["victim"] = fmt.Sprintf("%s %s (%d bytes)", victim.Kind, victim.Digest, len(victim.Content))
		extra["reproduce"] = "graph = gen.Random(rand.New(rand.NewSource(case.Seed)), \"sha256\", case.Shape, \"v1\") populated raw into the source; the victim's stored bytes are altered under its unchanged digest name (blob-bytes: one byte flipped; blob-short / blob-long: bytes removed / appended; manifest-ws: a newline appended; cut: the first GET of the blob is dropped mid-body); ImageExport(source:v1)"
		return extra
	}
	cls := c.Kind + "/" + c.Src
	switch {
	case res.Hung:
		run.Inconclusive("hostile: export did not return within the watchdog [" + c.key() + "]")
		return
	case res.Panic != "":
		run.Violation("hostile-source/export-panic/"+cls, "ImageExport panicked: "+firstLine(res.Panic), wit(map[string]any{"panic": res.Panic}))
		return
	case res.Err != nil:
		run.Count("hostile_exports_refused/"+c.Kind, 1)
		run.Distinct(c.key())
		if c.I < 1 {
			run.Sample(map[string]any{"phase": "hostile", "case": c, "victim": victim.Kind + " " + victim.Digest, "export_error": errClass(res.Err)})
		}
		return
	}
	run.Count("hostile_exports_returned_nil/"+c.Kind, 1)
	if plan != nil && plan.FiredTotal() == 0 {
		run.Count("hostile_cut_never_fired", 1)
	}
	au := auditArchive(run, raw, auditIn{G: g, Top: top, Tag: "v1", Compress: c.Compress})
	run.Count("hostile_archives_audited", 1)
	if c.Kind != "cut" {
		// the source itself is inconsistent: only the clause under test is judged (what the archive
		// should be called when the source lies about names is not defined by the statement)
		var keep []problem
		for _, p := range au.Problems {
			if p.Class == "digest-name" || p.Class == "not-a-tar" {
				keep = append(keep, p)
			}
		}
		au.Problems = keep
	}
	if len(au.Problems) == 0 {
		run.Count("hostile_archives_well_formed/"+c.Kind, 1)
		run.Distinct(c.key())
		return
	}
	var all []string
	for _, p := range au.Problems {
		all = append(all, p.Class+": "+p.Text)
	}
	p := au.Problems[0]
	run.Violation("hostile-source/archive/"+p.Class+"/"+cls, fmt.Sprintf("ImageExport returned nil although the source delivered bytes that do not match their digest, and the archive is not a well-formed layout: %s [%s]", p.Text, c.key()),
		wit(map[string]any{"problems": all, "archive_members": listing(au.Entries)}))
}
