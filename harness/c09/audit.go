package main

// Independent audit of an exported archive: the clauses of the statement about the archive.

import (
	"encoding/json"
	"fmt"
	"regexp"
	"strings"

	"verif/gen"
	la "verif/layoutaudit"
)

type problem struct {
	Class string // names the clause that failed (part of the fingerprint)
	Text  string
}

type auditIn struct {
	G        *gen.Graph
	Top      *gen.Node
	Tag      string // tag the index / RepoTags must name ("" = exported by digest: nothing demanded)
	Compress bool
}

type auditOut struct {
	Entries      []entry
	Compressed   bool
	Problems     []problem
	DigestFiles  int
	HasDockerMan bool
	IndexEntries int
	RefName      string
	RepoTags     []string
}

func bodyMediaType(b []byte) string {
	var mt struct {
		MediaType string `json:"mediaType"`
	}
	_ = json.Unmarshal(b, &mt)
	return mt.MediaType
}

type dockerManifestEntry struct {
	Config   string
	RepoTags []string
	Layers   []string
}

// regularFiles maps cleaned names to the bodies of regular members; dup lists names written twice.
func regularFiles(es []entry) (files map[string][]byte, dup []string) {
	files = map[string][]byte{}
	for _, e := range es {
		if !e.isReg() {
			continue
		}
		n := cleanName(e.Name)
		if _, ok := files[n]; ok {
			dup = append(dup, n)
		}
		files[n] = e.Body
	}
	return files, dup
}

func auditArchive(run counter, raw []byte, in auditIn) auditOut {
	var out auditOut
	bad := func(class, f string, a ...any) {
		out.Problems = append(out.Problems, problem{class, fmt.Sprintf(f, a...)})
	}
	es, compressed, err := parseTar(raw)
	out.Entries, out.Compressed = es, compressed
	if err != nil {
		bad("not-a-tar", "%v", err)
		return out
	}
	if in.Compress != compressed {
		// not a clause of the statement: evidence only
		run.Count("archive_compression_differs_from_request", 1)
	}
	files, dup := regularFiles(es)
	// the same digest written twice with different bytes would make "the entry under the name" ambiguous
	for _, n := range dup {
		run.Count("archive_duplicate_member_names", 1)
		_ = n
	}
	// (1) marker
	if b, ok := files["oci-layout"]; !ok {
		bad("marker", "archive has no oci-layout member")
	} else {
		var m struct {
			V string `json:"imageLayoutVersion"`
		}
		if err := json.Unmarshal(b, &m); err != nil {
			bad("marker", "oci-layout is not JSON: %v", err)
		} else if m.V != "1.0.0" {
			bad("marker", "oci-layout has imageLayoutVersion %q", m.V)
		}
		run.Count("monitor_markers_checked", 1)
	}
	// (2) every member under a digest name has that digest (all members, also names written twice)
	for _, e := range es {
		if !e.isReg() {
			continue
		}
		d, ok := blobDigestOfName(e.Name)
		if !ok {
			continue
		}
		if _, _, shape := la.SplitDigest(d); !shape {
			run.Count("archive_members_below_blobs_without_digest_name", 1)
			continue
		}
		out.DigestFiles++
		run.Count("monitor_digest_named_members_hashed", 1)
		if !la.Matches(d, e.Body) {
			bad("digest-name", "member %s holds %d bytes that hash to %s", cleanName(e.Name), len(e.Body), la.Digest(d[:strings.IndexByte(d, ':')], e.Body))
		}
	}
	// (3) index.json names the exported image with its tag
	var idx la.Index
	ib, ok := files["index.json"]
	if !ok {
		bad("index", "archive has no index.json member")
	} else if err := json.Unmarshal(ib, &idx); err != nil {
		bad("index", "index.json is not JSON: %v", err)
	} else {
		run.Count("monitor_indexes_checked", 1)
		if idx.SchemaVersion != 2 {
			bad("index", "index.json has schemaVersion %d", idx.SchemaVersion)
		}
		if idx.MediaType != "" && idx.MediaType != la.MTOCIIndex {
			bad("index", "index.json has mediaType %q", idx.MediaType)
		}
		out.IndexEntries = len(idx.Manifests)
		var found *la.Desc
		for i := range idx.Manifests {
			if idx.Manifests[i].Digest == in.Top.Digest {
				found = &idx.Manifests[i]
				break
			}
		}
		if found == nil {
			bad("index-names-image", "index.json has %d entries, none with the digest %s of the exported image", len(idx.Manifests), in.Top.Digest)
		} else {
			out.RefName = found.Annotations[la.AnnotRefName]
			if found.Size != int64(len(in.Top.Content)) {
				bad("index-descriptor", "index.json entry says size %d, the exported manifest has %d bytes", found.Size, len(in.Top.Content))
			}
			if found.MediaType != in.Top.MT {
				bad("index-descriptor", "index.json entry says mediaType %q, the exported manifest is %q", found.MediaType, in.Top.MT)
			}
			if in.Tag != "" {
				run.Count("monitor_index_tag_checks", 1)
				if got, ok := found.Annotations[la.AnnotRefName]; !ok {
					bad("index-names-tag", "index.json entry of the exported image has no %s annotation (exported tag %q)", la.AnnotRefName, in.Tag)
				} else if la.TagOf(got) != in.Tag {
					bad("index-names-tag", "index.json entry of the exported image is named %q, the image was exported as tag %q", got, in.Tag)
				}
			} else {
				run.Count("index_tag_not_demanded_export_by_digest", 1)
			}
		}
	}
	// (4) the closure of the exported image is complete inside the archive
	st := archStore{files: files}
	nodes, probs := la.Closure(st, in.Top.Digest, in.Top.MT, la.WalkOpts{SkipForeign: true})
	run.Count("monitor_closure_objects_walked", len(nodes))
	for _, p := range probs {
		bad("closure", "%s", p)
	}
	// ... and holds the generated objects byte for byte
	for _, id := range in.G.Closure(in.Top.ID) {
		n := in.G.Nodes[id]
		if n.External {
			continue
		}
		b, ok := files[blobPath(n.Digest)]
		if !ok {
			bad("closure", "%s %s of the source image is not in the archive", n.Kind, n.Digest)
		} else if string(b) != string(n.Content) {
			bad("closure", "%s %s differs from the source", n.Kind, n.Digest)
		}
	}
	// (5) a single image also carries a Docker-loadable manifest.json
	mb, hasDM := files["manifest.json"]
	out.HasDockerMan = hasDM
	if in.Top.Kind == "image" || in.Top.Kind == "artifact" {
		demanded := in.Top.Kind == "image"
		if !hasDM {
			if demanded {
				bad("docker-manifest", "single image exported without a manifest.json member")
			} else {
				run.Count("artifact_archives_without_manifest_json", 1)
			}
		} else {
			pre := len(out.Problems)
			auditDockerManifest(run, &out, bad, mb, files, in)
			if !demanded && len(out.Problems) > pre {
				// artifacts are not "a single image" in the sense of the clause: evidence only
				run.Count("artifact_manifest_json_oddities", len(out.Problems)-pre)
				out.Problems = out.Problems[:pre]
			}
		}
	} else if hasDM {
		run.Count("index_archives_with_manifest_json", 1)
	}
	return out
}

func auditDockerManifest(run counter, out *auditOut, bad func(string, string, ...any), mb []byte, files map[string][]byte, in auditIn) {
	var dm []dockerManifestEntry
	if err := json.Unmarshal(mb, &dm); err != nil {
		bad("docker-manifest", "manifest.json is not a JSON array of image records: %v", err)
		return
	}
	if len(dm) != 1 {
		bad("docker-manifest", "manifest.json lists %d images, the archive holds one", len(dm))
		if len(dm) == 0 {
			return
		}
	}
	run.Count("monitor_docker_manifests_checked", 1)
	m, err := la.Parse(in.Top.Content, in.Top.MT)
	if err != nil || m.Config == nil {
		return // harness generated: cannot happen
	}
	rec := dm[0]
	out.RepoTags = rec.RepoTags
	if b, ok := files[cleanName(rec.Config)]; rec.Config == "" || !ok {
		bad("docker-manifest", "manifest.json Config %q is not a member of the archive", rec.Config)
	} else if !la.Matches(m.Config.Digest, b) {
		bad("docker-manifest", "manifest.json Config %q is not the config %s of the image", rec.Config, m.Config.Digest)
	}
	if len(rec.Layers) != len(m.Layers) {
		bad("docker-manifest", "manifest.json lists %d layers, the image has %d", len(rec.Layers), len(m.Layers))
	} else {
		for i, l := range m.Layers {
			if len(l.URLs) > 0 {
				continue
			}
			if b, ok := files[cleanName(rec.Layers[i])]; rec.Layers[i] == "" || !ok {
				bad("docker-manifest", "manifest.json Layers[%d] %q is not a member of the archive", i, rec.Layers[i])
			} else if !la.Matches(l.Digest, b) {
				bad("docker-manifest", "manifest.json Layers[%d] %q is not layer %d (%s) of the image", i, rec.Layers[i], i, l.Digest)
			}
		}
	}
	if len(rec.RepoTags) == 0 {
		bad("docker-manifest", "manifest.json has no RepoTags: a load would leave the image unnamed")
	}
	named := false
	for _, rt := range rec.RepoTags {
		slash := strings.LastIndexByte(rt, '/')
		colon := strings.LastIndexByte(rt, ':')
		if rt == "" || colon <= slash || colon == len(rt)-1 || colon == 0 || strings.ContainsRune(rt, '@') || !repoTagTagRE.MatchString(rt[colon+1:]) {
			// (a reference that carries a digest is not a tag: a load leaves such an image unnamed)
			bad("docker-manifest", "manifest.json RepoTags entry %q is not of the form name:tag", rt)
			continue
		}
		if in.Tag != "" && strings.HasSuffix(rt, ":"+in.Tag) {
			named = true
		}
	}
	if in.Tag != "" && len(rec.RepoTags) > 0 {
		run.Count("monitor_repotag_checks", 1)
		if !named {
			bad("docker-manifest-tag", "manifest.json RepoTags %v do not name the exported tag %q", rec.RepoTags, in.Tag)
		}
	}
}

var repoTagTagRE = regexp.MustCompile(`^[A-Za-z0-9_][A-Za-z0-9._-]{0,127}$`)

type counter interface {
	Count(name string, n int)
}
