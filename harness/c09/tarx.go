package main

// Tar plumbing of the harness: archives are parsed and written with archive/tar and
// compress/gzip only — never with regclient's reader / writer.

import (
	"archive/tar"
	"bytes"
	"compress/gzip"
	"fmt"
	"io"
	"path"
	"strings"
)

// entry is one tar member as the harness sees it.
type entry struct {
	Name string
	Type byte
	Link string
	Body []byte
	Mode int64
}

func (e entry) isReg() bool { return e.Type == tar.TypeReg || e.Type == 0 }

func (e entry) short() string {
	switch e.Type {
	case tar.TypeDir:
		return "d " + e.Name
	case tar.TypeSymlink:
		return "s " + e.Name + " -> " + e.Link
	case tar.TypeLink:
		return "h " + e.Name + " => " + e.Link
	}
	return fmt.Sprintf("f %s (%d)", e.Name, len(e.Body))
}

func listing(es []entry) []string {
	out := make([]string, 0, len(es))
	for _, e := range es {
		out = append(out, e.short())
	}
	return out
}

func isGzip(b []byte) bool { return len(b) >= 3 && b[0] == 0x1f && b[1] == 0x8b && b[2] == 8 }

func gunzip(b []byte) ([]byte, error) {
	zr, err := gzip.NewReader(bytes.NewReader(b))
	if err != nil {
		return nil, err
	}
	out, err := io.ReadAll(zr)
	if err != nil {
		return nil, err
	}
	return out, zr.Close()
}

func gz(b []byte) []byte {
	var out bytes.Buffer
	zw := gzip.NewWriter(&out)
	_, _ = zw.Write(b)
	_ = zw.Close()
	return out.Bytes()
}

// parseTar reads a (possibly gzip compressed) archive completely.
func parseTar(raw []byte) (es []entry, compressed bool, err error) {
	if isGzip(raw) {
		compressed = true
		if raw, err = gunzip(raw); err != nil {
			return nil, true, fmt.Errorf("gzip stream is damaged: %w", err)
		}
	}
	tr := tar.NewReader(bytes.NewReader(raw))
	for {
		h, err := tr.Next()
		if err == io.EOF {
			return es, compressed, nil
		}
		if err != nil {
			return es, compressed, fmt.Errorf("tar stream is damaged after %d entries: %w", len(es), err)
		}
		e := entry{Name: h.Name, Type: h.Typeflag, Link: h.Linkname, Mode: h.Mode}
		if e.isReg() {
			e.Type = tar.TypeReg
			if e.Body, err = io.ReadAll(tr); err != nil {
				return es, compressed, fmt.Errorf("tar entry %q is damaged: %w", h.Name, err)
			}
			if int64(len(e.Body)) != h.Size {
				return es, compressed, fmt.Errorf("tar entry %q: header says %d bytes, stream has %d", h.Name, h.Size, len(e.Body))
			}
		}
		es = append(es, e)
	}
}

// writeTar renders entries in the given order. format: "" (writer's choice), "pax", "gnu".
func writeTar(es []entry, format string, compress bool) ([]byte, error) {
	var buf bytes.Buffer
	tw := tar.NewWriter(&buf)
	for _, e := range es {
		h := &tar.Header{Name: e.Name, Typeflag: e.Type, Linkname: e.Link, Mode: e.Mode}
		if h.Mode == 0 {
			h.Mode = 0o644
			if e.Type == tar.TypeDir {
				h.Mode = 0o755
			}
		}
		switch format {
		case "pax":
			h.Format = tar.FormatPAX
		case "gnu":
			h.Format = tar.FormatGNU
		}
		if e.Type == tar.TypeReg {
			h.Size = int64(len(e.Body))
		}
		if err := tw.WriteHeader(h); err != nil {
			return nil, fmt.Errorf("harness: cannot write tar header %q: %w", e.Name, err)
		}
		if e.Type == tar.TypeReg {
			if _, err := tw.Write(e.Body); err != nil {
				return nil, err
			}
		}
	}
	if err := tw.Close(); err != nil {
		return nil, err
	}
	if compress {
		return gz(buf.Bytes()), nil
	}
	return buf.Bytes(), nil
}

// cleanName is the archive-root relative, slash separated form of an entry name.
func cleanName(n string) string {
	return strings.TrimPrefix(path.Clean("/"+n), "/")
}

// blobDigestOfName returns alg:hex for names of the form blobs/<alg>/<enc>.
func blobDigestOfName(n string) (string, bool) {
	p := strings.Split(cleanName(n), "/")
	if len(p) != 3 || p[0] != "blobs" || p[1] == "" || p[2] == "" {
		return "", false
	}
	return p[1] + ":" + p[2], true
}

func blobPath(d string) string {
	i := strings.IndexByte(d, ':')
	return "blobs/" + d[:i] + "/" + d[i+1:]
}

// archStore exposes the regular digest-named members of an archive as a layoutaudit.Store.
type archStore struct{ files map[string][]byte }

func (s archStore) Manifest(d string) ([]byte, string, bool) {
	b, ok := s.files[blobPath0(d)]
	if !ok {
		return nil, "", false
	}
	return b, bodyMediaType(b), true
}

func (s archStore) Blob(d string) ([]byte, bool) {
	b, ok := s.files[blobPath0(d)]
	return b, ok
}

func blobPath0(d string) string {
	if strings.IndexByte(d, ':') <= 0 {
		return "\x00invalid"
	}
	return blobPath(d)
}
