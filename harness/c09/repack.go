package main

// Phase B: archives of the same content in other shapes. The base is either an archive the code
// under test exported (and the harness audited) or an OCI-layout archive written by the harness
// from the generated graph ("produced by another tool"). Every transform keeps the archive a valid
// tar of a valid OCI layout with the same content.

import (
	"archive/tar"
	"encoding/json"
	"fmt"
	"math/rand"
	"sort"
	"strings"

	"verif/gen"
	la "verif/layoutaudit"
)

// repackSpec is one point of the archive-shape space. Zero value = unchanged.
type repackSpec struct {
	Order    string // asis shuffle index-last layout-last blobs-first reversed sorted
	Links    string // none symlink-samedir symlink-otherdir symlink-chain symlink-absolute hardlink-samedir hardlink-otherdir
	DropDirs bool
	Extras   bool
	DotSlash bool
	Format   string // "" pax gnu
	Gzip     bool
	Seed     int64
}

var (
	orders    = []string{"shuffle", "index-last", "layout-last", "blobs-first", "reversed", "sorted"}
	linkForms = []string{"symlink-samedir", "symlink-otherdir", "symlink-chain", "hardlink-samedir", "hardlink-otherdir", "symlink-absolute"}
)

// demanded reports whether the statement demands that archives with this link form import.
// Relative symbolic links (resolved against the directory of the link, as every tar tool does) and
// hard links (named from the archive root, as tar defines them) are demanded. An absolute symbolic
// link has no defined meaning inside an archive; the importer reads it relative to the archive
// root, which is observed and counted only.
func linkDemanded(form string) bool { return form != "symlink-absolute" }

func (s repackSpec) dims() []string {
	var d []string
	if s.Links != "" && s.Links != "none" {
		d = append(d, "links:"+s.Links)
	}
	if s.Order != "" && s.Order != "asis" {
		d = append(d, "order:"+s.Order)
	}
	if s.DropDirs {
		d = append(d, "no-directory-members")
	}
	if s.Extras {
		d = append(d, "unrelated-members")
	}
	if s.DotSlash {
		d = append(d, "dot-slash-names")
	}
	if s.Format != "" {
		d = append(d, "format:"+s.Format)
	}
	if s.Gzip {
		d = append(d, "gzip")
	}
	return d
}

func (s repackSpec) key() string {
	d := s.dims()
	if len(d) == 0 {
		return "unchanged"
	}
	return strings.Join(d, "+")
}

// single returns the spec reduced to one dimension (for attribution of a failing combination).
func (s repackSpec) single(dim string) repackSpec {
	o := repackSpec{Seed: s.Seed}
	switch {
	case strings.HasPrefix(dim, "links:"):
		o.Links = s.Links
	case strings.HasPrefix(dim, "order:"):
		o.Order = s.Order
	case dim == "no-directory-members":
		o.DropDirs = true
	case dim == "unrelated-members":
		o.Extras = true
	case dim == "dot-slash-names":
		o.DotSlash = true
	case strings.HasPrefix(dim, "format:"):
		o.Format = s.Format
	case dim == "gzip":
		o.Gzip = true
	}
	return o
}

func randomRepack(rng *rand.Rand, i int) repackSpec {
	s := repackSpec{Seed: rng.Int63()}
	// two thirds single-dimension repacks (cycled so that every class is met), one third combinations
	singles := 6 + len(linkForms) + 5
	switch k := i % (singles * 3 / 2); {
	case k < 6:
		s.Order = orders[k]
	case k < 6+len(linkForms):
		s.Links = linkForms[k-6]
	case k == 6+len(linkForms):
		s.DropDirs = true
	case k == 7+len(linkForms):
		s.Extras = true
	case k == 8+len(linkForms):
		s.DotSlash = true
	case k == 9+len(linkForms):
		s.Format = []string{"pax", "gnu"}[rng.Intn(2)]
	case k == 10+len(linkForms):
		s.Gzip = true
	default:
		s.Order = append([]string{"asis"}, orders...)[rng.Intn(len(orders)+1)]
		if rng.Intn(2) == 0 {
			s.Links = linkForms[rng.Intn(len(linkForms)-1)] // combinations use demanded forms only
		}
		s.DropDirs = rng.Intn(2) == 0
		s.Extras = rng.Intn(2) == 0
		s.DotSlash = rng.Intn(3) == 0
		s.Format = []string{"", "pax", "gnu"}[rng.Intn(3)]
		s.Gzip = rng.Intn(3) == 0
	}
	return s
}

// repack applies the spec. It returns the new member list and the number of members that became links.
func repack(base []entry, s repackSpec) ([]entry, int) {
	rng := rand.New(rand.NewSource(s.Seed))
	es := append([]entry(nil), base...)
	for i := range es {
		es[i].Name = cleanName(es[i].Name)
		if es[i].Type == tar.TypeDir {
			es[i].Name += "/"
		}
	}
	if s.DropDirs {
		var out []entry
		for _, e := range es {
			if e.Type != tar.TypeDir {
				out = append(out, e)
			}
		}
		es = out
	}
	// --- links: a blob member becomes a link to a differently named member with the same bytes
	nLinks := 0
	if s.Links != "" && s.Links != "none" {
		var blobIdx []int
		for i, e := range es {
			if _, ok := blobDigestOfName(e.Name); ok && e.isReg() {
				blobIdx = append(blobIdx, i)
			}
		}
		chosen := map[int]bool{}
		for _, i := range blobIdx {
			if rng.Intn(2) == 0 {
				chosen[i] = true
			}
		}
		if len(chosen) == 0 && len(blobIdx) > 0 {
			chosen[blobIdx[rng.Intn(len(blobIdx))]] = true
		}
		var out []entry
		needStore, needLinks := false, false
		k := 0
		for i, e := range es {
			if !chosen[i] {
				out = append(out, e)
				continue
			}
			k++
			nLinks++
			dir := e.Name[:strings.LastIndexByte(e.Name, '/')] // blobs/<alg>
			data := e
			var links []entry
			switch s.Links {
			case "symlink-samedir":
				data.Name = fmt.Sprintf("%s/data-%d", dir, k)
				links = []entry{{Name: e.Name, Type: tar.TypeSymlink, Link: fmt.Sprintf("data-%d", k), Mode: 0o777}}
			case "symlink-otherdir":
				data.Name = fmt.Sprintf("store/obj-%d", k)
				links = []entry{{Name: e.Name, Type: tar.TypeSymlink, Link: "../../" + data.Name, Mode: 0o777}}
				needStore = true
			case "symlink-absolute":
				data.Name = fmt.Sprintf("store/obj-%d", k)
				links = []entry{{Name: e.Name, Type: tar.TypeSymlink, Link: "/" + data.Name, Mode: 0o777}}
				needStore = true
			case "symlink-chain":
				data.Name = fmt.Sprintf("store/obj-%d", k)
				mid := fmt.Sprintf("links/l-%d", k)
				links = []entry{{Name: mid, Type: tar.TypeSymlink, Link: "../" + data.Name, Mode: 0o777},
					{Name: e.Name, Type: tar.TypeSymlink, Link: "../../" + mid, Mode: 0o777}}
				needStore, needLinks = true, true
			case "hardlink-samedir":
				data.Name = fmt.Sprintf("%s/data-%d", dir, k)
				links = []entry{{Name: e.Name, Type: tar.TypeLink, Link: data.Name, Mode: 0o644}}
			case "hardlink-otherdir":
				data.Name = fmt.Sprintf("store/obj-%d", k)
				links = []entry{{Name: e.Name, Type: tar.TypeLink, Link: data.Name, Mode: 0o644}}
				needStore = true
			}
			// symbolic links may precede their target; hard links must follow it
			if links[0].Type == tar.TypeSymlink && rng.Intn(2) == 0 {
				out = append(out, links...)
				out = append(out, data)
			} else {
				out = append(out, data)
				out = append(out, links...)
			}
		}
		es = out
		if !s.DropDirs {
			if needStore {
				es = append([]entry{{Name: "store/", Type: tar.TypeDir}}, es...)
			}
			if needLinks {
				es = append([]entry{{Name: "links/", Type: tar.TypeDir}}, es...)
			}
		}
	}
	if s.Extras {
		junk := make([]byte, 40+rng.Intn(200))
		rng.Read(junk)
		extra := []entry{
			{Name: "README.md", Type: tar.TypeReg, Body: []byte("exported for transfer\n")},
			{Name: "extra/", Type: tar.TypeDir},
			{Name: "extra/notes.txt", Type: tar.TypeReg, Body: junk},
			{Name: "blobs/sha256/.partial-upload", Type: tar.TypeReg, Body: junk[:20]},
			{Name: "repositories", Type: tar.TypeReg, Body: []byte("{}")},
		}
		if s.DropDirs {
			extra = append(extra[:1], extra[2:]...)
		}
		for _, x := range extra {
			p := rng.Intn(len(es) + 1)
			es = append(es[:p], append([]entry{x}, es[p:]...)...)
		}
	}
	// --- order
	isBlob := func(e entry) bool {
		return strings.HasPrefix(e.Name, "blobs/") || strings.HasPrefix(e.Name, "store/") || strings.HasPrefix(e.Name, "links/")
	}
	moveLast := func(name string) {
		var out, last []entry
		for _, e := range es {
			if e.Name == name {
				last = append(last, e)
			} else {
				out = append(out, e)
			}
		}
		es = append(out, last...)
	}
	switch s.Order {
	case "shuffle":
		rng.Shuffle(len(es), func(i, j int) { es[i], es[j] = es[j], es[i] })
	case "index-last":
		moveLast("index.json")
	case "layout-last":
		moveLast("oci-layout")
	case "blobs-first":
		var a, b []entry
		for _, e := range es {
			if isBlob(e) {
				a = append(a, e)
			} else {
				b = append(b, e)
			}
		}
		es = append(a, b...)
	case "reversed":
		for i, j := 0, len(es)-1; i < j; i, j = i+1, j-1 {
			es[i], es[j] = es[j], es[i]
		}
	case "sorted":
		sort.SliceStable(es, func(i, j int) bool { return es[i].Name < es[j].Name })
	}
	// a hard link is only defined after the member it names: move each one behind its target
	for changed := true; changed; {
		changed = false
		pos := map[string]int{}
		for i, e := range es {
			if e.Type != tar.TypeLink {
				pos[e.Name] = i
			}
		}
		for i, e := range es {
			if e.Type == tar.TypeLink && pos[e.Link] > i {
				t := pos[e.Link]
				l := es[i]
				copy(es[i:t], es[i+1:t+1])
				es[t] = l
				changed = true
				break
			}
		}
	}
	if s.DotSlash {
		for i := range es {
			es[i].Name = "./" + es[i].Name
			if es[i].Type == tar.TypeLink {
				es[i].Link = "./" + es[i].Link
			}
		}
	}
	return es, nLinks
}

// resolveArchive is the harness' own reading of an archive with links: the bytes found under each
// cleaned name after following symbolic links (relative to the link's directory) and hard links
// (relative to the root). Used to self-check that a repack is still a valid layout of the image.
func resolveArchive(es []entry) map[string][]byte {
	files := map[string][]byte{}
	links := map[string]string{}
	for _, e := range es {
		n := cleanName(e.Name)
		switch e.Type {
		case tar.TypeReg, 0:
			files[n] = e.Body
		case tar.TypeSymlink:
			t := e.Link
			if strings.HasPrefix(t, "/") {
				links[n] = cleanName(t)
			} else {
				dir := ""
				if i := strings.LastIndexByte(n, '/'); i >= 0 {
					dir = n[:i]
				}
				links[n] = cleanName(dir + "/" + t)
			}
		case tar.TypeLink:
			links[n] = cleanName(e.Link)
		}
	}
	for n := range links {
		cur := n
		for hop := 0; hop < 8; hop++ {
			if b, ok := files[cur]; ok {
				files[n] = b
				break
			}
			next, ok := links[cur]
			if !ok {
				break
			}
			cur = next
		}
	}
	return files
}

// selfCheckArchive: the (repacked / harness-built) archive, read by the harness' own rules, is a
// complete layout of every graph in gs. A failure is a harness defect (inconclusive), never a verdict.
func selfCheckArchive(es []entry, gs []*gen.Graph) error {
	files := resolveArchive(es)
	if _, ok := files["oci-layout"]; !ok {
		return fmt.Errorf("no oci-layout")
	}
	var idx la.Index
	if err := json.Unmarshal(files["index.json"], &idx); err != nil {
		return fmt.Errorf("index.json: %v", err)
	}
	for _, g := range gs {
		found := false
		for _, d := range idx.Manifests {
			if d.Digest == g.Nodes[g.Top].Digest {
				found = true
			}
		}
		if !found {
			return fmt.Errorf("index.json does not list %s", g.Nodes[g.Top].Digest)
		}
		for _, id := range g.Closure(g.Top) {
			n := g.Nodes[id]
			if b, ok := files[blobPath(n.Digest)]; !ok || string(b) != string(n.Content) {
				return fmt.Errorf("object %s is not readable under its digest name", n.Digest)
			}
		}
	}
	return nil
}
