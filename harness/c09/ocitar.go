package main

// OCI-layout archives written by the harness (the "other tool"), phase B bases and phase C
// (selection among several index entries).

import (
	"archive/tar"
	"encoding/json"
	"fmt"
	"math/rand"
	"strings"

	"github.com/regclient/regclient"

	"verif/copyeng"
	"verif/gen"
	la "verif/layoutaudit"
)

// buildOCIArchive renders one layout holding every graph of gs; entry i of index.json names
// the top of gs[i] with ref.name names[i] ("" = no annotation).
func buildOCIArchive(gs []*gen.Graph, names []string) []entry {
	var idxEntries []gen.Obj
	for i, g := range gs {
		t := g.Nodes[g.Top]
		o := gen.Obj{{K: "mediaType", V: t.MT}, {K: "digest", V: t.Digest}, {K: "size", V: len(t.Content)}}
		if names[i] != "" {
			o = append(o, gen.KV{K: "annotations", V: map[string]string{la.AnnotRefName: names[i]}})
		}
		idxEntries = append(idxEntries, o)
	}
	idx, _ := json.Marshal(gen.Obj{{K: "schemaVersion", V: 2}, {K: "mediaType", V: la.MTOCIIndex}, {K: "manifests", V: idxEntries}})
	es := []entry{
		{Name: "oci-layout", Type: tar.TypeReg, Body: []byte(`{"imageLayoutVersion":"1.0.0"}`)},
		{Name: "index.json", Type: tar.TypeReg, Body: idx},
		{Name: "blobs/", Type: tar.TypeDir},
	}
	seenDir := map[string]bool{}
	seen := map[string]bool{}
	for _, g := range gs {
		for _, id := range g.Closure(g.Top) {
			n := g.Nodes[id]
			if n.External || seen[n.Digest] {
				continue
			}
			seen[n.Digest] = true
			alg := n.Digest[:strings.IndexByte(n.Digest, ':')]
			if !seenDir[alg] {
				seenDir[alg] = true
				es = append(es, entry{Name: "blobs/" + alg + "/", Type: tar.TypeDir})
			}
			es = append(es, entry{Name: blobPath(n.Digest), Type: tar.TypeReg, Body: n.Content})
		}
	}
	return es
}

// ---------------------------------------------------------------------------------
// phase B

type rpCase struct {
	I      int
	Seed   int64
	Alg    string
	Shape  gen.Shape
	Base   string // exported | harness
	Tgt    string // reg | dir
	Strict bool
	Spec   repackSpec
}

func (c rpCase) key() string {
	return fmt.Sprintf("%s|%s|base=%s|>%s|strict=%t|%s", c.Shape.Key(), c.Alg, c.Base, c.Tgt, c.Strict, c.Spec.key())
}

func importShape(rng *rand.Rand) gen.Shape {
	s := exportShape(rng)
	if s.Kind == "schema1" {
		s.Kind = "image"
	}
	return s
}

func randomRP(rng *rand.Rand, i int) rpCase {
	c := rpCase{I: i, Seed: rng.Int63(), Alg: "sha256", Shape: importShape(rng), Base: []string{"exported", "harness"}[rng.Intn(2)],
		Tgt: []string{"reg", "reg", "dir"}[rng.Intn(3)], Strict: rng.Intn(2) == 0, Spec: randomRepack(rng, i)}
	if rng.Intn(8) == 0 {
		c.Alg = "sha512"
	}
	// repacks are about the shape of the archive: blob-typed index entries have their own class in phase A
	if rng.Intn(4) != 0 {
		c.Shape.BlobEntry = false
	}
	return c
}

func runRepack(run *runT, c rpCase) {
	run.Eval(1)
	g := gen.Random(rand.New(rand.NewSource(c.Seed)), c.Alg, c.Shape, "v1")
	cls := graphClass(g, g.Top)
	w := newWorld(c.Strict)
	defer w.close()
	var src copyeng.Endpoint
	if c.Base == "exported" {
		src = w.endpoint("reg", "src")
		if err := copyeng.Populate(src, g); err != nil {
			run.Inconclusive("harness: cannot populate repack source: " + err.Error())
			return
		}
	}
	ctl := w.endpoint(c.Tgt, "ctl")
	tgt := w.endpoint(c.Tgt, "tgt")
	rc := w.client()
	var base []entry
	if c.Base == "exported" {
		raw, res := doExport(rc, src.Ref("v1"))
		if res.Hung {
			run.Inconclusive("repack: export did not return within the watchdog")
			return
		}
		if res.Err != nil || res.Panic != "" {
			run.Count("repack_base_export_failed", 1) // judged in phase A
			return
		}
		es, _, err := parseTar(raw)
		if err != nil || selfCheckArchive(es, []*gen.Graph{g}) != nil {
			run.Count("repack_base_export_not_a_valid_layout", 1) // judged in phase A
			return
		}
		base = es
	} else {
		base = buildOCIArchive([]*gen.Graph{g}, []string{"v1"})
		if err := selfCheckArchive(base, []*gen.Graph{g}); err != nil {
			run.Inconclusive("harness: built archive fails its self check: " + err.Error())
			return
		}
	}
	wit := func(spec repackSpec, members []entry) func(map[string]any) map[string]any {
		return func(extra map[string]any) map[string]any {
			extra["phase"] = "repack"
			extra["case"] = c
			extra["graph"] = describeGraph(g)
			extra["graph_class"] = cls
			extra["repack"] = spec.key()
			extra["archive_members"] = listing(members)
			extra["reproduce"] = "graph = gen.Random(rand.New(rand.NewSource(case.Seed)), case.Alg, case.Shape, \"v1\"); base archive = " + c.Base +
				" (exported: ImageExport of the graph from a model registry; harness: plain OCI layout tar); members rewritten as listed; ImageImport(target:imp)"
			return extra
		}
	}
	try := func(members []entry, spec repackSpec, ep copyeng.Endpoint) (outcome, bool) {
		raw, err := writeTar(members, spec.Format, spec.Gzip)
		if err != nil {
			run.Inconclusive("harness: " + err.Error())
			return outcome{}, false
		}
		r := ep.Ref("imp")
		return evaluateImport(run, doImport(rc, r, raw), rc, ep, r, g, g.Top, "imp"), true
	}
	// control: the base archive as it is
	co, ok := try(base, repackSpec{}, ctl)
	if !ok {
		return
	}
	if !co.OK {
		run.Count("repack_skipped_base_archive_not_imported", 1)
		fp := "roundtrip"
		if c.Base == "harness" {
			fp = "plain-layout-archive"
		}
		co.report(run, fp, cls, c.key(), wit(repackSpec{}, base))
		return
	}
	if c.Base == "harness" {
		run.Count("plain_layout_archives_imported", 1)
	}
	members, nLinks := repack(base, c.Spec)
	if err := selfCheckArchive(members, []*gen.Graph{g}); err != nil {
		run.Inconclusive(fmt.Sprintf("harness: repack %s fails its self check: %v", c.Spec.key(), err))
		return
	}
	ro, ok := try(members, c.Spec, tgt)
	if !ok {
		return
	}
	dims := c.Spec.dims()
	soft := c.Spec.Links != "" && !linkDemanded(c.Spec.Links)
	for _, d := range dims {
		run.Count("repack_dim/"+d, 1)
	}
	run.Count("repack_members_turned_into_links", nLinks)
	if soft {
		if ro.OK {
			run.Count("undemanded/"+c.Spec.Links+"/imported", 1)
		} else {
			run.Count("undemanded/"+c.Spec.Links+"/not_imported", 1)
		}
		return
	}
	if ro.OK {
		run.Count("repacks_verified", 1)
		for _, d := range dims {
			run.Count("repack_dim_verified/"+d, 1)
		}
		run.Distinct("rp|" + cls + "|" + c.Alg + "|" + c.Base + "|" + c.Tgt + "|" + c.Spec.key())
		if c.I < 1 {
			run.Sample(map[string]any{"phase": "repack", "case": c, "repack": c.Spec.key(), "archive_members": listing(members)})
		}
		return
	}
	if ro.Hung {
		ro.report(run, "repack", "", c.key(), wit(c.Spec, members))
		return
	}
	// attribution: which single dimension of the repack is enough to break the import?
	blame := ""
	blamedSpec, blamedMembers, blamedOut := c.Spec, members, ro
	if len(dims) == 1 {
		blame = dims[0]
	} else {
		for _, d := range dims {
			s1 := c.Spec.single(d)
			m1, _ := repack(base, s1)
			ep := w.endpoint(c.Tgt, "att")
			rc = w.client()
			o1, ok := try(m1, s1, ep)
			if ok && !o1.OK && !o1.Hung {
				blame, blamedSpec, blamedMembers, blamedOut = d, s1, m1, o1
				break
			}
		}
		if blame == "" {
			blame = "combination:" + c.Spec.key()
		}
	}
	run.Count("repacks_failed", 1)
	blamedOut.report(run, "repack", blame, c.key(), wit(blamedSpec, blamedMembers))
}

// ---------------------------------------------------------------------------------
// phase C: several images in one archive, selected by name / tag / digest

type selCase struct {
	I      int
	Seed   int64
	Alg    string
	Shapes []gen.Shape
	Names  []string
	Pick   int
	Mode   string // name | tag | digest
	Tgt    string
	Strict bool
	Order  string
}

func (c selCase) key() string {
	ks := []string{}
	for _, s := range c.Shapes {
		ks = append(ks, s.Family+"/"+s.Kind)
	}
	return fmt.Sprintf("%s|%s|pick=%d/%d|%s|>%s|strict=%t|%s", strings.Join(ks, ","), c.Alg, c.Pick, len(c.Shapes), c.Mode, c.Tgt, c.Strict, c.Order)
}

func randomSel(rng *rand.Rand, i int) selCase {
	k := 2 + rng.Intn(2)
	c := selCase{I: i, Seed: rng.Int63(), Alg: "sha256", Mode: []string{"name", "tag", "digest"}[i%3], Tgt: []string{"reg", "reg", "dir"}[rng.Intn(3)], Strict: rng.Intn(2) == 0,
		Order: []string{"asis", "asis", "shuffle", "index-last"}[rng.Intn(4)]}
	pool := []string{"v1", "v2", "stable", "rel-1.2", "edge"}
	if c.Mode != "tag" && rng.Intn(2) == 0 {
		// containerd / docker style: the annotation holds a full image name
		pool = []string{"registry.example.org/team/app:v1", "docker.io/library/base:3.19", "localhost:5000/x/y:edge", "quay.example/ns/tool:rel-1.2"}
	}
	rng.Shuffle(len(pool), func(a, b int) { pool[a], pool[b] = pool[b], pool[a] })
	for j := 0; j < k; j++ {
		s := importShape(rng)
		s.BlobEntry = false
		c.Shapes = append(c.Shapes, s)
		c.Names = append(c.Names, pool[j])
	}
	c.Pick = rng.Intn(k)
	return c
}

func runSelect(run *runT, c selCase) {
	run.Eval(1)
	rng := rand.New(rand.NewSource(c.Seed))
	var gs []*gen.Graph
	for j, s := range c.Shapes {
		gs = append(gs, gen.Random(rand.New(rand.NewSource(rng.Int63())), c.Alg, s, c.Names[j]))
	}
	sel := gs[c.Pick]
	top := sel.Nodes[sel.Top]
	members := buildOCIArchive(gs, c.Names)
	members, _ = repack(members, repackSpec{Order: c.Order, Seed: c.Seed})
	if err := selfCheckArchive(members, gs); err != nil {
		run.Inconclusive("harness: multi-image archive fails its self check: " + err.Error())
		return
	}
	raw, err := writeTar(members, "", false)
	if err != nil {
		run.Inconclusive("harness: " + err.Error())
		return
	}
	w := newWorld(c.Strict)
	defer w.close()
	tgt := w.endpoint(c.Tgt, "tgt")
	rc := w.client()
	var opts []regclient.ImageOpts
	tgtRef := tgt.Ref("imp")
	wantTag := "imp"
	switch c.Mode {
	case "name":
		opts = append(opts, regclient.ImageWithImportName(c.Names[c.Pick]))
	case "tag":
		tgtRef = tgt.Ref(c.Names[c.Pick])
		wantTag = c.Names[c.Pick]
	case "digest":
		tgtRef = tgt.Ref(top.Digest)
		wantTag = ""
	}
	out := evaluateImport(run, doImport(rc, tgtRef, raw, opts...), rc, tgt, tgtRef, sel, sel.Top, wantTag)
	run.Count("selection_imports/"+c.Mode, 1)
	if out.OK {
		run.Count("selection_verified/"+c.Mode, 1)
		run.Distinct("sel|" + c.key())
		// what else arrived is not a clause of the statement: evidence only
		for j, g := range gs {
			if j != c.Pick && tgt.Has(g.Nodes[g.Top]) && g.Nodes[g.Top].Digest != top.Digest {
				run.Count("selection_unselected_images_also_imported", 1)
			}
		}
		if c.I < 1 {
			run.Sample(map[string]any{"phase": "select", "case": c, "selected_digest": top.Digest, "archive_members": len(members)})
		}
		return
	}
	var graphs []any
	for _, g := range gs {
		graphs = append(graphs, describeGraph(g))
	}
	out.report(run, "select/"+c.Mode, graphClass(sel, sel.Top), c.key(), func(extra map[string]any) map[string]any {
		extra["phase"] = "select"
		extra["case"] = c
		extra["graphs"] = graphs
		extra["selected"] = top.Digest
		extra["target_ref"] = tgtRef.CommonName()
		extra["archive_members"] = listing(members)
		extra["reproduce"] = "graphs[j] = gen.Random(rand.New(rand.NewSource(r.Int63())), Alg, Shapes[j], Names[j]) with r = rand.New(rand.NewSource(case.Seed)); one OCI layout tar with an index entry (ref.name = Names[j]) per graph; ImageImport(target_ref, ImageWithImportName(Names[Pick]) in mode name)"
		return extra
	})
}
