// C09 — export then import reproduces the image; the archive is a valid OCI layout.
//
// Monitors (all independent of the code under test):
//  1. the exported tar stream is parsed with archive/tar (+compress/gzip) by the harness and audited
//     like a layout: marker, index names the image with its tag, every digest-named member hashes to
//     its name, closure complete and byte-identical to the generated graph, Docker-loadable
//     manifest.json for single images;
//  2. after ImageImport into a fresh registry repository / layout directory the target's raw storage
//     is compared with the generated graph (top digest under the tag, complete closure, identical bytes);
//  3. the same content repacked (member order, links, no directory members, unrelated members,
//     ./ names, tar dialects, gzip) and plain layout archives written by the harness, incl. several
//     images per archive selected by name / tag / digest, must import to the same result;
//  4. Docker-save-format archives written by the harness must import into an image whose config bytes
//     and decompressed layers equal the archive's.
package main

import (
	"encoding/json"
	"fmt"
	"os"
	"path/filepath"
	"sort"
	"strings"
	"sync"

	"verif/ev"
)

type runT = ev.Run

func parallel(n, workers int, f func(i int)) {
	var wg sync.WaitGroup
	ch := make(chan int)
	for k := 0; k < workers; k++ {
		wg.Add(1)
		go func() {
			defer wg.Done()
			for i := range ch {
				f(i)
			}
		}()
	}
	for i := 0; i < n; i++ {
		ch <- i
	}
	close(ch)
	wg.Wait()
}

const workers = 8

func main() {
	run := ev.Start("C09", "exploration")
	run.Rule("A: seeded image graphs (single image, index, nested index, artifact, index of artifacts, schema1; OCI / Docker / mixed media types; shared, duplicate, empty layers; inline data; blob-typed index entries; sha256 / sha512) " +
		"populated raw into a model registry or a layout directory, exported by tag / by digest / with a name override, plain or gzip, the archive audited by the harness' own tar reader, then imported into a fresh registry repository or layout directory and compared with the graph; " +
		"B: the exported archive, or a plain layout archive written by the harness, rewritten along one dimension (member order: shuffled, index.json last, oci-layout last, blobs first, reversed, name sorted; blob members replaced by relative symlinks in the same / another directory / a two-link chain or by hard links in the same / another directory; directory members dropped; unrelated members added; ./ names; PAX / GNU dialect; gzip) or a seeded combination, after a control import of the unchanged archive; " +
		"C: two or three images in one harness-written layout archive, one selected by ImageWithImportName / by the target tag / by the target digest; " +
		"E: sources that deliver bytes not matching their digest name (stored blob with a flipped byte / too short / too long, stored manifest with an appended newline, first blob GET dropped mid-body), registry and layout, exported: a nil return must come with an archive in which every digest-named member hashes to its name; " +
		"D: Docker-save-format archives written by the harness (classic: hash-named layer directories with layer.tar; flat: content-named <sha256>.tar[.gz] members with or without legacy symlink directories; layers uncompressed / gzip / mixed, <sha>.json config, manifest.json, repositories, no oci-layout; name-sorted, shuffled or manifest.json first; repeated layer as second directory / symlink / one member listed twice; several images selected by RepoTag; RepoTags null; empty layer tar; multi-MiB layer; outer gzip). " +
		"non-trivial = the operation under judgement succeeded on an image with >=2 objects and every applicable clause was evaluated; distinct = distinct (graph shape, endpoints, options / repack spec / selection mode / docker archive class) keys")
	run.Assume("worlds are populated and judged through raw state (model registry maps, files on disk), archives through archive/tar + compress/gzip + encoding/json of the harness; nothing is read back through regclient",
		"an export or import that fails in a fault-free world on complete content counts as not reproducing the image (export of Docker schema1 is not supported by the exporter: counted, not judged)",
		"foreign layers, referrers and digest tags are not generated: whether they belong to 'the complete content' is a copy option, not part of this statement",
		"demanded link forms: symbolic links with a relative target resolved against the link's own directory, hard links named from the archive root (tar semantics). Absolute symlink targets are run and counted only",
		"Docker-format archives come in the two layouts tools write: classic (<id>/layer.tar directories, docker save) and flat (<sha256>.tar[.gz] members in the root, optionally with legacy <id>/layer.tar symlinks: containers/image i.e. skopeo / podman save, go-containerregistry i.e. crane / ko / kaniko); in the flat layout a layer that occurs twice in an image is stored once and listed twice in manifest.json",
		"a failing combination of repack dimensions is re-run one dimension at a time on fresh targets and fingerprinted by the first dimension that fails alone",
		"the watchdog (90 s per call) only ever yields 'inconclusive'")
	if err := initScratch(); err != nil {
		run.Inconclusive("harness: no scratch directory: " + err.Error())
		os.Exit(run.Finish())
	}
	if rp := os.Getenv("VERIF_REPLAY"); rp != "" {
		replay(run, rp)
		_ = os.RemoveAll(scratch)
		os.Exit(run.Finish())
	}
	nA, nB, nC, nD := ev.Scale(400, 5200), ev.Scale(400, 5200), ev.Scale(90, 1200), ev.Scale(120, 1600)

	rngA := ev.Rand("c09/roundtrip")
	as := make([]rtCase, nA)
	for i := range as {
		as[i] = randomRT(rngA, i)
	}
	parallel(nA, workers, func(i int) { runRoundTrip(run, as[i]) })

	rngB := ev.Rand("c09/repack")
	bs := make([]rpCase, nB)
	for i := range bs {
		bs[i] = randomRP(rngB, i)
	}
	parallel(nB, workers, func(i int) { runRepack(run, bs[i]) })

	rngC := ev.Rand("c09/select")
	cs := make([]selCase, nC)
	for i := range cs {
		cs[i] = randomSel(rngC, i)
	}
	parallel(nC, workers, func(i int) { runSelect(run, cs[i]) })

	rngD := ev.Rand("c09/docker")
	ds := make([]dkCase, nD)
	for i := range ds {
		ds[i] = randomDK(rngD, i)
	}
	parallel(nD, workers, func(i int) { runDocker(run, ds[i]) })

	rngE := ev.Rand("c09/hostile")
	nE := ev.Scale(100, 1300)
	hs := make([]hsCase, nE)
	for i := range hs {
		hs[i] = randomHS(rngE, i)
	}
	parallel(nE, workers, func(i int) { runHostile(run, hs[i]) })

	// ---- non-vacuity: every clause the check claims to cover must have been observed
	need := map[string]int64{
		"archives_audited": 50, "archives_gzip": 10, "archives_plain": 10, "archives_with_name_override": 5,
		"monitor_markers_checked": 50, "monitor_indexes_checked": 50, "monitor_index_tag_checks": 30,
		"monitor_digest_named_members_hashed": 200, "monitor_closure_objects_walked": 200,
		"monitor_docker_manifests_checked": 10, "monitor_repotag_checks": 10,
		"imports_verified": 100, "imports_verified_layout_target": 10, "imports_verified_registry_target": 10,
		"monitor_target_objects_compared": 500,
		"repacks_verified":                50, "repack_members_turned_into_links": 20, "plain_layout_archives_imported": 20,
		"selection_verified/name": 3, "selection_verified/tag": 3,
		"docker_imports_verified": 20, "monitor_docker_layers_compared": 40, "monitor_docker_configs_compared": 20,
		"docker_verified_layout/classic": 5, "docker_verified_layout/flat": 5, "docker_verified_layers/none": 5, "docker_verified_layers/gzip": 5,
		"docker_verified_order/sorted": 5, "docker_verified_order/shuffle": 3,
	}
	var keys []string
	for k := range need {
		keys = append(keys, k)
	}
	sort.Strings(keys)
	for _, k := range keys {
		if run.Get(k) < need[k] {
			run.Inconclusive(fmt.Sprintf("clause under-observed: %s = %d (need >= %d)", k, run.Get(k), need[k]))
		}
	}
	// every repack dimension must have been exercised (verified, or failed and reported)
	for _, d := range append(append([]string{}, prefixed("order:", orders)...), append(prefixed("links:", linkForms[:5]), "no-directory-members", "unrelated-members", "dot-slash-names", "gzip")...) {
		if run.Get("repack_dim/"+d) == 0 {
			run.Inconclusive("repack dimension never exercised: " + d)
		}
	}
	for _, k := range []string{"blob-bytes", "blob-short", "blob-long", "manifest-ws", "cut"} {
		if run.Get("hostile_exports_refused/"+k)+run.Get("hostile_exports_returned_nil/"+k) == 0 {
			run.Inconclusive("mismatching-source class never exercised: " + k)
		}
	}
	if run.Get("selection_imports/digest") == 0 {
		run.Inconclusive("selection by digest never exercised")
	}
	for _, rep := range ev.RaceReports(filepath.Join(os.Getenv("VERIF_BIN"), "race")) {
		switch {
		case strings.Contains(rep, "tarReadAll") && strings.Contains(rep, "net/http.(*transferWriter)"):
			run.Violation("race/import/tar-reader-reused-while-http-still-reads-request-body",
				"data race: ImageImport hands its shared tar.Reader to the HTTP transport as a request body and advances it (tarReadAll -> Next) while the transport's write loop is still reading that body", rep)
		case strings.Contains(rep, "regclient.(*RegClient).ImageExport") || strings.Contains(rep, "regclient.(*RegClient).ImageImport") ||
			strings.Contains(rep, "imageExportDescriptor") || strings.Contains(rep, "tarReadAll"):
			run.Violation("race/export-import", "data race inside export / import", rep)
		default:
			run.Count("unattributed_race_reports", 1)
		}
	}
	_ = os.RemoveAll(scratch)
	os.Exit(run.Finish())
}

// replay re-executes the single case recorded in a witness file.
func replay(run *runT, path string) {
	b, err := os.ReadFile(path)
	if err != nil {
		run.Inconclusive("replay file unreadable: " + err.Error())
		return
	}
	var f struct {
		Witness struct {
			Phase string          `json:"phase"`
			Case  json.RawMessage `json:"case"`
		} `json:"witness"`
	}
	if err := json.Unmarshal(b, &f); err != nil {
		run.Inconclusive("replay file is not a witness: " + err.Error())
		return
	}
	switch f.Witness.Phase {
	case "roundtrip":
		var c rtCase
		if err = json.Unmarshal(f.Witness.Case, &c); err == nil {
			runRoundTrip(run, c)
		}
	case "repack":
		var c rpCase
		if err = json.Unmarshal(f.Witness.Case, &c); err == nil {
			runRepack(run, c)
		}
	case "select":
		var c selCase
		if err = json.Unmarshal(f.Witness.Case, &c); err == nil {
			runSelect(run, c)
		}
	case "hostile":
		var c hsCase
		if err = json.Unmarshal(f.Witness.Case, &c); err == nil {
			runHostile(run, c)
		}
	case "docker":
		var c dkCase
		if err = json.Unmarshal(f.Witness.Case, &c); err == nil {
			runDocker(run, c)
		}
	default:
		run.Inconclusive("replay file names no phase of this check")
	}
	if err != nil {
		run.Inconclusive("replay case does not decode: " + err.Error())
	}
}

func prefixed(p string, l []string) []string {
	var out []string
	for _, s := range l {
		out = append(out, p+s)
	}
	return out
}
