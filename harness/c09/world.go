package main

// Worlds (model registries / layout directories below $VERIF_BIN) and guarded calls into the
// code under test.

import (
	"bytes"
	"context"
	"fmt"
	"os"
	"path/filepath"
	"runtime/debug"
	"strings"
	"time"

	"github.com/regclient/regclient"
	"github.com/regclient/regclient/types/ref"

	"verif/copyeng"
	"verif/gen"
	"verif/modelreg"
	"verif/rcx"
)

var scratch string // directory below $VERIF_BIN that holds every file of this check

func initScratch() error {
	base := os.Getenv("VERIF_BIN")
	if base == "" {
		return fmt.Errorf("VERIF_BIN is not set")
	}
	abs, err := filepath.Abs(base)
	if err != nil {
		return err
	}
	if err := os.MkdirAll(abs, 0o755); err != nil {
		return err
	}
	d, err := os.MkdirTemp(abs, "c09-")
	if err != nil {
		return err
	}
	scratch = d
	return nil
}

// world is one isolated set of endpoints with one client.
type world struct {
	W    *modelreg.World
	RC   *regclient.RegClient
	dirs []string
	n    int
	// Strict: import targets behave like a validating registry and refuse a manifest whose
	// references are not in the repository yet (the model's RejectMissing switch).
	Strict bool
}

func newWorld(strict bool) *world { return &world{W: modelreg.NewWorld(), Strict: strict} }

// endpoint creates a fresh registry repository ("reg") or layout directory ("dir").
func (w *world) endpoint(kind, name string) copyeng.Endpoint {
	w.n++
	if kind == "dir" {
		d, err := os.MkdirTemp(scratch, name+"-")
		if err != nil {
			panic("harness: " + err.Error())
		}
		w.dirs = append(w.dirs, d)
		return copyeng.Endpoint{Dir: d}
	}
	h := w.W.NewHost(fmt.Sprintf("%s%d", name, w.n))
	h.Cfg.TagDeleteAPI = true
	h.Cfg.RejectMissing = w.Strict && name != "src"
	return copyeng.Endpoint{Host: h, Repo: "proj/" + name}
}

// client (re)builds the client so that it knows every host created so far.
func (w *world) client() *regclient.RegClient {
	w.RC = rcx.New(w.W.Hosts, rcx.Opts{RetryLimit: 3})
	return w.RC
}

func (w *world) close() {
	w.W.Close()
	for _, d := range w.dirs {
		if strings.HasPrefix(d, scratch+string(filepath.Separator)) {
			_ = os.RemoveAll(d)
		}
	}
}

const callTimeout = 60 * time.Second

type callResult struct {
	Err   error
	Panic string
	Hung  bool
}

// guarded runs f with panic recovery and a watchdog (a firing watchdog is inconclusive, never a verdict).
func guarded(f func(ctx context.Context) error) callResult {
	ctx, cancel := context.WithTimeout(context.Background(), callTimeout)
	defer cancel()
	done := make(chan callResult, 1)
	go func() {
		defer func() {
			if p := recover(); p != nil {
				done <- callResult{Panic: fmt.Sprintf("%v\n%s", p, trimStack(debug.Stack()))}
			}
		}()
		done <- callResult{Err: f(ctx)}
	}()
	select {
	case r := <-done:
		return r
	case <-time.After(callTimeout + 30*time.Second):
		return callResult{Hung: true}
	}
}

func trimStack(b []byte) string {
	s := string(b)
	if len(s) > 3000 {
		s = s[:3000] + "..."
	}
	return s
}

func doExport(rc *regclient.RegClient, r ref.Ref, opts ...regclient.ImageOpts) ([]byte, callResult) {
	var buf bytes.Buffer
	res := guarded(func(ctx context.Context) error { return rc.ImageExport(ctx, r, &buf, opts...) })
	return buf.Bytes(), res
}

func doImport(rc *regclient.RegClient, r ref.Ref, archive []byte, opts ...regclient.ImageOpts) callResult {
	res := guarded(func(ctx context.Context) error {
		return rc.ImageImport(ctx, r, bytes.NewReader(archive), opts...)
	})
	return res
}

func closeRef(rc *regclient.RegClient, r ref.Ref) {
	ctx, cancel := context.WithTimeout(context.Background(), 20*time.Second)
	defer cancel()
	_ = rc.Close(ctx, r)
}

// verifyTarget compares the target's raw storage with what the generated graph says the image is.
// tag == "" skips the tag clause (import by digest only).
func verifyTarget(tgt copyeng.Endpoint, g *gen.Graph, top int, tag string) (diff []string, objects int) {
	ex := copyeng.Expected(g, top, func(*gen.Node) bool { return false }, copyeng.Want{})
	want := g.Nodes[top].Digest
	if tag != "" {
		if d, ok := tgt.Tag(tag); !ok {
			diff = append(diff, "target tag "+tag+" does not exist")
		} else if d != want {
			diff = append(diff, fmt.Sprintf("target tag %s resolves to %s, the source image is %s", tag, d, want))
		}
	}
	diff = append(diff, copyeng.Verify(tgt, ex)...)
	return diff, len(ex.Nodes)
}

func describeGraph(g *gen.Graph) []string {
	var out []string
	for _, n := range g.Nodes {
		d := n.Digest
		if i := strings.IndexByte(d, ':'); i >= 0 && len(d) > i+13 {
			d = d[:i+13]
		}
		out = append(out, fmt.Sprintf("%d %s %s %s %dB refs=%v", n.ID, n.Kind, d, n.MT, len(n.Content), n.Refs))
	}
	return out
}

func errClass(err error) string {
	if err == nil {
		return ""
	}
	s := err.Error()
	if len(s) > 300 {
		s = s[:300]
	}
	return s
}
