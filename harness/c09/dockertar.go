package main

// Phase D: Docker-save-format archives written by the harness (classic layout: one hash-named
// directory per layer with layer.tar, <config>.json, manifest.json, repositories; no oci-layout).

import (
	"archive/tar"
	"bytes"
	"crypto/sha256"
	"encoding/hex"
	"encoding/json"
	"fmt"
	"io"
	"math/rand"
	"sort"
	"strings"

	"github.com/klauspost/compress/zstd"
	"github.com/regclient/regclient"

	"verif/copyeng"
	"verif/gen"
	la "verif/layoutaudit"
)

type dkCase struct {
	I         int
	Seed      int64
	Layout    string // classic: <id>/layer.tar directories as docker save (<25) writes them; flat: <sha256>.tar members in the root as skopeo / podman save / crane write them
	Images    int    // images in the archive
	Pick      int    // image to import (0 without a name = the importer's default)
	ByName    bool   // select with ImageWithImportName(RepoTag)
	Layers    int    // layers per image
	LayerComp string // none gzip mixed
	Repeat    bool   // the last layer repeats the first one (classic: second directory; flat: the content-named member is stored once and listed twice)
	SymDup    bool   // classic + Repeat: the second directory holds a symlink ../<id>/layer.tar (docker's de-duplication)
	Legacy    bool   // flat: additional <id>/layer.tar -> ../<sha256>.tar symlinks, VERSION and json members (skopeo's legacy metadata)
	NoTags    bool   // RepoTags null (image saved by id); single-image archives only
	EmptyTar  bool   // one layer is an empty tar
	OuterGzip bool
	Tgt       string
	Strict    bool
	Order     string // sorted (docker save) | shuffle | manifest-first
	BigLayer  bool   // one layer of a few MiB of incompressible data (several upload chunks)
	Damage    string // "" | gz-truncated | gz-bitflip: the gzip stream of one compressed layer of the picked image is damaged inside its (well-formed) tar member: the import has to refuse
}

func (c dkCase) key() string {
	return fmt.Sprintf("docker|%s|img=%d|pick=%d|name=%t|l=%d|comp=%s|repeat=%t|symdup=%t|legacy=%t|notags=%t|empty=%t|ogz=%t|>%s|strict=%t|%s|big=%t",
		c.Layout, c.Images, c.Pick, c.ByName, c.Layers, c.LayerComp, c.Repeat, c.SymDup, c.Legacy, c.NoTags, c.EmptyTar, c.OuterGzip, c.Tgt, c.Strict, c.Order, c.BigLayer) + map[bool]string{true: "|damage=" + c.Damage, false: ""}[c.Damage != ""]
}

func randomDK(rng *rand.Rand, i int) dkCase {
	c := dkCase{I: i, Seed: rng.Int63(), Layout: []string{"classic", "classic", "flat"}[i%3], Images: 1, Layers: 1 + rng.Intn(4), LayerComp: []string{"none", "gzip", "none", "gzip", "mixed"}[i%5],
		OuterGzip: rng.Intn(4) == 0, Tgt: []string{"reg", "reg", "dir"}[rng.Intn(3)], EmptyTar: rng.Intn(5) == 0, Strict: rng.Intn(2) == 0,
		Order: []string{"sorted", "sorted", "shuffle", "manifest-first"}[rng.Intn(4)], BigLayer: rng.Intn(20) == 0}
	c.Legacy = c.Layout == "flat" && rng.Intn(2) == 0
	switch rng.Intn(8) {
	case 0, 1:
		c.Images = 2 + rng.Intn(2)
		c.Pick = rng.Intn(c.Images)
		c.ByName = c.Pick > 0 || rng.Intn(2) == 0
	case 2, 3:
		c.Repeat = true
		c.SymDup = c.Layout == "classic" && rng.Intn(2) == 0
		c.Layers = 2 + rng.Intn(3)
	case 4:
		c.NoTags = true
	}
	if c.LayerComp == "gzip" && !c.Repeat && i%4 == 1 {
		c.Damage = []string{"gz-truncated", "gz-bitflip"}[rng.Intn(2)]
	}
	return c
}

type dkImage struct {
	Config   []byte
	CfgName  string
	RepoTags []string
	Layers   [][]byte // uncompressed layer tars in order
	Paths    []string // manifest.json Layers
}

func layerTar(rng *rand.Rand, empty, big bool) []byte {
	var buf bytes.Buffer
	tw := tar.NewWriter(&buf)
	if big {
		b := make([]byte, 2<<20+rng.Intn(1<<20))
		rng.Read(b)
		_ = tw.WriteHeader(&tar.Header{Name: "data.bin", Typeflag: tar.TypeReg, Mode: 0o644, Size: int64(len(b))})
		_, _ = tw.Write(b)
	}
	if !empty {
		n := 1 + rng.Intn(4)
		_ = tw.WriteHeader(&tar.Header{Name: "app/", Typeflag: tar.TypeDir, Mode: 0o755})
		for i := 0; i < n; i++ {
			b := make([]byte, 1+rng.Intn(1500))
			rng.Read(b)
			if rng.Intn(2) == 0 {
				b = bytes.Repeat([]byte(fmt.Sprintf("line %d\n", rng.Intn(1000))), 1+len(b)/16)
			}
			_ = tw.WriteHeader(&tar.Header{Name: fmt.Sprintf("app/file-%d-%x", i, rng.Intn(1<<16)), Typeflag: tar.TypeReg, Mode: 0o644, Size: int64(len(b))})
			_, _ = tw.Write(b)
		}
	}
	_ = tw.Close()
	return buf.Bytes()
}

func sha(b []byte) string {
	s := sha256.Sum256(b)
	return hex.EncodeToString(s[:])
}

// buildDocker renders the archive members (name sorted, as docker save writes them) and the images.
func buildDocker(c dkCase) ([]entry, []dkImage) {
	rng := rand.New(rand.NewSource(c.Seed))
	var es []entry
	var images []dkImage
	var manifest []gen.Obj
	repos := map[string]map[string]string{}
	written := map[string]bool{}
	for im := 0; im < c.Images; im++ {
		img := dkImage{}
		var diffIDs []string
		var hist []gen.Obj
		chain := fmt.Sprintf("img%d", im)
		var ids []string
		for l := 0; l < c.Layers; l++ {
			var lt []byte
			repeat := c.Repeat && l == c.Layers-1
			if repeat {
				lt = img.Layers[0]
			} else {
				lt = layerTar(rng, c.EmptyTar && l == 1%c.Layers && im == 0, c.BigLayer && l == 0 && im == c.Pick)
			}
			img.Layers = append(img.Layers, lt)
			diffIDs = append(diffIDs, "sha256:"+sha(lt))
			hist = append(hist, gen.Obj{{K: "created", V: "2024-01-01T00:00:00Z"}, {K: "created_by", V: fmt.Sprintf("/bin/sh -c step-%d", l)}})
			chain = sha([]byte(chain + " " + diffIDs[l]))
			id := chain
			ids = append(ids, id)
			compressed := c.LayerComp == "gzip" || (c.LayerComp == "mixed" && l%2 == 1)
			if repeat {
				compressed = c.LayerComp == "gzip" || c.LayerComp == "mixed" && 0%2 == 1
			}
			body := lt
			if compressed {
				body = gz(lt)
				if c.Damage != "" && im == c.Pick && l == 0 && len(body) > 24 {
					body = bytes.Clone(body)
					if c.Damage == "gz-truncated" {
						body = body[:len(body)-9] // the trailer and a little of the stream are gone
					} else {
						body[len(body)/2] ^= 0x55
					}
				}
			}
			meta := []entry{{Name: id + "/", Type: tar.TypeDir},
				{Name: id + "/VERSION", Type: tar.TypeReg, Body: []byte("1.0")},
				{Name: id + "/json", Type: tar.TypeReg, Body: []byte(fmt.Sprintf(`{"id":"%s","created":"2024-01-01T00:00:00Z"}`, id))}}
			if c.Layout == "flat" {
				// content-named member in the root, written once however often it is listed
				name := sha(lt) + ".tar"
				if compressed {
					name += ".gz"
				}
				img.Paths = append(img.Paths, name)
				if !written[name] {
					written[name] = true
					es = append(es, entry{Name: name, Type: tar.TypeReg, Body: body})
				}
				if c.Legacy {
					es = append(es, meta...)
					es = append(es, entry{Name: id + "/layer.tar", Type: tar.TypeSymlink, Link: "../" + name, Mode: 0o777})
				}
				continue
			}
			img.Paths = append(img.Paths, id+"/layer.tar")
			es = append(es, meta...)
			if repeat && c.SymDup {
				es = append(es, entry{Name: id + "/layer.tar", Type: tar.TypeSymlink, Link: "../" + ids[0] + "/layer.tar", Mode: 0o777})
				continue
			}
			es = append(es, entry{Name: id + "/layer.tar", Type: tar.TypeReg, Body: body})
		}
		cfg, _ := json.Marshal(gen.Obj{{K: "architecture", V: "amd64"}, {K: "os", V: "linux"}, {K: "created", V: "2024-01-01T00:00:00Z"},
			{K: "config", V: gen.Obj{{K: "Env", V: []string{fmt.Sprintf("IMAGE=%d", im), fmt.Sprintf("NONCE=%d", rng.Int63())}}, {K: "Cmd", V: []string{"/app/run"}}}},
			{K: "rootfs", V: gen.Obj{{K: "type", V: "layers"}, {K: "diff_ids", V: diffIDs}}}, {K: "history", V: hist}})
		img.Config = cfg
		img.CfgName = sha(cfg) + ".json"
		es = append(es, entry{Name: img.CfgName, Type: tar.TypeReg, Body: cfg})
		rec := gen.Obj{{K: "Config", V: img.CfgName}}
		if c.NoTags {
			rec = append(rec, gen.KV{K: "RepoTags", V: nil})
		} else {
			repo, tag := fmt.Sprintf("example/app%d", im), fmt.Sprintf("%d.0", 1+im)
			img.RepoTags = []string{repo + ":" + tag}
			rec = append(rec, gen.KV{K: "RepoTags", V: img.RepoTags})
			repos[repo] = map[string]string{tag: ids[len(ids)-1]}
		}
		rec = append(rec, gen.KV{K: "Layers", V: img.Paths})
		manifest = append(manifest, rec)
		images = append(images, img)
	}
	mb, _ := json.Marshal(manifest)
	es = append(es, entry{Name: "manifest.json", Type: tar.TypeReg, Body: append(mb, '\n')})
	if len(repos) > 0 {
		rb, _ := json.Marshal(repos)
		es = append(es, entry{Name: "repositories", Type: tar.TypeReg, Body: append(rb, '\n')})
	}
	sort.SliceStable(es, func(i, j int) bool { return es[i].Name < es[j].Name })
	switch c.Order {
	case "shuffle":
		rng.Shuffle(len(es), func(i, j int) { es[i], es[j] = es[j], es[i] })
	case "manifest-first":
		sort.SliceStable(es, func(i, j int) bool { return es[i].Name == "manifest.json" && es[j].Name != "manifest.json" })
	}
	return es, images
}

// uncompressLayer reads a layer blob the way its declared media type says it has to be read.
func uncompressLayer(mt string, b []byte) ([]byte, error) {
	switch {
	case strings.HasSuffix(mt, "gzip"):
		if !isGzip(b) {
			return nil, fmt.Errorf("media type %s but the blob is not a gzip stream", mt)
		}
		return gunzip(b)
	case strings.HasSuffix(mt, "zstd"):
		zr, err := zstd.NewReader(bytes.NewReader(b))
		if err != nil {
			return nil, err
		}
		defer zr.Close()
		return io.ReadAll(zr)
	case strings.HasSuffix(mt, ".tar"):
		return b, nil
	}
	// an unknown layer type: sniff
	if isGzip(b) {
		return gunzip(b)
	}
	return b, nil
}

// dockerAttempt builds the archive of c, imports it into a fresh target and judges the result.
func dockerAttempt(run *runT, c dkCase) (members []entry, tgtName string, res callResult, kind string, problems []string, nLayers int, ok bool) {
	members, images := buildDocker(c)
	want := images[c.Pick]
	raw, err := writeTar(members, "", c.OuterGzip)
	if err != nil {
		run.Inconclusive("harness: " + err.Error())
		return members, "", res, "", nil, 0, false
	}
	w := newWorld(c.Strict)
	defer w.close()
	tgt := w.endpoint(c.Tgt, "tgt")
	rc := w.client()
	tgtRef := tgt.Ref("loaded")
	var opts []regclient.ImageOpts
	if c.ByName {
		opts = append(opts, regclient.ImageWithImportName(want.RepoTags[0]))
	}
	res = doImport(rc, tgtRef, raw, opts...)
	closeRef(rc, tgtRef)
	if c.Damage != "" && !res.Hung && res.Panic == "" {
		// no image can be "the archive's layers once decompressed": anything but an error is wrong
		run.Count("docker_imports_of_damaged_layers", 1)
		if res.Err == nil {
			return members, tgt.String(), res, "import-accepts-damaged-layer", []string{"ImageImport returned nil for a Docker-format archive in which the gzip stream of a layer is damaged (" + c.Damage + ")"}, len(want.Layers), true
		}
		run.Count("docker_imports_of_damaged_layers_refused", 1)
		return members, tgt.String(), res, "", nil, 0, false
	}
	switch {
	case res.Hung:
		run.Inconclusive("docker: import did not return within the watchdog [" + c.key() + "]")
		return members, tgt.String(), res, "", nil, 0, false
	case res.Panic != "":
		kind = "import-panic"
		problems = append(problems, "ImageImport panicked: "+firstLine(res.Panic))
	case res.Err != nil:
		kind = "import-rejected"
		problems = append(problems, fmt.Sprintf("a valid Docker-format archive was rejected by ImageImport: %v", res.Err))
	default:
		kind = "import-differs"
		problems = compareDocker(run, tgt, "loaded", want)
	}
	return members, tgt.String(), res, kind, problems, len(want.Layers), true
}

func runDocker(run *runT, c dkCase) {
	run.Eval(1)
	members, tgtName, res, kind, problems, nLayers, ok := dockerAttempt(run, c)
	if !ok {
		return
	}
	class := c.Layout + "/layers-" + c.LayerComp
	switch {
	case c.Repeat && c.Layout == "flat":
		class = "flat/repeated-layer-listed-twice"
	case c.Repeat && c.SymDup:
		class = "classic/symlinked-duplicate-layer"
	case c.Repeat:
		class = "classic/duplicate-layer-in-two-directories"
	case c.Images > 1 && c.ByName:
		class = c.Layout + "/multi-image/by-name"
	case c.Images > 1:
		class = c.Layout + "/multi-image/default-first"
	case c.NoTags:
		class = c.Layout + "/no-repotags"
	}
	run.Count("docker_imports/"+class, 1)
	run.Count("docker_imports_order/"+c.Order, 1)
	if len(problems) == 0 {
		if c.BigLayer {
			run.Count("docker_imports_verified_with_multi_mib_layer", 1)
		}
		run.Count("docker_imports_verified", 1)
		run.Count("docker_verified_layout/"+c.Layout, 1)
		run.Count("docker_verified_layers/"+c.LayerComp, 1)
		run.Count("docker_verified_order/"+c.Order, 1)
		run.Count("docker_layers_compared", nLayers)
		run.Distinct(c.key())
		if c.I < 1 {
			run.Sample(map[string]any{"phase": "docker", "case": c, "archive_members": listing(members)})
		}
		return
	}
	run.Count("docker_imports_failed", 1)
	// attribution: is the member order needed for the failure?
	blamed := c
	if c.Order != "sorted" {
		s := c
		s.Order = "sorted"
		m2, t2, r2, k2, p2, _, ok2 := dockerAttempt(run, s)
		if ok2 && len(p2) > 0 {
			blamed, members, tgtName, res, kind, problems = s, m2, t2, r2, k2, p2
		} else {
			class += "+order:" + c.Order
		}
	}
	extra := map[string]any{"phase": "docker", "case": blamed, "problems": problems, "archive_members": listing(members),
		"manifest_json": string(findMember(members, "manifest.json")), "target": tgtName,
		"reproduce": "buildDocker(case) in harness/c09/dockertar.go is deterministic in case.Seed; ImageImport(target:loaded" + map[bool]string{true: ", ImageWithImportName(RepoTags[0] of image Pick)", false: ""}[c.ByName] + ")"}
	if res.Panic != "" {
		extra["panic"] = res.Panic
	}
	if res.Err != nil {
		extra["err"] = errClass(res.Err)
	}
	run.Violation("docker/"+kind+"/"+class, fmt.Sprintf("%s [%s]", strings.Join(problems, "; "), blamed.key()), extra)
}

func findMember(es []entry, name string) []byte {
	for _, e := range es {
		if cleanName(e.Name) == name {
			return e.Body
		}
	}
	return nil
}

// compareDocker: the image at the target tag has the archive's config bytes and, layer by layer in
// manifest.json order, the archive's layer tars once decompressed.
func compareDocker(run *runT, tgt copyeng.Endpoint, tag string, want dkImage) []string {
	var probs []string
	d, ok := tgt.Tag(tag)
	if !ok {
		return []string{"target tag " + tag + " does not exist after the import"}
	}
	st := tgt.Store()
	mb, mt, ok := st.Manifest(d)
	if !ok {
		return []string{"target tag resolves to " + d + " which is not stored"}
	}
	m, err := la.Parse(mb, mt)
	if err != nil || m.Kind != "image" || m.Config == nil {
		return append(probs, fmt.Sprintf("imported manifest is not an image manifest (%v): %s", err, string(mb)))
	}
	cb, ok := st.Blob(m.Config.Digest)
	if !ok {
		probs = append(probs, "config blob "+m.Config.Digest+" is missing at the target")
	} else if !bytes.Equal(cb, want.Config) {
		probs = append(probs, fmt.Sprintf("config of the imported image (%s, %d bytes) is not the archive's config (%d bytes)", m.Config.Digest, len(cb), len(want.Config)))
	}
	run.Count("monitor_docker_configs_compared", 1)
	if len(m.Layers) != len(want.Layers) {
		return append(probs, fmt.Sprintf("imported image has %d layers, the archive lists %d", len(m.Layers), len(want.Layers)))
	}
	for i, l := range m.Layers {
		lb, ok := st.Blob(l.Digest)
		if !ok {
			probs = append(probs, fmt.Sprintf("layer %d blob %q is missing at the target", i, l.Digest))
			continue
		}
		if l.Size != int64(len(lb)) {
			run.Count("docker_layer_descriptor_size_differs_from_blob", 1) // not a clause of the statement
		}
		un, err := uncompressLayer(l.MediaType, lb)
		if err != nil {
			probs = append(probs, fmt.Sprintf("layer %d blob %s (%s) does not decompress: %v", i, l.Digest, l.MediaType, err))
			continue
		}
		run.Count("monitor_docker_layers_compared", 1)
		if !bytes.Equal(un, want.Layers[i]) {
			probs = append(probs, fmt.Sprintf("layer %d of the imported image (uncompressed sha256:%s) is not layer %d of the archive (sha256:%s)", i, sha(un), i, sha(want.Layers[i])))
		}
	}
	if len(probs) > 0 {
		ms := string(mb)
		if len(ms) > 900 {
			ms = ms[:900] + "..."
		}
		probs = append(probs, "imported manifest: "+ms)
	}
	return probs
}
