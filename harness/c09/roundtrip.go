package main

// Phase A: export with the code under test, audit the archive, import it elsewhere, compare.

import (
	"fmt"
	"math/rand"
	"strings"

	"github.com/regclient/regclient"
	"github.com/regclient/regclient/types/ref"

	"verif/copyeng"
	"verif/gen"
)

type rtCase struct {
	I        int
	Seed     int64
	Alg      string
	Shape    gen.Shape
	Src, Tgt string // reg | dir
	Compress bool
	Override bool   // ImageWithExportRef names the image differently
	ByDigest bool   // the source reference carries the digest instead of the tag
	Pinned   bool   // the source reference (and an overriding export reference) carries the tag and the digest
	Strict   bool   // registry targets refuse manifests whose references are missing
	Pre      string // empty | partial: the target already holds some blobs / complete sub-images of the graph | stale-tag: the import's tag already names another complete image
}

func (c rtCase) key() string {
	return fmt.Sprintf("%s|%s|%s>%s|gz=%t|ovr=%t|dig=%t|strict=%t|pre=%s|big=%t|pin=%t", c.Shape.Key(), c.Alg, c.Src, c.Tgt, c.Compress, c.Override, c.ByDigest, c.Strict, c.Pre, c.Shape.MaxBlob > 100000, c.Pinned)
}

// exportShape draws a graph shape for export / import: own content only (no referrers, no
// digest tags, no foreign layers — what "complete" means for those is an option of copy, not of export).
func exportShape(rng *rand.Rand) gen.Shape {
	s := gen.RandomShape(rng)
	s.Referrers, s.RefOfRef, s.ChildRefs, s.DigestTags, s.ChildDTags, s.Foreign = 0, false, 0, 0, 0, false
	if s.Kind == "schema1" && rng.Intn(4) != 0 {
		s.Kind, s.Family = "image", "docker" // the exporter refuses schema1 (counted); keep only a few
	}
	return s
}

func randomRT(rng *rand.Rand, i int) rtCase {
	c := rtCase{I: i, Seed: rng.Int63(), Alg: "sha256", Shape: exportShape(rng),
		Src: []string{"reg", "reg", "dir"}[rng.Intn(3)], Tgt: []string{"reg", "reg", "dir"}[rng.Intn(3)],
		Compress: rng.Intn(2) == 0, Override: rng.Intn(4) == 0, ByDigest: rng.Intn(6) == 0, Strict: rng.Intn(2) == 0}
	if rng.Intn(8) == 0 {
		c.Alg = "sha512"
	}
	c.Pre = []string{"empty", "empty", "empty", "partial", "stale-tag"}[rng.Intn(5)]
	c.Pinned = !c.ByDigest && rng.Intn(5) == 0
	if rng.Intn(25) == 0 {
		c.Shape.MaxBlob = 300000 + rng.Intn(900000) // a few large blobs: multi-block tar members, larger uploads
		c.Shape.Platforms = 1 + c.Shape.Platforms%2
	}
	// regression core: the classes the statement names explicitly come first
	switch i {
	case 0:
		c.Shape.Kind, c.Shape.Family, c.Src, c.Tgt, c.ByDigest, c.Override = "image", "oci", "reg", "reg", false, false
	case 1:
		c.Shape.Kind, c.Shape.Family, c.Shape.BlobEntry, c.Src, c.Tgt, c.ByDigest = "index", "oci", false, "reg", "dir", false
	case 2:
		c.Shape.Kind, c.Src, c.Tgt, c.ByDigest = "artifact", "dir", "reg", false
	case 3:
		c.Shape.Kind, c.Shape.Family, c.Shape.BlobEntry, c.Shape.Share, c.ByDigest = "nested", "oci", false, true, false
	case 4:
		c.Shape.Kind, c.Shape.Family, c.Shape.BlobEntry, c.ByDigest = "index", "oci", true, false
	case 5:
		c.Shape.Kind, c.Shape.Family, c.Override, c.ByDigest, c.Compress = "image", "docker", true, false, true
	case 6:
		c.Shape.Kind, c.Shape.Family, c.Src, c.Tgt, c.ByDigest, c.Override, c.Pinned = "image", "oci", "reg", "reg", false, false, true
	case 7:
		c.Shape.Kind, c.Shape.Family, c.Src, c.Tgt, c.ByDigest, c.Override, c.Pinned = "image", "oci", "reg", "dir", false, true, true
	}
	if c.Override {
		c.ByDigest = false
	}
	return c
}

func exportOpts(compress bool) []regclient.ImageOpts {
	if compress {
		return []regclient.ImageOpts{regclient.ImageWithExportCompress()}
	}
	return nil
}

// graphClass names the feature of the graph an import / export failure is attributed to.
func graphClass(g *gen.Graph, top int) string {
	t := g.Nodes[top]
	for _, id := range g.Closure(top) {
		n := g.Nodes[id]
		if n.Kind == "index" {
			for _, c := range n.Refs {
				if !g.Nodes[c].IsManifest() {
					return "index-with-blob-typed-entry"
				}
			}
		}
	}
	switch t.Kind {
	case "index":
		for _, c := range t.Refs {
			if g.Nodes[c].Kind == "index" {
				return "nested-index"
			}
		}
		for _, c := range t.Refs {
			if g.Nodes[c].Kind == "artifact" {
				return "index-with-artifacts"
			}
		}
		return "index"
	}
	return t.Kind
}

func runRoundTrip(run *runT, c rtCase) {
	run.Eval(1)
	rng := rand.New(rand.NewSource(c.Seed))
	g := gen.Random(rng, c.Alg, c.Shape, "v1")
	top := g.Nodes[g.Top]
	w := newWorld(c.Strict)
	defer w.close()
	src := w.endpoint(c.Src, "src")
	tgt := w.endpoint(c.Tgt, "tgt")
	if err := copyeng.Populate(src, g); err != nil {
		run.Inconclusive(fmt.Sprintf("harness: cannot populate source of round trip %d: %v", c.I, err))
		return
	}
	preHeld := 0
	if c.Pre == "partial" {
		sel := map[int]bool{}
		for _, id := range g.Closure(g.Top) {
			n := g.Nodes[id]
			switch {
			case !n.IsManifest() && rng.Intn(2) == 0:
				sel[id] = true
			case n.IsManifest() && id != g.Top && rng.Intn(3) == 0:
				for _, cid := range g.Closure(id) {
					sel[cid] = true
				}
			}
		}
		preHeld = len(sel)
		if err := copyeng.PrePopulate(tgt, g, func(n *gen.Node) bool { return sel[n.ID] }, nil); err != nil {
			run.Inconclusive(fmt.Sprintf("harness: cannot pre-populate target of round trip %d: %v", c.I, err))
			return
		}
	}
	if c.Pre == "stale-tag" {
		// the tag the import will write already names another, complete, multi-platform image
		g2 := gen.Random(rand.New(rand.NewSource(c.Seed^0x5eed)), c.Alg, gen.Shape{Family: "oci", Kind: "index", Platforms: 2, Layers: 1, MaxBlob: 200}, "old")
		if err := copyeng.PrePopulate(tgt, g2, nil, map[string]int{"imp": g2.Top}); err != nil {
			run.Inconclusive(fmt.Sprintf("harness: cannot pre-populate target of round trip %d: %v", c.I, err))
			return
		}
		run.Count("imports_over_a_tag_that_named_another_image", 1)
	}
	rc := w.client()
	srcRef := src.Ref("v1")
	wantTag := "v1"
	if c.ByDigest {
		srcRef = src.Ref(top.Digest)
		wantTag = ""
	}
	if c.Pinned {
		// name:tag@digest - what a platform-resolving caller builds; the archive is still named by the tag
		srcRef = srcRef.AddDigest(top.Digest)
		run.Count("exports_by_pinned_reference", 1)
	}
	var opts []regclient.ImageOpts
	if c.Compress {
		opts = append(opts, regclient.ImageWithExportCompress())
	}
	if c.Override {
		or, err := ref.New("registry.example.org/team/app:rel-" + fmt.Sprint(c.I%7))
		if err != nil {
			run.Inconclusive("harness: override reference does not parse: " + err.Error())
			return
		}
		wantTag = or.Tag
		if c.Pinned {
			or = or.AddDigest(top.Digest)
		}
		opts = append(opts, regclient.ImageWithExportRef(or))
	}
	cls := graphClass(g, g.Top)
	wit := func(extra map[string]any) map[string]any {
		m := map[string]any{"phase": "roundtrip", "case": c, "graph": describeGraph(g), "top": top.Digest, "source": src.String(), "target": tgt.String(),
			"source_ref": srcRef.CommonName(), "graph_class": cls,
			"reproduce": "gen.Random(rand.New(rand.NewSource(case.Seed)), case.Alg, case.Shape, \"v1\") populated raw into the source; ImageExport(source_ref, opts per case) then ImageImport(target:imp)"}
		for k, v := range extra {
			m[k] = v
		}
		return m
	}
	archive, res := doExport(rc, srcRef, opts...)
	closeRef(rc, srcRef)
	switch {
	case res.Hung:
		run.Inconclusive(fmt.Sprintf("export of round trip %d did not return within the watchdog [%s]", c.I, c.key()))
		return
	case res.Panic != "":
		run.Violation("roundtrip/export-panic/"+cls, "ImageExport panicked: "+firstLine(res.Panic), wit(map[string]any{"panic": res.Panic}))
		return
	case res.Err != nil:
		if top.Kind == "schema1" {
			// Docker schema1 has no config descriptor: the exporter does not support it
			run.Count("exports_refused_schema1", 1)
			return
		}
		run.Count("exports_failed", 1)
		run.Violation("roundtrip/export-failed/"+cls+"/"+c.Src, fmt.Sprintf("ImageExport of a complete %s from a fault-free %s failed: %v [%s]", cls, c.Src, res.Err, c.key()), wit(map[string]any{"err": errClass(res.Err)}))
		return
	}
	run.Count("exports_succeeded", 1)
	if top.Kind == "schema1" {
		run.Count("exports_of_schema1_succeeded", 1)
	}
	// ---- monitor 1: the archive
	au := auditArchive(run, archive, auditIn{G: g, Top: top, Tag: wantTag, Compress: c.Compress})
	run.Count("archives_audited", 1)
	if au.Compressed {
		run.Count("archives_gzip", 1)
	} else {
		run.Count("archives_plain", 1)
	}
	if c.Override {
		run.Count("archives_with_name_override", 1)
	}
	archiveOK := len(au.Problems) == 0
	seenClass := map[string]bool{}
	for _, p := range au.Problems {
		if seenClass[p.Class] {
			continue
		}
		seenClass[p.Class] = true
		var all []string
		for _, q := range au.Problems {
			all = append(all, q.Class+": "+q.Text)
		}
		run.Violation("archive/"+p.Class+"/"+cls, fmt.Sprintf("exported archive is not the well-formed layout of the image: %s [%s]", p.Text, c.key()),
			wit(map[string]any{"problems": all, "archive_members": listing(au.Entries), "index_ref_name": au.RefName, "repo_tags": au.RepoTags}))
	}
	// ---- monitor 2: import elsewhere
	tgtRef := tgt.Ref("imp")
	ires := doImport(rc, tgtRef, archive)
	out := evaluateImport(run, ires, rc, tgt, tgtRef, g, g.Top, "imp")
	if !out.OK && !out.Hung && !archiveOK && out.Kind == "import-rejected" {
		// the archive itself was already reported; a rejected bad archive is not a second finding
		run.Count("imports_failed_on_archives_already_reported", 1)
	} else {
		out.report(run, "roundtrip", cls, c.key(), func(extra map[string]any) map[string]any {
			extra["archive_members"] = listing(au.Entries)
			return wit(extra)
		})
	}
	if out.OK && preHeld > 0 {
		run.Count("imports_verified_into_partially_filled_target", 1)
	}
	if archiveOK && out.OK {
		if len(g.Closure(g.Top)) >= 2 {
			run.Distinct("rt|" + c.key())
		}
		run.SetAdd("roundtrip_graph_classes", cls+"/"+c.Alg)
	}
	if c.I < 2 {
		run.Sample(map[string]any{"phase": "roundtrip", "case": c, "graph_class": cls, "archive_members": len(au.Entries), "archive_bytes": len(archive),
			"index_ref_name": au.RefName, "repo_tags": au.RepoTags, "import_error": errClass(ires.Err)})
	}
}

// outcome of one import as judged on the target's raw storage.
type outcome struct {
	OK    bool
	Hung  bool
	Kind  string // import-panic import-rejected import-differs/<what> import-lost-on-close
	Text  string
	Extra map[string]any
}

// evaluateImport applies the import clauses to a finished ImageImport call. tag == "" when the
// image was imported by digest only.
func evaluateImport(run *runT, res callResult, rc *regclient.RegClient, tgt copyeng.Endpoint, tgtRef ref.Ref, g *gen.Graph, top int, tag string) outcome {
	defer closeRef(rc, tgtRef)
	switch {
	case res.Hung:
		return outcome{Hung: true, Kind: "hung", Text: "import did not return within the watchdog"}
	case res.Panic != "":
		return outcome{Kind: "import-panic", Text: "ImageImport panicked: " + firstLine(res.Panic), Extra: map[string]any{"panic": res.Panic}}
	case res.Err != nil:
		run.Count("imports_failed", 1)
		return outcome{Kind: "import-rejected", Text: fmt.Sprintf("a valid archive was rejected by ImageImport: %v", res.Err), Extra: map[string]any{"err": errClass(res.Err)}}
	}
	run.Count("imports_succeeded", 1)
	diff, objs := verifyTarget(tgt, g, top, tag)
	run.Count("monitor_target_objects_compared", objs)
	if len(diff) > 0 {
		kind := "missing"
		if strings.Contains(diff[0], "tag") {
			kind = "tag"
		} else if strings.Contains(diff[0], "differ") {
			kind = "bytes"
		}
		return outcome{Kind: "import-differs/" + kind, Text: "ImageImport returned nil but the target is not the source image: " + strings.Join(diff, "; "), Extra: map[string]any{"differences": diff}}
	}
	run.Count("imports_verified", 1)
	if tgt.IsDir() {
		run.Count("imports_verified_layout_target", 1)
		// regctl closes the reference afterwards (garbage collection of the layout): the image must survive it
		closeRef(rc, tgtRef)
		if diff, _ := verifyTarget(tgt, g, top, tag); len(diff) > 0 {
			return outcome{Kind: "import-lost-on-close", Text: "the imported image was complete, closing the layout reference damaged it: " + strings.Join(diff, "; "), Extra: map[string]any{"differences": diff}}
		}
	} else {
		run.Count("imports_verified_registry_target", 1)
	}
	return outcome{OK: true}
}

// report turns a failed outcome into a violation (or an inconclusive note for a watchdog).
func (o outcome) report(run *runT, fpPrefix, class, key string, wit func(map[string]any) map[string]any) {
	if o.OK {
		return
	}
	if o.Hung {
		run.Inconclusive(fmt.Sprintf("%s: %s [%s]", fpPrefix, o.Text, key))
		return
	}
	extra := map[string]any{}
	for k, v := range o.Extra {
		extra[k] = v
	}
	run.Violation(fpPrefix+"/"+o.Kind+"/"+class, fmt.Sprintf("%s [%s]", o.Text, key), wit(extra))
}

func firstLine(s string) string {
	if i := strings.IndexByte(s, '\n'); i >= 0 {
		return s[:i]
	}
	return s
}
