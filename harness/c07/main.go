// C07 — an OCI layout survives a crash at any point of any write.
//
// Monitor: a one-operation driver process (verif/harness/driver, regclient's public API on the
// ocidir scheme) is run under strace. A tracing run lists the file-system mutating system calls
// that touch the layout directory and yields the intended final state; then, for every such call,
// the start state is restored from a template and the driver is run again with
// `-e inject=<syscall>:signal=SIGKILL:when=<n>`: strace kills the process at the ENTRY of exactly
// that call (it is not executed, everything before it is). Every killed directory is a state the
// kernel really produced. It is audited with layoutaudit (independent reader) and by a fresh
// driver process in read mode, then the same operation is repeated on it.
//
// Rules (DESIGN section 3, C07): A1 marker + index valid (from the moment index.json first exists);
// A2 digest-named files have their digest; A3 non-target tags unchanged and complete; A4 every tag
// present complete; A5 a fresh client reads everything; A6 a run that reported success left the
// intended state; A7 repeating the operation yields the intended state.
package main

import (
	"context"
	"encoding/json"
	"fmt"
	"io"
	"os"
	"os/exec"
	"path/filepath"
	"regexp"
	"sort"
	"strings"
	"sync"
	"syscall"
	"time"

	"verif/ev"
	"verif/modelreg"
)

var (
	run     *ev.Run
	drv     string
	work    string
	sem     chan struct{}
	thor    bool
	noteMu  sync.Mutex
	noteCnt int
)

// replay mode: only this position (and second crash) of the matching case is executed
var (
	onlyPos    *position
	onlySecond *position
)

var reDigest = regexp.MustCompile(`sha(256|512):[0-9a-f]{64,128}`)

func note(format string, a ...any) {
	noteMu.Lock()
	defer noteMu.Unlock()
	noteCnt++
	if noteCnt <= 40 {
		fmt.Printf("note: "+format+"\n", a...)
	}
}

func main() {
	run = ev.Start("C07", "fault_enumeration")
	thor = ev.Tier() == "thorough"
	run.Rule("per round (quick 3, thorough 24; content, blob sizes, manifest rendering, variants and copied image shapes drawn from VERIF_SEED): operations {blob put; manifest put tagged (new tag / over an existing tag), by digest, by digest as child; " +
		"referrer-bearing manifest put (subject with / without earlier referrers); tag delete; manifest delete (tagged image / referrer); modification + Close (GC); ImageCopy into the layout from another layout and from a model registry " +
		"(GOMAXPROCS 1 and 4, with / without referrers); tar import} x start states {empty directory; marker + blobs only; populated layout: two tagged images sharing layers, an index, a referrer with its fallback tag; thorough: the populated layout as an interrupted foreign writer leaves it}. " +
		"Single-goroutine operations: one killed run per file-system mutating call that touches the layout (kill at its entry), plus a kill before and after the success report. Multi-goroutine operations: for every traced system call name, " +
		"kill at the n-th call of a thread for n spread over 1..max (per-thread counters; any kill point is a legitimate crash point). Thorough: a second crash during the repeat of the operation. " +
		"non-trivial = the process was really killed after at least one mutation of the layout; distinct = (operation, variant, start state, last mutation executed, call about to run)")
	run.Assume("SIGKILL at a system-call boundary with an intact kernel: process death, not power loss (no fsync reasoning); a single write() is not torn",
		"the start states are written and all states are judged by the harness' own code (layoutaudit); only rule A5 (readable by a fresh client) goes through regclient, as the statement demands",
		"before index.json first exists there is no layout to keep valid: only A2 and A7 apply (empty-directory carve-out of the design)",
		"closure completeness is relative: a part that is also missing in the start state or after the uninterrupted operation (manifest put into a directory that never had the blobs) is not charged to the crash",
		"A7 judges the state after the repeat, not the repeat's return value (repeating a delete that already took effect legitimately reports not-found); extra unreferenced objects and temp files are allowed unless the repeat completed a collection",
		"internal/conffile is anchored by the property but is not used for layout directories (it writes the CLI configuration file); it is outside this check")
	bin := os.Getenv("VERIF_BIN")
	drv = filepath.Join(bin, "driver")
	if bin == "" || !exists(drv) {
		run.Inconclusive("VERIF_BIN / driver binary missing (NEEDS lists driver)")
		os.Exit(run.Finish())
	}
	var err error
	work, err = os.MkdirTemp(bin, "c07-")
	if err != nil {
		run.Inconclusive("cannot create scratch directory: " + err.Error())
		os.Exit(run.Finish())
	}
	defer os.RemoveAll(work)
	sem = make(chan struct{}, 16)
	if why := preflight(); why != "" {
		run.Inconclusive("system-call kill injection is not available here: " + why)
		_ = os.RemoveAll(work)
		os.Exit(run.Finish())
	}
	mw := modelreg.NewWorld()
	if rp := os.Getenv("VERIF_REPLAY"); rp != "" {
		replay(rp, mw)
		mw.Close()
		code := run.Finish()
		_ = os.RemoveAll(work)
		os.Exit(code)
	}
	rounds := ev.Scale(3, 24)
	for r := 0; r < rounds; r++ {
		w, err := newWorld(work, r, mw)
		if err != nil {
			run.Inconclusive("cannot build the start states: " + err.Error())
			break
		}
		var cases []*opCase
		for _, st := range sortedKeys(w.templates) {
			cases = append(cases, w.cases(st)...)
		}
		// what a fresh client reports on the start states (A5 is relative to it)
		for st, d := range w.templates {
			if w.startSnap[st].HasIndex {
				w.startAudit[st], _ = auditRead(d)
			}
		}
		var wg sync.WaitGroup
		for i, c := range cases {
			c.dir = filepath.Join(w.dir, fmt.Sprintf("c%02d", i))
			wg.Add(1)
			go func(c *opCase) {
				defer wg.Done()
				runCase(c)
			}(c)
		}
		wg.Wait()
		_ = os.RemoveAll(w.dir)
	}
	mw.Close()
	// non-vacuity: every clause claimed must have been observed
	need := map[string]int64{"killed_runs": 100, "a1_states_checked": 50, "a2_files_hashed": 100, "a3_tags_checked": 50, "a4_tags_checked": 50,
		"a5_fresh_client_audits": 50, "a6_success_reported_states_checked": 10, "a7_repeats_checked": 100, "carve_out_states": 1}
	for k, n := range need {
		if run.Get(k) < n {
			run.Inconclusive(fmt.Sprintf("%s = %d, expected at least %d", k, run.Get(k), n))
		}
	}
	// kill points by role (not by the current implementation's exact call sequence): a run must have been
	// killed at the entry of a mutation of the marker, of the index, of blob data, of a call that makes an
	// object / the index visible, of a removal, of a directory creation, and of the success report
	groups := map[string]func(string) bool{
		"a mutation of oci-layout":                  func(c string) bool { return strings.Contains(c, "oci-layout") && !strings.Contains(c, ",read)") },
		"a mutation of index.json or its temp file": func(c string) bool { return strings.Contains(c, "index.json") && !strings.Contains(c, ",read)") },
		"a data write into a blob or manifest file": func(c string) bool {
			return strings.HasPrefix(c, "write") && (strings.Contains(c, "blob") || strings.Contains(c, "manifest"))
		},
		"a call that makes an object visible under its digest": func(c string) bool {
			return strings.HasSuffix(c, "->blob)") || strings.HasSuffix(c, "->manifest)") || strings.HasPrefix(c, "openat(blob,O_CREAT") || strings.HasPrefix(c, "openat(manifest,O_CREAT")
		},
		"a removal":            func(c string) bool { return strings.HasPrefix(c, "unlink") || strings.HasPrefix(c, "rmdir") },
		"a directory creation": func(c string) bool { return strings.HasPrefix(c, "mkdir") },
		"the success report":   func(c string) bool { return c == "write(stdout)" },
	}
	seenGroup := map[string]bool{}
	for _, cls := range killedClasses() {
		for g, fn := range groups {
			if fn(cls) {
				seenGroup[g] = true
			}
		}
	}
	for g := range groups {
		if !seenGroup[g] {
			run.Inconclusive("no run was killed at the entry of " + g)
		}
	}
	for _, op := range []string{"blob-put", "manifest-put-tagged", "manifest-put-untagged", "manifest-put-child", "referrer-put", "tag-delete", "manifest-delete", "gc", "copy-from-layout", "copy-from-registry", "tar-import"} {
		if run.Get("killed_runs_of/"+op) == 0 {
			run.Inconclusive("no killed run of operation " + op)
		}
	}
	code := run.Finish()
	_ = os.RemoveAll(work)
	os.Exit(code)
}

var (
	killedMu  sync.Mutex
	killedSet = map[string]bool{}
)

func killedAt(cls string) {
	killedMu.Lock()
	killedSet[cls] = true
	killedMu.Unlock()
}

func killedClasses() []string {
	killedMu.Lock()
	defer killedMu.Unlock()
	var out []string
	for c := range killedSet {
		out = append(out, c)
	}
	sort.Strings(out)
	return out
}

// replay re-executes the single recorded case of a witness file: same seed and tier, same round,
// operation, variant, start state and kill position(s).
func replay(path string, mw *modelreg.World) {
	b, err := os.ReadFile(path)
	if err != nil {
		run.Inconclusive("cannot read replay file: " + err.Error())
		return
	}
	var f struct {
		Seed    int64  `json:"seed"`
		Tier    string `json:"tier"`
		Witness struct {
			Op      string    `json:"operation"`
			Variant string    `json:"variant"`
			State   string    `json:"start_state"`
			Round   int       `json:"round"`
			Procs   int       `json:"gomaxprocs"`
			Pos     *position `json:"position"`
		} `json:"witness"`
	}
	if err := json.Unmarshal(b, &f); err != nil {
		run.Inconclusive("cannot parse replay file: " + err.Error())
		return
	}
	if f.Seed != ev.Seed() || f.Tier != ev.Tier() {
		run.Inconclusive(fmt.Sprintf("replay needs the recorded seed and tier: VERIF_SEED=%d ./check C07 --tier %s --replay %s", f.Seed, f.Tier, path))
		return
	}
	w, err := newWorld(work, f.Witness.Round, mw)
	if err != nil {
		run.Inconclusive("cannot build the start states: " + err.Error())
		return
	}
	if f.Witness.Pos != nil {
		onlyPos = f.Witness.Pos
		if onlyPos.First != nil {
			onlySecond = &position{Name: onlyPos.Name, Nth: onlyPos.Nth, Kind: "second-crash"}
			onlyPos = onlyPos.First
			onlyPos.Kind = "mutation"
		}
	} else {
		onlyPos = &position{Name: "write", Nth: 1 << 30, Kind: "none"} // a no-crash witness: the tracing run alone decides
	}
	for st, d := range w.templates {
		if w.startSnap[st].HasIndex {
			w.startAudit[st], _ = auditRead(d)
		}
	}
	for i, c := range w.cases(f.Witness.State) {
		if c.Op == f.Witness.Op && c.Variant == f.Witness.Variant && c.Procs == f.Witness.Procs {
			c.dir = filepath.Join(w.dir, fmt.Sprintf("c%02d", i))
			fmt.Printf("replaying %s (%s) from state %s, kill at %s #%d\n", c.Op, c.Variant, c.State, onlyPos.Name, onlyPos.Nth)
			runCase(c)
			return
		}
	}
	run.Inconclusive("the recorded case was not regenerated (other seed / tier?)")
}

func sortedKeys(m map[string]string) []string {
	var ks []string
	for k := range m {
		ks = append(ks, k)
	}
	sort.Strings(ks)
	return ks
}

// ---------------------------------------------------------------------------------
// child processes

type childResult struct {
	Out      string
	Exit     int
	TimedOut bool
	Signaled bool
}

func (r childResult) done() bool { return strings.Contains(r.Out, "DONE\n") }

// runChild runs argv with a watchdog; stdout+stderr are collected. Only the process group it
// started itself is ever signalled.
func runChild(argv []string, cwd string) childResult {
	ctx, cancel := context.WithTimeout(context.Background(), 180*time.Second)
	defer cancel()
	cmd := exec.Command(argv[0], argv[1:]...)
	cmd.Dir = cwd
	none := filepath.Join(work, "no-such-home")
	cmd.Env = []string{"PATH=/usr/local/bin:/usr/bin:/bin", "HOME=" + none, "DOCKER_CONFIG=" + filepath.Join(none, "docker"), "REGCTL_CONFIG=" + filepath.Join(none, "regctl.json"), "TMPDIR=" + work}
	cmd.SysProcAttr = &syscall.SysProcAttr{Setpgid: true}
	outF, err := os.CreateTemp(work, "out-")
	if err != nil {
		return childResult{Exit: -1, Out: err.Error()}
	}
	defer os.Remove(outF.Name())
	defer outF.Close()
	cmd.Stdout, cmd.Stderr = outF, outF
	if err := cmd.Start(); err != nil {
		return childResult{Exit: -1, Out: err.Error()}
	}
	doneCh := make(chan error, 1)
	go func() { doneCh <- cmd.Wait() }()
	var res childResult
	select {
	case err = <-doneCh:
	case <-ctx.Done():
		res.TimedOut = true
		_ = syscall.Kill(-cmd.Process.Pid, syscall.SIGKILL)
		err = <-doneCh
	}
	if err != nil {
		res.Exit = 1
		if ee, ok := err.(*exec.ExitError); ok {
			res.Exit = ee.ExitCode()
			if ws, ok := ee.Sys().(syscall.WaitStatus); ok && ws.Signaled() {
				res.Signaled = true
			}
		}
	}
	_, _ = outF.Seek(0, io.SeekStart)
	b, _ := io.ReadAll(io.LimitReader(outF, 1<<20))
	res.Out = string(b)
	return res
}

func straceArgv(log, inject string, driverArgv []string) []string {
	a := []string{"strace", "-f", "-y", "-s", "8", "-o", log, "-e", "trace=" + traceSet, "-e", "signal=SIGKILL"}
	if inject != "" {
		a = append(a, "-e", "inject="+inject)
	}
	return append(a, driverArgv...)
}

func (c *opCase) driverArgv(layout string) []string {
	return append([]string{drv, c.DrvOp, layout}, c.Args...)
}

// auditRead runs the driver in read mode on a directory (rule A5) and returns its PROBLEM lines.
func auditRead(dir string) (problems []string, res childResult) {
	res = runChild([]string{drv, "audit", dir}, work)
	for _, l := range strings.Split(res.Out, "\n") {
		if strings.HasPrefix(l, "PROBLEM ") {
			problems = append(problems, l)
		}
	}
	return problems, res
}

func copyTree(src, dst string) error {
	return filepath.Walk(src, func(p string, fi os.FileInfo, err error) error {
		if err != nil {
			return err
		}
		rel, _ := filepath.Rel(src, p)
		t := filepath.Join(dst, rel)
		if fi.IsDir() {
			return os.MkdirAll(t, 0o755)
		}
		b, err := os.ReadFile(p)
		if err != nil {
			return err
		}
		return os.WriteFile(t, b, fi.Mode().Perm())
	})
}

// preflight verifies that strace can trace and kill a driver at a chosen system call.
func preflight() string {
	if _, err := exec.LookPath("strace"); err != nil {
		return "strace not found"
	}
	d := filepath.Join(work, "preflight")
	lay := filepath.Join(d, "layout")
	if err := os.MkdirAll(lay, 0o755); err != nil {
		return err.Error()
	}
	defer os.RemoveAll(d)
	blob := filepath.Join(d, "blob")
	_ = os.WriteFile(blob, []byte("preflight blob"), 0o644)
	argv := []string{drv, "blob-put", lay, "file=" + blob}
	res := runChild(straceArgv(filepath.Join(d, "log0"), "", argv), d)
	lg := parseStrace(filepath.Join(d, "log0"), lay, nil)
	if !res.done() || lg.Lines == 0 {
		return "tracing run failed: exit " + fmt.Sprint(res.Exit) + " " + clip(res.Out, 300)
	}
	var ren *sysCall
	for _, c := range lg.Calls {
		if c.Name == "renameat" && c.In && c.OK {
			ren = c
		}
	}
	if ren == nil || ren.Tid != lg.Main {
		return "tracing run shows no rename on the initial thread"
	}
	lay2 := filepath.Join(d, "layout2")
	_ = os.MkdirAll(lay2, 0o755)
	argv[2] = lay2
	res = runChild(straceArgv(filepath.Join(d, "log1"), fmt.Sprintf("renameat:signal=SIGKILL:when=%d", ren.Nth), argv), d)
	lg = parseStrace(filepath.Join(d, "log1"), lay2, nil)
	s := takeSnap(lay2)
	if res.done() || !lg.Killed || lg.victim("renameat", ren.Nth) == nil || s.NFiles != 0 {
		return fmt.Sprintf("injected SIGKILL did not stop the driver at the chosen call (reported success %v, kill logged %v, victim found %v, digest files %d, log lines %d): %s", res.done(), lg.Killed, lg.victim("renameat", ren.Nth) != nil, s.NFiles, lg.Lines, clip(res.Out, 300))
	}
	return ""
}

func clip(s string, n int) string {
	if len(s) > n {
		return s[:n] + "..."
	}
	return s
}

// ---------------------------------------------------------------------------------
// one (operation, start state) case

type position struct {
	Name  string    `json:"syscall"`
	Nth   int       `json:"nth_of_thread"`
	Kind  string    `json:"kind"` // mutation | before-success-report | after-success-report | sweep
	Class string    `json:"expected_call,omitempty"`
	Tail  []string  `json:"strace_log_tail,omitempty"` // filled in for the killed run
	First *position `json:"first_crash,omitempty"`     // set when this is the second crash of a run
}

func (c *opCase) restore(layout string) error {
	return copyTree(c.W.templates[c.State], layout)
}

func runCase(c *opCase) {
	defer func() {
		if p := recover(); p != nil {
			run.Inconclusive(fmt.Sprintf("harness panic in case %s: %v", c.name(), p))
		}
	}()
	w := c.W
	s := w.startSnap[c.State]
	// 1. tracing run
	tdir := filepath.Join(c.dir, "trace")
	layout := filepath.Join(tdir, "layout")
	if err := c.restore(layout); err != nil {
		run.Inconclusive("cannot restore the start state: " + err.Error())
		return
	}
	sem <- struct{}{}
	res := runChild(straceArgv(filepath.Join(tdir, "log"), "", c.driverArgv(layout)), tdir)
	<-sem
	run.Eval(1)
	run.Count("tracing_runs", 1)
	if res.TimedOut {
		run.Inconclusive("watchdog: tracing run of " + c.name() + " did not finish")
		return
	}
	if strings.Contains(res.Out, "PANIC ") {
		run.Violation("panic/"+c.name(), "the operation panicked: "+clip(res.Out, 400), c.witness(nil, nil, map[string]any{"output": res.Out}))
		return
	}
	if !res.done() {
		run.Inconclusive(fmt.Sprintf("the uninterrupted run of %s (%s) failed, the case is not usable: %s", c.name(), c.Variant, clip(res.Out, 300)))
		return
	}
	lg := parseStrace(filepath.Join(tdir, "log"), layout, w.kindOf)
	raw := takeSnap(layout)
	// parts that are missing after the uninterrupted run are tolerated in crashed states only if the
	// directory never had them (a manifest put does not bring its blobs); a part that the start
	// state held and the operation removed is charged
	fj := *raw
	fj.Closure = map[string][]string{}
	for t, ps := range raw.Closure {
		for _, q := range ps {
			if d := reDigest.FindString(q); d != "" {
				if _, had := s.Files[d]; !had {
					fj.Closure[t] = append(fj.Closure[t], q)
				}
			}
		}
	}
	f := &fj
	c.finalSnp = f
	var finalAudAll []string
	if f.HasIndex {
		finalAudAll, _ = auditRead(layout)
		for _, l := range finalAudAll {
			if d := reDigest.FindString(l); d != "" && !strings.HasPrefix(c.Op, "copy") && c.Op != "tar-import" {
				if _, had := s.Files[d]; !had && strings.Contains(l, " blob ") {
					c.finalAud = append(c.finalAud, l)
				}
			}
		}
	}
	c.finalAudAll = finalAudAll
	// the uninterrupted run reported success: its state must be the intended one and a valid layout (A6)
	run.Count("a6_success_reported_states_checked", 1)
	if ps := c.Expect(s, f); len(ps) > 0 {
		run.Violation("A6-visible/"+c.name()+"/no-crash", fmt.Sprintf("%s (%s) returned success but its effect is not fully visible: %s", c.Op, c.Variant, strings.Join(ps, "; ")),
			c.witness(nil, nil, map[string]any{"final": f, "problems": ps}))
	}
	c.judge("no-crash", "none", nil, s, f, raw, layout, true, nil, nil)
	// 2. positions
	var muts []*sysCall
	threads := map[int]bool{}
	perThread := map[string]int{} // syscall name -> largest per-thread count
	for _, sc := range lg.Calls {
		if sc.Nth > perThread[sc.Name] {
			perThread[sc.Name] = sc.Nth
		}
		if sc.Mut && sc.In && sc.OK {
			muts = append(muts, sc)
			threads[sc.Tid] = true
		}
	}
	run.Count("layout_mutations_in_tracing_runs", len(muts))
	var pos []position
	single := len(threads) == 1 && threads[lg.Main] && !c.Multi
	if single {
		for _, m := range muts {
			pos = append(pos, position{Name: m.Name, Nth: m.Nth, Kind: "mutation", Class: m.Class})
		}
		var outs []*sysCall
		for _, sc := range lg.Calls {
			if sc.Tid == lg.Main && sc.Where == "stdout" && sc.Name == "write" {
				outs = append(outs, sc)
			}
		}
		if len(outs) == 2 {
			pos = append(pos, position{Name: "write", Nth: outs[0].Nth, Kind: "before-success-report", Class: outs[0].Class},
				position{Name: "write", Nth: outs[1].Nth, Kind: "after-success-report", Class: outs[1].Class})
		} else {
			run.Inconclusive(fmt.Sprintf("%s: expected two writes to stdout in the tracing run, saw %d", c.name(), len(outs)))
		}
	} else {
		if !c.Multi {
			note("%s issued layout mutations from %d threads; positions are swept per thread", c.name(), len(threads))
			run.Count("single_operation_cases_with_several_threads", 1)
		}
		maxPer := ev.Scale(14, 20)
		names := []string{}
		for n := range perThread {
			names = append(names, n)
		}
		sort.Strings(names)
		for _, n := range names {
			max := perThread[n]
			k := max
			if k > maxPer {
				k = maxPer
			}
			seen := map[int]bool{}
			for i := 0; i < k; i++ {
				nth := 1 + i*(max-1)/imax(k-1, 1)
				if k == max {
					nth = i + 1
				}
				if !seen[nth] {
					seen[nth] = true
					pos = append(pos, position{Name: n, Nth: nth, Kind: "sweep"})
				}
			}
		}
	}
	if onlyPos != nil {
		pos = []position{*onlyPos}
	}
	run.Count("positions_enumerated", len(pos))
	if len(muts) == 0 {
		run.Inconclusive(c.name() + ": the tracing run shows no mutation of the layout")
		return
	}
	// 3. killed runs
	rng := ev.Rand(fmt.Sprintf("c07/second/%d/%s/%s", w.round, c.name(), c.Variant))
	var wg sync.WaitGroup
	for i, p := range pos {
		var second *position
		if thor && single && len(muts) > 0 && p.Kind == "mutation" {
			m := muts[rng.Intn(len(muts))]
			second = &position{Name: m.Name, Nth: imax(1, m.Nth-rng.Intn(3)), Kind: "second-crash"}
		}
		if onlyPos != nil {
			second = onlySecond
		}
		wg.Add(1)
		sem <- struct{}{}
		go func(i int, p position, second *position) {
			defer wg.Done()
			defer func() { <-sem }()
			defer func() {
				if r := recover(); r != nil {
					run.Inconclusive(fmt.Sprintf("harness panic in killed run %d of %s: %v", i, c.name(), r))
				}
			}()
			c.killedRun(i, p, second)
		}(i, p, second)
	}
	wg.Wait()
	_ = os.RemoveAll(c.dir)
}

func imax(a, b int) int {
	if a > b {
		return a
	}
	return b
}

func (c *opCase) witness(p *position, v *sysCall, extra map[string]any) map[string]any {
	w := map[string]any{"operation": c.Op, "variant": c.Variant, "start_state": c.State, "round": c.W.round,
		"driver": append([]string{"driver", c.DrvOp, "<layout>"}, c.Args...), "target_tags": c.Targets, "gomaxprocs": c.Procs,
		"start_tags": c.W.startSnap[c.State].Tags,
		"reproduce":  "restore the start state, run `strace -f -y -o log -e trace=<set> -e inject=<syscall>:signal=SIGKILL:when=<nth> driver ...` (see inject), then inspect the directory; or VERIF_SEED=" + fmt.Sprint(ev.Seed()) + " ./check C07"}
	if c.finalSnp != nil {
		w["intended_tags"] = c.finalSnp.Tags
	}
	if p != nil {
		w["inject"] = fmt.Sprintf("%s:signal=SIGKILL:when=%d", p.Name, p.Nth)
		w["position"] = p
	}
	if v != nil {
		w["call_about_to_run"] = v.Name + "(" + clip(v.Args, 300) + ")"
	}
	for k, x := range extra {
		w[k] = x
	}
	return w
}

// judge applies A1..A5 to state x (reached at position label `after`). inherited holds the problems
// (rule|text) that an earlier crash of the same run already left in the directory: they were reported
// under that crash's position and are not charged to this one. It returns the problems of x.
func (c *opCase) judge(after, before string, p *position, s, f, x *snap, layout string, isFinal bool, v *sysCall, inherited map[string]bool) map[string]bool {
	found := map[string]bool{}
	ps, carve := judgeState(s, f, x, c.Targets)
	run.Count("a2_files_hashed", x.NFiles)
	if carve {
		run.Count("carve_out_states", 1)
	} else {
		run.Count("a1_states_checked", 1)
		if x.IndexErr == "" {
			for t := range s.Tags {
				if !c.Targets[t] {
					run.Count("a3_tags_checked", 1)
				}
			}
			run.Count("a4_tags_checked", len(x.Tags))
			run.Count("duplicate_tag_entries_seen", x.DupTags)
		}
	}
	a1 := true
	for _, p := range ps {
		if strings.HasPrefix(p.Rule, "A1") {
			a1 = false
		}
	}
	extra := func() map[string]any {
		return map[string]any{"state": x, "oci-layout": readSmall(filepath.Join(layout, "oci-layout")), "index.json": readSmall(filepath.Join(layout, "index.json")), "files": listing(layout),
			"last_mutation_executed": after, "call_about_to_run_class": before}
	}
	for _, pr := range ps {
		found[pr.Rule+"|"+pr.What] = true
		if inherited[pr.Rule+"|"+pr.What] {
			run.Count("second_crash_problems_inherited_from_first", 1)
			continue
		}
		run.Violation(fmt.Sprintf("%s/%s/after-%s", pr.Rule, c.name(), after),
			fmt.Sprintf("%s (%s) from state '%s', killed after %s at the entry of %s: %s", c.Op, c.Variant, c.State, after, before, pr.What), c.witness(p, v, extra()))
	}
	// A5: a fresh client lists the tags and reads everything
	if !carve && !isFinal || (isFinal && x.HasIndex) {
		var aud []string
		if isFinal {
			aud = c.finalAudAll
		} else {
			var r childResult
			aud, r = auditRead(layout)
			if r.TimedOut {
				run.Inconclusive("watchdog: read audit of " + c.name())
			} else if r.Exit == 2 && strings.Contains(r.Out, "PANIC ") {
				run.Violation(fmt.Sprintf("panic/read/%s/after-%s", c.name(), after), "a fresh client panicked while reading the layout: "+clip(r.Out, 400), c.witness(p, v, extra()))
			} else if !strings.Contains(r.Out, "AUDIT-END") {
				run.Inconclusive("read audit of " + c.name() + " produced no result: " + clip(r.Out, 200))
			}
		}
		run.Count("a5_fresh_client_audits", 1)
		// relative to the start state and to the blobs the directory never had (c.finalAud)
		tolerated := append(append([]string{}, c.W.startAudit[c.State]...), c.finalAud...)
		if m := subset(aud, tolerated); len(m) > 0 {
			key := "A5-read|" + strings.Join(m, "|")
			found[key] = true
			if !a1 {
				run.Count("a5_failures_explained_by_a1", 1)
			} else if inherited[key] {
				run.Count("second_crash_problems_inherited_from_first", 1)
			} else {
				e := extra()
				e["fresh_client_problems"] = m
				run.Violation(fmt.Sprintf("A5-read/%s/after-%s", c.name(), after),
					fmt.Sprintf("%s (%s) from state '%s', killed after %s: a fresh client cannot read the layout: %s", c.Op, c.Variant, c.State, after, clip(strings.Join(m, " | "), 500)), c.witness(p, v, e))
			}
		}
	}
	return found
}

// killedRun restores the start state, runs the driver with a SIGKILL injected at position p and
// audits what is left.
func (c *opCase) killedRun(i int, p position, second *position) {
	w := c.W
	s, f := w.startSnap[c.State], c.finalSnp
	jd := filepath.Join(c.dir, fmt.Sprintf("k%03d", i))
	layout := filepath.Join(jd, "layout")
	defer os.RemoveAll(jd)
	if err := c.restore(layout); err != nil {
		run.Inconclusive("cannot restore the start state: " + err.Error())
		return
	}
	inject := fmt.Sprintf("%s:signal=SIGKILL:when=%d", p.Name, p.Nth)
	res := runChild(straceArgv(filepath.Join(jd, "log"), inject, c.driverArgv(layout)), jd)
	run.Eval(1)
	if res.TimedOut {
		run.Inconclusive(fmt.Sprintf("watchdog: %s with %s did not finish", c.name(), inject))
		return
	}
	lg := parseStrace(filepath.Join(jd, "log"), layout, w.kindOf)
	v := lg.victim(p.Name, p.Nth)
	run.Count("strace_lines_parsed", lg.Lines)
	if lg.Anom > 0 {
		run.Count("strace_parser_anomalies", lg.Anom)
		note("%s %s: %d calls without return value that are not the last of their thread", c.name(), inject, lg.Anom)
		if os.Getenv("C07_KEEP") != "" {
			b, _ := os.ReadFile(filepath.Join(jd, "log"))
			_ = os.WriteFile(filepath.Join(os.Getenv("VERIF_BIN"), fmt.Sprintf("anom-%s-%d.log", c.Op, i)), b, 0o644)
		}
	}
	p.Tail = logTail(filepath.Join(jd, "log"), layout, 14)
	killed := lg.Killed && v != nil && !strings.Contains(res.Out, "EXIT\n")
	x := takeSnap(layout)
	after, before := "nothing", "none"
	if killed {
		run.Count("killed_runs", 1)
		run.Count("killed_runs_of/"+c.Op, 1)
		run.Count("killed_in_state/"+c.State, 1)
		before = v.Class
		run.Count("killed_before/"+v.Class, 1)
		killedAt(v.Class)
		run.SetAdd("distinct_calls_killed_at", v.Class)
		if m := lg.lastMutationBefore(v); m != nil {
			after = m.Class
			run.Distinct(fmt.Sprintf("%s/%s/%s/%s>%s", c.Op, c.Variant, c.State, after, before))
		}
		if p.Kind == "mutation" && v.Class != p.Class {
			run.Count("killed_at_other_call_than_traced", 1)
		}
		if lg.Main != v.Tid {
			run.Count("killed_on_a_secondary_thread", 1)
		}
	} else {
		if strings.Contains(res.Out, "PANIC ") {
			run.Violation("panic/"+c.name(), "the operation panicked: "+clip(res.Out, 400), c.witness(&p, v, map[string]any{"output": res.Out}))
			return
		}
		if !res.done() {
			// neither killed nor successful: the operation failed on its own (e.g. a reset connection of the model registry)
			run.Count("runs_neither_killed_nor_successful", 1)
			note("%s with %s: not killed and not successful: %s", c.name(), inject, clip(res.Out, 200))
			return
		}
		run.Count("runs_completed_before_the_kill_point", 1)
		after, before = "completion", "none"
	}
	if (i == 3 || i == 6) && killed && after != "nothing" {
		run.Sample(map[string]any{"operation": c.Op, "variant": c.Variant, "start_state": c.State, "inject": inject, "killed_at_entry_of": v.Name + "(" + clip(v.Args, 160) + ")",
			"last_mutation_executed": after, "tags_after_kill": x.Tags, "digest_files_after_kill": x.NFiles, "other_files": x.Others, "reported_success": res.done()})
	}
	first := c.judge(after, before, &p, s, f, x, layout, false, v, nil)
	// A6: success had been reported -> the intended state is fully visible
	if res.done() {
		run.Count("a6_success_reported_states_checked", 1)
		ps, tol := sameAsIntended(s, f, x, c.Targets, c.GC)
		run.Count("tolerated_differences", len(tol))
		ps2 := c.Expect(s, x)
		if len(ps) > 0 || len(ps2) > 0 {
			var txt []string
			for _, q := range ps {
				txt = append(txt, q.What)
			}
			txt = append(txt, ps2...)
			run.Violation(fmt.Sprintf("A6-visible/%s/after-%s", c.name(), after), fmt.Sprintf("%s (%s) had reported success when the process died, but the intended state is not fully visible: %s", c.Op, c.Variant, strings.Join(txt, "; ")),
				c.witness(&p, v, map[string]any{"state": x, "intended": f, "files": listing(layout)}))
		}
	}
	// thorough: a second crash while the operation is repeated - only from killed states that passed
	// A1..A5 (from a state that is already broken every later observation is a consequence of the
	// first crash and is reported by the A7 step below under the first position)
	// (an existing but invalid marker counts as broken here even inside the empty-directory carve-out,
	// where A1 does not charge it: what follows from it is reported by A7 under the first position)
	broken := len(first) > 0 || (x.HasMarker && x.MarkerErr != "")
	if second != nil && killed && broken {
		run.Count("second_crashes_skipped_first_state_already_violating", 1)
	}
	if second != nil && killed && !broken {
		inj2 := fmt.Sprintf("%s:signal=SIGKILL:when=%d", second.Name, second.Nth)
		r2 := runChild(straceArgv(filepath.Join(jd, "log2"), inj2, c.driverArgv(layout)), jd)
		lg2 := parseStrace(filepath.Join(jd, "log2"), layout, w.kindOf)
		v2 := lg2.victim(second.Name, second.Nth)
		run.Eval(1)
		if r2.TimedOut {
			run.Inconclusive("watchdog: second crash of " + c.name())
			return
		}
		if lg2.Killed && v2 != nil {
			run.Count("second_crashes", 1)
			a2 := "nothing"
			if m := lg2.lastMutationBefore(v2); m != nil {
				a2 = m.Class
			}
			// from here on the state under judgement is the one the second crash left; the fingerprint
			// names the second position, the first kill point is in the witness
			second.Tail = logTail(filepath.Join(jd, "log2"), layout, 14)
			p2 := position{Name: second.Name, Nth: second.Nth, Kind: "second-crash (first: " + inject + ")", Tail: second.Tail, First: &position{Name: p.Name, Nth: p.Nth, Kind: p.Kind}}
			x = takeSnap(layout)
			if a2 != "nothing" {
				after = "repeat:" + a2
			}
			c.judge(after, v2.Class, &p2, s, f, x, layout, false, v2, nil)
			p, v = p2, v2
		}
	}
	// A7: repeating the operation brings the layout to the intended state
	rr := runChild(c.driverArgv(layout), jd)
	if rr.TimedOut {
		run.Inconclusive("watchdog: repeat of " + c.name())
		return
	}
	if strings.Contains(rr.Out, "PANIC ") {
		run.Violation(fmt.Sprintf("panic/repeat/%s/after-%s", c.name(), after), "the repeated operation panicked: "+clip(rr.Out, 400), c.witness(&p, v, map[string]any{"output": rr.Out}))
		return
	}
	y := takeSnap(layout)
	run.Count("a7_repeats_checked", 1)
	if !rr.done() {
		run.Count("a7_repeats_that_returned_an_error", 1)
		run.SetAdd("a7_repeat_error_classes", c.Op+"/"+firstLine(rr.Out))
	}
	// "a collection ran" in the repeat is observable as: the repeat succeeded and removed something
	// (a repeat that finds nothing to do does not collect; left-over garbage is then allowed)
	removed := 0
	for d := range x.Files {
		if _, ok := y.Files[d]; !ok {
			removed++
		}
	}
	for _, o := range x.Others {
		if strings.HasPrefix(o, "blobs/") && !inList(y.Others, o) {
			removed++
		}
	}
	if c.GC && rr.done() && removed == 0 {
		run.Count("a7_repeats_of_gc_operations_that_collected_nothing", 1)
	}
	ps, tol := sameAsIntended(s, f, y, c.Targets, c.GC && rr.done() && removed > 0)
	run.Count("tolerated_differences", len(tol))
	byRule := map[string][]string{}
	for _, q := range ps {
		byRule[q.Rule] = append(byRule[q.Rule], q.What)
	}
	// the operation's own effect (the object it stores, the tag it sets or removes) must be there too
	for _, q := range c.Expect(s, y) {
		byRule["effect"] = append(byRule["effect"], q)
	}
	// one violation per killed run: the gravest clause names it, the others are listed with it
	var all []string
	top := ""
	for _, rule := range []string{"index", "tags", "referrers", "effect", "untagged", "closure", "objects", "garbage", "marker"} {
		if len(byRule[rule]) == 0 {
			continue
		}
		if top == "" {
			top = rule
		}
		all = append(all, byRule[rule]...)
	}
	if top != "" {
		run.Violation(fmt.Sprintf("A7-%s/%s/after-%s", top, c.name(), after),
			fmt.Sprintf("%s (%s) from state '%s', killed after %s, then repeated (repeat output: %s): the layout is not in the intended state: %s", c.Op, c.Variant, c.State, after, clip(strings.TrimSpace(rr.Out), 160), clip(strings.Join(dedup(all), "; "), 700)),
			c.witness(&p, v, map[string]any{"state_after_kill": x, "state_after_repeat": y, "intended": f, "repeat_output": rr.Out, "files_after_repeat": listing(layout), "problems": dedup(all),
				"oci-layout_after_repeat": readSmall(filepath.Join(layout, "oci-layout")), "index.json_after_repeat": readSmall(filepath.Join(layout, "index.json"))}))
	}
}

func dedup(l []string) []string {
	seen := map[string]bool{}
	var out []string
	for _, x := range l {
		if !seen[x] {
			seen[x] = true
			out = append(out, x)
		}
	}
	return out
}

// logTail returns the last n lines of a strace log with the layout path shortened.
func logTail(path, layout string, n int) []string {
	b, err := os.ReadFile(path)
	if err != nil {
		return nil
	}
	var ls []string
	for _, l := range strings.Split(strings.TrimSpace(string(b)), "\n") {
		if !strings.Contains(l, "+++ killed by SIGKILL") && !strings.Contains(l, "+++ exited") {
			ls = append(ls, l)
		}
	}
	if len(ls) > n {
		ls = ls[len(ls)-n:]
	}
	for i, l := range ls {
		l = strings.ReplaceAll(l, layout, "<layout>")
		l = strings.ReplaceAll(l, filepath.Dir(layout), "<cwd>")
		ls[i] = clip(l, 260)
	}
	return ls
}

func firstLine(s string) string {
	s = strings.TrimSpace(s)
	if i := strings.IndexByte(s, '\n'); i >= 0 {
		s = s[:i]
	}
	// drop digests and numbers so that classes stay few
	f := strings.Fields(s)
	if len(f) > 6 {
		f = f[:6]
	}
	return strings.Join(f, " ")
}
