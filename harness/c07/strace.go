package main

// strace log parsing: which system calls a driver run issued, which of them mutate the layout
// directory, and - in a killed run - which call was about to execute.

import (
	"os"
	"path/filepath"
	"regexp"
	"strconv"
	"strings"
)

// every call through which a process can change a file system; openat is in the set because
// O_CREAT / O_TRUNC opens are mutations (read-only opens are listed but are no positions)
const traceSet = "openat,openat2,open,creat,write,writev,pwrite64,pwritev,pwritev2,copy_file_range,sendfile,splice,rename,renameat,renameat2,unlink,unlinkat,rmdir,mkdir,mkdirat,ftruncate,truncate,link,linkat,symlink,symlinkat,fallocate"

type sysCall struct {
	Tid   int
	Name  string
	Args  string
	Ret   string // text after "= "; "?" when the call never returned; "" while unfinished
	Nth   int    // 1-based index among the calls of the same name issued by the same thread
	Seq   int    // entry order in the log
	Mut   bool   // would change the file system if it succeeds
	OK    bool   // returned without error
	In    bool   // touches the layout directory
	Class string // e.g. openat(oci-layout,O_CREAT|O_TRUNC), write(index.json.tmp), renameat(blob.tmp->blob)
	Where string // stdout | socket | layout | elsewhere
}

type straceLog struct {
	Calls  []*sysCall
	Killed bool // a "+++ killed by SIGKILL +++" line was seen
	Exited bool
	Lines  int
	Main   int // thread id of the first line (the process' initial thread)
	Anom   int // calls without a return value that are not the last call of their thread (parser self-check)
}

var (
	reLine    = regexp.MustCompile(`^(\d+)\s+(.*)$`)
	reEntry   = regexp.MustCompile(`^([a-z0-9_]+)\((.*)$`)
	reResumed = regexp.MustCompile(`^<\.\.\. ([a-z0-9_]+) resumed>(.*)$`)
	reRet     = regexp.MustCompile(`^(.*)\)\s+= (.*)$`) // the return value follows the last ") = " (padded with blanks in short lines)
	reHexName = regexp.MustCompile(`^[0-9a-f]{64}([0-9a-f]{64})?$`)
	reManTmp  = regexp.MustCompile(`^[0-9a-f]{64}([0-9a-f]{64})?\.[0-9]+\.tmp$`)
	reBlobTmp = regexp.MustCompile(`^[0-9]+\.tmp$`)
	reIdxTmp  = regexp.MustCompile(`^index\.json\.[0-9]+\.tmp$`)
)

// parseStrace reads a `strace -f -y -o` log. dir is the layout directory; kindOf labels a
// digest-named file (manifest / blob / ...), may be nil.
func parseStrace(path, dir string, kindOf func(string) string) *straceLog {
	lg := &straceLog{}
	b, err := os.ReadFile(path)
	if err != nil {
		return lg
	}
	pending := map[int]*sysCall{}
	counts := map[string]int{}
	for _, l := range strings.Split(string(b), "\n") {
		m := reLine.FindStringSubmatch(l)
		if m == nil {
			continue
		}
		lg.Lines++
		tid, _ := strconv.Atoi(m[1])
		if lg.Main == 0 {
			lg.Main = tid
		}
		rest := m[2]
		switch {
		case strings.HasPrefix(rest, "+++ killed by SIGKILL"):
			lg.Killed = true
			continue
		case strings.HasPrefix(rest, "+++ exited"):
			if tid == lg.Main {
				lg.Exited = true
			}
			continue
		case strings.HasPrefix(rest, "+++"), strings.HasPrefix(rest, "---"):
			continue
		}
		if r := reResumed.FindStringSubmatch(rest); r != nil {
			c := pending[tid]
			if c == nil || c.Name != r[1] {
				continue
			}
			delete(pending, tid)
			if m := reRet.FindStringSubmatch(r[2]); m != nil {
				c.Args += m[1]
				c.Ret = strings.TrimSpace(m[2])
			}
			continue
		}
		e := reEntry.FindStringSubmatch(rest)
		if e == nil {
			continue
		}
		c := &sysCall{Tid: tid, Name: e[1], Seq: len(lg.Calls)}
		key := m[1] + "/" + c.Name
		counts[key]++
		c.Nth = counts[key]
		body := e[2]
		if i := strings.Index(body, " <unfinished ...>"); i >= 0 {
			c.Args = body[:i]
			pending[tid] = c
		} else if m := reRet.FindStringSubmatch(body); m != nil {
			c.Args = m[1]
			c.Ret = strings.TrimSpace(m[2])
		} else {
			c.Args = body
		}
		lg.Calls = append(lg.Calls, c)
	}
	last := map[int]*sysCall{}
	for _, c := range lg.Calls {
		classify(c, dir, kindOf)
		last[c.Tid] = c
	}
	for _, c := range lg.Calls {
		if (c.Ret == "" || c.Ret == "?") && last[c.Tid] != c {
			lg.Anom++
		}
	}
	return lg
}

// splitArgs splits a strace argument list at top-level commas, honouring quotes and brackets.
func splitArgs(s string) []string {
	var out []string
	depth, inq, esc := 0, false, false
	cur := strings.Builder{}
	for i := 0; i < len(s); i++ {
		c := s[i]
		if inq {
			cur.WriteByte(c)
			if esc {
				esc = false
			} else if c == '\\' {
				esc = true
			} else if c == '"' {
				inq = false
			}
			continue
		}
		switch c {
		case '"':
			inq = true
			cur.WriteByte(c)
		case '{', '[', '<', '(':
			depth++
			cur.WriteByte(c)
		case '}', ']', '>', ')':
			depth--
			cur.WriteByte(c)
		case ',':
			if depth == 0 {
				out = append(out, strings.TrimSpace(cur.String()))
				cur.Reset()
			} else {
				cur.WriteByte(c)
			}
		default:
			cur.WriteByte(c)
		}
	}
	if cur.Len() > 0 {
		out = append(out, strings.TrimSpace(cur.String()))
	}
	return out
}

// unq decodes a strace string literal (paths are printed in full; the harness only generates
// paths without characters that strace would escape).
func unq(s string) (string, bool) {
	s = strings.TrimSuffix(s, "...")
	if len(s) < 2 || s[0] != '"' || s[len(s)-1] != '"' {
		return "", false
	}
	return s[1 : len(s)-1], true
}

// fdPath extracts the path of a -y annotated descriptor: 5</a/b> -> /a/b ; AT_FDCWD</cwd> -> /cwd.
func fdPath(arg string) string {
	if i := strings.IndexByte(arg, '<'); i >= 0 && strings.HasSuffix(arg, ">") {
		return strings.TrimSuffix(arg[i+1:len(arg)-1], " (deleted)")
	}
	return ""
}

func absAt(dirfd, p string) string {
	if filepath.IsAbs(p) {
		return filepath.Clean(p)
	}
	return filepath.Join(fdPath(dirfd), p)
}

// pathClass names a path below the layout directory by its role.
func pathClass(rel string, kindOf func(string) string) string {
	switch {
	case rel == "" || rel == ".":
		return "layout-dir"
	case rel == "oci-layout" || rel == "index.json" || rel == "blobs":
		return rel
	case reIdxTmp.MatchString(rel):
		return "index.json.tmp"
	case strings.HasPrefix(rel, "oci-layout.") && !strings.Contains(rel, "/"):
		return "oci-layout.tmp"
	case strings.HasPrefix(rel, "index.json.") && !strings.Contains(rel, "/"):
		return "index.json.tmp"
	}
	parts := strings.Split(rel, "/")
	if parts[0] == "blobs" && len(parts) == 2 {
		return "blobs-alg"
	}
	if parts[0] == "blobs" && len(parts) == 3 {
		n := parts[2]
		switch {
		case reHexName.MatchString(n):
			k := "object"
			if kindOf != nil {
				k = kindOf(parts[1] + ":" + n)
			}
			return k
		case reManTmp.MatchString(n):
			return "manifest.tmp"
		case reBlobTmp.MatchString(n):
			return "blob.tmp"
		}
		return "blobs-other"
	}
	return "other"
}

func classify(c *sysCall, dir string, kindOf func(string) string) {
	a := splitArgs(c.Args)
	c.OK = c.Ret != "" && c.Ret != "?" && !strings.HasPrefix(c.Ret, "-1")
	arg := func(i int) string {
		if i < len(a) {
			return a[i]
		}
		return ""
	}
	str := func(i int) string {
		s, _ := unq(arg(i))
		return s
	}
	var paths []string
	flags := ""
	switch c.Name {
	case "openat", "openat2":
		paths = []string{absAt(arg(0), str(1))}
		flags = arg(2)
		c.Mut = strings.Contains(flags, "O_CREAT") || strings.Contains(flags, "O_TRUNC")
	case "open":
		paths = []string{str(0)}
		flags = arg(1)
		c.Mut = strings.Contains(flags, "O_CREAT") || strings.Contains(flags, "O_TRUNC")
	case "creat":
		paths = []string{str(0)}
		flags = "O_CREAT|O_TRUNC"
		c.Mut = true
	case "write", "writev", "pwrite64", "pwritev", "pwritev2", "ftruncate", "fallocate", "sendfile":
		paths = []string{fdPath(arg(0))}
		c.Mut = true
		if paths[0] == "" {
			paths = nil
			c.Where = "socket"
			if strings.HasPrefix(arg(0), "1<") || strings.HasPrefix(arg(0), "2<") || arg(0) == "1" || arg(0) == "2" {
				c.Where = "stdout"
			}
		}
	case "copy_file_range", "splice":
		paths = []string{fdPath(arg(2))}
		c.Mut = true
	case "rename", "link", "symlink":
		paths = []string{str(0), str(1)}
		c.Mut = true
	case "renameat", "renameat2", "linkat":
		paths = []string{absAt(arg(0), str(1)), absAt(arg(2), str(3))}
		c.Mut = true
	case "symlinkat":
		paths = []string{absAt(arg(1), str(2))}
		c.Mut = true
	case "unlink", "rmdir", "mkdir", "truncate":
		paths = []string{str(0)}
		c.Mut = true
	case "unlinkat", "mkdirat":
		paths = []string{absAt(arg(0), str(1))}
		c.Mut = true
	}
	var cls []string
	for _, p := range paths {
		if p == dir || strings.HasPrefix(p, dir+"/") {
			c.In = true
			cls = append(cls, pathClass(strings.TrimPrefix(strings.TrimPrefix(p, dir), "/"), kindOf))
		} else if strings.HasPrefix(p, "/") {
			cls = append(cls, "outside")
		} else {
			cls = append(cls, "fd")
		}
	}
	if c.Where == "" {
		c.Where = "elsewhere"
		if c.In {
			c.Where = "layout"
		} else if len(paths) == 1 && (strings.HasPrefix(arg(0), "1<") || strings.HasPrefix(arg(0), "2<")) && (c.Name == "write" || c.Name == "writev") {
			c.Where = "stdout"
		} else if len(paths) == 1 && !strings.HasPrefix(paths[0], "/") && strings.HasPrefix(c.Name, "write") {
			c.Where = "socket"
		}
	}
	c.Class = c.Name + "(" + strings.Join(cls, "->")
	if flags != "" {
		var fs []string
		for _, f := range []string{"O_CREAT", "O_EXCL", "O_TRUNC"} {
			if strings.Contains(flags, f) {
				fs = append(fs, f)
			}
		}
		if len(fs) == 0 {
			fs = []string{"read"}
		}
		c.Class += "," + strings.Join(fs, "|")
	}
	c.Class += ")"
	if !c.In {
		c.Class = c.Name + "(" + c.Where + ")"
	}
}

// victim returns the call that was about to run when the injected SIGKILL arrived: the nth call
// of the given name of some thread, which never returned and is the last call of that thread.
func (lg *straceLog) victim(name string, nth int) *sysCall {
	last := map[int]*sysCall{}
	for _, c := range lg.Calls {
		last[c.Tid] = c
	}
	var cand *sysCall
	for _, c := range lg.Calls {
		if c.Name == name && c.Nth == nth && (c.Ret == "?" || c.Ret == "") && last[c.Tid] == c {
			if cand == nil || (cand.Ret == "" && c.Ret == "?") {
				cand = c
			}
		}
	}
	return cand
}

// lastMutationBefore returns the last successful layout mutation logged before call v (or the
// last one of the log if v is nil).
func (lg *straceLog) lastMutationBefore(v *sysCall) *sysCall {
	var last *sysCall
	for _, c := range lg.Calls {
		if v != nil && c.Seq >= v.Seq {
			break
		}
		if c.Mut && c.In && c.OK {
			last = c
		}
	}
	return last
}
