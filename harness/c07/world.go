package main

// Start states and operation cases. Everything is written with the harness' own writers
// (gen.WriteLayoutBlob / os.WriteFile), never through regclient.

import (
	"archive/tar"
	"bytes"
	"encoding/json"
	"fmt"
	"io"
	"math/rand"
	"os"
	"path/filepath"
	"strings"

	"verif/ev"
	"verif/gen"
	la "verif/layoutaudit"
	"verif/modelreg"
)

const markerText = `{"imageLayoutVersion":"1.0.0"}`

type world struct {
	round int
	rng   *rand.Rand
	g     *gen.Graph
	dir   string // <work>/r<round>
	in    string // input files of the driver
	kinds map[string]string

	v1, v2, pA, pB, idx, ref1        *gen.Node
	nImg, nUnt, nChild, nArt1, nArt2 *gen.Node
	newBlob                          *gen.Node
	l1                               *gen.Node // a layer every image of the populated state uses
	fb1                              []byte
	fb1Digest                        string
	spare                            map[int]bool // nodes that are inputs of operations, not part of the populated state

	templates  map[string]string
	startSnap  map[string]*snap
	startAudit map[string][]string
	host       *modelreg.Host
}

// opCase is one (operation, variant, start state) configuration.
type opCase struct {
	W           *world                    `json:"-"`
	Op          string                    `json:"op"`
	Variant     string                    `json:"variant"`
	State       string                    `json:"state"`
	DrvOp       string                    `json:"driver_op"`
	Args        []string                  `json:"driver_args"` // key=value arguments after the layout directory
	Targets     map[string]bool           `json:"target_tags"`
	Multi       bool                      `json:"multi_goroutine"`
	Procs       int                       `json:"gomaxprocs"`
	GC          bool                      `json:"runs_gc"`
	Expect      func(s, f *snap) []string `json:"-"`
	dir         string
	finalSnp    *snap
	finalAud    []string // problems a fresh client reports on the finished state that are not charged to a crash
	finalAudAll []string
}

func (c *opCase) name() string { return c.Op + "/" + c.State }

func fallbackTag(d string) string {
	i := strings.IndexByte(d, ':')
	alg, enc := d[:i], d[i+1:]
	if len(enc) > 64 {
		enc = enc[:64]
	}
	return alg + "-" + enc
}

func blobSize(rng *rand.Rand) int {
	switch rng.Intn(4) {
	case 0:
		return 33000 + rng.Intn(80000) // more than one write() of the 32 KiB copy buffer
	case 1:
		return 1 + rng.Intn(64)
	}
	return 200 + rng.Intn(3000)
}

func newWorld(work string, round int, w0 *modelreg.World) (*world, error) {
	rng := ev.Rand(fmt.Sprintf("c07/world/%d", round))
	w := &world{round: round, rng: rng, dir: filepath.Join(work, fmt.Sprintf("r%02d", round)), kinds: map[string]string{},
		spare: map[int]bool{}, templates: map[string]string{}, startSnap: map[string]*snap{}, startAudit: map[string][]string{}}
	w.in = filepath.Join(w.dir, "in")
	if err := os.MkdirAll(w.in, 0o755); err != nil {
		return nil, err
	}
	g := gen.New(rng, "sha256")
	w.g = g
	layer := func() *gen.Node { return g.Blob("layer", la.MTOCILayerGz, blobSize(rng)) }
	empty := func() *gen.Node { return g.BlobBytes("config", la.MTOCIEmpty, []byte("{}")) }
	img := func(p *la.Platform, ls ...*gen.Node) *gen.Node {
		return g.Image(g.Config("oci", p, len(ls)), ls, gen.ImageOpts{Family: "oci", Platform: p})
	}
	art := func(subject *gen.Node, n int) *gen.Node {
		l := g.Blob("layer", "application/vnd.example.payload", 10+rng.Intn(400))
		return g.Image(empty(), []*gen.Node{l}, gen.ImageOpts{Family: "oci", Subject: subject, ArtifactType: []string{"application/vnd.example.sig", "application/vnd.example.sbom"}[n%2],
			Annotations: map[string]string{"org.example.n": fmt.Sprint(n)}})
	}
	L1, L2, L3 := layer(), layer(), layer()
	w.l1 = L1
	w.v1 = img(nil, L1, L2)
	w.v2 = img(nil, L1, L3)
	amd, arm := &la.Platform{OS: "linux", Architecture: "amd64"}, &la.Platform{OS: "linux", Architecture: "arm64"}
	w.pA = img(amd, L1, layer())
	w.pB = img(arm, L1, layer())
	w.idx = g.Index("oci", []*gen.Node{w.pA, w.pB}, nil, nil)
	w.ref1 = art(w.v1, 0)
	// inputs of operations: their blobs are part of the populated state, the manifests are not
	w.nImg = img(nil, L1, layer())
	w.nUnt = img(nil, L2, layer())
	w.nChild = img(&la.Platform{OS: "linux", Architecture: "arm", Variant: "v7"}, L1, layer())
	w.nArt1 = art(w.v1, 1)
	w.nArt2 = art(w.v2, 2)
	w.newBlob = layer()
	for _, n := range []*gen.Node{w.nImg, w.nUnt, w.nChild, w.nArt1, w.nArt2, w.newBlob} {
		w.spare[n.ID] = true
	}
	for _, n := range g.Nodes {
		w.kinds[n.Digest] = "blob"
		if n.IsManifest() {
			w.kinds[n.Digest] = "manifest"
		}
	}
	// the fallback-tag index of v1, listing ref1 the way a producer leaves it
	fb, _ := json.Marshal(gen.Obj{{K: "schemaVersion", V: 2}, {K: "mediaType", V: la.MTOCIIndex}, {K: "manifests", V: []gen.Obj{{
		{K: "mediaType", V: w.ref1.MT}, {K: "digest", V: w.ref1.Digest}, {K: "size", V: len(w.ref1.Content)},
		{K: "annotations", V: w.ref1.Annotations}, {K: "artifactType", V: w.ref1.ArtifactType}}}}})
	w.fb1 = fb
	w.fb1Digest = la.Digest("sha256", fb)
	w.kinds[w.fb1Digest] = "fallback-index"
	if err := os.WriteFile(filepath.Join(w.in, "oldblob"), w.l1.Content, 0o644); err != nil {
		return nil, err
	}
	for name, n := range map[string]*gen.Node{"blob": w.newBlob, "nimg": w.nImg, "nunt": w.nUnt, "nchild": w.nChild, "nart1": w.nArt1, "nart2": w.nArt2} {
		if err := os.WriteFile(filepath.Join(w.in, name), n.Content, 0o644); err != nil {
			return nil, err
		}
	}
	states := []string{"empty", "blobs-only", "populated"}
	if ev.Tier() == "thorough" {
		states = append(states, "populated-after-crash")
	}
	for _, st := range states {
		d := filepath.Join(w.dir, "tpl-"+st)
		if err := w.writeState(st, d); err != nil {
			return nil, err
		}
		w.templates[st] = d
		w.startSnap[st] = takeSnap(d)
	}
	if w0 != nil {
		w.host = w0.NewHost(fmt.Sprintf("src%d", round))
		w.host.Cfg.ReferrersAPI = true
	}
	return w, nil
}

func (w *world) kindOf(d string) string {
	if k, ok := w.kinds[d]; ok {
		return k
	}
	return "fallback-index" // the only objects the client renders itself
}

func desc(n *gen.Node, tag string) gen.Obj {
	o := gen.Obj{{K: "mediaType", V: n.MT}, {K: "digest", V: n.Digest}, {K: "size", V: len(n.Content)}}
	if tag != "" {
		o = append(o, gen.KV{K: "annotations", V: map[string]string{la.AnnotRefName: tag}})
	}
	return o
}

// writeState materialises a start state.
func (w *world) writeState(state, dir string) error {
	if err := os.MkdirAll(dir, 0o755); err != nil {
		return err
	}
	if state == "empty" {
		return nil
	}
	for _, n := range w.g.Nodes {
		if n.IsManifest() && (w.spare[n.ID] || state == "blobs-only") {
			continue
		}
		if n.ID == w.newBlob.ID {
			continue
		}
		if err := gen.WriteLayoutBlob(dir, n.Digest, n.Content); err != nil {
			return err
		}
	}
	if state == "blobs-only" {
		return os.WriteFile(filepath.Join(dir, "oci-layout"), []byte(markerText), 0o644)
	}
	if err := gen.WriteLayoutBlob(dir, w.fb1Digest, w.fb1); err != nil {
		return err
	}
	// besides v1, v2 and idx: tags whose names merely END with those names (they point at manifests no operation
	// deletes), so that an operation on "v2" that matches by suffix shows as the loss of another tag
	entries := []gen.Obj{desc(w.v1, "v1"), desc(w.v2, "v2"), desc(w.idx, "idx"), desc(w.v1, "rc-v2"), desc(w.v1, "x.idx"), desc(w.idx, "my-v1"), desc(w.ref1, ""),
		{{K: "mediaType", V: la.MTOCIIndex}, {K: "digest", V: w.fb1Digest}, {K: "size", V: len(w.fb1)}, {K: "annotations", V: map[string]string{la.AnnotRefName: fallbackTag(w.v1.Digest)}}}}
	if state == "populated" {
		return gen.WriteLayoutIndex(dir, entries)
	}
	// populated-after-crash: the same content as another tool / an earlier interrupted run may have
	// left it: indented index, marker with a newline, left-over temp files
	b, _ := json.MarshalIndent(gen.Obj{{K: "schemaVersion", V: 2}, {K: "mediaType", V: la.MTOCIIndex}, {K: "manifests", V: entries}}, "", "  ")
	if err := os.WriteFile(filepath.Join(dir, "index.json"), append(b, '\n'), 0o644); err != nil {
		return err
	}
	if err := os.WriteFile(filepath.Join(dir, "oci-layout"), []byte(markerText+"\n"), 0o644); err != nil {
		return err
	}
	if err := os.WriteFile(filepath.Join(dir, "index.json.123456.tmp"), b[:len(b)/2], 0o600); err != nil {
		return err
	}
	return os.WriteFile(filepath.Join(dir, "blobs", "sha256", "987654.tmp"), []byte("partial"), 0o600)
}

// sourceGraph builds the image a copy / import brings into the layout.
func (w *world) sourceGraph(rng *rand.Rand, withRef bool) (*gen.Graph, *gen.Node) {
	g := gen.New(rng, "sha256")
	layer := func() *gen.Node { return g.Blob("layer", la.MTOCILayerGz, blobSize(rng)) }
	shared := layer()
	var top *gen.Node
	mk := func(p *la.Platform) *gen.Node {
		ls := []*gen.Node{shared}
		for i := rng.Intn(2); i >= 0; i-- {
			ls = append(ls, layer())
		}
		if rng.Intn(3) == 0 {
			// a layer the populated target already holds
			for _, n := range w.g.Nodes {
				if n.Kind == "layer" && !w.spare[n.ID] {
					ls = append(ls, g.BlobBytes("layer", la.MTOCILayerGz, n.Content))
					break
				}
			}
		}
		return g.Image(g.Config("oci", p, len(ls)), ls, gen.ImageOpts{Family: "oci", Platform: p})
	}
	if rng.Intn(3) == 0 {
		top = mk(nil)
	} else {
		top = g.Index("oci", []*gen.Node{mk(&la.Platform{OS: "linux", Architecture: "amd64"}), mk(&la.Platform{OS: "linux", Architecture: "arm64"})}, nil, nil)
	}
	g.Top = top.ID
	g.Tags["src"] = top.ID
	if withRef {
		l := g.Blob("layer", "application/vnd.example.payload", 10+rng.Intn(300))
		g.Image(g.BlobBytes("config", la.MTOCIEmpty, []byte("{}")), []*gen.Node{l}, gen.ImageOpts{Family: "oci", Subject: top, ArtifactType: "application/vnd.example.sig"})
	}
	for _, n := range g.Nodes {
		if _, ok := w.kinds[n.Digest]; !ok {
			w.kinds[n.Digest] = "blob"
			if n.IsManifest() {
				w.kinds[n.Digest] = "manifest"
			}
		}
	}
	return g, top
}

// writeTar writes the graph as an OCI layout tar (what ImageExport produces, rendered by us).
func writeTar(path string, g *gen.Graph, top *gen.Node, tag string) error {
	var buf bytes.Buffer
	tw := tar.NewWriter(&buf)
	add := func(name string, b []byte) {
		_ = tw.WriteHeader(&tar.Header{Name: name, Mode: 0o644, Size: int64(len(b)), Typeflag: tar.TypeReg})
		_, _ = io.Copy(tw, bytes.NewReader(b))
	}
	add("oci-layout", []byte(markerText))
	ib, _ := json.Marshal(gen.Obj{{K: "schemaVersion", V: 2}, {K: "mediaType", V: la.MTOCIIndex}, {K: "manifests", V: []gen.Obj{desc(top, tag)}}})
	add("index.json", ib)
	for _, id := range g.Closure(top.ID) {
		n := g.Nodes[id]
		i := strings.IndexByte(n.Digest, ':')
		add("blobs/"+n.Digest[:i]+"/"+n.Digest[i+1:], n.Content)
	}
	if err := tw.Close(); err != nil {
		return err
	}
	return os.WriteFile(path, buf.Bytes(), 0o644)
}

func hasAll(list []string, want ...string) bool {
	for _, x := range want {
		if !inList(list, x) {
			return false
		}
	}
	return true
}

// cases lists the operation cases of one start state. Variants are drawn from the seed.
func (w *world) cases(state string) []*opCase {
	rng := ev.Rand(fmt.Sprintf("c07/cases/%d/%s", w.round, state))
	pop := strings.HasPrefix(state, "populated")
	var out []*opCase
	add := func(c *opCase) {
		c.W, c.State = w, state
		if c.Targets == nil {
			c.Targets = map[string]bool{}
		}
		if c.Procs == 0 {
			c.Procs = 1
		}
		out = append(out, c)
	}
	in := func(n string) string { return "file=" + filepath.Join(w.in, n) }
	fileOK := func(n *gen.Node) func(s, f *snap) []string {
		return func(s, f *snap) []string {
			if !f.Files[n.Digest] {
				return []string{"object " + n.Digest + " is not stored under its digest"}
			}
			return nil
		}
	}
	tagIs := func(tag string, n *gen.Node) func(s, f *snap) []string {
		return func(s, f *snap) []string {
			var ps []string
			if f.Tags[tag] != n.Digest {
				ps = append(ps, fmt.Sprintf("tag %s resolves to %q, the operation set it to %s", tag, f.Tags[tag], n.Digest))
			}
			if !f.Files[n.Digest] {
				ps = append(ps, "manifest "+n.Digest+" is not stored under its digest")
			}
			return ps
		}
	}
	if state != "blobs-only" {
		known := []string{}
		v := "digest-unknown"
		if rng.Intn(2) == 0 {
			known, v = []string{"known=1"}, "digest-known"
		}
		add(&opCase{Op: "blob-put", Variant: v, DrvOp: "blob-put", Args: append([]string{in("blob")}, known...), Expect: fileOK(w.newBlob)})
		if pop {
			// the same bytes pushed again: a layer that every tag of the populated layout uses is replaced by itself
			add(&opCase{Op: "blob-put", Variant: "existing-blob-in-use/" + v, DrvOp: "blob-put", Args: append([]string{in("oldblob")}, known...), Expect: fileOK(w.l1)})
		}
	}
	// manifest put, tagged: a new tag everywhere; in populated states also over an existing tag
	add(&opCase{Op: "manifest-put-tagged", Variant: "new-tag", DrvOp: "manifest-put", Args: []string{in("nimg"), "tag=v3"}, Targets: map[string]bool{"v3": true}, Expect: tagIs("v3", w.nImg)})
	if pop {
		add(&opCase{Op: "manifest-put-tagged", Variant: "overwrite-tag", DrvOp: "manifest-put", Args: []string{in("nimg"), "tag=v2"}, Targets: map[string]bool{"v2": true}, Expect: tagIs("v2", w.nImg)})
	}
	add(&opCase{Op: "manifest-put-untagged", Variant: "by-digest", DrvOp: "manifest-put", Args: []string{in("nunt")}, Expect: fileOK(w.nUnt)})
	add(&opCase{Op: "manifest-put-child", Variant: "by-digest-child", DrvOp: "manifest-put", Args: []string{in("nchild"), "child=1"}, Expect: fileOK(w.nChild)})
	refPut := func(variant, file string, n, subject *gen.Node) {
		fb := fallbackTag(subject.Digest)
		add(&opCase{Op: "referrer-put", Variant: variant, DrvOp: "manifest-put", Args: []string{in(file)}, Targets: map[string]bool{fb: true},
			Expect: func(s, f *snap) []string {
				ps := fileOK(n)(s, f)
				want := append([]string{n.Digest}, s.Listed[fb]...)
				if _, ok := f.Tags[fb]; !ok {
					ps = append(ps, "fallback tag "+fb+" of the subject does not exist")
				} else if !hasAll(f.Listed[fb], want...) {
					ps = append(ps, fmt.Sprintf("fallback tag %s lists %v, expected it to list %v", fb, f.Listed[fb], want))
				}
				return ps
			}})
	}
	if pop {
		refPut("subject-has-referrers", "nart1", w.nArt1, w.v1)
		refPut("first-referrer-of-subject", "nart2", w.nArt2, w.v2)
	} else {
		refPut("first-referrer-of-subject", "nart1", w.nArt1, w.v1)
	}
	if pop {
		// tag delete
		t := []string{"v2", "idx", "v1"}[rng.Intn(3)]
		add(&opCase{Op: "tag-delete", Variant: "tag-" + t, DrvOp: "tag-delete", Args: []string{"tag=" + t}, Targets: map[string]bool{t: true},
			Expect: func(s, f *snap) []string {
				if d, ok := f.Tags[t]; ok {
					return []string{"tag " + t + " still resolves to " + d}
				}
				return nil
			}})
		// manifest delete: a tagged image (its tag goes with it) and a referrer (fallback tag is updated)
		gone := func(n *gen.Node) func(s, f *snap) []string {
			return func(s, f *snap) []string {
				var ps []string
				if _, ok := f.Files[n.Digest]; ok {
					ps = append(ps, "manifest file "+n.Digest+" is still present")
				}
				for t, d := range f.Tags {
					if d == n.Digest {
						ps = append(ps, "tag "+t+" still names the deleted manifest")
					}
				}
				if inList(f.Untagged, n.Digest) {
					ps = append(ps, "the index still lists the deleted manifest")
				}
				return ps
			}
		}
		add(&opCase{Op: "manifest-delete", Variant: "tagged-image", DrvOp: "manifest-delete", Args: []string{"digest=" + w.v2.Digest}, Targets: map[string]bool{"v2": true}, Expect: gone(w.v2)})
		fb := fallbackTag(w.v1.Digest)
		add(&opCase{Op: "manifest-delete", Variant: "referrer", DrvOp: "manifest-delete", Args: []string{"digest=" + w.ref1.Digest}, Targets: map[string]bool{fb: true},
			Expect: func(s, f *snap) []string {
				ps := gone(w.ref1)(s, f)
				if inList(f.Listed[fb], w.ref1.Digest) {
					ps = append(ps, "fallback tag "+fb+" still lists the deleted referrer")
				}
				return ps
			}})
	}
	// modification + Close (garbage collection)
	if pop {
		add(&opCase{Op: "gc", Variant: "retag-then-close", DrvOp: "gc", Args: []string{"mod=retag", in("nimg"), "tag=v2"}, Targets: map[string]bool{"v2": true}, GC: true, Expect: tagIs("v2", w.nImg)})
		add(&opCase{Op: "gc", Variant: "tag-delete-then-close", DrvOp: "gc", Args: []string{"mod=tagdel", "tag=idx"}, Targets: map[string]bool{"idx": true}, GC: true,
			Expect: func(s, f *snap) []string {
				if d, ok := f.Tags["idx"]; ok {
					return []string{"tag idx still resolves to " + d}
				}
				return nil
			}})
	} else {
		add(&opCase{Op: "gc", Variant: "tag-then-close", DrvOp: "gc", Args: []string{"mod=retag", in("nimg"), "tag=v3"}, Targets: map[string]bool{"v3": true}, GC: true, Expect: tagIs("v3", w.nImg)})
	}
	// whole-image copy into the layout and tar import
	if state != "blobs-only" {
		tag := "cp"
		if pop && rng.Intn(2) == 0 {
			tag = "v2"
		}
		complete := func(tag string, top *gen.Node) func(s, f *snap) []string {
			return func(s, f *snap) []string {
				ps := tagIs(tag, top)(s, f)
				for _, p := range f.Closure[tag] {
					ps = append(ps, "tag "+tag+": "+p)
				}
				return ps
			}
		}
		procsList := []int{1, 4}
		for i, procs := range procsList {
			// from another layout
			sg, top := w.sourceGraph(rng, false)
			src := filepath.Join(w.dir, fmt.Sprintf("src-%s-%d", state, i))
			if err := sg.ToLayout(src, nil, true); err == nil {
				args := []string{"src=ocidir://" + src + ":src", "tag=" + tag, fmt.Sprintf("procs=%d", procs)}
				v := fmt.Sprintf("%s-to-%s", top.Kind, tag)
				gc := i%2 == 1 // the way the CLI does it: copy, then Close (collection)
				if gc {
					args = append(args, "close=1")
					v += "-then-close"
				}
				add(&opCase{Op: "copy-from-layout", Variant: v, DrvOp: "copy", Multi: true, Procs: procs, GC: gc, Args: args, Targets: map[string]bool{tag: true}, Expect: complete(tag, top)})
			}
			// from a model registry, with referrers every other time
			if w.host != nil {
				withRef := i%2 == 1
				sg, top := w.sourceGraph(rng, withRef)
				repo := fmt.Sprintf("src/%s%d", strings.ReplaceAll(state, "-", ""), i)
				sg.ToHost(w.host, repo, nil, true)
				args := []string{"src=" + w.host.Addr() + "/" + repo + ":src", "tag=" + tag, "plainhttp=" + w.host.Addr(), fmt.Sprintf("procs=%d", procs)}
				targets := map[string]bool{tag: true}
				exp := complete(tag, top)
				v := fmt.Sprintf("%s-to-%s", top.Kind, tag)
				if withRef {
					args = append(args, "referrers=1")
					fb := fallbackTag(top.Digest)
					targets[fb] = true
					refs := []string{}
					for _, id := range sg.ReferrersOf(top.ID) {
						refs = append(refs, sg.Nodes[id].Digest)
					}
					base := exp
					exp = func(s, f *snap) []string {
						ps := base(s, f)
						if !hasAll(f.Listed[fb], refs...) {
							ps = append(ps, fmt.Sprintf("fallback tag %s lists %v, the copied referrers are %v", fb, f.Listed[fb], refs))
						}
						for _, p := range f.Closure[fb] {
							ps = append(ps, "tag "+fb+": "+p)
						}
						return ps
					}
					v += "-with-referrers"
				}
				add(&opCase{Op: "copy-from-registry", Variant: v, DrvOp: "copy", Multi: true, Procs: procs, Args: args, Targets: targets, Expect: exp})
			}
		}
		sg, top := w.sourceGraph(rng, false)
		tarPath := filepath.Join(w.in, "import-"+state+".tar")
		if err := writeTar(tarPath, sg, top, "src"); err == nil {
			add(&opCase{Op: "tar-import", Variant: fmt.Sprintf("%s-to-%s", top.Kind, tag), DrvOp: "import", Args: []string{"file=" + tarPath, "tag=" + tag}, Targets: map[string]bool{tag: true}, Expect: complete(tag, top)})
		}
	}
	return out
}
