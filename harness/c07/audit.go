package main

// Raw-state snapshots of a layout directory (layoutaudit only - nothing of regclient is
// involved) and the audit rules A1..A7 of DESIGN section 3 C07.

import (
	"encoding/json"
	"fmt"
	"os"
	"path/filepath"
	"regexp"
	"sort"
	"strings"

	la "verif/layoutaudit"
)

type snap struct {
	DirExists bool                `json:"dir_exists"`
	HasIndex  bool                `json:"has_index"`  // a file index.json exists (complete or not)
	HasMarker bool                `json:"has_marker"` // a file oci-layout exists
	MarkerErr string              `json:"marker_err,omitempty"`
	IndexErr  string              `json:"index_err,omitempty"`
	Tags      map[string]string   `json:"tags"` // tag -> digest of the first entry carrying it
	DupTags   int                 `json:"dup_tags,omitempty"`
	Untagged  []string            `json:"untagged"`            // digests of index entries without ref.name
	Files     map[string]bool     `json:"-"`                   // digest-named file -> content hashes to its name
	BadFiles  []string            `json:"bad_files,omitempty"` // digest-named files with other content
	NFiles    int                 `json:"digest_files"`
	Others    []string            `json:"other_files,omitempty"` // everything else below the directory
	Closure   map[string][]string `json:"closure_problems,omitempty"`
	Listed    map[string][]string `json:"-"` // tag -> digests listed by the index manifest it names (fallback tags)
}

var reFallback = regexp.MustCompile(`^sha(256|512)-[0-9a-f]{64}$`)

func exists(p string) bool { _, err := os.Lstat(p); return err == nil }

// takeSnap reads the directory with the independent auditor.
func takeSnap(dir string) *snap {
	s := &snap{Tags: map[string]string{}, Files: map[string]bool{}, Closure: map[string][]string{}, Listed: map[string][]string{}, Untagged: []string{}}
	if !exists(dir) {
		return s
	}
	s.DirExists = true
	l := la.Layout{Dir: dir}
	s.HasIndex = exists(filepath.Join(dir, "index.json"))
	s.HasMarker = exists(filepath.Join(dir, "oci-layout"))
	if err := l.CheckMarker(); err != nil {
		s.MarkerErr = strings.ReplaceAll(err.Error(), dir, "<dir>")
	}
	files, others := l.DigestFiles()
	for d, p := range files {
		b, err := os.ReadFile(p)
		ok := err == nil && la.Matches(d, b)
		s.Files[d] = ok
		if !ok {
			s.BadFiles = append(s.BadFiles, d)
		}
	}
	sort.Strings(s.BadFiles)
	s.NFiles = len(files)
	s.Others = others
	if ents, err := os.ReadDir(dir); err == nil {
		for _, e := range ents {
			if n := e.Name(); n != "oci-layout" && n != "index.json" && n != "blobs" {
				s.Others = append(s.Others, n)
			}
		}
	}
	sort.Strings(s.Others)
	idx, err := l.ReadIndex()
	if err != nil {
		s.IndexErr = strings.ReplaceAll(err.Error(), dir, "<dir>")
		return s
	}
	unt := map[string]bool{}
	mts := map[string]string{}
	for _, e := range idx.Manifests {
		n, ok := e.Annotations[la.AnnotRefName]
		if !ok || n == "" {
			unt[e.Digest] = true
			continue
		}
		if _, dup := s.Tags[n]; dup {
			s.DupTags++
			continue
		}
		s.Tags[n] = e.Digest
		mts[n] = e.MediaType
	}
	for d := range unt {
		s.Untagged = append(s.Untagged, d)
	}
	sort.Strings(s.Untagged)
	for t, d := range s.Tags {
		_, ps := la.Closure(l, d, mts[t], la.WalkOpts{SkipForeign: true})
		sort.Strings(ps)
		if len(ps) > 0 {
			s.Closure[t] = ps
		}
		if reFallback.MatchString(t) {
			if b, ok := l.Blob(d); ok {
				if m, err := la.Parse(b, mts[t]); err == nil && m.Kind == "index" {
					ls := []string{}
					for _, e := range m.Manifests {
						ls = append(ls, e.Digest)
					}
					sort.Strings(ls)
					s.Listed[t] = ls
				}
			}
		}
	}
	return s
}

func inList(l []string, s string) bool {
	for _, x := range l {
		if x == s {
			return true
		}
	}
	return false
}

func subset(a, b []string) (missing []string) {
	for _, x := range a {
		if !inList(b, x) {
			missing = append(missing, x)
		}
	}
	return missing
}

type problem struct {
	Rule string // A1-marker, A1-index, A2-digest, A3-tag, A3-closure, A4-closure, A5-read, A6-..., A7-...
	What string
}

// judgeState applies A1..A4 to a state c reached by killing the operation. s is the start state,
// f the state the same operation produced when it ran to completion, targets the tags the
// operation is entitled to change. carve is the empty-directory carve-out: no index.json existed
// before and none exists now, so there was no layout yet (only A2 applies).
func judgeState(s, f, c *snap, targets map[string]bool) (ps []problem, carve bool) {
	carve = !s.HasIndex && !c.HasIndex
	for _, d := range c.BadFiles {
		ps = append(ps, problem{"A2-digest", "file " + d + " does not contain the content with that digest"})
	}
	if carve {
		return ps, true
	}
	if s.HasIndex && !c.HasIndex {
		ps = append(ps, problem{"A1-index", "index.json existed before the operation and is gone"})
		return ps, false
	}
	if c.MarkerErr != "" {
		ps = append(ps, problem{"A1-marker", "oci-layout is not a valid marker: " + c.MarkerErr})
	}
	if c.IndexErr != "" {
		ps = append(ps, problem{"A1-index", "index.json is not a complete, valid index: " + c.IndexErr})
		return ps, false
	}
	for t, d := range s.Tags {
		if targets[t] {
			continue
		}
		cd, ok := c.Tags[t]
		switch {
		case !ok:
			ps = append(ps, problem{"A3-tag", fmt.Sprintf("tag %s (not a target of the operation) existed before and is gone", t)})
		case cd != d:
			ps = append(ps, problem{"A3-tag", fmt.Sprintf("tag %s (not a target of the operation) resolved to %s before and resolves to %s now", t, d, cd)})
		default:
			if m := subset(c.Closure[t], s.Closure[t]); len(m) > 0 {
				ps = append(ps, problem{"A3-closure", fmt.Sprintf("tag %s (not a target of the operation) lost parts of its image: %s", t, strings.Join(m, "; "))})
			}
		}
	}
	for t, d := range c.Tags {
		if sd, ok := s.Tags[t]; ok && !targets[t] && sd == d {
			continue // judged by A3
		}
		tolerated := []string{}
		if s.Tags[t] == d {
			tolerated = append(tolerated, s.Closure[t]...)
		}
		if f.Tags[t] == d {
			tolerated = append(tolerated, f.Closure[t]...)
		}
		if m := subset(c.Closure[t], tolerated); len(m) > 0 {
			ps = append(ps, problem{"A4-closure", fmt.Sprintf("tag %s is present and resolves to %s, but parts are missing: %s", t, d, strings.Join(m, "; "))})
		}
	}
	return ps, false
}

// sameAsIntended compares a state x with the intended final state f (A6, A7). s is the start state,
// targets the tags the operation is entitled to change. Extra unreferenced digest files and temp
// files are allowed unless exact is set (a collection ran). Tags that the uninterrupted run creates
// as a side effect (neither present before nor a target: e.g. the ref.name annotation that a tar
// import carries over) are not part of the intended state. tolerated lists differences that the
// statement does not forbid.
func sameAsIntended(s, f, x *snap, targets map[string]bool, exact bool) (ps []problem, tolerated []string) {
	if f.MarkerErr == "" && x.MarkerErr != "" {
		ps = append(ps, problem{"marker", "oci-layout is not a valid marker (" + x.MarkerErr + "), the completed operation leaves a valid one"})
	}
	if f.HasIndex && !x.HasIndex {
		ps = append(ps, problem{"index", "index.json is missing"})
		return
	}
	if f.IndexErr == "" && x.IndexErr != "" {
		ps = append(ps, problem{"index", "index.json is not a valid index: " + x.IndexErr})
		return
	}
	rule := func(t string) string {
		if reFallback.MatchString(t) {
			return "referrers" // the tag is the referrers list of a subject
		}
		return "tags"
	}
	for t, d := range f.Tags {
		_, before := s.Tags[t]
		if !before && !targets[t] {
			if x.Tags[t] != d {
				tolerated = append(tolerated, "side-effect tag "+t+" of the uninterrupted run is not reproduced")
			}
			continue
		}
		xd, ok := x.Tags[t]
		switch {
		case !ok:
			ps = append(ps, problem{rule(t), fmt.Sprintf("tag %s is missing (intended: %s)", t, d)})
		case xd != d:
			if reFallback.MatchString(t) && f.Listed[t] != nil && x.Listed[t] != nil && len(subset(f.Listed[t], x.Listed[t])) == 0 && len(subset(x.Listed[t], f.Listed[t])) == 0 {
				tolerated = append(tolerated, "fallback tag "+t+" names a different index with the same set of referrers")
				continue
			}
			ps = append(ps, problem{rule(t), fmt.Sprintf("tag %s resolves to %s (intended: %s)", t, xd, d)})
		}
	}
	for t, d := range x.Tags {
		if _, ok := f.Tags[t]; ok {
			continue
		}
		if _, before := s.Tags[t]; before || targets[t] {
			ps = append(ps, problem{rule(t), fmt.Sprintf("tag %s -> %s is present (intended: absent)", t, d)})
		} else {
			tolerated = append(tolerated, "tag "+t+" exists that neither the start state nor the uninterrupted run has")
		}
	}
	if m := subset(f.Untagged, x.Untagged); len(m) > 0 {
		ps = append(ps, problem{"untagged", "index entries by digest missing: " + strings.Join(m, " ")})
	}
	if m := subset(x.Untagged, f.Untagged); len(m) > 0 {
		ps = append(ps, problem{"untagged", "index entries by digest that the completed operation does not leave: " + strings.Join(m, " ")})
	}
	var bad, extra []string
	nmiss := 0
	for d := range f.Files {
		if ok, has := x.Files[d]; !has {
			nmiss++ // charged only through the closure of a tag or the operation's own effect
		} else if !ok {
			bad = append(bad, d)
		}
	}
	for d, ok := range x.Files {
		if _, has := f.Files[d]; !has {
			extra = append(extra, d)
			if !ok {
				bad = append(bad, d)
			}
		}
	}
	sort.Strings(bad)
	sort.Strings(extra)
	if nmiss > 0 {
		tolerated = append(tolerated, fmt.Sprintf("%d object(s) of the uninterrupted run's directory are absent", nmiss))
	}
	if len(bad) > 0 {
		ps = append(ps, problem{"objects", "digest-named files with wrong content: " + strings.Join(bad, " ")})
	}
	var extraTmp []string
	for _, o := range x.Others {
		if strings.HasPrefix(o, "blobs/") && !inList(f.Others, o) {
			extraTmp = append(extraTmp, o)
		}
	}
	if exact {
		if len(extra) > 0 {
			ps = append(ps, problem{"garbage", "a collection ran to completion but these unreachable objects survive (the uninterrupted operation removes them): " + strings.Join(extra, " ")})
		}
		if len(extraTmp) > 0 {
			ps = append(ps, problem{"garbage", "a collection ran to completion but these temp files survive: " + strings.Join(extraTmp, " ")})
		}
	} else {
		if len(extra) > 0 {
			tolerated = append(tolerated, fmt.Sprintf("%d extra unreferenced object(s)", len(extra)))
		}
		if len(extraTmp) > 0 {
			tolerated = append(tolerated, fmt.Sprintf("%d left-over temp file(s) below blobs/", len(extraTmp)))
		}
	}
	for t := range x.Tags {
		if m := subset(x.Closure[t], f.Closure[t]); len(m) > 0 {
			ps = append(ps, problem{"closure", fmt.Sprintf("tag %s: %s", t, strings.Join(m, "; "))})
		}
	}
	return ps, tolerated
}

// listing is a compact description of a directory for witnesses.
func listing(dir string) []string {
	var out []string
	_ = filepath.Walk(dir, func(p string, fi os.FileInfo, err error) error {
		if err != nil || fi.IsDir() {
			return nil
		}
		rel, _ := filepath.Rel(dir, p)
		out = append(out, fmt.Sprintf("%s (%d bytes)", rel, fi.Size()))
		return nil
	})
	sort.Strings(out)
	if len(out) > 60 {
		out = append(out[:60], fmt.Sprintf("... %d more", len(out)-60))
	}
	return out
}

func readSmall(p string) string {
	b, err := os.ReadFile(p)
	if err != nil {
		return "<" + err.Error() + ">"
	}
	if len(b) > 2000 {
		return string(b[:2000]) + "..."
	}
	return string(b)
}

func toJSON(v any) string { b, _ := json.Marshal(v); return string(b) }
