// C16 — platform selection returns a runnable image and the best one available.
// Monitor: laws evaluated on the real DescriptorListSearch / GetPlatformDesc / ManifestGet
// (platform option) / Compatible / Match / Better / Parse / String, exhaustively over a
// fixed universe of representative platforms.
package main

import (
	"context"
	"encoding/json"
	"fmt"
	"os"
	"strconv"
	"strings"
	"sync"

	"github.com/opencontainers/go-digest"
	"github.com/regclient/regclient"
	"github.com/regclient/regclient/types/descriptor"
	"github.com/regclient/regclient/types/manifest"
	"github.com/regclient/regclient/types/mediatype"
	v1 "github.com/regclient/regclient/types/oci/v1"
	"github.com/regclient/regclient/types/platform"

	"verif/ev"
	"verif/gen"
	la "verif/layoutaudit"
	"verif/modelreg"
	"verif/rcx"
)

var run *ev.Run

type P = platform.Platform

// the universe: every OS family, every alias, variants, four OS versions, empty fields
var universe = []P{
	{OS: "linux", Architecture: "amd64"},
	{OS: "linux", Architecture: "x86_64"},
	{OS: "linux", Architecture: "x86-64"},
	{OS: "linux", Architecture: "amd64", Variant: "v1"},
	{OS: "linux", Architecture: "amd64", Variant: "v2"},
	{OS: "linux", Architecture: "amd64", Variant: "v3"},
	{OS: "linux", Architecture: "386"},
	{OS: "linux", Architecture: "i386"},
	{OS: "linux", Architecture: "arm64"},
	{OS: "linux", Architecture: "aarch64"},
	{OS: "linux", Architecture: "arm64", Variant: "v8"},
	{OS: "linux", Architecture: "arm64", Variant: "8"},
	{OS: "linux", Architecture: "arm64", Variant: "v9"},
	{OS: "linux", Architecture: "arm"},
	{OS: "linux", Architecture: "arm", Variant: "v5"},
	{OS: "linux", Architecture: "arm", Variant: "v6"},
	{OS: "linux", Architecture: "arm", Variant: "v7"},
	{OS: "linux", Architecture: "arm", Variant: "7"},
	{OS: "linux", Architecture: "arm", Variant: "v8"},
	{OS: "linux", Architecture: "armhf"},
	{OS: "linux", Architecture: "armel"},
	{OS: "linux", Architecture: "ppc64le"},
	{OS: "linux", Architecture: "s390x"},
	{OS: "linux", Architecture: "riscv64"},
	{OS: "linux", Architecture: "ppc64le", Variant: "v1"},
	{OS: "linux", Architecture: "386", Variant: "v1"},
	{OS: "linux", Architecture: "riscv64", Variant: "v1"},
	{OS: "windows", Architecture: "amd64"},
	{OS: "windows", Architecture: "amd64", OSVersion: "10.0.17763.1"},
	{OS: "windows", Architecture: "amd64", OSVersion: "10.0.17763.2000"},
	{OS: "windows", Architecture: "amd64", OSVersion: "10.0.20348.1"},
	{OS: "windows", Architecture: "amd64", OSVersion: "10.0.14393"},
	{OS: "windows", Architecture: "arm64", OSVersion: "10.0.20348.1"},
	{OS: "darwin", Architecture: "amd64"},
	{OS: "darwin", Architecture: "arm64"},
	{OS: "macos", Architecture: "arm64"},
	{OS: "freebsd", Architecture: "amd64"},
	{OS: "freebsd", Architecture: "amd64", OSVersion: "13.1"},
	{OS: "wasip1", Architecture: "wasm"},
	{OS: "linux", Architecture: "amd64", OSVersion: "5.10"},
	{OS: "linux", Architecture: "amd64", OSFeatures: []string{"f1"}},
	{OS: "", Architecture: ""},
	{OS: "unknown", Architecture: "unknown"},
}

// extra platforms of the thorough tier
var universeThorough = []P{
	{OS: "linux", Architecture: "amd64", Variant: "v4"},
	{OS: "linux", Architecture: "arm", Variant: "6"},
	{OS: "linux", Architecture: "arm", Variant: "5"},
	{OS: "linux", Architecture: "mips64le"},
	{OS: "linux", Architecture: "loong64"},
	{OS: "linux", Architecture: "arm64", OSVersion: "6.1"},
	{OS: "windows", Architecture: "amd64", OSVersion: "10.0.17763"},
	{OS: "windows", Architecture: "amd64", OSVersion: "10.0.17763.1", OSFeatures: []string{"win32k"}},
	{OS: "windows", Architecture: "arm64"},
	{OS: "darwin", Architecture: "arm64", Variant: "v8"},
	{OS: "macos", Architecture: "amd64"},
	{OS: "freebsd", Architecture: "arm64"},
	{OS: "linux", Architecture: "386", Variant: "sse2"},
	{OS: "linux", Architecture: "ppc64le", Variant: "power9"},
}

// ---- independent notion of "the requested platform can run this entry" ----------------

func canonArch(a, v string) (string, int) {
	num := func(s string) int {
		n, err := strconv.Atoi(strings.TrimPrefix(s, "v"))
		if err != nil {
			return 0
		}
		return n
	}
	switch a {
	case "x86_64", "x86-64", "amd64":
		n := num(v)
		if n == 0 {
			n = 1
		}
		return "amd64", n
	case "i386", "386":
		return "386", 0
	case "aarch64", "arm64":
		n := num(v)
		if n == 0 {
			n = 8
		}
		return "arm64", n
	case "armhf":
		return "arm", 7
	case "armel":
		return "arm", 6
	case "arm":
		n := num(v)
		if n == 0 {
			n = 7
		}
		return "arm", n
	}
	return a, num(v)
}

func canonOS(o string) string {
	if o == "macos" {
		return "darwin"
	}
	return o
}

func build3(v string) string {
	p := strings.Split(v, ".")
	if len(p) < 4 {
		return v
	}
	return strings.Join(p[:3], ".")
}

func oracleRunnable(host, tgt P) bool {
	ho, to := canonOS(host.OS), canonOS(tgt.OS)
	ha, hv := canonArch(host.Architecture, host.Variant)
	ta, tv := canonArch(tgt.Architecture, tgt.Variant)
	if ha != ta || hv < tv {
		return false
	}
	switch {
	case ho == to:
	case (ho == "darwin" || ho == "windows") && to == "linux":
	default:
		return false
	}
	if ho == "windows" && to == "windows" && host.OSVersion != "" && build3(host.OSVersion) != build3(tgt.OSVersion) {
		return false
	}
	return true
}

// oracleExact: the entry is the requested platform itself (documented alias spellings aside).
func oracleExact(req, p P) bool {
	// os.features are left out on both sides: the statement's ordering does not mention them and the package
	// does not rank by them
	if canonOS(req.OS) != canonOS(p.OS) || req.OSVersion != p.OSVersion {
		return false
	}
	ra, rv := canonArch(req.Architecture, req.Variant)
	pa, pv := canonArch(p.Architecture, p.Variant)
	if ra != pa || rv != pv {
		return false
	}
	// variants that are not numbers ("sse2", "power9") only equal themselves
	if rv == 0 && req.Variant != p.Variant {
		return false
	}
	return true
}

// documentedHost: hosts for which the compatibility rule is spelled out (package documentation and
// user documentation): linux, windows, darwin. For these the independent oracle and the package agree on
// every pair of the universe on the unchanged tree, so a disagreement is decided by the oracle alone.
func documentedHost(h P) bool {
	o := canonOS(h.OS)
	return o == "linux" || o == "windows" || o == "darwin"
}

func ps(p *P) string {
	if p == nil {
		return "<nil>"
	}
	s := p.OS + "/" + p.Architecture
	if p.Variant != "" {
		s += "/" + p.Variant
	}
	if p.OSVersion != "" {
		s += ",osver=" + p.OSVersion
	}
	if len(p.OSFeatures) > 0 {
		s += ",osfeat=" + strings.Join(p.OSFeatures, "+")
	}
	return s
}

func listStr(l []*P) string {
	var s []string
	for _, p := range l {
		s = append(s, ps(p))
	}
	return "[" + strings.Join(s, " ") + "]"
}

var digests []digest.Digest

func mkDescs(l []*P) []descriptor.Descriptor {
	dl := make([]descriptor.Descriptor, len(l))
	for i, p := range l {
		dl[i] = descriptor.Descriptor{MediaType: mediatype.OCI1Manifest, Digest: digests[i], Size: int64(100 + i)}
		if p != nil {
			cp := *p
			dl[i].Platform = &cp
		}
	}
	return dl
}

type stats struct {
	searches, found, notfound, exact, oracleDisagree, tieOrder int64
}

// checkSearch evaluates the laws for one (requested platform, list).
func checkSearch(req P, l []*P, viaManifest bool, st *stats) {
	dl := mkDescs(l)
	var got descriptor.Descriptor
	var err error
	if viaManifest {
		m, merr := manifest.New(manifest.WithOrig(v1.Index{Versioned: v1.IndexSchemaVersion, MediaType: mediatype.OCI1ManifestList, Manifests: dl}))
		if merr != nil {
			run.Violation("harness/manifest.New", merr.Error(), nil)
			return
		}
		var dp *descriptor.Descriptor
		dp, err = manifest.GetPlatformDesc(m, &req)
		if err == nil {
			got = *dp
		}
	} else {
		got, err = descriptor.DescriptorListSearch(dl, descriptor.MatchOpt{Platform: &req})
	}
	st.searches++
	anyCompat, anyMatch, anyOracle := false, false, false
	for _, p := range l {
		if p == nil {
			continue
		}
		if platform.Compatible(req, *p) {
			anyCompat = true
		}
		if platform.Match(req, *p) {
			anyMatch = true
		}
		if oracleRunnable(req, *p) {
			anyOracle = true
		}
	}
	w := map[string]any{"requested": ps(&req), "list": listStr(l)}
	if err != nil {
		st.notfound++
		if anyCompat {
			run.Violation("search/not-found-though-runnable", fmt.Sprintf("request %s list %s: nothing chosen although a compatible entry exists", ps(&req), listStr(l)), w)
		}
		if anyOracle && !anyCompat {
			st.oracleDisagree++
			if documentedHost(req) {
				for _, p := range l {
					if p != nil && oracleRunnable(req, *p) {
						run.Violation("search/not-found-though-runnable-by-documented-rule/"+canonOS(req.OS)+"-runs-"+canonOS(p.OS), fmt.Sprintf("request %s list %s: nothing chosen although %s is runnable by the documented rule (same architecture; Linux entries run on Windows and macOS hosts through the Linux VM; a Windows entry needs the host's build)", ps(&req), listStr(l), ps(p)), w)
						break
					}
				}
			}
		}
		return
	}
	st.found++
	if got.Platform == nil {
		run.Violation("search/chose-no-platform", fmt.Sprintf("request %s list %s: chose an entry without platform", ps(&req), listStr(l)), w)
		return
	}
	c := *got.Platform
	w["chosen"] = ps(&c)
	pkgOK := platform.Compatible(req, c)
	orOK := oracleRunnable(req, c)
	if !pkgOK && !orOK {
		run.Violation("search/not-runnable", fmt.Sprintf("request %s list %s: chose %s which the requested platform cannot run", ps(&req), listStr(l), ps(&c)), w)
	} else if pkgOK != orOK {
		st.oracleDisagree++
	}
	if anyMatch {
		st.exact++
		if !platform.Match(req, c) {
			run.Violation("search/exact-match-passed-over", fmt.Sprintf("request %s list %s: chose %s although an exact match is listed", ps(&req), listStr(l), ps(&c)), w)
		}
	}
	// the same law judged without the package: an entry that spells the request itself (same OS, architecture,
	// variant and os.version, after the documented alias spellings) is listed, so the chosen entry
	// has to be such an entry too - whatever the package's own Match / Better say
	if !oracleExact(req, c) {
		for _, p := range l {
			if p != nil && oracleExact(req, *p) {
				run.Violation("search/exact-match-passed-over/independent", fmt.Sprintf("request %s list %s: chose %s although %s is the requested platform itself", ps(&req), listStr(l), ps(&c), ps(p)), w)
				break
			}
		}
	}
	cmp := platform.NewCompare(req)
	for _, p := range l {
		if p == nil {
			continue
		}
		if cmp.Better(*p, c) {
			run.Violation("search/better-passed-over", fmt.Sprintf("request %s list %s: chose %s although %s ranks strictly better", ps(&req), listStr(l), ps(&c), ps(p)), w)
			break
		}
	}
}

func main() {
	run = ev.Start("C16", "exploration")
	run.Rule("exhaustive: every requested platform of a 40-platform universe x every ordered list (hence every permutation) of length 0..3 over universe+nil, " +
		"plus all ordered length-4 lists over the <=12 entries compatible-or-adjacent to the request; order laws on all triples; parse/print laws on the component cross product; " +
		"non-trivial = an entry was chosen; distinct = distinct (requested, chosen, #compatible) classes")
	run.Assume("'can run' is judged by the package's Compatible and by an independent oracle written from the documented rules; a violation needs both to reject",
		"platform.Local() is linux/amd64 in this sandbox (affects only how short strings are expanded)")
	for i := 0; i < 8; i++ {
		digests = append(digests, digest.FromString(fmt.Sprint("entry", i)))
	}
	if ev.Tier() == "thorough" {
		universe = append(universe, universeThorough...)
	}
	ent := make([]*P, 0, len(universe)+1)
	for i := range universe {
		ent = append(ent, &universe[i])
	}
	ent = append(ent, nil)

	var mu sync.Mutex
	total := stats{}
	var wg sync.WaitGroup
	sem := make(chan struct{}, 16)
	for ri := range universe {
		wg.Add(1)
		sem <- struct{}{}
		go func(ri int) {
			defer wg.Done()
			defer func() { <-sem }()
			req := universe[ri]
			if req.OS == "" {
				return // an empty platform is not a request; it stays in the universe as a list entry
			}
			st := stats{}
			n := len(ent)
			checkSearch(req, nil, false, &st)
			for a := 0; a < n; a++ {
				checkSearch(req, []*P{ent[a]}, a%7 == 0, &st)
				for b := 0; b < n; b++ {
					checkSearch(req, []*P{ent[a], ent[b]}, (a+b)%11 == 0, &st)
					for c := 0; c < n; c++ {
						checkSearch(req, []*P{ent[a], ent[b], ent[c]}, (a+b+c)%97 == 0, &st)
					}
				}
			}
			// length 4 over compatible-or-adjacent entries (12 of them, thorough tier: 18 = 105 k lists per request)
			nearCap := ev.Scale(12, 18)
			var near []*P
			for i := range universe {
				p := &universe[i]
				if platform.Compatible(req, *p) || oracleRunnable(req, *p) {
					near = append(near, p)
				}
			}
			for i := range universe {
				p := &universe[i]
				if len(near) >= nearCap {
					break
				}
				ra, _ := canonArch(req.Architecture, req.Variant)
				pa, _ := canonArch(p.Architecture, p.Variant)
				if ra == pa && !platform.Compatible(req, *p) && !oracleRunnable(req, *p) {
					near = append(near, p)
				}
			}
			if len(near) > nearCap {
				near = near[:nearCap]
			}
			for _, a := range near {
				for _, b := range near {
					for _, c := range near {
						for _, d := range near {
							checkSearch(req, []*P{a, b, c, d}, false, &st)
						}
					}
				}
			}
			// order laws on compatible entries
			cmp := platform.NewCompare(req)
			var comp []P
			for _, p := range universe {
				if platform.Compatible(req, p) {
					comp = append(comp, p)
				}
			}
			for _, a := range comp {
				if cmp.Better(a, a) {
					run.Violation("order/reflexive", fmt.Sprintf("request %s: Better(%s,%s) is true", ps(&req), ps(&a), ps(&a)), nil)
				}
				for _, b := range comp {
					ab, ba := cmp.Better(a, b), cmp.Better(b, a)
					if ab && ba {
						run.Violation("order/symmetric", fmt.Sprintf("request %s: Better holds both ways for %s and %s", ps(&req), ps(&a), ps(&b)), nil)
					}
					for _, c := range comp {
						if ab && cmp.Better(b, c) && !cmp.Better(a, c) {
							run.Violation("order/intransitive", fmt.Sprintf("request %s: %s > %s > %s but not %s > %s", ps(&req), ps(&a), ps(&b), ps(&c), ps(&a), ps(&c)), nil)
						}
						run.Count("order_triples", 1)
					}
				}
			}
			run.Distinct(fmt.Sprintf("%s/compat=%d", ps(&req), len(comp)))
			mu.Lock()
			total.searches += st.searches
			total.found += st.found
			total.notfound += st.notfound
			total.exact += st.exact
			total.oracleDisagree += st.oracleDisagree
			mu.Unlock()
		}(ri)
	}
	wg.Wait()
	run.Eval(int(total.searches))
	run.Count("searches", int(total.searches))
	run.Count("searches_with_choice", int(total.found))
	run.Count("searches_without_choice", int(total.notfound))
	run.Count("searches_with_exact_match_listed", int(total.exact))
	run.Put("disagreements_checked", total.oracleDisagree)
	run.Exhaustive(true)
	run.Sample(map[string]any{"requested": "linux/arm/v7", "list": "[linux/arm/v6 linux/arm/v7 linux/arm64]", "law": "chosen must be linux/arm/v7 (exact match)"})

	osVersionOrder()
	parseLaws()
	manifestGetPlatform()

	if total.found < 1000 {
		run.Inconclusive("too few searches chose an entry")
	}
	os.Exit(run.Finish())
}

// ---- os version order ---------------------------------------------------------------------------
// Among Windows entries that differ only in os.version (same number of dotted components, neither being
// the version the host asked for) the numerically higher version is the better one; the comparison is
// by number, component by component, not by text.
func osVersionOrder() {
	vers := []string{"10.0.17763.1", "10.0.17763.2", "10.0.17763.10", "10.0.17763.99", "10.0.17763.100", "10.0.17763.999", "10.0.17763.1000", "10.0.17763.2000", "10.0.17763.2114",
		"10.0.9200.5", "10.0.14393.10", "10.0.20348.1", "9.13.1.1", "12.4.1.1", "6.3.9600.20000"}
	num := func(v string) []int {
		var out []int
		for _, p := range strings.Split(v, ".") {
			n := 0
			fmt.Sscanf(p, "%d", &n)
			out = append(out, n)
		}
		return out
	}
	less := func(a, b string) bool {
		x, y := num(a), num(b)
		for i := range x {
			if x[i] != y[i] {
				return x[i] < y[i]
			}
		}
		return false
	}
	hosts := []P{{OS: "windows", Architecture: "amd64"}, {OS: "windows", Architecture: "amd64", OSVersion: "10.0.17763.500"}, {OS: "windows", Architecture: "arm64"}}
	for _, h := range hosts {
		cmp := platform.NewCompare(h)
		for _, va := range vers {
			for _, vb := range vers {
				a := P{OS: "windows", Architecture: h.Architecture, OSVersion: va}
				b := P{OS: "windows", Architecture: h.Architecture, OSVersion: vb}
				if va == vb || !oracleRunnable(h, a) || !oracleRunnable(h, b) || !platform.Compatible(h, a) || !platform.Compatible(h, b) {
					continue
				}
				run.Count("os_version_pairs", 1)
				if got, want := cmp.Better(a, b), less(vb, va); got != want {
					run.Violation("order/os-version-not-by-number", fmt.Sprintf("request %s: Better(%s over %s) = %t, the versions compare by number as %s %s %s", ps(&h), va, vb, got, va, map[bool]string{true: ">", false: "<"}[want], vb), nil)
				}
				// and the search picks the higher one in either listing order
				for _, l := range [][]*P{{&a, &b}, {&b, &a}} {
					d, err := descriptor.DescriptorListSearch(mkDescs(l), descriptor.MatchOpt{Platform: &h})
					if err != nil || d.Platform == nil {
						run.Violation("search/not-found-though-runnable", fmt.Sprintf("request %s list %s: nothing chosen", ps(&h), listStr(l)), nil)
						continue
					}
					hi := va
					if less(va, vb) {
						hi = vb
					}
					if d.Platform.OSVersion != hi {
						run.Violation("search/higher-os-version-passed-over", fmt.Sprintf("request %s list %s: chose os.version %s, the numerically higher %s is listed", ps(&h), listStr(l), d.Platform.OSVersion, hi), nil)
					}
				}
			}
		}
	}
	// the exact os.version the host asked for beats every other revision of its build, and a build-only entry
	for _, hv := range []string{"10.0.17763.2114", "10.0.17763.1", "10.0.20348.1"} {
		h := P{OS: "windows", Architecture: "amd64", OSVersion: hv}
		cmp := platform.NewCompare(h)
		exact := P{OS: "windows", Architecture: "amd64", OSVersion: hv}
		others := []string{build3(hv), build3(hv) + ".0", build3(hv) + ".9999", build3(hv) + ".3"}
		for _, ov := range others {
			if ov == hv {
				continue
			}
			o := P{OS: "windows", Architecture: "amd64", OSVersion: ov}
			if !oracleRunnable(h, o) || !platform.Compatible(h, o) {
				continue
			}
			run.Count("os_version_exact_pairs", 1)
			if !cmp.Better(exact, o) || cmp.Better(o, exact) {
				run.Violation("order/exact-os-version-not-preferred", fmt.Sprintf("request %s: the entry with exactly that os.version is not ranked above %s (Better(exact,other)=%t, Better(other,exact)=%t)", ps(&h), ov, cmp.Better(exact, o), cmp.Better(o, exact)), nil)
			}
			for _, l := range [][]*P{{&exact, &o}, {&o, &exact}} {
				d, err := descriptor.DescriptorListSearch(mkDescs(l), descriptor.MatchOpt{Platform: &h})
				if err != nil || d.Platform == nil || d.Platform.OSVersion != hv {
					got := "nothing"
					if err == nil && d.Platform != nil {
						got = d.Platform.OSVersion
					}
					run.Violation("search/exact-os-version-passed-over", fmt.Sprintf("request %s list %s: chose %s although the exact os.version is listed", ps(&h), listStr(l), got), nil)
				}
			}
		}
	}
	if run.Get("os_version_pairs") < 50 || run.Get("os_version_exact_pairs") < 6 {
		run.Inconclusive("too few os.version pairs were comparable")
	}
}

// ---- parse / print laws ------------------------------------------------------------------

func parseLaws() {
	oss := []string{"linux", "windows", "darwin", "macos", "freebsd", "Linux", "WINDOWS"}
	archs := []string{"amd64", "x86_64", "x86-64", "386", "i386", "arm64", "aarch64", "arm", "armhf", "armel", "ppc64le", "s390x", "riscv64", "mips64le", "wasm", "AMD64", "loong64"}
	vars := []string{"", "v1", "v2", "v3", "v5", "v6", "v7", "v8", "8", "7", "6", "5", "v9"}
	vers := []string{"", "10.0.17763.1", "10.0.20348", "13.1"}
	n := 0
	try := func(s string) (P, bool) {
		p, err := platform.Parse(s)
		run.Eval(1)
		n++
		return p, err == nil
	}
	for _, o := range oss {
		for _, a := range archs {
			for _, v := range vars {
				for _, ver := range vers {
					s := o + "/" + a
					if v != "" {
						s += "/" + v
					}
					if ver != "" {
						s += ",osver=" + ver
					}
					p, ok := try(s)
					if !ok {
						run.Violation("parse/rejected", fmt.Sprintf("platform.Parse(%q) rejected a well formed platform string", s), nil)
						continue
					}
					printed := p.String()
					p2, ok := try(printed)
					if !ok || p2.OS != p.OS || p2.Architecture != p.Architecture || p2.Variant != p.Variant {
						run.Violation("parse/print-reparse", fmt.Sprintf("Parse(%q)=%s prints %q which re-parses to %s (ok=%t)", s, ps(&p), printed, ps(&p2), ok), nil)
					} else if p2.String() != printed {
						run.Violation("parse/print-unstable", fmt.Sprintf("Parse(%q) prints %q then %q", s, printed, p2.String()), nil)
					}
					// aliases map to one canonical value: compare with the canonical spelling
					ca, cv := canonArch(strings.ToLower(a), v)
					cs := canonOS(strings.ToLower(o)) + "/" + ca
					switch {
					case ca == "arm":
						cs += "/v" + strconv.Itoa(cv)
					case ca == "amd64" && cv > 1, ca == "arm64" && cv != 8:
						cs += "/v" + strconv.Itoa(cv)
					case ca != "amd64" && ca != "arm64" && ca != "386" && v != "":
						cs += "/" + v
					}
					known := v == ""
					switch ca {
					case "amd64":
						known = v == "" || v == "v1" || v == "v2" || v == "v3"
					case "arm64":
						known = v == "" || v == "v8" || v == "8" || v == "v9"
					case "arm":
						known = v == "" || (len(v) >= 1 && strings.Contains("v5 v6 v7 v8 5 6 7 8", v))
					}
					pc, ok := try(cs)
					if ok && known && !(a == "armhf" || a == "armel" || a == "i386") {
						// aliases that imply a variant override whatever variant was written; skip those for the equality
						if pc.OS != p.OS || pc.Architecture != p.Architecture || pc.Variant != p.Variant {
							run.Violation("parse/alias", fmt.Sprintf("Parse(%q)=%s but the canonical spelling %q parses to %s", s, ps(&p), cs, ps(&pc)), nil)
						}
					}
					if p.OSVersion != ver {
						run.Violation("parse/osver", fmt.Sprintf("Parse(%q) has os version %q", s, p.OSVersion), nil)
					}
				}
			}
		}
	}
	// the documented aliases, spelled out
	for _, c := range [][2]string{{"linux/x86_64", "linux/amd64"}, {"linux/x86-64", "linux/amd64"}, {"linux/aarch64", "linux/arm64"}, {"linux/arm64/v8", "linux/arm64"},
		{"linux/armhf", "linux/arm/v7"}, {"linux/armel", "linux/arm/v6"}, {"linux/i386", "linux/386"}, {"macos/arm64", "darwin/arm64"}, {"linux/arm", "linux/arm/v7"},
		{"linux/amd64/v1", "linux/amd64"}, {"x86_64", "amd64"}, {"aarch64", "arm64"}, {"armhf", "linux/arm/v7"}, {"armel", "linux/arm/v6"}} {
		a, ok1 := try(c[0])
		b, ok2 := try(c[1])
		if !ok1 || !ok2 || a.String() != b.String() || a.OS != b.OS || a.Architecture != b.Architecture || a.Variant != b.Variant {
			run.Violation("parse/alias-table", fmt.Sprintf("alias %q -> %s, canonical %q -> %s", c[0], ps(&a), c[1], ps(&b)), nil)
		}
	}
	for _, bad := range []string{"linux/amd64/v1/extra/../x", "linux/am d64", "linux//amd64", "/amd64", "linux/amd64,foo=bar", "linux/\x00"} {
		if _, ok := try(bad); ok && bad != "linux/amd64/v1/extra/../x" {
			run.Violation("parse/accepts-malformed", fmt.Sprintf("platform.Parse(%q) accepted", bad), nil)
		}
	}
	run.Count("platform_strings", n)
}

// ---- ManifestGet with the platform option against a model registry ------------------------

func manifestGetPlatform() {
	w := modelreg.NewWorld()
	defer w.Close()
	h := w.NewHost("reg")
	rng := ev.Rand("c16/mg")
	rc := rcx.New([]*modelreg.Host{h}, rcx.Opts{})
	ctx := context.Background()
	cases := ev.Scale(150, 1500)
	for i := 0; i < cases; i++ {
		g := gen.New(rng, "sha256")
		k := 1 + rng.Intn(4)
		var entries []*gen.Node
		var plats []*P
		for j := 0; j < k; j++ {
			u := universe[rng.Intn(len(universe))]
			if u.OS == "" {
				continue
			}
			cfg := g.Config("oci", nil, 1)
			l := g.Blob("layer", la.MTOCILayerGz, 20)
			im := g.Image(cfg, []*gen.Node{l}, gen.ImageOpts{Family: "oci", Platform: &la.Platform{OS: u.OS, Architecture: u.Architecture, Variant: u.Variant, OSVersion: u.OSVersion, OSFeatures: u.OSFeatures}})
			entries = append(entries, im)
			up := u
			plats = append(plats, &up)
		}
		if len(entries) == 0 {
			continue
		}
		idx := g.Index("oci", entries, nil, nil)
		repo := fmt.Sprintf("p%d", i)
		g.Tags["t"] = idx.ID
		g.ToHost(h, repo, nil, true)
		req := universe[rng.Intn(len(universe))]
		if req.OS == "" {
			continue
		}
		run.Eval(1)
		m, err := rc.ManifestGet(ctx, rcx.Ref(h, repo, "t"), regclient.WithManifestPlatform(req))
		// expected by the direct search
		want, werr := descriptor.DescriptorListSearch(mkDescsFrom(entries, plats), descriptor.MatchOpt{Platform: &req})
		wit := map[string]any{"requested": ps(&req), "list": listStr(plats)}
		switch {
		case werr != nil && err == nil:
			run.Violation("manifestget/found-unexpected", fmt.Sprintf("ManifestGet(platform %s) on %s returned %s although no entry is selectable", ps(&req), listStr(plats), m.GetDescriptor().Digest), wit)
		case werr == nil && err != nil:
			run.Violation("manifestget/not-found", fmt.Sprintf("ManifestGet(platform %s) on %s failed: %v", ps(&req), listStr(plats), err), wit)
		case werr == nil:
			if m.GetDescriptor().Digest != want.Digest {
				run.Violation("manifestget/wrong-entry", fmt.Sprintf("ManifestGet(platform %s) on %s returned %s, search selects %s", ps(&req), listStr(plats), m.GetDescriptor().Digest, want.Digest), wit)
			}
			raw, _ := m.RawBody()
			var chk struct {
				Config struct{ Digest string }
			}
			_ = json.Unmarshal(raw, &chk)
			run.Count("manifestget_platform_resolved", 1)
		}
	}
}

func mkDescsFrom(entries []*gen.Node, plats []*P) []descriptor.Descriptor {
	dl := make([]descriptor.Descriptor, len(entries))
	for i, e := range entries {
		dl[i] = descriptor.Descriptor{MediaType: e.MT, Digest: digest.Digest(e.Digest), Size: int64(len(e.Content)), Platform: plats[i]}
	}
	return dl
}
