package main

// Option programs: a JSON-able description of 0-5 modification options, turned into
// mod.Opts (public API) or `regctl image mod` flags. Options are rebuilt for every
// application because several of them keep per-application state in their closures.

import (
	"archive/tar"
	"bytes"
	"encoding/json"
	"fmt"
	"math/rand"
	"os"
	"path/filepath"
	"regexp"
	"sort"
	"strconv"
	"strings"
	"time"

	"github.com/opencontainers/go-digest"
	"github.com/regclient/regclient/mod"
	"github.com/regclient/regclient/pkg/archive"
	"github.com/regclient/regclient/types/platform"
	"github.com/regclient/regclient/types/ref"
)

// Opt is one modification option.
type Opt struct {
	Kind string `json:"kind"`
	S1   string `json:"s1,omitempty"`
	S2   string `json:"s2,omitempty"`
	N    int64  `json:"n,omitempty"`
	Set  string `json:"set,omitempty"`   // RFC3339
	Aft  string `json:"after,omitempty"` // RFC3339
	Lbl  string `json:"from_label,omitempty"`
	Base int    `json:"base_layers,omitempty"`
	// Noop: by construction (from what the generator knows about the source) the option asks
	// for a state that already holds.
	Noop bool `json:"noop,omitempty"`
}

func (o Opt) String() string {
	b, _ := json.Marshal(o)
	return string(b)
}

// apiOnly lists kinds that have no regctl flag.
var apiOnly = map[string]bool{"layer-digest-algo": true, "config-digest-algo": true, "manifest-digest-algo": true,
	"config-time-from-label": true, "layer-time-from-label": true}

// Kinds returns the sorted, de-duplicated option kinds of a program.
func Kinds(p []Opt) []string {
	m := map[string]bool{}
	for _, o := range p {
		m[o.Kind] = true
	}
	out := []string{}
	for k := range m {
		out = append(out, k)
	}
	sort.Strings(out)
	return out
}

func kindsKey(p []Opt) string {
	if len(p) == 0 {
		return "none"
	}
	return strings.Join(Kinds(p), "+")
}

func allNoop(p []Opt) bool {
	for _, o := range p {
		if !o.Noop {
			return false
		}
	}
	return true
}

// addTar is the tar stream added by a layer-add option (determined by n).
func addTar(n int64) []byte {
	rng := rand.New(rand.NewSource(n))
	return tarBytes(func(tw *tar.Writer) {
		for i := 0; i < 1+rng.Intn(2); i++ {
			body := fileBody(rng, 10+rng.Intn(300))
			_ = tw.WriteHeader(&tar.Header{Typeflag: tar.TypeReg, Name: fmt.Sprintf("added%d/file%d", n%7, i), Mode: 0o644, Size: int64(len(body)),
				ModTime: tarTimes[rng.Intn(len(tarTimes))], Uname: []string{"", "adder"}[rng.Intn(2)]})
			_, _ = tw.Write(body)
		}
	})
}

func mustTime(s string) time.Time {
	if s == "" {
		return time.Time{}
	}
	t, err := time.Parse(time.RFC3339, s)
	if err != nil {
		panic("bad time in option spec: " + s)
	}
	return t
}

func (o Opt) optTime() mod.OptTime {
	return mod.OptTime{Set: mustTime(o.Set), After: mustTime(o.Aft), FromLabel: o.Lbl, BaseLayers: o.Base}
}

func subst(s, addr string) string { return strings.ReplaceAll(s, addrSRC, addr) }

// Build turns the option into mod.Opts. addr is the source host's address.
func (o Opt) Build(addr string) ([]mod.Opts, error) {
	one := func(m mod.Opts) ([]mod.Opts, error) { return []mod.Opts{m}, nil }
	switch o.Kind {
	case "annotation":
		return one(mod.WithAnnotation(o.S1, o.S2))
	case "annotation-base":
		r, err := ref.New(subst(o.S1, addr))
		if err != nil {
			return nil, err
		}
		return one(mod.WithAnnotationOCIBase(r, digest.Digest(o.S2)))
	case "annotation-promote":
		return one(mod.WithAnnotationPromoteCommon())
	case "label-to-annotation":
		return one(mod.WithLabelToAnnotation())
	case "label":
		return one(mod.WithLabel(o.S1, o.S2))
	case "env":
		return one(mod.WithEnv(o.S1, o.S2))
	case "config-cmd", "config-entrypoint":
		v := []string{}
		if o.S1 != "" {
			if err := json.Unmarshal([]byte(o.S1), &v); err != nil {
				return nil, err
			}
		}
		if o.Kind == "config-cmd" {
			return one(mod.WithConfigCmd(v))
		}
		return one(mod.WithConfigEntrypoint(v))
	case "config-platform":
		p, err := platform.Parse(o.S1)
		if err != nil {
			return nil, err
		}
		return one(mod.WithConfigPlatform(p))
	case "volume-add":
		return one(mod.WithVolumeAdd(o.S1))
	case "volume-rm":
		return one(mod.WithVolumeRm(o.S1))
	case "expose-add":
		return one(mod.WithExposeAdd(o.S1))
	case "expose-rm":
		return one(mod.WithExposeRm(o.S1))
	case "buildarg-rm":
		return one(mod.WithBuildArgRm(o.S1, regexp.MustCompile(regexp.QuoteMeta(o.S2))))
	case "config-time":
		return one(mod.WithConfigTimestamp(o.optTime()))
	case "layer-time":
		return one(mod.WithLayerTimestamp(o.optTime()))
	case "time":
		return []mod.Opts{mod.WithConfigTimestamp(o.optTime()), mod.WithLayerTimestamp(o.optTime())}, nil
	case "file-tar-time":
		return one(mod.WithFileTarTime(o.S1, o.optTime()))
	case "config-time-from-label":
		return one(mod.WithConfigTimestampFromLabel(o.S1))
	case "layer-time-from-label":
		return one(mod.WithLayerTimestampFromLabel(o.S1))
	case "layer-add":
		var ps []platform.Platform
		if o.S2 != "" {
			p, err := platform.Parse(o.S2)
			if err != nil {
				return nil, err
			}
			ps = append(ps, p)
		}
		return one(mod.WithLayerAddTar(bytes.NewReader(addTar(o.N)), o.S1, ps))
	case "layer-rm-index":
		return one(mod.WithLayerRmIndex(int(o.N)))
	case "layer-rm-created-by":
		re, err := regexp.Compile(o.S1)
		if err != nil {
			return nil, err
		}
		return one(mod.WithLayerRmCreatedBy(*re))
	case "layer-strip-file":
		return one(mod.WithLayerStripFile(o.S1))
	case "layer-compress":
		var a archive.CompressType
		if err := a.UnmarshalText([]byte(o.S1)); err != nil {
			return nil, err
		}
		return one(mod.WithLayerCompression(a))
	case "reproducible":
		return one(mod.WithLayerReproducible())
	case "digest-algo":
		return one(mod.WithDigestAlgo(digest.Algorithm(o.S1)))
	case "layer-digest-algo":
		return one(mod.WithLayerDigestAlgo(digest.Algorithm(o.S1)))
	case "config-digest-algo":
		return one(mod.WithConfigDigestAlgo(digest.Algorithm(o.S1)))
	case "manifest-digest-algo":
		return one(mod.WithManifestDigestAlgo(digest.Algorithm(o.S1)))
	case "to-oci":
		return one(mod.WithManifestToOCI())
	case "to-docker":
		return one(mod.WithManifestToDocker())
	case "to-oci-referrers":
		return one(mod.WithManifestToOCIReferrers())
	case "data-max":
		return one(mod.WithData(o.N))
	case "rebase":
		return one(mod.WithRebase())
	case "rebase-ref":
		rOld, err := ref.New(subst(o.S1, addr))
		if err != nil {
			return nil, err
		}
		rNew, err := ref.New(subst(o.S2, addr))
		if err != nil {
			return nil, err
		}
		return one(mod.WithRebaseRefs(rOld, rNew))
	case "external-urls-rm":
		return one(mod.WithExternalURLsRm())
	}
	return nil, fmt.Errorf("unknown option kind %q", o.Kind)
}

func (o Opt) timeFlag() string {
	var ps []string
	if o.Set != "" {
		ps = append(ps, "set="+o.Set)
	}
	if o.Aft != "" {
		ps = append(ps, "after="+o.Aft)
	}
	if o.Lbl != "" {
		ps = append(ps, "from-label="+o.Lbl)
	}
	if o.Base > 0 {
		ps = append(ps, "base-layers="+strconv.Itoa(o.Base))
	}
	return strings.Join(ps, ",")
}

// Flags turns the option into regctl flags; files needed (layer tars) are written below dir.
func (o Opt) Flags(addr, dir string) ([]string, error) {
	kv := func(a, b string) string {
		if b == "" {
			return a
		}
		return a + "=" + b
	}
	switch o.Kind {
	case "annotation", "label", "env":
		return []string{"--" + o.Kind, kv(o.S1, o.S2)}, nil
	case "annotation-base":
		return []string{"--annotation-base", subst(o.S1, addr) + "," + o.S2}, nil
	case "annotation-promote", "label-to-annotation", "reproducible", "to-oci", "to-docker", "to-oci-referrers", "rebase", "external-urls-rm":
		return []string{"--" + o.Kind}, nil
	case "config-cmd", "config-entrypoint", "config-platform", "volume-add", "volume-rm", "expose-add", "expose-rm", "layer-strip-file", "layer-compress", "digest-algo", "layer-rm-created-by":
		return []string{"--" + o.Kind + "=" + o.S1}, nil
	case "buildarg-rm":
		return []string{"--buildarg-rm", o.S1 + "=" + o.S2}, nil
	case "config-time", "layer-time", "time":
		return []string{"--" + o.Kind, o.timeFlag()}, nil
	case "file-tar-time":
		return []string{"--file-tar-time", "filename=" + o.S1 + "," + o.timeFlag()}, nil
	case "layer-add":
		p := filepath.Join(dir, fmt.Sprintf("add-%d.tar", o.N))
		if err := os.WriteFile(p, addTar(o.N), 0o644); err != nil {
			return nil, err
		}
		v := "tar=" + p
		if o.S1 != "" {
			v += ",mediaType=" + o.S1
		}
		if o.S2 != "" {
			v += ",platform=" + o.S2
		}
		return []string{"--layer-add", v}, nil
	case "layer-rm-index":
		return []string{"--layer-rm-index=" + strconv.FormatInt(o.N, 10)}, nil
	case "data-max":
		return []string{"--data-max=" + strconv.FormatInt(o.N, 10)}, nil
	case "rebase-ref":
		return []string{"--rebase-ref", subst(o.S1, addr) + "," + subst(o.S2, addr)}, nil
	}
	return nil, fmt.Errorf("option kind %q has no regctl flag", o.Kind)
}

// ---------------------------------------------------------------------------------
// generation

func pick[T any](rng *rand.Rand, xs ...T) T { return xs[rng.Intn(len(xs))] }

const (
	tFuture = "2031-01-01T00:00:00Z"
	tLate   = "2030-01-01T00:00:00Z"
)

var optWeights = []struct {
	kind string
	w    int
}{
	{"annotation", 6}, {"annotation-base", 2}, {"annotation-promote", 2}, {"label-to-annotation", 2}, {"label", 5}, {"env", 5},
	{"config-cmd", 2}, {"config-entrypoint", 2}, {"config-platform", 2}, {"volume-add", 1}, {"volume-rm", 1}, {"expose-add", 1}, {"expose-rm", 1},
	{"buildarg-rm", 3}, {"config-time", 4}, {"layer-time", 5}, {"time", 3}, {"file-tar-time", 3}, {"config-time-from-label", 1}, {"layer-time-from-label", 1},
	{"layer-add", 8}, {"layer-rm-index", 7}, {"layer-rm-created-by", 6}, {"layer-strip-file", 6}, {"layer-compress", 7}, {"reproducible", 4},
	{"digest-algo", 4}, {"layer-digest-algo", 2}, {"config-digest-algo", 1}, {"manifest-digest-algo", 2},
	{"to-oci", 4}, {"to-docker", 4}, {"to-oci-referrers", 3}, {"data-max", 8}, {"rebase", 3}, {"rebase-ref", 3}, {"external-urls-rm", 3},
}

func platPrefix(rng *rand.Rand, allowStar bool) string {
	switch rng.Intn(6) {
	case 0:
		return "[linux/amd64]"
	case 1:
		return "[linux/arm64,linux/arm/v7]"
	case 2:
		if allowStar {
			return "[*]"
		}
	}
	return ""
}

// genOpt draws one option. Parameters are biased towards values that apply to the source
// (existing layers, matching history lines), with a share of deliberately idle ones.
func genOpt(rng *rand.Rand, s *Source, kind string, wantNoop bool) Opt {
	o := Opt{Kind: kind}
	oci := s.Family == "oci"
	noLayerFile := !s.HasEmptyTar // layer-file steps drop tars without entries; such sources are never called a no-op for them
	switch kind {
	case "annotation":
		if wantNoop {
			if rng.Intn(2) == 0 || !oci {
				o.S1, o.S2, o.Noop = platPrefix(rng, true)+"org.example.absent", "", true
			} else {
				// every OCI manifest of the source carries keep=1
				o.S1, o.S2, o.Noop = pick(rng, "", "[*]", "[linux/amd64]")+annotKeep, "1", true
			}
			break
		}
		o.S1 = platPrefix(rng, true) + pick(rng, "org.example.new", annotKeep, "org.example.common")
		o.S2 = pick(rng, "x", "2", "", "value with spaces")
	case "annotation-base":
		o.S1, o.S2 = addrSRC+"/"+baseRepo+":cur", pick(rng, "sha256:"+strings.Repeat("ab", 32), "sha256:"+strings.Repeat("0", 64))
	case "label":
		if wantNoop {
			if rng.Intn(2) == 0 {
				o.S1, o.S2, o.Noop = platPrefix(rng, false)+"org.example.absent", "", true
			} else {
				o.S1, o.S2, o.Noop = platPrefix(rng, false)+"org.example.name", "app", !s.Attest
			}
			break
		}
		o.S1 = platPrefix(rng, false) + pick(rng, "org.example.new", "org.example.name", "org.example.ts")
		o.S2 = pick(rng, "y", "", "2022-02-02T00:00:00Z")
	case "env":
		if wantNoop {
			if rng.Intn(2) == 0 {
				o.S1, o.S2, o.Noop = platPrefix(rng, false)+"ABSENT", "", true
			} else {
				o.S1, o.S2, o.Noop = platPrefix(rng, false)+"FOO", "bar", !s.Attest
			}
			break
		}
		o.S1 = platPrefix(rng, false) + pick(rng, "FOO", "NEW", "PATH", "IMG")
		o.S2 = pick(rng, "baz", "", "a=b")
	case "config-cmd":
		if wantNoop && !s.Attest {
			o.S1, o.Noop = `["/app/bin","serve"]`, true
			break
		}
		o.S1 = pick(rng, `["/bin/sh","-c","true"]`, ``, `["x"]`)
	case "config-entrypoint":
		if wantNoop && !s.Attest {
			o.S1, o.Noop = `["/entry"]`, true
			break
		}
		o.S1 = pick(rng, `["/bin/sh"]`, ``, `["a","b"]`)
	case "config-platform":
		o.S1 = pick(rng, "linux/arm64", "linux/amd64", "linux/arm/v7", "windows/amd64")
	case "volume-add":
		o.S1 = pick(rng, "/data", "/new")
		o.Noop = o.S1 == "/data" && !s.Attest
	case "volume-rm":
		o.S1 = pick(rng, "/data", "/absent")
		o.Noop = o.S1 == "/absent"
	case "expose-add":
		o.S1 = pick(rng, "80/tcp", "8080/tcp")
		o.Noop = o.S1 == "80/tcp" && !s.Attest
	case "expose-rm":
		o.S1 = pick(rng, "80/tcp", "9/udp")
		o.Noop = o.S1 == "9/udp"
	case "buildarg-rm":
		if wantNoop {
			o.S1, o.S2, o.Noop = "NOSUCHARG", "x", true
			break
		}
		o.S1, o.S2 = "VERSION", "1.2.3"
	case "config-time", "layer-time", "time", "file-tar-time":
		if kind == "file-tar-time" {
			o.S1 = pick(rng, "inner.tar", "inner.tar", "absent.tar")
		}
		if wantNoop && kind == "layer-time" && s.UniformTime && noLayerFile && rng.Intn(2) == 0 {
			// every entry already carries exactly this time: nothing is to be changed, no layer to be repackaged
			o.Set, o.Noop = tUniformStr, true
			break
		}
		if wantNoop && (kind == "config-time" || noLayerFile) {
			// nothing is after 2030, so nothing is to be changed
			o.Set, o.Aft, o.Noop = tFuture, tLate, true
			break
		}
		o.Set = pick(rng, "2022-01-01T00:00:00Z", "2020-06-06T06:06:06Z", "2024-12-31T23:59:59Z")
		switch rng.Intn(4) {
		case 0:
			o.Aft = o.Set
		case 1:
			o.Aft = pick(rng, "2021-01-01T00:00:00Z", "2023-06-01T00:00:00Z")
		}
		if rng.Intn(4) == 0 {
			o.Base = 1 + rng.Intn(2)
		}
		if rng.Intn(6) == 0 {
			o.Lbl, o.Set = "org.example.ts", ""
		}
	case "config-time-from-label", "layer-time-from-label":
		o.S1 = pick(rng, "org.example.ts", "org.example.ts", "org.example.absent")
	case "layer-add":
		o.N = int64(1 + rng.Intn(5))
		if oci {
			o.S1 = pick(rng, "", "", "application/vnd.oci.image.layer.v1.tar+zstd", "application/vnd.oci.image.layer.v1.tar", "application/vnd.oci.image.layer.v1.tar+gzip")
		} else {
			o.S1 = pick(rng, "", "", "application/vnd.docker.image.rootfs.diff.tar.gzip", "application/vnd.docker.image.rootfs.diff.tar")
		}
		if rng.Intn(3) == 0 {
			o.S2 = pick(rng, "linux/amd64", "linux/arm64")
		}
	case "layer-rm-index":
		o.N = int64(rng.Intn(s.MinLayers + 1)) // sometimes one past the end (rejected)
		if rng.Intn(2) == 0 && s.MinLayers > 0 {
			o.N = int64(rng.Intn(s.MinLayers))
		}
	case "layer-rm-created-by":
		im := s.Images[rng.Intn(len(s.Images))]
		switch {
		case len(im.CreatedBy) > 0 && rng.Intn(4) > 0:
			cb := im.CreatedBy[rng.Intn(len(im.CreatedBy))]
			if len(cb) > 24 {
				cb = cb[:24]
			}
			o.S1 = regexp.QuoteMeta(cb)
		case rng.Intn(2) == 0:
			o.S1 = "COPY"
		default:
			o.S1 = "build-step-[0-9]+"
		}
	case "layer-strip-file":
		if wantNoop && noLayerFile {
			o.S1, o.Noop = "does/not/exist", true
			break
		}
		o.S1 = pick(rng, "strip", "strip/me.txt", "/etc/conf", "inner.tar", "app0", "nothing/here")
	case "layer-compress":
		o.S1 = pick(rng, "gzip", "zstd", "none")
		if wantNoop {
			for c := range s.Comps {
				o.S1 = c
			}
		}
		o.Noop = len(s.Comps) == 1 && s.Comps[o.S1]
	case "reproducible":
		o.Noop = !s.HasNames && noLayerFile
	case "digest-algo", "layer-digest-algo", "config-digest-algo", "manifest-digest-algo":
		o.S1 = pick(rng, "sha512", "sha512", "sha256")
		if wantNoop {
			o.S1 = "sha256"
		}
		o.Noop = o.S1 == "sha256"
	case "to-oci":
		o.Noop = oci
	case "to-docker":
		o.Noop = !oci
	case "to-oci-referrers":
		o.Noop = !s.Attest
	case "data-max":
		o.N = pick(rng, int64(0), 0, 64, 700, 4096, 1<<20)
		if wantNoop {
			o.N = -1
		}
		o.Noop = o.N == -1 || (o.N == 0 && !s.HasInlineCfg && !s.HasInlineLayer && !s.HasInlineChild)
	case "rebase-ref":
		o.S1, o.S2 = addrSRC+"/"+baseRepo+":old", addrSRC+"/"+baseRepo+":cur"
		if rng.Intn(5) == 0 {
			o.S2 = o.S1 // same old and new: documented as "skip rebase"
			o.Noop = s.HasBase
		}
	case "external-urls-rm":
		o.Noop = !s.HasForeign
	}
	return o
}

// genProgram draws 0-5 options.
func genProgram(rng *rand.Rand, s *Source, noopProgram bool) []Opt {
	n := []int{0, 1, 1, 1, 2, 2, 2, 3, 3, 4, 5}[rng.Intn(11)]
	total := 0
	for _, w := range optWeights {
		total += w.w
	}
	var p []Opt
	for tries := 0; len(p) < n && tries < 200; tries++ {
		r := rng.Intn(total)
		kind := ""
		for _, w := range optWeights {
			if r < w.w {
				kind = w.kind
				break
			}
			r -= w.w
		}
		// steer towards applicable options
		switch kind {
		case "rebase", "rebase-ref":
			if !s.HasBase && rng.Intn(8) > 0 {
				continue
			}
		case "external-urls-rm":
			if !s.HasForeign && rng.Intn(3) > 0 {
				continue
			}
		case "to-oci-referrers":
			if !s.Attest && rng.Intn(3) > 0 {
				continue
			}
		case "file-tar-time":
			if !s.HasInnerTar && rng.Intn(3) > 0 {
				continue
			}
		case "layer-rm-index":
			if s.Index && rng.Intn(4) > 0 { // rejected by design on an index
				continue
			}
		case "annotation-promote":
			if !s.Index && rng.Intn(3) > 0 {
				continue
			}
		}
		o := genOpt(rng, s, kind, noopProgram || rng.Intn(7) == 0)
		if noopProgram && !o.Noop {
			continue
		}
		p = append(p, o)
	}
	return p
}
