package main

// Independent well-formedness auditor over RAW storage (model registry state or layout
// files). Uses layoutaudit's manifest parser (encoding/json only) plus the standard
// library / klauspost zstd for decompression. Nothing here goes through regclient.

import (
	"bytes"
	"compress/gzip"
	"encoding/json"
	"fmt"
	"io"

	"github.com/klauspost/compress/zstd"

	la "verif/layoutaudit"
)

// Problem is one breach of a clause of the statement.
type Problem struct {
	Clause   string `json:"clause"` // missing-content size-mismatch digest-mismatch inline-data-mismatch diffid-count diffid-mismatch layer-undecodable history-misaligned ...
	Role     string `json:"role"`   // config layer index-entry artifact-blob subject manifest
	Manifest string `json:"manifest,omitempty"`
	Detail   string `json:"detail"`
}

func (p Problem) Key() string { return p.Clause + "/" + p.Role }

// AuditStats counts what the auditor actually looked at.
type AuditStats struct {
	Manifests, Descriptors, InlineData, DiffIDs, Histories, Subjects, IndexEntries int
	ForeignSkipped, CompressionMTNotes, SubjectAbsent, ConfigsUnknown              int
}

func (a *AuditStats) add(b AuditStats) {
	a.Manifests += b.Manifests
	a.Descriptors += b.Descriptors
	a.InlineData += b.InlineData
	a.DiffIDs += b.DiffIDs
	a.Histories += b.Histories
	a.Subjects += b.Subjects
	a.IndexEntries += b.IndexEntries
	a.ForeignSkipped += b.ForeignSkipped
	a.CompressionMTNotes += b.CompressionMTNotes
	a.SubjectAbsent += b.SubjectAbsent
	a.ConfigsUnknown += b.ConfigsUnknown
}

// decompress returns the uncompressed bytes of a layer, chosen by magic number.
func decompress(b []byte) (out []byte, kind string, err error) {
	switch {
	case len(b) >= 3 && b[0] == 0x1f && b[1] == 0x8b && b[2] == 0x08:
		r, err := gzip.NewReader(bytes.NewReader(b))
		if err != nil {
			return nil, "gzip", err
		}
		out, err = io.ReadAll(r)
		return out, "gzip", err
	case len(b) >= 4 && b[0] == 0x28 && b[1] == 0xb5 && b[2] == 0x2f && b[3] == 0xfd:
		r, err := zstd.NewReader(bytes.NewReader(b))
		if err != nil {
			return nil, "zstd", err
		}
		defer r.Close()
		out, err = io.ReadAll(r)
		return out, "zstd", err
	}
	return b, "none", nil
}

func mtCompression(mt string) string {
	switch mt {
	case la.MTOCILayerGz, la.MTD2LayerGz, la.MTD2Foreign, mtOCIForeignGz:
		return "gzip"
	case la.MTOCILayerZst, mtD2LayerZstd, "application/vnd.oci.image.layer.nondistributable.v1.tar+zstd":
		return "zstd"
	case la.MTOCILayer, la.MTD2Layer, "application/vnd.oci.image.layer.nondistributable.v1.tar":
		return "none"
	}
	return ""
}

// AuditManifest checks one stored manifest against the storage it lives in.
// It returns the problems, the manifest children (digests of manifests to descend into).
func AuditManifest(st la.Store, digest string, raw []byte, mtHint string) (probs []Problem, kids []la.Desc, stats AuditStats, pm *la.Manifest) {
	stats.Manifests++
	add := func(clause, role, f string, a ...any) {
		probs = append(probs, Problem{Clause: clause, Role: role, Manifest: digest, Detail: fmt.Sprintf(f, a...)})
	}
	if !la.Matches(digest, raw) {
		add("digest-mismatch", "manifest", "stored manifest bytes (%d) do not hash to %s", len(raw), digest)
	}
	pm, err := la.Parse(raw, mtHint)
	if err != nil {
		add("unparsable", "manifest", "%v", err)
		return probs, nil, stats, nil
	}
	checkDesc := func(d la.Desc, role string, isMan bool) (content []byte, present bool) {
		stats.Descriptors++
		if isMan {
			content, _, present = st.Manifest(d.Digest)
		} else {
			content, present = st.Blob(d.Digest)
		}
		if !present && len(d.URLs) > 0 {
			stats.ForeignSkipped++
		} else if !present {
			add("missing-content", role, "descriptor %s (%s, size %d) names content that does not exist at the target", d.Digest, d.MediaType, d.Size)
		} else {
			if !la.Matches(d.Digest, content) {
				add("digest-mismatch", role, "content stored as %s does not hash to it", d.Digest)
			}
			if int64(len(content)) != d.Size {
				add("size-mismatch", role, "descriptor %s says size %d, content at the target has %d bytes", d.Digest, d.Size, len(content))
			}
		}
		if data, has, derr := d.InlineData(); has {
			stats.InlineData++
			switch {
			case derr != nil:
				add("inline-data-mismatch", role, "descriptor %s data field is not base64: %v", d.Digest, derr)
			case present && !bytes.Equal(data, content):
				add("inline-data-mismatch", role, "descriptor %s (size %d) carries %d bytes of inline data hashing to %s, not the content it names", d.Digest, d.Size, len(data), la.Digest("sha256", data))
			case !present && (!la.Matches(d.Digest, data) || int64(len(data)) != d.Size):
				add("inline-data-mismatch", role, "descriptor %s (size %d) carries %d bytes of inline data that do not hash to it", d.Digest, d.Size, len(data))
			}
		}
		return content, present
	}
	switch pm.Kind {
	case "index":
		for _, e := range pm.Manifests {
			stats.IndexEntries++
			isMan := la.IsManifestMT(e.MediaType)
			if _, ok := checkDesc(e, "index-entry", isMan); ok && isMan {
				kids = append(kids, e)
			}
		}
	case "artifact":
		for _, b := range pm.Blobs {
			checkDesc(b, "artifact-blob", false)
		}
	case "image":
		var cfgBytes []byte
		cfgOK := false
		if pm.Config != nil {
			cfgBytes, cfgOK = checkDesc(*pm.Config, "config", false)
		}
		layers := make([][]byte, len(pm.Layers))
		have := make([]bool, len(pm.Layers))
		for i, l := range pm.Layers {
			layers[i], have[i] = checkDesc(l, "layer", false)
		}
		if cfgOK && pm.Config != nil && (pm.Config.MediaType == la.MTOCIConfig || pm.Config.MediaType == la.MTD2Config) {
			var cfg struct {
				RootFS *struct {
					DiffIDs []string `json:"diff_ids"`
				} `json:"rootfs"`
				History []struct {
					EmptyLayer bool `json:"empty_layer"`
				} `json:"history"`
			}
			if err := json.Unmarshal(cfgBytes, &cfg); err != nil {
				add("unparsable", "config", "config %s is not JSON: %v", pm.Config.Digest, err)
			} else {
				if cfg.RootFS != nil && cfg.RootFS.DiffIDs != nil {
					ids := cfg.RootFS.DiffIDs
					if len(ids) != len(pm.Layers) {
						add("diffid-count", "config", "config %s has %d diff_ids for %d layers", pm.Config.Digest, len(ids), len(pm.Layers))
					}
					for i := 0; i < len(ids) && i < len(pm.Layers); i++ {
						if !have[i] {
							continue
						}
						uc, kind, err := decompress(layers[i])
						if err != nil {
							add("layer-undecodable", "layer", "layer %d %s looks like %s but does not decompress: %v", i, pm.Layers[i].Digest, kind, err)
							continue
						}
						stats.DiffIDs++
						if want := mtCompression(pm.Layers[i].MediaType); want != "" && want != kind {
							stats.CompressionMTNotes++
						}
						if !la.Matches(ids[i], uc) {
							alg, _, _ := la.SplitDigest(ids[i])
							add("diffid-mismatch", "layer", "diff_ids[%d]=%s but layer %d (%s, %s) uncompressed (%d bytes) hashes to %s", i, ids[i], i, pm.Layers[i].Digest, kind, len(uc), la.Digest(alg, uc))
						}
					}
				}
				if len(cfg.History) > 0 {
					stats.Histories++
					n := 0
					for _, h := range cfg.History {
						if !h.EmptyLayer {
							n++
						}
					}
					if n != len(pm.Layers) {
						add("history-misaligned", "config", "config %s history has %d non-empty entries (of %d) for %d layers", pm.Config.Digest, n, len(cfg.History), len(pm.Layers))
					}
				}
			}
		} else if pm.Config != nil {
			stats.ConfigsUnknown++
		}
	}
	if pm.Subject != nil && pm.Subject.Digest != "" {
		stats.Subjects++
		if content, _, ok := st.Manifest(pm.Subject.Digest); ok {
			if int64(len(content)) != pm.Subject.Size {
				add("size-mismatch", "subject", "subject descriptor %s says size %d, manifest at the target has %d bytes", pm.Subject.Digest, pm.Subject.Size, len(content))
			}
		} else {
			stats.SubjectAbsent++
		}
	}
	return probs, kids, stats, pm
}

// AuditClosure audits top and everything reachable from it through index entries.
// It returns the set of manifest digests visited.
func AuditClosure(st la.Store, top string) (probs []Problem, stats AuditStats, seen map[string]*la.Manifest) {
	seen = map[string]*la.Manifest{}
	var walk func(d, mt string)
	walk = func(d, mt string) {
		if _, ok := seen[d]; ok {
			return
		}
		raw, smt, ok := st.Manifest(d)
		if !ok {
			probs = append(probs, Problem{Clause: "missing-content", Role: "result", Manifest: d, Detail: "manifest " + d + " does not exist at the target"})
			seen[d] = nil
			return
		}
		if mt == "" {
			mt = smt
		}
		p, kids, s, pm := AuditManifest(st, d, raw, mt)
		seen[d] = pm
		probs = append(probs, p...)
		stats.add(s)
		for _, k := range kids {
			walk(k.Digest, k.MediaType)
		}
	}
	walk(top, "")
	return probs, stats, seen
}
