package main

// Source images for C13: real tar layers (gzip / zstd / uncompressed), configs whose
// rootfs.diff_ids are the sha256 of the uncompressed tars and whose history lines up with
// the layers (including empty_layer entries), single images and indexes, Docker and OCI
// media types, referrers, inline data, foreign layers (content present at the source),
// attestation-style children (docker reference annotations) and a base image pair for
// rebase. Every byte is rendered by the harness (gen.Obj), never by regclient.

import (
	"archive/tar"
	"bytes"
	"compress/gzip"
	"encoding/base64"
	"encoding/json"
	"fmt"
	"math/rand"
	"os"
	"sort"
	"time"

	"github.com/klauspost/compress/zstd"

	"verif/copyeng"
	"verif/gen"
	la "verif/layoutaudit"
)

const (
	mtD2LayerZstd   = "application/vnd.docker.image.rootfs.diff.tar.zstd"
	mtOCIForeignGz  = "application/vnd.oci.image.layer.nondistributable.v1.tar+gzip"
	mtInToto        = "application/vnd.in-toto+json"
	mtSBOM          = "application/vnd.example.sbom.v1+json"
	annotKeep       = "org.example.keep"
	annotBaseName   = "org.opencontainers.image.base.name"
	annotBaseDigest = "org.opencontainers.image.base.digest"
	srcRepo         = "proj/app"
	baseRepo        = "proj/base"
	srcTag          = "v1"
	addrSRC         = "{SRC}" // placeholder for the source host address inside option specs
)

// Obj is one stored object.
type Obj struct {
	Digest string
	MT     string
	Raw    []byte
	IsMan  bool
}

// LayerFacts is what the generator knows about one layer.
type LayerFacts struct {
	Digest, DiffID, MT, Comp string
	Size                     int
	Foreign, Inline, Empty   bool
	NonTar                   bool
	Files                    []string
}

// ImgFacts is what the generator knows about one image manifest.
type ImgFacts struct {
	Digest    string
	Platform  string
	Layers    []LayerFacts
	CreatedBy []string // created_by of the non-empty history entries, in layer order
	NHistory  int
	Attest    bool
}

// Source is one generated source world content.
type Source struct {
	Seed      int64
	Family    string
	Index     bool
	Objs      []Obj // source repository, children before parents
	BaseObjs  []Obj // base repository
	Top       Obj
	Images    []*ImgFacts
	Referrers []struct{ Digest, Subject string }
	// features
	Attest, HasBase, HasForeign, HasEmptyTar, HasNames, HasInnerTar bool
	HasInlineCfg, HasInlineLayer, HasInlineChild, HistNoCreated     bool
	HasArgLayer                                                     bool // a layer-producing history entry whose text is "ARG VERSION=1.2.3"
	HasStripFile, IndexAnnot                                        bool
	UniformTime                                                     bool // every tar entry of every layer carries tUniform (a build with a fixed epoch)
	Comps                                                           map[string]bool
	MinLayers                                                       int
	BaseOld, BaseNew                                                string // digests in the base repository
	BaseKeep                                                        int    // layers shared with the old base
}

// Describe returns a compact, JSON-able description for witnesses and samples.
func (s *Source) Describe() map[string]any {
	imgs := []map[string]any{}
	for _, im := range s.Images {
		ls := []string{}
		for _, l := range im.Layers {
			t := l.Comp
			if l.Foreign {
				t += "+foreign"
			}
			if l.Inline {
				t += "+inline"
			}
			if l.Empty {
				t += "+emptytar"
			}
			if l.NonTar {
				t = "nontar"
			}
			ls = append(ls, t)
		}
		imgs = append(imgs, map[string]any{"digest": im.Digest, "platform": im.Platform, "layers": ls, "history_entries": im.NHistory, "created_by": im.CreatedBy, "attestation": im.Attest})
	}
	return map[string]any{"source_seed": s.Seed, "family": s.Family, "index": s.Index, "top": s.Top.Digest, "top_media_type": s.Top.MT, "images": imgs,
		"referrers": len(s.Referrers), "attestation_child": s.Attest, "rebase_base": s.HasBase, "inline_config": s.HasInlineCfg, "inline_layer": s.HasInlineLayer,
		"inline_index_entry": s.HasInlineChild, "history_entry_without_created": s.HistNoCreated, "foreign_layer": s.HasForeign}
}

// ShapeKey is the coarse shape class of the source.
func (s *Source) ShapeKey() string {
	k := s.Family
	if s.Index {
		k += fmt.Sprintf("/index%d", len(s.Images))
	} else {
		k += "/single"
	}
	if len(s.Referrers) > 0 {
		k += "+ref"
	}
	if s.Attest {
		k += "+att"
	}
	if s.HasForeign {
		k += "+foreign"
	}
	if s.UniformTime {
		k += "+uniformtime"
	}
	if s.HasInlineCfg || s.HasInlineLayer || s.HasInlineChild {
		k += "+inline"
	}
	cs := []string{}
	for c := range s.Comps {
		cs = append(cs, c)
	}
	sort.Strings(cs)
	return k + "/" + fmt.Sprint(cs)
}

var tarTimes = []time.Time{
	time.Date(2019, 1, 1, 0, 0, 0, 0, time.UTC),
	time.Date(2021, 6, 1, 12, 0, 0, 0, time.UTC),
	time.Date(2023, 3, 3, 3, 3, 3, 0, time.UTC),
	time.Date(2025, 5, 5, 5, 5, 5, 0, time.UTC),
}

// tUniform is the single time stamp of a source built with a fixed epoch.
var tUniform = tarTimes[1]

const tUniformStr = "2021-06-01T12:00:00Z"

func tarBytes(fn func(tw *tar.Writer)) []byte {
	var b bytes.Buffer
	tw := tar.NewWriter(&b)
	fn(tw)
	_ = tw.Close()
	return b.Bytes()
}

func fileBody(rng *rand.Rand, n int) []byte {
	b := make([]byte, n)
	for i := range b {
		b[i] = "abcdefghijklmnop \n"[rng.Intn(18)]
	}
	return b
}

// layerTar builds a small real tar. It returns the bytes and the file names in it.
func layerTar(rng *rand.Rand, idx int, names, innerTar, strip, uniform bool) ([]byte, []string) {
	var files []string
	raw := tarBytes(func(tw *tar.Writer) {
		add := func(h *tar.Header, body []byte) {
			h.Size = int64(len(body))
			if h.ModTime.IsZero() {
				h.ModTime = tarTimes[rng.Intn(len(tarTimes))]
			}
			if uniform {
				h.ModTime = tUniform
			}
			if names && rng.Intn(2) == 0 {
				h.Uname, h.Gname = "root", "wheel"
			}
			switch rng.Intn(4) {
			case 0:
				h.Format = tar.FormatPAX
				h.AccessTime = tarTimes[rng.Intn(len(tarTimes))]
				h.ChangeTime = tarTimes[rng.Intn(len(tarTimes))]
				if uniform {
					h.AccessTime, h.ChangeTime = tUniform, tUniform
				}
			case 1:
				h.Format = tar.FormatGNU
			}
			_ = tw.WriteHeader(h)
			if len(body) > 0 {
				_, _ = tw.Write(body)
			}
			files = append(files, h.Name)
		}
		dir := fmt.Sprintf("app%d/", idx)
		add(&tar.Header{Typeflag: tar.TypeDir, Name: dir, Mode: 0o755}, nil)
		add(&tar.Header{Typeflag: tar.TypeReg, Name: dir + "bin", Mode: 0o755}, fileBody(rng, 40+rng.Intn(1500)))
		if rng.Intn(2) == 0 {
			add(&tar.Header{Typeflag: tar.TypeReg, Name: "etc/conf", Mode: 0o644, Uid: 1000, Gid: 1000}, fileBody(rng, rng.Intn(200)))
		}
		if rng.Intn(3) == 0 {
			add(&tar.Header{Typeflag: tar.TypeSymlink, Name: dir + "link", Linkname: "bin", Mode: 0o777}, nil)
		}
		if strip {
			add(&tar.Header{Typeflag: tar.TypeDir, Name: "strip/", Mode: 0o755}, nil)
			add(&tar.Header{Typeflag: tar.TypeReg, Name: "strip/me.txt", Mode: 0o644}, fileBody(rng, 30))
		}
		if innerTar {
			inner := tarBytes(func(iw *tar.Writer) {
				for j := 0; j < 2; j++ {
					body := fileBody(rng, 20+rng.Intn(60))
					_ = iw.WriteHeader(&tar.Header{Typeflag: tar.TypeReg, Name: fmt.Sprintf("in%d.txt", j), Mode: 0o644, Size: int64(len(body)), ModTime: tarTimes[rng.Intn(len(tarTimes))]})
					_, _ = iw.Write(body)
				}
			})
			add(&tar.Header{Typeflag: tar.TypeReg, Name: "inner.tar", Mode: 0o644}, inner)
		}
		if rng.Intn(6) == 0 {
			add(&tar.Header{Typeflag: tar.TypeReg, Name: dir + "big", Mode: 0o644}, fileBody(rng, 20000+rng.Intn(60000)))
		}
	})
	return raw, files
}

// compress packs a layer the way some other tool might have: the gzip level is not the one the
// client itself would use, so a layer that is repackaged without need gets a different digest.
func compress(raw []byte, comp string, level int) []byte {
	var b bytes.Buffer
	switch comp {
	case "gzip":
		w, _ := gzip.NewWriterLevel(&b, level)
		_, _ = w.Write(raw)
		_ = w.Close()
	case "zstd":
		w, _ := zstd.NewWriter(&b)
		_, _ = w.Write(raw)
		_ = w.Close()
	default:
		return raw
	}
	return b.Bytes()
}

func layerMT(family, comp string, foreign bool) string {
	if foreign {
		if family == "docker" {
			return la.MTD2Foreign
		}
		return mtOCIForeignGz
	}
	if family == "docker" {
		switch comp {
		case "zstd":
			return mtD2LayerZstd
		case "none":
			return la.MTD2Layer
		}
		return la.MTD2LayerGz
	}
	switch comp {
	case "zstd":
		return la.MTOCILayerZst
	case "none":
		return la.MTOCILayer
	}
	return la.MTOCILayerGz
}

type builder struct {
	rng *rand.Rand
	s   *Source
	// in which list new objects go
	base bool
	seen map[string]bool
	addr string
}

func (b *builder) put(mt string, raw []byte, isMan bool) Obj {
	o := Obj{Digest: la.Digest("sha256", raw), MT: mt, Raw: raw, IsMan: isMan}
	key := fmt.Sprint(b.base, o.Digest)
	if b.seen[key] {
		return o
	}
	b.seen[key] = true
	if b.base {
		b.s.BaseObjs = append(b.s.BaseObjs, o)
	} else {
		b.s.Objs = append(b.s.Objs, o)
	}
	return o
}

func desc(o Obj, extra ...gen.KV) gen.Obj {
	d := gen.Obj{{K: "mediaType", V: o.MT}, {K: "digest", V: o.Digest}, {K: "size", V: len(o.Raw)}}
	return append(d, extra...)
}

type histEnt struct {
	CreatedBy string
	Empty     bool
	Created   string // "" = absent
}

func histJSON(h []histEnt) []gen.Obj {
	out := []gen.Obj{}
	for _, e := range h {
		o := gen.Obj{}
		if e.Created != "" {
			o = append(o, gen.KV{K: "created", V: e.Created})
		}
		o = append(o, gen.KV{K: "created_by", V: e.CreatedBy})
		if e.Empty {
			o = append(o, gen.KV{K: "empty_layer", V: true})
		}
		out = append(out, o)
	}
	return out
}

var histTimes = []string{"2020-02-02T02:02:02Z", "2022-07-07T07:07:07.123456789Z", "2024-04-04T04:04:04Z"}

type layerBuilt struct {
	obj   Obj
	facts LayerFacts
	hist  []histEnt // the non-empty entry followed by optional empty ones
}

func (b *builder) layer(family string, idx int, allowSpecial bool) layerBuilt {
	rng := b.rng
	s := b.s
	comp := []string{"gzip", "gzip", "zstd", "none"}[rng.Intn(4)]
	lf := LayerFacts{Comp: comp}
	var raw []byte
	if allowSpecial && rng.Intn(14) == 0 {
		raw = make([]byte, 1024) // a tar with no entries
		lf.Empty = true
		s.HasEmptyTar = true
	} else {
		names := rng.Intn(3) == 0
		inner := rng.Intn(5) == 0
		strip := rng.Intn(3) == 0
		raw, lf.Files = layerTar(rng, idx, names, inner, strip, s.UniformTime)
		s.HasNames = s.HasNames || names
		s.HasInnerTar = s.HasInnerTar || inner
		s.HasStripFile = s.HasStripFile || strip
	}
	if allowSpecial && rng.Intn(12) == 0 {
		lf.Foreign = true
		comp, lf.Comp = "gzip", "gzip"
		s.HasForeign = true
	}
	blob := compress(raw, comp, []int{gzip.DefaultCompression, gzip.BestSpeed, gzip.BestCompression, gzip.HuffmanOnly}[rng.Intn(4)])
	lf.MT = layerMT(family, comp, lf.Foreign)
	o := b.put(lf.MT, blob, false)
	lf.Digest, lf.DiffID, lf.Size = o.Digest, la.Digest("sha256", raw), len(blob)
	if allowSpecial && !lf.Foreign && len(blob) < 3000 && rng.Intn(10) == 0 {
		lf.Inline = true
		s.HasInlineLayer = true
	}
	s.Comps[comp] = true
	cb := []string{
		fmt.Sprintf("RUN |1 VERSION=1.2.3 /bin/sh -c build-step-%d # buildkit", idx),
		fmt.Sprintf("COPY dir%d /app%d # buildkit", idx, idx),
		fmt.Sprintf("/bin/sh -c #(nop) ADD file:%04x in / ", rng.Intn(65536)),
	}[rng.Intn(3)]
	if allowSpecial && len(blob)%9 == 0 {
		// history text of a layer-producing step that reads like a build-argument declaration (what a builder
		// writes is free text; decided by the blob length so that the draws of every other source stay as they were)
		cb = "ARG VERSION=1.2.3"
		s.HasArgLayer = true
	}
	h := []histEnt{{CreatedBy: cb, Created: histTimes[rng.Intn(len(histTimes))]}}
	for rng.Intn(3) == 0 {
		h = append(h, histEnt{CreatedBy: []string{"ENV A=B", "CMD [\"/app/bin\" \"serve\"]", "LABEL org.example.name=app", "ARG VERSION=1.2.3"}[rng.Intn(4)], Empty: true, Created: histTimes[rng.Intn(len(histTimes))]})
	}
	return layerBuilt{obj: o, facts: lf, hist: h}
}

type imgOpts struct {
	family   string
	platform la.Platform
	layers   []layerBuilt
	lead     []histEnt
	annot    map[string]string
	noHist   bool
	inlCfg   bool
	extraEnv string
}

func (b *builder) image(o imgOpts) (Obj, *ImgFacts) {
	rng := b.rng
	manMT, cfgMT := la.MTOCIManifest, la.MTOCIConfig
	if o.family == "docker" {
		manMT, cfgMT = la.MTD2Manifest, la.MTD2Config
	}
	facts := &ImgFacts{Platform: o.platform.OS + "/" + o.platform.Architecture}
	if o.platform.Variant != "" {
		facts.Platform += "/" + o.platform.Variant
	}
	diff := []string{}
	hist := append([]histEnt{}, o.lead...)
	for _, l := range o.layers {
		diff = append(diff, l.facts.DiffID)
		hist = append(hist, l.hist...)
		facts.Layers = append(facts.Layers, l.facts)
		facts.CreatedBy = append(facts.CreatedBy, l.hist[0].CreatedBy)
	}
	env := []string{"PATH=/usr/bin:/bin", "FOO=bar"}
	if o.extraEnv != "" {
		env = append(env, o.extraEnv)
	}
	cfg := gen.Obj{{K: "created", V: "2023-01-01T01:01:01Z"}, {K: "architecture", V: o.platform.Architecture}, {K: "os", V: o.platform.OS}}
	if o.platform.Variant != "" {
		cfg = append(cfg, gen.KV{K: "variant", V: o.platform.Variant})
	}
	cfg = append(cfg, gen.KV{K: "config", V: gen.Obj{{K: "Env", V: env}, {K: "Entrypoint", V: []string{"/entry"}}, {K: "Cmd", V: []string{"/app/bin", "serve"}},
		{K: "Labels", V: map[string]string{"org.example.name": "app", "org.example.ts": "2021-01-01T00:00:00Z"}},
		{K: "ExposedPorts", V: map[string]any{"80/tcp": map[string]any{}}}, {K: "Volumes", V: map[string]any{"/data": map[string]any{}}}}},
		gen.KV{K: "rootfs", V: gen.Obj{{K: "type", V: "layers"}, {K: "diff_ids", V: diff}}})
	if !o.noHist {
		cfg = append(cfg, gen.KV{K: "history", V: histJSON(hist)})
		facts.NHistory = len(hist)
	}
	cb, _ := json.Marshal(cfg)
	cfgObj := b.put(cfgMT, cb, false)
	var cd gen.Obj
	if o.inlCfg {
		cd = desc(cfgObj, gen.KV{K: "data", V: base64.StdEncoding.EncodeToString(cb)})
	} else {
		cd = desc(cfgObj)
	}
	ls := []gen.Obj{}
	for _, l := range o.layers {
		var extra []gen.KV
		if l.facts.Foreign {
			extra = append(extra, gen.KV{K: "urls", V: []string{"http://" + b.addr + "/external/" + l.obj.Digest}})
		}
		if l.facts.Inline {
			extra = append(extra, gen.KV{K: "data", V: base64.StdEncoding.EncodeToString(l.obj.Raw)})
		}
		ls = append(ls, desc(l.obj, extra...))
	}
	man := gen.Obj{{K: "schemaVersion", V: 2}, {K: "mediaType", V: manMT}, {K: "config", V: cd}, {K: "layers", V: ls}}
	if len(o.annot) > 0 {
		man = append(man, gen.KV{K: "annotations", V: o.annot})
	}
	var mb []byte
	switch rng.Intn(3) {
	case 0:
		mb, _ = json.MarshalIndent(man, "", "  ")
	case 1:
		mb, _ = json.MarshalIndent(man, "", "\t")
		mb = append(mb, '\n')
	default:
		mb, _ = json.Marshal(man)
	}
	mo := b.put(manMT, mb, true)
	facts.Digest = mo.Digest
	return mo, facts
}

// artifact builds a referrer (OCI image manifest with artifactType and subject).
func (b *builder) artifact(subject Obj, n int) Obj {
	empty := b.put(la.MTOCIEmpty, []byte("{}"), false)
	body, _ := json.Marshal(map[string]any{"sbom": n, "for": subject.Digest, "pad": fileBody(b.rng, 10+b.rng.Intn(100))})
	blob := b.put(mtSBOM, body, false)
	man := gen.Obj{{K: "schemaVersion", V: 2}, {K: "mediaType", V: la.MTOCIManifest}, {K: "artifactType", V: mtSBOM},
		{K: "config", V: desc(empty)}, {K: "layers", V: []gen.Obj{desc(blob)}}, {K: "subject", V: desc(subject)},
		{K: "annotations", V: map[string]string{"org.example.referrer": fmt.Sprint(n)}}}
	mb, _ := json.Marshal(man)
	o := b.put(la.MTOCIManifest, mb, true)
	b.s.Referrers = append(b.s.Referrers, struct{ Digest, Subject string }{o.Digest, subject.Digest})
	return o
}

// attestation builds a BuildKit-style attestation manifest for an image of an index.
func (b *builder) attestation(of Obj) (Obj, *ImgFacts) {
	st, _ := json.Marshal(map[string]any{"_type": "https://in-toto.io/Statement/v0.1", "subject": of.Digest, "pad": string(fileBody(b.rng, 30))})
	l := b.put(mtInToto, st, false)
	cfg, _ := json.Marshal(gen.Obj{{K: "architecture", V: "unknown"}, {K: "os", V: "unknown"}, {K: "config", V: gen.Obj{}},
		{K: "rootfs", V: gen.Obj{{K: "type", V: "layers"}, {K: "diff_ids", V: []string{l.Digest}}}}})
	c := b.put(la.MTOCIConfig, cfg, false)
	man := gen.Obj{{K: "schemaVersion", V: 2}, {K: "mediaType", V: la.MTOCIManifest}, {K: "config", V: desc(c)},
		{K: "layers", V: []gen.Obj{desc(l, gen.KV{K: "annotations", V: map[string]string{"in-toto.io/predicate-type": "https://slsa.dev/provenance/v0.2"}})}},
		{K: "annotations", V: map[string]string{annotKeep: "1"}}}
	mb, _ := json.Marshal(man)
	mo := b.put(la.MTOCIManifest, mb, true)
	return mo, &ImgFacts{Digest: mo.Digest, Platform: "unknown/unknown", Attest: true,
		Layers: []LayerFacts{{Digest: l.Digest, DiffID: l.Digest, MT: mtInToto, Comp: "none", Size: len(st), NonTar: true}}}
}

var platforms = []la.Platform{{OS: "linux", Architecture: "amd64"}, {OS: "linux", Architecture: "arm64"}, {OS: "linux", Architecture: "arm", Variant: "v7"}}

// BuildSource generates one source deterministically from seed.
// addr is the address of the source host (embedded in base-image annotations and foreign
// URLs); the PRNG sequence does not depend on it.
func BuildSource(seed int64, addr string) *Source {
	rng := rand.New(rand.NewSource(seed))
	s := &Source{Seed: seed, Comps: map[string]bool{}}
	b := &builder{rng: rng, s: s, seen: map[string]bool{}, addr: addr}
	s.Family = "oci"
	if rng.Intn(3) == 0 {
		s.Family = "docker"
	}
	s.Index = rng.Intn(5) < 2
	s.UniformTime = rng.Intn(5) == 0
	nImg := 1
	if s.Index {
		nImg = 2 + rng.Intn(2)
	}
	s.HasBase = rng.Intn(3) == 0
	s.HistNoCreated = rng.Intn(12) == 0
	noHist := rng.Intn(14) == 0 && !s.HasBase

	// base image pair (old: shared with the image; new: what a rebase should switch to)
	var baseOldLayers []layerBuilt
	var baseLead []histEnt
	if s.HasBase {
		b.base = true
		s.BaseKeep = 1 + rng.Intn(2)
		if rng.Intn(2) == 0 {
			baseLead = []histEnt{{CreatedBy: "ARG VERSION=1.2.3", Empty: true, Created: histTimes[0]}}
		}
		for i := 0; i < s.BaseKeep; i++ {
			baseOldLayers = append(baseOldLayers, b.layer(s.Family, 100+i, false))
		}
		old, _ := b.image(imgOpts{family: s.Family, platform: platforms[0], layers: baseOldLayers, lead: baseLead})
		var nl []layerBuilt
		for i := 0; i < 1+rng.Intn(2); i++ {
			nl = append(nl, b.layer(s.Family, 200+i, false))
		}
		nw, _ := b.image(imgOpts{family: s.Family, platform: platforms[0], layers: nl})
		s.BaseOld, s.BaseNew = old.Digest, nw.Digest
		b.base = false
	}

	// shared layer between children of an index
	var shared *layerBuilt
	if s.Index && rng.Intn(2) == 0 {
		l := b.layer(s.Family, 50, true)
		shared = &l
	}
	var imgs []Obj
	s.MinLayers = 99
	for i := 0; i < nImg; i++ {
		var ls []layerBuilt
		var lead []histEnt
		if s.HasBase {
			// the base layers must also live in the source repository
			for _, bl := range baseOldLayers {
				b.put(bl.obj.MT, bl.obj.Raw, false)
				ls = append(ls, bl)
			}
			lead = baseLead
		} else if rng.Intn(3) == 0 {
			lead = []histEnt{{CreatedBy: "ARG VERSION=1.2.3", Empty: true, Created: histTimes[1]}}
		}
		if shared != nil {
			ls = append(ls, *shared)
		}
		for n := rng.Intn(4); n > 0 || len(ls) == 0; n-- {
			ls = append(ls, b.layer(s.Family, i*10+len(ls), true))
		}
		if s.HistNoCreated && i == 0 {
			l := &ls[len(ls)-1]
			l.hist = append([]histEnt{}, l.hist...)
			l.hist[0].Created = ""
		}
		annot := map[string]string{}
		if s.Family == "oci" {
			annot[annotKeep] = "1"
			if rng.Intn(2) == 0 {
				annot["org.example.common"] = "shared"
			}
			if i == 0 && rng.Intn(2) == 0 {
				annot["org.example.only0"] = "x"
			}
			if s.HasBase && !s.Index {
				annot[annotBaseName] = b.addr + "/" + baseRepo + ":cur"
				annot[annotBaseDigest] = s.BaseOld
			}
		}
		inl := rng.Intn(8) == 0
		s.HasInlineCfg = s.HasInlineCfg || inl
		mo, f := b.image(imgOpts{family: s.Family, platform: platforms[i%len(platforms)], layers: ls, lead: lead, annot: annot, noHist: noHist, inlCfg: inl,
			extraEnv: fmt.Sprintf("IMG=%d", i)})
		imgs = append(imgs, mo)
		s.Images = append(s.Images, f)
		if len(ls) < s.MinLayers {
			s.MinLayers = len(ls)
		}
	}
	if !s.Index {
		s.Top = imgs[0]
	} else {
		idxMT := la.MTOCIIndex
		if s.Family == "docker" {
			idxMT = la.MTD2List
		}
		inlineChild := rng.Intn(7) == 0
		s.HasInlineChild = inlineChild
		es := []gen.Obj{}
		for i, mo := range imgs {
			p := platforms[i%len(platforms)]
			extra := []gen.KV{{K: "platform", V: p}}
			if inlineChild && i == 0 {
				extra = append(extra, gen.KV{K: "data", V: base64.StdEncoding.EncodeToString(mo.Raw)})
			}
			es = append(es, desc(mo, extra...))
		}
		if s.Family == "oci" && rng.Intn(3) == 0 {
			s.Attest = true
			am, af := b.attestation(imgs[0])
			s.Images = append(s.Images, af)
			es = append(es, desc(am, gen.KV{K: "platform", V: la.Platform{OS: "unknown", Architecture: "unknown"}},
				gen.KV{K: "annotations", V: map[string]string{"vnd.docker.reference.type": "attestation-manifest", "vnd.docker.reference.digest": imgs[0].Digest}}))
		}
		idx := gen.Obj{{K: "schemaVersion", V: 2}, {K: "mediaType", V: idxMT}, {K: "manifests", V: es}}
		if s.Family == "oci" {
			an := map[string]string{annotKeep: "1"}
			if s.HasBase {
				an[annotBaseName] = b.addr + "/" + baseRepo + ":cur"
				an[annotBaseDigest] = s.BaseOld
			}
			idx = append(idx, gen.KV{K: "annotations", V: an})
			s.IndexAnnot = true
		}
		ib, _ := json.Marshal(idx)
		s.Top = b.put(idxMT, ib, true)
	}
	// referrers
	if rng.Intn(3) == 0 {
		b.artifact(s.Top, 1)
		if rng.Intn(2) == 0 {
			b.artifact(s.Top, 2)
		}
		if s.Index && rng.Intn(2) == 0 {
			b.artifact(imgs[0], 3)
		}
	}
	return s
}

// Populate writes the source (and the base repository) into the endpoints.
func (s *Source) Populate(src copyeng.Endpoint, base copyeng.Endpoint) error {
	for _, o := range s.BaseObjs {
		if o.IsMan {
			base.Host.PutManifest(base.Repo, "sha256", o.MT, o.Raw, "")
		} else {
			base.Host.PutBlob(base.Repo, "sha256", o.Raw)
		}
	}
	if s.HasBase {
		base.Host.SetTag(base.Repo, "cur", s.BaseNew)
		base.Host.SetTag(base.Repo, "old", s.BaseOld)
	}
	if !src.IsDir() {
		for _, o := range s.Objs {
			if o.IsMan {
				src.Host.PutManifest(src.Repo, "sha256", o.MT, o.Raw, "")
			} else {
				src.Host.PutBlob(src.Repo, "sha256", o.Raw)
			}
		}
		src.Host.SetTag(src.Repo, srcTag, s.Top.Digest)
		return nil
	}
	if err := os.MkdirAll(src.Dir, 0o755); err != nil {
		return err
	}
	for _, o := range s.Objs {
		if err := gen.WriteLayoutBlob(src.Dir, o.Digest, o.Raw); err != nil {
			return err
		}
	}
	entries := []gen.Obj{desc(s.Top, gen.KV{K: "annotations", V: map[string]string{la.AnnotRefName: srcTag}})}
	// referrers fallback tags, the way a producer without the referrers API leaves them
	bySubject := map[string][]string{}
	var subjects []string
	for _, r := range s.Referrers {
		if len(bySubject[r.Subject]) == 0 {
			subjects = append(subjects, r.Subject)
		}
		bySubject[r.Subject] = append(bySubject[r.Subject], r.Digest)
	}
	for _, sub := range subjects {
		var es []gen.Obj
		for _, d := range bySubject[sub] {
			for _, o := range s.Objs {
				if o.Digest == d {
					var m struct {
						Annotations map[string]string `json:"annotations"`
					}
					_ = json.Unmarshal(o.Raw, &m)
					es = append(es, desc(o, gen.KV{K: "artifactType", V: mtSBOM}, gen.KV{K: "annotations", V: m.Annotations}))
				}
			}
		}
		fb, _ := json.Marshal(gen.Obj{{K: "schemaVersion", V: 2}, {K: "mediaType", V: la.MTOCIIndex}, {K: "manifests", V: es}})
		fd := la.Digest("sha256", fb)
		if err := gen.WriteLayoutBlob(src.Dir, fd, fb); err != nil {
			return err
		}
		entries = append(entries, gen.Obj{{K: "mediaType", V: la.MTOCIIndex}, {K: "digest", V: fd}, {K: "size", V: len(fb)},
			{K: "annotations", V: map[string]string{la.AnnotRefName: copyeng.FallbackTag(sub)}}})
	}
	return gen.WriteLayoutIndex(src.Dir, entries)
}
