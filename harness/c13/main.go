// C13 — image modification yields a well-formed image and leaves the source untouched.
//
// Monitor: after mod.Apply / `regctl image mod` succeeded, an independent auditor (audit.go)
// re-derives every descriptor of every manifest WRITTEN during the run (manifest PUTs in the
// target's request log / new files of a layout) and of the closure of the returned reference
// from the RAW storage of the target: digest / size / inline data against the content
// present, diff_ids against the decompressed layers, non-empty history against the layer
// count, index entries against the rewritten children. The source's raw state is compared
// before / after, no-op programs must return the original digest, and the same program is
// applied twice (same process; and twice in separate regctl processes with
// SOURCE_DATE_EPOCH set) and must return the same digest.
package main

import (
	"bytes"
	"context"
	"crypto/sha256"
	"encoding/hex"
	"encoding/json"
	"fmt"
	"io"
	"log/slog"
	"math/rand"
	"os"
	"os/exec"
	"path/filepath"
	"regexp"
	"runtime/debug"
	"sort"
	"strings"
	"sync"
	"time"

	"github.com/regclient/regclient"
	"github.com/regclient/regclient/mod"
	"github.com/regclient/regclient/scheme/reg"
	"github.com/regclient/regclient/types/ref"

	"verif/copyeng"
	"verif/ev"
	la "verif/layoutaudit"
	"verif/modelreg"
	"verif/rcx"
)

// Case is one scenario; together with VERIF_SEED-independent SrcSeed it is reproducible.
type Case struct {
	Idx     int    `json:"idx"`
	Name    string `json:"name,omitempty"` // set for the fixed regression core
	SrcSeed int64  `json:"source_seed"`
	SrcOn   string `json:"source_on"` // reg | dir
	Tgt     string `json:"target"`    // same-digest same-newtag replace other-repo other-reg layout
	Cache   bool   `json:"client_cache"`
	CLI     bool   `json:"via_regctl"`
	Prog    []Opt  `json:"program"`
}

// Finding is a problem attributed to a step of a case.
type Finding struct {
	Problem
	Step string `json:"step"`
}

// Outcome is what one execution of a case observed.
type Outcome struct {
	Case      Case
	Src       *Source
	ApplyErr  string
	Hung      bool
	Findings  []Finding
	Result    string // digest returned by the first application
	Result2   string
	Changed   bool
	Stats     AuditStats
	Counters  map[string]int
	Requests  []string
	Written   []string
	NoopCheck bool
	Raw       map[string]string // manifests named by findings, as stored at the target
}

func (o *Outcome) add(step, clause, role, man, f string, a ...any) {
	o.Findings = append(o.Findings, Finding{Problem: Problem{Clause: clause, Role: role, Manifest: man, Detail: fmt.Sprintf(f, a...)}, Step: step})
}

func (o *Outcome) has(key string) *Finding {
	for i := range o.Findings {
		if o.Findings[i].Key() == key {
			return &o.Findings[i]
		}
	}
	return nil
}

var (
	scratchRoot string
	regctlBin   string
	caseSeq     struct {
		sync.Mutex
		n int
	}
)

func newScratch() string {
	caseSeq.Lock()
	caseSeq.n++
	n := caseSeq.n
	caseSeq.Unlock()
	d := filepath.Join(scratchRoot, fmt.Sprintf("w%06d", n))
	_ = os.MkdirAll(d, 0o755)
	return d
}

type world struct {
	W        *modelreg.World
	hs, hd   *modelreg.Host
	src      copyeng.Endpoint
	base     copyeng.Endpoint
	S        *Source
	dir      string
	rc       *regclient.RegClient
	srcRef   ref.Ref
	addr     string
	cleanups []func()
}

func (w *world) close() {
	w.W.Close()
	if os.Getenv("C13_KEEP") == "" {
		_ = os.RemoveAll(w.dir)
	}
}

func newWorld(c Case) (*world, error) {
	w := &world{W: modelreg.NewWorld(), dir: newScratch()}
	w.hs = w.W.NewHost("src")
	w.hd = w.W.NewHost("dst")
	w.hs.Cfg.ReferrersAPI, w.hd.Cfg.ReferrersAPI = true, true
	w.addr = w.hs.Addr()
	w.S = BuildSource(c.SrcSeed, w.addr)
	if c.SrcOn == "dir" {
		w.src = copyeng.Endpoint{Dir: filepath.Join(w.dir, "src")}
	} else {
		w.src = copyeng.Endpoint{Host: w.hs, Repo: srcRepo}
	}
	w.base = copyeng.Endpoint{Host: w.hs, Repo: baseRepo}
	if err := w.S.Populate(w.src, w.base); err != nil {
		return nil, err
	}
	o := rcx.Opts{Extra: []regclient.Opt{regclient.WithSlog(slog.New(slog.NewTextHandler(io.Discard, nil)))}}
	if c.Cache {
		o.RegOpts = append(o.RegOpts, reg.WithCache(5*time.Minute, 500))
	}
	w.rc = rcx.New([]*modelreg.Host{w.hs, w.hd}, o)
	w.srcRef = w.src.Ref(srcTag)
	return w, nil
}

// target returns the endpoint and tag of the k-th application ("" tag = default: same
// repository by digest, no WithRefTgt).
func (w *world) target(c Case, k int) (copyeng.Endpoint, string) {
	switch c.Tgt {
	case "same-newtag":
		return w.src, fmt.Sprintf("out%d", k)
	case "replace":
		return w.src, srcTag
	case "other-repo":
		if c.SrcOn == "dir" {
			return copyeng.Endpoint{Dir: filepath.Join(w.dir, fmt.Sprintf("other%d", k))}, "out"
		}
		return copyeng.Endpoint{Host: w.hs, Repo: fmt.Sprintf("proj/out%d", k)}, "out"
	case "other-reg":
		return copyeng.Endpoint{Host: w.hd, Repo: fmt.Sprintf("mirror/app%d", k)}, "out"
	case "layout":
		return copyeng.Endpoint{Dir: filepath.Join(w.dir, fmt.Sprintf("tgt%d", k))}, "out"
	}
	return w.src, ""
}

func sameEndpoint(a, b copyeng.Endpoint) bool {
	if a.IsDir() || b.IsDir() {
		return a.Dir == b.Dir
	}
	return a.Host == b.Host && a.Repo == b.Repo
}

// rawSnapshot fingerprints the raw state of an endpoint: every object by content hash and
// every tag by the digest(s) it resolves to.
func rawSnapshot(e copyeng.Endpoint) map[string]string {
	out := map[string]string{}
	if !e.IsDir() {
		for k, v := range e.Host.Snapshot()[e.Repo] {
			out[k] = v
		}
		return out
	}
	l := la.Layout{Dir: e.Dir}
	files, others := l.DigestFiles()
	for d, p := range files {
		b, _ := os.ReadFile(p)
		s := sha256.Sum256(b)
		out["obj/"+d] = hex.EncodeToString(s[:])
	}
	for _, o := range others {
		out["other/"+o] = "1"
	}
	if idx, err := l.ReadIndex(); err == nil {
		for t, ds := range idx.Tags() {
			out["tag/"+t] = strings.Join(ds, ",")
		}
	} else if _, serr := os.Stat(e.Dir); serr == nil {
		out["index-error"] = err.Error()
	}
	return out
}

var reModFunc = regexp.MustCompile(`(With[A-Za-z0-9]+|dag[A-Z][A-Za-z0-9]+|rebaseAddStep|layerGetBase[A-Za-z]+|timeModOpt|Apply)`)

// panicSite names the first frame below the panic that lies in the repository under test:
// "<dir>/<file>:<function>" (no line numbers, so that the fingerprint survives edits).
func panicSite(stack string) string {
	lines := strings.Split(stack, "\n")
	for i := 0; i+1 < len(lines); i++ {
		fn, file := lines[i], strings.TrimSpace(lines[i+1])
		if strings.HasPrefix(fn, "\t") || !strings.HasPrefix(lines[i+1], "\t") {
			continue
		}
		j := strings.Index(file, "/regclient/")
		if repo := os.Getenv("VERIF_REPO"); repo != "" && strings.HasPrefix(file, repo+"/") {
			file = file[len(repo)+1:]
		} else if j >= 0 {
			file = file[j+len("/regclient/"):]
		} else {
			continue
		}
		if k := strings.Index(file, ":"); k > 0 {
			file = file[:k]
		}
		name := reModFunc.FindString(fn)
		if name == "" {
			name = fn
			if k := strings.Index(name, "("); k > 0 {
				name = name[:k]
			}
			if k := strings.LastIndex(name, "/"); k >= 0 {
				name = name[k+1:]
			}
		}
		return file + ":" + name
	}
	return "unknown"
}

type applyResult struct {
	out   ref.Ref
	err   error
	panic string
	site  string
	hung  bool
}

func applyOnce(rc *regclient.RegClient, rSrc ref.Ref, opts []mod.Opts) applyResult {
	ctx, cancel := context.WithTimeout(context.Background(), 60*time.Second)
	defer cancel()
	ch := make(chan applyResult, 1)
	go func() {
		var r applyResult
		defer func() {
			if p := recover(); p != nil {
				st := string(debug.Stack())
				r.panic = fmt.Sprintf("%v", p)
				if i := strings.Index(st, "\npanic("); i >= 0 {
					st = st[i+1:]
				}
				r.site = panicSite(skipFrame(st))
				if len(st) > 3000 {
					st = st[:3000]
				}
				r.panic += "\n" + st
			}
			ch <- r
		}()
		r.out, r.err = mod.Apply(ctx, rc, rSrc, opts...)
	}()
	select {
	case r := <-ch:
		return r
	case <-time.After(150 * time.Second):
		return applyResult{hung: true}
	}
}

// skipFrame drops the first frame (the runtime's panic function itself).
func skipFrame(st string) string {
	parts := strings.SplitN(st, "\n", 3)
	if len(parts) == 3 {
		return parts[2]
	}
	return st
}

func buildOpts(p []Opt, addr string) ([]mod.Opts, error) {
	var out []mod.Opts
	for _, o := range p {
		ms, err := o.Build(addr)
		if err != nil {
			return nil, err
		}
		out = append(out, ms...)
	}
	return out, nil
}

// writtenManifests lists the digests of manifests written to the endpoint: successful PUTs
// in the request log (registry) or new manifest files (layout, given the pre-state).
func writtenManifests(e copyeng.Endpoint, events []*modelreg.Event, pre map[string]string) (digests []string, byTag map[string]string) {
	byTag = map[string]string{}
	seen := map[string]bool{}
	if !e.IsDir() {
		for _, evn := range events {
			if evn.Host == e.Host.Name && evn.Repo == e.Repo && evn.Kind == "manifest" && evn.Method == "PUT" && evn.Status == 201 && evn.Note != "" {
				if !strings.Contains(evn.Ref, ":") {
					byTag[evn.Note] = evn.Ref
				}
				if !seen[evn.Note] {
					seen[evn.Note] = true
					digests = append(digests, evn.Note)
				}
			}
		}
		return digests, byTag
	}
	l := la.Layout{Dir: e.Dir}
	files, _ := l.DigestFiles()
	fallback := map[string]bool{}
	if idx, err := l.ReadIndex(); err == nil {
		for _, d := range idx.Manifests {
			if reFallbackTag.MatchString(d.Annotations[la.AnnotRefName]) {
				fallback[d.Digest] = true
			}
		}
	}
	for d, p := range files {
		if _, was := pre["obj/"+d]; was || fallback[d] {
			continue
		}
		b, err := os.ReadFile(p)
		if err != nil || len(b) == 0 || b[0] != '{' {
			continue
		}
		var probe struct {
			SchemaVersion int    `json:"schemaVersion"`
			MediaType     string `json:"mediaType"`
		}
		if json.Unmarshal(b, &probe) != nil || probe.SchemaVersion != 2 || !la.IsManifestMT(probe.MediaType) {
			continue
		}
		digests = append(digests, d)
	}
	sort.Strings(digests)
	return digests, byTag
}

var reFallbackTag = regexp.MustCompile(`^sha(256|512)-[0-9a-f]{64}`)

// judgeResult audits the target after a successful application.
func judgeResult(o *Outcome, step string, tgt copyeng.Endpoint, result string, events []*modelreg.Event, pre map[string]string) {
	st := tgt.Store()
	probs, stats, seen := AuditClosure(st, result)
	for _, p := range probs {
		o.Findings = append(o.Findings, Finding{Problem: p, Step: step})
	}
	o.Stats.add(stats)
	written, byTag := writtenManifests(tgt, events, pre)
	o.Written = written
	o.Counters["manifests_written_observed"] += len(written)
	// every written manifest outside the closure is audited as well, and must be tied to the
	// result: a referrer (transitively) of a manifest of the closure. Anything else is a
	// rewritten child that no index entry names.
	parsed := map[string]*la.Manifest{}
	for _, d := range written {
		if _, ok := seen[d]; ok {
			continue
		}
		raw, mt, ok := st.Manifest(d)
		if !ok {
			o.add(step, "missing-content", "written-manifest", d, "manifest %s was written during the run but is not in the target's storage afterwards", d)
			continue
		}
		p, _, s, pm := AuditManifest(st, d, raw, mt)
		for _, x := range p {
			o.Findings = append(o.Findings, Finding{Problem: x, Step: step})
		}
		o.Stats.add(s)
		parsed[d] = pm
	}
	for _, f := range o.Findings {
		if f.Manifest == "" || len(o.Raw) >= 4 {
			continue
		}
		if _, ok := o.Raw[f.Manifest]; ok {
			continue
		}
		if raw, _, ok := st.Manifest(f.Manifest); ok {
			if o.Raw == nil {
				o.Raw = map[string]string{}
			}
			o.Raw[f.Manifest] = trunc(string(raw), 6000)
		}
	}
	if tgt.IsDir() {
		return // a layout has no request log: new files may stem from fallback-tag maintenance
	}
	for _, d := range written {
		if _, ok := seen[d]; ok {
			continue
		}
		if reFallbackTag.MatchString(byTag[d]) {
			o.Counters["fallback_tag_manifests_ignored"]++
			continue
		}
		tied := false
		cur := d
		for hops := 0; hops < 8; hops++ {
			pm := parsed[cur]
			if pm == nil {
				if m, ok := seen[cur]; ok && m != nil {
					tied = true
				}
				break
			}
			if pm.Subject == nil || pm.Subject.Digest == "" {
				break
			}
			cur = pm.Subject.Digest
			if _, ok := seen[cur]; ok {
				tied = true
				break
			}
		}
		o.Counters["written_outside_closure"]++
		if !tied {
			kind := "manifest"
			if pm := parsed[d]; pm != nil {
				kind = pm.Kind
			}
			o.add(step, "orphan-rewritten-child", "index-entry", d, "%s manifest %s was written to the target during the run but neither the returned image %s nor a referrer chain names it: the parent still names something else", kind, d, result)
		}
	}
}

// compareSource checks that the source's raw state survived. allowNew: the target is the
// source repository, additions are legitimate; moved: tag that is named as the target.
func compareSource(o *Outcome, step string, pre, post map[string]string, allowNew bool, moved string) {
	o.Counters["source_snapshots_compared"]++
	keys := []string{}
	for k := range pre {
		keys = append(keys, k)
	}
	sort.Strings(keys)
	for _, k := range keys {
		if k == "tag/"+moved && moved != "" {
			continue
		}
		if strings.HasPrefix(k, "tag/") && reFallbackTag.MatchString(k[4:]) {
			// referrers fallback tags are maintained by the client when referrers are
			// rewritten; they are not "the source image and its tag"
			if post[k] != pre[k] {
				o.Counters["fallback_tag_changes_ignored"]++
			}
			continue
		}
		pv, ok := post[k]
		role := "object"
		if strings.HasPrefix(k, "tag/") {
			role = "tag"
		}
		if !ok {
			o.add(step, "source-changed", role, "", "%s existed in the source before the run and is gone afterwards", k)
		} else if pv != pre[k] {
			o.add(step, "source-changed", role, "", "%s changed from %s to %s although it is not the target", k, pre[k], pv)
		}
	}
	if !allowNew {
		for k := range post {
			if _, ok := pre[k]; !ok {
				o.add(step, "source-changed", "addition", "", "%s appeared in the source repository although the target is elsewhere", k)
			}
		}
	}
}

func resolveResult(out ref.Ref, tgt copyeng.Endpoint, tag string) (string, string) {
	if out.Digest != "" {
		if tag != "" {
			if d, ok := tgt.Tag(tag); !ok || d != out.Digest {
				return out.Digest, fmt.Sprintf("returned digest %s but target tag %q resolves to %q", out.Digest, tag, d)
			}
		}
		return out.Digest, ""
	}
	t := out.Tag
	if t == "" {
		t = tag
	}
	d, ok := tgt.Tag(t)
	if !ok {
		return "", fmt.Sprintf("returned reference %s: tag %q does not exist in the target's raw state", out.CommonName(), t)
	}
	return d, ""
}

func mutatingRequests(events []*modelreg.Event) []string {
	var out []string
	for _, e := range events {
		if e.Mutating || e.Kind == "manifest" {
			out = append(out, fmt.Sprintf("%s %s %s -> %d %s", e.Host, e.Method, e.Path, e.Status, e.Note))
		}
	}
	if len(out) > 60 {
		out = append(out[:60], fmt.Sprintf("... %d more", len(out)-60))
	}
	return out
}

// runCase executes one case in a fresh world.
func runCase(c Case) *Outcome {
	o := &Outcome{Case: c, Counters: map[string]int{}}
	w, err := newWorld(c)
	if err != nil {
		o.ApplyErr = "harness: " + err.Error()
		return o
	}
	defer w.close()
	o.Src = w.S
	if c.CLI {
		runCLI(o, w)
		return o
	}
	srcPre := rawSnapshot(w.src)
	basePre := rawSnapshot(w.base)

	apply := func(k int, prog []Opt, step string) (string, bool) {
		tgt, tag := w.target(c, k)
		opts, err := buildOpts(prog, w.addr)
		if err != nil {
			o.ApplyErr = "option rejected while building: " + err.Error()
			return "", false
		}
		if tag != "" {
			opts = append(opts, mod.WithRefTgt(tgt.Ref(tag)))
		}
		tgtPre := rawSnapshot(tgt)
		w.W.ResetLog()
		r := applyOnce(w.rc, w.srcRef, opts)
		w.W.WaitIdle()
		events := w.W.Log()
		if step == "apply" {
			o.Requests = mutatingRequests(events)
		}
		switch {
		case r.hung:
			o.Hung = true
			return "", false
		case r.panic != "":
			o.add(step, "panic", r.site, "", "mod.Apply panicked: %s", r.panic)
			return "", false
		case r.err != nil:
			if step == "apply" {
				o.ApplyErr = r.err.Error()
			} else {
				o.Counters["second_application_errors"]++
			}
			// the source must survive a failed run as well (when it is not the target)
			if !sameEndpoint(tgt, w.src) {
				compareSource(o, step+"-failed", srcPre, rawSnapshot(w.src), false, "")
			}
			return "", false
		}
		res, bad := resolveResult(r.out, tgt, tag)
		if bad != "" {
			o.add(step, "result-unresolvable", "result", res, "%s", bad)
			if res == "" {
				return "", false
			}
		}
		judgeResult(o, step, tgt, res, events, tgtPre)
		moved := ""
		if sameEndpoint(tgt, w.src) && tag == srcTag {
			moved = srcTag
		}
		compareSource(o, step, srcPre, rawSnapshot(w.src), sameEndpoint(tgt, w.src), moved)
		if !sameEndpoint(tgt, w.base) {
			if post := rawSnapshot(w.base); len(post) != len(basePre) {
				o.Counters["writes_to_base_repository"]++
			}
		}
		return res, true
	}

	res, ok := apply(1, c.Prog, "apply")
	if !ok {
		return o
	}
	o.Result = res
	o.Changed = res != w.S.Top.Digest
	if allNoop(c.Prog) {
		o.NoopCheck = true
		if res != w.S.Top.Digest {
			o.add("apply", "noop-digest-differs", "result", res, "every option of the program asks for a state the source already has, yet the result %s is not the original %s", res, w.S.Top.Digest)
		}
	}
	if c.Tgt == "replace" {
		o.Counters["determinism_skipped_replace"]++
		return o
	}
	res2, ok := apply(2, c.Prog, "reapply")
	if ok {
		o.Result2 = res2
		if res2 != res {
			o.add("reapply", "nondeterministic", "same-process", res2, "the same program on the same source returned %s the first time and %s the second time", res, res2)
		}
	}
	if c.Cache && ok {
		// a client that has modified an image must still see the unmodified source
		res3, ok := apply(3, nil, "noop-after-mod")
		if ok {
			o.Counters["noop_after_mod_checked"]++
			if res3 != w.S.Top.Digest {
				o.add("noop-after-mod", "noop-digest-differs", "after-prior-mod", res3, "an empty program applied after a modification through the same (caching) client returned %s, the source is %s", res3, w.S.Top.Digest)
			}
		}
	}
	return o
}

// ---------------------------------------------------------------------------------
// regctl

func runCLI(o *Outcome, w *world) {
	c := o.Case
	srcPre := rawSnapshot(w.src)
	run := func(k int, step string) (string, bool) {
		tgt, tag := w.target(c, k)
		args := []string{"--host", "reg=" + w.hs.Addr() + ",tls=disabled", "--host", "reg=" + w.hd.Addr() + ",tls=disabled", "image", "mod", w.srcRef.CommonName()}
		if tag != "" {
			args = append(args, "--create", tgt.Ref(tag).CommonName())
		}
		for _, op := range c.Prog {
			f, err := op.Flags(w.addr, w.dir)
			if err != nil {
				o.ApplyErr = "harness: " + err.Error()
				return "", false
			}
			args = append(args, f...)
		}
		tgtPre := rawSnapshot(tgt)
		w.W.ResetLog()
		ctx, cancel := context.WithTimeout(context.Background(), 120*time.Second)
		defer cancel()
		cmd := exec.CommandContext(ctx, regctlBin, args...)
		cmd.Env = append(os.Environ(), "SOURCE_DATE_EPOCH=1700000000", "HOME="+w.dir)
		var stdout, stderr bytes.Buffer
		cmd.Stdout, cmd.Stderr = &stdout, &stderr
		err := cmd.Run()
		w.W.WaitIdle()
		events := w.W.Log()
		if step == "apply" {
			o.Requests = append([]string{"regctl " + strings.Join(args, " ")}, mutatingRequests(events)...)
		}
		if ctx.Err() != nil {
			o.Hung = true
			return "", false
		}
		if err != nil {
			es := stderr.String()
			if strings.Contains(es, "goroutine ") && strings.Contains(es, "panic") {
				o.add(step, "panic", panicSite(es), "", "regctl image mod crashed: %s", trunc(es, 3000))
				return "", false
			}
			if step == "apply" {
				o.ApplyErr = trunc(strings.TrimSpace(es), 300)
			}
			return "", false
		}
		lines := strings.Split(strings.TrimSpace(stdout.String()), "\n")
		last := strings.TrimSpace(lines[len(lines)-1])
		res := ""
		if i := strings.LastIndex(last, "@"); i >= 0 {
			res = last[i+1:]
		} else if tag != "" {
			d, ok := tgt.Tag(tag)
			if !ok {
				o.add(step, "result-unresolvable", "result", "", "regctl printed %q but tag %q does not exist in the target's raw state", last, tag)
				return "", false
			}
			res = d
		} else {
			o.ApplyErr = "harness: cannot interpret regctl output " + last
			return "", false
		}
		judgeResult(o, step, tgt, res, events, tgtPre)
		compareSource(o, step, srcPre, rawSnapshot(w.src), sameEndpoint(tgt, w.src), "")
		return res, true
	}
	res, ok := run(1, "apply")
	if !ok {
		return
	}
	o.Result = res
	o.Changed = res != w.S.Top.Digest
	if allNoop(c.Prog) {
		o.NoopCheck = true
		if res != w.S.Top.Digest {
			o.add("apply", "noop-digest-differs", "result", res, "every option of the program asks for a state the source already has, yet the result %s is not the original %s", res, w.S.Top.Digest)
		}
	}
	// a second, separate process: SOURCE_DATE_EPOCH is set in both
	time.Sleep(5 * time.Millisecond)
	res2, ok := run(2, "second-process")
	if ok {
		o.Result2 = res2
		o.Counters["cross_process_pairs_checked"]++
		if res2 != res {
			o.add("second-process", "nondeterministic", "cross-process", res2, "two regctl processes (SOURCE_DATE_EPOCH=1700000000 in both) applying the same options to the same source returned %s and %s", res, res2)
		}
	}
}

func trunc(s string, n int) string {
	if len(s) > n {
		return s[:n] + "..."
	}
	return s
}

// ---------------------------------------------------------------------------------
// minimisation and reporting

var (
	repMu     sync.Mutex
	perKey    = map[string]int{}
	minimised = map[string]string{} // situation -> fingerprint
)

func tgtClass(c Case) string {
	switch c.Tgt {
	case "same-digest", "same-newtag", "replace":
		return "same-repo"
	case "layout":
		return "layout"
	}
	return "other-repo"
}

// minimise greedily simplifies the case while a finding with the same key remains.
func minimise(c Case, key string) (Case, *Outcome) {
	still := func(t Case) *Outcome {
		o := runCase(t)
		if o.has(key) != nil {
			return o
		}
		return nil
	}
	var best *Outcome
	try := func(t Case) bool {
		if o := still(t); o != nil {
			c, best = t, o
			return true
		}
		return false
	}
	for progress := true; progress; {
		progress = false
		if c.Cache {
			t := c
			t.Cache = false
			progress = try(t) || progress
		}
		if c.CLI && !strings.HasPrefix(key, "nondeterministic/cross-process") {
			t := c
			t.CLI = false
			progress = try(t) || progress
		}
		if c.SrcOn == "dir" {
			t := c
			t.SrcOn = "reg"
			progress = try(t) || progress
		}
		if c.Tgt != "same-digest" {
			t := c
			t.Tgt = "same-digest"
			progress = try(t) || progress
		}
		for i := 0; i < len(c.Prog); {
			t := c
			t.Prog = append(append([]Opt{}, c.Prog[:i]...), c.Prog[i+1:]...)
			if try(t) {
				progress = true
			} else {
				i++
			}
		}
	}
	if best == nil {
		best = still(c) // confirm once more (also tells whether the finding is reproducible)
	}
	return c, best
}

func report(run *ev.Run, o *Outcome) {
	keys := map[string]bool{}
	for _, f := range o.Findings {
		key := f.Key()
		if keys[key] {
			continue
		}
		keys[key] = true
		shape := "single"
		if o.Src != nil && o.Src.Index {
			shape = "index"
		}
		situation := fmt.Sprintf("%s|%s|%s|%s|%s|%t|%t", key, shape, o.Case.SrcOn, o.Case.Tgt, kindsKey(o.Case.Prog), o.Case.Cache, o.Case.CLI)
		repMu.Lock()
		fp, done := minimised[situation]
		n := perKey[key]
		if !done {
			perKey[key]++
		}
		repMu.Unlock()
		if done {
			run.Count("further_occurrences_of_reported_findings", 1)
			_ = fp
			continue
		}
		if n >= 10 {
			run.Count("occurrences_not_minimised/"+key, 1)
			continue
		}
		mc, mo := minimise(o.Case, key)
		reproducible := mo != nil
		if mo == nil {
			mc, mo = o.Case, o
		}
		mf := mo.has(key)
		mshape := "single"
		if mo.Src != nil && mo.Src.Index {
			mshape = "index"
		}
		fp = fmt.Sprintf("%s/src=%s/tgt=%s/opts=%s", key, mshape, tgtClass(mc), kindsKey(mc.Prog))
		if mf.Clause == "panic" {
			fp = key // the site names the defect; shape and options are incidental
		}
		if mc.Cache {
			// only reproducible through a caching client: the option set is incidental
			fp = fmt.Sprintf("cached-client/%s.src=%s", strings.ReplaceAll(key, "/", "."), mshape)
		}
		if mc.SrcOn == "dir" {
			fp += "/layout-source"
		}
		if mc.CLI {
			fp += "/regctl"
		}
		if !reproducible {
			fp += "/not-reproduced"
		}
		repMu.Lock()
		minimised[situation] = fp
		repMu.Unlock()
		wit := map[string]any{"minimal_case": mc, "original_case": o.Case, "finding": mf, "all_findings_of_minimal_case": mo.Findings,
			"source": mo.Src.Describe(), "result_digest": mo.Result, "second_result_digest": mo.Result2, "manifests_written": mo.Written, "stored_manifests_named_by_findings": mo.Raw,
			"requests_of_first_application": mo.Requests,
			"reproduce":                     fmt.Sprintf("VERIF_SEED=%d ./check C13 --replay <this file>  (re-runs minimal_case: source BuildSource(%d), program as listed)", ev.Seed(), mc.SrcSeed)}
		run.Violation(fp, fmt.Sprintf("[%s] %s (case %d %s, program %s)", mf.Step, trunc(mf.Detail, 600), mc.Idx, mc.Name, progString(mc.Prog)), wit)
	}
}

func progString(p []Opt) string {
	if len(p) == 0 {
		return "[]"
	}
	var s []string
	for _, o := range p {
		s = append(s, o.String())
	}
	return "[" + strings.Join(s, " ") + "]"
}

// ---------------------------------------------------------------------------------
// case lists

func findSeed(from int64, pred func(*Source) bool) int64 {
	for s := from; s < from+5000; s++ {
		if pred(BuildSource(s, "h")) {
			return s
		}
	}
	panic("regression core: no source seed satisfies the predicate")
}

func coreCases() []Case {
	single := func(s *Source) bool { return !s.Index }
	var cs []Case
	add := func(name string, seed int64, on, tgt string, prog ...Opt) {
		cs = append(cs, Case{Name: name, SrcSeed: seed, SrcOn: on, Tgt: tgt, Prog: prog})
	}
	plain := func(s *Source) bool {
		return !s.HistNoCreated && !s.HasInlineChild && !s.HasInlineCfg && !s.HasInlineLayer && !s.HasForeign && !s.HasEmptyTar
	}
	idxOCI := findSeed(1000, func(s *Source) bool { return s.Index && s.Family == "oci" && plain(s) && !s.Attest })
	idxDocker := findSeed(1000, func(s *Source) bool { return s.Index && s.Family == "docker" && plain(s) })
	sOCI := findSeed(1000, func(s *Source) bool {
		return single(s) && s.Family == "oci" && s.MinLayers >= 3 && plain(s) && s.Images[0].NHistory > len(s.Images[0].Layers)
	})
	sDocker := findSeed(1000, func(s *Source) bool { return single(s) && s.Family == "docker" && s.MinLayers >= 2 && plain(s) })
	sForeign := findSeed(1000, func(s *Source) bool { return single(s) && s.HasForeign })
	sBase := findSeed(1000, func(s *Source) bool { return single(s) && s.HasBase && s.Family == "oci" && !s.HistNoCreated })
	sBaseD := findSeed(1000, func(s *Source) bool { return s.HasBase && s.Family == "docker" && !s.HistNoCreated })
	idxAtt := findSeed(1000, func(s *Source) bool { return s.Attest && !s.HistNoCreated })
	idxRef := findSeed(1000, func(s *Source) bool { return s.Index && len(s.Referrers) > 0 && s.Family == "oci" && plain(s) })
	sRef := findSeed(1000, func(s *Source) bool { return single(s) && len(s.Referrers) > 0 && plain(s) })
	sNoCreated := findSeed(1000, func(s *Source) bool { return single(s) && s.HistNoCreated })
	sInline := findSeed(1000, func(s *Source) bool { return single(s) && s.HasInlineCfg && s.HasInlineLayer })
	idxInline := findSeed(1000, func(s *Source) bool { return s.HasInlineChild })
	sStrip := findSeed(1000, func(s *Source) bool { return single(s) && s.HasStripFile && s.HasNames && s.HasInnerTar })
	// sources built with a fixed epoch (every tar entry carries the same time) and packed by another tool
	// (other gzip levels): a time step naming exactly that time has nothing to change
	uni := func(s *Source) bool { return s.UniformTime && s.Comps["gzip"] && plain(s) && !s.HasBase }
	from := int64(1000)
	for k := 0; k < 4; k++ {
		sUni := findSeed(from, uni)
		from = sUni + 1
		tgt := []string{"same-digest", "other-repo", "layout", "same-newtag"}[k]
		add("noop-layer-time-on-uniform-source", sUni, []string{"reg", "reg", "reg", "dir"}[k], tgt, Opt{Kind: "layer-time", Set: tUniformStr, Noop: true})
	}
	for _, t := range []string{"same-digest", "same-newtag", "replace", "other-repo", "other-reg", "layout"} {
		add("empty-program", sOCI, "reg", t)
		add("empty-program-index", idxDocker, "reg", t)
	}
	add("empty-program-layout-source", sOCI, "dir", "other-repo")
	add("empty-program-layout-source", idxRef, "dir", "same-newtag")
	add("index-data-max", idxOCI, "reg", "same-digest", Opt{Kind: "data-max", N: 4096})
	add("index-data-max", idxDocker, "reg", "other-repo", Opt{Kind: "data-max", N: 1 << 20})
	add("index-inline-child-default", idxInline, "reg", "other-repo")
	add("index-inline-child-annot", idxInline, "reg", "same-digest", Opt{Kind: "annotation", S1: "[*]org.example.new", S2: "x"})
	add("single-data-max", sOCI, "reg", "same-newtag", Opt{Kind: "data-max", N: 1 << 20})
	add("single-data-strip", sInline, "reg", "same-digest", Opt{Kind: "data-max", N: 0})
	add("single-data-refresh", sInline, "reg", "other-reg", Opt{Kind: "layer-compress", S1: "zstd"}, Opt{Kind: "env", S1: "NEW", S2: "1"})
	// an uncompressed layer that the source manifest carries inline, rewritten by a step that keeps its length
	// (tar headers have a fixed size): the descriptor changes its digest and nothing else, the inline data has to
	// be that of the new content
	inlineRaw := func(s *Source) bool {
		if s.UniformTime || s.Index {
			return false
		}
		for _, im := range s.Images {
			for _, l := range im.Layers {
				if l.Inline && l.Comp == "none" && !l.Empty {
					return true
				}
			}
		}
		return false
	}
	// (such sources are rare - about one seed in five hundred - so one is searched and used for all three targets)
	sIR := int64(3666) // first such seed at the time of writing; verified here, searched again if the generator changed
	if !inlineRaw(BuildSource(sIR, "h")) {
		sIR = findSeed(1000, inlineRaw)
	}
	for k := 0; k < 3; k++ {
		add("inline-uncompressed-layer-rewritten-in-place", sIR, "reg", []string{"same-digest", "other-repo", "layout"}[k], Opt{Kind: "layer-time", Set: "2022-01-01T00:00:00Z"})
	}
	add("rm-first-layer", sOCI, "reg", "same-digest", Opt{Kind: "layer-rm-index", N: 0})
	add("rm-last-layer", sOCI, "reg", "other-repo", Opt{Kind: "layer-rm-index", N: 2})
	add("rm-two-layers", sOCI, "reg", "same-newtag", Opt{Kind: "layer-rm-index", N: 1}, Opt{Kind: "layer-rm-index", N: 0})
	add("rm-created-by", sDocker, "reg", "same-digest", Opt{Kind: "layer-rm-created-by", S1: "."})
	add("add-then-rm", sOCI, "reg", "same-digest", Opt{Kind: "layer-add", N: 1}, Opt{Kind: "layer-rm-index", N: 0})
	add("rm-then-add", sOCI, "reg", "layout", Opt{Kind: "layer-rm-index", N: 1}, Opt{Kind: "layer-add", N: 2, S1: "application/vnd.oci.image.layer.v1.tar+zstd"})
	add("add-two", sDocker, "reg", "other-reg", Opt{Kind: "layer-add", N: 1}, Opt{Kind: "layer-add", N: 2})
	add("index-add-all", idxOCI, "reg", "same-newtag", Opt{Kind: "layer-add", N: 3}, Opt{Kind: "to-docker"})
	add("index-add-one-platform", idxDocker, "reg", "same-digest", Opt{Kind: "layer-add", N: 3, S2: "linux/arm64"}, Opt{Kind: "to-oci"})
	add("external-urls-rm", sForeign, "reg", "same-digest", Opt{Kind: "external-urls-rm"})
	add("external-urls-rm-other-repo", sForeign, "reg", "other-repo", Opt{Kind: "external-urls-rm"})
	add("rebase-annotations", sBase, "reg", "same-newtag", Opt{Kind: "rebase"})
	add("rebase-refs", sBaseD, "reg", "other-repo", Opt{Kind: "rebase-ref", S1: addrSRC + "/" + baseRepo + ":old", S2: addrSRC + "/" + baseRepo + ":cur"})
	add("rebase-then-rm", sBase, "reg", "same-digest", Opt{Kind: "rebase"}, Opt{Kind: "layer-rm-index", N: 0})
	add("to-oci-referrers", idxAtt, "reg", "same-newtag", Opt{Kind: "to-oci-referrers"})
	add("to-oci-referrers-digest", idxAtt, "reg", "same-digest", Opt{Kind: "to-oci-referrers"}, Opt{Kind: "annotation", S1: "[*]org.example.new", S2: "x"})
	add("recompress-sha512", sOCI, "reg", "other-reg", Opt{Kind: "layer-compress", S1: "zstd"}, Opt{Kind: "digest-algo", S1: "sha512"})
	add("sha512-index", idxOCI, "reg", "same-newtag", Opt{Kind: "digest-algo", S1: "sha512"})
	add("sha512-manifests-only-index", idxOCI, "reg", "same-digest", Opt{Kind: "manifest-digest-algo", S1: "sha512"})
	add("sha512-manifests-only-referrers", sRef, "reg", "same-digest", Opt{Kind: "manifest-digest-algo", S1: "sha512"})
	add("sha512-manifests-only-layout", sOCI, "dir", "same-digest", Opt{Kind: "manifest-digest-algo", S1: "sha512"})
	add("sha512-then-recompress-layout", sOCI, "dir", "same-digest", Opt{Kind: "digest-algo", S1: "sha512"}, Opt{Kind: "layer-compress", S1: "zstd"})
	add("sha512-then-recompress", sOCI, "reg", "same-digest", Opt{Kind: "digest-algo", S1: "sha512"}, Opt{Kind: "layer-compress", S1: "zstd"})
	add("add-then-idle-file-step", sOCI, "reg", "same-digest", Opt{Kind: "layer-add", N: 1}, Opt{Kind: "layer-strip-file", S1: "does/not/exist"})
	add("add-then-layer-time", sDocker, "reg", "same-newtag", Opt{Kind: "layer-add", N: 2}, Opt{Kind: "layer-time", Set: "2022-01-01T00:00:00Z"})
	add("strip-repro-time", sStrip, "reg", "layout", Opt{Kind: "layer-strip-file", S1: "strip"}, Opt{Kind: "reproducible"}, Opt{Kind: "layer-time", Set: "2022-01-01T00:00:00Z", Aft: "2021-01-01T00:00:00Z"})
	add("file-tar-time", sStrip, "reg", "same-digest", Opt{Kind: "file-tar-time", S1: "inner.tar", Set: "2020-06-06T06:06:06Z"})
	add("referrers-rewritten", idxRef, "reg", "same-digest", Opt{Kind: "annotation", S1: "[*]org.example.new", S2: "x"})
	add("referrers-rewritten-single", sRef, "reg", "same-newtag", Opt{Kind: "label", S1: "org.example.new", S2: "y"})
	add("referrers-layout", sRef, "dir", "same-digest", Opt{Kind: "env", S1: "NEW", S2: "1"})
	add("history-without-created", sNoCreated, "reg", "same-digest", Opt{Kind: "config-time", Set: "2022-01-01T00:00:00Z"})
	add("buildarg-rm", sOCI, "reg", "same-digest", Opt{Kind: "buildarg-rm", S1: "VERSION", S2: "1.2.3"}, Opt{Kind: "layer-rm-index", N: 1})
	// the build argument also appears as the text of a history entry that does produce a layer: removing the
	// argument must not take that entry away (the layer stays)
	from = 1000
	for k := 0; k < 4; k++ {
		sArg := findSeed(from, func(s *Source) bool { return single(s) && s.HasArgLayer && !s.HistNoCreated })
		from = sArg + 1
		add("buildarg-rm-on-a-layer-producing-entry", sArg, "reg", []string{"same-digest", "other-repo", "layout", "same-newtag"}[k], Opt{Kind: "buildarg-rm", S1: "VERSION", S2: "1.2.3"})
	}
	add("promote", idxOCI, "reg", "same-digest", Opt{Kind: "annotation-promote"}, Opt{Kind: "label-to-annotation"})
	add("cached-client-index", idxOCI, "reg", "same-newtag", Opt{Kind: "annotation", S1: "[*]org.example.new", S2: "x"})
	cs[len(cs)-1].Cache = true
	add("cached-client-digest-source", sOCI, "reg", "same-digest", Opt{Kind: "env", S1: "NEW", S2: "1"})
	cs[len(cs)-1].Cache = true
	return cs
}

func randomCases(rng *rand.Rand, n int, cli bool) []Case {
	var cs []Case
	for i := 0; i < n; i++ {
		c := Case{SrcSeed: 1 + rng.Int63n(1<<40), SrcOn: "reg", CLI: cli}
		if rng.Intn(6) == 0 {
			c.SrcOn = "dir"
		}
		if c.SrcOn == "dir" {
			c.Tgt = pick(rng, "same-digest", "same-newtag", "replace", "other-repo", "other-reg")
		} else {
			c.Tgt = pick(rng, "same-digest", "same-digest", "same-newtag", "replace", "other-repo", "other-repo", "other-reg", "layout")
		}
		if cli && c.Tgt == "replace" {
			c.Tgt = "same-newtag"
		}
		c.Cache = !cli && rng.Intn(8) == 0
		s := BuildSource(c.SrcSeed, "h")
		for tries := 0; ; tries++ {
			c.Prog = genProgram(rng, s, rng.Intn(8) == 0)
			ok := true
			if cli {
				for _, o := range c.Prog {
					if apiOnly[o.Kind] {
						ok = false
					}
				}
			}
			if ok || tries > 20 {
				break
			}
		}
		cs = append(cs, c)
	}
	return cs
}

func main() {
	run := ev.Start("C13", "exploration")
	scratchRoot = filepath.Join(os.Getenv("VERIF_BIN"), "scratch")
	if os.Getenv("VERIF_BIN") == "" {
		scratchRoot = filepath.Join(os.TempDir(), "c13-scratch")
	}
	_ = os.RemoveAll(scratchRoot)
	tmp := filepath.Join(scratchRoot, "tmp")
	if err := os.MkdirAll(tmp, 0o755); err != nil {
		fmt.Println("cannot create scratch:", err)
		os.Exit(2)
	}
	os.Setenv("TMPDIR", tmp) // mod.Apply and regctl keep their temporary layer files here
	regctlBin = filepath.Join(os.Getenv("VERIF_BIN"), "regctl")
	slog.SetDefault(slog.New(slog.NewTextHandler(io.Discard, nil)))

	run.Rule("sources: seeded single images and indexes (2-3 platforms, optional BuildKit-style attestation child), OCI or Docker media types, 1-6 real tar layers (gzip / zstd / uncompressed, PAX / GNU / USTAR headers, nested tar, empty tar, foreign layer with local content, shared layers), configs with true diff_ids and history incl. empty_layer entries, inline data on config / layer / index entry, 0-3 referrers, optional old/new base image pair; on a model registry or in an OCI layout. " +
		"programs: a fixed regression core plus seed-derived programs of 0-5 options from 37 option kinds (annotations, labels, env, cmd/entrypoint, platform, volumes, ports, build args, config/layer/file timestamps, layer add / rm-index / rm-created-by / strip-file / recompress / reproducible, digest algorithm (all and per part), to-OCI / to-Docker / to-OCI-referrers, data limits, rebase by annotation / refs, external-URL removal). " +
		"targets: same repository by digest / new tag / replacing the source tag, other repository, other registry, layout; plain and caching client; a sample through `regctl image mod` in two separate processes. " +
		"non-trivial = the application succeeded and either changed the digest, or wrote to another repository, or was asserted as a no-op; distinct = source shape x target x option-kind set x changed/unchanged")
	run.Assume("judged on raw storage only: model registry state + request log, layout files; the auditor shares no code with regclient",
		"content named by a descriptor with urls that is absent from the target is not required (foreign layer); a subject that is absent from the target is counted, not alarmed",
		"media-type vs actual compression mismatches are counted (compression_mediatype_notes), never alarmed",
		"a program is called a no-op only when each option, by construction of the source, asks for a state that already holds; layer-file options are never called no-ops on sources with an entry-less tar layer",
		"errors returned by mod.Apply (rejected combinations) are not violations; the source is still compared when the target is elsewhere",
		"orphan rule: every manifest PUT to a registry target during the run must be the result, in its closure, or a (transitive) referrer of it; both model hosts serve the referrers API so no fallback-tag manifests are written; layouts are exempt",
		"the second in-process application goes to a second target of the same kind; programs replacing the source tag are applied once")

	if rp := os.Getenv("VERIF_REPLAY"); rp != "" {
		replay(run, rp)
		os.Exit(run.Finish())
	}

	var cases []Case
	cases = append(cases, coreCases()...)
	nCore := len(cases)
	cases = append(cases, randomCases(ev.Rand("c13/api"), ev.Scale(250, 3000), false)...)
	nAPI := len(cases)
	cases = append(cases, randomCases(ev.Rand("c13/cli"), ev.Scale(24, 300), true)...)
	// a few core programs through regctl as well
	for _, c := range coreCases() {
		if strings.HasPrefix(c.Name, "add-") || c.Name == "index-data-max" || c.Name == "rm-then-add" || c.Name == "index-add-all" {
			c.CLI = true
			c.Cache = false
			cases = append(cases, c)
		}
	}
	for i := range cases {
		cases[i].Idx = i
	}
	run.Put("cases_core", nCore)
	run.Put("cases_api_random", nAPI-nCore)
	run.Put("cases_regctl", len(cases)-nAPI)

	outs := make([]*Outcome, len(cases))
	var wg sync.WaitGroup
	jobs := make(chan int)
	for wkr := 0; wkr < 8; wkr++ {
		wg.Add(1)
		go func() {
			defer wg.Done()
			for i := range jobs {
				b, _ := json.Marshal(cases[i])
				fmt.Printf("case %s\n", b)
				o := runCase(cases[i])
				outs[i] = o
				fmt.Printf("done %d result=%s error=%q findings=%d\n", i, o.Result, trunc(o.ApplyErr, 200), len(o.Findings))
				if len(o.Findings) > 0 {
					report(run, o)
				}
			}
		}()
	}
	for i := range cases {
		jobs <- i
	}
	close(jobs)
	wg.Wait()

	errClasses := map[string]int{}
	for _, o := range outs {
		c := o.Case
		run.Eval(1)
		if o.Hung {
			run.Inconclusive(fmt.Sprintf("watchdog: case %d did not finish (%s)", c.Idx, progString(c.Prog)))
			continue
		}
		for k, v := range o.Counters {
			run.Count(k, v)
		}
		if hasClause(o, "panic") {
			run.Count("applications_panicked", 1)
		}
		if o.Result == "" {
			if o.ApplyErr != "" {
				run.Count("applications_rejected_or_failed", 1)
				errClasses[errClass(o.ApplyErr)]++
				if strings.HasPrefix(o.ApplyErr, "harness:") {
					run.Inconclusive(fmt.Sprintf("case %d: %s", c.Idx, o.ApplyErr))
				}
			}
			continue
		}
		run.Count("applications_succeeded", 1)
		if c.CLI {
			run.Count("regctl_cases_succeeded", 1)
		}
		if c.Cache {
			run.Count("cached_client_cases_succeeded", 1)
		}
		if o.Src.Index {
			run.Count("index_sources_succeeded", 1)
		}
		if c.SrcOn == "dir" {
			run.Count("layout_sources_succeeded", 1)
		}
		if c.Tgt == "layout" || (c.SrcOn == "dir" && (c.Tgt != "other-reg")) {
			run.Count("layout_targets_succeeded", 1)
		}
		if len(o.Src.Referrers) > 0 {
			run.Count("sources_with_referrers_succeeded", 1)
		}
		run.Count("manifests_audited", o.Stats.Manifests)
		run.Count("descriptors_checked", o.Stats.Descriptors)
		run.Count("inline_data_checked", o.Stats.InlineData)
		run.Count("diffids_checked", o.Stats.DiffIDs)
		run.Count("histories_checked", o.Stats.Histories)
		run.Count("index_entries_checked", o.Stats.IndexEntries)
		run.Count("subjects_checked", o.Stats.Subjects)
		run.Count("subjects_absent_at_target", o.Stats.SubjectAbsent)
		run.Count("foreign_descriptors_skipped", o.Stats.ForeignSkipped)
		run.Count("compression_mediatype_notes", o.Stats.CompressionMTNotes)
		run.Count("configs_of_unknown_type", o.Stats.ConfigsUnknown)
		if o.NoopCheck {
			run.Count("noop_programs_checked", 1)
		}
		if o.Result2 != "" && !c.CLI {
			run.Count("determinism_pairs_checked", 1)
		}
		for _, k := range Kinds(c.Prog) {
			run.SetAdd("option_kinds_in_successful_programs", k)
		}
		run.SetAdd("option_kind_sets_succeeded", kindsKey(c.Prog))
		if o.Changed || tgtClass(c) != "same-repo" || o.NoopCheck {
			run.Distinct(fmt.Sprintf("%s|%s|%s|%s|chg=%t", o.Src.ShapeKey(), c.SrcOn, c.Tgt, kindsKey(c.Prog), o.Changed))
		}
	}
	// a few written-out cases
	for _, i := range []int{0, nCore, nCore + 1, nCore + 2, nAPI, nAPI + 1} {
		if i < len(outs) && outs[i].Src != nil {
			run.Sample(map[string]any{"case": outs[i].Case, "source": outs[i].Src.Describe(), "error": outs[i].ApplyErr, "result": outs[i].Result, "changed": outs[i].Changed,
				"manifests_written": len(outs[i].Written), "findings": len(outs[i].Findings)})
		}
	}
	type ec struct {
		K string
		N int
	}
	var ecs []ec
	for k, n := range errClasses {
		ecs = append(ecs, ec{k, n})
	}
	sort.Slice(ecs, func(i, j int) bool { return ecs[i].N > ecs[j].N || (ecs[i].N == ecs[j].N && ecs[i].K < ecs[j].K) })
	if len(ecs) > 25 {
		ecs = ecs[:25]
	}
	run.Put("rejection_classes_top", ecs)

	for _, k := range []string{"applications_succeeded", "manifests_written_observed", "descriptors_checked", "inline_data_checked", "diffids_checked", "histories_checked",
		"index_entries_checked", "subjects_checked", "source_snapshots_compared", "noop_programs_checked", "determinism_pairs_checked", "cross_process_pairs_checked",
		"regctl_cases_succeeded", "layout_targets_succeeded", "layout_sources_succeeded", "index_sources_succeeded", "sources_with_referrers_succeeded", "cached_client_cases_succeeded"} {
		if run.Get(k) == 0 {
			run.Inconclusive("clause never exercised: " + k + " = 0")
		}
	}
	if s, n := run.Get("applications_succeeded"), int64(len(cases)); s*100 < n*35 {
		run.Inconclusive(fmt.Sprintf("only %d of %d programs were applied successfully; the workload is not representative", s, n))
	}
	for _, rep := range ev.RaceReports(filepath.Join(os.Getenv("VERIF_BIN"), "race")) {
		// attributed only when one of the two racing accesses is itself made by package mod
		// (a caller frame in mod above a race inside the HTTP layer is not state of this property)
		if site := raceAccessInMod(rep); site != "" {
			run.Violation("race/"+site, "data race on state accessed by package mod", rep)
		} else {
			run.Count("unattributed_race_reports", 1)
			run.SetAdd("unattributed_race_sites", raceTop(rep))
		}
	}
	if os.Getenv("C13_KEEP") == "" {
		_ = os.RemoveAll(scratchRoot)
	}
	os.Exit(run.Finish())
}

// raceTop returns the innermost function of the first access of a race report.
func raceTop(rep string) string {
	lines := strings.Split(rep, "\n")
	for i, l := range lines {
		if (strings.HasPrefix(l, "Read at") || strings.HasPrefix(l, "Write at") || strings.HasPrefix(l, "Previous ")) && i+1 < len(lines) {
			return strings.TrimSuffix(strings.TrimSpace(lines[i+1]), "()")
		}
	}
	return "unknown"
}

// raceAccessInMod returns the accessing function when one of the two racing accesses of the
// report is made by a function of package mod itself.
func raceAccessInMod(rep string) string {
	lines := strings.Split(rep, "\n")
	for i, l := range lines {
		if (strings.HasPrefix(l, "Read at") || strings.HasPrefix(l, "Write at") || strings.HasPrefix(l, "Previous ")) && i+1 < len(lines) {
			f := strings.TrimSpace(lines[i+1])
			if strings.HasPrefix(f, "github.com/regclient/regclient/mod.") {
				f = strings.TrimPrefix(strings.TrimSuffix(f, "()"), "github.com/regclient/regclient/")
				if k := strings.Index(f, ".func"); k > 0 {
					f = f[:k]
				}
				return f
			}
		}
	}
	return ""
}

func hasClause(o *Outcome, clause string) bool {
	for _, f := range o.Findings {
		if f.Clause == clause {
			return true
		}
	}
	return false
}

func panicRole(o *Outcome) string {
	for _, f := range o.Findings {
		if f.Clause == "panic" {
			return f.Role
		}
	}
	return ""
}

var reVolatile = regexp.MustCompile(`127\.0\.0\.1:[0-9]+|sha(256|512):[0-9a-f]{8,}|/[^ ]*scratch/[^ :,]*|[0-9]{4}-[0-9]{2}-[0-9]{2}[T ][0-9:.]+Z?`)

func errClass(e string) string {
	e = reVolatile.ReplaceAllString(e, "_")
	if len(e) > 110 {
		e = e[:110]
	}
	return e
}

func replay(run *ev.Run, path string) {
	b, err := os.ReadFile(path)
	if err != nil {
		run.Inconclusive("cannot read replay file: " + err.Error())
		return
	}
	var f struct {
		Witness struct {
			Minimal Case `json:"minimal_case"`
		} `json:"witness"`
	}
	if err := json.Unmarshal(b, &f); err != nil {
		run.Inconclusive("cannot parse replay file: " + err.Error())
		return
	}
	o := runCase(f.Witness.Minimal)
	run.Eval(1)
	fmt.Printf("replayed case %+v: error=%q result=%s findings=%d\n", f.Witness.Minimal, o.ApplyErr, o.Result, len(o.Findings))
	for _, fd := range o.Findings {
		fmt.Printf("  finding [%s] %s: %s\n", fd.Step, fd.Key(), trunc(fd.Detail, 400))
	}
	if len(o.Findings) > 0 {
		report(run, o)
	}
}
