package main

// (e) manifests obtained for a *descriptor* or for a *platform*: the library's own idiom is
// ManifestGet(parentRef, WithManifestDesc(child)) - the reference only says where (a tag, the digest of the
// parent index, or both), the descriptor says what. Whatever comes back for the descriptor must be the bytes
// the descriptor's digest names; the same for WithManifestPlatform, where the digest is the one the index
// lists for that platform. Registries (cache on / off) and layouts, index and nested index.

import (
	"bytes"
	"context"
	"fmt"
	"math/rand"
	"os"
	"time"

	"github.com/opencontainers/go-digest"
	"github.com/regclient/regclient"
	"github.com/regclient/regclient/scheme/reg"
	"github.com/regclient/regclient/types/descriptor"
	"github.com/regclient/regclient/types/manifest"
	"github.com/regclient/regclient/types/platform"
	"github.com/regclient/regclient/types/ref"

	"verif/ev"
	"verif/gen"
	"verif/modelreg"
	"verif/rcx"
)

func partDesc() {
	n := ev.Scale(400, 4000)
	parallel(n, "c02/desc", func(rng *rand.Rand, i int) {
		fam := []string{"oci", "docker"}[rng.Intn(2)]
		kind := []string{"index", "index", "nested"}[rng.Intn(3)]
		g := gen.Random(rng, "sha256", gen.Shape{Family: fam, Kind: kind, Platforms: 2 + rng.Intn(3), Layers: 1, MaxBlob: 80}, "v1")
		top := g.Nodes[g.Top]
		// candidates: the manifests the top index lists
		var kids []*gen.Node
		for _, id := range top.Refs {
			if g.Nodes[id].IsManifest() {
				kids = append(kids, g.Nodes[id])
			}
		}
		if len(kids) < 2 {
			return
		}
		child := kids[rng.Intn(len(kids))]
		other := kids[(child.ID+1)%len(kids)]
		for other == child {
			other = kids[rng.Intn(len(kids))]
		}
		backend := []string{"registry", "registry", "layout"}[rng.Intn(3)]
		cache := backend == "registry" && rng.Intn(2) == 0
		var rc *regclient.RegClient
		var mkRef func(tagOrDigest string) ref.Ref
		if backend == "registry" {
			w := modelreg.NewWorld()
			defer w.Close()
			h := w.NewHost("src")
			g.ToHost(h, "proj/app", nil, true)
			var ro []reg.Opts
			if cache {
				ro = append(ro, reg.WithCache(time.Minute, 100))
			}
			rc = rcx.New([]*modelreg.Host{h}, rcx.Opts{RegOpts: ro})
			mkRef = func(s string) ref.Ref { return rcx.Ref(h, "proj/app", s) }
		} else {
			dir, _ := os.MkdirTemp(os.Getenv("VERIF_BIN"), "c02d")
			defer os.RemoveAll(dir)
			if err := g.ToLayout(dir, nil, true); err != nil {
				panic(err)
			}
			rc = rcx.New(nil, rcx.Opts{})
			mkRef = func(s string) ref.Ref { return rcx.DirRef(dir, s) }
		}
		refForm := []string{"tag", "parent-digest", "tag-and-parent-digest"}[rng.Intn(3)]
		var r ref.Ref
		switch refForm {
		case "tag":
			r = mkRef("v1")
		case "parent-digest":
			r = mkRef(top.Digest)
		default:
			r = mkRef("v1").AddDigest(top.Digest)
		}
		ctx, cancel := context.WithTimeout(context.Background(), 30*time.Second)
		defer cancel()
		mode := []string{"descriptor", "descriptor", "platform-get", "platform-head"}[rng.Intn(4)]
		if mode != "descriptor" && (kind != "index" || child.Platform == nil || child.Platform.OS != "linux") {
			mode = "descriptor"
		}
		wit := map[string]any{"backend": backend, "cache": cache, "family": fam, "graph": kind, "reference": refForm, "mode": mode, "child": child.Digest, "parent": top.Digest}
		cb := body{"child-of-" + kind, child.MT, child.Content}
		// a caching client may have seen the parent (and the sibling) before
		if rng.Intn(2) == 0 {
			_, _ = rc.ManifestGet(ctx, r)
			_, _ = rc.ManifestGet(ctx, mkRef(other.Digest))
		}
		run.Eval(1)
		switch mode {
		case "descriptor":
			d := descriptor.Descriptor{MediaType: child.MT, Digest: digest.Digest(child.Digest), Size: int64(len(child.Content))}
			sizeForm := []string{"right", "right", "zero", "wrong"}[rng.Intn(4)]
			switch sizeForm {
			case "zero":
				d.Size = 0
			case "wrong":
				d.Size += int64(1 + rng.Intn(9))
			}
			dataForm := []string{"none", "none", "right", "sibling"}[rng.Intn(4)]
			switch dataForm {
			case "right":
				d.Data = bytes.Clone(child.Content)
			case "sibling":
				d.Data = bytes.Clone(other.Content)
			}
			wit["descriptor_size"], wit["descriptor_data"] = sizeForm, dataForm
			m, err := rc.ManifestGet(ctx, r, regclient.WithManifestDesc(d))
			cls := fmt.Sprintf("%s/%s/size-%s/data-%s", backend, refForm, sizeForm, dataForm)
			if err != nil {
				run.Count("by_descriptor_rejected", 1)
				if sizeForm == "right" && dataForm != "sibling" {
					run.Violation("consistent-manifest-rejected/by-descriptor/"+cls, fmt.Sprintf("ManifestGet(%s reference of the parent, WithManifestDesc(child)) failed although reference, descriptor and content agree: %v", refForm, err), wit)
				}
				return
			}
			raw, _ := m.RawBody()
			if digest.FromBytes(raw).String() != child.Digest {
				what := "other bytes"
				if bytes.Equal(raw, top.Content) {
					what = "the parent index"
				} else if bytes.Equal(raw, other.Content) {
					what = "a sibling"
				}
				run.Violation("returned-for-wrong-digest/by-descriptor/"+cls, fmt.Sprintf("ManifestGet with WithManifestDesc(%s) over a %s reference returned %s: %d bytes that hash to %s", child.Digest, refForm, what, len(raw), digest.FromBytes(raw)), wit)
				return
			}
			checkObject("by-descriptor/"+backend, m, cb, "sha256", wit)
			run.Count("by_descriptor_checked", 1)
			run.Distinct("by-descriptor/" + cls + fmt.Sprintf("/cache=%t/%s", cache, kind))
		default:
			p, err := platform.Parse(child.Platform.OS + "/" + child.Platform.Architecture + map[bool]string{true: "/" + child.Platform.Variant, false: ""}[child.Platform.Variant != ""])
			if err != nil {
				panic(err)
			}
			wit["platform"] = p.String()
			var m manifest.Manifest
			if mode == "platform-get" {
				m, err = rc.ManifestGet(ctx, r, regclient.WithManifestPlatform(p))
			} else {
				m, err = rc.ManifestHead(ctx, r, regclient.WithManifestPlatform(p))
			}
			cls := fmt.Sprintf("%s/%s/%s", backend, refForm, mode)
			if err != nil && mode == "platform-head" {
				// a refused head is not a wrong manifest (a layout cannot name the type of a listed child that
				// declares no mediaType without reading it as a manifest): counted, not judged
				run.Count("by_platform_head_refused", 1)
				return
			}
			if err != nil {
				run.Violation("consistent-manifest-rejected/by-platform/"+cls, fmt.Sprintf("%s for platform %s failed although the index lists exactly one such entry: %v", mode, p.String(), err), wit)
				return
			}
			if got := string(m.GetDescriptor().Digest); got != child.Digest {
				run.Violation("returned-for-wrong-digest/by-platform/"+cls, fmt.Sprintf("%s for platform %s reports digest %s, the index lists %s for it", mode, p.String(), got, child.Digest), wit)
				return
			}
			if mode == "platform-get" {
				checkObject("by-platform/"+backend, m, cb, "sha256", wit)
			} else if raw, err := m.RawBody(); err == nil && len(raw) > 0 && digest.FromBytes(raw).String() != child.Digest {
				run.Violation("returned-for-wrong-digest/by-platform/"+cls+"/body", "the head result carries a body that does not hash to the digest it reports", wit)
			}
			run.Count("by_platform_checked", 1)
			run.Distinct("by-platform/" + cls + fmt.Sprintf("/cache=%t", cache))
		}
	})
}
