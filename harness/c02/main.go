// C02 — a manifest is exactly the bytes its digest names, at fetch and after edits.
// Monitor: (a) fetch oracle over served bytes with the harness' own hashes (manifest.New,
// registry and layout fetches with right / wrong / absent digest sources); (b) a recording
// registry compares the body of ManifestPut(fetched) byte for byte; (c) after every setter the
// descriptor must be the hash and length of the serialisation that will be pushed, which must
// parse back to the getter values (regclient's own re-parse plus an independent JSON decode);
// (d) get -> edit own copy -> get again through one client with the response cache on and off.
package main

import (
	"bytes"
	"context"
	_ "embed"
	"encoding/json"
	"fmt"
	"math/rand"
	"net/http"
	"os"
	"reflect"
	"sort"
	"strings"
	"sync"
	"time"

	"github.com/opencontainers/go-digest"
	"github.com/regclient/regclient/scheme/reg"
	"github.com/regclient/regclient/types/descriptor"
	"github.com/regclient/regclient/types/manifest"
	"github.com/regclient/regclient/types/ref"

	"verif/ev"
	"verif/gen"
	la "verif/layoutaudit"
	"verif/modelreg"
	"verif/rcx"
)

//go:embed schema1signed.json
var schema1Signed []byte

//go:embed ociartifact.json
var ociArtifact []byte

var run *ev.Run

type body struct {
	kind string // oci-image oci-index oci-artifact docker-image docker-list schema1 schema1-signed
	mt   string
	raw  []byte
}

// genBody renders one manifest text of the given kind.
func genBody(rng *rand.Rand, kind string) body {
	g := gen.New(rng, "sha256")
	g.Style = rng.Intn(8)
	ann := map[string]string{}
	for i := 0; i < rng.Intn(3); i++ {
		ann[fmt.Sprintf("org.example.k%d", i)] = []string{"v", "<html>&amp;", "ünï", "a\"b", ""}[rng.Intn(5)] + fmt.Sprint(rng.Intn(100))
	}
	var subj *gen.Node
	if rng.Intn(3) == 0 {
		subj = g.BlobBytes("image", la.MTOCIManifest, []byte(fmt.Sprintf(`{"schemaVersion":2,"x":%d}`, rng.Intn(1000))))
	}
	fam := "oci"
	if strings.HasPrefix(kind, "docker") {
		fam = "docker"
	}
	mkImage := func(s *gen.Node) *gen.Node {
		cfg := g.Config(fam, nil, 2)
		if rng.Intn(4) == 0 {
			cfg.Inline = true
		}
		var ls []*gen.Node
		for i := 0; i < 1+rng.Intn(3); i++ {
			_, _, _, lmt := mtsOf(fam)
			ls = append(ls, g.Blob("layer", lmt, 10+rng.Intn(50)))
		}
		return g.Image(cfg, ls, gen.ImageOpts{Family: fam, Subject: s, Annotations: ann, NoMediaType: fam == "oci" && rng.Intn(6) == 0})
	}
	switch kind {
	case "oci-image", "docker-image":
		if fam == "docker" {
			subj = nil
		}
		n := mkImage(subj)
		return body{kind, n.MT, n.Content}
	case "oci-index", "docker-list":
		var es []*gen.Node
		for i := 0; i < 1+rng.Intn(3); i++ {
			im := mkImage(nil)
			im.Platform = &la.Platform{OS: "linux", Architecture: []string{"amd64", "arm64", "arm"}[i%3]}
			es = append(es, im)
		}
		if fam == "docker" {
			subj, ann = nil, nil
		}
		n := g.Index(fam, es, subj, ann)
		return body{kind, n.MT, n.Content}
	case "oci-artifact":
		return body{kind, la.MTOCIArtifact, bytes.TrimSpace(ociArtifact)}
	case "schema1":
		var ls []*gen.Node
		for i := 0; i < 1+rng.Intn(3); i++ {
			ls = append(ls, g.Blob("layer", la.MTD2LayerGz, 20))
		}
		n := g.Schema1("library/x", "t", ls)
		return body{kind, la.MTD1, n.Content}
	case "schema1-signed":
		return body{kind, la.MTD1Signed, schema1Signed}
	}
	panic(kind)
}

func mtsOf(f string) (string, string, string, string) {
	if f == "docker" {
		return la.MTD2Manifest, la.MTD2List, la.MTD2Config, la.MTD2LayerGz
	}
	return la.MTOCIManifest, la.MTOCIIndex, la.MTOCIConfig, la.MTOCILayerGz
}

var kinds = []string{"oci-image", "oci-image", "oci-index", "oci-artifact", "docker-image", "docker-list", "schema1", "schema1-signed"}

// expectedDigest is what a registry names the bytes: signed schema1 by payload.
func expectedDigest(alg string, b body) string {
	return modelreg.ManifestDigest(alg, b.mt, b.raw)
}

// checkObject applies the "is exactly the bytes" laws to a returned manifest.
func checkObject(where string, m manifest.Manifest, b body, alg string, wit map[string]any) {
	raw, err := m.RawBody()
	if err != nil {
		run.Violation("returned-without-body/"+where+"/"+b.kind, fmt.Sprintf("[%s] manifest returned but RawBody fails: %v", where, err), wit)
		return
	}
	if !bytes.Equal(raw, b.raw) {
		run.Violation("raw-bytes-altered/"+where+"/"+b.kind, fmt.Sprintf("[%s] RawBody differs from the %d served bytes (got %d bytes)", where, len(b.raw), len(raw)), wit)
	}
	d := m.GetDescriptor()
	want := expectedDigest(alg, b)
	if string(d.Digest) != want {
		run.Violation("descriptor-digest-wrong/"+where+"/"+b.kind, fmt.Sprintf("[%s] descriptor digest %s, the bytes are named %s", where, d.Digest, want), wit)
	}
	okSize := d.Size == int64(len(b.raw))
	if b.kind == "schema1-signed" {
		if p, err := la.Schema1Payload(b.raw); err == nil && d.Size == int64(len(p)) {
			okSize = true
		}
	}
	if !okSize {
		run.Violation("descriptor-size-wrong/"+where+"/"+b.kind, fmt.Sprintf("[%s] descriptor size %d, body has %d bytes", where, d.Size, len(b.raw)), wit)
	}
	var decl struct {
		MediaType string `json:"mediaType"`
	}
	_ = json.Unmarshal(b.raw, &decl)
	if decl.MediaType != "" && d.MediaType != decl.MediaType && !(strings.HasPrefix(decl.MediaType, "application/vnd.docker.distribution.manifest.v1") && strings.HasPrefix(d.MediaType, "application/vnd.docker.distribution.manifest.v1")) {
		run.Violation("media-type-contradicts-body/"+where+"/"+b.kind, fmt.Sprintf("[%s] descriptor media type %q, body declares %q", where, d.MediaType, decl.MediaType), wit)
	}
	run.Count("manifest_objects_checked", 1)
}

// ---- (a) manifest.New with every combination of digest sources ------------------------------------

func partNew() {
	n := ev.Scale(40000, 400000)
	parallel(n, "c02/new", func(rng *rand.Rand, i int) {
		b := genBody(rng, kinds[rng.Intn(len(kinds))])
		alg := []string{"sha256", "sha256", "sha512"}[rng.Intn(3)]
		if b.kind == "schema1-signed" {
			alg = "sha256"
		}
		right := expectedDigest(alg, b)
		wrong := la.Digest(alg, append(bytes.Clone(b.raw), ' '))
		req := []string{"none", "ref-right", "ref-wrong", "desc-right", "desc-wrong"}[rng.Intn(5)]
		hdr := []string{"none", "right", "wrong"}[rng.Intn(3)]
		ct := []string{"right", "right", "absent", "wrong"}[rng.Intn(4)]
		opts := []manifest.Opts{manifest.WithRaw(b.raw)}
		r, _ := ref.New("registry.example/proj/app:v1")
		switch req {
		case "ref-right":
			r = r.SetDigest(right)
		case "ref-wrong":
			r = r.SetDigest(wrong)
		case "desc-right":
			opts = append(opts, manifest.WithDesc(descriptor.Descriptor{Digest: digest.Digest(right), MediaType: b.mt}))
		case "desc-wrong":
			opts = append(opts, manifest.WithDesc(descriptor.Descriptor{Digest: digest.Digest(wrong), MediaType: b.mt}))
		}
		opts = append(opts, manifest.WithRef(r))
		h := http.Header{}
		switch hdr {
		case "right":
			h.Set("Docker-Content-Digest", right)
		case "wrong":
			h.Set("Docker-Content-Digest", wrong)
		}
		wrongCT := la.MTOCIIndex
		if b.mt == la.MTOCIIndex {
			wrongCT = la.MTOCIManifest
		}
		switch ct {
		case "right":
			h.Set("Content-Type", b.mt)
		case "wrong":
			h.Set("Content-Type", wrongCT)
		}
		if len(h) > 0 {
			opts = append(opts, manifest.WithHeader(h))
		}
		if alg == "sha512" && req == "none" && hdr == "none" {
			alg = "sha256" // nothing tells the library to use another algorithm
		}
		wit := map[string]any{"kind": b.kind, "alg": alg, "requested": req, "header_digest": hdr, "content_type": ct, "body": string(clip(b.raw, 600))}
		m, err := func() (m manifest.Manifest, err error) {
			defer func() {
				if p := recover(); p != nil {
					err = fmt.Errorf("PANIC: %v", p)
					run.Violation("panic/manifest.New/"+b.kind, fmt.Sprint(p), wit)
				}
			}()
			return manifest.New(opts...)
		}()
		run.Eval(1)
		mustFail := req == "ref-wrong" || req == "desc-wrong" || (req == "none" && hdr == "wrong")
		var decl struct {
			MediaType string `json:"mediaType"`
		}
		_ = json.Unmarshal(b.raw, &decl)
		ctContradicts := ct == "wrong" && decl.MediaType != "" && !strings.HasPrefix(req, "desc")
		if err == nil {
			run.Count("manifest_new_accepted", 1)
			if mustFail {
				run.Violation(fmt.Sprintf("returned-for-wrong-digest/new/%s/%s/header=%s", b.kind, req, hdr), fmt.Sprintf("manifest.New returned a manifest although the %s digest does not match its bytes (header digest: %s)", req, hdr), wit)
				return
			}
			if ctContradicts {
				run.Violation("media-type-contradicts-body/new/"+b.kind, fmt.Sprintf("manifest.New accepted Content-Type %q for a body that declares %q", wrongCT, decl.MediaType), wit)
				return
			}
			if ct == "wrong" && decl.MediaType == "" {
				return // body declares nothing: the announced type decides, nothing to compare
			}
			checkObject("new", m, b, alg, wit)
			run.Distinct(fmt.Sprintf("new/%s/%s/%s/%s/%s", b.kind, alg, req, hdr, ct))
		} else {
			run.Count("manifest_new_rejected", 1)
			if !mustFail && !ctContradicts && ct != "wrong" && !(req == "none" && hdr == "wrong") {
				// a consistent input must be accepted (otherwise the law would be vacuous)
				if !(ct == "absent" && decl.MediaType == "" && !strings.HasPrefix(req, "desc") && b.kind != "oci-image") {
					run.Violation("consistent-manifest-rejected/new/"+b.kind, fmt.Sprintf("manifest.New rejected a consistent input (%s, header %s, content-type %s): %v", req, hdr, ct, err), wit)
				}
			}
		}
		if i < 3 {
			run.Sample(wit)
		}
	})
}

func clip(b []byte, n int) []byte {
	if len(b) > n {
		return b[:n]
	}
	return b
}

func parallel(n int, stream string, fn func(rng *rand.Rand, i int)) {
	const W = 14
	var wg sync.WaitGroup
	for w := 0; w < W; w++ {
		wg.Add(1)
		go func(w int) {
			defer wg.Done()
			rng := ev.Rand(fmt.Sprintf("%s/%d", stream, w))
			for i := w; i < n; i += W {
				fn(rng, i)
			}
		}(w)
	}
	wg.Wait()
}

// ---- (b) registry / layout fetches and byte-identical re-push -----------------------------------------

func partFetch() {
	n := ev.Scale(1500, 20000)
	parallel(n, "c02/fetch", func(rng *rand.Rand, i int) {
		b := genBody(rng, kinds[rng.Intn(len(kinds))])
		alg := []string{"sha256", "sha256", "sha512"}[rng.Intn(3)]
		if b.kind == "schema1-signed" {
			alg = "sha256"
		}
		w := modelreg.NewWorld()
		defer w.Close()
		src := w.NewHost("src")
		tgt := w.NewHost("tgt")
		served := b.raw
		corrupt := rng.Intn(3) == 0
		d := expectedDigest(alg, b)
		if corrupt {
			// the registry serves other bytes under the same name (a flipped byte inside a JSON string keeps it parsable)
			served = bytes.Replace(bytes.Clone(b.raw), []byte("sha256:"), []byte("sha256:"), 1)
			idx := bytes.Index(served, []byte("\"digest\""))
			if idx < 0 {
				idx = bytes.Index(served, []byte("blobSum"))
			}
			pos := idx + 25
			if idx < 0 || pos >= len(served) {
				pos = len(served) / 2
			}
			if served[pos] == 'a' {
				served[pos] = 'b'
			} else if served[pos] >= '0' && served[pos] <= '9' || served[pos] >= 'a' && served[pos] <= 'f' {
				served[pos] = 'a'
			} else {
				corrupt = false
			}
		}
		w.Lock()
		src.Repo("proj/app").Manifests[d] = &modelreg.Man{Raw: served, MT: b.mt}
		src.Repo("proj/app").Tags["v1"] = d
		w.Unlock()
		hdrMode := []string{"right", "right", "absent", "wrong"}[rng.Intn(4)]
		src.Cfg.NoHeadDigest = hdrMode == "absent"
		if hdrMode == "wrong" {
			srcWrong := la.Digest(alg, []byte("something else"))
			src.Cfg.NoHeadDigest = true
			src.Cfg.ExtraManifestHeader = map[string]string{"Docker-Content-Digest": srcWrong}
		}
		src.Cfg.ManifestCTWrong = rng.Intn(10) == 0
		by := []string{"tag", "digest"}[rng.Intn(2)]
		cache := rng.Intn(2) == 0
		ro := []reg.Opts{}
		if cache {
			ro = append(ro, reg.WithCache(time.Minute, 100))
		}
		rc := rcx.New([]*modelreg.Host{src, tgt}, rcx.Opts{RegOpts: ro})
		ctx, cancel := context.WithTimeout(context.Background(), 30*time.Second)
		defer cancel()
		r := rcx.Ref(src, "proj/app", "v1")
		if by == "digest" {
			r = rcx.Ref(src, "proj/app", d)
		}
		wit := map[string]any{"kind": b.kind, "alg": alg, "by": by, "header": hdrMode, "served_corrupted": corrupt, "cache": cache, "content_type_wrong": src.Cfg.ManifestCTWrong}
		m, err := rc.ManifestGet(ctx, r)
		run.Eval(1)
		if err != nil {
			run.Count("fetches_rejected", 1)
			if !corrupt && hdrMode != "wrong" && !src.Cfg.ManifestCTWrong && !(alg == "sha512" && hdrMode == "absent" && by == "tag") {
				run.Violation("consistent-manifest-rejected/registry/"+b.kind, fmt.Sprintf("ManifestGet by %s failed on a consistent registry: %v", by, err), wit)
			}
			return
		}
		run.Count("fetches_returned", 1)
		sb := body{b.kind, b.mt, served}
		// which digest was the manifest obtained for?
		switch {
		case by == "digest" && corrupt:
			run.Violation("returned-for-wrong-digest/registry/"+b.kind+"/by-digest", fmt.Sprintf("ManifestGet by digest %s returned bytes that do not hash to it", d), wit)
			return
		case by == "tag" && hdrMode == "wrong":
			run.Violation("returned-for-wrong-digest/registry/"+b.kind+"/announced", "ManifestGet by tag returned a manifest although the registry announced a Docker-Content-Digest that its bytes do not hash to", wit)
			return
		case by == "tag" && hdrMode == "right" && corrupt:
			run.Violation("returned-for-wrong-digest/registry/"+b.kind+"/announced", "ManifestGet by tag returned bytes that do not hash to the digest the registry announced for them", wit)
			return
		}
		useAlg := alg
		if hdrMode == "absent" && by == "tag" {
			useAlg = "sha256"
		}
		if src.Cfg.ManifestCTWrong {
			var decl struct {
				MediaType string `json:"mediaType"`
			}
			_ = json.Unmarshal(served, &decl)
			if decl.MediaType != "" {
				run.Violation("media-type-contradicts-body/registry/"+b.kind, "ManifestGet accepted a Content-Type that contradicts the media type the body declares", wit)
			}
			return
		}
		checkObject("registry", m, sb, useAlg, wit)
		run.Distinct(fmt.Sprintf("fetch/%s/%s/%s/%s/corrupt=%t/cache=%t", b.kind, useAlg, by, hdrMode, corrupt, cache))
		// re-push: the body that arrives must be the body that was served
		if b.kind == "schema1-signed" {
			return
		}
		err = rc.ManifestPut(ctx, rcx.Ref(tgt, "copy/app", "v1"), m)
		w.WaitIdle()
		if err != nil {
			run.Count("repush_failed", 1)
			return
		}
		for _, e := range w.Log() {
			if e.Host == "tgt" && e.Kind == "manifest" && e.Method == "PUT" && e.Ref == "v1" {
				run.Count("repush_bodies_compared", 1)
				if !bytes.Equal(e.Body, served) {
					run.Violation("repush-changes-bytes/"+b.kind, fmt.Sprintf("ManifestPut of a fetched manifest sent %d bytes that differ from the %d bytes that were fetched", len(e.Body), len(served)), wit)
				}
			}
		}
	})
	// layouts
	rng := ev.Rand("c02/layout")
	for i := 0; i < ev.Scale(300, 3000); i++ {
		b := genBody(rng, kinds[rng.Intn(len(kinds)-1)])
		alg := []string{"sha256", "sha512"}[rng.Intn(2)]
		dir, _ := os.MkdirTemp(os.Getenv("VERIF_BIN"), "c02l")
		d := expectedDigest(alg, b)
		served := b.raw
		corrupt := rng.Intn(3) == 0
		if corrupt {
			served = append(bytes.Clone(b.raw), '\n')
		}
		_ = gen.WriteLayoutBlob(dir, d, served)
		// the index entry may state a size the file does not have (right digest): whatever is returned still
		// reports the size of its own bytes
		stated := len(b.raw)
		sizeWrong := rng.Intn(4) == 0
		if sizeWrong {
			stated += 1 + rng.Intn(9)
		}
		_ = gen.WriteLayoutIndex(dir, []gen.Obj{{{K: "mediaType", V: b.mt}, {K: "digest", V: d}, {K: "size", V: stated}, {K: "annotations", V: map[string]string{la.AnnotRefName: "v1"}}}})
		rc := rcx.New(nil, rcx.Opts{})
		by := []string{"v1", d}[rng.Intn(2)]
		m, err := rc.ManifestGet(context.Background(), rcx.DirRef(dir, by))
		run.Eval(1)
		wit := map[string]any{"kind": b.kind, "alg": alg, "by": by, "file_corrupted": corrupt, "index_states_wrong_size": sizeWrong}
		if sizeWrong {
			run.Count("layout_gets_with_wrong_stated_size", 1)
		}
		if err != nil && sizeWrong {
			// refusing an entry whose size is wrong is as good as correcting it
		} else if err == nil {
			if corrupt {
				run.Violation("returned-for-wrong-digest/layout/"+b.kind, fmt.Sprintf("layout ManifestGet(%s) returned a manifest whose file does not hash to the digest it is stored / indexed under", by), wit)
			} else {
				checkObject("layout", m, body{b.kind, b.mt, served}, alg, wit)
				run.Distinct(fmt.Sprintf("layout/%s/%s", b.kind, alg))
			}
		} else if !corrupt {
			run.Violation("consistent-manifest-rejected/layout/"+b.kind, fmt.Sprintf("layout ManifestGet(%s) failed: %v", by, err), wit)
		}
		_ = os.RemoveAll(dir)
	}
}

// ---- (c) setter programs ------------------------------------------------------------------------------

func randDesc(rng *rand.Rand, mt string) descriptor.Descriptor {
	b := make([]byte, 8)
	rng.Read(b)
	d := descriptor.Descriptor{MediaType: mt, Digest: digest.Digest(la.Digest("sha256", b)), Size: int64(1 + rng.Intn(5000))}
	if rng.Intn(4) == 0 {
		d.Annotations = map[string]string{"a": fmt.Sprint(rng.Intn(9))}
	}
	if rng.Intn(5) == 0 {
		d.Data = b
		d.Size = int64(len(b))
		d.Digest = digest.Digest(la.Digest("sha256", b))
	}
	return d
}

// afterEdit checks the equation after a setter.
func afterEdit(m manifest.Manifest, kind, alg string, prog []string) bool {
	wit := map[string]any{"kind": kind, "alg": alg, "program": prog}
	d := m.GetDescriptor()
	raw, err := m.RawBody()
	if err != nil {
		run.Violation("edit/no-body/"+kind+"/"+prog[len(prog)-1], fmt.Sprintf("RawBody fails after %v: %v", prog, err), wit)
		return false
	}
	mj, err := m.MarshalJSON()
	if err != nil {
		run.Violation("edit/marshal-fails/"+kind+"/"+prog[len(prog)-1], fmt.Sprintf("MarshalJSON fails after %v: %v", prog, err), wit)
		return false
	}
	last := strings.SplitN(prog[len(prog)-1], "(", 2)[0]
	ok := true
	if !bytes.Equal(mj, raw) {
		run.Violation("edit/marshal-differs-from-raw/"+kind+"/"+last, fmt.Sprintf("after %v MarshalJSON (what will be pushed, %d bytes) differs from RawBody (%d bytes)", prog, len(mj), len(raw)), wit)
		ok = false
	}
	if string(d.Digest) != la.Digest(alg, mj) {
		run.Violation("edit/descriptor-digest-stale/"+kind+"/"+last, fmt.Sprintf("after %v the descriptor says %s but the serialisation that will be pushed hashes to %s", prog, d.Digest, la.Digest(alg, mj)), wit)
		ok = false
	}
	if d.Size != int64(len(mj)) {
		run.Violation("edit/descriptor-size-stale/"+kind+"/"+last, fmt.Sprintf("after %v the descriptor says size %d, the serialisation has %d bytes", prog, d.Size, len(mj)), wit)
		ok = false
	}
	// parses back to the getter values (regclient's own parser)
	m2, err := manifest.New(manifest.WithRaw(mj), manifest.WithDesc(descriptor.Descriptor{MediaType: d.MediaType}))
	if err != nil {
		run.Violation("edit/serialisation-unparsable/"+kind+"/"+last, fmt.Sprintf("after %v the serialisation does not parse: %v", prog, err), wit)
		return false
	}
	cmp := func(name string, a, b any, ea, eb error) {
		if (ea == nil) != (eb == nil) {
			return
		}
		if ea != nil {
			return
		}
		if !reflect.DeepEqual(norm(a), norm(b)) {
			aj, _ := json.Marshal(a)
			bj, _ := json.Marshal(b)
			wit[name+"_getter"], wit[name+"_reparsed"] = string(clip(aj, 400)), string(clip(bj, 400))
			run.Violation("edit/getter-differs-from-serialisation/"+kind+"/"+name+"/"+last, fmt.Sprintf("after %v %s from the getter differs from what the serialisation parses back to", prog, name), wit)
			ok = false
		}
	}
	if a, okA := m.(manifest.Annotator); okA {
		x, e1 := a.GetAnnotations()
		y, e2 := m2.(manifest.Annotator).GetAnnotations()
		cmp("annotations", x, y, e1, e2)
	}
	if a, okA := m.(manifest.Imager); okA {
		x, e1 := a.GetConfig()
		y, e2 := m2.(manifest.Imager).GetConfig()
		cmp("config", x, y, e1, e2)
		xl, e1 := a.GetLayers()
		yl, e2 := m2.(manifest.Imager).GetLayers()
		cmp("layers", xl, yl, e1, e2)
	}
	if a, okA := m.(manifest.Indexer); okA {
		x, e1 := a.GetManifestList()
		y, e2 := m2.(manifest.Indexer).GetManifestList()
		cmp("manifests", x, y, e1, e2)
	}
	if a, okA := m.(manifest.Subjecter); okA {
		x, e1 := a.GetSubject()
		y, e2 := m2.(manifest.Subjecter).GetSubject()
		cmp("subject", x, y, e1, e2)
		// independent decode: subject present in the bytes iff the getter reports one
		var probe struct {
			Subject *struct {
				Digest string `json:"digest"`
			} `json:"subject"`
		}
		_ = json.Unmarshal(mj, &probe)
		if e1 == nil && ((x != nil && x.Digest != "") != (probe.Subject != nil && probe.Subject.Digest != "")) {
			run.Violation("edit/getter-differs-from-serialisation/"+kind+"/subject-raw/"+last, fmt.Sprintf("after %v GetSubject reports %v but the serialisation's subject is %v", prog, x != nil, probe.Subject != nil), wit)
			ok = false
		} else if e1 == nil && x != nil && probe.Subject != nil && string(x.Digest) != probe.Subject.Digest {
			run.Violation("edit/getter-differs-from-serialisation/"+kind+"/subject-raw/"+last, "subject digest differs between getter and serialisation", wit)
			ok = false
		}
	}
	// independent decode of annotations
	if a, okA := m.(manifest.Annotator); okA {
		x, e1 := a.GetAnnotations()
		var probe struct {
			Annotations map[string]string `json:"annotations"`
		}
		_ = json.Unmarshal(mj, &probe)
		if e1 == nil && !(len(x) == 0 && len(probe.Annotations) == 0) && !reflect.DeepEqual(x, probe.Annotations) {
			run.Violation("edit/getter-differs-from-serialisation/"+kind+"/annotations-raw/"+last, fmt.Sprintf("after %v GetAnnotations=%v but the serialisation has %v", prog, x, probe.Annotations), wit)
			ok = false
		}
	}
	run.Count("setter_states_checked", 1)
	return ok
}

func norm(v any) any {
	b, _ := json.Marshal(v)
	var x any
	_ = json.Unmarshal(b, &x)
	return prune(x)
}

func prune(x any) any {
	switch t := x.(type) {
	case map[string]any:
		for k, v := range t {
			pv := prune(v)
			if pv == nil {
				delete(t, k)
			} else {
				t[k] = pv
			}
		}
		if len(t) == 0 {
			return nil
		}
		return t
	case []any:
		if len(t) == 0 {
			return nil
		}
		for i := range t {
			t[i] = prune(t[i])
		}
		return t
	}
	return x
}

func partSetters() {
	n := ev.Scale(20000, 300000)
	parallel(n, "c02/set", func(rng *rand.Rand, i int) {
		kind := []string{"oci-image", "oci-image", "oci-index", "docker-image", "docker-list", "oci-artifact"}[rng.Intn(6)]
		b := genBody(rng, kind)
		alg := []string{"sha256", "sha256", "sha512"}[rng.Intn(3)]
		opts := []manifest.Opts{manifest.WithRaw(b.raw)}
		if alg == "sha512" {
			opts = append(opts, manifest.WithDesc(descriptor.Descriptor{Digest: digest.Digest(la.Digest("sha512", b.raw)), MediaType: b.mt}))
		}
		if strings.HasPrefix(kind, "oci-i") && rng.Intn(4) == 0 {
			// OCI allows the body to omit mediaType; the type then comes from the descriptor the caller holds
			var top map[string]json.RawMessage
			if json.Unmarshal(b.raw, &top) == nil {
				delete(top, "mediaType")
				if nb, err := json.Marshal(top); err == nil {
					b.raw = nb
					kind += "-without-mediaType"
					opts = []manifest.Opts{manifest.WithRaw(b.raw), manifest.WithDesc(descriptor.Descriptor{Digest: digest.Digest(la.Digest(alg, b.raw)), MediaType: b.mt})}
				}
			}
		}
		m, err := manifest.New(opts...)
		if err != nil {
			return
		}
		fam := "oci"
		if strings.HasPrefix(kind, "docker") {
			fam = "docker"
		}
		_, _, cfgMT, layerMT := mtsOf(fam)
		var prog []string
		steps := rng.Intn(7)
		run.Eval(1)
		for s := 0; s < steps; s++ {
			var e error
			var name string
			switch rng.Intn(7) {
			case 0, 1:
				a, ok := m.(manifest.Annotator)
				if !ok {
					continue
				}
				k := fmt.Sprintf("k%d", rng.Intn(3))
				v := []string{"", "x", "<&>", "ü"}[rng.Intn(4)]
				name = fmt.Sprintf("SetAnnotation(%s,%q)", k, v)
				e = a.SetAnnotation(k, v)
			case 2:
				a, ok := m.(manifest.Imager)
				if !ok {
					continue
				}
				name = "SetConfig"
				e = a.SetConfig(randDesc(rng, cfgMT))
			case 3:
				a, ok := m.(manifest.Imager)
				if !ok {
					continue
				}
				var dl []descriptor.Descriptor
				for k := 0; k < rng.Intn(4); k++ {
					dl = append(dl, randDesc(rng, layerMT))
				}
				name = fmt.Sprintf("SetLayers(%d)", len(dl))
				e = a.SetLayers(dl)
			case 4:
				a, ok := m.(manifest.Indexer)
				if !ok {
					continue
				}
				var dl []descriptor.Descriptor
				for k := 0; k < rng.Intn(4); k++ {
					dl = append(dl, randDesc(rng, la.MTOCIManifest))
				}
				name = fmt.Sprintf("SetManifestList(%d)", len(dl))
				e = a.SetManifestList(dl)
			case 5:
				a, ok := m.(manifest.Subjecter)
				if !ok {
					continue
				}
				if rng.Intn(2) == 0 {
					name = "SetSubject(nil)"
					e = a.SetSubject(nil)
				} else {
					d := randDesc(rng, la.MTOCIManifest)
					d.Data = nil
					name = "SetSubject(desc)"
					e = a.SetSubject(&d)
				}
			case 6:
				name = "SetOrig(GetOrig)"
				e = m.SetOrig(m.GetOrig())
			}
			if name == "" {
				continue
			}
			prog = append(prog, name)
			if e != nil {
				run.Count("setter_errors", 1)
				prog = prog[:len(prog)-1]
				continue
			}
			if !afterEdit(m, kind, alg, prog) {
				break
			}
		}
		if len(prog) > 0 {
			ops := map[string]bool{}
			for _, p := range prog {
				ops[strings.SplitN(p, "(", 2)[0]] = true
			}
			var ks []string
			for k := range ops {
				ks = append(ks, k)
			}
			sort.Strings(ks)
			run.Distinct(fmt.Sprintf("set/%s/%s/%s", kind, alg, strings.Join(ks, "+")))
		}
		if i < 2 {
			run.Sample(map[string]any{"kind": kind, "alg": alg, "program": prog})
		}
	})
}

// ---- (d) get, edit own copy, get again ---------------------------------------------------------------

func partHistory() {
	rng := ev.Rand("c02/hist")
	for i := 0; i < ev.Scale(300, 3000); i++ {
		kind := []string{"oci-image", "oci-index", "docker-image"}[rng.Intn(3)]
		b := genBody(rng, kind)
		w := modelreg.NewWorld()
		h := w.NewHost("reg")
		d := h.PutManifest("proj/app", "sha256", b.mt, b.raw, "v1")
		cache := i%2 == 0
		ro := []reg.Opts{}
		if cache {
			ro = append(ro, reg.WithCache(time.Minute, 100))
		}
		rc := rcx.New([]*modelreg.Host{h}, rcx.Opts{RegOpts: ro})
		ctx := context.Background()
		by := []string{"v1", d}[rng.Intn(2)]
		m1, err := rc.ManifestGet(ctx, rcx.Ref(h, "proj/app", by))
		run.Eval(1)
		if err != nil {
			w.Close()
			continue
		}
		edit := "SetAnnotation"
		if a, ok := m1.(manifest.Annotator); ok {
			_ = a.SetAnnotation("edited.by.caller", fmt.Sprint(i))
		}
		if rng.Intn(2) == 0 {
			if a, ok := m1.(manifest.Imager); ok {
				_ = a.SetLayers(nil)
				edit = "SetLayers"
			}
		}
		m2, err := rc.ManifestGet(ctx, rcx.Ref(h, "proj/app", d))
		wit := map[string]any{"kind": kind, "cache": cache, "first_get_by": by, "caller_edit": edit}
		if err == nil {
			run.Count("second_gets_checked", 1)
			raw, _ := m2.RawBody()
			if string(m2.GetDescriptor().Digest) != d || !bytes.Equal(raw, b.raw) {
				run.Violation(fmt.Sprintf("cache/get-after-caller-edit/cache=%t", cache), fmt.Sprintf("get(%s), %s on the returned object, get by digest %s again: the second result reports digest %s and %d bytes (stored: %d bytes)", by, edit, d, m2.GetDescriptor().Digest, len(raw), len(b.raw)), wit)
			}
		}
		// put, edit the object that was put, get by the digest that was put
		mp, err := manifest.New(manifest.WithRaw(b.raw))
		if err == nil {
			if perr := rc.ManifestPut(ctx, rcx.Ref(h, "proj/put", "p1"), mp); perr == nil {
				if a, ok := mp.(manifest.Annotator); ok {
					_ = a.SetAnnotation("edited.after.put", "1")
				}
				m3, err := rc.ManifestGet(ctx, rcx.Ref(h, "proj/put", d))
				if err == nil {
					run.Count("second_gets_checked", 1)
					raw, _ := m3.RawBody()
					if string(m3.GetDescriptor().Digest) != d || !bytes.Equal(raw, b.raw) {
						run.Violation(fmt.Sprintf("cache/get-after-put-then-edit/cache=%t", cache), fmt.Sprintf("put a manifest, edited the caller's object, get by the pushed digest %s: the result reports digest %s", d, m3.GetDescriptor().Digest), wit)
					}
				}
			}
		}
		// head (by digest or tag), edit whatever came back, get by digest: a head result is the caller's as well
		for _, repo := range []string{"proj/app", "proj/put"} {
			hby := []string{d, "v1"}[rng.Intn(2)]
			if repo == "proj/put" && hby == "v1" {
				hby = "p1"
			}
			mh, err := rc.ManifestHead(ctx, rcx.Ref(h, repo, hby))
			if err != nil {
				continue
			}
			if a, ok := mh.(manifest.Annotator); ok {
				_ = a.SetAnnotation("edited.head.result", fmt.Sprint(i))
			}
			if a, ok := mh.(manifest.Imager); ok {
				_ = a.SetLayers(nil)
			}
			if a, ok := mh.(manifest.Indexer); ok {
				_ = a.SetManifestList(nil)
			}
			m4, err := rc.ManifestGet(ctx, rcx.Ref(h, repo, d))
			if err == nil {
				run.Count("second_gets_checked", 1)
				run.Count("gets_after_head_edit", 1)
				raw, _ := m4.RawBody()
				if string(m4.GetDescriptor().Digest) != d || !bytes.Equal(raw, b.raw) {
					run.Violation(fmt.Sprintf("cache/get-after-head-then-edit/cache=%t", cache), fmt.Sprintf("head(%s), setters on the returned object, get by digest %s: the result reports digest %s and %d bytes (stored: %d bytes)", hby, d, m4.GetDescriptor().Digest, len(raw), len(b.raw)), wit)
				}
			}
		}
		run.Distinct(fmt.Sprintf("hist/%s/cache=%t/%s/%s", kind, cache, by[:2], edit))
		w.Close()
	}
}

func main() {
	schema1Signed = bytes.TrimSpace(schema1Signed) // the fixture literal starts with a newline; formatLength counts from '{'
	run = ev.Start("C02", "exploration")
	run.Rule("manifest texts of all seven types rendered by the harness' own serializer (key order, indentation, trailing newline, unknown fields, escapes, inline data, subject, annotations, omitted mediaType; fixtures for signed schema1 and the OCI artifact manifest) " +
		"x expected-digest sources {reference, descriptor, Docker-Content-Digest header, none} each right / wrong x sha256/sha512 x Content-Type right / wrong / absent, through manifest.New, RegClient.ManifestGet (by tag / digest, registry serving other bytes under the name, header right / wrong / absent, cache on / off) and layouts; re-push body comparison at a recording registry; " +
		"setter programs of 0-6 calls {SetAnnotation add/replace/remove, SetConfig, SetLayers, SetManifestList, SetSubject nil/non-nil, SetOrig} with the equation checked after every call; get / edit own copy / get again histories; children of (nested) indexes obtained by descriptor (size right / zero / wrong, inline data none / right / a sibling's) or by platform (get / head) over a tag, parent-digest or tag-and-parent-digest reference, registry (cache on / off) and layout; layout index entries stating a wrong size; non-trivial = an object was returned and checked, or an edit state was checked; distinct = parameter classes")
	run.Assume("at most one requester-side digest source (reference or descriptor) is given per case: contradictory caller input is a caller error - except the library's own idiom ManifestGet(reference of the parent, WithManifestDesc(child)), where the reference says where and the descriptor says what", "signed schema1 is named by the digest of its JWS payload; size may be that of the body or of the payload",
		"when the body declares no mediaType the announced Content-Type decides and nothing is compared")
	partNew()
	partFetch()
	partSetters()
	partHistory()
	partDesc()
	run.Races(func(rep string) string {
		for _, frag := range []string{"/repo/types/manifest/", "/repo/scheme/reg/manifest.go", "/repo/internal/cache/", "/repo/scheme/ocidir/manifest.go"} {
			if fn := ev.RaceFrame(rep, frag); fn != "" {
				return "race/manifest/" + fn
			}
		}
		return ""
	})
	if run.Get("manifest_objects_checked") < 1000 || run.Get("setter_states_checked") < 1000 || run.Get("repush_bodies_compared") < 100 || run.Get("second_gets_checked") < 100 {
		run.Inconclusive("too few objects / edit states / re-push bodies / second gets checked")
	}
	os.Exit(run.Finish())
}
