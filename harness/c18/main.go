// C18 — after a sync run every selected source tag is mirrored; nothing else is touched.
//
// Workload: the regsync binary built from the repository under test, run as a child process
// (`regsync check -c cfg.yml`, `regsync once -c cfg.yml`) with generated configurations against
// two model registries whose raw state was written directly by the harness.
// Monitor: full raw state of both registries before and after every run, the target's request
// log in server order, and the harness' own model of selection (allow then deny, bound at both
// ends), of option defaults, of backup names and of platform entries; closure expectations are
// those of C03 (copyeng.Expected over the generated graphs). Nothing is read through regclient.
package main

import (
	"context"
	"errors"
	"fmt"
	"os"
	"os/exec"
	"path/filepath"
	"sort"
	"strconv"
	"strings"
	"sync"
	"time"

	"verif/ev"
)

const childTimeout = 150 * time.Second

func copyTags(m map[string]map[string]tagRef) map[string]map[string]tagRef {
	out := map[string]map[string]tagRef{}
	for r, ts := range m {
		o := map[string]tagRef{}
		for t, v := range ts {
			o[t] = v
		}
		out[r] = o
	}
	return out
}

// regsync runs the binary once. timedOut: the watchdog fired.
func regsync(bin, dir, mode, cfg string) (exit int, stderr string, timedOut bool) {
	ctx, cancel := context.WithTimeout(context.Background(), childTimeout)
	defer cancel()
	cmd := exec.CommandContext(ctx, bin, mode, "-c", cfg, "-v", "info")
	cmd.Dir = dir
	cmd.Env = []string{"HOME=" + dir, "PATH=" + os.Getenv("PATH"), "REGCTL_CONFIG=" + filepath.Join(dir, "no-regctl.json"), "DOCKER_CONFIG=" + filepath.Join(dir, "no-docker"),
		"TMPDIR=" + dir, "no_proxy=*", "NO_PROXY=*"}
	out, err := cmd.CombinedOutput()
	if ctx.Err() != nil {
		return -1, string(out), true
	}
	var ee *exec.ExitError
	switch {
	case err == nil:
		return 0, string(out), false
	case errors.As(err, &ee):
		return ee.ExitCode(), string(out), false
	}
	return -2, string(out) + "\n" + err.Error(), false
}

func crashed(exit int, stderr string) bool {
	return exit == 2 || exit < 0 || strings.Contains(stderr, "panic: ") || strings.Contains(stderr, "fatal error: ") || strings.Contains(stderr, "[signal SIG")
}

func failureClass(stderr string) string {
	for _, l := range strings.Split(stderr, "\n") {
		if i := strings.Index(l, "level=ERROR msg=\""); i >= 0 {
			m := l[i+len("level=ERROR msg=\""):]
			if j := strings.IndexByte(m, '"'); j >= 0 {
				m = m[:j]
			}
			return m
		}
		if i := strings.Index(l, "level=WARN msg=\"Platform could not be found"); i >= 0 {
			return "Platform could not be found"
		}
	}
	return "other"
}

// runCase executes one scenario.
func runCase(run *ev.Run, idx int, bin, scratch string, verbose bool) {
	rng := ev.Rand(fmt.Sprintf("c18/case/%d", idx))
	c := genCase(idx, rng)
	if c.Twin {
		run.Count("cases_with_one_source_tag_mirrored_for_two_platforms", 1)
	}
	defer c.W.Close()
	dir := filepath.Join(scratch, fmt.Sprintf("case%05d", idx))
	_ = os.MkdirAll(dir, 0o755)
	if !verbose {
		defer os.RemoveAll(dir)
	}
	yaml := c.Cfg.YAML(c.Src.Addr(), c.Tgt.Addr())
	cfgPath := filepath.Join(dir, "regsync.yml")
	if err := os.WriteFile(cfgPath, []byte(yaml), 0o644); err != nil {
		run.Inconclusive("cannot write config: " + err.Error())
		return
	}
	if verbose {
		fmt.Printf("case %d config:\n%s\n", idx, yaml)
	}
	observe := func(r int, mode string) (*runObs, bool) {
		o := &runObs{Run: r, YAML: yaml, SrcTagsAtRun: copyTags(c.SrcTags)}
		c.W.WaitIdle()
		o.PreSrc, o.PreTgt = c.Src.Snapshot(), c.Tgt.Snapshot()
		c.W.ResetLog()
		var to bool
		o.Exit, o.Stderr, to = regsync(bin, dir, mode, cfgPath)
		c.W.WaitIdle()
		o.Events = c.W.Log()
		o.PostSrc, o.PostTgt = c.Src.Snapshot(), c.Tgt.Snapshot()
		if verbose {
			fmt.Printf("case %d run %d %s: exit %d, %d requests\n%s\n", idx, r+1, mode, o.Exit, len(o.Events), o.Stderr)
		}
		if to {
			run.Inconclusive(fmt.Sprintf("case %d: regsync %s did not finish before the watchdog (%s)", idx, mode, childTimeout))
			return o, false
		}
		if crashed(o.Exit, o.Stderr) {
			w := c.describe(o)
			w["mode"] = mode
			run.Violation("crash/"+mode, fmt.Sprintf("regsync %s crashed (exit %d) on a generated configuration: %s", mode, o.Exit, tail(o.Stderr, 300)), w)
			return o, false
		}
		return o, true
	}
	feat := map[string]bool{}
	okRuns, copiedTotal, keptTotal := 0, 0, 0
	for r := 0; r < c.Runs; r++ {
		moved := 0
		if r > 0 {
			var signed int
			moved, signed = c.moveSource()
			run.Count("source_changes_between_runs", moved)
			run.Count("referrers_added_between_runs", signed)
		}
		if c.CheckAt[r] {
			o, ok := observe(r, "check")
			run.Eval(1)
			if !ok {
				return
			}
			c.judgeCheck(run, o)
		}
		o, ok := observe(r, "once")
		run.Eval(1)
		if !ok {
			return
		}
		o.Moved = moved
		run.Count("once_runs", 1)
		run.Count("requests_observed", len(o.Events))
		if o.Exit != 0 {
			run.Count("once_runs_reporting_failure", 1)
			fc := failureClass(o.Stderr)
			run.SetAdd("failure_classes", fc)
			if c.Platform == "linux/riscv64" || strings.HasPrefix(fc, "Platform could not be found") {
				run.Count("once_runs_failing_on_unresolvable_platform", 1)
			} else {
				run.Count("once_runs_failing_unexpectedly", 1)
				if run.Get("once_runs_failing_unexpectedly") <= 8 {
					fmt.Printf("note: case %d run %d: regsync once exited %d: %s\n", idx, r+1, o.Exit, tail(strings.TrimSpace(o.Stderr), 400))
				}
			}
			// a failed run promises nothing; later runs start from whatever it left
			continue
		}
		okRuns++
		run.Count("once_runs_reporting_success", 1)
		if r > 0 {
			run.Count("successful_reruns_after_source_moved", 1)
		}
		copied, kept := c.judgeOnce(run, o)
		copiedTotal += copied
		keptTotal += kept
	}
	for _, e := range c.Cfg.Entries {
		x := effective(e, c.Cfg.Defaults)
		feat["type-"+e.Type] = true
		if len(e.TagsAllow) > 0 {
			feat["tags-allow"] = true
		}
		if len(e.TagsDeny) > 0 {
			feat["tags-deny"] = true
		}
		if len(e.ReposAllow) > 0 {
			feat["repos-allow"] = true
		}
		if len(e.ReposDeny) > 0 {
			feat["repos-deny"] = true
		}
		if e.Platform != "" {
			feat["platform"] = true
			if c.Twin {
				feat["platform-twin"] = true
			}
		}
		if len(e.Set.MediaTypes) > 0 || len(c.Cfg.Defaults.MediaTypes) > 0 {
			feat["media-types"] = true
		}
		feat["backup-"+backupForm(x.Backup)] = true
		feat["opt-"+optClass(x)] = true
	}
	var fs []string
	for f := range feat {
		fs = append(fs, f)
	}
	sort.Strings(fs)
	key := fmt.Sprintf("%s|par%d|runs%d|api%t/%t", strings.Join(fs, ","), c.Cfg.Parallel, c.Runs, c.SrcAPI, c.TgtAPI)
	if okRuns > 0 && copiedTotal > 0 && keptTotal > 0 {
		run.Distinct(key)
		run.Count("nontrivial_cases", 1)
	}
	for _, f := range fs {
		run.SetAdd("config_features_seen", f)
	}
	run.SetAdd("parallel_values_seen", strconv.Itoa(c.Cfg.Parallel))
	if idx < 3 || verbose {
		run.Sample(map[string]any{"case": idx, "config_yaml": yaml, "runs": c.Runs, "check_before_run": c.CheckAt, "successful_runs": okRuns,
			"selected_tags_written": copiedTotal, "in_scope_tags_verified_unchanged": keptTotal, "source_repositories": len(c.SrcTags)})
	}
}

func main() {
	run := ev.Start("C18", "exploration")
	run.Rule("seeded regsync configurations (1-3 entries of type image / repository / registry; tag and repository allow / deny lists of 0-2 expressions each from a sub-language of literals, character classes, `.*`, `x+` without top-level alternation; " +
		"platform; mediaTypes lists; backup templates in tag form and full-reference form; referrers (+ artifactType / annotation filter), digestTags, fastCheck, forceRecursive; each option at entry level, under defaults, or both; parallel absent or 1-4) " +
		"x source populations of 2-4 repositories x 2-5 tags of seeded image graphs (single, index, nested, schema1, artifacts, referrers, digest tags; aliases) x target pre-states per tag (absent, current, current for the platform, stale, stale child, partial blobs, partial sub-images; tags without a source counterpart; unrelated repositories; occupied backup names) " +
		"x registry features (referrers API, tag / catalogue paging, HEAD digest header) x 1-3 consecutive once-runs with source tags moved, re-pointed, removed and added in between, and with referrers added to already mirrored images, optionally preceded by a check-only run; " +
		"an evaluation = one run of the regsync binary; non-trivial case = at least one successful run that wrote a selected tag and left at least one in-scope tag to be verified unchanged; distinct = distinct sets of configuration features x parallel x runs x registry features")
	run.Assume("the postcondition is judged only for runs that exit 0; a run that reports failure promises nothing and is only counted",
		"expressions are compiled by the harness as ^(?:e)$ with the standard library; on the generated sub-language this is the documented binding at both ends",
		"closure expectations follow C03: content of a manifest the target repository already held before the run is trusted unless forceRecursive is set (and fastCheck is not); with fastCheck only the plain closure is required",
		"a selected tag whose source media type is not in the entry's mediaTypes list is expected untouched",
		"tags named <alg>-<hex>... of manifests belonging to a selected image may be written when referrers or digestTags is on (fallback tags, digest tags); a selected fallback tag under a referrers entry, a digest tag excluded by the entry's own filter, and a platform that no index entry matches exactly are not judged",
		"every manifest the harness writes into the target comes with its whole closure, so a backup of a previous image can be complete; added blobs / manifests in repositories that receive selected content are counted, not judged",
		"entries of one configuration have pairwise distinct target repositories and backup names contain the tag, so the expected final state does not depend on scheduling")
	bin := filepath.Join(os.Getenv("VERIF_BIN"), "regsync")
	if _, err := os.Stat(bin); err != nil {
		run.Inconclusive("regsync binary missing: " + err.Error())
		os.Exit(run.Finish())
	}
	scratch := filepath.Join(os.Getenv("VERIF_BIN"), "cases")
	_ = os.RemoveAll(scratch)
	_ = os.MkdirAll(scratch, 0o755)
	n := ev.Scale(500, 6500)
	if s := os.Getenv("VERIF_C18_CASE"); s != "" {
		i, _ := strconv.Atoi(s)
		runCase(run, i, bin, scratch, true)
		os.Exit(run.Finish())
	}
	workers := 8
	var wg sync.WaitGroup
	next := make(chan int)
	for w := 0; w < workers; w++ {
		wg.Add(1)
		go func() {
			defer wg.Done()
			for i := range next {
				func() {
					defer func() {
						if p := recover(); p != nil {
							run.Inconclusive(fmt.Sprintf("harness panic in case %d: %v", i, p))
						}
					}()
					runCase(run, i, bin, scratch, false)
				}()
			}
		}()
	}
	for i := 0; i < n; i++ {
		next <- i
	}
	close(next)
	wg.Wait()
	// non-vacuity: every clause the check claims to cover was observed
	for _, k := range []string{"once_runs_reporting_success", "tags_selected", "tags_created", "tags_overwritten", "tags_already_current", "tags_verified_unchanged",
		"tags_excluded_not-allowed", "tags_excluded_allowed-then-denied", "tags_excluded_denied", "tags_excluded_not-allowed-but-substring-matches", "tags_where_unanchored_reading_differs",
		"repos_selected", "repos_excluded_not-allowed", "tags_selected_but_media_type_not_listed", "tags_resolved_to_platform_entry",
		"backups_verified_before_overwrite", "closures_verified_with_referrers_or_digest_tags", "check_runs_that_examined_registries", "successful_reruns_after_source_moved",
		"untouched_repositories_compared", "objects_required"} {
		if run.Get(k) == 0 {
			run.Inconclusive("clause never observed: " + k)
		}
	}
	if run.SetLen("backup_forms_verified") < 3 {
		run.Inconclusive("not every backup template form was verified")
	}
	if tot := run.Get("once_runs"); tot > 0 && run.Get("once_runs_failing_unexpectedly")*5 > tot {
		run.Inconclusive(fmt.Sprintf("%d of %d once-runs failed for reasons the generator did not intend; the workload is not representative", run.Get("once_runs_failing_unexpectedly"), tot))
	}
	for _, rep := range ev.RaceReports(filepath.Join(os.Getenv("VERIF_BIN"), "race")) {
		_ = rep
		run.Count("unattributed_race_reports", 1)
	}
	os.Exit(run.Finish())
}
