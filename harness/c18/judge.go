package main

import (
	"fmt"
	"sort"
	"strings"

	"verif/copyeng"
	"verif/ev"
	"verif/gen"
	la "verif/layoutaudit"
	"verif/modelreg"
)

type snap = map[string]map[string]string

// element is one selected (source tag -> target tag) pair of a run.
type element struct {
	Entry            int
	E                Entry
	X                Eff
	SrcRepo, SrcTag  string
	TgtRepo, TgtTag  string
	SrcDigest, SrcMT string
	Ref              tagRef
}

// runObs is everything observed around one `regsync once`.
type runObs struct {
	Run              int
	PreSrc, PostSrc  snap
	PreTgt, PostTgt  snap
	Events           []*modelreg.Event
	Exit             int
	Stderr           string
	SrcTagsAtRun     map[string]map[string]tagRef
	YAML             string
	Moved            int
	PreStateOfTarget map[string]string
}

func short(d string) string {
	if i := strings.IndexByte(d, ':'); i >= 0 && len(d) > i+13 {
		return d[:i+13]
	}
	return d
}

func contains(list []string, s string) bool {
	for _, x := range list {
		if x == s {
			return true
		}
	}
	return false
}

// describe renders the world for a witness.
func (c *Case) describe(o *runObs) map[string]any {
	src := map[string]any{}
	for repo, tags := range o.SrcTagsAtRun {
		m := map[string]string{}
		for t, r := range tags {
			d := o.PreSrc[repo]["tag/"+t]
			k := "fallback-tag"
			if r.G != nil {
				n := r.G.Nodes[r.ID]
				k = n.Kind + " " + n.MT
			}
			m[t] = short(d) + " " + k
		}
		src[repo] = m
	}
	tgt := map[string]any{}
	for repo, keys := range o.PreTgt {
		m := map[string]string{}
		for k, v := range keys {
			if strings.HasPrefix(k, "tag/") {
				m[k[4:]] = short(v)
			}
		}
		tgt[repo] = m
	}
	return map[string]any{
		"reproduce":   fmt.Sprintf("VERIF_SEED=%d VERIF_TIER=%s VERIF_C18_CASE=%d ./check C18   (case %d, once-run %d of %d)", ev.Seed(), ev.Tier(), c.I, c.I, o.Run+1, c.Runs),
		"config_yaml": o.YAML, "config": c.Cfg, "source_tags": src, "target_tags_before_run": tgt,
		"registries": map[string]any{"source_referrers_api": c.SrcAPI, "target_referrers_api": c.TgtAPI, "source_tag_page": c.Src.Cfg.TagPage,
			"catalog_page": c.Src.Cfg.CatalogPage, "source_no_head_digest": c.Src.Cfg.NoHeadDigest, "target_no_head_digest": c.Tgt.Cfg.NoHeadDigest},
		"exit": o.Exit, "stderr_tail": tail(o.Stderr, 1500),
	}
}

func tail(s string, n int) string {
	if len(s) > n {
		return "..." + s[len(s)-n:]
	}
	return s
}

// selection computes, with the harness' own filter model, the selected elements of a run
// and for every other in-scope target tag the reason why it must stay as it is.
func (c *Case) selection(run *ev.Run, o *runObs) (els []element, reasons map[string]string) {
	reasons = map[string]string{}
	for k, e := range c.Cfg.Entries {
		x := effective(e, c.Cfg.Defaults)
		for _, sc := range c.scope(e) {
			srcRepo, tgtRepo := sc[0], sc[1]
			if e.Type == "registry" {
				ok, why, sens := passes(e.ReposAllow, e.ReposDeny, srcRepo)
				if sens {
					run.Count("repo_names_where_unanchored_reading_differs", 1)
				}
				if !ok {
					run.Count("repos_excluded_"+why, 1)
					for key := range o.PreTgt[tgtRepo] {
						if strings.HasPrefix(key, "tag/") {
							reasons[tgtRepo+" "+key[4:]] = "repo-" + why
						}
					}
					reasons[tgtRepo+" *"] = "repo-" + why
					continue
				}
				run.Count("repos_selected", 1)
			}
			var tags []string
			for key := range o.PreSrc[srcRepo] {
				if strings.HasPrefix(key, "tag/") {
					tags = append(tags, key[4:])
				}
			}
			sort.Strings(tags)
			for _, t := range tags {
				tt := t
				if e.Type == "image" {
					if t != e.SrcTag {
						reasons[tgtRepo+" "+t] = "image-entry-other-tag"
						continue
					}
					tt = e.TgtTag
				} else {
					ok, why, sens := passes(e.TagsAllow, e.TagsDeny, t)
					if sens {
						run.Count("tags_where_unanchored_reading_differs", 1)
					}
					if !ok {
						run.Count("tags_excluded_"+why, 1)
						reasons[tgtRepo+" "+t] = why
						continue
					}
				}
				d := o.PreSrc[srcRepo]["tag/"+t]
				mt := ""
				if mv, ok := o.PreSrc[srcRepo]["manifest/"+d]; ok {
					if i := strings.IndexByte(mv, ' '); i >= 0 {
						mt = mv[i+1:]
					}
				}
				els = append(els, element{Entry: k, E: e, X: x, SrcRepo: srcRepo, SrcTag: t, TgtRepo: tgtRepo, TgtTag: tt, SrcDigest: d, SrcMT: mt, Ref: o.SrcTagsAtRun[srcRepo][t]})
			}
		}
	}
	return els, reasons
}

func preHas(pre snap, repo string) func(n *gen.Node) bool {
	return func(n *gen.Node) bool {
		_, ok := pre[repo]["manifest/"+n.Digest]
		return ok
	}
}

func filterFn(kind string) func(n *gen.Node) bool {
	switch kind {
	case "type":
		return func(n *gen.Node) bool { return n.ArtifactType == sigType }
	case "annot":
		return func(n *gen.Node) bool { return n.Annotations[annotKey] == annotVal }
	}
	return nil
}

func optClass(x Eff) string {
	var s []string
	if x.Referrers {
		s = append(s, "referrers"+map[string]string{"": "", "type": "-by-type", "annot": "-by-annotation"}[x.RefFilter])
	}
	if x.DigestTags {
		s = append(s, "digest-tags")
	}
	if x.FastCheck {
		s = append(s, "fast")
	}
	if x.ForceRecursive {
		s = append(s, "recursive")
	}
	if len(s) == 0 {
		return "plain"
	}
	return strings.Join(s, "+")
}

// judgeOnce applies the postcondition to a successful once-run. It returns the number of
// selected tags that were written and the number of in-scope tags that had to stay.
func (c *Case) judgeOnce(run *ev.Run, o *runObs) (copied, kept int) {
	wit := func(extra map[string]any) map[string]any {
		w := c.describe(o)
		for k, v := range extra {
			w[k] = v
		}
		return w
	}
	// the source is never changed
	if d := diffSnap(o.PreSrc, o.PostSrc); len(d) > 0 {
		run.Violation("source-changed", fmt.Sprintf("the source registry differs after the run: %s", strings.Join(d, "; ")), wit(map[string]any{"differences": d}))
	}
	els, reasons := c.selection(run, o)
	allowedTag := map[string]string{}   // "repo tag" -> why a change is legitimate
	allowedPfx := map[string][]string{} // repo -> tag prefixes that referrers / digest-tags maintenance may write
	touched := map[string]bool{}        // repositories that legitimately receive content
	tgtEP := func(repo string) copyeng.Endpoint { return copyeng.Endpoint{Host: c.Tgt, Repo: repo} }
	// pass 1: tag names that the referrers / digest-tags maintenance of a selected image may write
	for _, el := range els {
		if !(el.X.Referrers || el.X.DigestTags) || !contains(el.X.MediaTypes, el.SrcMT) {
			continue
		}
		graphs := []*gen.Graph{el.Ref.G}
		if el.Ref.G == nil {
			// a selected fallback tag lists referrers of some image of the repository; the harness does not
			// track which, so the maintenance tags of every image of that source repository are tolerated
			graphs = c.Graphs[el.SrcRepo]
		}
		for _, g := range graphs {
			for _, n := range g.Nodes {
				if n.IsManifest() {
					alg, enc, _ := la.SplitDigest(n.Digest)
					allowedPfx[el.TgtRepo] = append(allowedPfx[el.TgtRepo], alg+"-"+enc)
				}
			}
		}
	}
	hasPfx := func(repo, tag string) bool {
		for _, p := range allowedPfx[repo] {
			if strings.HasPrefix(tag, p) {
				return true
			}
		}
		return false
	}
	// allowBackup registers the backup name of an element as a legitimate write
	allowBackup := func(el element) {
		if el.X.Backup == "" {
			return
		}
		bRepo, bTag := backupName(el.X.Backup, c.Tgt.Addr(), el.TgtRepo, el.TgtTag)
		allowedTag[bRepo+" "+bTag] = "backup name"
		touched[bRepo] = true
		if bRepo != el.TgtRepo {
			// saving an image whose manifests carry a subject maintains fallback tags in the backup repository
			allowedPfx[bRepo] = append(allowedPfx[bRepo], "sha256-")
		}
	}
	for _, el := range els {
		key := el.TgtRepo + " " + el.TgtTag
		preD, preOK := o.PreTgt[el.TgtRepo]["tag/"+el.TgtTag]
		postD, postOK := o.PostTgt[el.TgtRepo]["tag/"+el.TgtTag]
		run.Count("tags_selected", 1)
		if !contains(el.X.MediaTypes, el.SrcMT) {
			run.Count("tags_selected_but_media_type_not_listed", 1)
			reasons[key] = "media-type-not-listed"
			continue
		}
		wantD := el.SrcDigest
		g, top := el.Ref.G, el.Ref.ID
		platformResolved := false
		if el.E.Platform != "" && isListMT(el.SrcMT) {
			if g == nil {
				allowedTag[key] = "unjudged: platform entry on a fallback tag"
				run.Count("elements_not_judged_platform_on_fallback_tag", 1)
				allowBackup(el)
				continue
			}
			pid, ok := platformNode(g, top, el.E.Platform)
			if !ok && !postOK && archAbsent(g, top, el.E.Platform) {
				// no entry of the index has the architecture at all: under no selection rule is there a
				// "digest of the configured platform", so the tag cannot have been mirrored - and it is not
				// even there. A run that reports success has promised otherwise.
				run.Violation("selected-missing/"+el.E.Type+"/platform-absent-from-index", fmt.Sprintf("run %d exited 0 but selected tag %s:%s (source %s:%s, an index without any %s entry) does not exist at the target: the failure to resolve the platform was not reported", o.Run+1, el.TgtRepo, el.TgtTag, el.SrcRepo, el.SrcTag, el.E.Platform),
					wit(map[string]any{"element": elWit(el)}))
				allowedTag[key] = "selected"
				allowBackup(el)
				continue
			}
			if !ok {
				// no (unique) exact match: a successful run says nothing we can judge
				allowedTag[key] = "unjudged: platform not resolvable by exact match"
				run.Count("elements_not_judged_platform_unresolvable", 1)
				allowBackup(el)
				continue
			}
			top, wantD, platformResolved = pid, g.Nodes[pid].Digest, true
			run.Count("tags_resolved_to_platform_entry", 1)
		}
		allowedTag[key] = "selected"
		touched[el.TgtRepo] = true
		matched := preOK && preD == wantD
		cls := el.E.Type
		if platformResolved {
			cls += "/platform"
		}
		if g == nil && el.X.Referrers {
			// a fallback tag that is itself selected is also maintained by the referrers copy of its
			// subject: which of the two writes wins is not determined by the statement
			run.Count("elements_not_judged_fallback_tag_under_referrers", 1)
			allowBackup(el)
			continue
		}
		switch {
		case !postOK:
			run.Violation("selected-missing/"+cls+"/"+preStateClass(preOK, matched), fmt.Sprintf("run %d exited 0 but selected tag %s:%s (source %s:%s -> %s) does not exist at the target", o.Run+1, el.TgtRepo, el.TgtTag, el.SrcRepo, el.SrcTag, short(wantD)),
				wit(map[string]any{"element": elWit(el), "want_digest": wantD}))
			continue
		case postD != wantD:
			run.Violation("selected-digest/"+cls+"/"+preStateClass(preOK, matched), fmt.Sprintf("run %d exited 0 but selected tag %s:%s is %s at the target, expected %s (source %s:%s)", o.Run+1, el.TgtRepo, el.TgtTag, short(postD), short(wantD), el.SrcRepo, el.SrcTag),
				wit(map[string]any{"element": elWit(el), "want_digest": wantD, "target_digest": postD, "target_digest_before": preD}))
			continue
		}
		if matched {
			run.Count("tags_already_current", 1)
		} else {
			copied++
			if preOK {
				run.Count("tags_overwritten", 1)
			} else {
				run.Count("tags_created", 1)
			}
		}
		// closure, as in C03
		if g == nil {
			srcStore := modelreg.Store{H: c.Src, Name: el.SrcRepo}
			wo := la.WalkOpts{SkipForeign: true}
			if !(el.X.ForceRecursive && !el.X.FastCheck) {
				wo.Stop = func(d string) bool { _, ok := o.PreTgt[el.TgtRepo]["manifest/"+d]; return ok }
			}
			nodes, _ := la.Closure(srcStore, wantD, el.SrcMT, wo)
			if diff := la.Compare(srcStore, modelreg.Store{H: c.Tgt, Name: el.TgtRepo}, nodes); len(diff) > 0 {
				run.Violation("selected-incomplete/base/fallback-tag", fmt.Sprintf("run %d exited 0 but %s:%s is incomplete at the target: %s", o.Run+1, el.TgtRepo, el.TgtTag, strings.Join(diff, "; ")),
					wit(map[string]any{"element": elWit(el), "differences": diff}))
			}
			run.Count("objects_required", len(nodes))
			if preOK && !matched {
				allowBackup(el)
				run.Count("backups_not_judged_fallback_tag", 1)
			}
			continue
		}
		base := copyeng.Want{ForceRecursive: el.X.ForceRecursive && !el.X.FastCheck}
		full := base
		if !el.X.FastCheck {
			full.Referrers, full.DigestTags, full.ReferrerFilter = el.X.Referrers, el.X.DigestTags, filterFn(el.X.RefFilter)
		}
		if full.Referrers && !contains(el.X.MediaTypes, la.MTOCIManifest) {
			// referrers are OCI image manifests; whether a mediaTypes list without that type also keeps them
			// out is not said anywhere: not judged
			full.Referrers = false
			run.Count("elements_with_referrers_of_unlisted_media_type", 1)
		}
		pre := preHas(o.PreTgt, el.TgtRepo)
		ex := copyeng.Expected(g, top, pre, full)
		if full.DigestTags {
			// a digest tag that the entry's own filter or mediaTypes list excludes is both "excluded" and
			// "requested": not judged
			amb := false
			for t, d := range ex.Tags {
				if ok, _, _ := passes(el.E.TagsAllow, el.E.TagsDeny, t); !ok && el.E.Type != "image" {
					amb = true
				}
				mv := o.PreSrc[el.SrcRepo]["manifest/"+d]
				if i := strings.IndexByte(mv, ' '); i < 0 || !contains(el.X.MediaTypes, mv[i+1:]) {
					amb = true
				}
			}
			if amb {
				run.Count("elements_with_digest_tags_excluded_by_filter", 1)
				full.DigestTags = false
				ex = copyeng.Expected(g, top, pre, full)
			}
		}
		for t := range ex.Tags {
			allowedTag[el.TgtRepo+" "+t] = "digest tag of a selected image"
		}
		run.Count("objects_required", len(ex.Nodes))
		if diff := copyeng.Verify(tgtEP(el.TgtRepo), ex); len(diff) > 0 {
			part := "base"
			if bd := copyeng.Verify(tgtEP(el.TgtRepo), copyeng.Expected(g, top, pre, base)); len(bd) == 0 {
				part = "extras"
				if matched {
					part = "extras-not-refreshed"
				}
			}
			how := "whole-image"
			if platformResolved {
				how = "platform-entry"
			}
			fp := fmt.Sprintf("selected-incomplete/%s/%s/%s", part, how, preStateClass(preOK, matched))
			if part == "base" {
				fp += "/" + optClass(el.X)
			}
			run.Violation(fp,
				fmt.Sprintf("run %d exited 0 but %s:%s (%s) is not complete at the target under options [%s]: %s", o.Run+1, el.TgtRepo, el.TgtTag, short(wantD), optClass(el.X), strings.Join(diff, "; ")),
				wit(map[string]any{"element": elWit(el), "differences": diff, "graph": graphWit(g, pre)}))
		} else if full.Referrers || full.DigestTags {
			run.Count("closures_verified_with_referrers_or_digest_tags", 1)
		}
		// backup
		if el.X.Backup != "" {
			bRepo, bTag := backupName(el.X.Backup, c.Tgt.Addr(), el.TgtRepo, el.TgtTag)
			form := backupForm(el.X.Backup)
			if preOK && !matched && hasPfx(el.TgtRepo, el.TgtTag) {
				// the tag is also written by the digest-tags / referrers copy of another selected image, which
				// takes no backup; which of the two routes overwrites it first is a matter of scheduling
				allowBackup(el)
				run.Count("backups_not_judged_tag_also_written_as_digest_tag", 1)
			} else if preOK && !matched {
				allowBackup(el)
				run.Count("backups_required", 1)
				got, ok := o.PostTgt[bRepo]["tag/"+bTag]
				bw := map[string]any{"element": elWit(el), "backup": bRepo + ":" + bTag, "previous_digest": preD, "backup_digest_after": got}
				switch {
				case !ok:
					run.Violation("backup-missing/"+form+"/"+cls, fmt.Sprintf("run %d overwrote %s:%s (was %s) but the configured backup %s:%s does not exist", o.Run+1, el.TgtRepo, el.TgtTag, short(preD), bRepo, bTag), wit(bw))
				case got != preD:
					run.Violation("backup-wrong-image/"+form+"/"+cls, fmt.Sprintf("run %d overwrote %s:%s (was %s) but the backup %s:%s names %s", o.Run+1, el.TgtRepo, el.TgtTag, short(preD), bRepo, bTag, short(got)), wit(bw))
				case o.PreTgt[bRepo]["tag/"+bTag] == preD:
					// the name already held the previous image (nothing to write, nothing to order)
					run.Count("backups_already_in_place", 1)
				default:
					orig := modelreg.Store{H: c.Tgt, Name: el.TgtRepo}
					nodes, problems := la.Closure(orig, preD, "", la.WalkOpts{SkipForeign: true})
					if len(problems) > 0 {
						run.Count("backups_of_images_incomplete_before_the_run", 1)
					} else if diff := la.Compare(orig, modelreg.Store{H: c.Tgt, Name: bRepo}, nodes); len(diff) > 0 {
						bw["differences"] = diff
						run.Violation("backup-incomplete/"+form+"/"+cls, fmt.Sprintf("run %d: backup %s:%s of %s is incomplete: %s", o.Run+1, bRepo, bTag, short(preD), strings.Join(diff, "; ")), wit(bw))
					}
					// order: the backup tag is written before the tag is overwritten
					var bSeq, oSeq int64 = -1, -1
					for _, e := range o.Events {
						if e.Host != "tgt" || e.Kind != "manifest" || e.Method != "PUT" || !e.Applied {
							continue
						}
						if e.Repo == bRepo && e.Ref == bTag && e.Note == preD && bSeq < 0 {
							bSeq = e.Seq
						}
						if e.Repo == el.TgtRepo && e.Ref == el.TgtTag && e.Note != preD && oSeq < 0 {
							oSeq = e.Seq
						}
					}
					switch {
					case oSeq < 0:
						run.Count("backup_order_overwrite_put_not_seen", 1)
					case bSeq < 0 || bSeq > oSeq:
						bw["backup_put_seq"], bw["overwrite_put_seq"] = bSeq, oSeq
						run.Violation("backup-after-overwrite/"+form+"/"+cls, fmt.Sprintf("run %d: %s:%s was overwritten (request %d) before its previous image was saved as %s:%s (request %d)", o.Run+1, el.TgtRepo, el.TgtTag, oSeq, bRepo, bTag, bSeq), wit(bw))
					default:
						run.Count("backups_verified_before_overwrite", 1)
						run.SetAdd("backup_forms_verified", form)
					}
				}
			} else {
				run.Count("backup_configured_but_not_due", 1)
			}
		}
	}
	// everything else is exactly as it was
	repos := map[string]bool{}
	for r := range o.PreTgt {
		repos[r] = true
	}
	for r := range o.PostTgt {
		repos[r] = true
	}
	inScope := map[string]bool{}
	for _, e := range c.Cfg.Entries {
		for _, sc := range c.scope(e) {
			inScope[sc[1]] = true
		}
	}
	srcHasTag := func(tgtRepo, tag string) bool {
		for _, e := range c.Cfg.Entries {
			for _, sc := range c.scope(e) {
				if sc[1] == tgtRepo {
					if _, ok := o.PreSrc[sc[0]]["tag/"+tag]; ok {
						return true
					}
				}
			}
		}
		return false
	}
	for repo := range repos {
		pre, post := o.PreTgt[repo], o.PostTgt[repo]
		if !touched[repo] {
			run.Count("untouched_repositories_compared", 1)
		}
		keys := map[string]bool{}
		for k := range pre {
			keys[k] = true
		}
		for k := range post {
			keys[k] = true
		}
		for k := range keys {
			a, inA := pre[k]
			b, inB := post[k]
			if inA == inB && a == b {
				if strings.HasPrefix(k, "tag/") && inScope[repo] {
					if _, sel := allowedTag[repo+" "+k[4:]]; !sel {
						kept++
						run.Count("tags_verified_unchanged", 1)
					}
				}
				continue
			}
			if !strings.HasPrefix(k, "tag/") {
				switch {
				case inA && !inB:
					run.Violation("object-removed/"+k[:strings.IndexByte(k, '/')], fmt.Sprintf("run %d removed %s from target repository %s", o.Run+1, k, repo), wit(map[string]any{"repo": repo, "key": k}))
				case !inA && touched[repo]:
					run.Count("objects_added_to_target", 1)
				case !inA:
					why := reasons[repo+" *"]
					if why == "" {
						why = "other-repository"
						if inScope[repo] {
							why = "nothing-selected-in-repository"
						}
					}
					run.Violation("untouched-repo-received-content/"+why, fmt.Sprintf("run %d added %s to target repository %s, to which no selected tag maps", o.Run+1, k, repo), wit(map[string]any{"repo": repo, "key": k}))
				default:
					run.Violation("object-changed", fmt.Sprintf("run %d changed %s in %s", o.Run+1, k, repo), wit(map[string]any{"repo": repo, "key": k}))
				}
				continue
			}
			tag := k[4:]
			if _, ok := allowedTag[repo+" "+tag]; ok {
				continue
			}
			if hasPfx(repo, tag) {
				run.Count("referrer_or_digest_tags_written", 1)
				continue
			}
			why := reasons[repo+" "+tag]
			if why == "" {
				why = reasons[repo+" *"]
			}
			if why == "" {
				switch {
				case !inScope[repo]:
					why = "other-repository"
				case !srcHasTag(repo, tag):
					why = "no-source-counterpart"
				default:
					why = "not-selected"
				}
			}
			run.Violation("unselected-tag-changed/"+why, fmt.Sprintf("run %d exited 0 and changed target tag %s:%s (%s -> %s) although it is not selected (%s)", o.Run+1, repo, tag, short(a), short(b), why),
				wit(map[string]any{"repo": repo, "tag": tag, "before": a, "after": b, "reason_it_must_stay": why}))
		}
	}
	return copied, kept
}

func preStateClass(exists, matched bool) string {
	switch {
	case matched:
		return "target-current"
	case exists:
		return "target-stale"
	}
	return "target-absent"
}

func elWit(el element) map[string]any {
	return map[string]any{"entry": el.Entry, "type": el.E.Type, "source": el.SrcRepo + ":" + el.SrcTag, "target": el.TgtRepo + ":" + el.TgtTag, "source_digest": el.SrcDigest,
		"source_media_type": el.SrcMT, "platform": el.E.Platform, "options": optClass(el.X), "backup": el.X.Backup}
}

func graphWit(g *gen.Graph, pre func(n *gen.Node) bool) []string {
	var out []string
	for _, n := range g.Nodes {
		s := fmt.Sprintf("%d %s %s %s refs=%v", n.ID, n.Kind, short(n.Digest), n.MT, n.Refs)
		if n.Subject >= 0 {
			s += fmt.Sprintf(" subject=%d", n.Subject)
		}
		if n.Platform != nil {
			s += " " + n.Platform.OS + "/" + n.Platform.Architecture + "/" + n.Platform.Variant
		}
		if n.IsManifest() && pre(n) {
			s += " [at target before the run]"
		}
		out = append(out, s)
	}
	return out
}

func diffSnap(a, b snap) []string {
	var d []string
	repos := map[string]bool{}
	for r := range a {
		repos[r] = true
	}
	for r := range b {
		repos[r] = true
	}
	for r := range repos {
		keys := map[string]bool{}
		for k := range a[r] {
			keys[k] = true
		}
		for k := range b[r] {
			keys[k] = true
		}
		for k := range keys {
			x, inA := a[r][k]
			y, inB := b[r][k]
			switch {
			case inA && !inB:
				d = append(d, fmt.Sprintf("%s %s removed", r, k))
			case !inA && inB:
				d = append(d, fmt.Sprintf("%s %s added", r, k))
			case x != y:
				d = append(d, fmt.Sprintf("%s %s changed %s -> %s", r, k, short(x), short(y)))
			}
		}
	}
	sort.Strings(d)
	return d
}

// judgeCheck: a check-only run writes nothing, whatever it reports.
func (c *Case) judgeCheck(run *ev.Run, o *runObs) {
	run.Count("check_runs", 1)
	reads := 0
	for _, e := range o.Events {
		if !e.Mutating {
			reads++
			continue
		}
		w := c.describe(o)
		w["request"] = map[string]any{"host": e.Host, "method": e.Method, "path": e.Path, "query": e.Query, "status": e.Status, "applied": e.Applied}
		run.Violation(fmt.Sprintf("check-run-writes/%s/%s-%s", e.Host, e.Method, e.Kind), fmt.Sprintf("`regsync check` sent %s %s to the %s registry (status %d)", e.Method, e.Path, e.Host, e.Status), w)
	}
	run.Count("check_run_read_requests", reads)
	if d := append(diffSnap(o.PreSrc, o.PostSrc), diffSnap(o.PreTgt, o.PostTgt)...); len(d) > 0 {
		w := c.describe(o)
		w["differences"] = d
		run.Violation("check-run-changes-state", "`regsync check` changed registry state: "+strings.Join(d, "; "), w)
	}
	if reads > 0 {
		run.Count("check_runs_that_examined_registries", 1)
	}
}
