package main

import (
	"fmt"
	"math/rand"
	"regexp"
	"sort"
	"strings"

	"verif/copyeng"
	"verif/gen"
	la "verif/layoutaudit"
	"verif/modelreg"
)

// ---------------------------------------------------------------------------------------
// configuration model (what is written into the YAML file, and what the oracle reads)

// Settings are the per-entry options that may also be given under defaults.
// A nil pointer / nil slice / empty string means "not written at this level".
type Settings struct {
	Backup         string   `json:"backup,omitempty"`
	MediaTypes     []string `json:"mediaTypes,omitempty"`
	Referrers      *bool    `json:"referrers,omitempty"`
	DigestTags     *bool    `json:"digestTags,omitempty"`
	FastCheck      *bool    `json:"fastCheck,omitempty"`
	ForceRecursive *bool    `json:"forceRecursive,omitempty"`
	RefFilter      string   `json:"referrerFilter,omitempty"` // "", "type", "annot"
}

// Entry is one element of the sync list.
type Entry struct {
	Type       string   `json:"type"`
	SrcRepo    string   `json:"srcRepo,omitempty"` // image, repository
	SrcTag     string   `json:"srcTag,omitempty"`  // image
	TgtRepo    string   `json:"tgtRepo,omitempty"` // image, repository; registry: prefix ("" = none)
	TgtTag     string   `json:"tgtTag,omitempty"`  // image
	TagsAllow  []string `json:"tagsAllow,omitempty"`
	TagsDeny   []string `json:"tagsDeny,omitempty"`
	ReposAllow []string `json:"reposAllow,omitempty"`
	ReposDeny  []string `json:"reposDeny,omitempty"`
	Platform   string   `json:"platform,omitempty"`
	Set        Settings `json:"settings"`
}

// Config is the whole file.
type Config struct {
	Parallel int      `json:"parallel"` // 0 = key absent
	Defaults Settings `json:"defaults"`
	Entries  []Entry  `json:"entries"`
}

// Eff is the effective option set of an entry after defaults were applied (the
// documented rule: an entry-level value wins, otherwise the value under defaults).
type Eff struct {
	Backup         string
	MediaTypes     []string
	Referrers      bool
	DigestTags     bool
	FastCheck      bool
	ForceRecursive bool
	RefFilter      string
}

var defaultMediaTypes = []string{la.MTD2Manifest, la.MTD2List, la.MTOCIManifest, la.MTOCIIndex}

func effective(e Entry, d Settings) Eff {
	pick := func(a, b *bool) bool {
		if a != nil {
			return *a
		}
		return b != nil && *b
	}
	x := Eff{Backup: e.Set.Backup, MediaTypes: e.Set.MediaTypes, RefFilter: e.Set.RefFilter}
	if x.Backup == "" {
		x.Backup = d.Backup
	}
	if len(x.MediaTypes) == 0 {
		x.MediaTypes = d.MediaTypes
	}
	if len(x.MediaTypes) == 0 {
		x.MediaTypes = defaultMediaTypes
	}
	if x.RefFilter == "" {
		x.RefFilter = d.RefFilter
	}
	x.Referrers = pick(e.Set.Referrers, d.Referrers)
	x.DigestTags = pick(e.Set.DigestTags, d.DigestTags)
	x.FastCheck = pick(e.Set.FastCheck, d.FastCheck)
	x.ForceRecursive = pick(e.Set.ForceRecursive, d.ForceRecursive)
	return x
}

func yq(s string) string { return "'" + strings.ReplaceAll(s, "'", "''") + "'" }

func writeSettings(b *strings.Builder, ind string, s Settings) {
	if s.Backup != "" {
		fmt.Fprintf(b, "%sbackup: %s\n", ind, yq(s.Backup))
	}
	if len(s.MediaTypes) > 0 {
		fmt.Fprintf(b, "%smediaTypes:\n", ind)
		for _, m := range s.MediaTypes {
			fmt.Fprintf(b, "%s  - %s\n", ind, yq(m))
		}
	}
	wb := func(k string, v *bool) {
		if v != nil {
			fmt.Fprintf(b, "%s%s: %t\n", ind, k, *v)
		}
	}
	wb("referrers", s.Referrers)
	wb("digestTags", s.DigestTags)
	wb("fastCheck", s.FastCheck)
	wb("forceRecursive", s.ForceRecursive)
	switch s.RefFilter {
	case "type":
		fmt.Fprintf(b, "%sreferrerFilters:\n%s  - artifactType: %s\n", ind, ind, yq(sigType))
	case "annot":
		fmt.Fprintf(b, "%sreferrerFilters:\n%s  - annotations:\n%s      %s: %s\n", ind, ind, ind, annotKey, yq(annotVal))
	}
}

const (
	sigType  = "application/vnd.example.sig"
	annotKey = "org.example.kind"
	annotVal = "a"
)

func writeAD(b *strings.Builder, ind, key string, allow, deny []string) {
	if len(allow) == 0 && len(deny) == 0 {
		return
	}
	fmt.Fprintf(b, "%s%s:\n", ind, key)
	if len(allow) > 0 {
		fmt.Fprintf(b, "%s  allow:\n", ind)
		for _, a := range allow {
			fmt.Fprintf(b, "%s    - %s\n", ind, yq(a))
		}
	}
	if len(deny) > 0 {
		fmt.Fprintf(b, "%s  deny:\n", ind)
		for _, a := range deny {
			fmt.Fprintf(b, "%s    - %s\n", ind, yq(a))
		}
	}
}

// YAML renders the configuration for the given registry addresses.
func (c Config) YAML(srcAddr, tgtAddr string) string {
	var b strings.Builder
	b.WriteString("version: 1\ncreds:\n")
	for _, a := range []string{srcAddr, tgtAddr} {
		fmt.Fprintf(&b, "  - registry: %s\n    tls: disabled\n", a)
	}
	b.WriteString("defaults:\n  skipDockerConfig: true\n")
	if c.Parallel > 0 {
		fmt.Fprintf(&b, "  parallel: %d\n", c.Parallel)
	}
	writeSettings(&b, "  ", c.Defaults)
	b.WriteString("sync:\n")
	for _, e := range c.Entries {
		var s, t string
		switch e.Type {
		case "image":
			s = srcAddr + "/" + e.SrcRepo + ":" + e.SrcTag
			t = tgtAddr + "/" + e.TgtRepo + ":" + e.TgtTag
		case "repository":
			s = srcAddr + "/" + e.SrcRepo
			t = tgtAddr + "/" + e.TgtRepo
		case "registry":
			s = srcAddr
			t = tgtAddr
			if e.TgtRepo != "" {
				t += "/" + e.TgtRepo
			}
		}
		fmt.Fprintf(&b, "  - source: %s\n    target: %s\n    type: %s\n", yq(s), yq(t), e.Type)
		writeAD(&b, "    ", "repos", e.ReposAllow, e.ReposDeny)
		writeAD(&b, "    ", "tags", e.TagsAllow, e.TagsDeny)
		if e.Platform != "" {
			fmt.Fprintf(&b, "    platform: %s\n", e.Platform)
		}
		writeSettings(&b, "    ", e.Set)
	}
	return b.String()
}

// ---------------------------------------------------------------------------------------
// the harness' own filter model: a string passes iff it matches some allow expression (or
// the allow list is empty) and no deny expression; every expression is bound at both ends.

func anchored(p string) *regexp.Regexp { return regexp.MustCompile("^(?:" + p + ")$") }

// passes returns the decision and a reason class for an exclusion. sens reports that an
// unanchored reading of some expression in use would have decided differently.
func passes(allow, deny []string, s string) (sel bool, why string, sens bool) {
	sub := func(list []string) bool {
		for _, p := range list {
			if regexp.MustCompile(p).MatchString(s) {
				return true
			}
		}
		return false
	}
	full := func(list []string) bool {
		for _, p := range list {
			if anchored(p).MatchString(s) {
				return true
			}
		}
		return false
	}
	a := len(allow) == 0 || full(allow)
	aSub := len(allow) == 0 || sub(allow)
	d := full(deny)
	dSub := sub(deny)
	sens = (a && !d) != (aSub && !dSub)
	switch {
	case !a && aSub:
		return false, "not-allowed-but-substring-matches", sens
	case !a:
		return false, "not-allowed", sens
	case d && len(allow) > 0:
		return false, "allowed-then-denied", sens
	case d:
		return false, "denied", sens
	}
	return true, "", sens
}

// backupName expands the generated backup templates (only the three documented variables
// are ever generated) and resolves the result to a repository and tag at the target host.
func backupName(tpl, reg, repo, tag string) (bRepo, bTag string) {
	r := strings.NewReplacer("{{.Ref.Tag}}", tag, "{{ .Ref.Tag }}", tag, "{{.Ref.Registry}}", reg, "{{.Ref.Repository}}", repo)
	s := strings.TrimSpace(r.Replace(tpl))
	if !strings.ContainsAny(s, ":/") {
		return repo, s
	}
	s = strings.TrimPrefix(s, reg+"/")
	i := strings.LastIndexByte(s, ':')
	return s[:i], s[i+1:]
}

func backupForm(tpl string) string {
	switch {
	case tpl == "":
		return "none"
	case !strings.Contains(tpl, ".Ref.Registry"):
		return "tag"
	case strings.Contains(tpl, "}}:old-"):
		return "ref-same-repo"
	}
	return "ref-other-repo"
}

// ---------------------------------------------------------------------------------------
// world

// tagRef ties a source tag to the generated graph node it names. G == nil: a referrers
// fallback tag written by Populate (no graph node of its own).
type tagRef struct {
	G  *gen.Graph
	ID int
}

// Case is one generated scenario.
type Case struct {
	I        int
	Cfg      Config
	Platform string // platform used by (some) entries of the case
	Twin     bool   // one image entry has a twin that mirrors the same source tag for another platform
	Runs     int
	CheckAt  []bool // run a check-only pass before once-run r
	SrcAPI   bool
	TgtAPI   bool

	W        *modelreg.World
	Src, Tgt *modelreg.Host
	SrcTags  map[string]map[string]tagRef // repo -> tag -> node
	Graphs   map[string][]*gen.Graph      // every graph ever written into a source repository
	rng      *rand.Rand
	wantRef  bool // some entry copies referrers
	wantDT   bool // some entry copies digest tags
	notes    []string
}

var tagPool = []string{"v1", "v2", "v10", "v1.2", "v1.2.3", "v2-alpine", "v2-rc1", "latest", "edge", "stable", "3", "3.1", "3.10", "rc-1", "nightly", "1.0", "1.0-alpine"}

var tagPatterns = []string{"v[0-9]+", "v.*", ".*alpine", ".*-.*", "[0-9]+", `[0-9]+\.[0-9]+`, `3\..*`, `v[0-9]+\.[0-9]+`, ".*", "[a-z]+", "v1.*", ".*1", "v2-[a-z0-9]+",
	`1\.0.*`, "v1.2", "sha256-.*", "[a-z]+-[0-9]", "v[12]", ".+e", "[a-z0-9]+", `.*\.[0-9]+`, "3.*"}

var repoPool = []string{"proj/app", "proj/app2", "proj/web", "team-x/svc", "team-x/svc-backup", "library/base", "app", "proj/app/sub"}

var repoPatterns = []string{"proj/.*", "proj/app", ".*app", "team-x/.*", ".*backup", ".*/base", "[a-z]+/app[0-9]*", "proj/app.*", "app", ".*", "[a-z-]+/[a-z-]+", "proj/[a-z]+", ".*/svc", "[a-z]+"}

var backupTpls = []string{"bak-{{.Ref.Tag}}", "{{ .Ref.Tag }}-prev", "{{.Ref.Registry}}/backups/{{.Ref.Repository}}:{{.Ref.Tag}}",
	"{{.Ref.Registry}}/{{.Ref.Repository}}-bak:{{.Ref.Tag}}", "{{.Ref.Registry}}/{{.Ref.Repository}}:old-{{.Ref.Tag}}", " bak-{{.Ref.Tag}} "}

var mtLists = [][]string{
	{la.MTOCIManifest, la.MTOCIIndex},
	{la.MTD2Manifest, la.MTD2List},
	{la.MTD2Manifest, la.MTD2List, la.MTOCIManifest, la.MTOCIIndex, la.MTD1},
	{la.MTOCIManifest, la.MTD2Manifest},
}

var casePlatforms = []string{"linux/amd64", "linux/arm64", "linux/arm/v7", "linux/ppc64le"}

func sample(rng *rand.Rand, pool []string, n int) []string {
	p := rng.Perm(len(pool))
	if n > len(pool) {
		n = len(pool)
	}
	out := make([]string, 0, n)
	for _, i := range p[:n] {
		out = append(out, pool[i])
	}
	sort.Strings(out)
	return out
}

func bp(b bool) *bool { return &b }

func quoteLit(s string) string { return strings.ReplaceAll(s, ".", `\.`) }

// pickPattern draws an expression that matches at least one of names and, if possible, not all.
func pickPattern(rng *rand.Rand, pool []string, names []string) string {
	best := ""
	for try := 0; try < 8; try++ {
		var p string
		if rng.Intn(3) == 0 && len(names) > 0 {
			p = quoteLit(names[rng.Intn(len(names))])
		} else {
			p = pool[rng.Intn(len(pool))]
		}
		m := 0
		re := anchored(p)
		for _, n := range names {
			if re.MatchString(n) {
				m++
			}
		}
		if m > 0 && m < len(names) {
			return p
		}
		if m > 0 || best == "" {
			best = p
		}
	}
	return best
}

func genAD(rng *rand.Rand, pool []string, names []string) (allow, deny []string) {
	if rng.Intn(10) >= 3 {
		for i := 0; i < 1+rng.Intn(2); i++ {
			allow = append(allow, pickPattern(rng, pool, names))
		}
	}
	var passing []string
	for _, n := range names {
		if ok, _, _ := passes(allow, nil, n); ok {
			passing = append(passing, n)
		}
	}
	if rng.Intn(10) >= 4 && len(passing) > 0 {
		for i := 0; i < 1+rng.Intn(2); i++ {
			deny = append(deny, pickPattern(rng, pool, passing))
		}
	}
	return
}

func genSettings(rng *rand.Rand, p float64, platform bool) Settings {
	var s Settings
	hit := func(q float64) bool { return rng.Float64() < q }
	if hit(p * 1.3) {
		s.Backup = backupTpls[rng.Intn(len(backupTpls))]
	}
	if hit(p * 0.8) {
		s.MediaTypes = mtLists[rng.Intn(len(mtLists))]
	}
	if hit(p) {
		s.Referrers = bp(rng.Intn(4) != 0)
	}
	if hit(p * 0.8) {
		s.DigestTags = bp(rng.Intn(4) != 0)
	}
	if hit(p * 0.4) {
		s.FastCheck = bp(rng.Intn(3) != 0)
	}
	if hit(p * 0.5) {
		s.ForceRecursive = bp(rng.Intn(3) != 0)
	}
	if s.Referrers != nil && *s.Referrers && hit(0.4) {
		s.RefFilter = []string{"type", "annot"}[rng.Intn(2)]
	}
	return s
}

// newGraph draws an image graph that is compatible with the case (every index carries the
// case platform so that a platform entry can be resolved).
func (c *Case) newGraph(tag string) *gen.Graph {
	rng := c.rng
	s := gen.RandomShape(rng)
	s.MaxBlob = 40 + rng.Intn(400)
	s.Foreign = rng.Intn(14) == 0
	if c.wantRef && s.Referrers == 0 && rng.Intn(2) == 0 {
		s.Referrers = 1 + rng.Intn(3)
		s.RefOfRef = rng.Intn(3) == 0
		if rng.Intn(2) == 0 {
			s.ChildRefs = 1 + rng.Intn(2)
		}
	}
	if c.wantDT && s.DigestTags == 0 && rng.Intn(2) == 0 {
		s.DigestTags = 1 + rng.Intn(2)
		if rng.Intn(2) == 0 {
			s.ChildDTags = 1
		}
	}
	if c.Platform != "" {
		pi := 9
		for i, p := range casePlatforms {
			if p == c.Platform {
				pi = i
			}
		}
		switch s.Kind {
		case "nested":
			s.Kind = "index"
		case "artifact-index":
			if pi != 0 {
				s.Kind = "index"
			}
		}
		if s.Kind == "index" && pi < 9 && s.Platforms < pi+1 {
			s.Platforms = pi + 1
		}
	}
	if s.Kind == "schema1" {
		s.Referrers, s.RefOfRef, s.ChildRefs = 0, false, 0
	}
	return gen.Random(rng, "sha256", s, tag)
}

// putSource writes a graph into a source repository and records its tags.
func (c *Case) putSource(repo string, g *gen.Graph) {
	_ = copyeng.Populate(copyeng.Endpoint{Host: c.Src, Repo: repo}, g)
	c.Graphs[repo] = append(c.Graphs[repo], g)
	m := c.SrcTags[repo]
	if m == nil {
		m = map[string]tagRef{}
		c.SrcTags[repo] = m
	}
	for t, id := range g.Tags {
		m[t] = tagRef{G: g, ID: id}
	}
	c.syncFallbackTags(repo)
}

// syncFallbackTags registers raw source tags that no graph names (fallback tags).
func (c *Case) syncFallbackTags(repo string) {
	c.W.Lock()
	defer c.W.Unlock()
	for t := range c.Src.Repo(repo).Tags {
		if _, ok := c.SrcTags[repo][t]; !ok {
			c.SrcTags[repo][t] = tagRef{}
		}
	}
}

func closureKeep(g *gen.Graph, roots ...int) func(n *gen.Node) bool {
	sel := map[int]bool{}
	for _, r := range roots {
		for _, id := range g.Closure(r) {
			sel[id] = true
		}
	}
	return func(n *gen.Node) bool { return sel[n.ID] }
}

// smallGraph is an unrelated complete image used for stale / extra / foreign target content.
func (c *Case) smallGraph() *gen.Graph {
	s := gen.Shape{Family: []string{"oci", "docker"}[c.rng.Intn(2)], Kind: []string{"image", "index"}[c.rng.Intn(2)], Platforms: 1 + c.rng.Intn(2), Layers: 1 + c.rng.Intn(2), MaxBlob: 100}
	return gen.Random(c.rng, "sha256", s, "")
}

func (c *Case) putTargetComplete(repo, tag string, g *gen.Graph, id int) {
	_ = copyeng.PrePopulate(copyeng.Endpoint{Host: c.Tgt, Repo: repo}, g, closureKeep(g, id), map[string]int{tag: id})
}

// platformNode resolves the case platform inside an index node by exact match on
// os / architecture / variant (the generated indexes carry distinct platforms, so an exact
// match is unique and is what every sound selection returns). ok=false: no or ambiguous match.
func platformNode(g *gen.Graph, id int, plat string) (int, bool) {
	parts := strings.Split(plat, "/")
	want := la.Platform{OS: parts[0], Architecture: parts[1]}
	if len(parts) > 2 {
		want.Variant = parts[2]
	}
	m, err := la.Parse(g.Nodes[id].Content, g.Nodes[id].MT)
	if err != nil || m.Kind != "index" {
		return 0, false
	}
	found := []string{}
	for _, d := range m.Manifests {
		if d.Platform == nil {
			continue
		}
		v := d.Platform.Variant
		if d.Platform.Architecture == "arm64" && v == "v8" {
			v = ""
		}
		if d.Platform.OS == want.OS && d.Platform.Architecture == want.Architecture && v == want.Variant {
			found = append(found, d.Digest)
		}
	}
	if len(found) != 1 {
		return 0, false
	}
	for _, cid := range g.Nodes[id].Refs {
		if g.Nodes[cid].Digest == found[0] {
			return cid, true
		}
	}
	return 0, false
}

// archAbsent reports whether no entry of the index carries the platform's architecture.
func archAbsent(g *gen.Graph, id int, plat string) bool {
	parts := strings.Split(plat, "/")
	m, err := la.Parse(g.Nodes[id].Content, g.Nodes[id].MT)
	if err != nil || m.Kind != "index" || len(parts) < 2 {
		return false
	}
	for _, d := range m.Manifests {
		if d.Platform != nil && d.Platform.Architecture == parts[1] {
			return false
		}
	}
	return true
}

func isListMT(mt string) bool { return mt == la.MTOCIIndex || mt == la.MTD2List }

// prePopulateTag chooses and writes the pre-state of one target tag for a source tag.
func (c *Case) prePopulateTag(tgtRepo, tgtTag string, r tagRef, platform string) string {
	rng := c.rng
	e := copyeng.Endpoint{Host: c.Tgt, Repo: tgtRepo}
	if r.G == nil {
		return "absent"
	}
	g, id := r.G, r.ID
	n := g.Nodes[id]
	switch k := rng.Intn(20); {
	case k < 7:
		return "absent"
	case k < 10:
		if platform != "" && isListMT(n.MT) {
			if pid, ok := platformNode(g, id, platform); ok {
				c.putTargetComplete(tgtRepo, tgtTag, g, pid)
				return "current-platform"
			}
		}
		c.putTargetComplete(tgtRepo, tgtTag, g, id)
		return "current"
	case k < 15:
		sg := c.smallGraph()
		c.putTargetComplete(tgtRepo, tgtTag, sg, sg.Top)
		return "stale"
	case k < 16:
		for _, cid := range n.Refs {
			if g.Nodes[cid].IsManifest() {
				c.putTargetComplete(tgtRepo, tgtTag, g, cid)
				return "stale-child"
			}
		}
		return "absent"
	case k < 18:
		sel := map[int]bool{}
		for _, cid := range g.Closure(id) {
			if !g.Nodes[cid].IsManifest() && rng.Intn(2) == 0 {
				sel[cid] = true
			}
		}
		_ = copyeng.PrePopulate(e, g, func(n *gen.Node) bool { return sel[n.ID] }, nil)
		return "partial-blobs"
	default:
		var roots []int
		for _, cid := range g.Closure(id) {
			if cn := g.Nodes[cid]; cn.IsManifest() && cid != id && rng.Intn(2) == 0 {
				roots = append(roots, cid)
			}
		}
		_ = copyeng.PrePopulate(e, g, closureKeep(g, roots...), nil)
		return "partial-subimages"
	}
}

// scope lists the (source repository, target repository) pairs an entry can reach before
// its repository filter is applied.
func (c *Case) scope(e Entry) [][2]string {
	switch e.Type {
	case "image", "repository":
		return [][2]string{{e.SrcRepo, e.TgtRepo}}
	}
	var out [][2]string
	var names []string
	for r := range c.SrcTags {
		names = append(names, r)
	}
	sort.Strings(names)
	for _, r := range names {
		t := r
		if e.TgtRepo != "" {
			t = e.TgtRepo + "/" + r
		}
		out = append(out, [2]string{r, t})
	}
	return out
}

func (c *Case) sortedTags(repo string) []string {
	var ts []string
	for t := range c.SrcTags[repo] {
		ts = append(ts, t)
	}
	sort.Strings(ts)
	return ts
}

// plainTags are the tags of a repository that are neither digest tags nor fallback tags.
func (c *Case) plainTags(repo string) []string {
	var ts []string
	for _, t := range c.sortedTags(repo) {
		if !strings.HasPrefix(t, "sha256-") {
			ts = append(ts, t)
		}
	}
	return ts
}

// genCase builds the scenario idx (configuration, both registries, pre-states).
func genCase(idx int, rng *rand.Rand) *Case {
	c := &Case{I: idx, rng: rng, SrcTags: map[string]map[string]tagRef{}, Graphs: map[string][]*gen.Graph{}}
	c.W = modelreg.NewWorld()
	c.Src, c.Tgt = c.W.NewHost("src"), c.W.NewHost("tgt")
	c.SrcAPI, c.TgtAPI = rng.Intn(2) == 0, rng.Intn(2) == 0
	c.Src.Cfg.ReferrersAPI, c.Tgt.Cfg.ReferrersAPI = c.SrcAPI, c.TgtAPI
	c.Src.Cfg.TagPage = []int{0, 0, 2, 5}[rng.Intn(4)]
	c.Tgt.Cfg.TagPage = []int{0, 0, 3}[rng.Intn(3)]
	c.Src.Cfg.CatalogPage = []int{0, 0, 1, 2}[rng.Intn(4)]
	c.Src.Cfg.TagDeleteAPI, c.Tgt.Cfg.TagDeleteAPI = true, true
	c.Src.Cfg.NoHeadDigest = rng.Intn(8) == 0
	c.Tgt.Cfg.NoHeadDigest = rng.Intn(8) == 0
	switch k := rng.Intn(100); {
	case k < 30:
		c.Platform = casePlatforms[rng.Intn(len(casePlatforms))]
	case k < 38:
		c.Platform = "linux/riscv64" // never present: the run has to fail for every selected index
	}
	// every twelfth case: repository / registry entries that ask for a platform no index has, over a mix of
	// single images (mirrored) and indexes (cannot be): the run must not report success
	forcedAbsent := idx%12 == 7
	if forcedAbsent {
		c.Platform = "linux/riscv64"
	}
	// options first: they bias the population
	c.Cfg.Parallel = []int{0, 1, 2, 3, 4}[rng.Intn(5)]
	c.Cfg.Defaults = genSettings(rng, 0.22, c.Platform != "")
	nEnt := 1 + rng.Intn(3)
	types := []string{"image", "repository", "repository", "registry", "registry", "repository", "image"}
	for k := 0; k < nEnt; k++ {
		e := Entry{Type: types[rng.Intn(len(types))], Set: genSettings(rng, 0.3, c.Platform != "")}
		if c.Platform != "" && rng.Intn(10) < 7 {
			e.Platform = c.Platform
		}
		if forcedAbsent {
			e.Type = []string{"repository", "registry"}[rng.Intn(2)]
			e.Platform = c.Platform
		}
		c.Cfg.Entries = append(c.Cfg.Entries, e)
		x := effective(e, c.Cfg.Defaults)
		c.wantRef = c.wantRef || x.Referrers
		c.wantDT = c.wantDT || x.DigestTags
	}
	// source population
	repos := sample(rng, repoPool, 2+rng.Intn(3))
	for _, repo := range repos {
		tags := sample(rng, tagPool, 2+rng.Intn(4))
		for i, t := range tags {
			if i > 0 && rng.Intn(7) == 0 {
				// alias: two tags name the same image
				r := c.SrcTags[repo][tags[rng.Intn(i)]]
				c.Src.SetTag(repo, t, r.G.Nodes[r.ID].Digest)
				c.SrcTags[repo][t] = r
				continue
			}
			c.putSource(repo, c.newGraph(t))
		}
	}
	// entries: endpoints and filters
	usedEmptyPrefix := false
	for k := range c.Cfg.Entries {
		e := &c.Cfg.Entries[k]
		switch e.Type {
		case "image":
			e.SrcRepo = repos[rng.Intn(len(repos))]
			pt := c.plainTags(e.SrcRepo)
			e.SrcTag = pt[rng.Intn(len(pt))]
			e.TgtRepo = fmt.Sprintf("img%d/%s", k, e.SrcRepo)
			e.TgtTag = e.SrcTag
			if rng.Intn(3) == 0 {
				e.TgtTag = "mirror-" + e.SrcTag
			}
		case "repository":
			e.SrcRepo = repos[rng.Intn(len(repos))]
			e.TgtRepo = fmt.Sprintf("copy%d/%s", k, e.SrcRepo)
			if rng.Intn(4) == 0 {
				e.TgtRepo = fmt.Sprintf("flat%d", k)
			}
			e.TagsAllow, e.TagsDeny = genAD(rng, tagPatterns, c.plainTags(e.SrcRepo))
		case "registry":
			e.TgtRepo = fmt.Sprintf("mirror%d", k)
			if !usedEmptyPrefix && rng.Intn(3) == 0 {
				e.TgtRepo = ""
				usedEmptyPrefix = true
			}
			e.ReposAllow, e.ReposDeny = genAD(rng, repoPatterns, repos)
			seen := map[string]bool{}
			var names []string
			for _, r := range repos {
				for _, t := range c.plainTags(r) {
					if !seen[t] {
						seen[t] = true
						names = append(names, t)
					}
				}
			}
			sort.Strings(names)
			e.TagsAllow, e.TagsDeny = genAD(rng, tagPatterns, names)
		}
		if e.Platform != "" && !c.SrcAPI && e.Type != "image" {
			// fallback tags are indexes without platforms; a user of a platform entry keeps them out
			e.TagsDeny = append(e.TagsDeny, "sha256-[0-9a-f]+")
		}
	}
	// a twin of a platform entry: the same source tag mirrored once more, to another repository, for another
	// platform of the same index (what a user does to publish per-architecture repositories from one run);
	// each entry has to receive the image of its own platform
	if c.Platform != "" && c.Platform != casePlatforms[0] && c.Platform != "linux/riscv64" {
		for k, e := range c.Cfg.Entries {
			if e.Type == "image" && e.Platform != "" {
				twin := e
				twin.Platform = casePlatforms[0]
				twin.TgtRepo = fmt.Sprintf("twin%d/%s", k, e.SrcRepo)
				c.Cfg.Entries = append(c.Cfg.Entries, twin)
				c.Twin = true
				break
			}
		}
	}
	// target pre-states
	for _, e := range c.Cfg.Entries {
		x := effective(e, c.Cfg.Defaults)
		for _, sc := range c.scope(e) {
			srcRepo, tgtRepo := sc[0], sc[1]
			for _, t := range c.sortedTags(srcRepo) {
				tt := t
				if e.Type == "image" {
					if t != e.SrcTag && rng.Intn(3) != 0 {
						continue
					}
					if t == e.SrcTag {
						tt = e.TgtTag
					}
				}
				st := c.prePopulateTag(tgtRepo, tt, c.SrcTags[srcRepo][t], e.Platform)
				if x.Backup != "" && st != "absent" && rng.Intn(4) == 0 {
					// the backup name is already taken by something older
					bRepo, bTag := backupName(x.Backup, c.Tgt.Addr(), tgtRepo, tt)
					sg := c.smallGraph()
					c.putTargetComplete(bRepo, bTag, sg, sg.Top)
				}
			}
			// tags without a source counterpart
			for i := 0; i < rng.Intn(3); i++ {
				sg := c.smallGraph()
				c.putTargetComplete(tgtRepo, []string{"local", "v0", "v1-custom", "zz9", "old"}[rng.Intn(5)], sg, sg.Top)
			}
		}
	}
	for i := 0; i < 1+rng.Intn(2); i++ {
		sg := c.smallGraph()
		c.putTargetComplete(fmt.Sprintf("other/team%d", i), "v1", sg, sg.Top)
		c.Tgt.SetTag(fmt.Sprintf("other/team%d", i), "latest", sg.Nodes[sg.Top].Digest)
	}
	c.Runs = []int{1, 1, 2, 2, 2, 3}[rng.Intn(6)]
	for r := 0; r < c.Runs; r++ {
		c.CheckAt = append(c.CheckAt, rng.Intn(5) < 2)
	}
	return c
}

// addReferrer attaches a new referrer (a signature made after the image was mirrored) to the image a
// tag names or to one of its platform images; the tag itself does not move.
func (c *Case) addReferrer(repo, tag string) bool {
	rng := c.rng
	r, ok := c.SrcTags[repo][tag]
	if !ok || r.G == nil || r.G.Nodes[r.ID].Kind == "schema1" {
		return false
	}
	g := r.G
	cands := []int{r.ID}
	for _, cid := range g.Nodes[r.ID].Refs {
		if cn := g.Nodes[cid]; cn.IsManifest() && cn.Kind != "schema1" {
			cands = append(cands, cid)
		}
	}
	subj := g.Nodes[cands[rng.Intn(len(cands))]]
	if c.Platform != "" && rng.Intn(2) == 0 {
		if pid, ok := platformNode(g, r.ID, c.Platform); ok {
			subj = g.Nodes[pid]
		}
	}
	cfg := g.BlobBytes("config", la.MTOCIEmpty, []byte("{}"))
	l := g.Blob("layer", "application/vnd.example.payload", 10+rng.Intn(100))
	g.Image(cfg, []*gen.Node{l}, gen.ImageOpts{Family: "oci", Subject: subj, ArtifactType: []string{sigType, "application/vnd.example.sbom"}[rng.Intn(2)],
		Annotations: map[string]string{annotKey: []string{"a", "b"}[rng.Intn(2)], "org.example.late": "1"}})
	// write the grown graph back; only the tags that still name it are set again
	g2 := *g
	g2.Tags = map[string]int{}
	for t, id := range g.Tags {
		if cur, ok := c.SrcTags[repo][t]; ok && cur.G == g && cur.ID == id {
			g2.Tags[t] = id
		}
	}
	_ = copyeng.Populate(copyeng.Endpoint{Host: c.Src, Repo: repo}, &g2)
	c.syncFallbackTags(repo)
	return true
}

// moveSource changes the source between runs: tags move to new images, are re-pointed to
// another tag's image, disappear, or appear.
func (c *Case) moveSource() (moved, signed int) {
	rng := c.rng
	var repos []string
	for r := range c.SrcTags {
		repos = append(repos, r)
	}
	sort.Strings(repos)
	for _, repo := range repos {
		pt := c.plainTags(repo)
		for _, t := range pt {
			switch k := rng.Intn(100); {
			case k >= 75 && c.wantRef:
				if c.addReferrer(repo, t) {
					signed++
				}
			case k < 30:
				c.putSource(repo, c.newGraph(t))
				moved++
			case k < 37 && len(pt) > 1:
				o := pt[rng.Intn(len(pt))]
				if o == t {
					continue
				}
				r, ok := c.SrcTags[repo][o]
				if !ok || r.G == nil {
					continue // removed earlier in this round
				}
				c.Src.SetTag(repo, t, r.G.Nodes[r.ID].Digest)
				c.SrcTags[repo][t] = r
				moved++
			case k < 43 && len(pt) > 2:
				keep := false
				for _, e := range c.Cfg.Entries {
					if e.Type == "image" && e.SrcRepo == repo && e.SrcTag == t {
						keep = true // an image entry whose source vanished can only fail
					}
				}
				if keep {
					continue
				}
				c.W.Lock()
				delete(c.Src.Repo(repo).Tags, t)
				c.W.Unlock()
				delete(c.SrcTags[repo], t)
				moved++
			}
		}
		if rng.Intn(3) == 0 {
			for _, t := range sample(rng, tagPool, 3) {
				if _, ok := c.SrcTags[repo][t]; !ok {
					c.putSource(repo, c.newGraph(t))
					moved++
					break
				}
			}
		}
	}
	return moved, signed
}
