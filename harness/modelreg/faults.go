package modelreg

import (
	"fmt"
	"net/http"
	"strconv"
	"sync"
	"time"
)

// Fault is one planned misbehaviour.
type Fault struct {
	// Match selects requests; nil matches all. Position (1-based) counts matching requests.
	Match  func(ev *Event) bool
	At     int  // fire at the At-th matching request (0 = every matching request)
	Sticky bool // with At>0: fire at every matching request from At on
	// Action: "status:<code>[:retry-after]", "reset", "cut:<n>" (only for GETs with a body:
	// apply normally but drop the connection after n body bytes), "stall" (block until the
	// client goes away), "delay:<ms>", "call" (run Call, then proceed normally), "midstall" (a GET sends headers and half its body,
	// runs Call and then stalls until the client goes away).
	Action string
	Call   func(ev *Event)
	Header http.Header

	count int
	Fired int
}

// Plan is a list of faults installed as a host's Intercept.
type Plan struct {
	mu     sync.Mutex
	Faults []*Fault
}

// Install sets the plan as the interceptor of h.
func (p *Plan) Install(hosts ...*Host) *Plan {
	for _, h := range hosts {
		h := h
		h.Intercept = func(ev *Event, w http.ResponseWriter, r *http.Request) bool { return p.intercept(h, ev, w, r) }
	}
	return p
}

// FiredTotal returns how many times any fault of the plan fired.
func (p *Plan) FiredTotal() int {
	p.mu.Lock()
	defer p.mu.Unlock()
	n := 0
	for _, f := range p.Faults {
		n += f.Fired
	}
	return n
}

// InterceptOn applies the plan to one request of host h (for callers that decide themselves when to inject).
func (p *Plan) InterceptOn(h *Host, ev *Event, w http.ResponseWriter, r *http.Request) bool {
	return p.intercept(h, ev, w, r)
}

func (p *Plan) intercept(h *Host, ev *Event, w http.ResponseWriter, r *http.Request) bool {
	p.mu.Lock()
	var fire *Fault
	for _, f := range p.Faults {
		if f.Match != nil && !f.Match(ev) {
			continue
		}
		f.count++
		if fire != nil {
			continue
		}
		if f.At == 0 || f.count == f.At || (f.Sticky && f.count > f.At) {
			fire = f
			f.Fired++
		}
	}
	p.mu.Unlock()
	if fire == nil {
		return false
	}
	ev.Fault = fire.Action
	act, arg, arg2 := splitAction(fire.Action)
	if act == "slowstatus" {
		// a request that hangs for a while and then fails (arg2 = milliseconds)
		ms, _ := strconv.Atoi(arg2)
		time.Sleep(time.Duration(ms) * time.Millisecond)
		act, arg2 = "status", ""
	}
	switch act {
	case "status":
		code, _ := strconv.Atoi(arg)
		for k, v := range fire.Header {
			w.Header()[k] = v
		}
		if arg2 != "" {
			w.Header().Set("Retry-After", arg2)
		}
		body := errBody("INJECTED", "injected fault")
		w.Header().Set("Content-Type", "application/json")
		w.Header().Set("Content-Length", strconv.Itoa(len(body)))
		ev.Status = code
		w.WriteHeader(code)
		if r.Method != "HEAD" {
			_, _ = w.Write(body)
		}
		return true
	case "reset":
		ev.Status = -1
		DropConn(w)
		return true
	case "stall", "stallcall":
		ev.Status = -2
		if act == "stallcall" && fire.Call != nil {
			fire.Call(ev)
		}
		select {
		case <-r.Context().Done():
		case <-time.After(30 * time.Second):
		}
		DropConn(w)
		return true
	case "delay":
		ms, _ := strconv.Atoi(arg)
		time.Sleep(time.Duration(ms) * time.Millisecond)
		return false
	case "call":
		if fire.Call != nil {
			fire.Call(ev)
		}
		return false
	case "midstall":
		// a successful GET sends its headers and half of the body, runs Call, and then sends nothing more until
		// the client goes away (other requests: like "stallcall")
		h.W.mu.Lock()
		resp := h.apply(ev, r, ev.Body)
		h.W.mu.Unlock()
		ev.Status = resp.status
		wait := func() {
			if fire.Call != nil {
				fire.Call(ev)
			}
			select {
			case <-r.Context().Done():
			case <-time.After(30 * time.Second):
			}
		}
		if resp.status >= 200 && resp.status < 300 && r.Method == "GET" && len(resp.body) > 1 {
			resp.cut = len(resp.body) / 2
			resp.hold = wait
			writeResp(w, resp)
			return true
		}
		if r.Method == "GET" || r.Method == "HEAD" {
			ev.Status = -2
			wait()
			DropConn(w)
			return true
		}
		writeResp(w, resp)
		return true
	case "cut":
		n, _ := strconv.Atoi(arg)
		h.W.mu.Lock()
		resp := h.apply(ev, r, ev.Body)
		h.W.mu.Unlock()
		ev.Status = resp.status
		if resp.status >= 200 && resp.status < 300 && r.Method == "GET" {
			resp.cut = n
		}
		writeResp(w, resp)
		return true
	}
	panic(fmt.Sprintf("modelreg: unknown fault action %q", fire.Action))
}

func splitAction(s string) (a, b, c string) {
	parts := []string{"", "", ""}
	i := 0
	for _, ch := range s {
		if ch == ':' && i < 2 {
			i++
			continue
		}
		parts[i] += string(ch)
	}
	return parts[0], parts[1], parts[2]
}
