package modelreg

import (
	"encoding/base64"
	"encoding/json"
	"fmt"
	"net/http"
	"net/url"
	"strings"
	"sync"
	"time"
)

// AuthCfg makes a host demand authentication.
type AuthCfg struct {
	Mode          string // "basic" | "bearer"
	User, Pass    string
	IdentityToken string // accepted as refresh_token at the token endpoint
	Realm         string // bearer: URL of the token endpoint named in the challenge
	Service       string
	IssueRefresh  bool     // token endpoint also hands out a refresh token
	OddTokenJSON  bool     // token endpoint writes expires_in as a string (a sloppy server: the reply does not decode)
	AllowAnon     bool     // token endpoint issues tokens without credentials
	Extra         []string // extra WWW-Authenticate header values sent before the real one
	Prefix        string   // unique prefix of every token issued for this registry

	mu      sync.Mutex
	n       int
	Tokens  map[string]bool
	Refresh map[string]bool
}

// Secrets lists every secret string associated with this registry so far.
func (a *AuthCfg) Secrets() []string {
	a.mu.Lock()
	defer a.mu.Unlock()
	var out []string
	if a.Pass != "" {
		out = append(out, a.Pass)
		out = append(out, base64.StdEncoding.EncodeToString([]byte(a.User+":"+a.Pass)))
	}
	if a.IdentityToken != "" {
		out = append(out, a.IdentityToken)
	}
	for t := range a.Tokens {
		out = append(out, t)
	}
	for t := range a.Refresh {
		out = append(out, t)
	}
	return out
}

func (a *AuthCfg) challenge(h *Host, ev *Event) *response {
	resp := h.errResp(401, "UNAUTHORIZED", "authentication required")
	for _, e := range a.Extra {
		resp.hdr.Add("WWW-Authenticate", e)
	}
	switch a.Mode {
	case "basic":
		resp.hdr.Add("WWW-Authenticate", fmt.Sprintf(`Basic realm="%s"`, h.Name))
	case "bearer":
		scope := ""
		if ev.Repo != "" {
			act := "pull"
			if ev.Mutating {
				act = "pull,push"
			}
			scope = fmt.Sprintf(`,scope="repository:%s:%s"`, ev.Repo, act)
		}
		resp.hdr.Add("WWW-Authenticate", fmt.Sprintf(`Bearer realm="%s",service="%s"%s`, a.Realm, a.Service, scope))
	}
	return resp
}

// check returns nil if the request may proceed.
func (a *AuthCfg) check(h *Host, ev *Event, r *http.Request) *response {
	if ev.Kind == "token" {
		return a.serveToken(h, ev, r)
	}
	if a.Mode == "" {
		return nil
	}
	ah := r.Header.Get("Authorization")
	switch a.Mode {
	case "basic":
		if ah == "Basic "+base64.StdEncoding.EncodeToString([]byte(a.User+":"+a.Pass)) {
			return nil
		}
	case "bearer":
		if t, ok := strings.CutPrefix(ah, "Bearer "); ok {
			a.mu.Lock()
			good := a.Tokens[t]
			a.mu.Unlock()
			if good {
				return nil
			}
		}
	}
	return a.challenge(h, ev)
}

func (a *AuthCfg) serveToken(h *Host, ev *Event, r *http.Request) *response {
	ok := false
	switch r.Method {
	case "GET":
		if u, p, has := r.BasicAuth(); has {
			ok = u == a.User && p == a.Pass
		} else {
			ok = a.AllowAnon
		}
	case "POST":
		form, _ := url.ParseQuery(string(ev.Body))
		switch form.Get("grant_type") {
		case "password":
			ok = form.Get("username") == a.User && form.Get("password") == a.Pass
		case "refresh_token":
			rt := form.Get("refresh_token")
			a.mu.Lock()
			ok = (a.IdentityToken != "" && rt == a.IdentityToken) || a.Refresh[rt]
			a.mu.Unlock()
		default:
			ok = a.AllowAnon
		}
	}
	if !ok {
		return h.errResp(401, "UNAUTHORIZED", "bad credentials")
	}
	a.mu.Lock()
	a.n++
	if a.Tokens == nil {
		a.Tokens = map[string]bool{}
		a.Refresh = map[string]bool{}
	}
	tok := fmt.Sprintf("%sBT%d", a.Prefix, a.n)
	a.Tokens[tok] = true
	out := map[string]any{"token": tok, "access_token": tok, "expires_in": 3600, "issued_at": time.Now().UTC().Format(time.RFC3339)}
	if a.OddTokenJSON {
		out["expires_in"] = "3600"
	}
	if a.IssueRefresh {
		rt := fmt.Sprintf("%sRT%d", a.Prefix, a.n)
		a.Refresh[rt] = true
		out["refresh_token"] = rt
	}
	a.mu.Unlock()
	resp := newResp(200)
	resp.hdr.Set("Content-Type", "application/json")
	resp.body, _ = json.Marshal(out)
	return resp
}
