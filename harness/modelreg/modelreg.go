// Package modelreg is a recording, switchable and (on request) hostile model of an OCI
// distribution registry. It is the harness' own code: its raw state is populated and read
// directly (never through the client under test) and every request is logged in the order
// in which the server applied it.
package modelreg

import (
	"bytes"
	"crypto/sha256"
	"encoding/hex"
	"encoding/json"
	"fmt"
	"io"
	"net"
	"net/http"
	"net/http/httptest"
	"net/url"
	"sort"
	"strconv"
	"strings"
	"sync"
	"sync/atomic"
	"time"

	la "verif/layoutaudit"
)

// World groups hosts under one lock and one sequence counter.
type World struct {
	mu     sync.Mutex
	seq    int64
	arr    int64
	Events []*Event
	Hosts  []*Host
	// Anomalies are protocol-level oddities noticed by the model (never verdicts by themselves).
	Anomalies []string
	reqCount  atomic.Int64
}

// Event is one request as seen by a host.
type Event struct {
	Arr, Seq     int64
	Host         string
	Method       string
	Kind         string // ping catalog tags manifest blob upload-start upload-patch upload-put upload-get upload-del referrers token other
	Repo         string
	Ref          string // tag, digest or upload id
	Path         string
	Query        string
	Status       int
	BodyLen      int
	BodySHA      string
	Range        string
	ContentRange string
	Auth         string
	Mutating     bool     // request changed (or tried to change) state: any method other than GET/HEAD
	Applied      bool     // state was changed
	MissingRefs  []string // manifest PUT: referenced digests absent from the repository at apply time
	Fault        string
	Note         string
	Header       http.Header `json:"-"`
	Body         []byte      `json:"-"`
	RawURL       string
}

// Man is a stored manifest.
type Man struct {
	Raw []byte
	MT  string
}

// Repo is the raw state of one repository.
type Repo struct {
	Blobs     map[string][]byte
	Manifests map[string]*Man
	Tags      map[string]string
}

func newRepo() *Repo {
	return &Repo{Blobs: map[string][]byte{}, Manifests: map[string]*Man{}, Tags: map[string]string{}}
}

type upload struct {
	repo  string
	buf   []byte
	n     int // number of responses given (for relocation)
	state string
	patch int
	small bool // a chunk below the advertised minimum was received (only the last chunk may be short)
	kept  bool
}

// Cfg are the behaviour switches of a host.
type Cfg struct {
	Mount            string // "grant" (default), "decline" (202 + upload location), "refuse" (4xx), "mixed" (grant or decline per blob: MixedMountGrants)
	AnonMount        bool   // grant a mount without "from" if any repository has the blob
	NoHeadDigest     bool   // omit Docker-Content-Digest on HEAD/GET of manifests
	ReferrersAPI     bool
	ReferrersPage    int
	TagDeleteAPI     bool
	TagPage          int
	CatalogPage      int
	ChunkMin         int64
	EnforceChunkMin  bool   // refuse further data once a non-final chunk below ChunkMin was sent
	AckPlan          []int  // i-th PATCH of a session: bytes of the chunk to accept (-1 / beyond = all)
	AckStyle         string // "202" (default) or "416"
	TagPageHole      int    // > 0: the k-th page of a paged tag listing is empty and only carries the Link to its content
	MonoPutKeep      int    // > 0: the first single-request PUT of a session stores this many bytes of its body and then fails with 500
	MaxAccept        int    // > 0: at most this many bytes of any PATCH are accepted (reported like an AckPlan cut)
	EmptyRange       string // Range value of a session that holds no bytes: "0-0" (default, distribution) or "0--1" (olareg)
	Early201         bool   // answer the PATCH that completes nothing special with 201 instead of 202
	Relocate         string // "" (absolute path), "absolute" (scheme+host), "relative", "query", "newpath"
	RefuseMonoPut    bool   // refuse PUT with a body on a session that has no data yet
	BlobRedirect     string // base URL of another host to redirect blob GETs to
	BlobCL           string // "" right, "wrong", "none"
	ManifestsAsBlobs bool   // GET / HEAD of the blob endpoint also answer for digests of stored manifests (one store behind both endpoints)
	BlobDigestHdr    string // Docker-Content-Digest of blob responses: "" echoes the requested digest, "none" omits it, "actual" names the bytes that are served
	RangeMode        string // "" ok, "ignore", "wrongoffset", "wrongbytes", "nocr"
	RejectMissing    bool   // validating mode: refuse manifest PUTs whose references are missing
	ReadOnly         bool   // refuse every mutation with 405 (mirror)
	Latency          func(ev *Event) time.Duration
	ManifestCTWrong  bool // serve manifests with a wrong Content-Type
	// ExtraManifestHeader is added to manifest GET / HEAD responses (e.g. a lying Docker-Content-Digest).
	ExtraManifestHeader map[string]string
}

// Host is one model registry endpoint.
type Host struct {
	Name  string
	W     *World
	Srv   *httptest.Server
	Repos map[string]*Repo
	Cfg   Cfg
	// Intercept runs after the request was read and numbered (Arr) but before it is
	// applied. If it returns true the request was fully answered by the interceptor.
	Intercept func(ev *Event, w http.ResponseWriter, r *http.Request) bool
	// Early runs before the request body is read; a non-zero status is sent at once and the body
	// is never read by the handler.
	Early    func(ev *Event) int
	Auth     *AuthCfg
	uploads  map[string]*upload
	upSeq    int
	inFlight atomic.Int32
	active   atomic.Int32
	TLS      bool
	plainState
	// MaxInFlight is the largest number of simultaneously running request handlers seen.
	MaxInFlight atomic.Int32
}

// NewWorld creates an empty world.
func NewWorld() *World { return &World{} }

var hostCounter atomic.Int64

// listenLoopback opens a listener on a loopback address of its own. Every 127.x.y.z address has a
// separate port space, so thousands of short-lived hosts and their TIME_WAIT sockets do not exhaust
// the ephemeral ports of 127.0.0.1 (httptest would silently fall back to [::1], which regclient
// references cannot express).
func listenLoopback() net.Listener {
	for try := 0; try < 400; try++ {
		n := hostCounter.Add(1)
		ip := fmt.Sprintf("127.%d.%d.%d", 1+(n/62500)%100, (n/250)%250, 1+n%250)
		if l, err := net.Listen("tcp4", ip+":0"); err == nil {
			return l
		}
		if l, err := net.Listen("tcp4", "127.0.0.1:0"); err == nil {
			return l
		}
		time.Sleep(25 * time.Millisecond)
	}
	panic("modelreg: cannot open a loopback listener")
}

// NewHost starts a plain-HTTP model host.
func (w *World) NewHost(name string) *Host {
	h := &Host{Name: name, W: w, Repos: map[string]*Repo{}, uploads: map[string]*upload{}}
	h.Srv = httptest.NewUnstartedServer(h)
	_ = h.Srv.Listener.Close()
	h.Srv.Listener = listenLoopback()
	h.Srv.Start()
	w.mu.Lock()
	w.Hosts = append(w.Hosts, h)
	w.mu.Unlock()
	return h
}

// NewTLSHost starts a TLS model host.
func (w *World) NewTLSHost(name string) *Host {
	h := &Host{Name: name, W: w, Repos: map[string]*Repo{}, uploads: map[string]*upload{}}
	h.Srv = httptest.NewTLSServer(h)
	w.mu.Lock()
	w.Hosts = append(w.Hosts, h)
	w.mu.Unlock()
	return h
}

// Close stops all hosts.
func (w *World) Close() {
	for _, h := range w.Hosts {
		h.Srv.CloseClientConnections()
		h.Srv.Close()
	}
}

// Addr is host:port of the listener.
func (h *Host) Addr() string {
	return strings.TrimPrefix(strings.TrimPrefix(h.Srv.URL, "http://"), "https://")
}

// Lock / Unlock give the harness consistent access to raw state.
func (w *World) Lock()   { w.mu.Lock() }
func (w *World) Unlock() { w.mu.Unlock() }

// WaitIdle blocks until no request handler is running on any host (bounded by ~2 s).
func (w *World) WaitIdle() {
	quiet := 0
	for i := 0; i < 4000 && quiet < 3; i++ {
		busy := false
		for _, h := range w.Hosts {
			if h.active.Load() != 0 {
				busy = true
			}
		}
		if busy {
			quiet = 0
		} else {
			quiet++
		}
		time.Sleep(500 * time.Microsecond)
	}
}

// Requests returns the number of requests received so far by all hosts.
func (w *World) Requests() int64 { return w.reqCount.Load() }

// Log returns a copy of the event list.
func (w *World) Log() []*Event {
	w.mu.Lock()
	defer w.mu.Unlock()
	return append([]*Event(nil), w.Events...)
}

// ResetLog forgets recorded events (state is kept).
func (w *World) ResetLog() {
	w.mu.Lock()
	w.Events = nil
	w.Anomalies = nil
	w.mu.Unlock()
}

// Repo returns (creating) a repository. Caller must not race with running requests
// unless it holds the world lock.
func (h *Host) Repo(name string) *Repo {
	r := h.Repos[name]
	if r == nil {
		r = newRepo()
		h.Repos[name] = r
	}
	return r
}

// Snapshot deep-copies the raw state of a host: repo -> kind -> key -> sha of value.
func (h *Host) Snapshot() map[string]map[string]string {
	h.W.mu.Lock()
	defer h.W.mu.Unlock()
	out := map[string]map[string]string{}
	for rn, r := range h.Repos {
		m := map[string]string{}
		for d, b := range r.Blobs {
			m["blob/"+d] = shaHex(b)
		}
		for d, mm := range r.Manifests {
			m["manifest/"+d] = shaHex(mm.Raw) + " " + mm.MT
		}
		for t, d := range r.Tags {
			m["tag/"+t] = d
		}
		out[rn] = m
	}
	return out
}

// Store adapts a repository to layoutaudit.Store (takes the world lock per call).
type Store struct {
	H    *Host
	Name string
}

func (s Store) Manifest(d string) ([]byte, string, bool) {
	s.H.W.mu.Lock()
	defer s.H.W.mu.Unlock()
	r := s.H.Repos[s.Name]
	if r == nil {
		return nil, "", false
	}
	m, ok := r.Manifests[d]
	if !ok {
		return nil, "", false
	}
	return m.Raw, m.MT, true
}

func (s Store) Blob(d string) ([]byte, bool) {
	s.H.W.mu.Lock()
	defer s.H.W.mu.Unlock()
	r := s.H.Repos[s.Name]
	if r == nil {
		return nil, false
	}
	b, ok := r.Blobs[d]
	return b, ok
}

// Tag resolves a tag in raw state.
func (s Store) Tag(t string) (string, bool) {
	s.H.W.mu.Lock()
	defer s.H.W.mu.Unlock()
	r := s.H.Repos[s.Name]
	if r == nil {
		return "", false
	}
	d, ok := r.Tags[t]
	return d, ok
}

func shaHex(b []byte) string {
	s := sha256.Sum256(b)
	return hex.EncodeToString(s[:])
}

// -----------------------------------------------------------------------------------

type response struct {
	status  int
	hdr     http.Header
	body    []byte
	cut     int  // >=0: send only this many body bytes, then drop the connection
	wrongCL int  // !=0: advertise Content-Length = len(body)+wrongCL
	noCL    bool // chunked transfer
	head    bool
	hold    func() // with cut >= 0: called after the prefix was flushed; the connection is dropped when it returns
}

func newResp(status int) *response { return &response{status: status, hdr: http.Header{}, cut: -1} }

func errBody(code, msg string) []byte {
	b, _ := json.Marshal(map[string]any{"errors": []map[string]string{{"code": code, "message": msg}}})
	return b
}

func (h *Host) errResp(status int, code, msg string) *response {
	r := newResp(status)
	r.hdr.Set("Content-Type", "application/json")
	r.body = errBody(code, msg)
	return r
}

func (h *Host) emptyRange() string {
	if h.Cfg.EmptyRange != "" {
		return h.Cfg.EmptyRange
	}
	return "0-0"
}

// ServeHTTP implements http.Handler.
func (h *Host) ServeHTTP(w http.ResponseWriter, r *http.Request) {
	h.W.reqCount.Add(1)
	h.active.Add(1)
	defer h.active.Add(-1)
	// in-flight window: from arrival until just before the first response byte is written, so
	// that it always lies inside the period in which the client holds its throttle slot
	n := h.inFlight.Add(1)
	var once sync.Once
	leave := func() { once.Do(func() { h.inFlight.Add(-1) }) }
	defer leave()
	for {
		m := h.MaxInFlight.Load()
		if n <= m || h.MaxInFlight.CompareAndSwap(m, n) {
			break
		}
	}
	if h.Early != nil {
		pre := &Event{Host: h.Name, Method: r.Method, Path: r.URL.Path, Query: r.URL.RawQuery, BodyLen: -1,
			ContentRange: r.Header.Get("Content-Range"), Auth: r.Header.Get("Authorization"), Header: r.Header.Clone(), RawURL: r.URL.String()}
		h.classify(pre)
		if code := h.Early(pre); code != 0 {
			// answered before (and without) reading the request body, as a front end does that
			// rejects on the headers alone (expired token, rate limit, overload)
			h.W.mu.Lock()
			h.W.arr++
			pre.Arr = h.W.arr
			h.W.seq++
			pre.Seq = h.W.seq
			pre.Status = code
			pre.Fault = fmt.Sprintf("early:%d", code)
			h.W.Events = append(h.W.Events, pre)
			h.W.mu.Unlock()
			eb := errBody("EARLY", "answered before the body was read")
			w.Header().Set("Content-Type", "application/json")
			w.Header().Set("Content-Length", strconv.Itoa(len(eb)))
			leave()
			w.WriteHeader(code)
			_, _ = w.Write(eb)
			return
		}
	}
	body, rerr := io.ReadAll(r.Body)
	if rerr != nil {
		// the request body ended before Content-Length bytes arrived: a server never applies such a request
		h.W.mu.Lock()
		h.W.Anomalies = append(h.W.Anomalies, fmt.Sprintf("%s %s: request body truncated (%v)", r.Method, r.URL.Path, rerr))
		h.W.mu.Unlock()
		w.WriteHeader(400)
		return
	}
	ev := &Event{Host: h.Name, Method: r.Method, Path: r.URL.Path, Query: r.URL.RawQuery, BodyLen: len(body),
		Range: r.Header.Get("Range"), ContentRange: r.Header.Get("Content-Range"), Auth: r.Header.Get("Authorization"),
		Mutating: r.Method != "GET" && r.Method != "HEAD", Header: r.Header.Clone(), Body: body, RawURL: r.URL.String()}
	if len(body) > 0 {
		ev.BodySHA = shaHex(body)
	}
	h.classify(ev)
	h.W.mu.Lock()
	h.W.arr++
	ev.Arr = h.W.arr
	h.W.mu.Unlock()

	if h.Intercept != nil {
		leave()
	}
	if h.Intercept != nil && h.Intercept(ev, w, r) {
		h.W.mu.Lock()
		h.W.seq++
		ev.Seq = h.W.seq
		if ev.Fault == "" {
			ev.Fault = "intercepted"
		}
		h.W.Events = append(h.W.Events, ev)
		h.W.mu.Unlock()
		return
	}
	if h.Cfg.Latency != nil {
		if d := h.Cfg.Latency(ev); d > 0 {
			time.Sleep(d)
		}
	}
	var resp *response
	if h.Auth != nil {
		resp = h.Auth.check(h, ev, r)
	}
	h.W.mu.Lock()
	h.W.seq++
	ev.Seq = h.W.seq
	if resp == nil {
		resp = h.apply(ev, r, body)
	}
	ev.Status = resp.status
	h.W.Events = append(h.W.Events, ev)
	h.W.mu.Unlock()
	resp.head = r.Method == "HEAD"
	leave()
	writeResp(w, resp)
}

func writeResp(w http.ResponseWriter, resp *response) {
	for k, v := range resp.hdr {
		w.Header()[k] = v
	}
	switch {
	case resp.noCL:
		// leave Content-Length unset and flush to force chunked encoding
	case resp.wrongCL != 0:
		w.Header().Set("Content-Length", strconv.Itoa(len(resp.body)+resp.wrongCL))
	default:
		w.Header().Set("Content-Length", strconv.Itoa(len(resp.body)))
	}
	if resp.cut >= 0 && !resp.head {
		// send the header and a prefix of the body, then drop the connection
		w.WriteHeader(resp.status)
		n := resp.cut
		if n > len(resp.body) {
			n = len(resp.body)
		}
		_, _ = w.Write(resp.body[:n])
		if f, ok := w.(http.Flusher); ok {
			f.Flush()
		}
		if resp.hold != nil {
			resp.hold() // the body stalls: the client holds a response whose body never completes
			DropConn(w)
			return
		}
		CloseConn(w) // truncated body: orderly close, the client reads an unexpected EOF
		return
	}
	w.WriteHeader(resp.status)
	if !resp.head {
		if resp.noCL {
			if f, ok := w.(http.Flusher); ok {
				half := len(resp.body) / 2
				_, _ = w.Write(resp.body[:half])
				f.Flush()
				_, _ = w.Write(resp.body[half:])
				return
			}
		}
		_, _ = w.Write(resp.body)
	}
}

// DropConn closes the underlying connection abruptly (TCP reset).
func DropConn(w http.ResponseWriter) { dropConn(w, true) }

// CloseConn closes the underlying connection in an orderly way (the peer sees an early EOF).
func CloseConn(w http.ResponseWriter) { dropConn(w, false) }

func dropConn(w http.ResponseWriter, reset bool) {
	if hj, ok := w.(http.Hijacker); ok {
		c, _, err := hj.Hijack()
		if err == nil {
			if tc, ok := c.(*net.TCPConn); ok && reset {
				_ = tc.SetLinger(0)
			}
			_ = c.Close()
		}
	}
}

func (h *Host) classify(ev *Event) {
	p := ev.Path
	switch {
	case p == "/v2/" || p == "/v2":
		ev.Kind = "ping"
		return
	case p == "/v2/_catalog":
		ev.Kind = "catalog"
		return
	case p == "/token":
		ev.Kind = "token"
		return
	case !strings.HasPrefix(p, "/v2/"):
		ev.Kind = "other"
		return
	}
	rest := strings.TrimPrefix(p, "/v2/")
	if i := strings.LastIndex(rest, "/tags/list"); i >= 0 && strings.HasSuffix(rest, "/tags/list") {
		ev.Kind, ev.Repo = "tags", rest[:i]
		return
	}
	if i := strings.LastIndex(rest, "/manifests/"); i >= 0 {
		ev.Kind, ev.Repo, ev.Ref = "manifest", rest[:i], rest[i+len("/manifests/"):]
		return
	}
	if i := strings.LastIndex(rest, "/referrers/"); i >= 0 {
		ev.Kind, ev.Repo, ev.Ref = "referrers", rest[:i], rest[i+len("/referrers/"):]
		return
	}
	if i := strings.LastIndex(rest, "/blobs/uploads/"); i >= 0 {
		ev.Repo, ev.Ref = rest[:i], rest[i+len("/blobs/uploads/"):]
		switch {
		case ev.Ref == "" && ev.Method == "POST":
			ev.Kind = "upload-start"
		case ev.Method == "PATCH":
			ev.Kind = "upload-patch"
		case ev.Method == "PUT":
			ev.Kind = "upload-put"
		case ev.Method == "GET":
			ev.Kind = "upload-get"
		case ev.Method == "DELETE":
			ev.Kind = "upload-del"
		default:
			ev.Kind = "other"
		}
		return
	}
	if i := strings.LastIndex(rest, "/blobs/"); i >= 0 {
		ev.Kind, ev.Repo, ev.Ref = "blob", rest[:i], rest[i+len("/blobs/"):]
		return
	}
	ev.Kind = "other"
}

// apply runs under the world lock.
func (h *Host) apply(ev *Event, r *http.Request, body []byte) *response {
	if h.Cfg.ReadOnly && ev.Mutating {
		return h.errResp(405, "UNSUPPORTED", "read only")
	}
	switch ev.Kind {
	case "ping":
		resp := newResp(200)
		resp.hdr.Set("Docker-Distribution-API-Version", "registry/2.0")
		resp.body = []byte("{}")
		return resp
	case "catalog":
		return h.catalog(r)
	case "tags":
		return h.tags(ev, r)
	case "manifest":
		return h.manifest(ev, r, body)
	case "blob":
		return h.blob(ev, r)
	case "referrers":
		return h.referrers(ev, r)
	case "upload-start", "upload-patch", "upload-put", "upload-get", "upload-del":
		return h.upload(ev, r, body)
	}
	return h.errResp(404, "NOT_FOUND", "unknown endpoint")
}

func page(all []string, r *http.Request, def int) (out []string, more bool, n int) {
	sort.Strings(all)
	q := r.URL.Query()
	last := q.Get("last")
	n = def
	if s := q.Get("n"); s != "" {
		if v, err := strconv.Atoi(s); err == nil && v >= 0 && (def <= 0 || v < def) {
			n = v
		}
	}
	start := 0
	if last != "" {
		start = sort.SearchStrings(all, last)
		if start < len(all) && all[start] == last {
			start++
		}
	}
	out = all[start:]
	if n > 0 && len(out) > n {
		out = out[:n]
		more = true
	}
	return append([]string{}, out...), more, n
}

func (h *Host) catalog(r *http.Request) *response {
	var names []string
	for n := range h.Repos {
		names = append(names, n)
	}
	out, more, n := page(names, r, h.Cfg.CatalogPage)
	resp := newResp(200)
	resp.hdr.Set("Content-Type", "application/json")
	if more {
		resp.hdr.Set("Link", fmt.Sprintf("</v2/_catalog?n=%d&last=%s>; rel=\"next\"", n, url.QueryEscape(out[len(out)-1])))
	}
	resp.body, _ = json.Marshal(map[string]any{"repositories": out})
	return resp
}

func (h *Host) tags(ev *Event, r *http.Request) *response {
	rp := h.Repos[ev.Repo]
	if rp == nil {
		return h.errResp(404, "NAME_UNKNOWN", "repository not found")
	}
	var names []string
	for t := range rp.Tags {
		names = append(names, t)
	}
	out, more, n := page(names, r, h.Cfg.TagPage)
	resp := newResp(200)
	resp.hdr.Set("Content-Type", "application/json")
	if k := h.Cfg.TagPageHole; k > 0 && n > 0 && r.URL.Query().Get("skip") == "" {
		// a registry that pages first and filters afterwards: the k-th page comes back empty, its Link
		// leads to the names that page would have held
		sort.Strings(names)
		start := 0
		if last := r.URL.Query().Get("last"); last != "" {
			start = sort.SearchStrings(names, last)
			if start < len(names) && names[start] == last {
				start++
			}
		}
		if start/n == k-1 && len(out) > 0 {
			resp.hdr.Set("Link", fmt.Sprintf("</v2/%s/tags/list?n=%d&last=%s&skip=1>; rel=\"next\"", ev.Repo, n, url.QueryEscape(r.URL.Query().Get("last"))))
			resp.body, _ = json.Marshal(map[string]any{"name": ev.Repo, "tags": []string{}})
			return resp
		}
	}
	if more {
		resp.hdr.Set("Link", fmt.Sprintf("</v2/%s/tags/list?n=%d&last=%s>; rel=\"next\"", ev.Repo, n, url.QueryEscape(out[len(out)-1])))
	}
	resp.body, _ = json.Marshal(map[string]any{"name": ev.Repo, "tags": out})
	return resp
}

// MixedMountGrants is the per-blob decision of a registry in mount mode "mixed".
func MixedMountGrants(d string) bool {
	if d == "" {
		return false
	}
	return strings.IndexByte("01234567", d[len(d)-1]) >= 0
}

func isDigest(s string) bool { return strings.Contains(s, ":") }

// ManifestDigest names a manifest body the way registries do: signed schema1 by payload.
func ManifestDigest(alg string, mt string, raw []byte) string {
	if mt == la.MTD1Signed {
		if p, err := la.Schema1Payload(raw); err == nil {
			return la.Digest(alg, p)
		}
	}
	return la.Digest(alg, raw)
}

func (h *Host) manifest(ev *Event, r *http.Request, body []byte) *response {
	rp := h.Repos[ev.Repo]
	switch ev.Method {
	case "GET", "HEAD":
		if rp == nil {
			return h.errResp(404, "NAME_UNKNOWN", "repository not found")
		}
		d := ev.Ref
		if !isDigest(d) {
			var ok bool
			if d, ok = rp.Tags[ev.Ref]; !ok {
				return h.errResp(404, "MANIFEST_UNKNOWN", "tag not found")
			}
		}
		m, ok := rp.Manifests[d]
		if !ok {
			return h.errResp(404, "MANIFEST_UNKNOWN", "manifest not found")
		}
		resp := newResp(200)
		ct := m.MT
		if h.Cfg.ManifestCTWrong {
			ct = "application/octet-stream"
		}
		resp.hdr.Set("Content-Type", ct)
		if !h.Cfg.NoHeadDigest {
			resp.hdr.Set("Docker-Content-Digest", d)
		}
		for k, v := range h.Cfg.ExtraManifestHeader {
			resp.hdr.Set(k, v)
		}
		resp.body = m.Raw
		return resp
	case "PUT":
		mt := r.Header.Get("Content-Type")
		alg := "sha256"
		if isDigest(ev.Ref) {
			alg = ev.Ref[:strings.IndexByte(ev.Ref, ':')]
		} else if q := r.URL.Query().Get("digest"); q != "" {
			alg = q[:max(strings.IndexByte(q, ':'), 0)]
		}
		if alg != "sha256" && alg != "sha512" {
			return h.errResp(400, "DIGEST_INVALID", "unsupported algorithm")
		}
		d := ManifestDigest(alg, mt, body)
		if isDigest(ev.Ref) && ev.Ref != d {
			return h.errResp(400, "DIGEST_INVALID", "digest does not match body")
		}
		if q := r.URL.Query().Get("digest"); q != "" && q != d {
			return h.errResp(400, "DIGEST_INVALID", "digest parameter does not match body")
		}
		pm, err := la.Parse(body, mt)
		if err != nil {
			return h.errResp(400, "MANIFEST_INVALID", err.Error())
		}
		if pm.MediaType != "" && mt != "" && pm.MediaType != mt && !(strings.HasPrefix(mt, "application/vnd.docker.distribution.manifest.v1") && strings.HasPrefix(pm.MediaType, "application/vnd.docker.distribution.manifest.v1")) {
			return h.errResp(400, "MANIFEST_INVALID", "content-type does not match mediaType field")
		}
		if rp == nil {
			rp = h.Repo(ev.Repo)
		}
		for _, c := range pm.Children() {
			present := false
			if c.IsManifest {
				_, present = rp.Manifests[c.Desc.Digest]
			} else {
				_, present = rp.Blobs[c.Desc.Digest]
			}
			if !present && !c.Foreign {
				ev.MissingRefs = append(ev.MissingRefs, c.Desc.Digest)
			}
		}
		if len(ev.MissingRefs) > 0 && h.Cfg.RejectMissing {
			return h.errResp(400, "MANIFEST_BLOB_UNKNOWN", "references missing: "+strings.Join(ev.MissingRefs, ","))
		}
		rp.Manifests[d] = &Man{Raw: bytes.Clone(body), MT: mt}
		if !isDigest(ev.Ref) {
			rp.Tags[ev.Ref] = d
		}
		ev.Applied = true
		ev.Note = d
		resp := newResp(201)
		resp.hdr.Set("Location", "/v2/"+ev.Repo+"/manifests/"+d)
		resp.hdr.Set("Docker-Content-Digest", d)
		if pm.Subject != nil && pm.Subject.Digest != "" && h.Cfg.ReferrersAPI {
			resp.hdr.Set("OCI-Subject", pm.Subject.Digest)
		}
		return resp
	case "DELETE":
		if rp == nil {
			return h.errResp(404, "NAME_UNKNOWN", "repository not found")
		}
		if !isDigest(ev.Ref) {
			if !h.Cfg.TagDeleteAPI {
				return h.errResp(400, "UNSUPPORTED", "tag deletion not supported")
			}
			if _, ok := rp.Tags[ev.Ref]; !ok {
				return h.errResp(404, "MANIFEST_UNKNOWN", "tag not found")
			}
			delete(rp.Tags, ev.Ref)
			ev.Applied = true
			return newResp(202)
		}
		if _, ok := rp.Manifests[ev.Ref]; !ok {
			return h.errResp(404, "MANIFEST_UNKNOWN", "manifest not found")
		}
		delete(rp.Manifests, ev.Ref)
		for t, d := range rp.Tags {
			if d == ev.Ref {
				delete(rp.Tags, t)
			}
		}
		ev.Applied = true
		return newResp(202)
	}
	return h.errResp(405, "UNSUPPORTED", "method")
}

func (h *Host) blob(ev *Event, r *http.Request) *response {
	rp := h.Repos[ev.Repo]
	if rp == nil {
		return h.errResp(404, "NAME_UNKNOWN", "repository not found")
	}
	b, ok := rp.Blobs[ev.Ref]
	if !ok && h.Cfg.ManifestsAsBlobs && (ev.Method == "GET" || ev.Method == "HEAD") {
		// one content-addressed store behind both endpoints (as distribution and olareg have): the blob
		// endpoint also answers for the digest of a stored manifest
		if m := rp.Manifests[ev.Ref]; m != nil {
			b, ok = m.Raw, true
		}
	}
	if !ok {
		return h.errResp(404, "BLOB_UNKNOWN", "blob not found")
	}
	switch ev.Method {
	case "DELETE":
		delete(rp.Blobs, ev.Ref)
		ev.Applied = true
		return newResp(202)
	case "GET", "HEAD":
		if h.Cfg.BlobRedirect != "" && ev.Method == "GET" {
			resp := newResp(307)
			resp.hdr.Set("Location", h.Cfg.BlobRedirect+"/v2/"+ev.Repo+"/blobs/"+ev.Ref)
			return resp
		}
		resp := newResp(200)
		resp.hdr.Set("Content-Type", "application/octet-stream")
		switch h.Cfg.BlobDigestHdr {
		case "none":
		case "actual":
			alg, _, _ := la.SplitDigest(ev.Ref)
			if alg == "" {
				alg = "sha256"
			}
			resp.hdr.Set("Docker-Content-Digest", la.Digest(alg, b))
		default:
			resp.hdr.Set("Docker-Content-Digest", ev.Ref)
		}
		resp.body = b
		if rg := r.Header.Get("Range"); rg != "" && ev.Method == "GET" {
			a, z, ok := parseRange(rg, int64(len(b)))
			switch {
			case !ok:
				return h.errResp(416, "RANGE_INVALID", "bad range")
			case h.Cfg.RangeMode == "ignore":
				// full body, 200
			case h.Cfg.RangeMode == "wrongoffset":
				if a > 0 {
					a--
				}
				resp.status = 206
				resp.body = b[a : z+1]
				resp.hdr.Set("Content-Range", fmt.Sprintf("bytes %d-%d/%d", a, z, len(b)))
			case h.Cfg.RangeMode == "wrongbytes":
				resp.status = 206
				wb := bytes.Clone(b[a : z+1])
				if len(wb) > 0 {
					wb[0] ^= 0x5a
				}
				resp.body = wb
				resp.hdr.Set("Content-Range", fmt.Sprintf("bytes %d-%d/%d", a, z, len(b)))
			case h.Cfg.RangeMode == "nocr":
				resp.status = 206
				resp.body = b[a : z+1]
			default:
				resp.status = 206
				resp.body = b[a : z+1]
				resp.hdr.Set("Content-Range", fmt.Sprintf("bytes %d-%d/%d", a, z, len(b)))
			}
		}
		switch h.Cfg.BlobCL {
		case "wrong":
			resp.wrongCL = 1
		case "none":
			resp.noCL = true
		}
		return resp
	}
	return h.errResp(405, "UNSUPPORTED", "method")
}

func parseRange(s string, total int64) (a, z int64, ok bool) {
	s = strings.TrimPrefix(s, "bytes=")
	parts := strings.SplitN(s, "-", 2)
	if len(parts) != 2 {
		return 0, 0, false
	}
	a, err := strconv.ParseInt(parts[0], 10, 64)
	if err != nil {
		return 0, 0, false
	}
	z = total - 1
	if parts[1] != "" {
		if v, err := strconv.ParseInt(parts[1], 10, 64); err == nil && v < z {
			z = v
		}
	}
	if a < 0 || a > z || a >= total {
		return 0, 0, false
	}
	return a, z, true
}

// ReferrerDescs computes the referrers response content for a subject from raw state.
func (rp *Repo) ReferrerDescs(subject string) []la.Desc {
	var out []la.Desc
	for d, m := range rp.Manifests {
		pm, err := la.Parse(m.Raw, m.MT)
		if err != nil || pm.Subject == nil || pm.Subject.Digest != subject {
			continue
		}
		at := pm.ArtifactType
		if at == "" && pm.Config != nil {
			at = pm.Config.MediaType
		}
		out = append(out, la.Desc{MediaType: m.MT, Digest: d, Size: int64(len(m.Raw)), ArtifactType: at, Annotations: pm.Annotations})
	}
	sort.Slice(out, func(i, j int) bool { return out[i].Digest < out[j].Digest })
	return out
}

func (h *Host) referrers(ev *Event, r *http.Request) *response {
	if !h.Cfg.ReferrersAPI {
		return h.errResp(404, "NOT_FOUND", "referrers API not implemented")
	}
	if ev.Method != "GET" {
		return h.errResp(405, "UNSUPPORTED", "method")
	}
	rp := h.Repos[ev.Repo]
	var descs []la.Desc
	if rp != nil {
		descs = rp.ReferrerDescs(ev.Ref)
	}
	resp := newResp(200)
	if at := r.URL.Query().Get("artifactType"); at != "" {
		var f []la.Desc
		for _, d := range descs {
			if d.ArtifactType == at {
				f = append(f, d)
			}
		}
		descs = f
		resp.hdr.Set("OCI-Filters-Applied", "artifactType")
	}
	start := 0
	if s := r.URL.Query().Get("verifpage"); s != "" {
		start, _ = strconv.Atoi(s)
	}
	if start > len(descs) {
		start = len(descs)
	}
	end := len(descs)
	if h.Cfg.ReferrersPage > 0 && start+h.Cfg.ReferrersPage < end {
		end = start + h.Cfg.ReferrersPage
		q := r.URL.Query()
		q.Set("verifpage", strconv.Itoa(end))
		resp.hdr.Set("Link", fmt.Sprintf("</v2/%s/referrers/%s?%s>; rel=\"next\"", ev.Repo, ev.Ref, q.Encode()))
	}
	descs = descs[start:end]
	if descs == nil {
		descs = []la.Desc{}
	}
	resp.hdr.Set("Content-Type", la.MTOCIIndex)
	resp.body, _ = json.Marshal(map[string]any{"schemaVersion": 2, "mediaType": la.MTOCIIndex, "manifests": descs})
	return resp
}

func (h *Host) location(ev *Event, id string, u *upload) string {
	u.n++
	base := "/v2/" + u.repo + "/blobs/uploads/" + id
	switch h.Cfg.Relocate {
	case "absolute":
		return h.Srv.URL + base
	case "relative":
		if ev.Kind == "upload-start" {
			return id
		}
		return id
	case "query":
		u.state = strconv.Itoa(u.n)
		return base + "?state=" + u.state + "&x=a%2Fb"
	case "newpath":
		u.state = strconv.Itoa(u.n)
		return base + "/" + u.state
	case "deeper-relative":
		// the session moves into a sub-directory once, from then on the Location is relative to the request
		// that is being answered (RFC 3986 resolution against that request's URL, not against the first URL)
		if ev.Kind == "upload-start" {
			u.state = ""
			return base
		}
		u.state = "part/" + strconv.Itoa(u.n)
		if strings.HasPrefix(strings.TrimPrefix(ev.Path, base), "/part/") {
			return strconv.Itoa(u.n)
		}
		return base + "/" + u.state
	}
	return base
}

func (h *Host) upload(ev *Event, r *http.Request, body []byte) *response {
	q := r.URL.Query()
	if ev.Kind == "upload-start" {
		rp := h.Repo(ev.Repo)
		if m := q.Get("mount"); m != "" {
			from := q.Get("from")
			var src []byte
			found := false
			if from != "" {
				if fr := h.Repos[from]; fr != nil {
					src, found = fr.Blobs[m]
				}
			} else if h.Cfg.AnonMount {
				for _, fr := range h.Repos {
					if b, ok := fr.Blobs[m]; ok {
						src, found = b, true
						break
					}
				}
			}
			if _, have := rp.Blobs[m]; have && from == "" {
				// blob already present: a registry may answer an anonymous mount with 201
				src, found = rp.Blobs[m], h.Cfg.AnonMount
			}
			mode := h.Cfg.Mount
			if mode == "mixed" {
				// a registry that decides per blob (quota, storage class, access to the source): declines some, grants others
				if MixedMountGrants(m) {
					mode = "grant"
				} else {
					mode = "decline"
				}
			}
			if found && (mode == "" || mode == "grant") {
				rp.Blobs[m] = src
				ev.Applied = true
				ev.Note = "mounted " + m
				resp := newResp(201)
				resp.hdr.Set("Location", "/v2/"+ev.Repo+"/blobs/"+m)
				resp.hdr.Set("Docker-Content-Digest", m)
				return resp
			}
			if mode == "refuse" {
				return h.errResp(405, "UNSUPPORTED", "mount refused")
			}
		}
		h.upSeq++
		id := fmt.Sprintf("u%d-%s", h.upSeq, shaHex([]byte(ev.Repo + strconv.Itoa(h.upSeq)))[:8])
		u := &upload{repo: ev.Repo}
		h.uploads[id] = u
		ev.Note = id
		resp := newResp(202)
		resp.hdr.Set("Location", h.location(ev, id, u))
		resp.hdr.Set("Docker-Upload-UUID", id)
		resp.hdr.Set("Range", h.emptyRange())
		if h.Cfg.ChunkMin > 0 {
			resp.hdr.Set("OCI-Chunk-Min-Length", strconv.FormatInt(h.Cfg.ChunkMin, 10))
		}
		return resp
	}
	id := ev.Ref
	tail := ""
	if i := strings.IndexByte(id, '/'); i >= 0 {
		id, tail = id[:i], id[i+1:]
	}
	u := h.uploads[id]
	if u == nil || u.repo != ev.Repo {
		return h.errResp(404, "BLOB_UPLOAD_UNKNOWN", "upload session not found")
	}
	ev.Note = id
	switch h.Cfg.Relocate {
	case "query":
		if q.Get("state") != u.state || q.Get("x") != "a/b" {
			h.W.Anomalies = append(h.W.Anomalies, "upload request lost or mangled the query string of its Location: "+r.URL.String())
			return h.errResp(400, "BLOB_UPLOAD_INVALID", "stale or missing upload state in query")
		}
	case "newpath", "deeper-relative":
		if tail != u.state {
			h.W.Anomalies = append(h.W.Anomalies, "upload request used a stale Location: "+r.URL.String())
			return h.errResp(404, "BLOB_UPLOAD_UNKNOWN", "stale upload location")
		}
	}
	rangeHdr := func() string {
		if len(u.buf) == 0 {
			return h.emptyRange()
		}
		return fmt.Sprintf("0-%d", len(u.buf)-1)
	}
	switch ev.Kind {
	case "upload-get":
		resp := newResp(204)
		resp.hdr.Set("Location", h.location(ev, id, u))
		resp.hdr.Set("Range", rangeHdr())
		resp.hdr.Set("Docker-Upload-UUID", id)
		return resp
	case "upload-del":
		delete(h.uploads, id)
		return newResp(202)
	case "upload-patch":
		idx := u.patch
		u.patch++
		if cl := r.Header.Get("Content-Length"); cl != "" {
			if v, _ := strconv.Atoi(cl); v != len(body) {
				return h.errResp(400, "SIZE_INVALID", "content-length does not match body")
			}
		}
		if cr := r.Header.Get("Content-Range"); cr != "" {
			a, z, ok := parseContentRange(cr)
			if !ok || z-a+1 != int64(len(body)) {
				return h.errResp(400, "RANGE_INVALID", "content-range does not match body: "+cr)
			}
			if a != int64(len(u.buf)) {
				resp := h.errResp(416, "RANGE_INVALID", fmt.Sprintf("chunk out of order: have %d, got start %d", len(u.buf), a))
				resp.hdr.Set("Location", h.location(ev, id, u))
				resp.hdr.Set("Range", rangeHdr())
				return resp
			}
		}
		if h.Cfg.EnforceChunkMin && u.small {
			return h.errResp(400, "BLOB_UPLOAD_INVALID", fmt.Sprintf("an earlier chunk was below the minimum chunk size %d and was not the last one", h.Cfg.ChunkMin))
		}
		if h.Cfg.ChunkMin > 0 && int64(len(body)) < h.Cfg.ChunkMin {
			// only the final chunk may be short; whether this one is final is known when more data arrives
			ev.Note += " short-chunk"
			u.small = true
		}
		accept := len(body)
		if idx < len(h.Cfg.AckPlan) && h.Cfg.AckPlan[idx] >= 0 && h.Cfg.AckPlan[idx] < accept {
			accept = h.Cfg.AckPlan[idx]
		}
		if h.Cfg.MaxAccept > 0 && accept > h.Cfg.MaxAccept {
			accept = h.Cfg.MaxAccept
		}
		u.buf = append(u.buf, body[:accept]...)
		ev.Applied = accept > 0
		if accept < len(body) && h.Cfg.AckStyle == "416" {
			resp := h.errResp(416, "RANGE_INVALID", "partial chunk accepted")
			resp.hdr.Set("Location", h.location(ev, id, u))
			resp.hdr.Set("Range", rangeHdr())
			return resp
		}
		st := 202
		if h.Cfg.Early201 {
			st = 201
		}
		resp := newResp(st)
		resp.hdr.Set("Location", h.location(ev, id, u))
		resp.hdr.Set("Range", rangeHdr())
		resp.hdr.Set("Docker-Upload-UUID", id)
		return resp
	case "upload-put":
		dg := q.Get("digest")
		if dg == "" {
			return h.errResp(400, "DIGEST_INVALID", "digest parameter missing")
		}
		if h.Cfg.EnforceChunkMin && u.small && len(body) > 0 {
			return h.errResp(400, "BLOB_UPLOAD_INVALID", "an earlier chunk was below the minimum chunk size")
		}
		if k := h.Cfg.MonoPutKeep; k > 0 && len(body) > 1 && len(u.buf) == 0 && !u.kept && r.Header.Get("Content-Range") == "" {
			// the storage backend fails part-way through a single-request upload: what had arrived stays in the session
			if k >= len(body) {
				k = len(body) - 1
			}
			u.buf = append(u.buf, body[:k]...)
			u.kept = true
			ev.Applied = true
			ev.Fault = fmt.Sprintf("mono-put-kept:%d", k)
			return h.errResp(500, "UNKNOWN", "backend failed after part of the body was stored")
		}
		if len(body) > 0 && len(u.buf) == 0 && h.Cfg.RefuseMonoPut {
			return h.errResp(400, "UNSUPPORTED", "monolithic put refused")
		}
		if cr := r.Header.Get("Content-Range"); cr != "" && len(body) > 0 {
			a, _, ok := parseContentRange(cr)
			if !ok || a != int64(len(u.buf)) {
				resp := h.errResp(416, "RANGE_INVALID", "chunk out of order")
				resp.hdr.Set("Location", h.location(ev, id, u))
				resp.hdr.Set("Range", rangeHdr())
				return resp
			}
		}
		all := append(bytes.Clone(u.buf), body...)
		if !la.Matches(dg, all) {
			return h.errResp(400, "DIGEST_INVALID", fmt.Sprintf("assembled %d bytes do not hash to %s", len(all), dg))
		}
		h.Repo(ev.Repo).Blobs[dg] = all
		delete(h.uploads, id)
		ev.Applied = true
		ev.Note += " committed " + dg
		resp := newResp(201)
		resp.hdr.Set("Location", "/v2/"+ev.Repo+"/blobs/"+dg)
		resp.hdr.Set("Docker-Content-Digest", dg)
		return resp
	}
	return h.errResp(405, "UNSUPPORTED", "method")
}

func parseContentRange(s string) (a, z int64, ok bool) {
	s = strings.TrimPrefix(s, "bytes ")
	if i := strings.IndexByte(s, '/'); i >= 0 {
		s = s[:i]
	}
	parts := strings.SplitN(s, "-", 2)
	if len(parts) != 2 {
		return 0, 0, false
	}
	a, e1 := strconv.ParseInt(parts[0], 10, 64)
	z, e2 := strconv.ParseInt(parts[1], 10, 64)
	return a, z, e1 == nil && e2 == nil && z >= a-1
}

// -----------------------------------------------------------------------------------
// direct population of raw state

// PutBlob stores a blob directly and returns its digest.
func (h *Host) PutBlob(repo, alg string, b []byte) string {
	h.W.mu.Lock()
	defer h.W.mu.Unlock()
	d := la.Digest(alg, b)
	h.Repo(repo).Blobs[d] = b
	return d
}

// PutManifest stores a manifest directly (optionally tagging it) and returns its digest.
func (h *Host) PutManifest(repo, alg, mt string, raw []byte, tag string) string {
	h.W.mu.Lock()
	defer h.W.mu.Unlock()
	d := ManifestDigest(alg, mt, raw)
	rp := h.Repo(repo)
	rp.Manifests[d] = &Man{Raw: raw, MT: mt}
	if tag != "" {
		rp.Tags[tag] = d
	}
	return d
}

// SetTag points a tag at a digest directly.
func (h *Host) SetTag(repo, tag, d string) {
	h.W.mu.Lock()
	defer h.W.mu.Unlock()
	h.Repo(repo).Tags[tag] = d
}
