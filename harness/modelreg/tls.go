package modelreg

import (
	"encoding/pem"
	"net"
	"net/http/httptest"
	"sync"
)

// sniffListener records clear text that arrives where a TLS ClientHello is expected.
type sniffListener struct {
	net.Listener
	h *Host
}

type sniffConn struct {
	net.Conn
	h     *Host
	plain bool
	first bool
}

func (l *sniffListener) Accept() (net.Conn, error) {
	c, err := l.Listener.Accept()
	if err != nil {
		return c, err
	}
	return &sniffConn{Conn: c, h: l.h, first: true}, nil
}

func (c *sniffConn) Read(b []byte) (int, error) {
	n, err := c.Conn.Read(b)
	if n > 0 {
		if c.first {
			c.first = false
			c.plain = b[0] != 0x16 // not a TLS handshake record
		}
		if c.plain {
			c.h.plainMu.Lock()
			if len(c.h.Plaintext) < 1<<16 {
				c.h.Plaintext = append(c.h.Plaintext, b[:n]...)
			}
			c.h.plainMu.Unlock()
		}
	}
	return n, err
}

type plainState struct {
	plainMu   sync.Mutex
	Plaintext []byte // clear-text bytes received on the TLS listener
}

// PlaintextSeen returns a copy of the clear text received on a TLS listener.
func (h *Host) PlaintextSeen() []byte {
	h.plainMu.Lock()
	defer h.plainMu.Unlock()
	return append([]byte(nil), h.Plaintext...)
}

// NewSniffTLSHost starts a TLS model host behind a sniffing listener.
func (w *World) NewSniffTLSHost(name string) *Host {
	h := &Host{Name: name, W: w, Repos: map[string]*Repo{}, uploads: map[string]*upload{}, TLS: true}
	srv := httptest.NewUnstartedServer(h)
	srv.Listener = &sniffListener{Listener: srv.Listener, h: h}
	srv.StartTLS()
	h.Srv = srv
	w.mu.Lock()
	w.Hosts = append(w.Hosts, h)
	w.mu.Unlock()
	return h
}

// CertPEM returns the server certificate of a TLS host.
func (h *Host) CertPEM() string {
	c := h.Srv.Certificate()
	if c == nil {
		return ""
	}
	return string(pem.EncodeToMemory(&pem.Block{Type: "CERTIFICATE", Bytes: c.Raw}))
}

// NewHostOn starts a model host on a specific loopback address (distinct host names for
// clients that treat same-host redirects specially). tls: "" plain, otherwise TLS behind the sniffer.
func (w *World) NewHostOn(name, ip string, tls bool) *Host {
	h := &Host{Name: name, W: w, Repos: map[string]*Repo{}, uploads: map[string]*upload{}, TLS: tls}
	srv := httptest.NewUnstartedServer(h)
	if l, err := net.Listen("tcp", ip+":0"); err == nil {
		_ = srv.Listener.Close()
		srv.Listener = l
	}
	if tls {
		srv.Listener = &sniffListener{Listener: srv.Listener, h: h}
		srv.StartTLS()
	} else {
		srv.Start()
	}
	h.Srv = srv
	w.mu.Lock()
	w.Hosts = append(w.Hosts, h)
	w.mu.Unlock()
	return h
}
