// Package rcx builds regclient clients wired to model hosts.
package rcx

import (
	"strings"
	"time"

	"github.com/regclient/regclient"
	"github.com/regclient/regclient/config"
	"github.com/regclient/regclient/scheme/reg"
	"github.com/regclient/regclient/types/ref"

	"verif/modelreg"
)

// HostCfg returns the client-side configuration for a plain-HTTP model host.
func HostCfg(h *modelreg.Host) config.Host {
	c := *config.HostNewName(h.Addr())
	c.TLS = config.TLSDisabled
	c.ReqConcurrent = 8
	return c
}

// Opts for New.
type Opts struct {
	RetryLimit int
	DelayInit  time.Duration
	DelayMax   time.Duration
	RegOpts    []reg.Opts
	Mutate     func(name string, c *config.Host)
	Extra      []regclient.Opt
}

// New returns a client that knows every given host (fast retry delays by default).
func New(hosts []*modelreg.Host, o Opts) *regclient.RegClient {
	var cfgs []config.Host
	for _, h := range hosts {
		c := HostCfg(h)
		if o.Mutate != nil {
			o.Mutate(h.Name, &c)
		}
		cfgs = append(cfgs, c)
	}
	if o.DelayInit == 0 {
		o.DelayInit = time.Millisecond
	}
	if o.DelayMax == 0 {
		o.DelayMax = 4 * time.Millisecond
	}
	ro := []reg.Opts{reg.WithDelay(o.DelayInit, o.DelayMax)}
	if o.RetryLimit > 0 {
		ro = append(ro, reg.WithRetryLimit(o.RetryLimit))
	}
	ro = append(ro, o.RegOpts...)
	opts := []regclient.Opt{regclient.WithConfigHost(cfgs...), regclient.WithRegOpts(ro...)}
	opts = append(opts, o.Extra...)
	return regclient.New(opts...)
}

// Ref builds a reference on a model host. tagOrDigest may be "", a tag or a digest.
func Ref(h *modelreg.Host, repo, tagOrDigest string) ref.Ref {
	s := h.Addr() + "/" + repo
	if strings.Contains(tagOrDigest, ":") {
		s += "@" + tagOrDigest
	} else if tagOrDigest != "" {
		s += ":" + tagOrDigest
	}
	r, err := ref.New(s)
	if err != nil {
		panic("rcx.Ref: " + s + ": " + err.Error())
	}
	return r
}

// DirRef builds an ocidir reference.
func DirRef(dir, tagOrDigest string) ref.Ref {
	s := "ocidir://" + dir
	if strings.Contains(tagOrDigest, ":") {
		s += "@" + tagOrDigest
	} else if tagOrDigest != "" {
		s += ":" + tagOrDigest
	}
	r, err := ref.New(s)
	if err != nil {
		panic("rcx.DirRef: " + s + ": " + err.Error())
	}
	return r
}
