package main

import (
	"bytes"
	"context"
	"fmt"
	"io"
	"net/http"
	"sync"
	"time"

	"github.com/opencontainers/go-digest"
	"github.com/regclient/regclient/config"
	"github.com/regclient/regclient/types/descriptor"

	"verif/ev"
	"verif/gen"
	la "verif/layoutaudit"
	"verif/modelreg"
	"verif/rcx"
)

type onlyReader struct{ r io.Reader }

func (o onlyReader) Read(p []byte) (int, error) { return o.r.Read(p) }

// slotConservation (part 3): operations that end in every way an operation can end (success, failing
// status until the retries run out, connection reset, body abandoned half-way, context cancelled while
// the server stalls, a push whose body cannot be replayed) must each give their slot back. After a
// seeded sequence of them through one client, the host's throttle of size k must still admit k requests
// at once: the server holds probe requests until k of them are running. A lost slot shows as the k-th
// probe never arriving.
func slotConservation(run *ev.Run) {
	n := ev.Scale(24, 240)
	for i := 0; i < n; i++ {
		rng := ev.Rand(fmt.Sprintf("c17/slots/%d", i))
		k := 1 + i%3
		w := modelreg.NewWorld()
		h := w.NewHost("reg")
		g := gen.Random(rng, "sha256", gen.Shape{Family: "oci", Kind: "image", Layers: 2, MaxBlob: 4000}, "v1")
		g.ToHost(h, "repo", nil, true)
		var layer *gen.Node
		for _, nd := range g.Nodes {
			if nd.Kind == "layer" && (layer == nil || len(nd.Content) > len(layer.Content)) {
				layer = nd
			}
		}
		ld := descriptor.Descriptor{Digest: digest.Digest(layer.Digest), Size: int64(len(layer.Content))}
		var mu sync.Mutex
		mode := ""       // fault for the next requests: "", "500", "reset", "stall", "500-once-on-put"
		probing := false // probe phase: hold manifest HEADs until k are running
		running, maxRunning := 0, 0
		release := make(chan struct{})
		var releaseOnce sync.Once
		putFailed := false
		stalled := make(chan struct{}, 16)
		h.Intercept = func(e *modelreg.Event, rw http.ResponseWriter, r *http.Request) bool {
			mu.Lock()
			m, p := mode, probing
			if p && e.Kind == "manifest" && e.Method == "HEAD" {
				running++
				if running > maxRunning {
					maxRunning = running
				}
				if running >= k {
					releaseOnce.Do(func() { close(release) })
				}
				mu.Unlock()
				select {
				case <-release:
				case <-r.Context().Done():
				}
				mu.Lock()
				running--
				mu.Unlock()
				return false
			}
			if m == "500-once-on-put" {
				if e.Kind != "upload-put" || putFailed {
					mu.Unlock()
					return false
				}
				putFailed = true
				m = "500"
			}
			mu.Unlock()
			if m == "cut-once" {
				if e.Kind == "blob" && e.Method == "GET" && e.Range == "" {
					return (&modelreg.Plan{Faults: []*modelreg.Fault{{Action: fmt.Sprintf("cut:%d", len(layer.Content)/2)}}}).InterceptOn(h, e, rw, r)
				}
				return false
			}
			switch m {
			case "500":
				rw.WriteHeader(500)
				return true
			case "reset":
				modelreg.DropConn(rw)
				return true
			case "stall":
				select {
				case stalled <- struct{}{}:
				default:
				}
				<-r.Context().Done()
				modelreg.DropConn(rw)
				return true
			}
			return false
		}
		rc := rcx.New([]*modelreg.Host{h}, rcx.Opts{RetryLimit: 2, Mutate: func(name string, c *config.Host) { c.ReqConcurrent = int64(k) }})
		ref := rcx.Ref(h, "repo", "v1")
		set := func(m string) { mu.Lock(); mode = m; putFailed = false; mu.Unlock() }
		var hist []string
		nops := 4 + rng.Intn(9)
		for s := 0; s < nops; s++ {
			ctx, cancel := context.WithTimeout(context.Background(), 20*time.Second)
			op := []string{"head-ok", "get-500", "head-reset", "blob-abandoned", "blob-cancelled", "push-unreplayable-500", "push-unreplayable-reset", "head-404", "blob-read-all", "blob-cut-resume"}[rng.Intn(10)]
			var err error
			switch op {
			case "head-ok":
				set("")
				_, err = rc.ManifestHead(ctx, ref)
			case "get-500":
				set("500")
				_, err = rc.ManifestGet(ctx, ref)
			case "head-reset":
				set("reset")
				_, err = rc.ManifestHead(ctx, ref)
			case "head-404":
				set("")
				_, err = rc.ManifestHead(ctx, rcx.Ref(h, "repo", "absent"))
			case "blob-read-all":
				set("")
				var rd io.ReadCloser
				if rd, err = rc.BlobGet(ctx, ref, ld); err == nil {
					_, _ = io.Copy(io.Discard, rd)
					err = rd.Close()
				}
			case "blob-cut-resume":
				// the body is cut once mid-way; the client resumes with a range request, for which it needs a slot
				// of the same throttle - while it is the holder of one
				set("cut-once")
				var rd io.ReadCloser
				if rd, err = rc.BlobGet(ctx, ref, ld); err == nil {
					_, err = io.Copy(io.Discard, rd)
					_ = rd.Close()
				}
				if err != nil && ctx.Err() != nil {
					run.Violation("api/resume-waits-for-own-slot", fmt.Sprintf("a download whose body was cut once did not finish within 20 s with a throttle of %d and nothing else running: the resume waits for a slot while the response it replaces still holds one", k), map[string]any{"limit": k, "history": append(hist, op), "err": fmt.Sprint(err)})
				}
				if err == nil {
					run.Count("resumed_downloads_completed", 1)
				}
			case "blob-abandoned":
				set("")
				var rd io.ReadCloser
				if rd, err = rc.BlobGet(ctx, ref, ld); err == nil {
					_, _ = rd.Read(make([]byte, 10))
					err = rd.Close()
				}
			case "blob-cancelled":
				set("stall")
				c2, cancel2 := context.WithCancel(ctx)
				go func() {
					// cancel once the request is held by the server
					select {
					case <-stalled:
					case <-c2.Done():
					}
					cancel2()
				}()
				_, err = rc.BlobGet(c2, ref, ld)
				cancel2()
			case "push-unreplayable-500", "push-unreplayable-reset":
				// the first upload request fails with a retryable fault, the body is not seekable: the client must give up
				if op == "push-unreplayable-500" {
					set("500-once-on-put")
				} else {
					set("reset")
				}
				body := make([]byte, 500+rng.Intn(3000))
				rng.Read(body)
				pd := descriptor.Descriptor{Digest: digest.Digest(la.Digest("sha256", body)), Size: int64(len(body))}
				_, err = rc.BlobPut(ctx, rcx.Ref(h, "repo", ""), pd, onlyReader{bytes.NewReader(body)})
			}
			cancel()
			res := "ok"
			if err != nil {
				res = "error"
				// successes in between keep the client from writing the host off as failing, which would keep
				// later operations from being attempted at all (and so from showing what the failed ones left behind)
				set("")
				for j := 0; j < 7; j++ {
					c3, cancel3 := context.WithTimeout(context.Background(), 5*time.Second)
					_, herr := rc.ManifestHead(c3, ref)
					stuck := herr != nil && c3.Err() != nil
					cancel3()
					if stuck {
						break // the probe below decides
					}
				}
			}
			hist = append(hist, op+" -> "+res)
			run.Count("slot_ops_"+res, 1)
		}
		set("")
		w.WaitIdle()
		// probe: k simultaneous requests must all be admitted
		probe := func(wait time.Duration) int {
			mu.Lock()
			probing, running, maxRunning = true, 0, 0
			release = make(chan struct{})
			releaseOnce = sync.Once{}
			mu.Unlock()
			ctx, cancel := context.WithTimeout(context.Background(), wait)
			var wg sync.WaitGroup
			for j := 0; j < k; j++ {
				wg.Add(1)
				go func() {
					defer wg.Done()
					_, _ = rc.ManifestHead(ctx, ref)
				}()
			}
			wg.Wait()
			cancel()
			w.WaitIdle()
			mu.Lock()
			defer mu.Unlock()
			probing = false
			return maxRunning
		}
		run.Eval(1)
		got := probe(10 * time.Second)
		if got < k {
			// absence can only be decided by waiting: ask once more, with a longer wait, before calling it lost
			got = probe(30 * time.Second)
		}
		run.Distinct(fmt.Sprintf("slots/limit%d/%d-ops", k, nops/4))
		if got < k {
			run.Violation("api/slot-lost", fmt.Sprintf("after %d finished operations a throttle of %d admitted only %d request(s) at once: a slot was never given back", nops, k, got), map[string]any{"limit": k, "history": hist, "admitted": got})
		} else {
			run.Count("slot_probes_full", 1)
		}
		if i < 2 {
			run.Sample(map[string]any{"limit": k, "history": hist, "admitted_at_once": got})
		}
		w.Close()
	}
}
