package main

import (
	"bytes"
	"context"
	"fmt"
	"io"
	"os"
	"sync"
	"sync/atomic"
	"time"

	"github.com/opencontainers/go-digest"
	"github.com/regclient/regclient/scheme/ocidir"
	"github.com/regclient/regclient/types/descriptor"
	"github.com/regclient/regclient/types/ref"

	"verif/ev"
	"verif/gen"
)

// gateReader hands out its content only once released; while a BlobPut is reading it, that BlobPut holds a
// slot of the layout's write throttle. The monitor counts the readers that are inside Read at the same time.
type gateReader struct {
	r       io.Reader
	release chan struct{}
	in      *atomic.Int32
	max     *atomic.Int32
	once    sync.Once
}

func (g *gateReader) Read(p []byte) (int, error) {
	g.once.Do(func() {
		n := g.in.Add(1)
		for {
			m := g.max.Load()
			if n <= m || g.max.CompareAndSwap(m, n) {
				break
			}
		}
		<-g.release
		g.in.Add(-1)
	})
	return g.r.Read(p)
}

// layoutThrottle (part 4): an OCI layout limits concurrent writes with the same queue type, one queue per
// layout directory. The limit has to hold across a Close of the layout (which may run a collection): k writers
// are held inside their upload, the layout is closed, k more writers are started - they must wait.
func layoutThrottle(run *ev.Run) {
	n := ev.Scale(12, 120)
	for i := 0; i < n; i++ {
		rng := ev.Rand(fmt.Sprintf("c17/layout/%d", i))
		k := 1 + i%3
		dir, err := os.MkdirTemp(os.Getenv("VERIF_BIN"), "c17lay")
		if err != nil {
			run.Inconclusive("cannot create a scratch layout: " + err.Error())
			return
		}
		_ = gen.WriteLayoutIndex(dir, nil)
		o := ocidir.New(ocidir.WithThrottle(k))
		r, _ := ref.New("ocidir://" + dir)
		ctx, cancel := context.WithTimeout(context.Background(), 60*time.Second)
		put := func(b []byte, rd io.Reader) error {
			_, err := o.BlobPut(ctx, r, descriptor.Descriptor{Digest: digest.FromBytes(b), Size: int64(len(b))}, rd)
			return err
		}
		// one completed write: the layout counts as modified
		first := []byte(fmt.Sprintf("first-%d", i))
		if err := put(first, bytes.NewReader(first)); err != nil {
			run.Inconclusive("layout write failed: " + err.Error())
			cancel()
			_ = os.RemoveAll(dir)
			continue
		}
		var in, max atomic.Int32
		release := make(chan struct{})
		var wg sync.WaitGroup
		errs := make(chan error, 4*k+4)
		start := func(cnt int) {
			for j := 0; j < cnt; j++ {
				b := make([]byte, 50+rng.Intn(200))
				rng.Read(b)
				wg.Add(1)
				go func() {
					defer wg.Done()
					errs <- put(b, &gateReader{r: bytes.NewReader(b), release: release, in: &in, max: &max})
				}()
			}
		}
		waitIn := func(want int32) bool {
			for spins := 0; spins < 20000; spins++ {
				if in.Load() >= want {
					return true
				}
				time.Sleep(time.Millisecond)
			}
			return false
		}
		start(k)
		if !waitIn(int32(k)) {
			run.Inconclusive("layout throttle scenario: the first writers never started reading")
			close(release)
			wg.Wait()
			cancel()
			_ = os.RemoveAll(dir)
			continue
		}
		// close the layout while the k writers hold the throttle, then start as many again
		cerr := o.Close(ctx, r)
		run.SetAdd("layout_close_results", fmt.Sprint(cerr))
		start(k + 1)
		// give the late writers every chance to get in (they must not): state, then a grace period
		time.Sleep(150 * time.Millisecond)
		observed := max.Load()
		close(release)
		wg.Wait()
		close(errs)
		nerr := 0
		for e := range errs {
			if e != nil {
				nerr++
			}
		}
		run.Eval(1)
		run.Count("layout_throttle_scenarios", 1)
		run.Distinct(fmt.Sprintf("layout/limit%d", k))
		if int(max.Load()) > k {
			run.Violation("layout/limit-exceeded-after-close", fmt.Sprintf("a layout configured for %d concurrent writes had %d writers inside their upload at once after the layout was closed while %d of them were running (Close returned %v)", k, max.Load(), k, cerr), map[string]any{"limit": k, "observed_before_release": observed, "observed_max": max.Load()})
		} else {
			run.Count("layout_throttle_held_across_close", 1)
			// (a collection that runs while plain BlobPuts are in flight may sweep their temporary files: those
			// writers fail, which is outside this property)
			run.Count("layout_throttle_writer_errors", nerr)
		}
		cancel()
		_ = os.RemoveAll(dir)
	}
}
