// C17 — request throttles never exceed their limit, never deadlock, never lose a slot.
// Part 1: in-package monitor of internal/pqueue (overlay test, race detector, porcupine,
// coverage counters of the cancel-vs-release hand-over). Part 2: public-API workload with
// per-host concurrency limits, the model registries count simultaneously running requests.
package main

import (
	"context"
	"fmt"
	"os"
	"os/exec"
	"path/filepath"
	"runtime"
	"strings"
	"sync"
	"time"

	"github.com/regclient/regclient/config"
	"github.com/regclient/regclient/types/descriptor"

	"github.com/opencontainers/go-digest"

	"verif/ev"
	"verif/gen"
	"verif/modelreg"
	"verif/rcx"
)

func main() {
	run := ev.Start("C17", "exploration")
	run.Rule("part 1: seeded scenarios of 2-5 goroutines x 1-3 queues (max 1-3) running finite programs of acquire / try-acquire / multi-acquire (overlapping subsets, any order, duplicates) / acquire with a context cancelled before or during the wait, default and size-aware priority, GOMAXPROCS in {1,2,4,16}; plus cancel-racing-with-release scenarios in three orders; " +
		"part 2: concurrent image copies through one client with per-host limits 1-3 against model registries that count running requests; " +
		"part 4: an OCI layout's write throttle (limit 1-3) across a Close of the layout: k writers are held inside their upload by gated streams, the layout is closed, k+1 more are started and must wait; part 3: seeded sequences of operations that end in every possible way (success, statuses until the retries run out, reset, body abandoned, cancelled while stalled, push whose body cannot be replayed) through one client with limit k, then k probe requests that the server holds until k are running; non-trivial = every scenario (each has contention by construction); distinct = scenario shape classes")
	run.Assume("the harness' holder counter is incremented after Acquire returns and decremented before release, so it under-approximates the true holder count",
		"a server-side request counts as running from arrival until just before its first response byte, which lies inside the client's slot-holding period",
		"deadlock is decided on state (every unfinished goroutine is inside an acquire call), never on elapsed time alone",
		"part 3: a lost slot is the absence of an arrival, which only waiting can show: the probe waits 10 s and, before reporting, once more 30 s")
	bin := os.Getenv("VERIF_BIN")
	repo := os.Getenv("VERIF_REPO")
	out := filepath.Join(bin, "pq.json")
	cover := filepath.Join(bin, "pq.cover")
	cmd := exec.Command(filepath.Join(bin, "internal_pqueue.test"), "-test.run", "^TestVerifC17$", "-test.timeout", "55m", "-test.coverprofile="+cover)
	cmd.Env = append(os.Environ(), "VERIF_OUT="+out)
	cmd.Dir = bin
	b, err := cmd.CombinedOutput()
	if err != nil {
		run.Inconclusive("pqueue overlay test did not complete: " + err.Error() + ": " + tail(string(b), 800))
	}
	x := run.Merge(out, "pqueue")
	if x != nil {
		// coverage of the branches that cannot be told apart from outside
		src := filepath.Join(repo, "internal/pqueue/pqueue.go")
		probes := map[string]string{
			"cover_cancel_handover_block": "q.release(&e)",
			"cover_admitted_after_wait":   "case <-w:",
			"cover_cancel_dequeue_block":  "return nil, ctx.Err()",
			"cover_multi_retry_block":     "lockI = i",
		}
		for name, needle := range probes {
			line := ev.FindLine(src, needle)
			if line == 0 {
				run.Put(name, "probe line not found in source (refactored?)")
				continue
			}
			n, found := ev.CoverCount(cover, "internal/pqueue/pqueue.go", line)
			if !found {
				run.Put(name, "no coverage block")
				continue
			}
			run.Count(name, int(n))
			if n == 0 {
				run.Inconclusive("branch never executed: " + name)
			}
		}
	}
	apiWorkload(run)
	slotConservation(run)
	layoutThrottle(run)
	for _, rep := range ev.RaceReports(filepath.Join(bin, "race")) {
		if strings.Contains(rep, "internal/pqueue") || strings.Contains(rep, "internal/reqmeta") {
			run.Violation("race/pqueue/"+firstFrame(rep), "data race involving the throttle state", rep)
		} else {
			run.Count("unattributed_race_reports", 1)
		}
	}
	os.Exit(run.Finish())
}

func firstFrame(rep string) string {
	for _, l := range strings.Split(rep, "\n") {
		l = strings.TrimSpace(l)
		if strings.Contains(l, "regclient") && strings.Contains(l, "(") && !strings.HasPrefix(l, "/") {
			return l[:strings.Index(l, "(")]
		}
	}
	return "unknown"
}

func tail(s string, n int) string {
	if len(s) > n {
		return s[len(s)-n:]
	}
	return s
}

func apiWorkload(run *ev.Run) {
	rng := ev.Rand("c17/api")
	rounds := ev.Scale(12, 120)
	for i := 0; i < rounds; i++ {
		limit := 1 + i%3
		w := modelreg.NewWorld()
		src := w.NewHost("src")
		tgt := w.NewHost("tgt")
		lat := func(e *modelreg.Event) time.Duration { return time.Duration(200+rng.Intn(1500)) * time.Microsecond }
		var lmu sync.Mutex
		src.Cfg.Latency = func(e *modelreg.Event) time.Duration { lmu.Lock(); defer lmu.Unlock(); return lat(e) }
		tgt.Cfg.Latency = src.Cfg.Latency
		tgt.Cfg.Mount = "decline"
		var graphs []*gen.Graph
		for k := 0; k < 3; k++ {
			s := gen.Shape{Family: "oci", Kind: "index", Platforms: 3, Layers: 3, Share: k == 0, MaxBlob: 300}
			g := gen.Random(rng, "sha256", s, fmt.Sprintf("t%d", k))
			g.ToHost(src, "repo", nil, true)
			graphs = append(graphs, g)
		}
		rc := rcx.New([]*modelreg.Host{src, tgt}, rcx.Opts{Mutate: func(name string, c *config.Host) { c.ReqConcurrent = int64(limit) }})
		var wg sync.WaitGroup
		errs := make(chan error, 256)
		ctx, cancel := context.WithTimeout(context.Background(), 30*time.Second)
		for k := range graphs {
			wg.Add(1)
			go func(k int) {
				defer wg.Done()
				errs <- rc.ImageCopy(ctx, rcx.Ref(src, "repo", fmt.Sprintf("t%d", k)), rcx.Ref(tgt, fmt.Sprintf("dst%d", k%2), fmt.Sprintf("t%d", k)))
			}(k)
		}
		// blob copies in both directions at once (multi-acquire over overlapping host sets in different orders)
		for k := 0; k < 3; k++ {
			wg.Add(1)
			go func(k int) {
				defer wg.Done()
				g := graphs[k]
				for _, n := range g.Nodes {
					if n.Kind != "layer" {
						continue
					}
					d := descriptor.Descriptor{Digest: digest.Digest(n.Digest), Size: int64(len(n.Content))}
					errs <- rc.BlobCopy(ctx, rcx.Ref(src, "repo", ""), rcx.Ref(tgt, "side", ""), d)
					errs <- rc.BlobCopy(ctx, rcx.Ref(tgt, "side", ""), rcx.Ref(src, "back", ""), d)
				}
			}(k)
		}
		fin := make(chan struct{})
		go func() { wg.Wait(); close(fin) }()
		select {
		case <-fin:
		case <-ctx.Done():
			run.Inconclusive(fmt.Sprintf("api workload round %d (limit %d) did not finish before the watchdog", i, limit))
			if os.Getenv("VERIF_DUMP") != "" {
				buf := make([]byte, 1<<20)
				os.Stderr.Write(buf[:runtime.Stack(buf, true)])
			}
			<-fin
		}
		cancel()
		close(errs)
		nerr := 0
		for e := range errs {
			if e != nil {
				nerr++
				run.Put("api_last_error", e.Error())
			}
		}
		run.Eval(1)
		run.Count("api_requests", int(w.Requests()))
		run.Count("api_operation_errors", nerr)
		for _, h := range []*modelreg.Host{src, tgt} {
			m := int(h.MaxInFlight.Load())
			run.Distinct(fmt.Sprintf("api/limit%d/max-in-flight%d", limit, m))
			if m > limit {
				run.Violation("api/limit-exceeded", fmt.Sprintf("host %s configured for %d concurrent requests had %d running at once", h.Name, limit, m), map[string]any{"limit": limit, "observed": m, "round": i})
			}
			if m == limit {
				run.Count("api_rounds_reaching_limit", 1)
			}
		}
		w.Close()
	}
	if run.Get("api_rounds_reaching_limit") == 0 {
		run.Inconclusive("api workload never saturated a throttle")
	}
}
