package main

import (
	"bytes"
	"context"
	"fmt"
	"io"
	"math/rand"
	"runtime"
	"strconv"
	"strings"
	"sync"
	"time"

	"github.com/opencontainers/go-digest"
	"github.com/regclient/regclient/scheme/reg"
	"github.com/regclient/regclient/types/descriptor"

	"verif/ev"
	la "verif/layoutaudit"
	"verif/modelreg"
	"verif/rcx"
)

// gid returns the id of the calling goroutine (the monitor needs to tell users of the stream apart).
func gid() int64 {
	var b [64]byte
	n := runtime.Stack(b[:], false)
	f := strings.Fields(string(b[:n]))
	if len(f) < 2 {
		return -1
	}
	id, _ := strconv.ParseInt(f[1], 10, 64)
	return id
}

// passWatch extends watch: between two rewinds (one pass over the stream) only one goroutine may read.
// A second reader within a pass is a request body that is still being sent for an abandoned attempt
// while the stream already feeds the next one; the bytes either of them gets are then undefined.
type passWatch struct {
	*watch
	pmu    sync.Mutex
	pass   int
	reader map[int]int64
	slow   time.Duration
}

func (p *passWatch) Read(b []byte) (int, error) {
	g := gid()
	p.pmu.Lock()
	if first, ok := p.reader[p.pass]; !ok {
		p.reader[p.pass] = g
	} else if first != g {
		p.note(fmt.Sprintf("Read by a second goroutine within pass %d over the stream (an abandoned request body is still being sent)", p.pass))
	}
	p.pmu.Unlock()
	p.enter("Read")
	defer p.leave()
	if p.slow > 0 {
		time.Sleep(p.slow)
	}
	return p.r.Read(b)
}

func (p *passWatch) Seek(o int64, wh int) (int64, error) {
	p.enter("Seek")
	defer p.leave()
	if o == 0 && wh == io.SeekStart {
		p.pmu.Lock()
		p.pass++
		p.pmu.Unlock()
	}
	return p.r.(io.Seeker).Seek(o, wh)
}

// earlyReplies: a conforming destination whose front end answers one body-carrying upload request
// (monolithic PUT, or a PATCH after the first chunk) with a retryable status before reading the body.
// The upload must still commit exactly the caller's bytes and must use the caller's stream sequentially.
func earlyReplies() {
	n := ev.Scale(48, 480)
	sizes := []int{40 << 10, 200 << 10, 700 << 10, 2 << 20}
	codes := []int{429, 500, 504}
	var wg sync.WaitGroup
	next := make(chan int)
	for wk := 0; wk < 8; wk++ {
		wg.Add(1)
		go func() {
			defer wg.Done()
			for i := range next {
				earlyCase(i, sizes[i%4], codes[(i/4)%3], []string{"monolithic", "chunked"}[(i/12)%2], (i/24)%2)
			}
		}()
	}
	for i := 0; i < n; i++ {
		next <- i
	}
	close(next)
	wg.Wait()
}

func earlyCase(i, size, code int, path string, later int) {
	rng := rand.New(rand.NewSource(int64(i)*104729 + ev.Seed()))
	content := make([]byte, size)
	rng.Read(content)
	dg := la.Digest("sha256", content)
	d := descriptor.Descriptor{Digest: digest.Digest(dg), Size: int64(size)}
	w := modelreg.NewWorld()
	defer w.Close()
	h := w.NewHost("dst")
	at := 1
	if path == "chunked" {
		at = 2 + later // never the first chunk: its loss leaves the upload status ambiguous (Range: 0-0)
	}
	var mu sync.Mutex
	seen, fired := 0, 0
	h.Early = func(e *modelreg.Event) int {
		if (e.Kind != "upload-put" && e.Kind != "upload-patch") || e.Header.Get("Content-Length") == "0" || e.Header.Get("Content-Length") == "" {
			return 0
		}
		mu.Lock()
		defer mu.Unlock()
		seen++
		if seen == at {
			fired++
			return code
		}
		return 0
	}
	var ro []reg.Opts
	if path == "chunked" {
		ch := int64(size / 5)
		ro = append(ro, reg.WithBlobSize(ch, ch))
	}
	rc := rcx.New([]*modelreg.Host{h}, rcx.Opts{RetryLimit: 4, RegOpts: ro})
	ws := &passWatch{watch: &watch{r: bytes.NewReader(content)}, reader: map[int]int64{}, slow: time.Duration(200+rng.Intn(1800)) * time.Microsecond}
	ctx, cancel := context.WithTimeout(context.Background(), 60*time.Second)
	defer cancel()
	var src io.Reader = ws
	raw := i%3 == 2
	if raw {
		// an in-memory reader handed over as it is: only the race detector watches this one
		src = bytes.NewReader(content)
	}
	got, err := rc.BlobPut(ctx, rcx.Ref(h, "proj/repo", ""), d, src)
	ws.returned.Store(true)
	w.WaitIdle()
	run.Eval(1)
	run.Count("early_reply_cases", 1)
	cls := fmt.Sprintf("%s/%d", path, code)
	if raw {
		run.Count("early_reply_cases_raw_bytes_reader", 1)
	}
	wit := func() map[string]any {
		var reqs []string
		for _, e := range w.Log() {
			reqs = append(reqs, fmt.Sprintf("%s %s?%s cr=%q len=%d -> %d %s", e.Method, e.Path, e.Query, e.ContentRange, e.BodyLen, e.Status, e.Fault))
		}
		ws.mu.Lock()
		defer ws.mu.Unlock()
		return map[string]any{"case": i, "size": size, "early_status": code, "path": path, "at_body_request": at, "err": fmt.Sprint(err), "requests": reqs, "stream_misuse": ws.misuse}
	}
	mu.Lock()
	f := fired
	mu.Unlock()
	if f == 0 {
		run.Count("early_reply_not_reached", 1)
		return
	}
	run.Distinct("early/" + cls + "/" + fmt.Sprint(size))
	ws.mu.Lock()
	nm := len(ws.misuse)
	first := ""
	if nm > 0 {
		first = ws.misuse[0]
	}
	ws.mu.Unlock()
	if nm > 0 {
		run.Violation("source-stream-misused/early-reply/"+cls, "after a reply that arrived before the request body was sent completely, the caller's stream was used: "+first, wit())
	}
	st := modelreg.Store{H: h, Name: "proj/repo"}
	if err != nil {
		if ctx.Err() != nil {
			run.Inconclusive("early-reply case ran into its watchdog")
			return
		}
		run.Violation("early-reply-upload-failed/"+cls, fmt.Sprintf("one %d answered before the body was read made the upload of well-formed input fail: %v", code, err), wit())
		return
	}
	b, ok := st.Blob(got.Digest.String())
	if !ok || !bytes.Equal(b, content) || got.Digest.String() != dg {
		run.Violation("early-reply-wrong-bytes/"+cls, "upload reported success but the destination does not hold the caller's bytes under the returned digest", wit())
		return
	}
	run.Count("early_reply_uploads_verified", 1)
}
