// C05 — a blob upload commits exactly the caller's bytes under their digest, or fails.
// Monitor: the destination model assembles the blob from the PATCH/PUT bodies (conforming
// mode: out-of-order chunks are refused, the digest is verified at commit); the harness
// compares the committed bytes / the layout file with its own copy of the source bytes.
package main

import (
	"bytes"
	"context"
	"errors"
	"fmt"
	"io"
	"math/rand"
	"os"
	"path/filepath"
	"runtime"
	"strings"
	"sync"
	"sync/atomic"
	"time"

	"github.com/opencontainers/go-digest"
	"github.com/regclient/regclient/config"
	"github.com/regclient/regclient/scheme/reg"
	"github.com/regclient/regclient/types/descriptor"

	"verif/ev"
	"verif/gen"
	la "verif/layoutaudit"
	"verif/modelreg"
	"verif/rcx"
)

var run *ev.Run

type Case struct {
	I              int
	Len            int
	Alg            string
	Source         string // seek noseek dribble dribble-seek
	Decl           string // none correct wrong-digest short long size-only digest-only
	Chunk          int64
	Max            int64 // host.BlobMax
	ChunkMin       int64
	Limit          int64  // reg.WithBlobLimit (0 = default)
	Via            string // how the client chunk size is configured: host (per-host setting) or client (client-wide setting)
	Enforce        bool   // the server enforces its advertised minimum on non-final chunks
	Mount          string
	Anon           bool // blob pre-exists in another repository and the registry grants anonymous mounts
	Ack            []int
	AckStyle       string
	MaxAccept      int
	MonoKeep       int
	PreHeld        bool   // (layout, wrong-digest) the layout already holds the blob the descriptor names; the stream has other bytes of the same length
	SrcFail        string // "" | unexpected-eof | other: the caller's stream fails with that error after SrcFailAt bytes
	SrcFailAt      int
	monoKeepWanted bool
	EmptyRange     string
	Early201       bool
	Relocate       string
	Refuse         bool // monolithic PUT refused
	FaultAt        int
	Fault          string
	Dir            bool // OCI layout destination
}

func (c Case) key() string {
	lenClass := "0"
	switch {
	case c.Len == 0:
	case int64(c.Len) < c.Chunk:
		lenClass = "<c"
	case int64(c.Len) == c.Chunk:
		lenClass = "=c"
	case int64(c.Len)%c.Chunk == 0:
		lenClass = "kc"
	default:
		lenClass = ">c"
	}
	return fmt.Sprintf("%s|%s|%s|%s|c%d|max%d|min%d|%s/%t|ack%d%s|ma%t|mk%t|er%s|e%t|%s|rf%t|f%s|dir%t|%s|enf%t", lenClass, c.Alg, c.Source, c.Decl, c.Chunk, sign(c.Max), sign(c.ChunkMin), c.Mount, c.Anon, len(c.Ack), c.AckStyle, c.MaxAccept > 0, c.MonoKeep > 0, c.EmptyRange, c.Early201, c.Relocate, c.Refuse, c.Fault, c.Dir, c.Via, c.Enforce)
}

func sign(v int64) int {
	switch {
	case v < 0:
		return -1
	case v > 0:
		return 1
	}
	return 0
}

type dribble struct {
	r io.Reader
}

func (d dribble) Read(p []byte) (int, error) {
	if len(p) > 1 {
		p = p[:1]
	}
	return d.r.Read(p)
}

type dribbleSeek struct {
	r *bytes.Reader
}

func (d dribbleSeek) Read(p []byte) (int, error) {
	if len(p) > 1 {
		p = p[:1]
	}
	return d.r.Read(p)
}
func (d dribbleSeek) Seek(o int64, w int) (int64, error) { return d.r.Seek(o, w) }

type noSeek struct{ r io.Reader }

// failAfter delivers n bytes of r and then fails with err (not a Seeker: a broken stream cannot be replayed).
type failAfter struct {
	r    io.Reader
	left int
	err  error
	hit  atomic.Bool // the error was handed to the reader's user
}

func (f *failAfter) Read(p []byte) (int, error) {
	if f.left <= 0 {
		f.hit.Store(true)
		return 0, f.err
	}
	if len(p) > f.left {
		p = p[:f.left]
	}
	n, err := f.r.Read(p)
	f.left -= n
	if err == io.EOF {
		f.hit.Store(true)
		return n, f.err
	}
	return n, err
}

// srcFailed is set by runCase when the failing stream really handed its error to the client (a mount may
// make the client never read the stream).
var srcFailed sync.Map // case index -> true

// watch monitors how the client uses the caller's stream: an io.Reader may not be used by two
// goroutines at once, nor after BlobPut returned. A Read that finds the stream at EOF dwells a moment
// inside the call (a slow medium), which widens the window in which a second user would overlap.
type watch struct {
	r        io.Reader
	busy     atomic.Int32
	returned atomic.Bool
	dwell    bool
	mu       sync.Mutex
	misuse   []string
}

func (w *watch) enter(op string) {
	if w.returned.Load() {
		w.note(op + " after BlobPut returned")
	}
	if w.busy.Add(1) > 1 {
		w.note(op + " while another call on the stream was in progress")
	}
}
func (w *watch) leave() { w.busy.Add(-1) }
func (w *watch) note(s string) {
	w.mu.Lock()
	w.misuse = append(w.misuse, s)
	w.mu.Unlock()
}
func (w *watch) Read(p []byte) (int, error) {
	w.enter("Read")
	defer w.leave()
	n, err := w.r.Read(p)
	if w.dwell && n == 0 && err == io.EOF {
		time.Sleep(2 * time.Millisecond)
	}
	return n, err
}

type watchSeek struct{ *watch }

func (w watchSeek) Seek(o int64, wh int) (int64, error) {
	w.enter("Seek")
	defer w.leave()
	return w.r.(io.Seeker).Seek(o, wh)
}

func (n noSeek) Read(p []byte) (int, error) { return n.r.Read(p) }

func genCase(rng *rand.Rand, i int) Case {
	chunks := []int64{1, 2, 3, 4, 7, 8, 16, 1024}
	c := Case{I: i, Alg: "sha256", Chunk: chunks[rng.Intn(len(chunks))], Max: -1}
	ch := int(c.Chunk)
	lens := []int{0, 1, ch - 1, ch, ch + 1, 2*ch - 1, 2 * ch, 2*ch + 1, 3 * ch, 3*ch + 1, 5*ch + 2}
	c.Len = lens[rng.Intn(len(lens))]
	if c.Len < 0 {
		c.Len = 0
	}
	if c.Chunk == 1024 && rng.Intn(2) == 0 {
		c.Len = rng.Intn(5000)
	}
	if rng.Intn(4) == 0 {
		c.Alg = "sha512"
	}
	c.Source = []string{"seek", "seek", "noseek", "dribble", "dribble-seek"}[rng.Intn(5)]
	c.Decl = []string{"none", "correct", "correct", "correct", "wrong-digest", "short", "long", "size-only", "digest-only"}[rng.Intn(9)]
	if c.I%9 == 4 && c.Len > 2 {
		// the stream is longer than what is declared: a size alone, or digest and size of a proper prefix
		c.Decl = []string{"size-only-short", "prefix"}[(c.I/9)%2]
	}
	if c.Len == 0 && (c.Decl == "short" || c.Decl == "size-only") {
		c.Decl = "correct"
	}
	switch rng.Intn(5) {
	case 0:
		c.Max = 0
	case 1:
		c.Max = int64(c.Len) - 1 // smaller than the blob: forces chunking
		if c.Max <= 0 {
			c.Max = 1
		}
	case 2:
		c.Max = int64(c.Len) + 1
	}
	switch rng.Intn(5) {
	case 0:
		c.ChunkMin = max64(1, c.Chunk-1)
	case 1:
		c.ChunkMin = c.Chunk + 1 + int64(rng.Intn(5))
	}
	c.Via = []string{"host", "client"}[rng.Intn(2)]
	c.Mount = []string{"grant", "decline", "refuse"}[rng.Intn(3)]
	if rng.Intn(8) == 0 && (c.Decl == "correct") {
		c.Anon = true
	}
	if rng.Intn(3) == 0 {
		// a registry that reports an empty session as "0--1" (olareg) leaves no ambiguity about the first chunk
		c.EmptyRange = "0--1"
	}
	if rng.Intn(3) == 0 {
		n := 1 + rng.Intn(4)
		for k := 0; k < n; k++ {
			a := rng.Intn(int(c.Chunk) + 1) // 0..chunk bytes accepted
			if k == 0 && a == 0 && c.EmptyRange == "" {
				a = 1 // "Range: 0-0" cannot express "nothing received" (spec ambiguity); not generated
			}
			if rng.Intn(3) == 0 {
				a = -1
			}
			c.Ack = append(c.Ack, a)
		}
		c.AckStyle = []string{"202", "416"}[rng.Intn(2)]
	} else if rng.Intn(8) == 0 && c.Chunk >= 16 {
		// a registry that takes only a small, fixed amount per request: long runs of partial acknowledgements,
		// every one of which makes progress
		c.MaxAccept = int(c.Chunk) / (12 + rng.Intn(6))
		c.AckStyle = []string{"202", "416"}[rng.Intn(2)]
	}
	if len(c.Ack) == 0 && c.MaxAccept == 0 && rng.Intn(10) == 0 && c.Len > int(c.Chunk)+1 {
		c.monoKeepWanted = true
	}
	if false {
		// the single-request upload dies in the registry after more than one chunk's worth was stored:
		// the chunked fall-back is told to continue beyond the buffer it holds
		c.MonoKeep = int(c.Chunk) + 1 + rng.Intn(int(c.Chunk)+1)
	}
	c.Early201 = rng.Intn(8) == 0
	c.Relocate = []string{"", "", "absolute", "relative", "query", "newpath", "deeper-relative"}[rng.Intn(7)]
	c.Refuse = rng.Intn(6) == 0
	if rng.Intn(4) == 0 {
		c.FaultAt = 1 + rng.Intn(7)
		c.Fault = []string{"status:500", "status:502", "status:504", "status:429", "reset", "status:408"}[rng.Intn(6)]
	}
	c.Dir = rng.Intn(7) == 0
	c.PreHeld = c.Dir && c.Decl == "wrong-digest" && c.Len > 0 && rng.Intn(2) == 0
	if rng.Intn(12) == 0 && c.Len > 0 {
		c.SrcFail = []string{"unexpected-eof", "unexpected-eof", "other"}[rng.Intn(3)]
		c.SrcFailAt = rng.Intn(c.Len) // strictly inside the content
	}
	if c.monoKeepWanted && c.FaultAt == 0 && !c.Refuse {
		// the single-request upload dies in the registry after more than one chunk's worth was stored:
		// the chunked fall-back is told to continue beyond the buffer it holds
		c.MonoKeep = int(c.Chunk) + 1 + rng.Intn(int(c.Chunk)+1)
	}
	// a server that enforces its minimum does not itself cut chunks short
	c.Enforce = c.ChunkMin > 0 && len(c.Ack) == 0 && c.MaxAccept == 0 && c.MonoKeep == 0 && c.FaultAt == 0 && rng.Intn(2) == 0
	return c
}

func max64(a, b int64) int64 {
	if a > b {
		return a
	}
	return b
}

func runCase(c Case) {
	defer func() {
		if p := recover(); p != nil {
			run.Violation("panic", fmt.Sprintf("BlobPut panicked: %v", p), c)
		}
	}()
	rng := rand.New(rand.NewSource(int64(c.I)*7919 + ev.Seed()))
	content := make([]byte, c.Len)
	rng.Read(content)
	actual := la.Digest(c.Alg, content)
	var d descriptor.Descriptor
	var preHeld []byte
	switch c.Decl {
	case "none":
		if c.Alg == "sha512" {
			_ = d.DigestAlgoPrefer(digest.SHA512)
		}
	case "correct":
		d.Digest, d.Size = digest.Digest(actual), int64(c.Len)
	case "wrong-digest":
		other := append(bytes.Clone(content), 'x')
		if c.PreHeld {
			// same length, other bytes - and the destination already holds what the descriptor names
			other = bytes.Clone(content)
			other[len(other)-1] ^= 0x01
			preHeld = other
		}
		d.Digest, d.Size = digest.Digest(la.Digest(c.Alg, other)), int64(c.Len)
	case "short":
		d.Digest, d.Size = digest.Digest(actual), int64(c.Len)-1
	case "long":
		d.Digest, d.Size = digest.Digest(actual), int64(c.Len)+1+int64(rng.Intn(3))
	case "size-only":
		d.Size = int64(c.Len)
		if c.Alg == "sha512" {
			_ = d.DigestAlgoPrefer(digest.SHA512)
		}
	case "digest-only":
		d.Digest = digest.Digest(actual)
	case "size-only-short":
		d.Size = int64(c.Len) - 1 - int64(rng.Intn(c.Len-2))
		if c.Alg == "sha512" {
			_ = d.DigestAlgoPrefer(digest.SHA512)
		}
	case "prefix":
		k := c.Len - 1 - rng.Intn(c.Len-2)
		d.Digest, d.Size = digest.Digest(la.Digest(c.Alg, content[:k])), int64(k)
	}
	mismatch := c.Decl == "wrong-digest" || c.Decl == "short" || c.Decl == "long" || c.Decl == "size-only-short" || c.Decl == "prefix"
	if c.Decl == "short" && d.Size == 0 {
		// size 0 means "unknown" to the client: not a declared mismatch
		mismatch = false
	}
	var src io.Reader
	switch c.Source {
	case "seek":
		src = bytes.NewReader(content)
	case "noseek":
		src = noSeek{bytes.NewReader(content)}
	case "dribble":
		src = dribble{bytes.NewReader(content)}
	case "dribble-seek":
		src = dribbleSeek{bytes.NewReader(content)}
	}
	seekable := c.Source == "seek" || c.Source == "dribble-seek"
	if c.SrcFail != "" {
		// a stream that breaks: whatever the error is called, the upload must not report success
		ferr := errors.New("storage medium failed")
		if c.SrcFail == "unexpected-eof" {
			ferr = io.ErrUnexpectedEOF
		}
		fa := &failAfter{r: src, left: c.SrcFailAt, err: ferr}
		src = fa
		seekable = false
		defer srcFailed.Delete(c.I)
		srcFailed.Store(c.I, fa)
	}
	wsrc := &watch{r: src, dwell: c.I%2 == 0}
	if seekable {
		src = watchSeek{wsrc}
	} else {
		src = wsrc
	}
	defer func() {
		wsrc.mu.Lock()
		defer wsrc.mu.Unlock()
		run.Count("source_streams_watched", 1)
		if len(wsrc.misuse) > 0 {
			dst := "registry"
			if c.Dir {
				dst = "layout"
			}
			run.Violation(fmt.Sprintf("source-stream-misused/%s/%s", dst, strings.Fields(wsrc.misuse[0])[0]), "the caller's stream was used "+wsrc.misuse[0]+" (the io.Reader contract allows neither; the bytes a replayed upload then reads are undefined)", map[string]any{"case": c, "misuse": wsrc.misuse})
		}
	}()
	ctx, cancel := context.WithTimeout(context.Background(), 8*time.Second)
	defer cancel()

	if c.Dir {
		dir, _ := os.MkdirTemp(os.Getenv("VERIF_BIN"), "c05")
		defer os.RemoveAll(dir)
		rc := rcx.New(nil, rcx.Opts{})
		if preHeld != nil {
			_ = gen.WriteLayoutIndex(dir, nil)
			_ = gen.WriteLayoutBlob(dir, string(d.Digest), preHeld)
			run.Count("layout_uploads_onto_a_held_digest_with_other_bytes", 1)
		}
		got, err := rc.BlobPut(ctx, rcx.DirRef(dir, ""), d, src)
		wsrc.returned.Store(true)
		l := la.Layout{Dir: dir}
		judge(c, d, got, err, actual, content, mismatch, !mismatch, func(dg string) ([]byte, bool) { return l.Blob(dg) }, 0, nil)
		return
	}
	w := modelreg.NewWorld()
	defer w.Close()
	h := w.NewHost("dst")
	h.Cfg.Mount = c.Mount
	h.Cfg.AnonMount = c.Anon
	h.Cfg.ChunkMin = c.ChunkMin
	h.Cfg.EnforceChunkMin = c.Enforce
	h.Cfg.AckPlan = c.Ack
	h.Cfg.AckStyle = c.AckStyle
	h.Cfg.MaxAccept = c.MaxAccept
	h.Cfg.MonoPutKeep = c.MonoKeep
	h.Cfg.EmptyRange = c.EmptyRange
	h.Cfg.Early201 = c.Early201
	h.Cfg.Relocate = c.Relocate
	h.Cfg.RefuseMonoPut = c.Refuse
	if c.Anon {
		h.PutBlob("other/repo", c.Alg, content)
	}
	var plan *modelreg.Plan
	if c.FaultAt > 0 {
		plan = (&modelreg.Plan{Faults: []*modelreg.Fault{{At: c.FaultAt, Action: c.Fault}}}).Install(h)
	}
	ro := []reg.Opts{}
	if c.Limit > 0 {
		ro = append(ro, reg.WithBlobLimit(c.Limit))
	}
	if c.Via == "client" {
		ro = append(ro, reg.WithBlobSize(c.Chunk, c.Max))
	}
	rc := rcx.New([]*modelreg.Host{h}, rcx.Opts{RetryLimit: 4, RegOpts: ro, Mutate: func(name string, hc *config.Host) {
		if c.Via == "host" {
			hc.BlobChunk = c.Chunk
			hc.BlobMax = c.Max
		}
	}})
	if os.Getenv("VERIF_ONLY") != "" {
		var c2 context.CancelFunc
		ctx, c2 = context.WithTimeout(ctx, 3*time.Second)
		defer c2()
	}
	got, err := rc.BlobPut(ctx, rcx.Ref(h, "proj/repo", ""), d, src)
	wsrc.returned.Store(true)
	w.WaitIdle()
	if os.Getenv("VERIF_ONLY") != "" {
		for _, e := range w.Log() {
			fmt.Printf("REQ %s %s?%s cr=%q len=%d -> %d %s\n", e.Method, e.Path, e.Query, e.ContentRange, e.BodyLen, e.Status, e.Fault)
		}
		fmt.Println("ANOMALIES", w.Anomalies, "ERR", err)
	}
	st := modelreg.Store{H: h, Name: "proj/repo"}
	fired := plan != nil && plan.FiredTotal() > 0
	// classify whether success is mandatory
	must := !mismatch
	reason := ""
	evs := w.Log()
	if must && !seekable {
		// a non-seekable stream cannot be replayed: any refusal / fault that arrives after bytes were consumed is a legitimate failure
		if c.Refuse || fired || c.MonoKeep > 0 {
			must, reason = false, "non-seekable source cannot be replayed"
		}
	}
	for _, e := range evs {
		if must && e.Fault != "" && e.Kind == "upload-patch" && strings.HasPrefix(e.ContentRange, "0-") && c.EmptyRange == "" {
			// the very first chunk failed before anything was stored: the status reply "Range: 0-0" cannot tell
			// "nothing received" from "one byte received" (spec ambiguity), so the client may legitimately fail
			must, reason = false, "first chunk lost, upload status ambiguous"
		}
	}
	if must && c.ChunkMin > c.Chunk && c.Limit > 0 && c.ChunkMin > c.Limit {
		must, reason = false, "server minimum above the client's chunk limit"
	}
	_ = reason
	judge(c, d, got, err, actual, content, mismatch, must, func(dg string) ([]byte, bool) { return st.Blob(dg) }, len(evs), w)
}

func judge(c Case, decl, got descriptor.Descriptor, err error, actual string, content []byte, mismatch, must bool, blob func(string) ([]byte, bool), nreq int, w *modelreg.World) {
	if c.SrcFail != "" {
		run.Eval(1)
		run.Count("uploads_from_failing_streams", 1)
		hit := false
		if v, ok := srcFailed.Load(c.I); ok {
			hit = v.(*failAfter).hit.Load()
		}
		if !hit {
			run.Count("uploads_that_never_read_the_failing_stream", 1)
		}
		if err == nil && hit {
			dst := "registry"
			if c.Dir {
				dst = "layout"
			}
			run.Violation(fmt.Sprintf("source-error-swallowed/%s/%s/%s", c.SrcFail, c.Decl, dst), fmt.Sprintf("the caller's stream failed after %d of %d bytes (%s) but BlobPut returned success (digest %s, size %d)", c.SrcFailAt, len(content), c.SrcFail, got.Digest, got.Size), map[string]any{"case": c})
		}
		return
	}
	run.Eval(1)
	wit := func() map[string]any {
		m := map[string]any{"case": c, "declared": fmt.Sprintf("%s size %d", decl.Digest, decl.Size), "returned": fmt.Sprintf("%s size %d", got.Digest, got.Size), "actual_digest": actual, "err": fmt.Sprint(err)}
		if w != nil {
			var reqs []string
			for _, e := range w.Log() {
				reqs = append(reqs, fmt.Sprintf("%s %s?%s cr=%q len=%d -> %d %s", e.Method, e.Path, e.Query, e.ContentRange, e.BodyLen, e.Status, e.Fault))
			}
			m["requests"] = reqs
			m["anomalies"] = w.Anomalies
		}
		return m
	}
	dst := "registry"
	if c.Dir {
		dst = "layout"
	}
	if err == nil {
		run.Count("uploads_succeeded", 1)
		if mismatch {
			run.Violation(fmt.Sprintf("mismatch-accepted/%s/%s", c.Decl, dst), fmt.Sprintf("declared descriptor does not match the stream (%s) but BlobPut returned nil", c.Decl), wit())
		}
		if string(got.Digest) != actual {
			run.Violation("wrong-digest-returned/"+dst, fmt.Sprintf("BlobPut returned digest %s, the stream hashes to %s", got.Digest, actual), wit())
		}
		if got.Size != int64(len(content)) {
			run.Violation(fmt.Sprintf("wrong-size-returned/%s/%s", c.Decl, dst), fmt.Sprintf("BlobPut returned size %d, the stream has %d bytes", got.Size, len(content)), wit())
		}
		b, ok := blob(string(got.Digest))
		switch {
		case !ok:
			run.Violation("not-committed/"+dst, fmt.Sprintf("BlobPut returned nil but the destination holds nothing under %s", got.Digest), wit())
		case !bytes.Equal(b, content):
			run.Violation("wrong-bytes-committed/"+dst, fmt.Sprintf("destination holds %d bytes under %s that differ from the %d bytes of the caller's stream", len(b), got.Digest, len(content)), wit())
		default:
			run.Count("committed_blobs_compared", 1)
		}
	} else {
		run.Count("uploads_failed", 1)
		if mismatch {
			run.Count("declared_mismatch_rejected", 1)
		}
		if must {
			cls := "plain"
			switch {
			case c.FaultAt > 0 && w != nil:
				cls = "transient-" + strings.ReplaceAll(c.Fault, ":", "")
			case c.MonoKeep > 0:
				cls = "mono-put-partly-stored"
			case c.MaxAccept > 0:
				cls = "small-accepts-" + c.AckStyle
			case len(c.Ack) > 0:
				cls = "partial-ack-" + c.AckStyle
			case c.Refuse:
				cls = "mono-refused"
			case c.ChunkMin > 0:
				cls = "chunk-min"
			case c.Relocate != "":
				cls = "relocate-" + c.Relocate
			}
			run.Violation(fmt.Sprintf("wellformed-upload-failed/%s/%s/%s", cls, c.Source, dst), fmt.Sprintf("well-formed upload against a conforming destination failed: %v", err), wit())
		}
	}
	if mismatch && decl.Digest.Validate() == nil {
		if b, ok := blob(string(decl.Digest)); ok && c.PreHeld {
			// it was there before: it must still be what the digest names, not the caller's other bytes
			if !la.Matches(string(decl.Digest), b) {
				run.Violation("held-blob-replaced-by-other-bytes/"+dst, fmt.Sprintf("the blob the destination held under %s no longer matches that digest after an upload of other bytes was attempted", decl.Digest), wit())
			}
		} else if ok && c.Decl == "prefix" && la.Matches(string(decl.Digest), b) {
			// the declared digest names a proper prefix of the stream and the destination now holds exactly that
			// prefix under it (a single request framed by the declared length delivers it before anybody can know
			// that more follows): the store is content-address-consistent, nothing foreign sits under the digest.
			// What the statement still demands - and what is judged above - is that the caller is told.
			run.Count("prefix_uploads_that_left_the_prefix_under_its_own_digest", 1)
		} else if ok && !(string(decl.Digest) == actual && bytes.Equal(b, content) && c.Decl != "short" && c.Decl != "long") {
			run.Violation(fmt.Sprintf("committed-under-declared/%s/%s", c.Decl, dst), fmt.Sprintf("declared descriptor does not match the stream (%s) but the destination now holds a blob under the declared digest %s", c.Decl, decl.Digest), wit())
		}
	}
	if nreq > 0 {
		run.Count("requests", nreq)
	}
	if err == nil || mismatch {
		run.Distinct(c.key())
	}
	if c.I < 4 {
		run.Sample(map[string]any{"case": c, "err": fmt.Sprint(err), "requests": nreq})
	}
}

func main() {
	run = ev.Start("C05", "exploration")
	run.Rule("blob lengths on every boundary of chunk sizes {1,2,3,4,7,8,16,1024} x declared descriptor {absent, correct, wrong digest, short, long, size only, digest only, a size alone that is smaller than the stream, digest and size of a proper prefix of the stream} x sha256/sha512 x source {seekable, non-seekable, 1-byte dribble} " +
		"x client chunk / max-put x server {chunk minimum, mount granted/declined/refused, anonymous mount, partial chunk acknowledgement at any offset in 202 or 4xx+Range style, early 201, relocated upload URLs (absolute, relative, with query, new path per response), monolithic PUT refused, one transient 5xx/429/408/reset at any request index} and OCI layout destinations; " +
		"non-trivial = the upload succeeded (bytes compared) or a declared mismatch was presented; distinct = parameter classes")
	run.Assume("the model destination is conforming: it refuses out-of-order chunks with 416 + Range and verifies the digest at commit",
		"excluded from 'must succeed' (exact-bytes-or-error still applies): non-seekable sources after a refusal or fault, a server minimum above the client's chunk limit",
		"not generated: acknowledging zero bytes of the very first chunk (a 'Range: 0-0' header cannot express it), anonymous mounts together with a wrong declared descriptor (the stream is never read)")
	n := ev.Scale(12000, 200000)
	var wg sync.WaitGroup
	const W = 14
	for wk := 0; wk < W; wk++ {
		wg.Add(1)
		go func(wk int) {
			defer wg.Done()
			rng := ev.Rand(fmt.Sprintf("c05/%d", wk))
			for i := wk; i < n; i += W {
				c := genCase(rng, i)
				if only := os.Getenv("VERIF_ONLY"); only != "" && only != fmt.Sprint(i) {
					continue
				} else if only != "" {
					go func() {
						time.Sleep(5 * time.Second)
						buf := make([]byte, 1<<20)
						os.Stdout.Write(buf[:runtime.Stack(buf, true)])
					}()
				}
				t0 := time.Now()
				runCase(c)
				if d := time.Since(t0); d > 2*time.Second {
					run.Count("slow_cases_over_2s", 1)
					if os.Getenv("VERIF_DEBUG") != "" {
						fmt.Printf("slow: %v %+v\n", d, c)
					}
				}
			}
		}(wk)
	}
	wg.Wait()
	earlyReplies()
	for _, rep := range ev.RaceReports(filepath.Join(os.Getenv("VERIF_BIN"), "race")) {
		if strings.Contains(rep, "scheme/reg.(*Reg).blob") || strings.Contains(rep, "scheme/reg.(*Reg).BlobPut") {
			fp := "race/blob-upload/other"
			switch {
			case strings.Contains(rep, "bytes.(*Reader)") && !strings.Contains(rep, "blobPutUploadChunked") && strings.Contains(rep, "transferWriter"):
				// the caller's *bytes.Reader itself (sent unwrapped) is rewound while the transport still reads it
				fp = "race/blob-upload/in-memory-source-rewound-while-sending"
			case strings.Contains(rep, "transferWriter"):
				fp = "race/blob-upload/request-body-reused-while-sending"
			}
			run.Violation(fp, "data race in the upload path", rep)
		} else {
			run.Count("unattributed_race_reports", 1)
		}
	}
	if run.Get("committed_blobs_compared") < int64(n/4) || run.Get("declared_mismatch_rejected") < 100 {
		run.Inconclusive("too few committed blobs compared or declared mismatches presented")
	}
	os.Exit(run.Finish())
}
