// C15 — references parse canonically, round-trip, and reject malformed names.
// Monitor: universal laws evaluated on the real ref.New / NewHost / CommonName / Set* for
// grammar-generated strings, systematic mutations of them and arbitrary byte strings.
package main

import (
	"fmt"
	"math/rand"
	"os"
	"strings"
	"sync"

	"github.com/regclient/regclient/types/ref"

	"verif/ev"
)

var run *ev.Run

// ---- independent validators (hand written, no regexp) -----------------------------

func isLowerAlnum(c byte) bool { return c >= 'a' && c <= 'z' || c >= '0' && c <= '9' }
func isAlnum(c byte) bool      { return isLowerAlnum(c) || c >= 'A' && c <= 'Z' }
func isAlpha(c byte) bool      { return c >= 'a' && c <= 'z' || c >= 'A' && c <= 'Z' }
func isHex(c byte) bool {
	return c >= '0' && c <= '9' || c >= 'a' && c <= 'f' || c >= 'A' && c <= 'F'
}

// validRepoPart: [a-z0-9]+((\.|_|__|-+)[a-z0-9]+)*
func validRepoPart(s string) bool {
	if s == "" {
		return false
	}
	i := 0
	run := func() bool {
		j := i
		for i < len(s) && isLowerAlnum(s[i]) {
			i++
		}
		return i > j
	}
	if !run() {
		return false
	}
	for i < len(s) {
		switch {
		case s[i] == '.':
			i++
		case s[i] == '_':
			i++
			if i < len(s) && s[i] == '_' {
				i++
			}
		case s[i] == '-':
			for i < len(s) && s[i] == '-' {
				i++
			}
		default:
			return false
		}
		if !run() {
			return false
		}
	}
	return true
}

func validRepo(s string) bool {
	if s == "" {
		return false
	}
	for _, p := range strings.Split(s, "/") {
		if !validRepoPart(p) {
			return false
		}
	}
	return true
}

func validTag(s string) bool {
	if len(s) < 1 || len(s) > 128 {
		return false
	}
	for i := 0; i < len(s); i++ {
		c := s[i]
		if isAlnum(c) || c == '_' {
			continue
		}
		if i > 0 && (c == '.' || c == '-') {
			continue
		}
		return false
	}
	return true
}

func validDigest(s string) bool {
	i := strings.IndexByte(s, ':')
	if i <= 0 {
		return false
	}
	alg, enc := s[:i], s[i+1:]
	if len(enc) < 32 {
		return false
	}
	for j := 0; j < len(enc); j++ {
		if !isHex(enc[j]) {
			return false
		}
	}
	// alg: [A-Za-z][A-Za-z0-9]*([-_+.][A-Za-z][A-Za-z0-9]*)*
	for _, comp := range splitAny(alg, "-_+.") {
		if comp == "" || !isAlpha(comp[0]) {
			return false
		}
		for j := 0; j < len(comp); j++ {
			if !isAlnum(comp[j]) {
				return false
			}
		}
	}
	return true
}

func splitAny(s, seps string) []string {
	var out []string
	cur := ""
	for i := 0; i < len(s); i++ {
		if strings.IndexByte(seps, s[i]) >= 0 {
			out = append(out, cur)
			cur = ""
		} else {
			cur += string(s[i])
		}
	}
	return append(out, cur)
}

// ---- the universal laws ------------------------------------------------------------

func sameFields(a, b ref.Ref) bool {
	return a.Scheme == b.Scheme && a.Registry == b.Registry && a.Repository == b.Repository && a.Tag == b.Tag && a.Digest == b.Digest && a.Path == b.Path
}

func fields(r ref.Ref) string {
	return fmt.Sprintf("{scheme=%q registry=%q repository=%q tag=%q digest=%q path=%q}", r.Scheme, r.Registry, r.Repository, r.Tag, r.Digest, r.Path)
}

// explains checks that the input string is one of the spellings of the parsed fields,
// i.e. nothing was silently reinterpreted.
func explains(s string, r ref.Ref) bool {
	switch r.Scheme {
	case "reg":
		regs := []string{r.Registry + "/"}
		if r.Registry == "docker.io" {
			regs = []string{"", "docker.io/", "index.docker.io/", "registry-1.docker.io/"}
		}
		repos := []string{r.Repository}
		if r.Registry == "docker.io" && strings.HasPrefix(r.Repository, "library/") && !strings.Contains(r.Repository[8:], "/") {
			repos = append(repos, r.Repository[8:])
		}
		tags := []string{}
		if r.Tag != "" {
			tags = append(tags, ":"+r.Tag)
		}
		if r.Tag == "" || (r.Tag == "latest" && r.Digest == "") {
			tags = append(tags, "")
		}
		dig := ""
		if r.Digest != "" {
			dig = "@" + r.Digest
		}
		for _, a := range regs {
			for _, b := range repos {
				for _, c := range tags {
					if s == a+b+c+dig {
						return true
					}
				}
			}
		}
		return false
	case "ocidir", "ocifile":
		t := r.Scheme + "://" + r.Path
		if r.Tag != "" {
			t += ":" + r.Tag
		}
		if r.Digest != "" {
			t += "@" + r.Digest
		}
		return s == t
	}
	return false
}

func classOf(s string) string {
	switch {
	case strings.HasPrefix(s, "ocidir://"):
		return "ocidir"
	case strings.HasPrefix(s, "ocifile://"):
		return "ocifile"
	case strings.Contains(s, "://"):
		return "scheme"
	}
	return "reg"
}

// checkAccepted applies every law to a string the parser accepted.
func checkAccepted(s string, r ref.Ref, origin string) {
	cls := classOf(s)
	// field validity (reject classes of the statement)
	switch r.Scheme {
	case "reg":
		if !validRepo(r.Repository) {
			run.Violation("accept/invalid-repository/"+cls, fmt.Sprintf("ref.New(%q) accepted with repository %q that is outside the grammar (%s)", s, r.Repository, origin), map[string]any{"input": s, "fields": fields(r)})
		}
		if r.Registry == "" {
			run.Violation("accept/empty-registry", fmt.Sprintf("ref.New(%q) accepted with empty registry", s), map[string]any{"input": s, "fields": fields(r)})
		}
	case "ocidir", "ocifile":
		if r.Path == "" {
			run.Violation("accept/empty-path", fmt.Sprintf("ref.New(%q) accepted with empty path", s), map[string]any{"input": s})
		}
	default:
		run.Violation("accept/unknown-scheme", fmt.Sprintf("ref.New(%q) accepted with scheme %q", s, r.Scheme), map[string]any{"input": s, "fields": fields(r)})
	}
	if r.Tag != "" && !validTag(r.Tag) {
		run.Violation("accept/invalid-tag/"+cls, fmt.Sprintf("ref.New(%q) accepted with tag %q outside the grammar", s, r.Tag), map[string]any{"input": s, "fields": fields(r)})
	}
	if r.Digest != "" && !validDigest(r.Digest) {
		run.Violation("accept/invalid-digest/"+cls, fmt.Sprintf("ref.New(%q) accepted with digest %q outside the grammar", s, r.Digest), map[string]any{"input": s, "fields": fields(r)})
	}
	if !explains(s, r) {
		run.Violation("accept/reinterpreted/"+cls, fmt.Sprintf("ref.New(%q) accepted but the fields %s do not spell the input", s, fields(r)), map[string]any{"input": s, "fields": fields(r)})
	}
	// round trip
	cn := r.CommonName()
	r2, err := ref.New(cn)
	if err != nil {
		run.Violation("roundtrip/reparse-fails/"+r.Scheme, fmt.Sprintf("ref.New(%q) accepted, CommonName()=%q does not parse: %v", s, cn, err), map[string]any{"input": s, "common_name": cn})
	} else if !sameFields(r, r2) {
		run.Violation("roundtrip/differs/"+r.Scheme, fmt.Sprintf("ref.New(%q)=%s but re-parsing CommonName %q gives %s", s, fields(r), cn, fields(r2)), map[string]any{"input": s, "common_name": cn})
	} else if r2.CommonName() != cn {
		run.Violation("roundtrip/unstable/"+r.Scheme, fmt.Sprintf("CommonName not a fixpoint for %q: %q then %q", s, cn, r2.CommonName()), map[string]any{"input": s})
	}
	run.Count("roundtrips_checked", 1)
	// setters
	const newTag = "v9.Z_z-1"
	const newDig = "sha256:e3b0c44298fc1c149afbf4c8996fb92427ae41e4649b934ca495991b7852b855"
	for _, m := range []struct {
		name string
		got  ref.Ref
		tag  string
		dig  string
	}{
		{"SetTag", r.SetTag(newTag), newTag, ""},
		{"SetDigest", r.SetDigest(newDig), "", newDig},
		{"AddDigest", r.AddDigest(newDig), r.Tag, newDig},
	} {
		g := m.got
		if g.Scheme != r.Scheme || g.Registry != r.Registry || g.Repository != r.Repository || g.Path != r.Path {
			run.Violation("setter/changes-other/"+m.name, fmt.Sprintf("%s on %q changed another component: %s -> %s", m.name, s, fields(r), fields(g)), map[string]any{"input": s})
		}
		if g.Tag != m.tag || g.Digest != m.dig {
			run.Violation("setter/wrong-value/"+m.name, fmt.Sprintf("%s on %q gives tag=%q digest=%q, want %q %q", m.name, s, g.Tag, g.Digest, m.tag, m.dig), map[string]any{"input": s})
		}
		g2, err := ref.New(g.CommonName())
		if err != nil || !sameFields(g, g2) {
			run.Violation("setter/not-reparsable/"+m.name+"/"+r.Scheme, fmt.Sprintf("%s on %q gives %q which re-parses to %s (err %v), want %s", m.name, s, g.CommonName(), fields(g2), err, fields(g)), map[string]any{"input": s})
		}
		if g.Reference != g.CommonName() {
			run.Violation("setter/reference-stale/"+m.name, fmt.Sprintf("%s on %q: Reference %q != CommonName %q", m.name, s, g.Reference, g.CommonName()), map[string]any{"input": s})
		}
		run.Count("setter_checks", 1)
	}
}

// ---- generators ---------------------------------------------------------------------

type comp struct {
	registry, repo, tag, digest string
}

var (
	regPool = []string{"", "docker.io", "index.docker.io", "registry-1.docker.io", "localhost", "localhost:5000", "example.com", "example.com:443",
		"a.b.c.example", "127.0.0.1", "127.0.0.1:5000", "10.0.0.1:80", "reg.example.com.", "Registry", "myHost", "my-Host1", "x:1", "sub-domain.ex-ample.org",
		"EXAMPLE.COM", "ex.Co", "a.b:65535", "0.0.0.0:1", "registry", "host-name"}
	repoPool = []string{"a", "alpine", "library/alpine", "foo/bar", "foo/bar/baz", "a/b/c/d/e", "a.b", "a_b", "a__b", "a-b", "a---b", "0", "0/1", "x1.y2_z3-w4",
		"localhost", "localhost/x", "library", "library/library", "project/repo.name", strings.Repeat("a", 60)}
	tagPool = []string{"", "latest", "v1", "1", "_", "_a", "A", "v1.2.3", "a-b_c.d", "Z", "0.0", "sha256-abc", strings.Repeat("t", 127), strings.Repeat("T", 128), "a.", "a-", "latest.latest"}
	digPool = []string{"", "sha256:" + strings.Repeat("a", 64), "sha512:" + strings.Repeat("0", 128), "sha256:" + strings.Repeat("A", 64), "md5:" + strings.Repeat("f", 32),
		"sha256+b64:" + strings.Repeat("1", 40), "multi.alg-x_y:" + strings.Repeat("c", 33), "sha256:" + strings.Repeat("b", 32)}
	pathPool = []string{"/tmp/layout", "relative/dir", "./x", "../up", "a b/c d", "/a/../b", ".", "..", "/", "~/x", "dir+plus", "dir_under-dash.dot", "/abs/with space/x", "a//b", "x/"}
)

// expectFields computes what Docker-style normalisation demands for a constructed reference.
// ok=false means the composition is ambiguous / not a canonical construction and is skipped.
func expectFields(c comp) (ref.Ref, string, bool) {
	s := ""
	if c.registry != "" {
		s = c.registry + "/"
	}
	s += c.repo
	if c.tag != "" {
		s += ":" + c.tag
	}
	if c.digest != "" {
		s += "@" + c.digest
	}
	e := ref.Ref{Scheme: "reg", Registry: c.registry, Repository: c.repo, Tag: c.tag, Digest: c.digest}
	first := c.repo
	if i := strings.IndexByte(first, '/'); i >= 0 {
		first = first[:i]
	}
	if c.registry == "" && strings.Contains(c.repo, "/") && strings.Contains(first, ".") {
		// Docker: a first component containing '.' names a registry
		if !validHost(first) {
			return e, s, false // Docker rejects it, regclient reads it as a repository: not a class of the statement
		}
		e.Registry = first
		e.Repository = c.repo[len(first)+1:]
	}
	if c.registry == "" {
		if first == "localhost" {
			// docker: "localhost/x" names registry localhost
			if !strings.Contains(c.repo, "/") {
				return e, s, false
			}
			e.Registry = "localhost"
			e.Repository = c.repo[len("localhost/"):]
		}
	}
	if c.registry == "registry" || c.registry == "host-name" {
		// a single lower-case label without port is not a registry: it is a repository component
		e.Registry = ""
		e.Repository = c.registry + "/" + c.repo
	}
	switch e.Registry {
	case "", "index.docker.io", "registry-1.docker.io":
		e.Registry = "docker.io"
	}
	if e.Registry == "docker.io" && !strings.Contains(e.Repository, "/") {
		e.Repository = "library/" + e.Repository
	}
	if e.Tag == "" && e.Digest == "" {
		e.Tag = "latest"
	}
	return e, s, true
}

func pick(rng *rand.Rand, p []string) string { return p[rng.Intn(len(p))] }

func randRepoPart(rng *rand.Rand) string {
	const al = "abcdefghijklmnopqrstuvwxyz0123456789"
	seps := []string{".", "_", "__", "-", "--", "---"}
	n := 1 + rng.Intn(3)
	var b strings.Builder
	for i := 0; i < n; i++ {
		if i > 0 {
			b.WriteString(seps[rng.Intn(len(seps))])
		}
		for j := 0; j <= rng.Intn(5); j++ {
			b.WriteByte(al[rng.Intn(len(al))])
		}
	}
	return b.String()
}

func randTag(rng *rand.Rand) string {
	const first = "abcdefghijklmnopqrstuvwxyzABCDEFGHIJKLMNOPQRSTUVWXYZ0123456789_"
	const rest = first + ".-"
	n := 1 + rng.Intn(128)
	if rng.Intn(3) > 0 {
		n = 1 + rng.Intn(12)
	}
	b := make([]byte, n)
	b[0] = first[rng.Intn(len(first))]
	for i := 1; i < n; i++ {
		b[i] = rest[rng.Intn(len(rest))]
	}
	return string(b)
}

func randDigest(rng *rand.Rand) string {
	algs := []string{"sha256", "sha512", "sha384", "blake3", "sha256+b64", "x.y"}
	alg := algs[rng.Intn(len(algs))]
	n := 32 + rng.Intn(100)
	switch alg {
	case "sha256":
		n = 64
	case "sha512":
		n = 128
	}
	const hx = "0123456789abcdef"
	b := make([]byte, n)
	for i := range b {
		b[i] = hx[rng.Intn(16)]
	}
	return alg + ":" + string(b)
}

func randComp(rng *rand.Rand) comp {
	c := comp{registry: pick(rng, regPool)}
	if rng.Intn(2) == 0 {
		c.repo = pick(rng, repoPool)
	} else {
		n := 1 + rng.Intn(4)
		parts := []string{}
		for i := 0; i < n; i++ {
			parts = append(parts, randRepoPart(rng))
		}
		c.repo = strings.Join(parts, "/")
	}
	switch rng.Intn(3) {
	case 0:
		c.tag = pick(rng, tagPool)
	case 1:
		c.tag = randTag(rng)
	}
	switch rng.Intn(4) {
	case 0:
		c.digest = pick(rng, digPool)
	case 1:
		c.digest = randDigest(rng)
	}
	return c
}

var special = []byte("/:@.-_ ~+%#?&=\\\x00\t\n$!*()[]{}<>|^\"'`,;ABCXYZabc019")

func mutate(rng *rand.Rand, s string) string {
	b := []byte(s)
	n := 1 + rng.Intn(2)
	for k := 0; k < n; k++ {
		switch rng.Intn(8) {
		case 0: // insert special
			i := rng.Intn(len(b) + 1)
			b = append(b[:i], append([]byte{special[rng.Intn(len(special))]}, b[i:]...)...)
		case 1: // delete
			if len(b) > 0 {
				i := rng.Intn(len(b))
				b = append(b[:i], b[i+1:]...)
			}
		case 2: // replace
			if len(b) > 0 {
				b[rng.Intn(len(b))] = special[rng.Intn(len(special))]
			}
		case 3: // upper-case one letter
			if len(b) > 0 {
				i := rng.Intn(len(b))
				if b[i] >= 'a' && b[i] <= 'z' {
					b[i] -= 32
				}
			}
		case 4: // duplicate a separator
			for tries := 0; tries < 8 && len(b) > 0; tries++ {
				i := rng.Intn(len(b))
				if strings.IndexByte("/:@.-_", b[i]) >= 0 {
					b = append(b[:i], append([]byte{b[i]}, b[i:]...)...)
					break
				}
			}
		case 5: // truncate
			if len(b) > 1 {
				b = b[:rng.Intn(len(b))]
			}
		case 6: // arbitrary byte
			i := rng.Intn(len(b) + 1)
			b = append(b[:i], append([]byte{byte(rng.Intn(256))}, b[i:]...)...)
		case 7: // swap two bytes
			if len(b) > 1 {
				i, j := rng.Intn(len(b)), rng.Intn(len(b))
				b[i], b[j] = b[j], b[i]
			}
		}
	}
	return string(b)
}

func tryNew(s string) (r ref.Ref, err error) {
	defer func() {
		if p := recover(); p != nil {
			err = fmt.Errorf("PANIC: %v", p)
			run.Violation("panic/ref.New", fmt.Sprintf("ref.New(%q) panicked: %v", s, p), map[string]any{"input": s})
		}
	}()
	return ref.New(s)
}

func evalString(s, origin string) {
	run.Eval(1)
	r, err := tryNew(s)
	if err != nil {
		run.Count("rejected", 1)
		return
	}
	run.Count("accepted", 1)
	checkAccepted(s, r, origin)
}

// mustReject: a string with exactly one illegal feature in a statement-named class.
func mustReject(s, class string) {
	run.Eval(1)
	run.Count("constructive_rejects", 1)
	r, err := tryNew(s)
	if err == nil {
		run.Violation("reject/"+class, fmt.Sprintf("ref.New(%q) must be rejected (%s) but parsed to %s", s, class, fields(r)), map[string]any{"input": s, "class": class, "fields": fields(r)})
	}
}

// parallel runs fn(rng, i) for i in [0,n) on 16 workers, each with its own seeded stream.
func parallel(n int, stream string, fn func(rng *rand.Rand, i int)) {
	const W = 16
	var wg sync.WaitGroup
	for w := 0; w < W; w++ {
		wg.Add(1)
		go func(w int) {
			defer wg.Done()
			rng := ev.Rand(fmt.Sprintf("%s/%d", stream, w))
			for i := w; i < n; i += W {
				fn(rng, i)
			}
		}(w)
	}
	wg.Wait()
}

func validHost(s string) bool {
	s = strings.TrimSuffix(s, ".")
	for _, l := range strings.Split(s, ".") {
		if l == "" || l[0] == '-' || l[len(l)-1] == '-' {
			return false
		}
		for i := 0; i < len(l); i++ {
			if !isAlnum(l[i]) && l[i] != '-' {
				return false
			}
		}
	}
	return true
}

func main() {
	run = ev.Start("C15", "exploration")
	run.Rule("strings assembled from component pools and random grammar walks (registry forms x repository paths x tags x digests, ocidir paths), " +
		"1-2 point mutations of them, constructive rejects with exactly one illegal feature, and arbitrary byte strings; " +
		"a case is non-trivial when the parser accepted it (all laws evaluated) or it is a constructive reject; distinct = distinct accepted field-shape classes")
	run.Assume("Docker normalisation re-implemented in expectFields(); validators for repository/tag/digest written by hand from the distribution grammar",
		"SetTag/SetDigest are documented to clear the other of tag/digest; only scheme, registry, repository and path count as 'other components'")
	rng := ev.Rand("c15")
	nGrammar := ev.Scale(400000, 8000000)
	nMut := ev.Scale(600000, 16000000)
	nBytes := ev.Scale(200000, 4000000)

	// (ii) constructive accepts with known expected fields
	parallel(nGrammar, "grammar", func(rng *rand.Rand, i int) {
		c := randComp(rng)
		e, s, ok := expectFields(c)
		if !ok {
			return
		}
		run.Eval(1)
		r, err := tryNew(s)
		if err != nil {
			run.Violation("construct/rejected", fmt.Sprintf("ref.New(%q) rejected a grammar-conforming reference: %v", s, err), map[string]any{"input": s})
			return
		}
		run.Count("accepted", 1)
		run.Count("constructive_accepts", 1)
		if r.Scheme != e.Scheme || r.Registry != e.Registry || r.Repository != e.Repository || r.Tag != e.Tag || r.Digest != e.Digest {
			run.Violation("construct/wrong-fields", fmt.Sprintf("ref.New(%q) = %s, Docker-style expansion expects %s", s, fields(r), fields(e)), map[string]any{"input": s})
		}
		checkAccepted(s, r, "grammar")
		run.Distinct(fmt.Sprintf("reg/%t/%d/%t/%t", c.registry != "", strings.Count(c.repo, "/"), c.tag != "", c.digest != ""))
		if i < 3 {
			run.Sample(map[string]any{"input": s, "fields": fields(r), "common_name": r.CommonName()})
		}
	})
	// ocidir / ocifile
	parallel(nGrammar/10, "ocidir", func(rng *rand.Rand, i int) {
		p := pick(rng, pathPool)
		if rng.Intn(3) == 0 {
			p = strings.TrimSuffix(p, "/") + "/" + randRepoPart(rng)
		}
		scheme := "ocidir"
		if rng.Intn(10) == 0 {
			scheme = "ocifile"
		}
		s := scheme + "://" + p
		tag, dig := "", ""
		if rng.Intn(2) == 0 {
			tag = randTag(rng)
			s += ":" + tag
		}
		if rng.Intn(3) == 0 {
			dig = randDigest(rng)
			s += "@" + dig
		}
		run.Eval(1)
		r, err := tryNew(s)
		if err != nil {
			run.Violation("construct/rejected-ocidir", fmt.Sprintf("ref.New(%q) rejected: %v", s, err), map[string]any{"input": s})
			return
		}
		run.Count("accepted", 1)
		if r.Path != p || r.Tag != tag || r.Digest != dig || r.Scheme != scheme {
			run.Violation("construct/wrong-fields-ocidir", fmt.Sprintf("ref.New(%q) = %s", s, fields(r)), map[string]any{"input": s})
		}
		checkAccepted(s, r, "grammar-ocidir")
		run.Distinct(fmt.Sprintf("%s/%t/%t", scheme, tag != "", dig != ""))
		if i < 2 {
			run.Sample(map[string]any{"input": s, "fields": fields(r), "common_name": r.CommonName()})
		}
	})
	// (iii) constructive rejects
	hex64 := strings.Repeat("a", 64)
	parallel(ev.Scale(20000, 200000), "rejects", func(rng *rand.Rand, i int) {
		reg := pick(rng, []string{"example.com", "localhost:5000", "127.0.0.1:5000", "reg.io"})
		part := randRepoPart(rng)
		// make sure there is a letter to upper-case
		up := "x" + part
		j := rng.Intn(len(up))
		for up[j] < 'a' || up[j] > 'z' {
			j = (j + 1) % len(up)
		}
		upper := up[:j] + strings.ToUpper(up[j:j+1]) + up[j+1:]
		mustReject(reg+"/"+upper, "upper-case-repository")
		mustReject(reg+"/proj/"+upper+":v1", "upper-case-repository")
		mustReject("proj/"+upper, "upper-case-repository")
		mustReject(reg+"//"+part, "empty-component")
		mustReject(reg+"/"+part+"//"+part, "empty-component")
		mustReject(reg+"/"+part+"/", "empty-component")
		mustReject(reg+"/"+part+":", "empty-component")
		mustReject(reg+"/"+part+"@", "empty-component")
		mustReject(reg+"/"+part+":@sha256:"+hex64, "empty-component")
		mustReject("/"+part, "empty-component")
		mustReject(":"+randTag(rng), "empty-component")
		mustReject(reg+"/", "empty-component")
		bad := []byte("$%&*!()=+~,;<>?[]{}|^ ")
		t := randTag(rng)
		if len(t) > 100 {
			t = t[:100]
		}
		k := rng.Intn(len(t) + 1)
		mustReject(reg+"/"+part+":"+t[:k]+string(bad[rng.Intn(len(bad))])+t[k:], "illegal-tag-character")
		mustReject(reg+"/"+part+":."+t, "illegal-tag-character")
		mustReject(reg+"/"+part+":-"+t, "illegal-tag-character")
		mustReject(reg+"/"+part+":"+strings.Repeat("t", 129+rng.Intn(5)), "tag-too-long")
		mustReject(reg+"/"+part+"@sha256:"+strings.Repeat("a", rng.Intn(32)), "short-digest")
		mustReject(reg+"/"+part+":v1@sha256:"+strings.Repeat("a", 1+rng.Intn(31)), "short-digest")
		mustReject(reg+"/"+part+"@"+hex64, "digest-without-algorithm")
		mustReject(reg+"/"+part+"@sha256:"+strings.Repeat("g", 64), "non-hex-digest")
		sch := pick(rng, []string{"http", "https", "oci", "docker", "file", "ocidirs", "reg", "dir", "containers"})
		mustReject(sch+"://"+reg+"/"+part, "unknown-scheme")
		mustReject(sch+"://"+part+":v1", "unknown-scheme")
		mustReject("ocidir://", "empty-component")
		// a scheme separator needs a scheme in front of it
		mustReject("://"+reg+"/"+part, "empty-scheme")
		mustReject("://"+part+":v1", "empty-scheme")
		mustReject("://"+part, "empty-scheme")
		// schemes are lower-case letters only
		mustReject(pick(rng, []string{"OCIDIR", "Reg", "ocidir2", "oci-dir", "1reg"})+"://"+part, "malformed-scheme")
		if _, err := ref.NewHost("://" + reg); err == nil {
			run.Violation("newhost/empty-scheme", fmt.Sprintf("ref.NewHost(%q) accepted", "://"+reg), nil)
		}
		run.Distinct("reject-battery")
	})
	// (iv) mutations of valid references and arbitrary bytes: every accepted string obeys the laws
	parallel(nMut, "mut", func(rng *rand.Rand, i int) {
		var s string
		if rng.Intn(6) == 0 {
			s = "ocidir://" + pick(rng, pathPool)
			if rng.Intn(2) == 0 {
				s += ":" + randTag(rng)
			}
		} else {
			_, s, _ = expectFields(randComp(rng))
		}
		evalString(mutate(rng, s), "mutation")
	})
	parallel(nBytes, "bytes", func(rng *rand.Rand, i int) {
		n := rng.Intn(40)
		b := make([]byte, n)
		for j := range b {
			if rng.Intn(4) == 0 {
				b[j] = byte(rng.Intn(256))
			} else {
				b[j] = special[rng.Intn(len(special))]
			}
		}
		evalString(string(b), "bytes")
	})
	// NewHost: accepted hosts are stable, and a host is usable as the registry of a reference
	for _, h := range regPool {
		if h == "" {
			continue
		}
		run.Eval(1)
		r, err := ref.NewHost(h)
		if err != nil {
			if h == "registry" || h == "host-name" {
				continue
			}
			run.Violation("newhost/rejected", fmt.Sprintf("ref.NewHost(%q) rejected: %v", h, err), nil)
			continue
		}
		if r.Registry != h || r.Scheme != "reg" {
			run.Violation("newhost/fields", fmt.Sprintf("ref.NewHost(%q) = %s", h, fields(r)), nil)
		}
		r2, err := ref.New(h + "/repo:tag")
		want := h
		switch h {
		case "index.docker.io", "registry-1.docker.io":
			want = "docker.io"
		}
		if err != nil || r2.Registry != want {
			run.Violation("newhost/ref-mismatch", fmt.Sprintf("host %q accepted by NewHost but ref.New(%q) gives registry %q err %v", h, h+"/repo:tag", r2.Registry, err), nil)
		}
		run.Count("newhost_checked", 1)
	}
	for i := 0; i < ev.Scale(50000, 500000); i++ {
		h := mutate(rng, pick(rng, regPool))
		run.Eval(1)
		r, err := func() (r ref.Ref, err error) {
			defer func() {
				if p := recover(); p != nil {
					err = fmt.Errorf("panic")
					run.Violation("panic/ref.NewHost", fmt.Sprintf("ref.NewHost(%q) panicked: %v", h, p), nil)
				}
			}()
			return ref.NewHost(h)
		}()
		if err == nil && r.Scheme == "reg" {
			if r.Registry != h {
				run.Violation("newhost/reinterpreted", fmt.Sprintf("ref.NewHost(%q) gives registry %q", h, r.Registry), nil)
			}
			if strings.ContainsAny(h, "/@ \x00") {
				run.Violation("newhost/illegal-char", fmt.Sprintf("ref.NewHost(%q) accepted", h), nil)
			}
		}
	}
	if run.Get("accepted") < 1000 || run.Get("constructive_rejects") < 1000 {
		run.Inconclusive("too few accepted strings or constructive rejects")
	}
	os.Exit(run.Finish())
}
