// C14 — copy transfers only what the target lacks.
// Monitor: the request logs of the model registries (blob GETs with body at the source,
// upload sessions and manifest PUTs at the target, per digest) and, for layout targets,
// a before/after fingerprint of the directory.
package main

import (
	"crypto/sha256"
	"encoding/hex"
	"fmt"
	"io/fs"
	"os"
	"path/filepath"
	"sort"
	"strings"

	"verif/copyeng"
	"verif/ev"
	"verif/modelreg"
)

func dirFingerprint(dir string) string {
	h := sha256.New()
	var lines []string
	_ = filepath.WalkDir(dir, func(p string, d fs.DirEntry, err error) error {
		if err != nil {
			return nil
		}
		fi, err := d.Info()
		if err != nil {
			return nil
		}
		rel, _ := filepath.Rel(dir, p)
		l := fmt.Sprintf("%s %v %d", rel, fi.Mode(), fi.Size())
		if !d.IsDir() {
			b, _ := os.ReadFile(p)
			s := sha256.Sum256(b)
			l += fmt.Sprintf(" %x %d", s[:6], fi.ModTime().UnixNano())
		}
		lines = append(lines, l)
		return nil
	})
	sort.Strings(lines)
	for _, l := range lines {
		fmt.Fprintln(h, l)
	}
	return hex.EncodeToString(h.Sum(nil)[:10])
}

func main() {
	run := ev.Start("C14", "exploration")
	run.Rule("default-option copies of seeded graphs with arbitrary layer sharing, over every pairing and target pre-state (subsets of blobs / sub-images pre-existing, stale tag, complete), mount granted / declined / refused, latency jitter; fault-free except for every fifth case, which has one transient retryable fault (429/500/502/504/408/reset) on one blob HEAD at the target; " +
		"judged on the model registries' request logs; non-trivial = the copy succeeded and at least one of the minimality clauses was applicable (shared blob, pre-existing blob, mount, retag, identical target); distinct = case shape classes")
	run.Assume("runs with default options; no fault ever hits a transfer itself (a retried download legitimately repeats), the only fault injected is a single transient one on an existence probe, which the client absorbs by repeating the probe", "layout sides are observed at the registry end and by a before/after directory fingerprint",
		"a blob GET counts as a download when it was answered 200 with a body; HEAD requests and failed probes are free")
	rng := ev.Rand("c14")
	n := ev.Scale(1200, 16000)
	for i := 0; i < n; i++ {
		c := copyeng.RandomCase(rng, i)
		c.Opt = "default"
		c.Shape.Foreign = false
		switch i % 6 {
		case 0:
			c.Pair, c.Mount = "same-reg", "grant"
			if i%12 == 6 {
				// the registry decides per blob: a declined mount says nothing about the next blob
				c.Mount = "mixed"
				c.Pre = "empty"
			}
		case 1:
			c.Pair = "same-repo"
			c.Pre = "empty"
		case 2:
			c.Pre = "complete"
		case 3:
			c.Pre = "partial"
			c.Shape.Share = true
		case 5:
			// one blob wanted by many goroutines of the copy at the same instant
			c.Shape.DupLayer, c.Shape.DupTimes = true, 3+rng.Intn(6)
			c.Shape.Share = true
			if c.Pre == "complete" || c.Pre == "tagged-incomplete" || c.Pre == "tagged-manifest-gone" {
				c.Pre = "empty"
			}
		}
		if c.Pair == "dir2dir" {
			c.Pair = "reg2dir"
		}
		var preFP string
		// one transient, retryable fault on one of the target's existence probes (blob HEAD): fewer than the
		// retry limit, so the probe is repeated and its answer, not the fault, decides about the transfer
		probeFault := ""
		if i%5 == 4 && c.Pair != "same-repo" && !strings.HasSuffix(c.Pair, "2dir") {
			probeFault = []string{"status:429", "status:500", "status:502", "status:504", "status:408", "reset"}[rng.Intn(6)]
		}
		at := 1 + rng.Intn(4)
		var plan *modelreg.Plan
		r := copyeng.Run(c, copyeng.RunOpts{Prepare: func(r *copyeng.Result) {
			if r.Tgt.IsDir() {
				preFP = dirFingerprint(r.Tgt.Dir)
			}
			if probeFault != "" && !r.Tgt.IsDir() {
				tgtName, tgtRepo := r.Tgt.Host.Name, r.Tgt.Repo
				plan = (&modelreg.Plan{Faults: []*modelreg.Fault{{At: at, Action: probeFault, Match: func(e *modelreg.Event) bool {
					return e.Host == tgtName && e.Repo == tgtRepo && e.Kind == "blob" && e.Method == "HEAD"
				}}}}).Install(r.Tgt.Host)
			}
		}})
		if plan != nil && plan.FiredTotal() > 0 {
			run.Count("copies_with_one_transient_probe_fault", 1)
		}
		run.Eval(1)
		if r.Err != nil {
			run.Count("copies_failed", 1)
			if run.Get("copies_failed") <= 5 {
				fmt.Printf("note: case %d copy failed: %v [%s]\n", i, r.Err, c.Key())
			}
			r.Cleanup()
			continue
		}
		run.Count("copies_succeeded", 1)
		applicable := judge(run, r, preFP)
		if applicable {
			run.Distinct(c.Key())
		}
		if i < 3 {
			run.Sample(map[string]any{"case": c, "requests": len(r.Events)})
		}
		r.Cleanup()
	}
	run.Races(func(rep string) string {
		for _, frag := range []string{"/repo/image.go", "/repo/blob.go"} {
			if fn := ev.RaceFrame(rep, frag); fn != "" {
				return "race/image-copy/" + fn
			}
		}
		return ""
	})
	if int(run.Get("copies_succeeded")) < n*8/10 {
		run.Inconclusive("too many generated copies failed")
	}
	for _, k := range []string{"clause_preexisting_blob_cases", "clause_shared_blob_cases", "clause_mount_cases", "clause_retag_cases", "clause_identical_cases"} {
		if run.Get(k) == 0 {
			run.Inconclusive("clause never applicable: " + k)
		}
	}
	os.Exit(run.Finish())
}

func judge(run *ev.Run, r *copyeng.Result, preFP string) bool {
	c := r.Case
	applicable := false
	w := func(extra map[string]any) map[string]any {
		d := r.Describe()
		for k, v := range extra {
			d[k] = v
		}
		var reqs []string
		for _, e := range r.Events {
			reqs = append(reqs, fmt.Sprintf("%s %s %s %s -> %d", e.Host, e.Method, e.Path, e.Query, e.Status))
		}
		d["requests"] = reqs
		return d
	}
	srcGets := map[string]int{}    // blob digest -> GETs with body at the source repository
	commits := map[string]int{}    // blob digest -> committed uploads at the target repository
	bodyUp := 0                    // upload requests carrying bytes at the target
	manPuts := 0                   // manifest PUTs at the target
	mutating := 0                  // state-changing requests at the target endpoint
	blobReqs := 0                  // any blob / upload request anywhere
	mounts := 0
	isSrc := func(e *modelreg.Event) bool { return !r.Src.IsDir() && e.Host == r.Src.Host.Name && e.Repo == r.Src.Repo }
	isTgt := func(e *modelreg.Event) bool { return !r.Tgt.IsDir() && e.Host == r.Tgt.Host.Name && e.Repo == r.Tgt.Repo }
	for _, e := range r.Events {
		if strings.HasPrefix(e.Kind, "upload") || e.Kind == "blob" {
			blobReqs++
		}
		if isSrc(e) && e.Kind == "blob" && e.Method == "GET" && (e.Status == 200 || e.Status == 206) {
			srcGets[e.Ref]++
		}
		if isTgt(e) {
			if e.Mutating {
				mutating++
			}
			if e.Kind == "manifest" && e.Method == "PUT" {
				manPuts++
			}
			if (e.Kind == "upload-patch" || e.Kind == "upload-put") && e.BodyLen > 0 {
				bodyUp++
			}
			if e.Kind == "upload-put" && e.Status == 201 {
				if i := strings.Index(e.Note, "committed "); i >= 0 {
					commits[e.Note[i+len("committed "):]]++
				}
			}
			if e.Kind == "upload-start" && e.Status == 201 {
				mounts++
			}
		}
	}
	// (a) never download what the target repository already has
	nPre := 0
	for _, n := range r.G.Nodes {
		if n.IsManifest() || !r.PreHas[n.Digest] || c.Pair == "same-repo" {
			continue
		}
		nPre++
		if srcGets[n.Digest] > 0 {
			run.Violation("download-of-preexisting-blob/"+c.Pair+"/"+c.Pre, fmt.Sprintf("blob %s already existed in the target repository but was downloaded from the source %d time(s)", n.Digest, srcGets[n.Digest]), w(nil))
		}
		if commits[n.Digest] > 0 {
			run.Violation("upload-of-preexisting-blob/"+c.Pair+"/"+c.Pre, fmt.Sprintf("blob %s already existed in the target repository but was uploaded again", n.Digest), w(nil))
		}
	}
	if nPre > 0 && !r.Src.IsDir() {
		run.Count("clause_preexisting_blob_cases", 1)
		applicable = true
	}
	// (b) each distinct blob at most once
	shared := false
	refc := map[string]int{}
	for _, n := range r.G.Nodes {
		for _, cid := range n.Refs {
			if !r.G.Nodes[cid].IsManifest() {
				refc[r.G.Nodes[cid].Digest]++
			}
		}
	}
	for d, k := range refc {
		if k > 1 {
			shared = true
		}
		if srcGets[d] > 1 {
			run.Violation("blob-downloaded-twice/"+c.Pair, fmt.Sprintf("blob %s (referenced %d times) was downloaded %d times", d, k, srcGets[d]), w(nil))
		}
		if commits[d] > 1 {
			run.Violation("blob-uploaded-twice/"+c.Pair, fmt.Sprintf("blob %s (referenced %d times) was committed %d times at the target", d, k, commits[d]), w(nil))
		}
	}
	if shared && c.Pair != "same-repo" && c.Pre != "complete" && c.Pre != "tagged-incomplete" && c.Pre != "tagged-manifest-gone" {
		run.Count("clause_shared_blob_cases", 1)
		applicable = true
	}
	// (c) same registry, mount granted: no blob bytes move
	if c.Pair == "same-reg" && c.Mount == "grant" {
		nget := 0
		for _, k := range srcGets {
			nget += k
		}
		if nget > 0 || bodyUp > 0 {
			run.Violation("transfer-despite-mount", fmt.Sprintf("registry grants mounts but %d blob downloads and %d upload requests with a body were made", nget, bodyUp), w(nil))
		}
		if mounts > 0 {
			run.Count("clause_mount_cases", 1)
			run.Count("mounts_observed", mounts)
			applicable = true
		}
	}
	// (c') same registry, mounts decided per blob: what the registry would mount is not transferred
	if c.Pair == "same-reg" && c.Mount == "mixed" {
		granted := 0
		for _, n := range r.G.Nodes {
			if n.IsManifest() || !modelreg.MixedMountGrants(n.Digest) || r.PreHas[n.Digest] {
				continue
			}
			granted++
			if srcGets[n.Digest] > 0 || commits[n.Digest] > 0 {
				run.Violation("transfer-despite-mount/per-blob", fmt.Sprintf("the registry grants the mount of blob %s (it had declined others) but the blob was downloaded %d and uploaded %d time(s)", n.Digest, srcGets[n.Digest], commits[n.Digest]), w(nil))
			}
		}
		if granted > 0 && mounts > 0 {
			run.Count("clause_mount_per_blob_cases", 1)
			applicable = true
		}
	}
	// (d) retag within one repository
	if c.Pair == "same-repo" {
		run.Count("clause_retag_cases", 1)
		applicable = true
		if blobReqs > 0 {
			run.Violation("retag-touches-blobs", fmt.Sprintf("retag within one repository issued %d blob/upload requests", blobReqs), w(nil))
		}
		if manPuts != 1 {
			run.Violation("retag-manifest-puts", fmt.Sprintf("retag within one repository wrote %d manifests, want exactly 1", manPuts), w(nil))
		}
	}
	// (e) identical image already at the target tag: nothing is written
	if c.Pre == "complete" && c.Pair != "same-repo" {
		run.Count("clause_identical_cases", 1)
		applicable = true
		if !r.Tgt.IsDir() && mutating > 0 {
			run.Violation("write-to-identical-target/"+c.Pair, fmt.Sprintf("target already held the identical image but received %d state-changing requests", mutating), w(nil))
		}
		if r.Tgt.IsDir() {
			if post := dirFingerprint(r.Tgt.Dir); post != preFP {
				run.Violation("write-to-identical-target/layout", "target layout already held the identical image but files changed (content or mtime)", w(map[string]any{"pre": preFP, "post": post}))
			}
		}
		nget := 0
		for _, k := range srcGets {
			nget += k
		}
		if nget > 0 {
			run.Violation("download-for-identical-target/"+c.Pair, fmt.Sprintf("target already held the identical image but %d blobs were downloaded", nget), w(nil))
		}
	}
	return applicable
}
