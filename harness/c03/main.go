// C03 — a successful image copy leaves the complete, byte-identical image at the target.
// Monitor: independent closure expectation computed from the generated graph (ground truth of
// the source), the target's pre-state and the options; compared with the target's raw storage
// after ImageCopy returned nil.
package main

import (
	"fmt"
	"os"
	"path/filepath"
	"strings"

	"verif/copyeng"
	"verif/ev"
)

func main() {
	run := ev.Start("C03", "exploration")
	run.Rule("seeded image graphs (single, index, nested index, schema1, artifacts, blob-typed entries, shared / duplicate / empty layers, inline data, foreign layers, referrers, referrers of referrers, digest tags; sha256 and sha512) " +
		"x endpoint pairings (same repo, same registry with mount grant/decline/refuse, two registries, registry<->layout, two layouts) x target pre-states (empty, partial blobs, partial sub-images, stale tag, complete, tagged top manifest without content) " +
		"x options (default, force-recursive, referrers, filtered referrers, digest-tags, include-external, fast-check; referrers sent to another repository / layout than the image, sharing a layer or the empty config with it or not) x registry features (referrers API, HEAD digest header, tag paging) x latency jitter and GOMAXPROCS 1/4/16; " +
		"non-trivial = the copy returned nil and the expectation holds >=2 objects; distinct = distinct case shape classes")
	run.Assume("expectation rules are those of the statement: descent stops at manifests the target already held unless force-recursive; requested referrers / digest-tags are required for every manifest of the source closure",
		"fast-check is only combined with plain copies; platform-filtered copies are not generated",
		"the model registry stores and serves raw bytes; worlds are populated and judged through raw state, never through the client")
	rng := ev.Rand("c03")
	n := ev.Scale(1500, 20000)
	fails := 0
	for i := 0; i < n; i++ {
		c := copyeng.RandomCase(rng, i)
		r := copyeng.Run(c, copyeng.RunOpts{})
		run.Eval(1)
		run.SetAdd("distinct_request_orders", r.OrderHash)
		if r.Hung {
			run.Inconclusive(fmt.Sprintf("case %d hung: %s", i, c.Key()))
			r.Cleanup()
			continue
		}
		if r.Err != nil {
			if strings.HasPrefix(r.Err.Error(), "PANIC") {
				run.Violation("panic/"+c.Pair+"/"+c.Opt, r.Err.Error(), r.Describe())
			}
			fails++
			run.Count("copies_failed", 1)
			if fails <= 10 {
				fmt.Printf("note: case %d copy failed: %v [%s]\n", i, r.Err, c.Key())
			}
			run.SetAdd("failure_classes", c.Pair+"/"+c.Pre+"/"+c.Opt+"/"+c.Shape.Kind+"/"+c.Alg)
			r.Cleanup()
			continue
		}
		run.Count("copies_succeeded", 1)
		ex := copyeng.Expected(r.G, r.G.Top, r.PreFn(), r.Want)
		var diff []string
		top := r.G.Nodes[r.G.Top]
		if d, ok := r.Tgt.Tag(r.TgtTag); !ok {
			diff = append(diff, "target tag "+r.TgtTag+" does not exist")
		} else if d != top.Digest {
			diff = append(diff, fmt.Sprintf("target tag %s resolves to %s, source digest is %s", r.TgtTag, d, top.Digest))
		}
		diff = append(diff, copyeng.Verify(r.Tgt, ex)...)
		// copied referrers must also be discoverable: where the target keeps referrers in a fallback tag
		// (registry without the referrers API, layout) that tag has to list every required referrer
		if r.Want.Referrers && (r.Tgt.IsDir() || !r.Tgt.Host.Cfg.ReferrersAPI) && len(diff) == 0 {
			for _, n := range ex.Nodes {
				if n.Subject < 0 {
					continue
				}
				subj := r.G.Nodes[n.Subject].Digest
				listed, ok := copyeng.FallbackListed(r.Tgt, subj)
				run.Count("fallback_listings_checked", 1)
				if !ok || !listed[n.Digest] {
					diff = append(diff, fmt.Sprintf("referrer %s (node %d) was copied but the target's fallback tag for its subject %s does not list it", n.Digest, n.ID, subj))
				}
			}
		}
		run.Count("objects_required", len(ex.Nodes))
		run.Count("tags_required", len(ex.Tags)+1)
		if len(diff) > 0 {
			w := r.Describe()
			w["differences"] = diff
			cls := "missing"
			if strings.Contains(diff[0], "fallback tag") {
				cls = "referrer-not-listed"
			} else if strings.Contains(diff[0], "tag") {
				cls = "tag"
			} else if strings.Contains(diff[0], "differ") {
				cls = "bytes"
			}
			run.Violation(fmt.Sprintf("closure/%s/%s/%s/%s", cls, c.Pair, c.Pre, c.Opt), fmt.Sprintf("ImageCopy returned nil but: %s [%s]", strings.Join(diff, "; "), c.Key()), w)
		}
		if len(ex.Nodes) >= 2 {
			run.Distinct(c.Key())
		}
		if i < 4 {
			run.Sample(map[string]any{"case": c, "required_objects": len(ex.Nodes), "requests": len(r.Events)})
		}
		if r.Tgt.IsDir() {
			run.Count("layout_targets", 1)
		}
		r.Cleanup()
	}
	partElsewhere(run)
	if int(run.Get("copies_succeeded")) < n*8/10 {
		run.Inconclusive(fmt.Sprintf("only %d of %d generated copies succeeded; the workload is not representative", run.Get("copies_succeeded"), n))
	}
	for _, rep := range ev.RaceReports(filepath.Join(os.Getenv("VERIF_BIN"), "race")) {
		if strings.Contains(rep, "regclient.(*RegClient).imageCopy") || strings.Contains(rep, "imageSeenOrWait") {
			run.Violation("race/image-copy", "data race in the concurrent copy", rep)
		} else {
			run.Count("unattributed_race_reports", 1)
		}
	}
	os.Exit(run.Finish())
}
