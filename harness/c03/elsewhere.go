package main

// Referrers copied to another place than the image (ImageWithReferrerTgt): the image's own closure has to be
// complete at the image's target, and every referrer has to arrive "together with its own content" at the
// referrers' target - also when image and referrers share blobs (a layer, the empty config) and when both
// targets are layouts, which the client tells apart by their paths only.

import (
	"context"
	"fmt"
	"os"
	"strings"
	"time"

	"github.com/regclient/regclient"

	"verif/copyeng"
	"verif/ev"
	"verif/gen"
	la "verif/layoutaudit"
	"verif/modelreg"
	"verif/rcx"
)

func partElsewhere(run *ev.Run) {
	rng := ev.Rand("c03/elsewhere")
	n := ev.Scale(160, 1600)
	for i := 0; i < n; i++ {
		g := gen.New(rng, "sha256")
		cfg := g.Config("oci", nil, 1)
		l := g.Blob("layer", la.MTOCILayerGz, 30+rng.Intn(80))
		img := g.Image(cfg, []*gen.Node{l}, gen.ImageOpts{Family: "oci"})
		top := img
		if rng.Intn(3) == 0 {
			top = g.Index("oci", []*gen.Node{img}, nil, nil)
		}
		g.Top = top.ID
		g.Tags["v1"] = top.ID
		empty := g.BlobBytes("config", la.MTOCIEmpty, []byte("{}"))
		share := []string{"layer", "layer", "config-among-referrers", "none"}[rng.Intn(4)]
		var refs []*gen.Node
		for k := 0; k < 1+rng.Intn(2); k++ {
			rl := g.Blob("layer", "application/vnd.example.payload", 10+rng.Intn(40))
			if share == "layer" && k == 0 {
				rl = l // the signature "covers" the layer by carrying it: one blob under two manifests
			}
			rcfg := empty
			if share == "none" {
				rcfg = g.BlobBytes("config", la.MTOCIEmpty, []byte(fmt.Sprintf("{ %s}", strings.Repeat(" ", k+1))))
			}
			refs = append(refs, g.Image(rcfg, []*gen.Node{rl}, gen.ImageOpts{Family: "oci", Subject: top, ArtifactType: "application/vnd.example.sig", Annotations: map[string]string{"k": fmt.Sprint(k)}}))
		}
		w := modelreg.NewWorld()
		hs, ht := w.NewHost("src"), w.NewHost("tgt")
		hs.Cfg.ReferrersAPI, ht.Cfg.ReferrersAPI = rng.Intn(2) == 0, rng.Intn(2) == 0
		var dirs []string
		mkDir := func() string {
			d, _ := os.MkdirTemp(os.Getenv("VERIF_BIN"), "c03e")
			dirs = append(dirs, d)
			return d
		}
		src := copyeng.Endpoint{Host: hs, Repo: "proj/app"}
		if rng.Intn(3) == 0 {
			src = copyeng.Endpoint{Dir: mkDir()}
		}
		pair := []string{"two-repos", "two-layouts", "two-layouts", "two-layouts", "registry+layout", "layout+registry"}[rng.Intn(6)]
		var t1, t2 copyeng.Endpoint
		switch pair {
		case "two-repos":
			t1, t2 = copyeng.Endpoint{Host: ht, Repo: "mirror/app"}, copyeng.Endpoint{Host: ht, Repo: "mirror/app-signatures"}
		case "two-layouts":
			t1, t2 = copyeng.Endpoint{Dir: mkDir()}, copyeng.Endpoint{Dir: mkDir()}
		case "registry+layout":
			t1, t2 = copyeng.Endpoint{Host: ht, Repo: "mirror/app"}, copyeng.Endpoint{Dir: mkDir()}
		default:
			t1, t2 = copyeng.Endpoint{Dir: mkDir()}, copyeng.Endpoint{Host: ht, Repo: "mirror/app-signatures"}
		}
		cleanup := func() {
			w.Close()
			for _, d := range dirs {
				_ = os.RemoveAll(d)
			}
		}
		if err := copyeng.Populate(src, g); err != nil {
			run.Inconclusive("harness: cannot populate the source of a referrers-elsewhere case: " + err.Error())
			cleanup()
			continue
		}
		rc := rcx.New([]*modelreg.Host{hs, ht}, rcx.Opts{})
		ctx, cancel := context.WithTimeout(context.Background(), 60*time.Second)
		err := rc.ImageCopy(ctx, src.Ref("v1"), t1.Ref("v1"), regclient.ImageWithReferrers(), regclient.ImageWithReferrerTgt(t2.Ref("")))
		cancel()
		_ = rc.Close(context.Background(), t1.Ref(""))
		_ = rc.Close(context.Background(), t2.Ref(""))
		w.WaitIdle()
		run.Eval(1)
		cls := fmt.Sprintf("%s/shared-%s", pair, share)
		wit := map[string]any{"source": src.String(), "image_target": t1.String(), "referrers_target": t2.String(), "shared_between_image_and_referrers": share, "top": top.Digest, "top_kind": top.Kind, "referrers": len(refs)}
		if err != nil {
			run.Count("elsewhere_copies_failed", 1)
			if run.Get("elsewhere_copies_failed") <= 5 {
				fmt.Printf("note: referrers-elsewhere case %d failed: %v [%s]\n", i, err, cls)
			}
			cleanup()
			continue
		}
		run.Count("elsewhere_copies_succeeded", 1)
		none := func(*gen.Node) bool { return false }
		var diff []string
		if d, ok := t1.Tag("v1"); !ok || d != top.Digest {
			diff = append(diff, "the image's target tag does not resolve to the source digest")
		}
		for _, p := range copyeng.Verify(t1, copyeng.Expected(g, top.ID, none, copyeng.Want{})) {
			diff = append(diff, "image target: "+p)
		}
		for _, r := range refs {
			for _, p := range copyeng.Verify(t2, copyeng.Expected(g, r.ID, none, copyeng.Want{})) {
				diff = append(diff, fmt.Sprintf("referrers target, referrer %s: %s", r.Digest[:19], p))
			}
		}
		run.Count("objects_required", 3+3*len(refs))
		if len(diff) > 0 {
			wit["differences"] = diff
			run.Violation("closure/missing/referrers-elsewhere/"+cls, fmt.Sprintf("ImageCopy with referrers sent to %s returned nil but: %s", t2.String(), strings.Join(diff, "; ")), wit)
		} else {
			run.Distinct("referrers-elsewhere/" + cls + fmt.Sprintf("/src-dir=%t/top=%s", src.IsDir(), top.Kind))
		}
		cleanup()
	}
	if run.Get("elsewhere_copies_succeeded") < int64(n*8/10) {
		run.Inconclusive(fmt.Sprintf("only %d of %d referrers-elsewhere copies succeeded", run.Get("elsewhere_copies_succeeded"), n))
	}
}
