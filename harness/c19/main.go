// C19 — a dry run of the scripting tool changes nothing.
//
// Workload: the regbot binary built from the repository, run as a child process
// (`regbot once [--dry-run] -c cfg.yml`) on generated configurations of 1-5 Lua scripts
// that call every binding the sandbox registers, against model registries and OCI layout
// directories that already hold images.
//
// Monitors (all raw, nothing is read back through regclient):
//  1. the request log of every model registry: no request with a method other than
//     GET/HEAD may arrive during a dry run;
//  2. a recursive snapshot (names, sizes, sha256, mtimes, modes) of the whole scratch
//     directory of the case, taken before and after the dry run: no file below a layout
//     directory may be created, modified or removed;
//  3. read-only scripts are run a second time without --dry-run on the (verified
//     unchanged) world and the results they log must be the same;
//  4. scripts that end with an uncaught error must stop there, and the end markers of
//     all other scripts must still appear; the process must not crash.
package main

import (
	"bytes"
	"context"
	"encoding/json"
	"fmt"
	"math/rand"
	"net/http"
	"os"
	"os/exec"
	"path/filepath"
	"runtime"
	"sort"
	"strings"
	"sync"
	"time"

	"verif/ev"
	"verif/modelreg"
)

// conf is one generated regbot configuration.
type conf struct {
	Case      int
	Kind      string // readonly | mixed | core
	Scripts   []*script
	Parallel  int
	Timeout   string
	Verbosity string
	Assign    map[string]string // loc.ID -> class
	RLHosts   map[string]bool
	Text      string
}

func (c *conf) failing() []string {
	var k []string
	for _, s := range c.Scripts {
		if s.Kind != "ok" {
			k = append(k, s.Kind)
		}
	}
	sort.Strings(k)
	return k
}

func (c *conf) mode() string {
	if c.Parallel > 0 {
		return "parallel"
	}
	return "sequential"
}

var failKinds = []string{"fail-error", "fail-runtime", "fail-binding", "fail-gopanic"}

// coreCases: one configuration per (class, target kind) so that every state-changing
// binding is examined against a registry and against a layout at every seed.
func coreCases() [][2]string {
	var out [][2]string
	for _, cl := range mutClasses {
		out = append(out, [2]string{cl, "reg"}, [2]string{cl, "dir"})
	}
	return out
}

func genConf(rng *rand.Rand, w *world, idx int) *conf {
	c := &conf{Case: idx, Assign: map[string]string{}, RLHosts: map[string]bool{}, Verbosity: []string{"info", "info", "debug"}[rng.Intn(3)]}
	for _, h := range w.Hosts {
		if rng.Intn(3) == 0 {
			c.RLHosts[h.Name] = true
		}
	}
	core := coreCases()
	nScripts := 1 + rng.Intn(5)
	switch {
	case idx < len(core):
		c.Kind = "core"
		cl, kind := core[idx][0], core[idx][1]
		for _, l := range w.Locs {
			if (kind == "dir") != l.isDir() {
				continue
			}
			if !l.Exists && (cl == clTagDelete || cl == clManDelete) {
				continue
			}
			c.Assign[l.ID] = cl
		}
		nScripts = 1 + rng.Intn(2)
	case rng.Intn(100) < 30:
		c.Kind = "readonly"
		nScripts = 1 + rng.Intn(3)
	default:
		c.Kind = "mixed"
		for _, l := range w.Locs {
			if rng.Intn(10) < 3 {
				continue
			}
			cls := mutClasses
			if !l.Exists {
				cls = []string{clManPut, clBlobPut, clCopy, clImport}
			}
			c.Assign[l.ID] = cls[rng.Intn(len(cls))]
		}
	}
	if rng.Intn(2) == 0 {
		c.Parallel = 1 + rng.Intn(4)
	}
	// every configuration carries a script time-out well below the watchdog: a script that blocks for ever (e.g. on a
	// request slot another, failed script never released) then ends with a time-out error and is judged by the
	// end-marker rule instead of making the whole run inconclusive. Generated scripts finish within milliseconds.
	c.Timeout = "12s"
	withFail := nScripts > 1 && rng.Intn(100) < 55
	if withFail && rng.Intn(2) == 0 {
		// one shared request slot: whatever a failing script keeps holding blocks every later script
		c.Parallel = 1
	}
	for i := 0; i < nScripts; i++ {
		name := fmt.Sprintf("c%d-s%d", idx, i)
		if rng.Intn(4) == 0 {
			name = fmt.Sprintf("job %d of case %d", i, idx)
		}
		kind := "ok"
		if (withFail && i == nScripts/2) || (nScripts > 1 && rng.Intn(6) == 0) || (nScripts == 1 && rng.Intn(8) == 0) {
			kind = failKinds[rng.Intn(len(failKinds))]
		}
		ro := c.Kind == "readonly" || (c.Kind == "mixed" && rng.Intn(4) == 0)
		n := 3 + rng.Intn(9)
		s := genScript(rng, w, c.Assign, c.RLHosts, ro, name, kind, fmt.Sprintf("x%ds%d", idx, i), n, c.Kind == "core" && i == 0)
		if rng.Intn(4) == 0 {
			s.Timeout = "10s"
		}
		c.Scripts = append(c.Scripts, s)
	}
	// if every script fails there is nothing to check for clause 4; keep at least one that survives
	if nScripts > 1 {
		all := true
		for _, s := range c.Scripts {
			if s.Kind == "ok" {
				all = false
			}
		}
		if all {
			s := c.Scripts[nScripts-1]
			c.Scripts[nScripts-1] = genScript(rng, w, c.Assign, c.RLHosts, s.ReadOnly, s.Name, "ok", "y"+fmt.Sprint(idx), 4, false)
		}
	}
	c.Text = renderConf(c, w, rng)
	return c
}

func renderConf(c *conf, w *world, rng *rand.Rand) string {
	var b strings.Builder
	b.WriteString("version: 1\ncreds:\n")
	for _, h := range w.Hosts {
		fmt.Fprintf(&b, "  - registry: %s\n    tls: disabled\n", h.Addr())
		// blob.get hands the script an open reader that nothing ever closes and that keeps its
		// request slot: with the default of 3 slots per registry the fourth request would wait forever
		b.WriteString("    reqConcurrent: 1000\n")
		if rng.Intn(3) == 0 {
			b.WriteString("    blobChunk: 256\n    blobMax: 128\n")
		}
	}
	b.WriteString("defaults:\n  skipDockerConfig: true\n")
	if c.Parallel > 0 {
		fmt.Fprintf(&b, "  parallel: %d\n", c.Parallel)
	}
	if c.Timeout != "" {
		fmt.Fprintf(&b, "  timeout: %s\n", c.Timeout)
	}
	b.WriteString("scripts:\n")
	for _, s := range c.Scripts {
		fmt.Fprintf(&b, "  - name: %q\n", s.Name)
		if s.Timeout != "" {
			fmt.Fprintf(&b, "    timeout: %s\n", s.Timeout)
		}
		b.WriteString("    script: |\n")
		for _, l := range strings.Split(strings.TrimRight(s.Text, "\n"), "\n") {
			b.WriteString("      " + l + "\n")
		}
	}
	return b.String()
}

// ---------------------------------------------------------------------------------------
// running the binary

type runResult struct {
	Args     []string
	Exit     int
	TimedOut bool
	StartErr string
	Stderr   string
	Stdout   string
	Msgs     map[string][]string // script name -> messages logged by the script, in order
	Reported map[string]string   // script name -> error regbot reported for it
	Crash    string
}

type logLine struct {
	Level   string `json:"level"`
	Msg     string `json:"msg"`
	Script  string `json:"script"`
	Message string `json:"message"`
	Error   string `json:"error"`
}

func runRegbot(bin, cfgPath string, w *world, dry bool, verbosity string) *runResult {
	args := []string{"once", "-c", cfgPath, "--logopt", "json", "-v", verbosity}
	if dry {
		args = append(args, "--dry-run")
	}
	ctx, cancel := context.WithTimeout(context.Background(), 180*time.Second)
	defer cancel()
	cmd := exec.CommandContext(ctx, bin, args...)
	cmd.Dir = w.HomeDir
	cmd.Env = []string{"HOME=" + w.HomeDir, "PATH=/usr/bin:/bin", "DOCKER_CONFIG=" + filepath.Join(w.HomeDir, "no-docker"), "TMPDIR=" + filepath.Join(w.Root, "tmp"),
		"NO_PROXY=*", "no_proxy=*"}
	var so, se bytes.Buffer
	cmd.Stdout, cmd.Stderr = &so, &se
	cmd.WaitDelay = 5 * time.Second
	err := cmd.Run()
	r := &runResult{Args: args, Msgs: map[string][]string{}, Reported: map[string]string{}, Stderr: se.String(), Stdout: so.String()}
	if ctx.Err() != nil {
		r.TimedOut = true
	}
	if err != nil {
		if ee, ok := err.(*exec.ExitError); ok {
			r.Exit = ee.ExitCode()
		} else {
			r.StartErr = err.Error()
			r.Exit = -1
		}
	}
	for _, l := range strings.Split(r.Stderr, "\n") {
		if !strings.HasPrefix(l, "{") {
			continue
		}
		var ll logLine
		if json.Unmarshal([]byte(l), &ll) != nil {
			continue
		}
		switch ll.Msg {
		case "User script message":
			r.Msgs[ll.Script] = append(r.Msgs[ll.Script], ll.Message)
		case "Error running script":
			r.Reported[ll.Script] = ll.Error
		}
	}
	if !r.TimedOut {
		switch {
		case strings.Contains(r.Stderr, "\npanic: ") || strings.HasPrefix(r.Stderr, "panic: "):
			r.Crash = "panic"
		case strings.Contains(r.Stderr, "fatal error: "):
			r.Crash = "fatal error"
		case r.Exit != 0 && r.Exit != 1:
			r.Crash = fmt.Sprintf("exit status %d", r.Exit)
		}
	}
	return r
}

func tail(s string, n int) string {
	if len(s) > n {
		return "…" + s[len(s)-n:]
	}
	return s
}

func tailHead(s string, n int) string {
	if len(s) > n {
		return s[:n] + "…"
	}
	return s
}

func has(msgs []string, m string) bool {
	for _, x := range msgs {
		if x == m {
			return true
		}
	}
	return false
}

// crashFrame names the first regclient frame of a Go crash dump.
func crashFrame(stderr string) string {
	for _, l := range strings.Split(stderr, "\n") {
		l = strings.TrimSpace(l)
		if strings.HasPrefix(l, "github.com/regclient/regclient") && strings.Contains(l, "(") {
			f := l[:strings.LastIndex(l, "(")]
			return strings.TrimPrefix(f, "github.com/regclient/regclient/")
		}
	}
	return "unknown"
}

// ---------------------------------------------------------------------------------------

type checker struct {
	run    *ev.Run
	regbot string
	bin    string
	mu     sync.Mutex
	// first observations kept for the evidence file
	exportNote string
	debug      bool
	solo       int
	violated   map[string]bool // classes with a dry-run violation in this run
}

// observation of one run of the binary on a world
type observation struct {
	Res       *runResult
	Events    []*modelreg.Event
	StateDiff []string
	FSDiff    []fsChange
}

func (ck *checker) observe(w *world, cfgPath string, dry bool, verbosity string) *observation {
	w.W.WaitIdle()
	w.W.ResetLog()
	st0 := regState(w)
	fs0 := snapDir(w.Root)
	res := runRegbot(ck.regbot, cfgPath, w, dry, verbosity)
	w.W.WaitIdle()
	o := &observation{Res: res, Events: w.W.Log()}
	o.StateDiff = diffState(st0, regState(w))
	o.FSDiff = diffDir(fs0, snapDir(w.Root))
	return o
}

func (ck *checker) witness(c *conf, w *world, o *observation, extra map[string]any) map[string]any {
	var reqs []string
	for _, e := range o.Events {
		if e.Mutating {
			reqs = append(reqs, fmt.Sprintf("%s %s %s%s -> %d (applied=%t)", e.Host, e.Method, e.Path, ifq(e.Query), e.Status, e.Applied))
		}
	}
	if len(reqs) > 12 {
		reqs = append(reqs[:12], fmt.Sprintf("… %d more", len(reqs)-12))
	}
	fsd := o.FSDiff
	if len(fsd) > 20 {
		fsd = fsd[:20]
	}
	sd := o.StateDiff
	if len(sd) > 12 {
		sd = sd[:12]
	}
	wit := map[string]any{
		"how_to_reproduce":     fmt.Sprintf("VERIF_SEED=%d VERIF_TIER=%s ./check C19 regenerates case %d; or: build the world below and run `regbot %s` with the config", ev.Seed(), ev.Tier(), c.Case, strings.Join(o.Res.Args, " ")),
		"case":                 c.Case,
		"config_kind":          c.Kind,
		"world":                w.Desc,
		"targets_by_class":     c.Assign,
		"config":               c.Text,
		"regbot_args":          o.Res.Args,
		"exit_status":          o.Res.Exit,
		"state_changing_reqs":  reqs,
		"registry_state_diff":  sd,
		"filesystem_diff":      fsd,
		"errors_regbot_logged": o.Res.Reported,
		"stderr_tail":          tail(o.Res.Stderr, 1500),
	}
	for k, v := range extra {
		wit[k] = v
	}
	return wit
}

func ifq(q string) string {
	if q == "" {
		return ""
	}
	return "?" + q
}

// locOf maps a request / a path below the guard directory to the location it belongs to.
func locOfEvent(w *world, e *modelreg.Event) *loc {
	for _, l := range w.Locs {
		if !l.isDir() && l.Host.Name == e.Host && l.Repo == e.Repo {
			return l
		}
	}
	return nil
}

func locOfPath(w *world, rel string) *loc {
	for _, l := range w.Locs {
		if !l.isDir() {
			continue
		}
		lr, _ := filepath.Rel(w.Root, l.Dir)
		if rel == lr || strings.HasPrefix(rel, lr+string(filepath.Separator)) {
			return l
		}
	}
	return nil
}

func isFileChange(c fsChange) bool {
	switch c.What {
	case "created", "removed", "modified", "mtime":
		return true
	}
	return false
}

// labelBinding extracts the binding spelling from a logged label such as "12:m:put/t0".
func labelBinding(label string) string {
	b, _ := splitLabel(label)
	return b
}

// splitLabel returns the binding spelling and (for state-changing calls) the id of the
// location the call was aimed at: "12:m:put@h0/r1/t0" -> "m:put", "h0/r1/t0"-prefix.
func splitLabel(label string) (binding, at string) {
	label = strings.TrimPrefix(label, "~")
	if i := strings.IndexByte(label, ':'); i >= 0 {
		label = label[i+1:]
	}
	if i := strings.IndexByte(label, '@'); i >= 0 {
		return label[:i], label[i+1:]
	}
	if i := strings.IndexByte(label, '/'); i >= 0 {
		label = label[:i]
	}
	return label, ""
}

// executed counts, per binding, the call sites a run reports to have executed.
func executed(res *runResult) (calls map[string]int, okc map[string]int) {
	calls, okc = map[string]int{}, map[string]int{}
	for _, msgs := range res.Msgs {
		for _, m := range msgs {
			p := strings.SplitN(m, "|", 4)
			if len(p) < 3 || (p[0] != "R" && p[0] != "M") {
				continue
			}
			b := labelBinding(p[1])
			calls[b]++
			if p[2] == "ok" {
				okc[b]++
			}
		}
	}
	return
}

// judgeMutation applies clauses 1 and 2 to the observation of a dry run. It returns true
// when the world is exactly as before (so it can be reused for the differential).
func (ck *checker) judgeMutation(c *conf, w *world, o *observation) bool {
	run := ck.run
	clean := true
	byFP := map[string][]string{}
	nMut := 0
	for _, e := range o.Events {
		if !e.Mutating {
			continue
		}
		if e.Kind == "token" {
			run.Count("token_requests_ignored", 1)
			continue
		}
		nMut++
		fp := "dryrun-mutation/request-outside-any-generated-target"
		if l := locOfEvent(w, e); l != nil {
			if cl := c.Assign[l.ID]; cl != "" {
				fp = "dryrun-mutation/" + cl
			} else {
				fp = "dryrun-mutation/location-no-state-changing-call-names"
			}
		}
		byFP[fp] = append(byFP[fp], fmt.Sprintf("%s %s %s -> %d", e.Host, e.Method, e.Path, e.Status))
	}
	run.Count("requests_seen_in_dry_runs", len(o.Events))
	run.Count("state_changing_requests_in_dry_runs", nMut)
	for fp, reqs := range byFP {
		clean = false
		ck.noteViolated(fp)
		run.Violation(fp, fmt.Sprintf("regbot once --dry-run sent %d state-changing request(s) to a model registry, first: %s (config case %d, %s)", len(reqs), reqs[0], c.Case, c.Kind),
			ck.witness(c, w, o, map[string]any{"requests_of_this_fingerprint": head(reqs, 10), "executed_call_sites_of_this_class": callSites(c, o.Res, fp[strings.IndexByte(fp, '/')+1:], false)}))
	}
	if len(byFP) == 0 && len(o.StateDiff) > 0 {
		// cannot happen without a request; would be a defect of the model registry
		clean = false
		run.Inconclusive(fmt.Sprintf("case %d: registry state changed without a state-changing request: %v", c.Case, head(o.StateDiff, 3)))
	}
	layoutFP := map[string][]string{}
	for _, ch := range o.FSDiff {
		clean = false
		l := locOfPath(w, ch.Path)
		switch {
		case l != nil && isFileChange(ch):
			fp := "dryrun-layout-change/location-no-state-changing-call-names"
			if cl := c.Assign[l.ID]; cl != "" {
				fp = "dryrun-layout-change/" + cl
			}
			layoutFP[fp] = append(layoutFP[fp], ch.What+" "+ch.Path)
		case l != nil:
			run.Count("dry_run_layout_directory_only_changes_not_judged", 1)
		case strings.HasPrefix(ch.Path, "out"+string(filepath.Separator)):
			run.Count("dry_run_exportTar_output_files_written_not_judged", 1)
			ck.mu.Lock()
			if ck.exportNote == "" {
				ck.exportNote = fmt.Sprintf("case %d: image.exportTar %s %s during --dry-run (an archive file the script named, not a registry and not a layout: outside the statement, reported only)", c.Case, ch.What, ch.Path)
			}
			ck.mu.Unlock()
		default:
			run.Count("dry_run_other_scratch_changes_not_judged", 1)
		}
	}
	for fp, chs := range layoutFP {
		ck.noteViolated(fp)
		run.Violation(fp, fmt.Sprintf("regbot once --dry-run changed %d file(s) of an OCI layout, first: %s (config case %d, %s)", len(chs), chs[0], c.Case, c.Kind),
			ck.witness(c, w, o, map[string]any{"layout_changes_of_this_fingerprint": head(chs, 12), "executed_call_sites_of_this_class": callSites(c, o.Res, fp[strings.IndexByte(fp, '/')+1:], true)}))
	}
	return clean
}

// callSites lists the generated Lua lines of state-changing calls of a class that the run
// reports to have executed (registry or layout targets), for the witness.
func callSites(c *conf, res *runResult, class string, dirs bool) []string {
	var out []string
	for _, s := range c.Scripts {
		called := map[string]bool{}
		for _, m := range res.Msgs[s.Name] {
			if strings.HasPrefix(m, "C|") {
				l := strings.TrimPrefix(m, "C|")
				if i := strings.IndexByte(l, ':'); i > 0 {
					called[l[:i]] = true // statement number
				}
			}
		}
		for _, line := range strings.Split(s.Text, "\n") {
			t := strings.TrimSpace(line)
			if !strings.HasPrefix(t, "M(\"") {
				continue
			}
			lab := t[3:]
			if i := strings.IndexByte(lab, '"'); i > 0 {
				lab = lab[:i]
			}
			b, at := splitLabel(lab)
			no := lab[:strings.IndexByte(lab, ':')]
			isDir := strings.HasPrefix(at, "d")
			if classOf[b] == class && called[no] && isDir == dirs {
				out = append(out, s.Name+": "+t)
			}
		}
	}
	return head(out, 8)
}

func (ck *checker) noteViolated(fp string) {
	ck.mu.Lock()
	ck.violated[fp[strings.IndexByte(fp, '/')+1:]] = true
	ck.mu.Unlock()
}

func head(s []string, n int) []string {
	if len(s) > n {
		return s[:n]
	}
	return s
}

// judgeScripts applies clause 4 to one run (either mode).
func (ck *checker) judgeScripts(c *conf, w *world, o *observation, cfgDir string, dry bool) {
	run := ck.run
	res := o.Res
	mode := "normal"
	if dry {
		mode = "dry-run"
	}
	if res.Crash != "" {
		run.Violation("regbot-crash/"+crashFrame(res.Stderr), fmt.Sprintf("regbot (%s) crashed with %s on generated configuration case %d", mode, res.Crash, c.Case), ck.witness(c, w, o, nil))
		return
	}
	fails := c.failing()
	expectExit := 0
	for _, s := range c.Scripts {
		msgs := res.Msgs[s.Name]
		// the point every script must reach whatever the others do: its end, or the statement that raises its error
		want := "END"
		if s.Kind != "ok" {
			want = "BEFORE-FAIL"
			expectExit = 1
			run.Count("failing_scripts_run/"+s.Kind, 1)
		} else {
			run.Count("end_markers_expected", 1)
		}
		others := 0 // failing scripts other than s
		for _, o := range c.Scripts {
			if o != s && o.Kind != "ok" {
				others++
			}
		}
		if !has(msgs, want) {
			// is it the other scripts' fault? run this one alone on the same world
			ck.mu.Lock()
			ck.solo++
			n := ck.solo
			ck.mu.Unlock()
			if n > 60 {
				run.Count("lost_scripts_not_examined_after_60_confirmations", 1)
				continue
			}
			solo := *c
			solo.Scripts = []*script{s}
			solo.Text = renderConf(&solo, w, ev.Rand(fmt.Sprintf("c19/solo/%d", c.Case)))
			p := filepath.Join(cfgDir, "solo.yml")
			_ = os.WriteFile(p, []byte(solo.Text), 0o644)
			so := ck.observe(w, p, dry, c.Verbosity)
			run.Count("solo_confirmation_runs", 1)
			switch {
			case has(so.Res.Msgs[s.Name], want) && others > 0:
				run.Violation(fmt.Sprintf("failing-script-blocks-others/%s/%s", c.mode(), fails[0]),
					fmt.Sprintf("script %q reaches %s when run alone but not next to a script that raises an error (%s, %s, case %d)", s.Name, want, mode, c.mode(), c.Case),
					ck.witness(c, w, o, map[string]any{"blocked_script": s.Name, "its_messages": head(msgs, 20), "failing_kinds": fails}))
			case has(so.Res.Msgs[s.Name], want):
				// no other script raised an error: outside the statement
				run.Count("scripts_lost_although_no_other_script_failed_not_judged", 1)
				fmt.Printf("note: case %d (%s): script %q reaches %s alone but not within its configuration, and no other script fails\n", c.Case, mode, s.Name, want)
			default:
				run.Inconclusive(fmt.Sprintf("case %d: generated script %q does not reach %s even alone (%s): %s", c.Case, s.Name, want, mode, tail(so.Res.Stderr, 400)))
			}
			continue
		}
		if s.Kind == "ok" {
			run.Count("end_markers_seen", 1)
			if others > 0 {
				run.Count("surviving_scripts_next_to_a_failing_one/"+c.mode(), 1)
			}
			continue
		}
		if has(msgs, "AFTER-FAIL") || has(msgs, "END") {
			run.Violation("error-does-not-stop-script/"+s.Kind, fmt.Sprintf("script %q continued after raising an uncaught error (%s, case %d)", s.Name, mode, c.Case),
				ck.witness(c, w, o, map[string]any{"script": s.Name, "its_messages": head(msgs, 30)}))
			continue
		}
		run.Count("failing_scripts_stopped_at_error", 1)
		if _, ok := res.Reported[s.Name]; ok {
			run.Count("failing_scripts_reported_by_regbot", 1)
		}
	}
	if res.Exit != expectExit {
		run.Count("exit_status_differs_from_expectation_not_judged", 1)
	}
}

// comparable is the part of a script's log that the differential compares.
func comparable(msgs []string) []string {
	var out []string
	for _, m := range msgs {
		if strings.HasPrefix(m, "R|~") {
			continue // result depends on a timer (ratelimitWait waiting path)
		}
		out = append(out, m)
	}
	return out
}

func firstDiff(a, b []string) (int, string, string) {
	for i := 0; i < len(a) || i < len(b); i++ {
		var x, y string
		if i < len(a) {
			x = a[i]
		} else {
			x = "<no further message>"
		}
		if i < len(b) {
			y = b[i]
		} else {
			y = "<no further message>"
		}
		if x != y {
			return i, x, y
		}
	}
	return -1, "", ""
}

func (ck *checker) differential(c *conf, w *world, cfgPath string, dryObs *observation) {
	run := ck.run
	norm := ck.observe(w, cfgPath, false, c.Verbosity)
	run.Count("normal_runs", 1)
	if norm.Res.TimedOut {
		run.Inconclusive(fmt.Sprintf("case %d: normal-mode run hit the watchdog", c.Case))
		return
	}
	ck.judgeScripts(c, w, norm, filepath.Dir(cfgPath), false)
	nm := 0
	for _, e := range norm.Events {
		if e.Mutating {
			nm++
		}
	}
	if nm > 0 || len(norm.FSDiff) > 0 {
		run.Count("readonly_config_changed_something_in_normal_mode_not_judged", 1)
	}
	for _, s := range c.Scripts {
		want := "END"
		if s.Kind != "ok" {
			want = "BEFORE-FAIL"
		}
		if !has(dryObs.Res.Msgs[s.Name], want) || !has(norm.Res.Msgs[s.Name], want) {
			// a script that was cut short is clause 4's business (judgeScripts), its log says nothing about read results
			run.Count("readonly_scripts_not_compared_because_cut_short", 1)
			continue
		}
		a, b := comparable(dryObs.Res.Msgs[s.Name]), comparable(norm.Res.Msgs[s.Name])
		run.Count("readonly_scripts_compared", 1)
		run.Count("readonly_result_lines_compared", len(a))
		for _, m := range a {
			if strings.HasPrefix(m, "R|") && strings.Contains(m, "|ok|") {
				run.Count("readonly_successful_results_compared", 1)
			}
		}
		i, x, y := firstDiff(a, b)
		if i < 0 {
			continue
		}
		// reproducible and correlated with the mode? run both modes once more
		d2 := ck.observe(w, cfgPath, true, c.Verbosity)
		n2 := ck.observe(w, cfgPath, false, c.Verbosity)
		a2, b2 := comparable(d2.Res.Msgs[s.Name]), comparable(n2.Res.Msgs[s.Name])
		i1, _, _ := firstDiff(a, a2)
		i2, _, _ := firstDiff(b, b2)
		if i1 >= 0 || i2 >= 0 {
			run.Count("readonly_results_not_reproducible_within_one_mode_not_judged", 1)
			continue
		}
		binding := "marker"
		if p := strings.SplitN(x, "|", 4); len(p) >= 3 {
			binding = labelBinding(p[1])
		} else if p := strings.SplitN(y, "|", 4); len(p) >= 3 {
			binding = labelBinding(p[1])
		}
		run.Violation("readonly-result-differs/"+binding, fmt.Sprintf("read-only script %q logs different results with and without --dry-run on the same world (message %d, reproducible), case %d", s.Name, i, c.Case),
			ck.witness(c, w, dryObs, map[string]any{"script": s.Name, "message_index": i, "dry_run_logged": tail(x, 600), "normal_run_logged": tail(y, 600)}))
	}
}

// effectiveness runs a mixed configuration without --dry-run and records which classes
// the monitors can see changing something — evidence that silence in a dry run means
// "gated", not "invisible". It also cross-checks the generator's target bookkeeping.
func (ck *checker) effectiveness(c *conf, w *world, cfgPath string) {
	run := ck.run
	norm := ck.observe(w, cfgPath, false, c.Verbosity)
	run.Count("normal_runs", 1)
	if ck.debug {
		fmt.Printf("---- normal run exit=%d timedout=%t\n%s\n", norm.Res.Exit, norm.Res.TimedOut, norm.Res.Stderr)
	}
	if norm.Res.TimedOut {
		run.Inconclusive(fmt.Sprintf("case %d: normal-mode run hit the watchdog", c.Case))
		return
	}
	ck.judgeScripts(c, w, norm, filepath.Dir(cfgPath), false)
	seen := map[string]bool{}
	for _, e := range norm.Events {
		if !e.Mutating {
			continue
		}
		l := locOfEvent(w, e)
		if l == nil || c.Assign[l.ID] == "" {
			run.Count("selfcheck_normal_mode_request_at_unassigned_location", 1)
			fmt.Printf("note: case %d normal mode: state-changing request at a location without assigned class: %s %s %s\n", c.Case, e.Host, e.Method, e.Path)
			continue
		}
		seen["normal_mode_changes_seen/"+c.Assign[l.ID]+"/registry"] = true
	}
	for _, ch := range norm.FSDiff {
		l := locOfPath(w, ch.Path)
		if l == nil || !isFileChange(ch) {
			continue
		}
		if c.Assign[l.ID] == "" {
			run.Count("selfcheck_normal_mode_layout_change_at_unassigned_location", 1)
			fmt.Printf("note: case %d normal mode: layout change at a location without assigned class: %s %s\n", c.Case, ch.What, ch.Path)
			continue
		}
		seen["normal_mode_changes_seen/"+c.Assign[l.ID]+"/layout"] = true
	}
	for k := range seen {
		run.Count(k, 1)
	}
}

func (ck *checker) runCase(idx int) {
	run := ck.run
	t0 := time.Now()
	defer func() {
		if d := time.Since(t0); d > 5*time.Second {
			fmt.Printf("note: case %d took %.1fs\n", idx, d.Seconds())
			run.Count("cases_slower_than_5s", 1)
		}
	}()
	rng := ev.Rand(fmt.Sprintf("c19/case/%d", idx))
	root := filepath.Join(ck.bin, "w", fmt.Sprintf("c%d", idx))
	_ = os.RemoveAll(root)
	w, err := buildWorld(rng, root)
	if err != nil {
		run.Inconclusive(fmt.Sprintf("case %d: cannot build world: %v", idx, err))
		return
	}
	defer func() {
		if ck.debug {
			w.W.Close() // keep the directory for inspection
			return
		}
		w.close()
	}()
	_ = os.MkdirAll(filepath.Join(root, "tmp"), 0o755)
	c := genConf(rng, w, idx)
	for _, h := range w.Hosts {
		if c.RLHosts[h.Name] {
			h.Intercept = func(e *modelreg.Event, rw http.ResponseWriter, r *http.Request) bool {
				rw.Header().Set("RateLimit-Limit", "100;w=21600")
				rw.Header().Set("RateLimit-Remaining", "7;w=21600")
				return false
			}
		}
	}
	cfgDir := filepath.Join(root, "cfg")
	_ = os.MkdirAll(cfgDir, 0o755)
	cfgPath := filepath.Join(cfgDir, "cfg.yml")
	if err := os.WriteFile(cfgPath, []byte(c.Text), 0o644); err != nil {
		run.Inconclusive(fmt.Sprintf("case %d: cannot write config: %v", idx, err))
		return
	}
	defer func() {
		if r := recover(); r != nil {
			run.Inconclusive(fmt.Sprintf("case %d: harness panic: %v", idx, r))
		}
	}()
	dry := ck.observe(w, cfgPath, true, c.Verbosity)
	run.Eval(1)
	run.Count("dry_runs", 1)
	if ck.debug {
		fmt.Printf("---- config\n%s\n---- world\n%s\n---- assign %v\n---- dry-run exit=%d timedout=%t\n%s\n", c.Text, strings.Join(w.Desc, "\n"), c.Assign, dry.Res.Exit, dry.Res.TimedOut, dry.Res.Stderr)
	}
	if dry.Res.StartErr != "" {
		run.Inconclusive(fmt.Sprintf("case %d: regbot did not start: %s", idx, dry.Res.StartErr))
		return
	}
	if dry.Res.TimedOut {
		// a run that never returns is not a verdict by itself (wall clock). But when one of its scripts raises an error
		// by design, what the other scripts logged before the run was stopped can still be judged by events: a script
		// that reaches its end when run alone on the same world, and did not next to the failing one, was prevented
		// from running (judgeScripts makes that solo confirmation). Without such a finding the case stays inconclusive.
		if len(c.failing()) > 0 && len(dry.Res.Msgs) > 0 {
			run.Count("timed_out_dry_runs_judged_by_their_script_messages", 1)
			ck.judgeScripts(c, w, dry, filepath.Dir(cfgPath), true)
		}
		run.Inconclusive(fmt.Sprintf("case %d: dry run hit the watchdog (180 s); stderr tail: %s", idx, tail(dry.Res.Stderr, 300)))
		return
	}
	if len(dry.Res.Msgs) == 0 {
		run.Inconclusive(fmt.Sprintf("case %d: regbot logged no script message at all (config rejected?): %s", idx, tail(dry.Res.Stderr, 400)))
		return
	}
	calls, okc := executed(dry.Res)
	classesCalled := map[string]bool{}
	total := 0
	for b, n := range calls {
		run.Count("dry_run_calls/"+b, n)
		total += n
		if cl, ok := classOf[b]; ok {
			classesCalled[cl] = true
		}
	}
	for b, n := range okc {
		run.Count("dry_run_calls_returning_without_error/"+b, n)
	}
	// which (class, target kind) pairs did this dry run exercise?
	for _, s := range c.Scripts {
		for _, m := range dry.Res.Msgs[s.Name] {
			if !strings.HasPrefix(m, "C|") {
				continue
			}
			b, at := splitLabel(strings.TrimPrefix(m, "C|"))
			if cl, ok := classOf[b]; ok {
				for _, l := range w.Locs {
					// the label carries "<location id>" or "<location id>/<loop key>"
					if at == l.ID || strings.HasPrefix(at, l.ID+"/") {
						k := "registry"
						if l.isDir() {
							k = "layout"
						}
						run.Count("dry_run_calls_aimed_at/"+cl+"/"+k, 1)
						if c.Assign[l.ID] != cl {
							run.Count("selfcheck_call_aimed_at_location_of_other_class", 1)
						}
						break
					}
				}
			}
		}
	}
	clean := ck.judgeMutation(c, w, dry)
	if clean && idx%2 == 0 {
		// the same dry run with a quiet logger: what is logged must not decide what is done
		quiet := ck.observe(w, cfgPath, true, []string{"warn", "error"}[(idx/2)%2])
		if quiet.Res.StartErr == "" && !quiet.Res.TimedOut {
			run.Count("dry_runs_with_quiet_logger", 1)
			clean = ck.judgeMutation(c, w, quiet) && clean
		}
	}
	ck.judgeScripts(c, w, dry, cfgDir, true)
	for _, s := range c.Scripts {
		for _, f := range s.Flow {
			run.SetAdd("control_flow/"+f, fmt.Sprint(idx))
		}
	}
	if total > 0 {
		var cls []string
		for cl := range classesCalled {
			cls = append(cls, cl)
		}
		sort.Strings(cls)
		run.Distinct(fmt.Sprintf("%s/n%d/%s/fail=%s/calls=%s", c.Kind, len(c.Scripts), c.mode(), strings.Join(c.failing(), "+"), strings.Join(cls, "+")))
	}
	if idx%37 == 3 {
		s := c.Scripts[0]
		run.Sample(map[string]any{"case": idx, "kind": c.Kind, "mode": c.mode(), "scripts": len(c.Scripts), "world": w.Desc, "targets_by_class": c.Assign,
			"first_script_kind": s.Kind, "first_script": tailHead(strings.TrimPrefix(s.Text, prelude), 2500), "requests_in_dry_run": len(dry.Events), "calls_executed": total})
	}
	allRO := true
	for _, s := range c.Scripts {
		if !s.ReadOnly {
			allRO = false
		}
	}
	switch {
	case allRO && clean:
		ck.differential(c, w, cfgPath, dry)
	case allRO:
		run.Count("differential_skipped_world_not_clean", 1)
	default:
		ck.effectiveness(c, w, cfgPath)
	}
}

func main() {
	run := ev.Start("C19", "exploration")
	run.Rule("configurations of 1-5 generated Lua scripts (sequential and parallel, with and without time-outs) for the regbot binary built from the repository; each script is a random program over the complete binding catalogue of cmd/regbot/sandbox " +
		"(every spelling: module function, method, reference given as string / object / manifest) with loops over repo and tag listings, conditionals, functions, while loops, pcall around every call, and — in failing scripts — an uncaught error(), Lua runtime error, failing binding or Go panic inside a binding; " +
		"worlds of 1-3 model registries (tag-delete API, referrers API, paging, mount, validation switches drawn per host) and 1-2 OCI layouts pre-populated from seeded image graphs, plus repositories / layouts that do not exist yet and archives for importTar; " +
		"a fixed core of 12 configurations (each state-changing class x registry / layout target) precedes the seed-derived ones; non-trivial = the dry run executed at least one binding call; distinct = (config kind, #scripts, sequential/parallel, failing-script kinds, set of state-changing classes called)")
	run.Assume(
		"only the documented scripting API plus plain Lua control flow is generated; Lua's own os / io libraries (which regbot leaves enabled) are outside the property's quantifier and are not called",
		"within one configuration every repository / layout is the target of at most one class of state-changing binding, so that a request or file change is attributed to a class by where it lands (classes vary freely across configurations)",
		"a file written by image.exportTar to the path the script names (always outside every layout) is counted, not judged: the statement speaks of registries and OCI layout files only",
		"directory-only changes below a layout and changes elsewhere in the scratch directory are counted, not judged",
		"the read-only differential reuses the world of the dry run only after the monitors found it byte- and mtime-identical, runs the same binary on the same configuration, ignores results whose label is marked timer-dependent (ratelimitWait waiting path), and reports a difference only if it is reproducible in a second pair of runs",
		"a missing end marker is attributed to another script's failure only after the script was shown to reach its end when run alone on the same world",
		"the watchdog (180 s per child) only ever yields inconclusive")
	bin := os.Getenv("VERIF_BIN")
	if bin == "" {
		fmt.Println("VERIF_BIN not set")
		os.Exit(2)
	}
	ck := &checker{run: run, bin: bin, regbot: filepath.Join(bin, "regbot"), violated: map[string]bool{}}
	if _, err := os.Stat(ck.regbot); err != nil {
		run.Inconclusive("regbot binary missing: " + err.Error())
		os.Exit(run.Finish())
	}
	ck.census()
	n := ev.Scale(240, 3000)
	if one := os.Getenv("VERIF_C19_CASE"); one != "" {
		// debugging aid: run a single case and keep its output
		var i int
		fmt.Sscan(one, &i)
		ck.debug = true
		ck.runCase(i)
		os.Exit(run.Finish())
	}
	workers := runtime.NumCPU() / 2
	if workers > 8 {
		workers = 8
	}
	if workers < 2 {
		workers = 2
	}
	jobs := make(chan int)
	var wg sync.WaitGroup
	for k := 0; k < workers; k++ {
		wg.Add(1)
		go func() {
			defer wg.Done()
			for i := range jobs {
				ck.runCase(i)
			}
		}()
	}
	for i := 0; i < n; i++ {
		jobs <- i
	}
	close(jobs)
	wg.Wait()
	if ev.Tier() == "thorough" || os.Getenv("VERIF_C19_RACE") != "" {
		ck.raceProbe()
	}
	_ = os.RemoveAll(filepath.Join(bin, "w"))
	if ck.exportNote != "" {
		run.Put("observation_exportTar", ck.exportNote)
	}

	// non-vacuity: every clause and every binding must have been observed
	for _, b := range catalogue {
		if run.Get("dry_run_calls/"+b) == 0 && b != "log" {
			run.Inconclusive("binding never executed in a dry run: " + b)
		}
	}
	for _, cl := range mutClasses {
		for _, k := range []string{"registry", "layout"} {
			if run.Get("dry_run_calls_aimed_at/"+cl+"/"+k) == 0 {
				run.Inconclusive("no dry run called " + cl + " with a " + k + " target")
			}
			// (when the dry run itself already made the change there is nothing left for the normal run to change)
			if run.Get("normal_mode_changes_seen/"+cl+"/"+k) == 0 && !ck.violated[cl] {
				run.Inconclusive("the monitors never saw " + cl + " change a " + k + " in normal mode (cannot tell gated from invisible)")
			}
		}
	}
	if run.Get("readonly_successful_results_compared") == 0 {
		run.Inconclusive("no read-only result was compared between dry-run and normal mode")
	}
	for _, m := range []string{"sequential", "parallel"} {
		if run.Get("surviving_scripts_next_to_a_failing_one/"+m) == 0 {
			run.Inconclusive("no " + m + " configuration had a surviving script next to a failing one")
		}
	}
	for _, k := range failKinds {
		if run.Get("failing_scripts_run/"+k) == 0 {
			run.Inconclusive("no failing script of kind " + k)
		}
	}
	if run.Get("selfcheck_normal_mode_request_at_unassigned_location")+run.Get("selfcheck_normal_mode_layout_change_at_unassigned_location")+run.Get("selfcheck_call_aimed_at_location_of_other_class") > 0 {
		run.Inconclusive("generator bookkeeping: a normal-mode run changed a location that no state-changing call was generated for (attribution unreliable)")
	}
	os.Exit(run.Finish())
}
