package main

import (
	"fmt"
	"os"
	"path/filepath"
	"sort"
	"strings"

	"verif/ev"
	"verif/modelreg"
)

// The generator can only cover bindings it knows. Before the cases run, one script
// enumerates what the sandbox of this very binary exposes (globals that are not part of
// Lua / gopher-lua, the functions of each module table and of its __index table); a name
// outside knownExposed makes the run inconclusive ("extend the catalogue"), it is never
// silently skipped.

const censusScript = `local names = {}
for k, v in pairs(_G) do names[#names + 1] = tostring(k) end
table.sort(names)
for _, k in ipairs(names) do
  local v = _G[k]
  log("G|" .. k .. "|" .. type(v))
  if type(v) == "table" and k ~= "_G" and k ~= "package" then
    local sub = {}
    for k2, v2 in pairs(v) do sub[#sub + 1] = tostring(k2) .. ":" .. type(v2) end
    table.sort(sub)
    log("T|" .. k .. "|" .. table.concat(sub, ","))
    local idx = rawget(v, "__index")
    if type(idx) == "table" and idx ~= v then
      local s2 = {}
      for k2, v2 in pairs(idx) do s2[#s2 + 1] = tostring(k2) .. ":" .. type(v2) end
      table.sort(s2)
      log("I|" .. k .. "|" .. table.concat(s2, ","))
    end
  end
end
log("END")
`

var luaGlobals = map[string]bool{}

func init() {
	for _, n := range strings.Fields("_G _GOPHER_LUA_VERSION _VERSION _printregs assert channel collectgarbage coroutine debug dofile error getfenv getmetatable goto io ipairs load loadfile loadstring math module newproxy next os package pairs pcall print rawequal rawget rawset require select setfenv setmetatable string table tonumber tostring type unpack xpcall") {
		luaGlobals[n] = true
	}
}

// knownExposed: census name -> spelling used in the catalogue.
var knownExposed = map[string]string{
	"log":           "log",
	"repo.ls":       "repo.ls",
	"reference.new": "reference.new", "reference.close": "reference.close", "reference.__tostring": "reference.tostring",
	"reference:close": "ref:close", "reference:digest": "ref:digest", "reference:tag": "ref:tag",
	"tag.ls": "tag.ls", "tag.delete": "tag.delete",
	"image.config": "image.config", "image.copy": "image.copy", "image.exportTar": "image.exportTar", "image.importTar": "image.importTar",
	"image.manifest": "image.manifest", "image.manifestHead": "image.manifestHead", "image.manifestList": "image.manifestList", "image.ratelimitWait": "image.ratelimitWait",
	"imageconfig.__tostring": "config.tostring", "imageconfig:export": "config:export",
	"manifest.__tostring": "manifest.tostring", "manifest.get": "manifest.get", "manifest.getList": "manifest.getList", "manifest.head": "manifest.head", "manifest.put": "manifest.put",
	"manifest:config": "m:config", "manifest:delete": "m:delete", "manifest:export": "m:export", "manifest:get": "m:get", "manifest:head": "m:head", "manifest:put": "m:put",
	"manifest:ratelimit": "m:ratelimit", "manifest:ratelimitWait": "m:ratelimitWait",
	"blob.get": "blob.get", "blob.head": "blob.head", "blob.put": "blob.put", "blob:get": "b:get", "blob:head": "b:head", "blob:put": "b:put",
}

func (ck *checker) census() {
	run := ck.run
	root := filepath.Join(ck.bin, "w", "census")
	_ = os.RemoveAll(root)
	w := &world{Root: root, W: modelreg.NewWorld(), HomeDir: filepath.Join(root, "home")}
	defer w.close()
	_ = os.MkdirAll(w.HomeDir, 0o755)
	_ = os.MkdirAll(filepath.Join(root, "tmp"), 0o755)
	c := &conf{Scripts: []*script{{Name: "census", Kind: "ok", Text: censusScript}}}
	cfg := filepath.Join(root, "cfg.yml")
	if err := os.WriteFile(cfg, []byte(renderConf(c, w, ev.Rand("c19/census"))), 0o644); err != nil {
		run.Inconclusive("census: " + err.Error())
		return
	}
	res := runRegbot(ck.regbot, cfg, w, true, "info")
	msgs := res.Msgs["census"]
	if !has(msgs, "END") {
		run.Inconclusive("census script did not complete: " + tail(res.Stderr, 400))
		return
	}
	exposed := map[string]bool{}
	for _, m := range msgs {
		p := strings.SplitN(m, "|", 3)
		if len(p) < 3 || luaGlobals[p[1]] {
			continue
		}
		switch p[0] {
		case "G":
			if p[2] != "table" {
				exposed[p[1]] = true // a global function (or value) outside Lua's own
			}
		case "T", "I":
			sep := "."
			if p[0] == "I" {
				sep = ":"
			}
			for _, e := range strings.Split(p[2], ",") {
				if e == "" {
					continue
				}
				name := e[:strings.LastIndexByte(e, ':')]
				if name == "__index" {
					continue
				}
				exposed[p[1]+sep+name] = true
			}
		}
	}
	var unknown, missing []string
	for n := range exposed {
		if _, ok := knownExposed[n]; !ok {
			unknown = append(unknown, n)
		}
	}
	for n := range knownExposed {
		if !exposed[n] {
			missing = append(missing, n)
		}
	}
	sort.Strings(unknown)
	sort.Strings(missing)
	run.Count("census_bindings_exposed_by_the_sandbox", len(exposed))
	if len(missing) > 0 {
		run.Put("census_catalogue_entries_not_exposed", missing)
	}
	if len(unknown) > 0 {
		run.Inconclusive(fmt.Sprintf("the sandbox of this binary exposes bindings the generator does not know (extend the catalogue before trusting a clean run): %v", unknown))
	}
}
