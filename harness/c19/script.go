package main

import (
	"fmt"
	"math/rand"
	"path/filepath"
	"sort"
	"strconv"
	"strings"
)

// Classes of state-changing bindings. A class is what a repair would gate in one place;
// the spelling variants (module function / method) share a class.
const (
	clTagDelete = "tag.delete"
	clManDelete = "manifest.delete"
	clManPut    = "manifest.put"
	clBlobPut   = "blob.put"
	clCopy      = "image.copy"
	clImport    = "image.importTar"
)

var mutClasses = []string{clTagDelete, clManDelete, clManPut, clBlobPut, clCopy, clImport}

// catalogue is every binding the sandbox registers (sandbox.go setupMod calls + log),
// spelled the way the generated scripts label their call sites.
var catalogue = []string{
	"log",
	"repo.ls",
	"reference.new", "reference.close", "reference.tostring", "ref:close", "ref:digest", "ref:tag",
	"tag.ls", "tag.delete",
	"image.config", "image.copy", "image.exportTar", "image.importTar", "image.manifest", "image.manifestHead", "image.manifestList", "image.ratelimitWait",
	"config.tostring", "config:export",
	"manifest.tostring", "manifest.get", "manifest.getList", "manifest.head", "manifest.put",
	"m:config", "m:delete", "m:export", "m:get", "m:head", "m:put", "m:ratelimit", "m:ratelimitWait",
	"blob.get", "blob.head", "blob.put", "b:get", "b:head", "b:put",
}

// classOf maps a mutating binding spelling to its class.
var classOf = map[string]string{
	"tag.delete": clTagDelete, "m:delete": clManDelete, "manifest.put": clManPut, "m:put": clManPut,
	"blob.put": clBlobPut, "b:put": clBlobPut, "image.copy": clCopy, "image.importTar": clImport,
}

const prelude = `local function T(v)
  local ok, s = pcall(tostring, v)
  if ok then return s end
  return "tostring failed: " .. tostring(s)
end
local function R(l, f)
  local ok, v = pcall(f)
  log("R|" .. l .. "|" .. (ok and "ok" or "err") .. "|" .. T(v))
end
local function M(l, f)
  log("C|" .. l)
  local ok, v = pcall(f)
  log("M|" .. l .. "|" .. (ok and "ok" or "err") .. "|" .. T(v))
end
local function J(t)
  if type(t) ~= "table" then return tostring(t) end
  local c = {}
  for i, x in ipairs(t) do c[i] = tostring(x) end
  table.sort(c)
  return table.concat(c, ",")
end
local function S(t)
  local c = {}
  if type(t) ~= "table" then return c end
  for i, x in ipairs(t) do c[i] = x end
  table.sort(c)
  return c
end
`

type luaVar struct {
	Name string
	Loc  *loc
	Head bool
}

// script is one generated entry of the configuration.
type script struct {
	Name     string
	Kind     string // ok | fail-error | fail-runtime | fail-binding | fail-gopanic
	Text     string
	ReadOnly bool
	Used     map[string]int // binding spelling -> generated call sites
	Timeout  string
	Flow     []string // control-flow constructs used
}

type sgen struct {
	rng      *rand.Rand
	w        *world
	assign   map[string]string // loc.ID -> class of mutating call sites that may target it
	readonly bool
	b        strings.Builder
	n        int
	ind      string
	mans     []luaVar
	refs     []luaVar
	cfgs     []luaVar
	blobs    []luaVar
	used     map[string]int
	flow     map[string]bool
	tagPfx   string
	rlHosts  map[string]bool
}

func q(s string) string { return strconv.Quote(s) }

func (g *sgen) line(format string, a ...any) {
	g.b.WriteString(g.ind)
	fmt.Fprintf(&g.b, format, a...)
	g.b.WriteByte('\n')
}

func (g *sgen) lbl(binding, suffix string, volatile bool) string {
	g.n++
	g.used[binding]++
	l := fmt.Sprintf("%d:%s", g.n, binding)
	if volatile {
		l = "~" + l
	}
	if suffix != "" {
		return q(l+"/") + " .. tostring(" + suffix + ")"
	}
	return q(l)
}

// R emits a guarded read; body is Lua source that ends with a return statement.
func (g *sgen) R(binding, suffix, body string) {
	g.line("R(%s, function() %s end)", g.lbl(binding, suffix, false), body)
}

func (g *sgen) RV(binding, suffix, body string) {
	g.line("R(%s, function() %s end)", g.lbl(binding, suffix, true), body)
}

// M emits a guarded call of a state-changing binding aimed at location t (named in the label).
func (g *sgen) M(binding string, t *loc, suffix, body string) {
	at := "@out"
	if t != nil {
		at = "@" + t.ID
	}
	g.line("M(%s, function() %s end)", g.lbl(binding+at, suffix, false), body)
	g.used[binding]++
}

func (g *sgen) pick(n int) int { return g.rng.Intn(n) }

func (g *sgen) existing(onlyReg bool) []*loc {
	var out []*loc
	for _, l := range g.w.Locs {
		if l.Exists && (!onlyReg || !l.isDir()) {
			out = append(out, l)
		}
	}
	return out
}

func (g *sgen) anyExisting() *loc {
	e := g.existing(false)
	return e[g.pick(len(e))]
}

func (g *sgen) anyTag(l *loc) *tagInfo { return l.Tags[g.pick(len(l.Tags))] }

func (g *sgen) targets(class string) []*loc {
	var out []*loc
	for _, l := range g.w.Locs {
		if g.assign[l.ID] == class {
			out = append(out, l)
		}
	}
	return out
}

func (g *sgen) newVar(p string) string {
	g.n++
	return fmt.Sprintf("%s%d", p, g.n)
}

// refExpr renders a reference to l:tag as a string, a fresh reference object or (when one
// exists) a reference variable that already points into l.
func (g *sgen) refExpr(l *loc, tag string) string {
	switch g.pick(4) {
	case 0:
		g.used["reference.new"]++
		return "reference.new(" + q(l.ref(tag)) + ")"
	case 1:
		var c []luaVar
		for _, v := range g.refs {
			if v.Loc == l {
				c = append(c, v)
			}
		}
		if len(c) > 0 {
			return c[g.pick(len(c))].Name
		}
	case 2:
		// the bindings also accept a manifest or config object wherever a reference is expected
		if g.pick(2) == 0 {
			var c []luaVar
			for _, v := range append(append([]luaVar{}, g.mans...), g.cfgs...) {
				if v.Loc == l {
					c = append(c, v)
				}
			}
			if len(c) > 0 {
				g.flow["object-as-reference"] = true
				return c[g.pick(len(c))].Name
			}
		}
	}
	return q(l.ref(tag))
}

func (g *sgen) tagFor(l *loc) string {
	if l.Exists && len(l.Tags) > 0 && g.pick(3) > 0 {
		return g.anyTag(l).Tag
	}
	return fmt.Sprintf("%sn%d", g.tagPfx, g.n)
}

func (g *sgen) manVar(l *loc, notHead bool) (luaVar, bool) {
	var c []luaVar
	for _, v := range g.mans {
		if (l == nil || v.Loc == l) && !(notHead && v.Head) {
			c = append(c, v)
		}
	}
	if len(c) == 0 {
		return luaVar{}, false
	}
	return c[g.pick(len(c))], true
}

var platArgs = []string{"linux/amd64", "linux/arm64", "linux/arm/v7", "windows/amd64", "bogus//platform", ""}

// getManifest emits one of the six manifest-fetching spellings and returns the variable.
func (g *sgen) getManifest(l *loc, tag, suffix, refOverride string) luaVar {
	forms := []string{"manifest.get", "manifest.getList", "manifest.head", "image.manifest", "image.manifestHead", "image.manifestList", "manifest.get", "manifest.getList", "manifest.head"}
	f := forms[g.pick(len(forms))]
	v := g.newVar("m")
	arg := refOverride
	if arg == "" {
		arg = g.refExpr(l, tag)
	}
	if (f == "manifest.get" || f == "image.manifest") && g.pick(3) == 0 {
		arg += ", " + q(platArgs[g.pick(len(platArgs))])
	}
	g.R(f, suffix, fmt.Sprintf("%s = %s(%s) return %s", v, f, arg, v))
	g.used["manifest.tostring"]++
	lv := luaVar{Name: v, Loc: l, Head: strings.Contains(strings.ToLower(f), "head")}
	g.mans = append(g.mans, lv)
	return lv
}

// readStmt emits one read-only statement.
func (g *sgen) readStmt() {
	l := g.anyExisting()
	ti := g.anyTag(l)
	switch g.pick(18) {
	case 17:
		g.rateWait("image.ratelimitWait("+g.refExpr(l, ti.Tag)+", ", "image.ratelimitWait", l)
	case 0: // repository listing, optionally a loop over it
		regs := g.existing(true)
		if len(regs) == 0 {
			g.readRef(l, ti)
			return
		}
		rl := regs[g.pick(len(regs))]
		v := g.newVar("rl")
		opts := []string{"", "", ", {limit = 2}", ", {limit = 1}", ", {last = \"r0\"}", ", {limit = 5, last = \"a\"}"}[g.pick(6)]
		g.R("repo.ls", "", fmt.Sprintf("%s = repo.ls(%s%s) return J(%s)", v, q(rl.Host.Addr()), opts, v))
		if g.pick(2) == 0 {
			g.flow["for-over-repos"] = true
			g.line("for _, rp in ipairs(%s or {}) do", v)
			old := g.ind
			g.ind += "  "
			g.R("tag.ls", "rp", fmt.Sprintf("return J(tag.ls(%s .. rp))", q(rl.Host.Addr()+"/")))
			if !g.readonly {
				// a state-changing call on exactly one of the listed repositories
				var c []*loc
				for _, x := range g.w.Locs {
					if !x.isDir() && x.Host == rl.Host && x.Exists && g.assign[x.ID] != "" {
						c = append(c, x)
					}
				}
				if len(c) > 0 {
					x := c[g.pick(len(c))]
					g.flow["if-in-loop"] = true
					g.line("if rp == %s then", q(x.Repo))
					g.ind += "  "
					g.mutStmtOn(x)
					g.ind = old + "  "
					g.line("end")
				}
			}
			g.ind = old
			g.line("end")
		}
	case 1, 2: // tag listing, optionally a loop over it
		v := g.newVar("tl")
		arg := q(l.base())
		switch g.pick(3) {
		case 0:
			g.used["reference.new"]++
			arg = "reference.new(" + q(l.base()) + ")"
		case 1:
			arg = g.refExpr(l, ti.Tag)
		}
		g.R("tag.ls", "", fmt.Sprintf("%s = tag.ls(%s) return J(%s)", v, arg, v))
		if g.pick(2) == 0 {
			g.tagLoop(l, v)
		}
	case 3, 4, 5:
		g.getManifest(l, ti.Tag, "", "")
	case 6: // fields of a fetched manifest
		if m, ok := g.manVar(nil, false); ok {
			g.R("manifest.tostring", "", fmt.Sprintf("local m = %s return tostring(m.mediaType) .. \"|\" .. tostring(m.schemaVersion) .. \"|\" .. tostring(m.config and m.config.digest) .. \"|\" .. tostring(m.layers and #m.layers) .. \"|\" .. tostring(m.manifests and #m.manifests) .. \"|\" .. #tostring(m)", m.Name))
		} else {
			g.getManifest(l, ti.Tag, "", "")
		}
	case 7, 8: // methods of a manifest object
		m, ok := g.manVar(nil, false)
		if !ok {
			m = g.getManifest(l, ti.Tag, "", "")
		}
		g.manMethod(m)
	case 9, 10: // image configuration
		g.readConfig(l, ti)
	case 11, 12: // blobs
		g.readBlob(l, ti)
	case 13, 14:
		g.readRef(l, ti)
	case 15: // calls that must fail (and be caught by the script)
		g.badRead(l, ti)
	case 16: // plain Lua control flow around reads
		switch g.pick(3) {
		case 0:
			g.flow["while"] = true
			k := g.newVar("k")
			g.line("%s = 0", k)
			g.line("while %s < 2 do", k)
			old := g.ind
			g.ind += "  "
			g.line("%s = %s + 1", k, k)
			g.getManifest(l, ti.Tag, k, "")
			g.ind = old
			g.line("end")
		case 1:
			g.flow["function"] = true
			fn := g.newVar("fn")
			g.line("local function %s(x)", fn)
			old := g.ind
			g.ind += "  "
			g.getManifest(l, ti.Tag, "x", "x")
			g.mans = g.mans[:len(g.mans)-1] // the variable's location depends on the argument
			g.ind = old
			g.line("end")
			g.line("%s(%s)", fn, q(l.ref(ti.Tag)))
			l2 := g.anyExisting()
			g.line("%s(%s)", fn, q(l2.ref(g.anyTag(l2).Tag)))
		default:
			g.flow["if-else"] = true
			m := g.getManifest(l, ti.Tag, "", "")
			g.line("if %s and %s.manifests then", m.Name, m.Name)
			old := g.ind
			g.ind += "  "
			g.R("log", "", fmt.Sprintf("return \"index with \" .. #%s.manifests .. \" entries\"", m.Name))
			g.ind = old
			g.line("else")
			g.ind += "  "
			g.readConfig(l, ti)
			g.ind = old
			g.line("end")
		}
	}
}

func (g *sgen) manMethod(m luaVar) {
	switch g.pick(7) {
	case 0:
		v := g.newVar("m")
		g.R("m:get", "", fmt.Sprintf("%s = %s:get() return %s", v, m.Name, v))
		g.mans = append(g.mans, luaVar{Name: v, Loc: m.Loc})
	case 1:
		v := g.newVar("m")
		g.R("m:head", "", fmt.Sprintf("%s = %s:head() return %s", v, m.Name, v))
		g.mans = append(g.mans, luaVar{Name: v, Loc: m.Loc, Head: true})
	case 2:
		v := g.newVar("c")
		g.R("m:config", "", fmt.Sprintf("%s = %s:config() return %s", v, m.Name, v))
		g.used["config.tostring"]++
		g.cfgs = append(g.cfgs, luaVar{Name: v, Loc: m.Loc})
	case 3:
		g.R("m:ratelimit", "", fmt.Sprintf("local rl = %s:ratelimit() return tostring(rl.Set) .. \"|\" .. tostring(rl.Remain) .. \"|\" .. tostring(rl.Limit)", m.Name))
	case 4:
		g.rateWait(m.Name+":ratelimitWait(", "m:ratelimitWait", m.Loc)
	case 5, 6:
		v := g.newVar("m")
		g.R("m:export", "", fmt.Sprintf("%s = %s:export() return %s", v, m.Name, v))
		g.mans = append(g.mans, luaVar{Name: v, Loc: m.Loc})
	}
}

// rateWait emits a ratelimitWait call. Hosts that advertise "7 remaining" make limits
// above 7 wait; that path ends on a timer, so its result is not part of the differential
// (label marked volatile) — it is still executed and still monitored for mutations.
func (g *sgen) rateWait(callPrefix, binding string, l *loc) {
	limited := !l.isDir() && g.rlHosts[l.Host.Name]
	switch {
	case limited && g.pick(3) == 0:
		g.RV(binding, "", fmt.Sprintf("return %s20, \"1h\", \"120ms\")", callPrefix))
	case g.pick(2) == 0:
		g.R(binding, "", fmt.Sprintf("return %s3, \"10ms\", \"30s\")", callPrefix))
	default:
		g.R(binding, "", fmt.Sprintf("return %s5)", callPrefix))
	}
}

func (g *sgen) readConfig(l *loc, ti *tagInfo) {
	if len(g.cfgs) > 0 && g.pick(2) == 0 {
		c := g.cfgs[g.pick(len(g.cfgs))]
		switch g.pick(3) {
		case 0:
			g.R("config.tostring", "", fmt.Sprintf("local c = %s return tostring(c.architecture) .. \"|\" .. tostring(c.os) .. \"|\" .. tostring(c.config and c.config.Env and c.config.Env[1]) .. \"|\" .. tostring(c.rootfs and c.rootfs.diff_ids and #c.rootfs.diff_ids)", c.Name))
		case 1:
			g.R("config.tostring", "", fmt.Sprintf("return tostring(%s)", c.Name))
		default:
			v := g.newVar("c")
			g.R("config:export", "", fmt.Sprintf("%s = %s:export() return %s", v, c.Name, v))
			g.cfgs = append(g.cfgs, luaVar{Name: v, Loc: c.Loc})
		}
		return
	}
	v := g.newVar("c")
	arg := g.refExpr(l, ti.Tag)
	vloc := l
	if m, ok := g.manVar(nil, false); ok && g.pick(2) == 0 {
		arg = m.Name
		vloc = m.Loc
	}
	g.R("image.config", "", fmt.Sprintf("%s = image.config(%s) return %s", v, arg, v))
	g.used["config.tostring"]++
	g.cfgs = append(g.cfgs, luaVar{Name: v, Loc: vloc})
}

func (g *sgen) someBlobDigest(ti *tagInfo) string {
	all := append(append([]string{}, ti.Configs...), ti.Layers...)
	if len(all) == 0 || g.pick(8) == 0 {
		return "sha256:" + strings.Repeat(fmt.Sprintf("%x", g.pick(16)), 64)
	}
	return all[g.pick(len(all))]
}

func (g *sgen) readBlob(l *loc, ti *tagInfo) {
	if len(g.blobs) > 0 && g.pick(4) == 0 {
		b := g.blobs[g.pick(len(g.blobs))]
		if g.pick(2) == 0 {
			g.R("b:get", "", fmt.Sprintf("local x = %s:get() return \"blob\"", b.Name))
		} else {
			g.R("b:head", "", fmt.Sprintf("local x = %s:head() return \"blob\"", b.Name))
		}
		return
	}
	g.newBlobVar(l, ti)
}

func (g *sgen) newBlobVar(l *loc, ti *tagInfo) luaVar {
	f := []string{"blob.get", "blob.head"}[g.pick(2)]
	d := g.someBlobDigest(ti)
	v := g.newVar("b")
	var arg string
	switch g.pick(3) {
	case 0:
		arg = q(l.dref(d))
	case 1:
		arg = q(l.base()) + ", " + q(d)
	default:
		arg = g.refExpr(l, ti.Tag) + ", " + q(d)
	}
	g.R(f, "", fmt.Sprintf("%s = %s(%s) return \"blob\"", v, f, arg))
	lv := luaVar{Name: v, Loc: l, Head: f == "blob.head"}
	g.blobs = append(g.blobs, lv)
	return lv
}

func (g *sgen) readRef(l *loc, ti *tagInfo) {
	if len(g.refs) == 0 || g.pick(3) == 0 {
		v := g.newVar("rf")
		arg := q(l.ref(ti.Tag))
		switch g.pick(4) {
		case 0:
			arg = q(l.base())
		case 1:
			arg = q(l.dref(ti.Top.Digest))
		}
		g.R("reference.new", "", fmt.Sprintf("%s = reference.new(%s) return %s", v, arg, v))
		g.used["reference.tostring"]++
		g.refs = append(g.refs, luaVar{Name: v, Loc: l})
		return
	}
	r := g.refs[g.pick(len(g.refs))]
	switch g.pick(8) {
	case 0:
		g.R("reference.tostring", "", fmt.Sprintf("return tostring(%s)", r.Name))
	case 1:
		g.R("ref:tag", "", fmt.Sprintf("return %s:tag()", r.Name))
	case 2:
		g.R("ref:digest", "", fmt.Sprintf("return %s:digest()", r.Name))
	case 3:
		t := "zz" + fmt.Sprint(g.n)
		if r.Loc.Exists {
			t = g.anyTag(r.Loc).Tag
		}
		g.R("ref:tag", "", fmt.Sprintf("%s:tag(%s) return tostring(%s)", r.Name, q(t), r.Name))
	case 4:
		d := "sha256:" + strings.Repeat("ab", 32)
		if r.Loc.Exists {
			d = g.anyTag(r.Loc).Top.Digest
		}
		g.R("ref:digest", "", fmt.Sprintf("%s:digest(%s) return tostring(%s)", r.Name, q(d), r.Name))
	case 5:
		g.R("ref:close", "", fmt.Sprintf("%s:close() return \"closed\"", r.Name))
	case 6:
		g.R("reference.close", "", fmt.Sprintf("reference.close(%s) return \"closed\"", r.Name))
	default:
		v := g.newVar("rf")
		g.R("reference.new", "", fmt.Sprintf("%s = reference.new(%s) return %s", v, r.Name, v))
		g.used["reference.tostring"]++
		g.refs = append(g.refs, luaVar{Name: v, Loc: r.Loc})
	}
}

func (g *sgen) badRead(l *loc, ti *tagInfo) {
	switch g.pick(12) {
	case 0:
		g.R("manifest.get", "", fmt.Sprintf("return manifest.get(%s)", q(l.ref("no-such-tag"))))
	case 1:
		if l.isDir() {
			g.R("tag.ls", "", fmt.Sprintf("return J(tag.ls(%s))", q("ocidir://"+filepath.Join(g.w.Root, "layouts", "absent"))))
		} else {
			g.R("tag.ls", "", fmt.Sprintf("return J(tag.ls(%s))", q(l.Host.Addr()+"/no/such/repo")))
		}
	case 2:
		g.R("tag.ls", "", "return J(tag.ls(42))")
	case 3:
		g.R("manifest.get", "", "return manifest.get()")
	case 4:
		g.R("reference.new", "", "return reference.new(\"NOT a valid ref %%\")")
	case 5:
		g.R("blob.get", "", fmt.Sprintf("local b = blob.get(%s) return \"blob\"", q(l.base())))
	case 6:
		g.R("image.config", "", fmt.Sprintf("return image.config(manifest.getList(%s))", q(l.ref(ti.Tag))))
	case 7:
		g.R("repo.ls", "", "return J(repo.ls({}))")
	case 8:
		g.R("log", "", "log(nil) return \"logged\"")
	case 9:
		g.R("manifest.head", "", fmt.Sprintf("return manifest.head(%s)", q(l.dref("sha256:"+strings.Repeat("0", 64)))))
	case 10:
		g.R("m:export", "", fmt.Sprintf("return manifest.head(%s):export()", q(l.ref(ti.Tag))))
	default:
		g.R("image.config", "", fmt.Sprintf("return image.config(manifest.head(%s))", q(l.ref(ti.Tag))))
	}
}

// tagLoop iterates over a fetched tag list and runs one statement per tag.
func (g *sgen) tagLoop(l *loc, listVar string) {
	g.flow["for-over-tags"] = true
	g.line("for _, t in ipairs(S(%s)) do", listVar)
	old := g.ind
	g.ind += "  "
	g.used["reference.new"]++
	g.used["ref:tag"]++
	g.line("local r = reference.new(%s)", q(l.base()))
	g.line("r:tag(t)")
	cl := g.assign[l.ID]
	mut := !g.readonly && g.pick(3) > 0
	switch {
	case mut && cl == clTagDelete:
		if g.pick(2) == 0 {
			g.flow["if-in-loop"] = true
			g.line("if string.find(t, \"alias\") or string.find(t, \"1\") then")
			g.ind += "  "
			g.M("tag.delete", l, "t", "tag.delete(r) return \"done\"")
			g.ind = old + "  "
			g.line("end")
		} else {
			g.M("tag.delete", l, "t", "tag.delete(r) return \"done\"")
		}
	case mut && cl == clManDelete:
		f := []string{"manifest.head", "manifest.getList", "manifest.get"}[g.pick(3)]
		g.used[f]++
		g.M("m:delete", l, "t", fmt.Sprintf("local m = %s(r) m:delete() return \"done\"", f))
	case mut && len(g.targets(clCopy)) > 0 && g.pick(2) == 0:
		tg := g.targets(clCopy)
		t := tg[g.pick(len(tg))]
		g.M("image.copy", t, "t", fmt.Sprintf("image.copy(r, %s .. t%s) return \"done\"", q(t.base()+":"), g.copyOpts()))
	case mut && len(g.targets(clManPut)) > 0:
		tg := g.targets(clManPut)
		t := tg[g.pick(len(tg))]
		g.used["manifest.getList"]++
		if g.pick(2) == 0 {
			g.M("manifest.put", t, "t", fmt.Sprintf("local m = manifest.getList(r) manifest.put(m, %s .. t) return \"done\"", q(t.base()+":")))
		} else {
			g.M("m:put", t, "t", fmt.Sprintf("local m = manifest.getList(r) m:put(%s .. t) return \"done\"", q(t.base()+":")))
		}
	default:
		switch g.pick(5) {
		case 0:
			g.R("manifest.head", "t", "return manifest.head(r)")
		case 1:
			g.R("manifest.get", "t", "return manifest.get(r)")
		case 2:
			g.R("manifest.getList", "t", "local m = manifest.getList(r) return tostring(m.mediaType) .. \"|\" .. #tostring(m)")
		case 3:
			g.R("image.config", "t", "local c = image.config(r) return tostring(c.os) .. \"/\" .. tostring(c.architecture)")
		default:
			g.R("reference.tostring", "t", "return tostring(r) .. \"|\" .. r:tag() .. \"|\" .. r:digest()")
		}
	}
	g.ind = old
	g.line("end")
}

func (g *sgen) copyOpts() string {
	return []string{"", "", "", ", {digestTags = true}", ", {forceRecursive = true}", ", {includeExternal = true}", ", {platforms = {\"linux/amd64\"}}",
		", {digestTags = true, forceRecursive = true}"}[g.pick(8)]
}

// mutStmt emits one call of a state-changing binding on a location assigned to its class.
func (g *sgen) mutStmt() bool {
	var c []*loc
	for _, l := range g.w.Locs {
		if g.assign[l.ID] != "" {
			c = append(c, l)
		}
	}
	if len(c) == 0 {
		return false
	}
	g.mutStmtOn(c[g.pick(len(c))])
	return true
}

func (g *sgen) mutStmtOn(t *loc) {
	src := g.anyExisting()
	sti := g.anyTag(src)
	switch g.assign[t.ID] {
	case clTagDelete:
		tag := "gone"
		if t.Exists && g.pick(6) > 0 {
			tag = g.anyTag(t).Tag
		}
		g.M("tag.delete", t, "", fmt.Sprintf("tag.delete(%s) return \"done\"", g.refExpr(t, tag)))
	case clManDelete:
		if m, ok := g.manVar(t, false); ok && g.pick(2) == 0 {
			g.M("m:delete", t, "", fmt.Sprintf("%s:delete() return \"done\"", m.Name))
			return
		}
		tag := "gone"
		if t.Exists && g.pick(8) > 0 {
			tag = g.anyTag(t).Tag
		}
		f := []string{"manifest.head", "manifest.getList", "manifest.get", "image.manifestHead"}[g.pick(4)]
		g.used[f]++
		g.M("m:delete", t, "", fmt.Sprintf("local m = %s(%s) m:delete() return \"done\"", f, g.refExpr(t, tag)))
	case clManPut:
		var marg string
		if m, ok := g.manVar(nil, g.pick(4) > 0); ok && g.pick(3) > 0 {
			marg = m.Name
		} else {
			f := []string{"manifest.get", "manifest.getList", "image.manifestList"}[g.pick(3)]
			g.used[f]++
			marg = fmt.Sprintf("%s(%s)", f, q(src.ref(sti.Tag)))
		}
		if g.pick(4) == 0 {
			g.used["m:export"]++
			marg = "(" + marg + "):export()"
		}
		tref := g.refExpr(t, g.tagFor(t))
		if g.pick(2) == 0 {
			g.M("manifest.put", t, "", fmt.Sprintf("manifest.put(%s, %s) return \"done\"", marg, tref))
		} else {
			g.M("m:put", t, "", fmt.Sprintf("local m = %s m:put(%s) return \"done\"", marg, tref))
		}
	case clBlobPut:
		switch k := g.pick(6); {
		case k <= 1:
			// string content: the binding reads the content from argument 1, so the reference has to be a string too
			g.M("blob.put", t, "", fmt.Sprintf("local d, n = blob.put(%s, %s) return tostring(d) .. \"|\" .. tostring(n)", q(t.base()), q(fmt.Sprintf("content %d of %s", g.n, g.tagPfx))))
		case k == 2:
			g.M("blob.put", t, "", fmt.Sprintf("local d, n = blob.put(%s, %s) return tostring(d) .. \"|\" .. tostring(n)", g.refExpr(t, g.tagFor(t)), q("some bytes")))
		case k == 3 && len(g.cfgs) > 0:
			c := g.cfgs[g.pick(len(g.cfgs))]
			g.M("blob.put", t, "", fmt.Sprintf("local d, n = blob.put(%s, %s) return tostring(d) .. \"|\" .. tostring(n)", g.refExpr(t, g.tagFor(t)), c.Name))
		case k == 4 && t.Exists:
			// the documented method form; the blob object has to belong to the target repository
			var own []luaVar
			for _, b := range g.blobs {
				if b.Loc == t {
					own = append(own, b)
				}
			}
			if len(own) == 0 {
				own = append(own, g.newBlobVar(t, g.anyTag(t)))
			}
			g.M("b:put", t, "", fmt.Sprintf("local d, n = %s:put(\"bytes for b:put\") return tostring(d) .. \"|\" .. tostring(n)", own[g.pick(len(own))].Name))
		default:
			d := g.someBlobDigest(sti)
			if g.pick(2) == 0 {
				// a blob object that only carries a descriptor (from blob.head) as content argument
				g.used["blob.head"]++
				g.M("blob.put", t, "", fmt.Sprintf("local b = blob.head(%s, %s) local d, n = blob.put(%s, b) return tostring(d) .. \"|\" .. tostring(n)", q(src.base()), q(d), g.refExpr(t, g.tagFor(t))))
			} else {
				g.used["blob.get"]++
				g.M("blob.put", t, "", fmt.Sprintf("local b = blob.get(%s, %s) local d, n = blob.put(%s, b) return tostring(d) .. \"|\" .. tostring(n)", q(src.base()), q(d), g.refExpr(t, g.tagFor(t))))
			}
		}
	case clCopy:
		sarg := g.refExpr(src, sti.Tag)
		if m, ok := g.manVar(nil, false); ok && g.pick(4) == 0 {
			sarg = m.Name
		}
		g.M("image.copy", t, "", fmt.Sprintf("image.copy(%s, %s%s) return \"done\"", sarg, g.refExpr(t, g.tagFor(t)), g.copyOpts()))
	case clImport:
		tar := g.w.Tars[g.pick(len(g.w.Tars))]
		if g.pick(10) == 0 {
			tar = filepath.Join(g.w.Root, "tars", "absent.tar")
		}
		g.M("image.importTar", t, "", fmt.Sprintf("image.importTar(%s, %s) return \"done\"", g.refExpr(t, g.tagFor(t)), q(tar)))
	}
}

// exportStmt writes an archive into the out directory (a file, not a registry or layout).
func (g *sgen) exportStmt() {
	src := g.anyExisting()
	sti := g.anyTag(src)
	out := filepath.Join(g.w.OutDir, fmt.Sprintf("%s-%d.tar", g.tagPfx, g.n))
	g.M("image.exportTar", nil, "", fmt.Sprintf("image.exportTar(%s, %s) return \"done\"", g.refExpr(src, sti.Tag), q(out)))
}

// failStmt emits a statement that ends the script with an error that nothing catches.
func (g *sgen) failStmt(kind, name string) {
	l := g.anyExisting()
	ti := g.anyTag(l)
	g.line("log(\"BEFORE-FAIL\")")
	switch kind {
	case "fail-error":
		switch g.pick(6) {
		case 4:
			// error values need not be strings
			g.flow["error-non-string"] = true
			g.line("error({code = 2, msg = %s})", q("boom table from "+name))
		case 5:
			g.flow["error-non-string"] = true
			g.line("error(%d)", 2+g.pick(40))
		case 0:
			g.line("error(%s)", q("boom from "+name))
		case 1:
			g.line("error(%s, 0)", q("boom level 0 from "+name))
		case 2:
			g.flow["error-in-function"] = true
			g.line("local function deep(n) if n == 0 then error(\"deep boom\") end return deep(n - 1) end")
			g.line("deep(3)")
		default:
			g.flow["error-in-loop"] = true
			g.line("for i = 1, 3 do if i == 2 then error(\"boom in iteration \" .. i) end end")
		}
	case "fail-runtime":
		switch g.pick(4) {
		case 0:
			g.line("local z = nil")
			g.line("z.field = 1")
		case 1:
			g.line("local y = 1 + {}")
		case 2:
			g.line("undefined_function_xyz(1)")
		default:
			g.line("local s = \"abc\" .. nil")
		}
	case "fail-binding":
		sel := g.pick(6)
		if ti.Kind == "index" && g.pick(2) == 0 {
			sel = 4
		}
		switch sel {
		case 0:
			g.used["manifest.get"]++
			g.line("local m = manifest.get(%s)", q(l.ref("no-such-tag")))
		case 1:
			g.used["tag.ls"]++
			g.line("local x = tag.ls(42)")
		case 2:
			g.used["reference.new"]++
			g.line("local x = reference.new(\"NOT a valid ref %%%%\")")
		case 3:
			g.used["blob.get"]++
			g.line("local x = blob.get(%s, %s)", q(l.base()), q("sha256:"+strings.Repeat("1", 64)))
		case 4:
			g.used["image.config"]++
			if ti.Kind == "index" {
				// an index has no config: the binding fails after it has started its registry work
				g.used["manifest.getList"]++
				g.line("local x = image.config(manifest.getList(%s))", q(l.ref(ti.Tag)))
			} else {
				g.used["manifest.head"]++
				g.line("local x = image.config(manifest.head(%s))", q(l.ref(ti.Tag)))
			}
		default:
			g.used["repo.ls"]++
			g.line("local x = repo.ls()")
		}
	case "fail-gopanic":
		// a head-only manifest has no body: export reflects on a nil value inside the binding
		g.used["manifest.head"]++
		g.used["m:export"]++
		g.line("local x = manifest.head(%s):export()", q(l.ref(ti.Tag)))
	}
	if kind == "fail-binding" || kind == "fail-gopanic" {
		g.line("error(\"fallback: the call above was expected to fail\")")
	}
	g.line("log(\"AFTER-FAIL\")")
}

// genScript builds one script.
func genScript(rng *rand.Rand, w *world, assign map[string]string, rlHosts map[string]bool, readonly bool, name, kind, tagPfx string, nStmts int, tour bool) *script {
	g := &sgen{rng: rng, w: w, assign: assign, readonly: readonly, used: map[string]int{}, flow: map[string]bool{}, tagPfx: tagPfx, rlHosts: rlHosts}
	g.b.WriteString(prelude)
	g.line("log(\"BEGIN\")")
	if tour {
		// fixed part of the core configurations: every spelling once, on a registry and on a layout
		var reg, dir *loc
		for _, l := range w.Locs {
			if l.Exists && l.isDir() && dir == nil {
				dir = l
			}
			if l.Exists && !l.isDir() && reg == nil {
				reg = l
			}
		}
		g.tour(reg)
		g.tour(dir)
		g.exportStmt()
		for _, l := range w.Locs {
			if assign[l.ID] != "" {
				g.mutTour(l)
			}
		}
	}
	failAt := -1
	if kind != "ok" {
		failAt = nStmts / 2
		if rng.Intn(3) == 0 {
			failAt = rng.Intn(nStmts + 1)
		}
	}
	for i := 0; i <= nStmts; i++ {
		if i == failAt {
			g.failStmt(kind, name)
		}
		if i == nStmts {
			break
		}
		switch {
		case !readonly && rng.Intn(100) < 45:
			if !g.mutStmt() {
				g.exportStmt()
			}
		case !readonly && rng.Intn(100) < 8:
			g.exportStmt()
		default:
			g.readStmt()
		}
	}
	g.line("log(\"END\")")
	g.used["log"]++
	s := &script{Name: name, Kind: kind, Text: g.b.String(), ReadOnly: readonly, Used: g.used}
	for f := range g.flow {
		s.Flow = append(s.Flow, f)
	}
	sort.Strings(s.Flow)
	return s
}

// tour emits every read-only spelling of the catalogue once against l, in a fixed order,
// so that the coverage of the catalogue does not depend on the seed.
func (g *sgen) tour(l *loc) {
	ti := l.Tags[0]
	ref := q(l.ref(ti.Tag))
	if !l.isDir() {
		g.R("repo.ls", "", fmt.Sprintf("return J(repo.ls(%s))", q(l.Host.Addr())))
	}
	g.R("tag.ls", "", fmt.Sprintf("return J(tag.ls(%s))", q(l.base())))
	var last luaVar
	for _, f := range []string{"manifest.head", "image.manifestHead", "manifest.getList", "image.manifestList", "image.manifest", "manifest.get"} {
		v := g.newVar("m")
		g.R(f, "", fmt.Sprintf("%s = %s(%s) return %s", v, f, ref, v))
		last = luaVar{Name: v, Loc: l, Head: strings.Contains(f, "ead")}
		g.mans = append(g.mans, last)
	}
	m := last.Name
	g.R("manifest.tostring", "", fmt.Sprintf("return #tostring(%s) .. \"|\" .. tostring(%s.mediaType)", m, m))
	for _, meth := range []string{"get", "head", "export"} {
		v := g.newVar("m")
		g.R("m:"+meth, "", fmt.Sprintf("%s = %s:%s() return %s", v, m, meth, v))
		g.mans = append(g.mans, luaVar{Name: v, Loc: l, Head: meth == "head"})
	}
	c := g.newVar("c")
	g.R("m:config", "", fmt.Sprintf("%s = %s:config() return %s", c, m, c))
	g.R("m:ratelimit", "", fmt.Sprintf("local rl = %s:ratelimit() return tostring(rl.Set) .. \"|\" .. tostring(rl.Remain)", m))
	g.R("m:ratelimitWait", "", fmt.Sprintf("return %s:ratelimitWait(2)", m))
	g.R("image.ratelimitWait", "", fmt.Sprintf("return image.ratelimitWait(%s, 2, \"10ms\", \"30s\")", ref))
	c2 := g.newVar("c")
	g.R("image.config", "", fmt.Sprintf("%s = image.config(%s) return %s", c2, ref, c2))
	g.R("config.tostring", "", fmt.Sprintf("return tostring(%s)", c2))
	c3 := g.newVar("c")
	g.R("config:export", "", fmt.Sprintf("%s = %s:export() return %s", c3, c2, c3))
	g.cfgs = append(g.cfgs, luaVar{Name: c, Loc: l}, luaVar{Name: c2, Loc: l}, luaVar{Name: c3, Loc: l})
	d := q(g.someBlobDigest(ti))
	b1, b2 := g.newVar("b"), g.newVar("b")
	g.R("blob.head", "", fmt.Sprintf("%s = blob.head(%s, %s) return \"blob\"", b1, q(l.base()), d))
	g.R("blob.get", "", fmt.Sprintf("%s = blob.get(%s, %s) return \"blob\"", b2, q(l.base()), d))
	g.R("b:head", "", fmt.Sprintf("local x = %s:head() return \"blob\"", b1))
	g.R("b:get", "", fmt.Sprintf("local x = %s:get() return \"blob\"", b2))
	g.blobs = append(g.blobs, luaVar{Name: b1, Loc: l, Head: true}, luaVar{Name: b2, Loc: l})
	r := g.newVar("rf")
	g.R("reference.new", "", fmt.Sprintf("%s = reference.new(%s) return %s", r, ref, r))
	g.R("reference.tostring", "", fmt.Sprintf("return tostring(%s)", r))
	g.R("ref:tag", "", fmt.Sprintf("local a = %s:tag() %s:tag(\"other\") local b = %s:tag() %s:tag(a) return a .. \"|\" .. b", r, r, r, r))
	g.R("ref:digest", "", fmt.Sprintf("local a = %s:digest() %s:digest(%s) local b = %s:digest() %s:digest(\"\") %s:tag(%s) return a .. \"|\" .. b", r, r, q(ti.Top.Digest), r, r, r, q(ti.Tag)))
	g.R("ref:close", "", fmt.Sprintf("%s:close() return \"closed\"", r))
	g.R("reference.close", "", fmt.Sprintf("reference.close(%s) return \"closed\"", r))
	g.refs = append(g.refs, luaVar{Name: r, Loc: l})
	g.R("log", "", "log(\"plain message\") return \"logged\"")
}

// mutTour emits every spelling of the class assigned to t once.
func (g *sgen) mutTour(t *loc) {
	src := g.anyExisting()
	sti := g.anyTag(src)
	sref := q(src.ref(sti.Tag))
	tag := func() string { g.n++; return fmt.Sprintf("%sn%d", g.tagPfx, g.n) }
	switch g.assign[t.ID] {
	case clTagDelete:
		for i, ti := range t.Tags {
			if i%2 == 0 {
				g.M("tag.delete", t, "", fmt.Sprintf("tag.delete(%s) return \"done\"", q(t.ref(ti.Tag))))
			} else {
				g.used["reference.new"]++
				g.M("tag.delete", t, "", fmt.Sprintf("tag.delete(reference.new(%s)) return \"done\"", q(t.ref(ti.Tag))))
			}
		}
	case clManDelete:
		for i, ti := range t.Tags {
			f := []string{"manifest.head", "manifest.getList", "manifest.get"}[i%3]
			g.used[f]++
			g.M("m:delete", t, "", fmt.Sprintf("local m = %s(%s) m:delete() return \"done\"", f, q(t.ref(ti.Tag))))
		}
	case clManPut:
		g.used["manifest.getList"] += 3
		g.M("manifest.put", t, "", fmt.Sprintf("manifest.put(manifest.getList(%s), %s) return \"done\"", sref, q(t.ref(tag()))))
		g.M("m:put", t, "", fmt.Sprintf("local m = manifest.getList(%s) m:put(%s) return \"done\"", sref, q(t.ref(tag()))))
		g.used["m:export"]++
		g.used["reference.new"]++
		g.M("manifest.put", t, "", fmt.Sprintf("local e = manifest.getList(%s):export() manifest.put(e, reference.new(%s)) return \"done\"", sref, q(t.ref(tag()))))
	case clBlobPut:
		g.M("blob.put", t, "", fmt.Sprintf("local d, n = blob.put(%s, \"tour bytes\") return tostring(d) .. \"|\" .. tostring(n)", q(t.base())))
		d := sti.Top.Digest
		if len(sti.Layers) > 0 {
			d = sti.Layers[0]
		} else if len(sti.Configs) > 0 {
			d = sti.Configs[0]
		}
		g.used["blob.get"]++
		g.used["reference.new"]++
		g.M("blob.put", t, "", fmt.Sprintf("local b = blob.get(%s, %s) local d, n = blob.put(reference.new(%s), b) return tostring(d) .. \"|\" .. tostring(n)", q(src.base()), q(d), q(t.ref(tag()))))
		g.used["image.config"]++
		g.M("blob.put", t, "", fmt.Sprintf("local c = image.config(%s) local d, n = blob.put(reference.new(%s), c) return tostring(d) .. \"|\" .. tostring(n)", sref, q(t.ref(tag()))))
		if t.Exists {
			b := g.newBlobVar(t, t.Tags[0])
			g.M("b:put", t, "", fmt.Sprintf("local d, n = %s:put(\"bytes for b:put\") return tostring(d) .. \"|\" .. tostring(n)", b.Name))
		}
	case clCopy:
		g.M("image.copy", t, "", fmt.Sprintf("image.copy(%s, %s) return \"done\"", sref, q(t.ref(tag()))))
		g.used["reference.new"] += 2
		g.M("image.copy", t, "", fmt.Sprintf("image.copy(reference.new(%s), reference.new(%s), {digestTags = true, forceRecursive = true}) return \"done\"", sref, q(t.ref(tag()))))
	case clImport:
		g.M("image.importTar", t, "", fmt.Sprintf("image.importTar(%s, %s) return \"done\"", q(t.ref(tag())), q(g.w.Tars[0])))
	}
}
