package main

import (
	"archive/tar"
	"crypto/sha256"
	"encoding/hex"
	"fmt"
	"io/fs"
	"math/rand"
	"os"
	"path/filepath"
	"sort"
	"strings"

	"verif/gen"
	la "verif/layoutaudit"
	"verif/modelreg"
)

// tagInfo is what the script generator knows about one tagged image of a location.
type tagInfo struct {
	Tag     string
	G       *gen.Graph
	Top     *gen.Node
	Kind    string   // image index artifact schema1
	Images  []string // digests of image manifests in the closure (the top itself for an image)
	Configs []string // digests of config blobs in the closure
	Layers  []string // digests of layer blobs in the closure
	Shape   gen.Shape
}

// loc is one place a reference can point to: a repository of a model host or a layout directory.
type loc struct {
	ID     string // h0/r1, d0, h1/new0, dnew0
	Host   *modelreg.Host
	Repo   string
	Dir    string
	Exists bool // holds images at the start of the run
	Tags   []*tagInfo
}

func (l *loc) isDir() bool { return l.Dir != "" }

// base is the reference string without tag or digest.
func (l *loc) base() string {
	if l.isDir() {
		return "ocidir://" + l.Dir
	}
	return l.Host.Addr() + "/" + l.Repo
}

func (l *loc) ref(tag string) string { return l.base() + ":" + tag }

func (l *loc) dref(digest string) string { return l.base() + "@" + digest }

// world is everything one regbot run can see.
type world struct {
	Root    string // guard directory: everything below is snapshotted
	W       *modelreg.World
	Hosts   []*modelreg.Host
	Locs    []*loc
	Tars    []string // archives that image.importTar can read
	OutDir  string   // where image.exportTar is told to write
	HomeDir string
	Key     string // shape class of the world
	Desc    []string
}

func (w *world) close() {
	w.W.Close()
	_ = os.RemoveAll(w.Root)
}

func infoOf(g *gen.Graph, tag string, s gen.Shape) *tagInfo {
	top := g.Nodes[g.Tags[tag]]
	ti := &tagInfo{Tag: tag, G: g, Top: top, Kind: top.Kind, Shape: s}
	for _, id := range g.Closure(top.ID) {
		n := g.Nodes[id]
		switch n.Kind {
		case "image", "artifact":
			ti.Images = append(ti.Images, n.Digest)
		case "config":
			ti.Configs = append(ti.Configs, n.Digest)
		case "layer", "blob":
			if !n.External {
				ti.Layers = append(ti.Layers, n.Digest)
			}
		}
	}
	return ti
}

func smallShape(rng *rand.Rand) gen.Shape {
	s := gen.RandomShape(rng)
	s.Foreign = false
	if s.MaxBlob > 600 {
		s.MaxBlob = 600
	}
	if s.Platforms > 3 {
		s.Platforms = 3
	}
	return s
}

// buildWorld creates hosts, layouts and archives below root, all written raw by the harness.
func buildWorld(rng *rand.Rand, root string) (*world, error) {
	w := &world{Root: root, W: modelreg.NewWorld(), OutDir: filepath.Join(root, "out"), HomeDir: filepath.Join(root, "home")}
	for _, d := range []string{root, w.OutDir, w.HomeDir, filepath.Join(root, "layouts"), filepath.Join(root, "tars")} {
		if err := os.MkdirAll(d, 0o755); err != nil {
			return nil, err
		}
	}
	nHosts := 1 + rng.Intn(3)
	nDirs := 1 + rng.Intn(2)
	tagNo := 0
	newGraph := func() (*gen.Graph, string, gen.Shape) {
		s := smallShape(rng)
		tag := fmt.Sprintf("t%d", tagNo)
		if rng.Intn(4) == 0 {
			tag = []string{"latest", "v1.2.3", "stable_x", "a-b.c"}[rng.Intn(4)] + fmt.Sprint(tagNo)
		}
		tagNo++
		return gen.Random(rng, "sha256", s, tag), tag, s
	}
	shapeKeys := []string{}
	for i := 0; i < nHosts; i++ {
		h := w.W.NewHost(fmt.Sprintf("h%d", i))
		h.Cfg.TagDeleteAPI = rng.Intn(2) == 0
		h.Cfg.ReferrersAPI = rng.Intn(2) == 0
		if rng.Intn(3) == 0 {
			h.Cfg.TagPage = 1 + rng.Intn(2)
		}
		if rng.Intn(3) == 0 {
			h.Cfg.CatalogPage = 1 + rng.Intn(2)
		}
		if rng.Intn(3) == 0 {
			h.Cfg.Mount = "decline" // ("refuse" answers 405, which the client retries with long back-off in normal mode)
		}
		// permissive hosts only: every 4xx other than 404 makes the client back off exponentially
		// (0.8 s, 1.6 s, ... per further error), which only costs wall time here
		w.Hosts = append(w.Hosts, h)
		w.Desc = append(w.Desc, fmt.Sprintf("host h%d=%s tagDeleteAPI=%t referrersAPI=%t tagPage=%d catalogPage=%d mount=%q", i, h.Addr(),
			h.Cfg.TagDeleteAPI, h.Cfg.ReferrersAPI, h.Cfg.TagPage, h.Cfg.CatalogPage, h.Cfg.Mount))
		nRepos := 1 + rng.Intn(3)
		for j := 0; j < nRepos; j++ {
			repo := fmt.Sprintf("r%d", j)
			if rng.Intn(3) == 0 {
				repo = fmt.Sprintf("proj/sub%d/r%d", rng.Intn(2), j)
			}
			l := &loc{ID: fmt.Sprintf("h%d/%s", i, repo), Host: h, Repo: repo, Exists: true}
			for k := 0; k < 1+rng.Intn(2); k++ {
				g, tag, s := newGraph()
				g.ToHost(h, repo, nil, true)
				for t := range g.Tags {
					if t == tag {
						l.Tags = append(l.Tags, infoOf(g, t, s))
					}
				}
				shapeKeys = append(shapeKeys, s.Kind)
			}
			// a second tag on the same manifest now and then (tag.delete must not need to remove the manifest)
			if rng.Intn(3) == 0 {
				ti := l.Tags[0]
				alias := ti.Tag + "-alias"
				h.SetTag(repo, alias, ti.Top.Digest)
				c := *ti
				c.Tag = alias
				l.Tags = append(l.Tags, &c)
			}
			w.Locs = append(w.Locs, l)
			w.Desc = append(w.Desc, fmt.Sprintf("repo %s tags=%s", l.ID, tagNames(l)))
		}
		// a repository name that does not exist yet
		w.Locs = append(w.Locs, &loc{ID: fmt.Sprintf("h%d/new%d", i, i), Host: h, Repo: fmt.Sprintf("new%d", i)})
	}
	for i := 0; i < nDirs; i++ {
		dir := filepath.Join(root, "layouts", fmt.Sprintf("d%d", i))
		l := &loc{ID: fmt.Sprintf("d%d", i), Dir: dir, Exists: true}
		var entries []gen.Obj
		for k := 0; k < 1+rng.Intn(2); k++ {
			g, tag, s := newGraph()
			for _, n := range g.Nodes {
				if n.External {
					continue
				}
				if err := gen.WriteLayoutBlob(dir, n.Digest, n.Content); err != nil {
					return nil, err
				}
			}
			tags := []string{}
			for t := range g.Tags {
				tags = append(tags, t)
			}
			sort.Strings(tags)
			for _, t := range tags {
				n := g.Nodes[g.Tags[t]]
				entries = append(entries, gen.Obj{{K: "mediaType", V: n.MT}, {K: "digest", V: n.Digest}, {K: "size", V: len(n.Content)},
					{K: "annotations", V: map[string]string{la.AnnotRefName: t}}})
				if t == tag {
					l.Tags = append(l.Tags, infoOf(g, t, s))
				}
			}
			shapeKeys = append(shapeKeys, "dir-"+s.Kind)
		}
		if err := gen.WriteLayoutIndex(dir, entries); err != nil {
			return nil, err
		}
		w.Locs = append(w.Locs, l)
		w.Desc = append(w.Desc, fmt.Sprintf("layout %s dir=%s tags=%s", l.ID, dir, tagNames(l)))
	}
	// a layout directory that does not exist yet
	w.Locs = append(w.Locs, &loc{ID: "dnew0", Dir: filepath.Join(root, "layouts", "dnew0")})
	// archives for image.importTar
	for i := 0; i < 1+rng.Intn(2); i++ {
		g, tag, s := newGraph()
		p := filepath.Join(root, "tars", fmt.Sprintf("in%d.tar", i))
		if err := writeLayoutTar(p, g, tag); err != nil {
			return nil, err
		}
		w.Tars = append(w.Tars, p)
		shapeKeys = append(shapeKeys, "tar-"+s.Kind)
	}
	sort.Strings(shapeKeys)
	w.Key = fmt.Sprintf("h%d/d%d/%s", nHosts, nDirs, strings.Join(uniq(shapeKeys), ","))
	return w, nil
}

func uniq(s []string) []string {
	var out []string
	for i, x := range s {
		if i == 0 || s[i-1] != x {
			out = append(out, x)
		}
	}
	return out
}

func tagNames(l *loc) string {
	var t []string
	for _, ti := range l.Tags {
		t = append(t, ti.Tag+"="+ti.Kind)
	}
	return strings.Join(t, ",")
}

// writeLayoutTar writes an OCI-layout archive holding the closure of the tagged node.
func writeLayoutTar(path string, g *gen.Graph, tag string) error {
	f, err := os.Create(path)
	if err != nil {
		return err
	}
	defer f.Close()
	tw := tar.NewWriter(f)
	add := func(name string, b []byte) error {
		if err := tw.WriteHeader(&tar.Header{Name: name, Mode: 0o644, Size: int64(len(b)), Typeflag: tar.TypeReg}); err != nil {
			return err
		}
		_, err := tw.Write(b)
		return err
	}
	top := g.Nodes[g.Tags[tag]]
	idx, _ := gen.Obj{{K: "schemaVersion", V: 2}, {K: "mediaType", V: la.MTOCIIndex}, {K: "manifests", V: []gen.Obj{{{K: "mediaType", V: top.MT}, {K: "digest", V: top.Digest},
		{K: "size", V: len(top.Content)}, {K: "annotations", V: map[string]string{la.AnnotRefName: tag}}}}}}.MarshalJSON()
	if err := add("oci-layout", []byte(`{"imageLayoutVersion":"1.0.0"}`)); err != nil {
		return err
	}
	if err := add("index.json", idx); err != nil {
		return err
	}
	for _, id := range g.Closure(top.ID) {
		n := g.Nodes[id]
		if n.External {
			continue
		}
		alg, enc, _ := la.SplitDigest(n.Digest)
		if err := add("blobs/"+alg+"/"+enc, n.Content); err != nil {
			return err
		}
	}
	return tw.Close()
}

// ---------------------------------------------------------------------------------------
// raw observation of the world (never through regclient)

// fsEntry is one line of a recursive directory snapshot.
type fsEntry struct {
	Mode  fs.FileMode
	Size  int64
	SHA   string
	MTime int64
	IsDir bool
}

// snapDir walks root and records every entry below it.
func snapDir(root string) map[string]fsEntry {
	out := map[string]fsEntry{}
	_ = filepath.WalkDir(root, func(p string, d fs.DirEntry, err error) error {
		if err != nil {
			out[p+" (walk error)"] = fsEntry{}
			return nil
		}
		fi, err := d.Info()
		if err != nil {
			return nil
		}
		rel, _ := filepath.Rel(root, p)
		e := fsEntry{Mode: fi.Mode(), IsDir: d.IsDir()}
		if !d.IsDir() {
			e.Size = fi.Size()
			e.MTime = fi.ModTime().UnixNano()
			if fi.Mode().IsRegular() {
				b, _ := os.ReadFile(p)
				s := sha256.Sum256(b)
				e.SHA = hex.EncodeToString(s[:])
			} else if fi.Mode()&fs.ModeSymlink != 0 {
				e.SHA, _ = os.Readlink(p)
			}
		}
		out[rel] = e
		return nil
	})
	return out
}

// fsChange is one difference between two snapshots.
type fsChange struct {
	Path string `json:"path"`
	What string `json:"what"` // created removed modified mtime mode dir-created dir-removed
}

func diffDir(a, b map[string]fsEntry) []fsChange {
	var out []fsChange
	for p, ea := range a {
		eb, ok := b[p]
		switch {
		case !ok && ea.IsDir:
			out = append(out, fsChange{p, "dir-removed"})
		case !ok:
			out = append(out, fsChange{p, "removed"})
		case ea.IsDir != eb.IsDir:
			out = append(out, fsChange{p, "modified"})
		case ea.IsDir:
			if ea.Mode != eb.Mode {
				out = append(out, fsChange{p, "dir-mode"})
			}
		case ea.SHA != eb.SHA || ea.Size != eb.Size:
			out = append(out, fsChange{p, "modified"})
		case ea.MTime != eb.MTime:
			out = append(out, fsChange{p, "mtime"})
		case ea.Mode != eb.Mode:
			out = append(out, fsChange{p, "mode"})
		}
	}
	for p, eb := range b {
		if _, ok := a[p]; !ok {
			if eb.IsDir {
				out = append(out, fsChange{p, "dir-created"})
			} else {
				out = append(out, fsChange{p, "created"})
			}
		}
	}
	sort.Slice(out, func(i, j int) bool { return out[i].Path < out[j].Path })
	return out
}

// regState is the raw state of all hosts: host/repo -> key -> value hash.
func regState(w *world) map[string]map[string]string {
	out := map[string]map[string]string{}
	for _, h := range w.Hosts {
		for rn, m := range h.Snapshot() {
			out[h.Name+"/"+rn] = m
		}
	}
	return out
}

func diffState(a, b map[string]map[string]string) []string {
	var out []string
	for rn, ma := range a {
		mb, ok := b[rn]
		if !ok {
			out = append(out, "repository removed: "+rn)
			continue
		}
		for k, v := range ma {
			if v2, ok := mb[k]; !ok {
				out = append(out, rn+": removed "+k)
			} else if v2 != v {
				out = append(out, rn+": changed "+k)
			}
		}
		for k := range mb {
			if _, ok := ma[k]; !ok {
				out = append(out, rn+": added "+k)
			}
		}
	}
	for rn, mb := range b {
		if _, ok := a[rn]; !ok {
			out = append(out, fmt.Sprintf("repository created: %s (%d objects)", rn, len(mb)))
		}
	}
	sort.Strings(out)
	return out
}
