package main

import (
	"context"
	"fmt"
	"os"
	"os/exec"
	"path/filepath"
	"sort"
	"strings"
	"time"

	"verif/ev"
)

// raceProbe (thorough tier only) builds regbot with the race detector and runs parallel
// configurations in which several scripts fail. Reports are evidence, never a verdict:
// the statement names no shared variable, and a race that is not visible in requests,
// files, logged results or end markers does not refute it (DESIGN §2.4 race policy).
func (ck *checker) raceProbe() {
	run := ck.run
	repo := os.Getenv("VERIF_REPO")
	if repo == "" {
		repo = "/repo"
	}
	bin := filepath.Join(ck.bin, "regbot-race")
	ctx, cancel := context.WithTimeout(context.Background(), 15*time.Minute)
	defer cancel()
	cmd := exec.CommandContext(ctx, "go", "build", "-race", "-tags", "verif", "-o", bin, "./cmd/regbot")
	cmd.Dir = repo
	if out, err := cmd.CombinedOutput(); err != nil {
		run.Put("race_probe", "race-enabled regbot could not be built: "+tail(string(out), 300))
		return
	}
	saved := ck.regbot
	ck.regbot = bin
	defer func() { ck.regbot = saved }()
	seen := map[string]int{}
	n := 40
	for i := 0; i < n; i++ {
		rng := ev.Rand(fmt.Sprintf("c19/race/%d", i))
		root := filepath.Join(ck.bin, "w", fmt.Sprintf("race%d", i))
		_ = os.RemoveAll(root)
		w, err := buildWorld(rng, root)
		if err != nil {
			continue
		}
		_ = os.MkdirAll(filepath.Join(root, "tmp"), 0o755)
		c := &conf{Case: 100000 + i, Kind: "race", Assign: map[string]string{}, RLHosts: map[string]bool{}, Parallel: 2 + rng.Intn(3), Verbosity: "info"}
		for k := 0; k < 4; k++ {
			kind := failKinds[rng.Intn(len(failKinds))]
			if k == 3 {
				kind = "ok"
			}
			c.Scripts = append(c.Scripts, genScript(rng, w, c.Assign, c.RLHosts, true, fmt.Sprintf("race%d-s%d", i, k), kind, "z", 1+rng.Intn(3), false))
		}
		c.Text = renderConf(c, w, rng)
		cfg := filepath.Join(root, "cfg.yml")
		_ = os.WriteFile(cfg, []byte(c.Text), 0o644)
		res := runRegbot(bin, cfg, w, true, "info")
		run.Count("race_probe_runs", 1)
		for _, rep := range strings.Split(res.Stderr, "WARNING: DATA RACE")[1:] {
			// key: first frame of the accessing stack and its source position
			var frames []string
			ls := strings.Split(rep, "\n")
			for j, l := range ls {
				l = strings.TrimSpace(l)
				if (strings.HasPrefix(l, "main.") || strings.HasPrefix(l, "github.com/regclient/regclient")) && strings.Contains(l, "(") {
					f := l[:strings.LastIndex(l, "(")]
					if j+1 < len(ls) {
						pos := strings.Fields(strings.TrimSpace(ls[j+1]))
						if len(pos) > 0 {
							f += " at " + strings.TrimPrefix(pos[0], repo+"/")
						}
					}
					frames = append(frames, f)
					break
				}
			}
			seen[strings.Join(frames, " <-> ")]++
		}
		w.close()
	}
	var list []string
	total := 0
	for k, v := range seen {
		list = append(list, fmt.Sprintf("%s x%d", k, v))
		total += v
	}
	sort.Strings(list)
	run.Count("race_probe_reports_not_attributed_to_the_property", total)
	run.Put("race_probe", map[string]any{"binary": "regbot built with -race", "configurations": n, "distinct_reports": list,
		"note": "reports are listed for triage only; the property's verdict comes from requests, files, logged results and end markers"})
}
