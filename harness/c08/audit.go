package main

// Independent judgement of a layout directory around a Close: raw directory listings,
// reachability computed with layoutaudit (nothing is read through regclient).

import (
	"crypto/sha256"
	"encoding/hex"
	"fmt"
	"io/fs"
	"os"
	"path/filepath"
	"regexp"
	"sort"
	"strings"

	la "verif/layoutaudit"
)

// snap is the raw state of a layout directory at one instant.
type snap struct {
	Dir    string
	Files  map[string]string // path relative to the layout, below blobs/ -> sha256 of the content
	Top    map[string]string // every other regular file of the layout -> sha256 of the content
	Index  *la.Index         // nil when index.json is missing / unreadable
	IdxErr string
	Marker string            // "" when oci-layout is valid
	Reach  map[string]string // digest -> label of the edge by which it is reachable from index.json
}

func fileSHA(p string) string {
	b, err := os.ReadFile(p)
	if err != nil {
		return "unreadable:" + err.Error()
	}
	s := sha256.Sum256(b)
	return hex.EncodeToString(s[:])
}

var fallbackTagRE = regexp.MustCompile(`^sha(256|512)-[0-9a-f]{64}$`)

// takeSnap lists the layout and computes reachability. It only reads.
func takeSnap(dir string) *snap {
	s := &snap{Dir: dir, Files: map[string]string{}, Top: map[string]string{}}
	_ = filepath.WalkDir(dir, func(p string, d fs.DirEntry, err error) error {
		if err != nil || d.IsDir() {
			return nil
		}
		rel, rerr := filepath.Rel(dir, p)
		if rerr != nil {
			return nil
		}
		rel = filepath.ToSlash(rel)
		if strings.HasPrefix(rel, "blobs/") {
			s.Files[rel] = fileSHA(p)
		} else {
			s.Top[rel] = fileSHA(p)
		}
		return nil
	})
	l := la.Layout{Dir: dir}
	if err := l.CheckMarker(); err != nil {
		s.Marker = err.Error()
	}
	idx, err := l.ReadIndex()
	if err != nil {
		s.IdxErr = err.Error()
		return s
	}
	s.Index = idx
	s.Reach = reachLabels(l, idx)
	return s
}

// reachLabels is the mark phase of the statement: index entries -> nested indexes at any depth ->
// configs, layers, artifact blobs; referrers through their fallback-tag entry; the subject edge is
// not an edge. Every reached digest gets the label of the (first) edge that reached it; the labels
// only serve to give different losses different fingerprints. Missing children are skipped (sparse
// layouts are legal). The walk mirrors layoutaudit.Layout.Reachable, against which it is cross-checked.
func reachLabels(l la.Layout, idx *la.Index) map[string]string {
	seen := map[string]string{}
	var walk func(d, mt, label, pfx string, depth int)
	walk = func(d, mt, label, pfx string, depth int) {
		if _, ok := seen[d]; ok {
			return
		}
		seen[d] = pfx + label
		b, ok := l.Blob(d)
		if !ok {
			return
		}
		if mt != "" && !la.IsManifestMT(mt) {
			return
		}
		m, err := la.Parse(b, mt)
		if err != nil {
			return
		}
		kind := m.Kind
		if kind == "image" && m.MediaType == "" {
			// the body does not say what it is: only the descriptor that names it does
			kind = "image-without-mediaType"
			if len(m.Layers) == 0 {
				kind += "-no-layers"
			}
		}
		mark := func(cd, role string) {
			if _, ok := seen[cd]; !ok {
				seen[cd] = pfx + kind + ">" + role
			}
		}
		switch m.Kind {
		case "image":
			if m.Config != nil {
				mark(m.Config.Digest, "config")
			}
			for _, x := range m.Layers {
				if len(x.URLs) > 0 {
					// a layer that also names external URLs: when the layout stores it, the manifest names it like
					// any other layer
					mark(x.Digest, "layer-with-urls")
					continue
				}
				mark(x.Digest, "layer")
			}
		case "index":
			for _, e := range m.Manifests {
				if la.IsManifestMT(e.MediaType) {
					dep := depth + 1
					if dep > 3 {
						dep = 3
					}
					walk(e.Digest, e.MediaType, fmt.Sprintf("index>manifest@depth%d", dep), pfx, depth+1)
				} else {
					mark(e.Digest, "blob-entry")
				}
			}
		case "artifact":
			for _, x := range m.Blobs {
				mark(x.Digest, "blob")
			}
		case "schema1":
			for _, x := range m.FSLayers {
				mark(x, "layer")
			}
		}
	}
	// ordinary roots first so that content reachable both ways keeps its plain label
	for _, e := range idx.Manifests {
		n, tagged := e.Annotations[la.AnnotRefName]
		if tagged && fallbackTagRE.MatchString(n) {
			continue
		}
		label := "root/untagged"
		if tagged {
			label = "root/tagged"
		}
		walk(e.Digest, e.MediaType, label, "", 0)
	}
	for _, e := range idx.Manifests {
		n, tagged := e.Annotations[la.AnnotRefName]
		if tagged && fallbackTagRE.MatchString(n) {
			walk(e.Digest, e.MediaType, "root/fallback-tag", "referrers:", 0)
		}
	}
	return seen
}

func digestPath(d string) string {
	i := strings.IndexByte(d, ':')
	if i < 0 {
		return ""
	}
	return "blobs/" + d[:i] + "/" + d[i+1:]
}

// pathDigest returns the digest a file below blobs/ is named by ("" if it is not digest-named).
func pathDigest(rel string) string {
	parts := strings.Split(rel, "/")
	if len(parts) != 3 || parts[0] != "blobs" {
		return ""
	}
	d := parts[1] + ":" + parts[2]
	if _, _, ok := la.SplitDigest(d); !ok {
		return ""
	}
	return d
}

type idxKey struct{ digest, name string }

func indexEntries(idx *la.Index) map[idxKey]int {
	out := map[idxKey]int{}
	if idx == nil {
		return out
	}
	for _, e := range idx.Manifests {
		out[idxKey{e.Digest, e.Annotations[la.AnnotRefName]}]++
	}
	return out
}

// closeFinding is one way in which a Close broke the statement.
type closeFinding struct {
	FP   string // fingerprint class (without variant)
	What string
}

// closeResult is the judgement of one Close.
type closeResult struct {
	Ran              bool // a collection ran: at least one file below blobs/ was removed
	Removed          []string
	RemovedReachable int
	LeftUnreachable  int
	Findings         []closeFinding
	ReachFiles       int // files that were reachable before the Close (each one was checked)
	TmpBefore        int
	GarbageBefore    int // unreachable digest-named files before
	RootTmpLeft      int // *.tmp directly in the layout directory still there after a collection (not judged)
	OddLeft          int // files below blobs/ that are neither digest-named nor *.tmp, left by a collection (not judged)
}

// judgeClose applies the clauses of the statement to the states before and after one Close.
// gcEnabled=false: the collector is switched off, nothing may be removed or altered.
// origin labels files the harness knows the history of (planted canaries, orphan blobs).
func judgeClose(before, after *snap, gcEnabled bool, origin map[string]string) closeResult {
	var r closeResult
	add := func(fp, what string) { r.Findings = append(r.Findings, closeFinding{fp, what}) }
	for p := range before.Files {
		if _, ok := after.Files[p]; !ok {
			r.Removed = append(r.Removed, p)
		}
		if strings.HasSuffix(p, ".tmp") {
			r.TmpBefore++
		} else if d := pathDigest(p); d != "" && before.Reach != nil {
			if _, ok := before.Reach[d]; !ok {
				r.GarbageBefore++
			}
		}
	}
	sort.Strings(r.Removed)
	r.Ran = len(r.Removed) > 0

	if !gcEnabled {
		// clause 3: nothing is ever removed (or altered) by a Close with the collector disabled
		for _, p := range r.Removed {
			add("gc-disabled-removed/"+classOf(p, before, origin), fmt.Sprintf("Close with garbage collection disabled removed %s", p))
		}
		for p, h := range before.Files {
			if h2, ok := after.Files[p]; ok && h2 != h {
				add("gc-disabled-altered/file-below-blobs", fmt.Sprintf("Close with garbage collection disabled altered %s", p))
			}
		}
		for p, h := range before.Top {
			if h2, ok := after.Top[p]; !ok {
				add("gc-disabled-removed/top-level-file", fmt.Sprintf("Close with garbage collection disabled removed %s", p))
			} else if h2 != h {
				add("gc-disabled-altered/top-level-file", fmt.Sprintf("Close with garbage collection disabled altered %s", p))
			}
		}
	}

	// clause 1: whatever was reachable before is still there, unaltered
	if before.Reach != nil {
		ds := make([]string, 0, len(before.Reach))
		for d := range before.Reach {
			ds = append(ds, d)
		}
		sort.Strings(ds)
		for _, d := range ds {
			p := digestPath(d)
			h, ok := before.Files[p]
			if !ok {
				continue // was not there before (sparse copy, deleted manifest): nothing to keep
			}
			r.ReachFiles++
			h2, ok2 := after.Files[p]
			switch {
			case !ok2:
				r.RemovedReachable++
				add("removed-reachable/"+before.Reach[d], fmt.Sprintf("Close removed %s, which index.json reaches as %s", p, before.Reach[d]))
			case h2 != h:
				add("altered-reachable/"+before.Reach[d], fmt.Sprintf("Close altered the content of %s (reachable as %s)", p, before.Reach[d]))
			}
		}
	}
	// index entries (tags, untagged roots, fallback tags) survive a Close
	if before.Index != nil {
		if after.Index == nil {
			add("index-unreadable-after-close", "index.json was readable before the Close and is not afterwards: "+after.IdxErr)
		} else {
			a := indexEntries(after.Index)
			for k := range indexEntries(before.Index) {
				if a[k] == 0 {
					kind := "untagged"
					if fallbackTagRE.MatchString(k.name) {
						kind = "fallback-tag"
					} else if k.name != "" {
						kind = "tag"
					}
					add("index-entry-dropped/"+kind, fmt.Sprintf("Close dropped the index entry %s (ref.name %q)", k.digest, k.name))
				}
			}
		}
	}
	if before.Marker == "" && after.Marker != "" {
		add("marker-broken-after-close", "oci-layout was valid before the Close and is not afterwards: "+after.Marker)
	}

	// clause 2: a collection that ran leaves no unreachable digest file and no temporary file below blobs/
	if gcEnabled && r.Ran && after.Reach != nil {
		ps := make([]string, 0, len(after.Files))
		for p := range after.Files {
			ps = append(ps, p)
		}
		sort.Strings(ps)
		for _, p := range ps {
			if strings.HasSuffix(p, ".tmp") {
				r.LeftUnreachable++
				add("collection-left-tmp/"+tmpClass(p), fmt.Sprintf("a collection ran (it removed %d file(s), e.g. %s) but the temporary file %s is still there", len(r.Removed), r.Removed[0], p))
				continue
			}
			d := pathDigest(p)
			if d == "" {
				r.OddLeft++
				continue
			}
			if _, ok := after.Reach[d]; !ok {
				r.LeftUnreachable++
				add("collection-left-unreachable/"+classOf(p, after, origin), fmt.Sprintf("a collection ran (it removed %d file(s), e.g. %s) but %s, which nothing in index.json reaches, is still there", len(r.Removed), r.Removed[0], p))
			}
		}
		for p := range after.Top {
			if strings.HasSuffix(p, ".tmp") {
				r.RootTmpLeft++
			}
		}
	}
	return r
}

func tmpClass(p string) string {
	base := filepath.Base(p)
	// regclient's own patterns: "<hex>.<n>.tmp" for manifests, "<n>.tmp" for blobs
	if strings.Count(base, ".") >= 2 {
		return "manifest-style"
	}
	return "blob-style"
}

// classOf names what an unreachable / removed file is, as far as the harness knows.
func classOf(p string, s *snap, origin map[string]string) string {
	if strings.HasSuffix(p, ".tmp") {
		return "tmp-file"
	}
	d := pathDigest(p)
	if d == "" {
		return "odd-file"
	}
	if o, ok := origin[d]; ok {
		return o
	}
	if s != nil && s.Reach != nil {
		if l, ok := s.Reach[d]; ok {
			return "reachable-" + l
		}
	}
	return "former-content"
}

// crossCheckReach compares the labelled walk with layoutaudit's own mark phase.
func crossCheckReach(s *snap) string {
	if s.Index == nil {
		return ""
	}
	ref, err := la.Layout{Dir: s.Dir}.Reachable()
	if err != nil {
		return "layoutaudit.Reachable failed where the labelled walk succeeded: " + err.Error()
	}
	for d := range ref {
		if _, ok := s.Reach[d]; !ok {
			return "layoutaudit.Reachable reaches " + d + ", the labelled walk does not"
		}
	}
	for d := range s.Reach {
		if !ref[d] {
			return "the labelled walk reaches " + d + ", layoutaudit.Reachable does not"
		}
	}
	return ""
}

// closureProblems lists, for every tag of the index, what is missing below it (independent walk).
func closureProblems(s *snap) map[string][]string {
	out := map[string][]string{}
	if s.Index == nil {
		return out
	}
	l := la.Layout{Dir: s.Dir}
	for _, e := range s.Index.Manifests {
		n := e.Annotations[la.AnnotRefName]
		if n == "" {
			n = "@" + e.Digest
		}
		_, probs := la.Closure(l, e.Digest, e.MediaType, la.WalkOpts{SkipForeign: true})
		sort.Strings(probs)
		out[n] = probs
	}
	return out
}

// parentsOf lists the manifests present in the layout that name digest d (with their raw bytes), for witnesses.
func parentsOf(dir, d string) []map[string]string {
	l := la.Layout{Dir: dir}
	files, _ := l.DigestFiles()
	var out []map[string]string
	for pd, p := range files {
		b, err := os.ReadFile(p)
		if err != nil || len(b) == 0 || b[0] != '{' || len(b) > 1<<20 {
			continue
		}
		m, err := la.Parse(b, "")
		if err != nil {
			continue
		}
		for _, c := range m.Children() {
			if c.Desc.Digest == d {
				raw := string(b)
				if len(raw) > 1500 {
					raw = raw[:1500] + "..."
				}
				out = append(out, map[string]string{"manifest": pd, "kind": m.Kind, "raw": raw})
				break
			}
		}
	}
	sort.Slice(out, func(i, j int) bool { return out[i]["manifest"] < out[j]["manifest"] })
	return out
}
