package main

// Part A: sequential histories on one layout, judged around every Close.

import (
	"bytes"
	"context"
	"fmt"
	"io"
	"log/slog"
	"math/rand"
	"os"
	"path/filepath"
	"sort"
	"strings"
	"sync/atomic"
	"time"

	"github.com/opencontainers/go-digest"
	"github.com/regclient/regclient"
	"github.com/regclient/regclient/scheme"
	"github.com/regclient/regclient/scheme/ocidir"
	"github.com/regclient/regclient/types/descriptor"
	"github.com/regclient/regclient/types/manifest"
	"github.com/regclient/regclient/types/ref"

	"verif/copyeng"
	"verif/gen"
	la "verif/layoutaudit"
	"verif/modelreg"
	"verif/rcx"
)

// client is the part of the public API the histories drive: either a RegClient or the ocidir
// scheme used directly (the only way to switch the collector off).
type client interface {
	ManifestPut(ctx context.Context, r ref.Ref, m manifest.Manifest, child bool) error
	ManifestDelete(ctx context.Context, r ref.Ref) error
	TagDelete(ctx context.Context, r ref.Ref) error
	BlobPut(ctx context.Context, r ref.Ref, d descriptor.Descriptor, rdr io.Reader) error
	Close(ctx context.Context, r ref.Ref) error
	RC() *regclient.RegClient
}

type rcClient struct{ rc *regclient.RegClient }

func (c rcClient) ManifestPut(ctx context.Context, r ref.Ref, m manifest.Manifest, child bool) error {
	if child {
		return c.rc.ManifestPut(ctx, r, m, regclient.WithManifestChild())
	}
	return c.rc.ManifestPut(ctx, r, m)
}
func (c rcClient) ManifestDelete(ctx context.Context, r ref.Ref) error {
	return c.rc.ManifestDelete(ctx, r)
}
func (c rcClient) TagDelete(ctx context.Context, r ref.Ref) error { return c.rc.TagDelete(ctx, r) }
func (c rcClient) BlobPut(ctx context.Context, r ref.Ref, d descriptor.Descriptor, rdr io.Reader) error {
	_, err := c.rc.BlobPut(ctx, r, d, rdr)
	return err
}
func (c rcClient) Close(ctx context.Context, r ref.Ref) error { return c.rc.Close(ctx, r) }
func (c rcClient) RC() *regclient.RegClient                   { return c.rc }

type schemeClient struct{ o *ocidir.OCIDir }

func (c schemeClient) ManifestPut(ctx context.Context, r ref.Ref, m manifest.Manifest, child bool) error {
	if child {
		return c.o.ManifestPut(ctx, r, m, scheme.WithManifestChild())
	}
	return c.o.ManifestPut(ctx, r, m)
}
func (c schemeClient) ManifestDelete(ctx context.Context, r ref.Ref) error {
	return c.o.ManifestDelete(ctx, r)
}
func (c schemeClient) TagDelete(ctx context.Context, r ref.Ref) error { return c.o.TagDelete(ctx, r) }
func (c schemeClient) BlobPut(ctx context.Context, r ref.Ref, d descriptor.Descriptor, rdr io.Reader) error {
	_, err := c.o.BlobPut(ctx, r, d, rdr)
	return err
}
func (c schemeClient) Close(ctx context.Context, r ref.Ref) error { return c.o.Close(ctx, r) }
func (c schemeClient) RC() *regclient.RegClient                   { return nil }

// gcLogHandler counts the collector's own debug messages (evidence only, never a verdict).
type gcLogHandler struct {
	fn func(msg, ref string)
}

func (h gcLogHandler) Enabled(_ context.Context, l slog.Level) bool { return l == slog.LevelDebug }
func (h gcLogHandler) Handle(_ context.Context, r slog.Record) error {
	if r.Message == "running GC" {
		rf := ""
		r.Attrs(func(a slog.Attr) bool {
			if a.Key == "ref" {
				rf = a.Value.String()
			}
			return true
		})
		h.fn(r.Message, rf)
	}
	return nil
}
func (h gcLogHandler) WithAttrs([]slog.Attr) slog.Handler { return h }
func (h gcLogHandler) WithGroup(string) slog.Handler      { return h }

type hist struct {
	I       int
	Variant string // rc | scheme-gc | scheme-nogc
	Alg     string
	Root    string
	Dir     string
	rng     *rand.Rand
	cl      client
	mk      func() client
	W       *modelreg.World
	pool    []*srcGraph
	srcs    []copyeng.Endpoint
	Ops     []string
	sinceCl []string // op kinds since the previous Close
	origin  map[string]string
	refs    []string // digests of referrers this history added
	gcLog   atomic.Int64
	verbose bool
	regOnly bool // every source is a model registry
	opErrs  int
	opOK    int
}

func (h *hist) logf(format string, a ...any) {
	s := fmt.Sprintf(format, a...)
	h.Ops = append(h.Ops, fmt.Sprintf("%02d %s", len(h.Ops)+1, s))
	if h.verbose {
		fmt.Printf("  hist %d op %s\n", h.I, h.Ops[len(h.Ops)-1])
	}
}

func errS(err error) string {
	if err == nil {
		return "ok"
	}
	s := err.Error()
	if len(s) > 160 {
		s = s[:160] + "..."
	}
	return "error: " + s
}

func (h *hist) dref(tagOrDigest string) ref.Ref { return rcx.DirRef(h.Dir, tagOrDigest) }

// validTag: tags read back from index.json may be longer than a reference can express
// (sha512 digest tags); such entries are not addressed by tag.
func validTag(t string) bool {
	if len(t) == 0 || len(t) > 128 {
		return false
	}
	_, err := ref.New("ocidir://x:" + t)
	return err == nil
}

func (h *hist) witness(extra map[string]any) map[string]any {
	w := map[string]any{"part": "A (sequential history)", "history": h.I, "variant": h.Variant, "alg": h.Alg, "layout": h.Dir,
		"ops": append([]string{}, h.Ops...), "rerun": fmt.Sprintf("VERIF_SEED=%d VERIF_C08_ONLY=A:%d ./check C08 (verbose, keeps the scratch directory)", seed(), h.I)}
	var gs []string
	for i, sg := range h.pool {
		gs = append(gs, fmt.Sprintf("g%d %s top=%s", i, sg.Shape, short(sg.G.Nodes[sg.G.Top].Digest)))
	}
	w["graphs"] = gs
	if b, err := os.ReadFile(filepath.Join(h.Dir, "index.json")); err == nil {
		w["index_json_now"] = string(b)
	}
	for k, v := range extra {
		w[k] = v
	}
	return w
}

func short(d string) string {
	if i := strings.IndexByte(d, ':'); i >= 0 && len(d) > i+13 {
		return d[:i+13]
	}
	return d
}

func mkManifest(n *gen.Node) (manifest.Manifest, error) {
	return manifest.New(manifest.WithRaw(n.Content), manifest.WithDesc(descriptor.Descriptor{MediaType: n.MT, Digest: digest.Digest(n.Digest), Size: int64(len(n.Content))}))
}

// putNodes pushes nodes of g through the client, children before parents. top is pushed under
// tagOrDigest (child=topChild); everything below it as child manifests / blobs. skip leaves nodes
// (and, for manifests, everything only they reach) out: a sparse copy.
func (h *hist) putNodes(ctx context.Context, g *gen.Graph, top int, tagOrDigest string, topChild bool, skip map[int]bool, withReferrers bool) error {
	return putNodes(ctx, h.cl, h.dref, g, top, tagOrDigest, topChild, skip, withReferrers)
}

func putNodes(ctx context.Context, cl client, dref func(string) ref.Ref, g *gen.Graph, top int, tagOrDigest string, topChild bool, skip map[int]bool, withReferrers bool) error {
	done := map[int]bool{}
	var put func(id int, isTop bool) error
	put = func(id int, isTop bool) error {
		if done[id] || skip[id] {
			return nil
		}
		done[id] = true
		n := g.Nodes[id]
		if n.External {
			return nil
		}
		if !n.IsManifest() {
			return cl.BlobPut(ctx, dref(""), descriptor.Descriptor{Digest: digest.Digest(n.Digest), Size: int64(len(n.Content))}, bytes.NewReader(n.Content))
		}
		for _, c := range n.Refs {
			if err := put(c, false); err != nil {
				return err
			}
		}
		m, err := mkManifest(n)
		if err != nil {
			return fmt.Errorf("harness: cannot build manifest object for node %d (%s): %w", id, n.MT, err)
		}
		if isTop {
			err = cl.ManifestPut(ctx, dref(tagOrDigest), m, topChild)
		} else {
			err = cl.ManifestPut(ctx, dref(n.Digest), m, true)
		}
		if err != nil {
			return err
		}
		if withReferrers {
			for _, rid := range g.ReferrersOf(id) {
				if err := put(rid, false); err != nil {
					return err
				}
			}
		}
		return nil
	}
	return put(top, true)
}

var tagNames = []string{"a", "b", "c", "v1", "rel-1.0"}

func (h *hist) indexNow() *la.Index {
	idx, err := la.Layout{Dir: h.Dir}.ReadIndex()
	if err != nil {
		return nil
	}
	return idx
}

// manifestsOnDisk lists reachable manifests that exist in the layout: digest -> (media type, raw).
type diskMan struct {
	Digest, MT string
	Raw        []byte
	Root       bool   // listed in index.json
	key        string // ordering key that does not depend on the client's internal scheduling
}

// manifestsOnDisk lists the reachable manifests that exist in the layout, in an order that is the
// same for every run of a history: the digest of a fallback-tag index depends on the order in which
// a concurrent copy added the referrers, so such indexes are ordered by their tag instead.
func (h *hist) manifestsOnDisk() []diskMan {
	idx := h.indexNow()
	if idx == nil {
		return nil
	}
	l := la.Layout{Dir: h.Dir}
	roots := map[string]bool{}
	fb := map[string]string{}
	for _, e := range idx.Manifests {
		roots[e.Digest] = true
		if n := e.Annotations[la.AnnotRefName]; fallbackTagRE.MatchString(n) {
			fb[e.Digest] = n
		}
	}
	seen := map[string]bool{}
	var out []diskMan
	var walk func(d, mt string)
	walk = func(d, mt string) {
		if seen[d] {
			return
		}
		seen[d] = true
		if mt != "" && !la.IsManifestMT(mt) {
			return
		}
		b, ok := l.Blob(d)
		if !ok {
			return
		}
		m, err := la.Parse(b, mt)
		if err != nil {
			return
		}
		if mt == "" {
			mt = m.MediaType
		}
		key := d
		if t, ok := fb[d]; ok {
			key = "~" + t
		}
		out = append(out, diskMan{Digest: d, MT: mt, Raw: b, Root: roots[d], key: key})
		if m.Kind == "index" {
			for _, e := range m.Manifests {
				walk(e.Digest, e.MediaType)
			}
		}
	}
	for _, e := range idx.Manifests {
		walk(e.Digest, e.MediaType)
	}
	sort.Slice(out, func(i, j int) bool { return out[i].key < out[j].key })
	return out
}

func (h *hist) plant(kind string) {
	dir := filepath.Join(h.Dir, "blobs", h.Alg)
	if !strings.HasPrefix(h.Dir, scratch()) {
		panic("refusing to write outside the scratch directory: " + h.Dir)
	}
	_ = os.MkdirAll(dir, 0o755)
	switch kind {
	case "canary":
		b := make([]byte, 16+h.rng.Intn(64))
		h.rng.Read(b)
		d := la.Digest(h.Alg, b)
		_, enc, _ := la.SplitDigest(d)
		if err := os.WriteFile(filepath.Join(dir, enc), b, 0o644); err == nil {
			h.origin[d] = "planted-canary"
		}
		h.logf("plant unreachable digest file %s (written directly, not through the client)", short(d))
	case "tmp-blob":
		name := fmt.Sprintf("%d.tmp", 100000000+h.rng.Intn(900000000))
		_ = os.WriteFile(filepath.Join(dir, name), []byte("partial blob"), 0o600)
		h.logf("plant leftover temporary file blobs/%s/%s", h.Alg, name)
	case "tmp-manifest":
		b := make([]byte, 8)
		h.rng.Read(b)
		_, enc, _ := la.SplitDigest(la.Digest(h.Alg, b))
		name := fmt.Sprintf("%s.%d.tmp", enc, 100000000+h.rng.Intn(900000000))
		_ = os.WriteFile(filepath.Join(dir, name), []byte(`{"schemaVersion":2,`), 0o600)
		h.logf("plant leftover temporary file blobs/%s/%s...tmp", h.Alg, name[:12])
	case "tmp-root":
		name := fmt.Sprintf("index.json.%d.tmp", 100000000+h.rng.Intn(900000000))
		_ = os.WriteFile(filepath.Join(h.Dir, name), []byte(`{"schemaVersion":2,`), 0o600)
		h.logf("plant leftover temporary file %s in the layout directory (not below blobs/: counted, not judged)", name)
	}
}

// guarded runs one client operation with a watchdog and panic capture.
func (h *hist) guarded(kind string, fn func(ctx context.Context) error) (err error, hung bool) {
	ctx, cancel := context.WithTimeout(context.Background(), 60*time.Second)
	defer cancel()
	done := make(chan error, 1)
	go func() {
		defer func() {
			if p := recover(); p != nil {
				done <- fmt.Errorf("PANIC in %s: %v", kind, p)
			}
		}()
		done <- fn(ctx)
	}()
	select {
	case err = <-done:
	case <-time.After(120 * time.Second):
		return fmt.Errorf("watchdog"), true
	}
	if err != nil && strings.HasPrefix(err.Error(), "PANIC") {
		run.Violation("panic/"+kind+"/"+h.Variant, err.Error(), h.witness(nil))
	}
	if err != nil {
		h.opErrs++
		run.Count("partA_op_errors/"+kind, 1)
	} else {
		h.opOK++
	}
	return err, false
}

// doClose is the monitored operation.
func (h *hist) doClose() (hung bool) {
	before := takeSnap(h.Dir)
	if msg := crossCheckReach(before); msg != "" {
		run.Inconclusive("harness self-check failed: " + msg)
	}
	probsBefore := closureProblems(before)
	gcBefore := h.gcLog.Load()
	tag := []string{"", "a", "zzz"}[h.rng.Intn(3)]
	err, hung := h.guarded("close", func(ctx context.Context) error { return h.cl.Close(ctx, h.dref(tag)) })
	if hung {
		run.Inconclusive(fmt.Sprintf("Close did not return within the watchdog (history %d)", h.I))
		return true
	}
	selfTestAfterClose(h, before)
	after := takeSnap(h.Dir)
	gcEnabled := h.Variant != "scheme-nogc"
	res := judgeClose(before, after, gcEnabled, h.origin)
	h.logf("CLOSE (%s): %d file(s) below blobs/ before (%d reachable, %d unreachable digest files, %d tmp), %d removed", errS(err), len(before.Files), res.ReachFiles, res.GarbageBefore, res.TmpBefore, len(res.Removed))
	run.Eval(1)
	run.Count("closes_judged", 1)
	run.Count("closes_judged/"+h.Variant, 1)
	run.Count("reachable_files_checked_across_closes", res.ReachFiles)
	if err != nil {
		run.Count("closes_returned_error", 1)
	}
	if h.gcLog.Load() > gcBefore {
		run.Count("partA_collections_logged_by_client(debug log, evidence only)", 1)
	}
	if res.Ran {
		run.Count("collections_ran", 1)
		run.Count("files_removed_by_collections", len(res.Removed))
		run.Count("root_level_tmp_left_by_collections(not judged)", res.RootTmpLeft)
		run.Count("odd_named_files_left_by_collections(not judged)", res.OddLeft)
		nt, nc, nf := 0, 0, 0
		for _, p := range res.Removed {
			switch classOf(p, nil, h.origin) {
			case "tmp-file":
				nt++
			case "planted-canary":
				nc++
			default:
				nf++
			}
		}
		run.Count("removed/tmp_files", nt)
		run.Count("removed/planted_canaries", nc)
		run.Count("removed/other_unreachable_content", nf)
	} else if gcEnabled {
		if res.GarbageBefore+res.TmpBefore > 0 {
			run.Count("closes_without_collection_although_garbage_present(unmodified through this client, or nothing demanded)", 1)
		} else {
			run.Count("closes_with_nothing_to_collect", 1)
		}
	}
	if !gcEnabled {
		run.Count("gc_disabled_closes", 1)
		if res.GarbageBefore+res.TmpBefore > 0 {
			run.Count("gc_disabled_closes_with_garbage_present", 1)
		}
	}
	// tags resolve with a closure at least as complete as before (independent closure walk)
	probsAfter := closureProblems(after)
	var degraded []closeFinding
	for name, pb := range probsBefore {
		pa, ok := probsAfter[name]
		if !ok {
			continue // reported as index-entry-dropped
		}
		had := map[string]bool{}
		for _, p := range pb {
			had[p] = true
		}
		for _, p := range pa {
			if !had[p] {
				degraded = append(degraded, closeFinding{"closure-degraded", fmt.Sprintf("after the Close, index entry %s has a new closure problem: %s", name, p)})
				break
			}
		}
	}
	run.Count("tag_closures_compared", len(probsBefore))
	if len(res.Findings) == 0 {
		// the closure walk is a second, independent formulation of clause 1: it only speaks when the first did not
		res.Findings = append(res.Findings, degraded...)
	}
	seenFP := map[string]bool{}
	for _, f := range res.Findings {
		fp := f.FP + "/" + h.Variant
		if seenFP[fp] {
			continue
		}
		seenFP[fp] = true
		var all []string
		for _, g := range res.Findings {
			all = append(all, "["+g.FP+"] "+g.What)
		}
		w := h.witness(map[string]any{"close_is_op": len(h.Ops), "removed_by_this_close": res.Removed, "all_findings_of_this_close": all,
			"reachable_before(digest -> edge)": before.Reach, "index_json_before": before.Index})
		if strings.HasPrefix(f.FP, "removed-reachable/") {
			for _, p := range res.Removed {
				if d := pathDigest(p); d != "" && before.Reach[d] != "" && strings.HasSuffix(f.FP, before.Reach[d]) {
					w["lost_file"] = p
					w["manifests_in_the_layout_that_name_the_lost_file"] = parentsOf(h.Dir, d)
					break
				}
			}
		}
		run.Violation(fp, f.What, w)
	}
	// distinct non-trivial classes
	classes := map[string]bool{}
	for d, l := range before.Reach {
		if _, ok := before.Files[digestPath(d)]; ok {
			classes[l] = true
		}
	}
	var cl []string
	for c := range classes {
		cl = append(cl, c)
	}
	sort.Strings(cl)
	ops := dedup(append([]string{}, h.sinceCl...))
	sort.Strings(ops)
	run.SetAdd("partA_distinct_(edge classes, operation kinds since previous close)", fmt.Sprintf("%s|%s|%s|%s", h.Variant, h.Alg, strings.Join(cl, ","), strings.Join(ops, ",")))
	// what kinds of garbage were there to collect
	gk := map[string]bool{}
	for p := range before.Files {
		if strings.HasSuffix(p, ".tmp") {
			gk["tmp"] = true
		} else if d := pathDigest(p); d != "" {
			if _, ok := before.Reach[d]; !ok {
				gk[classOf(p, nil, h.origin)] = true
			}
		}
	}
	var gl []string
	for g := range gk {
		gl = append(gl, g)
	}
	sort.Strings(gl)
	nontrivial := res.ReachFiles >= 2 && (res.Ran || (!gcEnabled && res.GarbageBefore+res.TmpBefore > 0))
	if nontrivial {
		run.Distinct(fmt.Sprintf("A|%s|%s|%s|%s", h.Variant, h.Alg, strings.Join(cl, ","), strings.Join(gl, ",")))
		for _, c := range cl {
			run.SetAdd("reachability_edge_classes_present_when_a_collection_ran", c)
			run.Count("collections_with_edge/"+c, 1)
		}
	}
	h.sinceCl = nil
	return false
}

func (h *hist) cleanup() {
	if h.W != nil {
		h.W.Close()
	}
	if !h.verbose {
		_ = os.RemoveAll(h.Root)
	}
}

// setup creates the scratch directories, the sources and the client factory of a history.
func (h *hist) setup() bool {
	rng := h.rng
	h.Root = filepath.Join(scratch(), "seq", fmt.Sprintf("h%06d", h.I))
	_ = os.RemoveAll(h.Root)
	h.Dir = filepath.Join(h.Root, "layout")
	if err := os.MkdirAll(h.Root, 0o755); err != nil {
		run.Inconclusive("cannot create scratch directory: " + err.Error())
		return false
	}
	if h.Variant == "rc" {
		h.W = modelreg.NewWorld()
		host := h.W.NewHost("src")
		host.Cfg.ReferrersAPI = rng.Intn(2) == 0
		host.Cfg.TagDeleteAPI = true
		for k, sg := range h.pool {
			var ep copyeng.Endpoint
			if h.regOnly || rng.Intn(10) < 7 {
				ep = copyeng.Endpoint{Host: host, Repo: fmt.Sprintf("proj/g%d", k)}
			} else {
				ep = copyeng.Endpoint{Dir: filepath.Join(h.Root, fmt.Sprintf("src%d", k))}
				_ = os.MkdirAll(ep.Dir, 0o755)
			}
			if err := copyeng.Populate(ep, sg.G); err != nil {
				run.Inconclusive("harness: cannot populate a source: " + err.Error())
				return false
			}
			h.srcs = append(h.srcs, ep)
		}
	}
	switch h.Variant {
	case "rc":
		h.mk = func() client {
			return rcClient{rcx.New(h.W.Hosts, rcx.Opts{RetryLimit: 3, Extra: []regclient.Opt{regclient.WithSlog(slog.New(gcLogHandler{fn: func(string, string) { h.gcLog.Add(1) }}))}})}
		}
	case "scheme-gc":
		h.mk = func() client {
			return schemeClient{ocidir.New(ocidir.WithSlog(slog.New(gcLogHandler{fn: func(string, string) { h.gcLog.Add(1) }})))}
		}
	default:
		h.mk = func() client { return schemeClient{ocidir.New(ocidir.WithGC(false))} }
	}
	h.cl = h.mk()
	return true
}

func (h *hist) finish() {
	run.Count("partA_histories", 1)
	if os.Getenv("VERIF_C08_TRACE") != "" {
		fmt.Printf("TRACE history %d %s\n  %s\n", h.I, h.Variant, strings.Join(h.Ops, "\n  "))
	}
	run.Count("partA_ops_ok", h.opOK)
	run.Count("partA_ops_failed", h.opErrs)
	for _, sg := range h.pool {
		for _, f := range sg.features() {
			run.Count("partA_graph_feature/"+f, 1)
		}
	}
}

// runHistory executes history i. Everything is derived from (VERIF_SEED, i).
func runHistory(i int, verbose bool) {
	rng := randFor(fmt.Sprintf("c08/seq/%d", i))
	h := &hist{I: i, rng: rng, origin: map[string]string{}, verbose: verbose}
	h.Variant = []string{"rc", "rc", "rc", "scheme-gc", "scheme-nogc", "rc"}[i%6]
	h.Alg = "sha256"
	if rng.Intn(8) == 0 {
		h.Alg = "sha512"
	}
	nG := 2 + rng.Intn(3)
	for k := 0; k < nG; k++ {
		alg := h.Alg
		if rng.Intn(8) == 0 {
			alg = map[string]string{"sha256": "sha512", "sha512": "sha256"}[alg] // layouts may mix algorithms
		}
		h.pool = append(h.pool, randomGraph(rng, alg, true))
	}
	defer h.cleanup()
	if !h.setup() {
		return
	}
	nOps := 5 + rng.Intn(12)
	for k := 0; k < nOps; k++ {
		if h.step(h.pickOp(k)) {
			return
		}
	}
	// every history ends with garbage present and a Close
	h.step("orphan-blob")
	h.plant("canary")
	h.plant([]string{"tmp-blob", "tmp-manifest"}[rng.Intn(2)])
	h.sinceCl = append(h.sinceCl, "plant")
	if h.step("close") {
		return
	}
	h.finish()
	if i < 3 || verbose {
		var gs []string
		for k, sg := range h.pool {
			gs = append(gs, fmt.Sprintf("g%d %s", k, sg.Shape))
		}
		run.Sample(map[string]any{"part": "A", "history": i, "variant": h.Variant, "alg": h.Alg, "graphs": gs, "ops": h.Ops})
	}
}

// coreGraphs is the fixed regression core: one graph per edge kind of the statement, the same for every seed.
func coreGraphs() []*srcGraph {
	var out []*srcGraph
	mk := func(kind string, s gen.Shape) {
		rng := rand.New(rand.NewSource(int64(1000 + len(out))))
		s.MaxBlob = 200
		if s.Family == "" {
			s.Family = "oci"
		}
		if s.Layers == 0 {
			s.Layers = 2
		}
		if s.Platforms == 0 {
			s.Platforms = 2
		}
		s.Kind = kind
		out = append(out, &srcGraph{G: gen.Random(rng, "sha256", s, "v1"), Kind: kind, Shape: "core/" + s.Key()})
	}
	mk("image", gen.Shape{})
	mk("index", gen.Shape{Share: true})
	mk("nested", gen.Shape{Family: "mixed"})
	mk("schema1", gen.Shape{Family: "docker"})
	mk("artifact", gen.Shape{})
	mk("artifact-index", gen.Shape{BlobEntry: true})
	mk("index", gen.Shape{Referrers: 2, RefOfRef: true, ChildRefs: 1})
	mk("image", gen.Shape{DigestTags: 1})
	// an image one of whose layers also names external URLs and is nevertheless stored (what a copy with
	// "include external" or a direct push leaves in a layout)
	mk("image", gen.Shape{Foreign: true})
	for _, n := range out[len(out)-1].G.Nodes {
		if len(n.URLs) > 0 {
			n.External = false
		}
	}
	out[len(out)-1].Shape += "/hosted"
	// the custom shapes: draw until each kind has appeared once
	want := []string{"oci-artifact-manifest-in-index", "oci-artifact-manifest", "nested3", "bare-image-in-index"}
	rng := rand.New(rand.NewSource(4242))
	have := map[string]bool{}
	for n := 0; n < 2000 && len(have) < len(want); n++ {
		sg := randomGraph(rng, "sha256", true)
		for _, w := range want {
			if sg.Kind == w && !have[w] {
				have[w] = true
				sg.Shape = "core/" + sg.Shape
				out = append(out, sg)
			}
		}
	}
	return out
}

// runCoreHistory: copy the graph in, add garbage, Close; delete the tag, Close again.
func runCoreHistory(k int, graphs []*srcGraph, verbose bool) {
	if k < 0 || k/2 >= len(graphs) {
		run.Inconclusive("no such regression-core history")
		return
	}
	sg := graphs[k/2]
	h := &hist{I: 900000 + k, rng: rand.New(rand.NewSource(int64(k))), origin: map[string]string{}, Alg: "sha256", verbose: verbose}
	h.Variant = []string{"rc", "scheme-gc"}[k%2]
	h.regOnly = true
	h.pool = []*srcGraph{sg}
	defer h.cleanup()
	if !h.setup() {
		return
	}
	var err error
	if h.Variant == "rc" {
		opts := []regclient.ImageOpts{regclient.ImageWithReferrers(), regclient.ImageWithDigestTags()}
		for _, n := range sg.G.Nodes {
			if len(n.URLs) > 0 && !n.External {
				opts = append(opts, regclient.ImageWithIncludeExternal())
				break
			}
		}
		err, _ = h.guarded("copy-in", func(ctx context.Context) error {
			return h.cl.RC().ImageCopy(ctx, h.srcs[0].Ref("v1"), h.dref("v1"), opts...)
		})
		h.logf("ImageCopy %s:v1 (%s) -> layout:v1 [referrers digest-tags] = %s", h.srcs[0].String(), sg.Kind, errS(err))
	} else {
		err, _ = h.guarded("manifest-put", func(ctx context.Context) error {
			return h.putNodes(ctx, sg.G, sg.G.Top, "v1", false, nil, true)
		})
		h.logf("put the whole graph (%s) with its referrers, children first, by tag v1 = %s", sg.Kind, errS(err))
	}
	h.sinceCl = append(h.sinceCl, "core-copy")
	if err != nil {
		run.Inconclusive(fmt.Sprintf("regression core %d (%s, %s): the copy failed: %v", k, sg.Kind, h.Variant, err))
		return
	}
	h.step("orphan-blob")
	h.plant("canary")
	h.plant("tmp-blob")
	h.plant("tmp-manifest")
	if h.step("close") {
		return
	}
	err, _ = h.guarded("tag-delete", func(ctx context.Context) error { return h.cl.TagDelete(ctx, h.dref("v1")) })
	h.logf("TagDelete v1 = %s", errS(err))
	h.sinceCl = append(h.sinceCl, "tag-delete")
	h.plant("canary")
	if h.step("close") {
		return
	}
	run.Count("partA_regression_core_histories", 1)
	h.finish()
}

func (h *hist) pickOp(k int) string {
	if k == 0 {
		if h.Variant == "rc" {
			return "copy-in"
		}
		return "manifest-put"
	}
	w := []struct {
		k string
		n int
	}{{"copy-in", 22}, {"manifest-put", 12}, {"close", 18}, {"tag-delete", 8}, {"manifest-delete", 8}, {"referrer-add", 9}, {"referrer-remove", 4},
		{"orphan-blob", 5}, {"plant", 9}, {"retag", 3}, {"new-client", 2}}
	tot := 0
	for _, x := range w {
		tot += x.n
	}
	r := h.rng.Intn(tot)
	for _, x := range w {
		if r < x.n {
			if h.Variant != "rc" && (x.k == "copy-in" || x.k == "retag") {
				return "manifest-put"
			}
			return x.k
		}
		r -= x.n
	}
	return "close"
}

// step performs one operation; returns true when the history has to be abandoned.
func (h *hist) step(kind string) (abandon bool) {
	rng := h.rng
	if kind != "close" {
		h.sinceCl = append(h.sinceCl, kind)
	}
	switch kind {
	case "close":
		return h.doClose()
	case "plant":
		for n := 1 + rng.Intn(3); n > 0; n-- {
			h.plant([]string{"canary", "canary", "tmp-blob", "tmp-manifest", "tmp-root"}[rng.Intn(5)])
		}
	case "new-client":
		h.cl = h.mk()
		h.logf("switch to a fresh client (it has not modified the layout)")
	case "orphan-blob":
		b := make([]byte, 1+rng.Intn(300))
		rng.Read(b)
		d := la.Digest(h.Alg, b)
		err, hung := h.guarded(kind, func(ctx context.Context) error {
			return h.cl.BlobPut(ctx, h.dref(""), descriptor.Descriptor{Digest: digest.Digest(d), Size: int64(len(b))}, bytes.NewReader(b))
		})
		if err == nil {
			h.origin[d] = "orphan-blob"
		}
		h.logf("BlobPut %s (referenced by nothing) = %s", short(d), errS(err))
		return hung
	case "copy-in":
		k := rng.Intn(len(h.pool))
		sg := h.pool[k]
		tag := tagNames[rng.Intn(len(tagNames))]
		var opts []regclient.ImageOpts
		var on []string
		feats := sg.features()
		has := func(f string) bool {
			for _, x := range feats {
				if x == f {
					return true
				}
			}
			return false
		}
		if has("referrers") && rng.Intn(3) > 0 {
			opts = append(opts, regclient.ImageWithReferrers())
			on = append(on, "referrers")
		}
		if has("digest-tags") && rng.Intn(3) > 0 {
			opts = append(opts, regclient.ImageWithDigestTags())
			on = append(on, "digest-tags")
		}
		if sg.G.Nodes[sg.G.Top].Kind == "index" && rng.Intn(3) == 0 {
			all := []string{"linux/amd64", "linux/arm64", "linux/arm/v7", "linux/ppc64le", "linux/s390x"}
			ps := []string{all[rng.Intn(len(all))]}
			if rng.Intn(2) == 0 {
				ps = append(ps, all[rng.Intn(len(all))])
			}
			opts = append(opts, regclient.ImageWithPlatforms(ps))
			on = append(on, "platforms="+strings.Join(ps, "+")+" (sparse)")
			h.sinceCl = append(h.sinceCl, "sparse-copy")
		}
		if rng.Intn(8) == 0 {
			opts = append(opts, regclient.ImageWithForceRecursive())
			on = append(on, "force-recursive")
		}
		src := h.srcs[k]
		err, hung := h.guarded(kind, func(ctx context.Context) error {
			return h.cl.RC().ImageCopy(ctx, src.Ref("v1"), h.dref(tag), opts...)
		})
		h.logf("ImageCopy %s:v1 (g%d %s) -> layout:%s %v = %s", src.String(), k, sg.Kind, tag, on, errS(err))
		return hung
	case "retag":
		idx := h.indexNow()
		if idx == nil || len(idx.Tags()) == 0 {
			h.logf("retag skipped (no tag)")
			return false
		}
		var ts []string
		for t := range idx.Tags() {
			if validTag(t) {
				ts = append(ts, t)
			}
		}
		if len(ts) == 0 {
			h.logf("retag skipped (no addressable tag)")
			return false
		}
		sort.Strings(ts)
		from, to := ts[rng.Intn(len(ts))], tagNames[rng.Intn(len(tagNames))]
		err, hung := h.guarded(kind, func(ctx context.Context) error {
			return h.cl.RC().ImageCopy(ctx, h.dref(from), h.dref(to))
		})
		h.logf("ImageCopy layout:%s -> layout:%s (same layout) = %s", from, to, errS(err))
		return hung
	case "manifest-put":
		k := rng.Intn(len(h.pool))
		sg := h.pool[k]
		g := sg.G
		top := g.Top
		var mans []int
		for _, id := range g.Closure(g.Top) {
			if g.Nodes[id].IsManifest() {
				mans = append(mans, id)
			}
		}
		if rng.Intn(4) == 0 {
			top = mans[rng.Intn(len(mans))]
		}
		skip := map[int]bool{}
		sparse := false
		if g.Nodes[top].Kind == "index" && rng.Intn(3) == 0 {
			for _, c := range g.Nodes[top].Refs {
				if g.Nodes[c].IsManifest() && rng.Intn(2) == 0 {
					skip[c] = true
					sparse = true
				}
			}
		}
		if sparse {
			h.sinceCl = append(h.sinceCl, "sparse-put")
		}
		how := rng.Intn(10)
		target, child, desc := "", false, ""
		switch {
		case how < 6:
			target = tagNames[rng.Intn(len(tagNames))]
			desc = "tag " + target
		case how < 8:
			target = g.Nodes[top].Digest
			desc = "digest (untagged index entry)"
		default:
			target, child = g.Nodes[top].Digest, true
			desc = "digest, as child (no index entry: unreachable unless something lists it)"
		}
		withRef := rng.Intn(2) == 0
		err, hung := h.guarded(kind, func(ctx context.Context) error {
			return h.putNodes(ctx, g, top, target, child, skip, withRef)
		})
		h.logf("put node %d (%s) of g%d (%s) with its content, children first, by %s; sparse=%t referrers=%t = %s", top, g.Nodes[top].Kind, k, sg.Kind, desc, sparse, withRef, errS(err))
		return hung
	case "tag-delete":
		idx := h.indexNow()
		if idx == nil || len(idx.Tags()) == 0 {
			h.logf("tag-delete skipped (no tag)")
			return false
		}
		var all, ts []string
		for t := range idx.Tags() {
			all = append(all, t)
		}
		sort.Strings(all)
		for _, t := range all {
			if !validTag(t) || (fallbackTagRE.MatchString(t) && rng.Intn(4) > 0) {
				continue
			}
			ts = append(ts, t)
		}
		if len(ts) == 0 {
			h.logf("tag-delete skipped")
			return false
		}
		t := ts[rng.Intn(len(ts))]
		err, hung := h.guarded(kind, func(ctx context.Context) error { return h.cl.TagDelete(ctx, h.dref(t)) })
		h.logf("TagDelete %s = %s", t, errS(err))
		return hung
	case "manifest-delete":
		ms := h.manifestsOnDisk()
		if len(ms) == 0 {
			h.logf("manifest-delete skipped (no manifest)")
			return false
		}
		var cand []diskMan
		wantRoot := rng.Intn(10) < 6
		for _, m := range ms {
			if m.Root == wantRoot {
				cand = append(cand, m)
			}
		}
		if len(cand) == 0 {
			cand = ms
		}
		m := cand[rng.Intn(len(cand))]
		err, hung := h.guarded(kind, func(ctx context.Context) error { return h.cl.ManifestDelete(ctx, h.dref(m.Digest)) })
		h.logf("ManifestDelete %s (%s, index entry: %t) = %s", short(m.Digest), m.MT, m.Root, errS(err))
		return hung
	case "referrer-add":
		ms := h.manifestsOnDisk()
		if len(ms) == 0 {
			h.logf("referrer-add skipped (no subject)")
			return false
		}
		subj := ms[rng.Intn(len(ms))]
		g := gen.New(rng, h.Alg)
		sn := &gen.Node{ID: -1, MT: subj.MT, Digest: subj.Digest, Content: subj.Raw, Subject: -1}
		var top *gen.Node
		style := rng.Intn(4)
		switch style {
		case 0:
			b := g.Blob("blob", "application/vnd.example.sig", 10+rng.Intn(100))
			top = artifactManifest(g, []*gen.Node{b}, sn, "application/vnd.example.sig")
		case 1:
			p := la.Platform{OS: "linux", Architecture: "amd64"}
			l := g.Blob("layer", la.MTOCILayerGz, 10+rng.Intn(100))
			img := g.Image(g.Config("oci", &p, 1), []*gen.Node{l}, gen.ImageOpts{Family: "oci", Platform: &p})
			top = g.Index("oci", []*gen.Node{img}, sn, map[string]string{"org.example.kind": "index-referrer"})
		default:
			cfg := g.BlobBytes("config", la.MTOCIEmpty, []byte("{}"))
			l := g.Blob("layer", "application/vnd.example.payload", 10+rng.Intn(200))
			top = g.Image(cfg, []*gen.Node{l}, gen.ImageOpts{Family: "oci", Subject: sn, ArtifactType: "application/vnd.example.sbom",
				Annotations: map[string]string{"org.example.n": fmt.Sprint(len(h.refs))}})
		}
		child := rng.Intn(2) == 0
		err, hung := h.guarded(kind, func(ctx context.Context) error {
			return h.putNodes(ctx, g, top.ID, top.Digest, child, nil, false)
		})
		if err == nil {
			h.refs = append(h.refs, top.Digest)
		}
		h.logf("put referrer %s (%s) with subject %s, by digest, child=%t = %s", short(top.Digest), []string{"OCI artifact manifest", "index with subject", "image manifest with artifactType", "image manifest with artifactType"}[style], short(subj.Digest), child, errS(err))
		return hung
	case "referrer-remove":
		if len(h.refs) == 0 {
			h.logf("referrer-remove skipped (none added)")
			return false
		}
		k := rng.Intn(len(h.refs))
		d := h.refs[k]
		h.refs = append(h.refs[:k], h.refs[k+1:]...)
		err, hung := h.guarded(kind, func(ctx context.Context) error { return h.cl.ManifestDelete(ctx, h.dref(d)) })
		h.logf("ManifestDelete referrer %s = %s", short(d), errS(err))
		return hung
	}
	return false
}

// selfTestAfterClose: VERIF_C08_SELFTEST makes the HARNESS itself play a defective collector (the
// repository is never touched) so that the monitors can be seen to fire. Never set in a real run.
func selfTestAfterClose(h *hist, before *snap) {
	switch os.Getenv("VERIF_C08_SELFTEST") {
	case "lose-reachable":
		for d, l := range before.Reach {
			if strings.HasSuffix(l, ">layer") {
				if _, ok := before.Files[digestPath(d)]; ok && strings.HasPrefix(h.Dir, scratch()) {
					_ = os.Remove(filepath.Join(h.Dir, filepath.FromSlash(digestPath(d))))
					return
				}
			}
		}
	case "resurrect-tmp":
		for p := range before.Files {
			if strings.HasSuffix(p, ".tmp") && strings.HasPrefix(h.Dir, scratch()) {
				if _, err := os.Stat(filepath.Join(h.Dir, filepath.FromSlash(p))); os.IsNotExist(err) {
					_ = os.WriteFile(filepath.Join(h.Dir, filepath.FromSlash(p)), []byte("x"), 0o600)
					return
				}
			}
		}
	}
}
