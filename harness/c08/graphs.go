package main

// Seeded image graphs for the layout-GC workloads: the shapes of harness/gen plus the edge kinds
// the statement names explicitly (OCI artifact manifests with blobs, indexes nested three deep).

import (
	"encoding/json"
	"fmt"
	"math/rand"

	"verif/gen"
	la "verif/layoutaudit"
)

type srcGraph struct {
	G     *gen.Graph
	Kind  string // shape class
	Shape string // full shape key (for witnesses)
}

func render(o gen.Obj) []byte {
	b, _ := json.Marshal(o)
	return b
}

func descOf(n *gen.Node) gen.Obj {
	return gen.Obj{{K: "mediaType", V: n.MT}, {K: "digest", V: n.Digest}, {K: "size", V: len(n.Content)}}
}

// artifactManifest adds an OCI artifact manifest (mediaType application/vnd.oci.artifact.manifest.v1+json)
// whose content are blobs.
func artifactManifest(g *gen.Graph, blobs []*gen.Node, subject *gen.Node, artifactType string) *gen.Node {
	o := gen.Obj{{K: "mediaType", V: la.MTOCIArtifact}, {K: "artifactType", V: artifactType}}
	bs := []gen.Obj{}
	refs := []int{}
	for _, b := range blobs {
		bs = append(bs, descOf(b))
		refs = append(refs, b.ID)
	}
	o = append(o, gen.KV{K: "blobs", V: bs})
	if subject != nil {
		o = append(o, gen.KV{K: "subject", V: descOf(subject)})
	}
	n := g.BlobBytes("artifact", la.MTOCIArtifact, render(o))
	n.Refs = refs
	n.ArtifactType = artifactType
	if subject != nil && subject.ID >= 0 && subject.ID < len(g.Nodes) && g.Nodes[subject.ID] == subject {
		n.Subject = subject.ID
	}
	return n
}

func smallShape(rng *rand.Rand) gen.Shape {
	s := gen.RandomShape(rng)
	s.Foreign = false
	if s.MaxBlob > 700 {
		s.MaxBlob = 64 + rng.Intn(600)
	}
	return s
}

// randomGraph draws one source graph. alg is the digest algorithm of every object in it.
func randomGraph(rng *rand.Rand, alg string, allowBare bool) *srcGraph {
	switch k := rng.Intn(12); {
	case k == 0:
		// index [ image, OCI artifact manifest with 1-3 blobs ]
		g := gen.New(rng, alg)
		p := la.Platform{OS: "linux", Architecture: "amd64"}
		l := g.Blob("layer", la.MTOCILayerGz, 20+rng.Intn(300))
		img := g.Image(g.Config("oci", &p, 1), []*gen.Node{l}, gen.ImageOpts{Family: "oci", Platform: &p})
		var bs []*gen.Node
		for i := 0; i < 1+rng.Intn(3); i++ {
			bs = append(bs, g.Blob("blob", "application/vnd.example.data", 10+rng.Intn(200)))
		}
		art := artifactManifest(g, bs, nil, "application/vnd.example.art")
		top := g.Index("oci", []*gen.Node{img, art}, nil, nil)
		g.Top = top.ID
		g.Tags["v1"] = top.ID
		return &srcGraph{G: g, Kind: "oci-artifact-manifest-in-index", Shape: "custom/oci-artifact-manifest-in-index"}
	case k == 1:
		// a top-level OCI artifact manifest
		g := gen.New(rng, alg)
		var bs []*gen.Node
		for i := 0; i < 1+rng.Intn(3); i++ {
			bs = append(bs, g.Blob("blob", "application/vnd.example.data", 10+rng.Intn(200)))
		}
		top := artifactManifest(g, bs, nil, "application/vnd.example.art")
		g.Top = top.ID
		g.Tags["v1"] = top.ID
		return &srcGraph{G: g, Kind: "oci-artifact-manifest", Shape: "custom/oci-artifact-manifest"}
	case k == 2:
		// three levels of indexes above the images
		s := smallShape(rng)
		s.Kind = "nested"
		s.Referrers, s.RefOfRef, s.ChildRefs, s.DigestTags, s.ChildDTags = 0, false, 0, 0, 0
		g := gen.Random(rng, alg, s, "")
		p := la.Platform{OS: "linux", Architecture: "s390x"}
		l := g.Blob("layer", la.MTOCILayerGz, 20+rng.Intn(300))
		img := g.Image(g.Config("oci", &p, 1), []*gen.Node{l}, gen.ImageOpts{Family: "oci", Platform: &p})
		top := g.Index("oci", []*gen.Node{g.Nodes[g.Top], img}, nil, map[string]string{"depth": "3"})
		g.Top = top.ID
		g.Tags["v1"] = top.ID
		return &srcGraph{G: g, Kind: "nested3", Shape: "custom/nested3/" + s.Key()}
	case k == 3 && allowBare:
		// index [ image, image manifest without mediaType field and without layers (config only) ]: legal
		// (image-spec: mediaType SHOULD be set, layers SHOULD have an entry), and only classifiable
		// through the media type of the index entry that names it
		g := gen.New(rng, alg)
		p := la.Platform{OS: "linux", Architecture: "amd64"}
		l := g.Blob("layer", la.MTOCILayerGz, 20+rng.Intn(300))
		img := g.Image(g.Config("oci", &p, 1), []*gen.Node{l}, gen.ImageOpts{Family: "oci", Platform: &p})
		p2 := la.Platform{OS: "linux", Architecture: "arm64"}
		bare := g.Image(g.Config("oci", &p2, 0), nil, gen.ImageOpts{Family: "oci", Platform: &p2, NoMediaType: true})
		top := g.Index("oci", []*gen.Node{img, bare}, nil, nil)
		g.Top = top.ID
		g.Tags["v1"] = top.ID
		return &srcGraph{G: g, Kind: "bare-image-in-index", Shape: "custom/bare-image-in-index"}
	default:
		s := smallShape(rng)
		g := gen.Random(rng, alg, s, "v1")
		return &srcGraph{G: g, Kind: s.Kind, Shape: s.Key()}
	}
}

// features of a graph that matter for the mark phase.
func (sg *srcGraph) features() []string {
	g := sg.G
	var f []string
	depth := 0
	var dep func(id, d int)
	dep = func(id, d int) {
		n := g.Nodes[id]
		if n.Kind == "index" {
			if d+1 > depth {
				depth = d + 1
			}
			for _, c := range n.Refs {
				dep(c, d+1)
			}
		}
	}
	dep(g.Top, 0)
	f = append(f, fmt.Sprintf("idxdepth%d", depth))
	use := map[int]int{}
	for _, n := range g.Nodes {
		if n.IsManifest() {
			for _, c := range n.Refs {
				use[c]++
			}
		}
		if n.MT == la.MTOCIArtifact {
			f = append(f, "artifact-blobs")
		}
		if n.Kind == "schema1" {
			f = append(f, "schema1")
		}
		if n.Subject >= 0 {
			f = append(f, "referrers")
		}
	}
	for id, c := range use {
		if c > 1 && !g.Nodes[id].IsManifest() {
			f = append(f, "shared-blob")
			break
		}
	}
	if len(g.Tags) > 1 {
		f = append(f, "digest-tags")
	}
	return dedup(f)
}

func dedup(in []string) []string {
	seen := map[string]bool{}
	var out []string
	for _, s := range in {
		if !seen[s] {
			seen[s] = true
			out = append(out, s)
		}
	}
	return out
}
