package main

// Part B: several goroutines on ONE client, each copying into the same layout and closing it.
// The harness keeps one total order of observation points (a counter under one mutex). For a copy
// that returned nil the interval [first observation, last synchronous progress callback] lies
// inside the period in which ImageCopy holds the layout's GC lock:
//   - every request to the copy's private source repository is issued by a goroutine of that
//     ImageCopy after the lock was taken, and a fault-free successful copy waits for each of them;
//   - the started / skipped / finished progress callbacks are made synchronously by goroutines that
//     ImageCopy joins before it returns (only "active" ticks come from an unjoined ticker goroutine
//     and are ignored).
// A canary (unreachable digest file) written at the first observation must therefore still be there
// at every later observation up to the last callback: only a collection removes files from blobs/.

import (
	"context"
	"crypto/sha256"
	"encoding/hex"
	"fmt"
	"log/slog"
	"math/rand"
	"net/http"
	"os"
	"path/filepath"
	"sort"
	"strings"
	"sync"
	"time"

	"github.com/opencontainers/go-digest"
	"github.com/regclient/regclient"
	"github.com/regclient/regclient/scheme/ocidir"
	"github.com/regclient/regclient/types"
	"github.com/regclient/regclient/types/descriptor"
	"github.com/regclient/regclient/types/ref"

	"verif/copyeng"
	"verif/gen"
	la "verif/layoutaudit"
	"verif/modelreg"
	"verif/rcx"
)

type obsRec struct {
	Idx     int
	Src     string
	Present bool
}

type ccopy struct {
	ID, G, Round, Layout int
	SG                   *srcGraph
	Top                  int
	Host                 *modelreg.Host
	Repo, Tag            string
	Opts                 []string
	canary               string
	planted              bool
	plantedAt            int
	obs                  []obsRec
	lastCB               int
	active               bool
	started, ended       int
	err                  error
	ran                  bool
}

type closeRec struct {
	G, Layout, Start, End int
	Err                   string
}

type crun struct {
	I       int
	rng     *rand.Rand
	Root    string
	Dirs    []string
	NoGC    bool
	W       *modelreg.World
	mu      sync.Mutex
	clock   int
	order   []string
	copies  []*ccopy
	byRepo  map[string]*ccopy
	closes  []closeRec
	gcBegin []closeRec // Start = clock of a "running GC" debug message, Layout = which
	verbose bool
}

func (r *crun) tick(ev string) int {
	r.clock++
	if ev != "" {
		r.order = append(r.order, ev)
		if r.verbose {
			fmt.Printf("  run %d @%d %s\n", r.I, r.clock, ev)
		}
	}
	return r.clock
}

// observe is called at a point that belongs to copy c (a request of its source repository is being
// served, or one of its progress callbacks runs).
func (r *crun) observe(c *ccopy, src string, isCB bool) {
	r.mu.Lock()
	defer r.mu.Unlock()
	idx := r.tick("")
	if isCB {
		c.lastCB = idx
	}
	if !c.planted {
		if err := os.WriteFile(c.canary, []byte(filepath.Base(c.canary)+" canary"), 0o644); err == nil {
			c.planted, c.plantedAt = true, idx
		}
		return
	}
	r.look(c, idx, src)
}

func (r *crun) look(c *ccopy, idx int, src string) {
	_, err := os.Stat(c.canary)
	if err != nil && !os.IsNotExist(err) {
		return // cannot tell
	}
	c.obs = append(c.obs, obsRec{idx, src, err == nil})
}

func canaryPath(dir string, run, id int) string {
	s := sha256.Sum256([]byte(fmt.Sprintf("c08 canary run %d copy %d seed %d", run, id, seed())))
	return filepath.Join(dir, "blobs", "sha256", hex.EncodeToString(s[:]))
}

// spell returns the way this run writes the layout's directory in references: the clean path, or (every
// fifth run) one consistent other spelling of the same directory - a trailing slash or a doubled separator.
func (r *crun) spell(dir string) string {
	switch r.I % 10 {
	case 3:
		return dir + "/"
	case 8:
		return filepath.Dir(dir) + "//" + filepath.Base(dir)
	}
	return dir
}

func runConcurrent(i int, verbose bool) {
	rng := randFor(fmt.Sprintf("c08/conc/%d", i))
	r := &crun{I: i, rng: rng, byRepo: map[string]*ccopy{}, verbose: verbose}
	r.Root = filepath.Join(scratch(), "conc", fmt.Sprintf("r%06d", i))
	_ = os.RemoveAll(r.Root)
	if err := os.MkdirAll(r.Root, 0o755); err != nil {
		run.Inconclusive("cannot create scratch directory: " + err.Error())
		return
	}
	r.NoGC = i%8 == 7
	nLay := 1
	if rng.Intn(6) == 0 {
		nLay = 2
	}
	for k := 0; k < nLay; k++ {
		r.Dirs = append(r.Dirs, filepath.Join(r.Root, fmt.Sprintf("layout%d", k)))
	}
	r.W = modelreg.NewWorld()
	defer func() {
		r.W.Close()
		if !verbose {
			_ = os.RemoveAll(r.Root)
		}
	}()
	// pre-state of every layout: one complete tagged image and some garbage, written directly
	startFiles := map[int]*snap{}
	for k, d := range r.Dirs {
		base := randomGraph(rng, "sha256", false)
		if err := copyeng.Populate(copyeng.Endpoint{Dir: d}, base.G); err != nil {
			run.Inconclusive("harness: cannot pre-populate a layout: " + err.Error())
			return
		}
		for n := rng.Intn(3); n > 0; n-- {
			b := make([]byte, 20)
			rng.Read(b)
			_ = gen.WriteLayoutBlob(d, la.Digest("sha256", b), b)
		}
		if rng.Intn(2) == 0 {
			_ = os.WriteFile(filepath.Join(d, "blobs", "sha256", fmt.Sprintf("%d.tmp", 100000000+rng.Intn(900000000))), []byte("x"), 0o600)
		}
		startFiles[k] = takeSnap(d)
	}
	// goroutines, copies, sources
	nG := 2 + rng.Intn(4)
	lat := []int{0, 150, 400, 900, 1800, 3200}
	rng.Shuffle(len(lat), func(a, b int) { lat[a], lat[b] = lat[b], lat[a] })
	var prev *srcGraph
	perG := make([][]*ccopy, nG)
	for g := 0; g < nG; g++ {
		h := r.W.NewHost(fmt.Sprintf("src%d", g))
		h.Cfg.ReferrersAPI = rng.Intn(2) == 0
		base := time.Duration(lat[g%len(lat)]) * time.Microsecond
		var lmu sync.Mutex
		lr := rand.New(rand.NewSource(rng.Int63()))
		h.Intercept = func(e *modelreg.Event, _ http.ResponseWriter, _ *http.Request) bool {
			if c := r.byRepo[e.Host+"/"+e.Repo]; c != nil && e.Repo != "" {
				r.observe(c, "request-arrival", false)
			}
			return false
		}
		h.Cfg.Latency = func(e *modelreg.Event) time.Duration {
			lmu.Lock()
			d := base/2 + time.Duration(lr.Int63n(int64(base)+1))
			if e.Kind == "blob" && e.Method == "GET" {
				d += time.Duration(lr.Int63n(int64(base)*2 + 1))
			}
			lmu.Unlock()
			if d > 0 {
				time.Sleep(d)
			}
			if c := r.byRepo[e.Host+"/"+e.Repo]; c != nil && e.Repo != "" {
				r.observe(c, "request-after-delay", false)
			}
			return 0
		}
		rounds := 1
		if rng.Intn(4) == 0 {
			rounds = 2
		}
		lay := rng.Intn(nLay)
		for rd := 0; rd < rounds; rd++ {
			var sg *srcGraph
			if prev != nil && rng.Intn(3) == 0 {
				sg = prev // the same content as another goroutine copies: shared blobs and manifests
			} else {
				sg = randomGraph(rng, "sha256", false)
			}
			prev = sg
			c := &ccopy{ID: len(r.copies), G: g, Round: rd, Layout: lay, SG: sg, Top: sg.G.Top, Host: h, Repo: fmt.Sprintf("proj/g%dr%d", g, rd), lastCB: -1}
			c.Tag = fmt.Sprintf("t%d-%d", g, rd)
			if rd == 1 && rng.Intn(4) == 0 {
				c.Tag = fmt.Sprintf("t%d-0", g) // overwrite the own tag of the first round
			}
			if err := copyeng.Populate(copyeng.Endpoint{Host: h, Repo: c.Repo}, sg.G); err != nil {
				run.Inconclusive("harness: cannot populate a source: " + err.Error())
				return
			}
			// sometimes the copied image is a child of the (shared) graph
			if rng.Intn(5) == 0 {
				var mans []int
				for _, id := range sg.G.Closure(sg.G.Top) {
					if sg.G.Nodes[id].IsManifest() {
						mans = append(mans, id)
					}
				}
				c.Top = mans[rng.Intn(len(mans))]
			}
			h.SetTag(c.Repo, "v1", sg.G.Nodes[c.Top].Digest)
			for _, f := range sg.features() {
				if f == "referrers" && rng.Intn(2) == 0 && c.Top == sg.G.Top {
					c.Opts = append(c.Opts, "referrers")
				}
			}
			if rng.Intn(6) == 0 {
				c.Opts = append(c.Opts, "force-recursive")
			}
			c.canary = canaryPath(r.Dirs[lay], i, c.ID)
			r.copies = append(r.copies, c)
			r.byRepo[h.Name+"/"+c.Repo] = c
			perG[g] = append(perG[g], c)
		}
	}
	r.W.ResetLog()

	// the one client
	var cl client
	logFn := func(_ string, rf string) {
		r.mu.Lock()
		defer r.mu.Unlock()
		lay := -1
		for k, d := range r.Dirs {
			if strings.Contains(rf, d) {
				lay = k
			}
		}
		idx := r.tick("gc")
		r.gcBegin = append(r.gcBegin, closeRec{Layout: lay, Start: idx})
	}
	if r.NoGC {
		cl = schemeClient{ocidir.New(ocidir.WithGC(false))}
	} else {
		cl = rcClient{rcx.New(r.W.Hosts, rcx.Opts{RetryLimit: 3, Extra: []regclient.Opt{regclient.WithSlog(slog.New(gcLogHandler{fn: logFn}))}})}
	}

	ctx, cancel := context.WithTimeout(context.Background(), 90*time.Second)
	defer cancel()
	var wg sync.WaitGroup
	panics := make(chan string, 16)
	for g := 0; g < nG; g++ {
		wg.Add(1)
		go func(g int) {
			defer wg.Done()
			defer func() {
				if p := recover(); p != nil {
					panics <- fmt.Sprintf("goroutine %d: %v", g, p)
				}
			}()
			for _, c := range perG[g] {
				c := c
				dir := r.Dirs[c.Layout]
				r.mu.Lock()
				c.active = true
				c.started = r.tick(fmt.Sprintf("cs%d", g))
				r.mu.Unlock()
				var err error
				if r.NoGC {
					err = putNodes(ctx, cl, func(s string) ref.Ref { return rcx.DirRef(r.spell(dir), s) }, c.SG.G, c.Top, c.Tag, false, nil, false)
				} else {
					opts := []regclient.ImageOpts{regclient.ImageWithCallback(func(kind types.CallbackKind, instance string, state types.CallbackState, cur, total int64) {
						if state == types.CallbackActive {
							return
						}
						r.observe(c, "callback", true)
					})}
					for _, o := range c.Opts {
						switch o {
						case "referrers":
							opts = append(opts, regclient.ImageWithReferrers())
						case "force-recursive":
							opts = append(opts, regclient.ImageWithForceRecursive())
						}
					}
					err = cl.RC().ImageCopy(ctx, rcx.Ref(c.Host, c.Repo, "v1"), rcx.DirRef(r.spell(dir), c.Tag), opts...)
				}
				r.mu.Lock()
				c.active, c.err, c.ran = false, err, true
				c.ended = r.tick(fmt.Sprintf("ce%d", g))
				st := r.tick(fmt.Sprintf("ls%d", g))
				if os.Getenv("VERIF_C08_SELFTEST") == "sweep-under-copy" {
					// the HARNESS plays a collector that ignores the lock (see selfTestAfterClose)
					for _, o := range r.copies {
						if o.Layout == c.Layout && o.active && o.planted && strings.HasPrefix(o.canary, scratch()) {
							_ = os.Remove(o.canary)
						}
					}
				}
				r.mu.Unlock()
				cerr := cl.Close(ctx, rcx.DirRef(r.spell(dir), c.Tag))
				r.mu.Lock()
				en := r.tick(fmt.Sprintf("le%d", g))
				rec := closeRec{G: g, Layout: c.Layout, Start: st, End: en}
				if cerr != nil {
					rec.Err = cerr.Error()
				}
				r.closes = append(r.closes, rec)
				// a Close has just returned: look at the canary of every copy into this layout that is still running
				for _, o := range r.copies {
					if o.Layout == c.Layout && o.active && o.planted {
						r.look(o, en, "close-of-another-goroutine-returned")
					}
				}
				r.mu.Unlock()
			}
		}(g)
	}
	// in every other run a further goroutine keeps closing the layouts without ever writing to them (a caller that
	// closes references it only read): such a Close can land after a copy took the lock and before its first write
	stopIdle := make(chan struct{})
	var idleWG sync.WaitGroup
	if !r.NoGC && i%2 == 1 {
		idleWG.Add(1)
		go func() {
			defer idleWG.Done()
			defer func() {
				if p := recover(); p != nil {
					panics <- fmt.Sprintf("idle closer: %v", p)
				}
			}()
			for n := 0; ; n++ {
				select {
				case <-stopIdle:
					return
				default:
				}
				for li, dir := range r.Dirs {
					r.mu.Lock()
					st := r.tick("is")
					r.mu.Unlock()
					cerr := cl.Close(ctx, rcx.DirRef(r.spell(dir), ""))
					r.mu.Lock()
					en := r.tick("ie")
					rec := closeRec{G: -1, Layout: li, Start: st, End: en}
					if cerr != nil {
						rec.Err = cerr.Error()
					}
					if len(r.closes) < 4000 {
						r.closes = append(r.closes, rec)
					}
					for _, o := range r.copies {
						if o.Layout == li && o.active && o.planted {
							r.look(o, en, "close-of-the-idle-closer-returned")
						}
					}
					r.mu.Unlock()
					run.Count("partB_idle_closes", 1)
				}
				time.Sleep(300 * time.Microsecond)
			}
		}()
	}
	doneCh := make(chan struct{})
	go func() { wg.Wait(); close(stopIdle); idleWG.Wait(); close(doneCh) }()
	select {
	case <-doneCh:
	case <-time.After(150 * time.Second):
		run.Inconclusive(fmt.Sprintf("concurrent run %d did not finish within the watchdog", i))
		return
	}
	r.W.WaitIdle()
	run.Eval(1)
	run.Count("partB_runs", 1)
	close(panics)
	for p := range panics {
		run.Violation("panic/concurrent-copy-close", "panic inside regclient: "+p, r.witness(nil))
	}
	r.judge(cl, startFiles)
}

func (r *crun) witness(extra map[string]any) map[string]any {
	r.mu.Lock()
	defer r.mu.Unlock()
	var cs []map[string]any
	for _, c := range r.copies {
		cs = append(cs, map[string]any{"copy": c.ID, "goroutine": c.G, "round": c.Round, "layout": c.Layout, "source": c.Host.Name + "/" + c.Repo, "graph": c.SG.Shape,
			"top": c.SG.G.Nodes[c.Top].Digest, "tag": c.Tag, "opts": c.Opts, "err": errS(c.err), "canary_planted_at": c.plantedAt, "last_callback_at": c.lastCB,
			"call_at": c.started, "return_at": c.ended, "observations": len(c.obs)})
	}
	w := map[string]any{"part": "B (concurrent copies and closes through one client)", "run": r.I, "gc_disabled": r.NoGC, "layouts": r.Dirs, "copies": cs,
		"event_order(cs=copy call, ce=copy return, ls=close call, le=close return, gc=collector's debug message; digit=goroutine)": strings.Join(r.order, " "),
		"closes": r.closes, "rerun": fmt.Sprintf("VERIF_SEED=%d VERIF_C08_ONLY=B:%d ./check C08 (the schedule is not replayed, only the workload)", seed(), r.I)}
	for k, v := range extra {
		w[k] = v
	}
	return w
}

func (r *crun) judge(cl client, start map[int]*snap) {
	okCopies := 0
	for _, c := range r.copies {
		run.Count("partB_copies", 1)
		if c.err == nil && c.ran {
			okCopies++
			run.Count("partB_copies_ok", 1)
		} else {
			run.Count("partB_copies_failed", 1)
			if run.Get("partB_copies_failed") <= 5 {
				fmt.Printf("note: concurrent run %d copy %d failed: %v\n", r.I, c.ID, c.err)
			}
		}
	}
	run.Count("partB_closes", len(r.closes))
	run.Count("partB_collections_logged_by_client(debug log, evidence only)", len(r.gcBegin))

	// (b) no collection while a copy into the same layout holds the lock
	if !r.NoGC {
		for _, c := range r.copies {
			if c.err != nil || !c.planted {
				continue
			}
			run.Count("partB_canaries_planted", 1)
			inLock := 0
			for _, o := range c.obs {
				if o.Idx <= c.plantedAt || o.Idx > c.lastCB {
					continue
				}
				inLock++
				if !o.Present {
					run.Violation("collection-under-copy/canary-gone/seen-at-"+o.Src,
						fmt.Sprintf("an unreachable canary file written into the layout while ImageCopy #%d (-> %s) was running (observation %d) was gone at observation %d (%s), before that copy's last progress callback (%d): a collection ran while the copy was in progress",
							c.ID, c.Tag, c.plantedAt, o.Idx, o.Src, c.lastCB), r.witness(map[string]any{"copy": c.ID, "canary": c.canary, "gone_at": o.Idx}))
					break
				}
			}
			run.Count("partB_in_lock_observations", inLock)
			if _, err := os.Stat(c.canary); os.IsNotExist(err) {
				run.Count("partB_canaries_collected_after_their_copy(legitimate)", 1)
			}
			for _, g := range r.gcBegin {
				if g.Layout == c.Layout && g.Start > c.plantedAt && g.Start < c.lastCB {
					run.Count("partB_collector_debug_message_inside_an_in_lock_window(evidence only)", 1)
				}
			}
		}
		overl := 0
		for _, cr := range r.closes {
			for _, c := range r.copies {
				if c.err == nil && c.planted && c.G != cr.G && c.Layout == cr.Layout && cr.Start < c.lastCB && cr.End > c.plantedAt {
					overl++
					break
				}
			}
		}
		run.Count("partB_closes_overlapping_the_in_lock_window_of_another_copy", overl)
		if overl > 0 {
			run.Count("partB_runs_with_a_close_under_a_copy", 1)
		}
		// interleaving shape: goroutines renamed by first appearance
		ren := map[string]string{}
		var shape []string
		for _, e := range r.order {
			if e == "gc" {
				shape = append(shape, e)
				continue
			}
			g := e[2:]
			if _, ok := ren[g]; !ok {
				ren[g] = fmt.Sprint(len(ren))
			}
			shape = append(shape, e[:2]+ren[g])
		}
		key := strings.Join(shape, " ")
		run.SetAdd("partB_distinct_interleavings(copy/close call+return and collector events)", key)
		if overl > 0 && okCopies == len(r.copies) {
			run.Distinct("B|" + key)
		}
	}

	// (a) every tag whose copy returned nil resolves with a complete closure
	last := map[string]*ccopy{}
	for _, c := range r.copies {
		if c.err == nil && c.ran {
			last[fmt.Sprintf("%d/%s", c.Layout, c.Tag)] = c // copies of one goroutine are sequential; tags are private to a goroutine
		}
	}
	keys := make([]string, 0, len(last))
	for k := range last {
		keys = append(keys, k)
	}
	sort.Strings(keys)
	for _, k := range keys {
		c := last[k]
		ep := copyeng.Endpoint{Dir: r.Dirs[c.Layout]}
		run.Count("partB_tags_audited", 1)
		top := c.SG.G.Nodes[c.Top]
		var diff []string
		if d, ok := ep.Tag(c.Tag); !ok {
			diff = append(diff, "tag "+c.Tag+" is not in index.json")
		} else if d != top.Digest {
			diff = append(diff, fmt.Sprintf("tag %s resolves to %s, the copied image is %s", c.Tag, d, top.Digest))
		}
		nodes, probs := la.Closure(la.Layout{Dir: ep.Dir}, top.Digest, top.MT, la.WalkOpts{SkipForeign: true})
		diff = append(diff, probs...)
		run.Count("partB_closure_objects_checked", len(nodes))
		if len(diff) > 0 {
			cls := "object-missing"
			if strings.Contains(diff[0], "tag ") {
				cls = "tag"
			} else if strings.Contains(diff[0], "does not hash") {
				cls = "content-corrupt"
			}
			v := "gc"
			if r.NoGC {
				v = "gc-disabled"
			}
			run.Violation("concurrent-copy-incomplete/"+cls+"/"+v, fmt.Sprintf("ImageCopy #%d (-> %s) returned nil, all copies and closes have finished, but: %s", c.ID, c.Tag, strings.Join(diff, "; ")),
				r.witness(map[string]any{"copy": c.ID, "differences": diff}))
		}
	}

	for k, d := range r.Dirs {
		if r.NoGC {
			// nothing that was there at the start may be gone or altered
			end := takeSnap(d)
			res := judgeClose(start[k], end, false, nil)
			run.Count("gc_disabled_concurrent_layouts_compared", 1)
			run.Count("gc_disabled_files_checked", len(start[k].Files))
			for _, f := range res.Findings {
				if strings.HasSuffix(f.FP, "/top-level-file") {
					continue // index.json is rewritten by the puts themselves
				}
				if strings.HasPrefix(f.FP, "gc-disabled-") || strings.HasPrefix(f.FP, "index-entry-dropped") {
					run.Violation(f.FP+"/concurrent", "with garbage collection disabled, after concurrent puts and closes: "+f.What, r.witness(nil))
					break
				}
			}
			continue
		}
		// quiescent final Close, judged like in part A
		origin := map[string]string{}
		b := []byte(fmt.Sprintf("final canary run %d layout %d", r.I, k))
		cd := la.Digest("sha256", b)
		_ = gen.WriteLayoutBlob(d, cd, b)
		origin[cd] = "planted-canary"
		_ = os.WriteFile(filepath.Join(d, "blobs", "sha256", "424242424.tmp"), []byte("x"), 0o600)
		ctx, cancel := context.WithTimeout(context.Background(), 60*time.Second)
		ob := []byte(fmt.Sprintf("orphan %d %d", r.I, k))
		od := la.Digest("sha256", ob)
		origin[od] = "orphan-blob"
		_ = cl.BlobPut(ctx, rcx.DirRef(d, ""), descriptor.Descriptor{Digest: digest.Digest(od), Size: int64(len(ob))}, strings.NewReader(string(ob)))
		before := takeSnap(d)
		err := cl.Close(ctx, rcx.DirRef(d, ""))
		cancel()
		after := takeSnap(d)
		res := judgeClose(before, after, true, origin)
		run.Count("partB_final_quiescent_closes_judged", 1)
		run.Count("reachable_files_checked_across_closes", res.ReachFiles)
		if res.Ran {
			run.Count("partB_final_quiescent_collections_ran", 1)
		}
		seen := map[string]bool{}
		for _, f := range res.Findings {
			fp := f.FP + "/after-concurrent-run"
			if seen[fp] {
				continue
			}
			seen[fp] = true
			run.Violation(fp, "Close after all concurrent copies had finished ("+errS(err)+"): "+f.What, r.witness(map[string]any{"removed_by_this_close": res.Removed}))
		}
	}
	if r.I < 3 || r.verbose {
		var cs []string
		for _, c := range r.copies {
			cs = append(cs, fmt.Sprintf("goroutine %d round %d: %s/%s (%s) -> layout%d:%s %v = %s", c.G, c.Round, c.Host.Name, c.Repo, c.SG.Kind, c.Layout, c.Tag, c.Opts, errS(c.err)))
		}
		run.Sample(map[string]any{"part": "B", "run": r.I, "gc_disabled": r.NoGC, "copies": cs, "event_order": strings.Join(r.order, " ")})
	}
}
