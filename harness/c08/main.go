// C08 — layout GC never removes reachable content and never runs under a copy.
//
// Part A: seeded sequential histories (copy-in, manifest put, tag / manifest delete, referrer add /
// remove, orphan blob put, planted garbage, Close) on one OCI layout through the public API; around
// EVERY Close the directory is listed and reachability from index.json is recomputed with
// layoutaudit: (1) nothing reachable is removed or altered, (2) a collection that ran (observed: a
// file disappeared) leaves no unreachable digest file and no *.tmp below blobs/, (3) with the
// collector disabled nothing disappears.
// Part B: 2-5 goroutines on one client copy from latency-staggered model registries into the same
// layout and close it; a canary file written while a copy provably holds the GC lock must survive
// until that copy's last progress callback; after quiescence every tag whose copy returned nil has
// a complete closure. Race-detector reports with a frame in scheme/ocidir are violations.
package main

import (
	"encoding/json"
	"fmt"
	"math/rand"
	"os"
	"path/filepath"
	"strconv"
	"strings"
	"sync"

	"verif/ev"
)

var run *ev.Run

func seed() int64 { return ev.Seed() }

func randFor(stream string) *rand.Rand { return ev.Rand(stream) }

var scratchDir string

// scratch is the directory below which every file of this check lives ($VERIF_BIN/c08w).
func scratch() string { return scratchDir }

func main() {
	run = ev.Start("C08", "exploration")
	base := os.Getenv("VERIF_BIN")
	if base == "" || !filepath.IsAbs(base) || filepath.Clean(base) == "/" {
		fmt.Println("INCONCLUSIVE property=C08 reason=VERIF_BIN is not set to a scratch directory (the check only writes below it)")
		os.Exit(3)
	}
	scratchDir = filepath.Join(base, "c08w")
	_ = os.RemoveAll(scratchDir)
	if err := os.MkdirAll(scratchDir, 0o755); err != nil {
		fmt.Println("INCONCLUSIVE property=C08 reason=cannot create scratch directory: " + err.Error())
		os.Exit(3)
	}
	run.Rule("Part A: history i (seeded by VERIF_SEED,i) = 6-18 operations + a final garbage-and-Close on one layout, drawn from {ImageCopy from a model registry / source layout with default, referrers, digest-tags, platform-filter (sparse) or force-recursive options; " +
		"hand-made copy (BlobPut + ManifestPut children first) by tag / by digest / as child only, optionally sparse; retag inside the layout; TagDelete; ManifestDelete of index entries and of nested children; referrer add (image with artifactType, OCI artifact manifest, index with subject) / remove; " +
		"orphan BlobPut; planted unreachable digest files and *.tmp files; fresh client; Close} over 2-4 graphs per history (single images, indexes, nested indexes up to three levels, schema1, artifacts, OCI artifact manifests with blobs, blob-typed index entries, shared / duplicate / empty layers, referrers, referrers of referrers, digest tags; sha256 and sha512); " +
		"clients: RegClient (collector on), ocidir scheme directly with collector on, and with WithGC(false). One evaluation = one judged Close (part A) or one concurrent run (part B). " +
		"Non-trivial Close = at least two reachable files AND (a collection ran, or — collector disabled — garbage was present); distinct = (client variant, algorithm of the history, set of reachability edge classes present among the files on disk, kinds of garbage present {tmp, planted canary, orphan blob, former content}). " +
		"Part B: run j = 2-5 goroutines on one client, 1-2 rounds each of ImageCopy(private source repository on a latency-staggered model registry -> one of 1-2 layouts) then Close; graphs partly shared between goroutines; every 8th run uses the scheme with the collector disabled and hand-made copies; " +
		"non-trivial run = all copies returned nil and at least one Close call/return interval overlapped the in-lock window of another goroutine's copy into the same layout; distinct = interleaving shape (order of copy call/return, close call/return and collector events, goroutines renamed by first appearance)")
	run.Assume("reachability uses exactly the edges of the statement (index entries incl. untagged ones -> nested indexes at any depth -> config, layers, artifact blobs, schema1 layers; referrers through their fallback-tag entry; the subject edge is not an edge) and is computed by layoutaudit from raw files",
		"'a collection ran' is decided observably: at least one file below blobs/ that existed before the Close is gone after it; if nothing was removed nothing is demanded of that Close",
		"temporary files are judged only below blobs/ (where the client creates them and where the collector sweeps); *.tmp files directly in the layout directory are counted, not judged",
		"deliberately destructive operations (ManifestDelete of a child another tag still needs) are legal history steps: every Close is judged against the state immediately before it",
		"part B in-lock window of a copy that returned nil = [first request to its private source repository or first progress callback, last synchronous progress callback]; requests are issued after ImageCopy took the lock and callbacks (other than 'active' ticks, which are ignored) are made by goroutines ImageCopy joins before it releases it",
		"puts that are not part of an ImageCopy are not covered by the lock and not judged for it (collector-disabled concurrent runs only check that nothing disappears)",
		"the collector's debug log messages are counted as evidence and never decide a verdict")

	nA := ev.Scale(300, 4500)
	nB := ev.Scale(300, 4500)
	if st := os.Getenv("VERIF_C08_SELFTEST"); st != "" {
		fmt.Println("note: VERIF_C08_SELFTEST=" + st + ": the harness itself damages the layout to exercise the monitors; the verdict of this run says nothing about the repository")
		run.Assume("SELF-TEST RUN (" + st + "): violations of this run are produced by the harness on purpose")
	}
	only := os.Getenv("VERIF_C08_ONLY")
	if rp := os.Getenv("VERIF_REPLAY"); rp != "" && only == "" {
		// ./check C08 --replay <witness file>: re-execute the recorded case with the recorded seed
		var w struct {
			Seed    int64 `json:"seed"`
			Witness struct {
				Part    string `json:"part"`
				History *int   `json:"history"`
				Run     *int   `json:"run"`
			} `json:"witness"`
		}
		if _, e := os.Stat(rp); e != nil && !filepath.IsAbs(rp) {
			rp = filepath.Join(ev.Root(), rp) // the driver changes directory before it starts the check
		}
		b, err := os.ReadFile(rp)
		if err == nil {
			err = json.Unmarshal(b, &w)
		}
		switch {
		case err != nil:
			fmt.Println("INCONCLUSIVE property=C08 reason=cannot read replay file: " + err.Error())
			os.Exit(3)
		case w.Witness.History != nil:
			only = fmt.Sprintf("A:%d", *w.Witness.History)
		case w.Witness.Run != nil:
			only = fmt.Sprintf("B:%d", *w.Witness.Run)
		default:
			fmt.Println("INCONCLUSIVE property=C08 reason=replay file names no case (race reports are not replayable)")
			os.Exit(3)
		}
		_ = os.Setenv("VERIF_SEED", strconv.FormatInt(w.Seed, 10))
	}
	if only != "" {
		part, num, _ := strings.Cut(only, ":")
		n, err := strconv.Atoi(num)
		if err != nil {
			fmt.Println("INCONCLUSIVE property=C08 reason=bad VERIF_C08_ONLY")
			os.Exit(3)
		}
		switch {
		case part == "A" && n >= 900000:
			runCoreHistory(n-900000, coreGraphs(), true)
		case part == "A":
			runHistory(n, true)
		default:
			runConcurrent(n, true)
		}
		attributeRaces()
		os.Exit(run.Finish())
	}
	core := coreGraphs()
	parallel(2*len(core), 8, func(k int) { runCoreHistory(k, core, false) })
	parallel(nA, 8, func(i int) { runHistory(i, false) })
	parallel(nB, 6, func(i int) { runConcurrent(i, false) })
	attributeRaces()
	nonVacuity(nA, nB)
	_ = os.RemoveAll(scratchDir)
	os.Exit(run.Finish())
}

func parallel(n, workers int, fn func(i int)) {
	var wg sync.WaitGroup
	ch := make(chan int)
	for w := 0; w < workers; w++ {
		wg.Add(1)
		go func() {
			defer wg.Done()
			for i := range ch {
				fn(i)
			}
		}()
	}
	for i := 0; i < n; i++ {
		ch <- i
	}
	close(ch)
	wg.Wait()
}

func attributeRaces() {
	for _, rep := range ev.RaceReports(filepath.Join(os.Getenv("VERIF_BIN"), "race")) {
		if strings.Contains(rep, "regclient/scheme/ocidir") {
			// fingerprint: first ocidir frame
			fr := "unknown"
			for _, l := range strings.Split(rep, "\n") {
				l = strings.TrimSpace(l)
				if strings.Contains(l, "regclient/scheme/ocidir.") && strings.Contains(l, "(") {
					fr = l[strings.Index(l, "scheme/ocidir."):strings.LastIndex(l, "(")]
					break
				}
			}
			run.Violation("race/"+fr, "data race with a frame in scheme/ocidir (collector / lock state) during concurrent copies and closes", rep)
		} else {
			run.Count("unattributed_race_reports", 1)
		}
	}
}

func nonVacuity(nA, nB int) {
	need := func(name string, min int64) {
		if run.Get(name) < min {
			run.Inconclusive(fmt.Sprintf("non-vacuity: %s = %d, need >= %d", name, run.Get(name), min))
		}
	}
	need("partA_histories", int64(nA*9/10))
	need("partA_regression_core_histories", 24)
	need("collections_ran", int64(nA/2))
	need("removed/tmp_files", 10)
	need("removed/planted_canaries", 10)
	need("removed/other_unreachable_content", 10)
	need("gc_disabled_closes_with_garbage_present", 10)
	need("closes_judged/rc", 50)
	need("closes_judged/scheme-gc", 20)
	for _, e := range []string{"root/tagged", "root/untagged", "index>manifest@depth1", "index>manifest@depth2", "index>manifest@depth3", "image>config", "image>layer", "artifact>blob", "schema1>layer", "index>blob-entry",
		"referrers:root/fallback-tag", "referrers:index>manifest@depth1", "referrers:image>layer", "referrers:artifact>blob"} {
		need("collections_with_edge/"+e, 1)
	}
	need("partB_runs", int64(nB*9/10))
	if run.Get("partB_copies_ok")*10 < run.Get("partB_copies")*9 {
		run.Inconclusive("non-vacuity: fewer than 90% of the concurrent copies succeeded")
	}
	if run.Get("partA_ops_ok")*10 < (run.Get("partA_ops_ok")+run.Get("partA_ops_failed"))*7 {
		run.Inconclusive("non-vacuity: fewer than 70% of the history operations succeeded")
	}
	need("partB_closes_overlapping_the_in_lock_window_of_another_copy", int64(nB/4))
	need("partB_in_lock_observations", int64(nB*10))
	need("partB_canaries_collected_after_their_copy(legitimate)", int64(nB/4))
	need("partB_final_quiescent_collections_ran", int64(nB/2))
	need("partB_tags_audited", int64(nB))
	need("gc_disabled_concurrent_layouts_compared", 1)
}
