package main

// Where the client learns its credentials from: the host configuration handed to the library (the default), a
// Docker configuration file (auths entries, keys in the spellings that name a host), or a credential
// helper named by that file. The secrets and the audit are the same; the file additionally carries decoys - entries
// that belong to no host of the topology (another registry; an entry with a repository path) - which must never be
// transmitted to anybody nor printed.

import (
	"encoding/base64"
	"encoding/json"
	"fmt"
	"math/rand"
	"os"
	"path/filepath"
	"strings"
	"sync"

	"github.com/regclient/regclient"

	"verif/gen"
	la "verif/layoutaudit"
)

var helperDirOnce sync.Once
var helperDir string

// credHelperDir returns a directory on PATH into which credential helpers are written.
func credHelperDir() string {
	helperDirOnce.Do(func() {
		helperDir, _ = os.MkdirTemp(os.Getenv("VERIF_BIN"), "c11helpers")
		_ = os.Setenv("PATH", helperDir+string(os.PathListSeparator)+os.Getenv("PATH"))
	})
	return helperDir
}

func hasOwnCreds(hs *hostSpec) bool {
	return hs.Auth != "none" && (hs.Role == "upstream" || hs.Role == "mirror" || hs.Role == "second")
}

// dockerCreds writes the Docker configuration file (and the helper) of the topology and returns the client option.
func (t *topo) dockerCreds() regclient.Opt {
	rng := rand.New(rand.NewSource(int64(t.I)*7919 + 17))
	dir, _ := os.MkdirTemp(os.Getenv("VERIF_BIN"), "c11docker")
	t.tmpDirs = append(t.tmpDirs, dir)
	auths := map[string]any{}
	helpers := map[string]string{}
	var helperCases []string
	helperName := fmt.Sprintf("verif%d", t.I)
	for _, hs := range t.Hosts {
		if hs.Role == "hub" {
			// Docker's own key for Docker Hub
			auths["https://index.docker.io/v1/"] = map[string]string{"auth": base64.StdEncoding.EncodeToString([]byte(hs.user + ":" + hs.pass))}
			g := gen.New(rng, "sha256")
			l := g.Blob("layer", la.MTOCILayerGz, 40)
			img := g.Image(g.Config("oci", nil, 1), []*gen.Node{l}, gen.ImageOpts{Family: "oci"})
			g.Top, g.Tags["latest"] = img.ID, img.ID
			g.ToHost(hs.h, "library/alpine", nil, true)
			continue
		}
		if !hasOwnCreds(hs) {
			continue
		}
		addr := hs.h.Addr()
		if t.CredSrc == "cred-helper" {
			helpers[addr] = helperName
			user, sec := hs.user, hs.pass
			if hs.idToken != "" {
				user, sec = "<token>", hs.idToken
			}
			helperCases = append(helperCases, fmt.Sprintf("  %q) printf '{\"ServerURL\":\"%%s\",\"Username\":\"%s\",\"Secret\":\"%s\"}\\n' \"$srv\";;", addr, user, sec))
			continue
		}
		// spellings the library documents as naming the host itself (a key with a path names a repository and is
		// not a host entry; the http form says "plain HTTP" and is only used for hosts that are configured so)
		keys := []string{addr, "https://" + addr, "https://" + addr + "/"}
		if hs.TLS == "plain" {
			keys = append(keys, "http://"+addr+"/", "http://"+addr)
		}
		key := keys[rng.Intn(len(keys))]
		switch {
		case hs.idToken != "":
			auths[key] = map[string]string{"auth": base64.StdEncoding.EncodeToString([]byte("00000000-0000-0000-0000-000000000000:")), "identitytoken": hs.idToken}
		case rng.Intn(2) == 0:
			auths[key] = map[string]string{"auth": base64.StdEncoding.EncodeToString([]byte(hs.user + ":" + hs.pass))}
		default:
			auths[key] = map[string]string{"username": hs.user, "password": hs.pass}
		}
	}
	// decoys: nobody in the topology owns these
	up := t.find("upstream")
	d1, d2 := fmt.Sprintf("S3CdecoyRepoPW%dx", t.I), fmt.Sprintf("S3CdecoyOtherPW%dx", t.I)
	t.decoys = []string{d1, d2}
	auths[up.h.Addr()+"/team/private"] = map[string]string{"auth": base64.StdEncoding.EncodeToString([]byte("repo-user:" + d1))}
	auths["registry.other.example:5000"] = map[string]string{"username": "other-user", "password": d2}
	if t.find("hub") != nil {
		// registries whose names merely resemble Docker Hub's
		for k, name := range []string{"registry.mydocker.io", "docker.io.example.org", "index.docker.io.example.org"} {
			d := fmt.Sprintf("S3CdecoyHub%dPW%dx", k, t.I)
			t.decoys = append(t.decoys, d)
			auths[name] = map[string]string{"username": "other-user", "password": d}
		}
	}
	cfg := map[string]any{"auths": auths}
	if len(helpers) > 0 {
		cfg["credHelpers"] = helpers
		script := "#!/bin/sh\n# credential helper of the C11 monitor (topology " + fmt.Sprint(t.I) + ")\nif [ \"$1\" = get ]; then\n read -r srv\n case \"$srv\" in\n" +
			strings.Join(helperCases, "\n") + "\n  *) echo 'credentials not found in native keychain'; exit 1;;\n esac\n exit 0\nfi\nif [ \"$1\" = list ]; then echo '{}'; exit 0; fi\nexit 1\n"
		_ = os.WriteFile(filepath.Join(credHelperDir(), "docker-credential-"+helperName), []byte(script), 0o755)
	}
	b, _ := json.MarshalIndent(cfg, "", "  ")
	fn := filepath.Join(dir, "config.json")
	_ = os.WriteFile(fn, b, 0o600)
	run.Count("topologies_with_credentials_from_"+t.CredSrc, 1)
	return regclient.WithDockerCredsFile(fn)
}

// auditDecoys: a decoy secret reached a host or the log.
func (t *topo) auditDecoys(logs string) {
	for _, d := range t.decoys {
		b64 := []string{d}
		for _, u := range []string{"repo-user", "other-user"} {
			b64 = append(b64, base64.StdEncoding.EncodeToString([]byte(u+":"+d)))
		}
		for _, e := range t.w.Log() {
			hay := haystack(e)
			for _, s := range b64 {
				if strings.Contains(hay, s) {
					run.Violation("leak/docker-config-entry-of-nobody/sent-to-"+e.Host, fmt.Sprintf("a credential that the Docker configuration file lists for another registry / for a repository path was transmitted to %s (%s %s)", e.Host, e.Method, e.Path), map[string]any{"topology": t.key(), "credential_source": t.CredSrc})
					return
				}
			}
		}
		for _, s := range b64 {
			if strings.Contains(logs, s) {
				run.Violation("secret-in-log/docker-config-entry-of-nobody", "a credential of a Docker configuration entry that no configured host owns appears in the library's log output", map[string]any{"topology": t.key(), "credential_source": t.CredSrc})
				return
			}
		}
	}
}
