// C11 — credentials go only to their own registry, over its configured transport.
// Monitor: every model host records complete requests (URL, headers, body); TLS hosts sit
// behind a listener that records clear text arriving where a ClientHello is expected; all
// secrets are unique random strings, so a substring scan (raw, URL-decoded, base64) of what
// each host received has no false positives. Library log output at trace level is scanned too.
package main

import (
	"bytes"
	"context"
	"encoding/base64"
	"fmt"
	"io"
	"log/slog"
	"math/rand"
	"net"
	"net/url"
	"os"
	"os/exec"
	"path/filepath"
	"strings"
	"sync"
	"time"

	"github.com/opencontainers/go-digest"
	"github.com/regclient/regclient"
	"github.com/regclient/regclient/config"
	"github.com/regclient/regclient/types"
	"github.com/regclient/regclient/types/descriptor"
	"github.com/regclient/regclient/types/manifest"
	"github.com/regclient/regclient/types/ref"

	"verif/ev"
	"verif/gen"
	la "verif/layoutaudit"
	"verif/modelreg"
	"verif/rcx"
)

var run *ev.Run

type hostSpec struct {
	Name      string
	Role      string // upstream mirror second cdn external token
	Auth      string // none basic bearer bearer-refresh identity
	TLS       string // plain tls insecure
	TokenOn   string // "self" or name of a separate token host
	RepoAuth  bool
	Extra     bool // extra / malformed challenges before the real one
	OwnRealm  bool // (cdn / external) bearer challenge names its own token host
	SameIP    bool // (external) listens on the upstream's address, another port
	Lacks     bool // (mirror) authenticates the client and then does not have the content
	OddToken  bool // token endpoint answers with JSON the client cannot decode (tokens still count as issued secrets)
	h         *modelreg.Host
	tokenHost *modelreg.Host
	user      string
	pass      string
	idToken   string
}

type topo struct {
	I int
	// ChunkFault: pushes to the upstream are chunked and one PATCH of every session fails without
	// Location / Range, which sends the client to the upload-status request
	ChunkFault bool
	// secrets of a configuration entry without a name (the client ignores the entry; it must not print them)
	orphan []string
	// CredSrc: host-config (credentials in the configuration handed to the library), docker-file (auths entries of a
	// Docker configuration file) or cred-helper (a credential helper named by that file)
	CredSrc string
	decoys  []string
	tmpDirs []string
	Hosts   []*hostSpec
	w       *modelreg.World
	g       *gen.Graph
	errOut  io.Writer
}

func secret(rng *rand.Rand, tag string) string {
	const al = "abcdefghijklmnopqrstuvwxyzABCDEFGHIJKLMNOPQRSTUVWXYZ0123456789"
	b := make([]byte, 18)
	for i := range b {
		b[i] = al[rng.Intn(len(al))]
	}
	return "S3C" + tag + string(b)
}

func (t *topo) find(role string) *hostSpec {
	for _, h := range t.Hosts {
		if h.Role == role {
			return h
		}
	}
	return nil
}

func genTopo(rng *rand.Rand, i int) *topo {
	auths := []string{"none", "basic", "basic", "bearer", "bearer", "bearer-refresh", "identity"}
	tlss := []string{"plain", "plain", "tls", "insecure"}
	t := &topo{I: i}
	add := func(name, role string) *hostSpec {
		hs := &hostSpec{Name: name, Role: role, Auth: auths[rng.Intn(len(auths))], TLS: tlss[rng.Intn(len(tlss))], TokenOn: "self", RepoAuth: rng.Intn(4) == 0, Extra: rng.Intn(5) == 0}
		if rng.Intn(3) == 0 {
			hs.TokenOn = "separate"
		}
		t.Hosts = append(t.Hosts, hs)
		return hs
	}
	t.ChunkFault = rng.Intn(3) == 0
	up := add("upstream", "upstream")
	if up.Auth == "none" && rng.Intn(2) == 0 {
		up.Auth = "basic"
	}
	if rng.Intn(2) == 0 {
		m := add("mirror", "mirror")
		m.Lacks = rng.Intn(2) == 0
	}
	add("second", "second")
	if rng.Intn(3) > 0 {
		c := add("cdn", "cdn")
		c.Auth = []string{"none", "basic", "bearer", "bearer", "bare401"}[rng.Intn(5)]
		c.OwnRealm = true
	}
	if rng.Intn(2) == 0 {
		x := add("external", "external")
		x.Auth = []string{"none", "basic", "bearer", "bare401"}[rng.Intn(4)]
		x.OwnRealm = true
		// external URLs are requested directly (no redirect is involved), so a server that shares the
		// registry's host name on another port is a different party for the client's own credential lookup
		x.SameIP = rng.Intn(3) == 0
	}
	// a host the user configured for TLS (without verification) behind something that answers the TLS port in
	// plain HTTP (a TLS-stripping box, a captive portal, the wrong port): the client must not fall back to clear text
	for _, hs := range t.Hosts {
		if (hs.Role == "second" || hs.Role == "mirror") && hs.Auth != "none" && rng.Intn(8) == 0 {
			hs.TLS = "stripped"
		}
	}
	// redirect targets and external hosts are reached with the upstream's transport settings: they can only
	// use TLS when the upstream does not pin a certificate (the test certificate is bound to 127.0.0.1)
	for _, hs := range t.Hosts {
		if (hs.Role == "cdn" || hs.Role == "external") && hs.TLS != "plain" && up.TLS != "insecure" {
			hs.TLS = "plain"
		}
		if (hs.Role == "cdn" || hs.Role == "external") && hs.TLS == "tls" {
			hs.TLS = "insecure"
		}
	}
	return t
}

func (t *topo) key() string {
	parts := []string{fmt.Sprintf("chunkfault=%t", t.ChunkFault)}
	for _, h := range t.Hosts {
		parts = append(parts, fmt.Sprintf("%s:%s:%s:%s:%t:%t:%t:%t", h.Role, h.Auth, h.TLS, h.TokenOn, h.Extra, h.SameIP, h.Lacks, h.OddToken))
	}
	return strings.Join(parts, "|")
}

func (t *topo) build(rng *rand.Rand) {
	t.w = modelreg.NewWorld()
	// every host gets its own loopback address: Go's HTTP client keeps the Authorization header on
	// redirects to the same host name (ports are ignored), which distinct registries never share
	nextIP := 10
	pinnedUsed := false
	for _, hs := range t.Hosts {
		if hs.TLS == "tls" {
			// the test certificate is only valid for 127.0.0.1: one pinned-certificate host per topology
			if pinnedUsed {
				hs.TLS = "insecure"
			}
			pinnedUsed = true
		}
	}
	mk := func(name, tls string) *modelreg.Host {
		ip := fmt.Sprintf("127.0.0.%d", nextIP)
		nextIP++
		if tls == "tls" {
			ip = "127.0.0.1" // a registry and its own token endpoint may share the host name
		}
		return t.w.NewHostOn(name, ip, tls != "plain" && tls != "stripped")
	}
	upIP := ""
	for _, hs := range t.Hosts {
		if hs.SameIP && upIP != "" {
			hs.h = t.w.NewHostOn(hs.Name, upIP, hs.TLS != "plain")
		} else {
			hs.h = mk(hs.Name, hs.TLS)
		}
		if hs.Role == "upstream" {
			upIP, _, _ = net.SplitHostPort(hs.h.Addr())
		}
		hs.h.Cfg.ReferrersAPI = rng.Intn(2) == 0
		hs.h.Cfg.TagDeleteAPI = rng.Intn(2) == 0
		hs.user = "user-" + hs.Name
		hs.pass = secret(rng, "pw"+hs.Name)
		if hs.Auth == "none" {
			continue
		}
		a := &modelreg.AuthCfg{User: hs.user, Pass: hs.pass, Service: "svc-" + hs.Name, Prefix: secret(rng, "tk"+hs.Name)}
		switch hs.Auth {
		case "bare401":
			// rejects with a plain 401 that names no scheme: there is nothing to answer, and nobody's login to offer
			a.Mode = "bare401"
		case "basic":
			a.Mode = "basic"
		case "bearer":
			a.Mode = "bearer"
		case "bearer-refresh":
			a.Mode, a.IssueRefresh = "bearer", true
		case "identity":
			a.Mode = "bearer"
			hs.idToken = secret(rng, "id"+hs.Name)
			a.IdentityToken = hs.idToken
			a.User, a.Pass = "", ""
			hs.pass = ""
		}
		if a.Mode == "bearer" && hs.Role != "upstream" && rng.Intn(8) == 0 {
			hs.OddToken, a.OddTokenJSON = true, true
		}
		if hs.Extra {
			a.Extra = []string{`Negotiate`, `Digest realm="x", nonce="abc"`}
			if rng.Intn(2) == 0 {
				a.Extra = append(a.Extra, `Bearer realm=`) // malformed: the client may refuse to authenticate at all, it must still not leak
			}
		}
		hs.tokenHost = hs.h
		if a.Mode == "bearer" && hs.TokenOn == "separate" {
			hs.tokenHost = mk("token-"+hs.Name, hs.TLS)
			hs.tokenHost.Auth = a
		}
		a.Realm = hs.tokenHost.Srv.URL + "/token"
		hs.h.Auth = a
	}
	// content
	t.g = gen.Random(rng, "sha256", gen.Shape{Family: "oci", Kind: "index", Platforms: 2, Layers: 2, Referrers: 1, Foreign: t.find("external") != nil, MaxBlob: 400}, "v1")
	up := t.find("upstream")
	if x := t.find("external"); x != nil {
		for _, n := range t.g.Nodes {
			if len(n.URLs) > 0 {
				n.URLs = []string{x.h.Srv.URL + "/v2/ext/blobs/" + n.Digest}
				x.h.PutBlob("ext", "sha256", n.Content)
			}
		}
		// re-render is not needed: URLs live in the manifest bytes; regenerate the graph with the final URL instead
		t.g = regenWithURL(rng, x.h.Srv.URL)
		for _, n := range t.g.Nodes {
			if len(n.URLs) > 0 {
				x.h.PutBlob("ext", "sha256", n.Content)
			}
		}
	}
	t.g.ToHost(up.h, "proj/app", nil, true)
	if m := t.find("mirror"); m != nil {
		if m.Lacks {
			t.w.Lock()
			m.h.Repo("proj/app")
			t.w.Unlock()
		} else {
			t.g.ToHost(m.h, "proj/app", nil, true)
		}
	}
	if c := t.find("cdn"); c != nil {
		t.g.ToHost(c.h, "proj/app", nil, false)
		up.h.Cfg.BlobRedirect = c.h.Srv.URL
	}
	t.w.Lock()
	t.find("second").h.Repo("copy/app")
	t.w.Unlock()
	if t.ChunkFault {
		seen := map[string]int{}
		var mu sync.Mutex
		(&modelreg.Plan{Faults: []*modelreg.Fault{{Action: "status:500", Match: func(e *modelreg.Event) bool {
			if e.Kind != "upload-patch" {
				return false
			}
			mu.Lock()
			defer mu.Unlock()
			seen[e.Path]++
			return seen[e.Path] == 2 // the second PATCH of each upload session
		}}}}).Install(up.h)
	}
}

func regenWithURL(rng *rand.Rand, base string) *gen.Graph {
	g := gen.New(rng, "sha256")
	var entries []*gen.Node
	for i := 0; i < 2; i++ {
		l1 := g.Blob("layer", la.MTOCILayerGz, 100+rng.Intn(300))
		fl := g.Blob("layer", la.MTD2Foreign, 60)
		fl.URLs = []string{base + "/v2/ext/blobs/" + fl.Digest}
		fl.External = true
		cfg := g.Config("oci", nil, 2)
		p := la.Platform{OS: "linux", Architecture: []string{"amd64", "arm64"}[i]}
		entries = append(entries, g.Image(cfg, []*gen.Node{l1, fl}, gen.ImageOpts{Family: "oci", Platform: &p}))
	}
	idx := g.Index("oci", entries, nil, nil)
	g.Top = idx.ID
	g.Tags["v1"] = idx.ID
	cfg := g.BlobBytes("config", la.MTOCIEmpty, []byte("{}"))
	l := g.Blob("layer", "application/vnd.example.payload", 40)
	g.Image(cfg, []*gen.Node{l}, gen.ImageOpts{Family: "oci", Subject: idx, ArtifactType: "application/vnd.example.sig"})
	return g
}

func (t *topo) client(logBuf io.Writer) *regclient.RegClient {
	var hosts []*modelreg.Host
	by := map[string]*hostSpec{}
	for _, hs := range t.Hosts {
		by[hs.Name] = hs
		if hs.Role == "hub" {
			continue
		}
		hosts = append(hosts, hs.h)
	}
	lg := slog.New(slog.NewTextHandler(logBuf, &slog.HandlerOptions{Level: types.LevelTrace}))
	// an entry without a name, as a hand-edited configuration file may contain: ignored, and its secrets stay unprinted
	t.orphan = []string{fmt.Sprintf("S3CorphanPW%dx", t.I), fmt.Sprintf("S3CorphanTK%dx", t.I)}
	nameless := config.Host{Hostname: "nameless.example:5000", User: "orphan", Pass: t.orphan[0], Token: t.orphan[1]}
	extra := []regclient.Opt{regclient.WithSlog(lg), regclient.WithConfigHost(nameless)}
	if t.CredSrc != "" && t.CredSrc != "host-config" {
		extra = append(extra, t.dockerCreds())
		if hub := t.find("hub"); hub != nil {
			extra = append(extra, regclient.WithConfigHost(config.Host{Name: "docker.io", Hostname: hub.h.Addr(), TLS: config.TLSDisabled}))
		}
	}
	return rcx.New(hosts, rcx.Opts{RetryLimit: 3, Extra: extra, Mutate: func(name string, c *config.Host) {
		hs := by[name]
		if t.ChunkFault && hs.Role == "upstream" {
			c.BlobChunk, c.BlobMax = 64, 64
		}
		switch hs.TLS {
		case "tls":
			c.TLS = config.TLSEnabled
			c.RegCert = hs.h.CertPEM()
		case "insecure", "stripped":
			c.TLS = config.TLSInsecure
		}
		if hasOwnCreds(hs) && (t.CredSrc == "" || t.CredSrc == "host-config") {
			c.User, c.Pass = hs.user, hs.pass
			if hs.idToken != "" {
				c.User, c.Pass, c.Token = "", "", hs.idToken
			}
		}
		c.RepoAuth = hs.RepoAuth
		if hs.Role == "upstream" {
			if m := t.find("mirror"); m != nil {
				c.Mirrors = []string{m.h.Addr()}
			}
		}
	}})
}

func (t *topo) workload(ctx context.Context, rc *regclient.RegClient, rng *rand.Rand) (ok, failed int) {
	up := t.find("upstream")
	sec := t.find("second")
	top := t.g.Nodes[t.g.Top]
	var layer, img *gen.Node
	for _, n := range t.g.Nodes {
		if n.Kind == "layer" && len(n.URLs) == 0 && layer == nil {
			layer = n
		}
		if n.Kind == "image" && img == nil {
			img = n
		}
	}
	ld := descriptor.Descriptor{Digest: digest.Digest(layer.Digest), Size: int64(len(layer.Content))}
	upRef := func(s string) string { return s }
	_ = upRef
	type step struct {
		name string
		fn   func() error
	}
	extra := make([]byte, 300)
	rng.Read(extra)
	steps := []step{
		{"ping", func() error { _, err := rc.Ping(ctx, rcx.Ref(up.h, "proj/app", "v1")); return err }},
		{"repo-list", func() error { _, err := rc.RepoList(ctx, up.h.Addr()); return err }},
		{"tag-list", func() error { _, err := rc.TagList(ctx, rcx.Ref(up.h, "proj/app", "")); return err }},
		{"manifest-head", func() error { _, err := rc.ManifestHead(ctx, rcx.Ref(up.h, "proj/app", "v1")); return err }},
		{"manifest-get", func() error { _, err := rc.ManifestGet(ctx, rcx.Ref(up.h, "proj/app", "v1")); return err }},
		{"blob-head", func() error { _, err := rc.BlobHead(ctx, rcx.Ref(up.h, "proj/app", ""), ld); return err }},
		{"blob-get", func() error {
			r, err := rc.BlobGet(ctx, rcx.Ref(up.h, "proj/app", ""), ld)
			if err != nil {
				return err
			}
			defer r.Close()
			_, err = io.ReadAll(r)
			return err
		}},
		{"referrer-list", func() error { _, err := rc.ReferrerList(ctx, rcx.Ref(up.h, "proj/app", top.Digest)); return err }},
		{"blob-put", func() error {
			_, err := rc.BlobPut(ctx, rcx.Ref(up.h, "proj/new", ""), descriptor.Descriptor{}, bytes.NewReader(extra))
			return err
		}},
		{"blob-mount", func() error {
			return rc.BlobMount(ctx, rcx.Ref(up.h, "proj/app", ""), rcx.Ref(up.h, "proj/new", ""), ld)
		}},
		{"manifest-put", func() error {
			m, err := manifest.New(manifest.WithRaw(img.Content), manifest.WithDesc(descriptor.Descriptor{MediaType: img.MT}))
			if err != nil {
				return err
			}
			return rc.ManifestPut(ctx, rcx.Ref(up.h, "proj/app", "retag"), m)
		}},
		{"copy-to-second", func() error {
			return rc.ImageCopy(ctx, rcx.Ref(up.h, "proj/app", "v1"), rcx.Ref(sec.h, "copy/app", "v1"), regclient.ImageWithReferrers())
		}},
		{"copy-external", func() error {
			return rc.ImageCopy(ctx, rcx.Ref(up.h, "proj/app", "v1"), rcx.Ref(sec.h, "copy/ext", "v1"), regclient.ImageWithIncludeExternal())
		}},
		{"copy-back", func() error {
			return rc.ImageCopy(ctx, rcx.Ref(sec.h, "copy/app", "v1"), rcx.Ref(up.h, "proj/back", "v1"))
		}},
		{"tag-delete", func() error { return rc.TagDelete(ctx, rcx.Ref(up.h, "proj/app", "retag")) }},
		{"blob-delete", func() error { return rc.BlobDelete(ctx, rcx.Ref(up.h, "proj/new", ""), ld) }},
		{"manifest-delete", func() error { return rc.ManifestDelete(ctx, rcx.Ref(sec.h, "copy/app", top.Digest)) }},
	}
	// the read-only operations run in random order, the writes in an order in which they can succeed
	rng.Shuffle(8, func(i, j int) { steps[i], steps[j] = steps[j], steps[i] })
	for _, s := range steps {
		err := func() (err error) {
			defer func() {
				if p := recover(); p != nil {
					err = fmt.Errorf("PANIC %v", p)
					run.Violation("panic/"+s.name, fmt.Sprintf("%s panicked: %v", s.name, p), t.key())
				}
			}()
			return s.fn()
		}()
		if err != nil {
			failed++
			// what an application would print: part of the output that must stay free of secrets
			fmt.Fprintf(t.errOut, "operation %s failed: %v\n", s.name, err)
			if os.Getenv("VERIF_DEBUG") != "" {
				fmt.Printf("FAILOP %s [%s]: %v\n", s.name, t.key(), err)
			}
			run.SetAdd("failing_operation_classes", s.name+"/"+t.find("upstream").Auth)
		} else {
			ok++
		}
	}
	if hub := t.find("hub"); hub != nil {
		r, rerr := ref.New("docker.io/library/alpine:latest")
		for _, how := range []string{"head", "get"} {
			var err error
			if rerr != nil {
				err = rerr
			} else if how == "head" {
				_, err = rc.ManifestHead(ctx, r)
			} else {
				_, err = rc.ManifestGet(ctx, r)
			}
			if err != nil {
				failed++
				fmt.Fprintf(t.errOut, "operation hub-%s failed: %v\n", how, err)
			} else {
				ok++
				run.Count("operations_ok_at_the_docker_hub_stand_in", 1)
			}
		}
	}
	return
}

// forms returns the representations in which a secret could travel.
func haystack(e *modelreg.Event) string {
	var b strings.Builder
	b.WriteString(e.Method + " " + e.RawURL + "\n")
	for k, vs := range e.Header {
		for _, v := range vs {
			b.WriteString(k + ": " + v + "\n")
			if strings.HasPrefix(v, "Basic ") {
				if dec, err := base64.StdEncoding.DecodeString(strings.TrimPrefix(v, "Basic ")); err == nil {
					b.WriteString("decoded-basic: " + string(dec) + "\n")
				}
			}
		}
	}
	b.Write(e.Body)
	s := b.String()
	if u, err := url.QueryUnescape(s); err == nil && u != s {
		s += "\n" + u
	}
	return s
}

func (t *topo) audit(logs string) {
	// who may see the secrets of Y: Y itself and the token endpoint Y named
	type owner struct {
		hs      *hostSpec
		secrets []string
	}
	var owners []owner
	for _, hs := range t.Hosts {
		var s []string
		if hs.pass != "" {
			s = append(s, hs.pass, base64.StdEncoding.EncodeToString([]byte(hs.user+":"+hs.pass)))
		}
		if hs.idToken != "" {
			s = append(s, hs.idToken)
		}
		if hs.h.Auth != nil {
			s = append(s, hs.h.Auth.Secrets()...)
		}
		owners = append(owners, owner{hs, s})
	}
	nameOf := map[string]*hostSpec{}
	for _, hs := range t.Hosts {
		nameOf[hs.h.Name] = hs
		if hs.tokenHost != nil {
			nameOf[hs.tokenHost.Name] = hs
		}
	}
	group := func(host string) string {
		if hs := nameOf[host]; hs != nil {
			return hs.Name
		}
		return host
	}
	for _, e := range t.w.Log() {
		hay := haystack(e)
		if e.Auth != "" {
			run.Count("requests_carrying_authorization", 1)
		}
		if e.Kind == "token" {
			run.Count("token_requests", 1)
		}
		if e.Status == 401 {
			run.Count("challenges_issued", 1)
		}
		if e.Status == 307 {
			run.Count("redirects_issued", 1)
		}
		for _, o := range owners {
			if e.Host == o.hs.h.Name || (o.hs.tokenHost != nil && e.Host == o.hs.tokenHost.Name) {
				continue
			}
			for _, s := range o.secrets {
				if s != "" && strings.Contains(hay, s) {
					kind := "password"
					switch {
					case o.hs.h.Auth != nil && strings.HasPrefix(s, o.hs.h.Auth.Prefix+"BT"):
						kind = "bearer-token"
					case o.hs.h.Auth != nil && strings.HasPrefix(s, o.hs.h.Auth.Prefix+"RT"):
						kind = "refresh-token"
					case strings.HasPrefix(s, "S3Cid"):
						kind = "identity-token"
					}
					recv := nameOf[e.Host]
					recvRole := e.Host
					if recv != nil {
						recvRole = recv.Role
						if recv.tokenHost != nil && recv.tokenHost.Name == e.Host && recv.tokenHost != recv.h {
							recvRole = "token-endpoint-of-" + recv.Role
						}
					}
					how := "unsolicited"
					if challengedBefore(t, e, group(e.Host)) {
						how = "after-challenge"
						if recv != nil && recv.Auth == "bare401" {
							how = "after-bare-401" // a 401 that names no scheme is not a challenge anybody can answer
						}
					}
					run.Violation(fmt.Sprintf("leak/%s/%s-of-%s-sent-to-%s/%s", how, kind, o.hs.Role, recvRole, e.Kind),
						fmt.Sprintf("%s of host %s (%s) was received by host %s in %s %s (request kind %s, %s: the receiver had%s challenged before)", kind, o.hs.Name, o.hs.Role, e.Host, e.Method, e.Path, e.Kind, how, map[bool]string{true: "", false: " not"}[how == "after-challenge"]),
						map[string]any{"topology": t.key(), "receiver": e.Host, "owner": o.hs.Name, "request": e.Method + " " + e.RawURL, "authorization_header_prefix": prefix(e.Auth, 12)})
					break
				}
			}
		}
	}
	// clear text to a host that is configured for TLS but answers its port in plain HTTP
	for _, hs := range t.Hosts {
		if hs.TLS != "stripped" {
			continue
		}
		run.Count("topologies_with_a_tls_stripped_host", 1)
		for _, e := range t.w.Log() {
			if e.Host == hs.h.Name || (hs.tokenHost != nil && e.Host == hs.tokenHost.Name) {
				kind := "request"
				if e.Auth != "" {
					kind = "credentials"
				}
				run.Violation("cleartext-to-tls-host/stripped/"+hs.Role+"/"+kind, fmt.Sprintf("host %s is configured for TLS (verification off) and answers its port in plain HTTP: the client went on in clear text (%s %s, Authorization present: %t)", hs.Name, e.Method, e.Path, e.Auth != ""), map[string]any{"topology": t.key(), "request": e.Method + " " + e.RawURL})
				break
			}
		}
	}
	// clear text on TLS listeners
	for _, hs := range t.Hosts {
		for _, h := range []*modelreg.Host{hs.h, hs.tokenHost} {
			if h == nil || !h.TLS {
				continue
			}
			pt := string(h.PlaintextSeen())
			if pt == "" {
				continue
			}
			run.Count("plaintext_connections_on_tls_listeners", 1)
			for _, o := range owners {
				for _, s := range o.secrets {
					if s != "" && strings.Contains(pt+"\n"+decodeBasicIn(pt), s) {
						run.Violation("cleartext-to-tls-host/"+hs.Role, fmt.Sprintf("a secret of %s arrived in clear text at %s, which is configured for TLS", o.hs.Name, h.Name), map[string]any{"topology": t.key(), "cleartext_prefix": prefix(pt, 120)})
					}
				}
			}
		}
	}
	for _, sct := range t.orphan {
		if strings.Contains(logs, sct) {
			i := strings.Index(logs, sct)
			a := i - 160
			if a < 0 {
				a = 0
			}
			run.Violation("secret-in-log/nameless-config-entry", "a secret of a configuration entry without a name appears in the library's log output", map[string]any{"topology": t.key(), "log_context": strings.ReplaceAll(logs[a:i], sct, "<secret>") + "<secret>"})
			break
		}
	}
	// logs
	for _, o := range owners {
		for _, s := range o.secrets {
			if s != "" && strings.Contains(logs, s) {
				i := strings.Index(logs, s)
				a := i - 160
				if a < 0 {
					a = 0
				}
				run.Violation("secret-in-log/"+o.hs.Auth, fmt.Sprintf("a secret of %s appears in the library's log output or in a returned error", o.hs.Name), map[string]any{"topology": t.key(), "log_context": strings.ReplaceAll(logs[a:i], s, "<secret>") + "<secret>"})
				break
			}
		}
	}
}

// challengedBefore reports whether the receiver's group answered 401 to an earlier request.
func challengedBefore(t *topo, e *modelreg.Event, grp string) bool {
	nameOf := map[string]string{}
	for _, hs := range t.Hosts {
		nameOf[hs.h.Name] = hs.Name
		if hs.tokenHost != nil {
			nameOf[hs.tokenHost.Name] = hs.Name
		}
	}
	for _, x := range t.w.Log() {
		if x.Seq >= e.Seq {
			continue
		}
		if x.Status == 401 && nameOf[x.Host] == grp {
			return true
		}
	}
	return false
}

func decodeBasicIn(s string) string {
	var out strings.Builder
	for _, l := range strings.Split(s, "\n") {
		if i := strings.Index(l, "Basic "); i >= 0 {
			v := strings.TrimSpace(l[i+6:])
			if dec, err := base64.StdEncoding.DecodeString(v); err == nil {
				out.WriteString(string(dec) + "\n")
			}
		}
	}
	return out.String()
}

func prefix(s string, n int) string {
	if len(s) > n {
		return s[:n] + "..."
	}
	return s
}

type syncBuf struct {
	mu sync.Mutex
	b  bytes.Buffer
}

func (s *syncBuf) Write(p []byte) (int, error) { s.mu.Lock(); defer s.mu.Unlock(); return s.b.Write(p) }
func (s *syncBuf) String() string              { s.mu.Lock(); defer s.mu.Unlock(); return s.b.String() }

func one(i int) {
	rng := ev.Rand(fmt.Sprintf("c11/%d", i))
	t := genTopo(rng, i)
	// every third topology learns its credentials from a Docker configuration file, every sixth of those through a
	// credential helper (decided by the index, not drawn: the topologies themselves stay what they were)
	switch {
	case i%6 == 4:
		t.CredSrc = "cred-helper"
	case i%3 == 1:
		t.CredSrc = "docker-file"
	default:
		t.CredSrc = "host-config"
	}
	if t.CredSrc != "host-config" {
		// a stand-in for Docker Hub (the client reaches "docker.io" at this host): the file lists its login under
		// Docker's own key, next to decoys whose names merely resemble Docker Hub's
		t.Hosts = append(t.Hosts, &hostSpec{Name: "hub", Role: "hub", Auth: "basic", TLS: "plain", TokenOn: "self"})
	}
	t.build(rng)
	defer t.w.Close()
	var logs syncBuf
	rc := t.client(&logs)
	t.errOut = &logs
	ctx, cancel := context.WithTimeout(context.Background(), 60*time.Second)
	defer cancel()
	ok, failed := t.workload(ctx, rc, rng)
	t.w.WaitIdle()
	run.Eval(1)
	run.Count("operations_ok", ok)
	run.Count("operations_failed", failed)
	run.Count("log_bytes_scanned", len(logs.String()))
	t.audit(logs.String())
	t.auditDecoys(logs.String())
	for _, d := range t.tmpDirs {
		_ = os.RemoveAll(d)
	}
	if ok > 0 {
		run.Distinct(t.key())
	}
	if i < 3 {
		run.Sample(map[string]any{"topology": t.key(), "operations_ok": ok, "operations_failed": failed, "requests": len(t.w.Log())})
	}
}

// regctlTrace runs the real regctl with -v trace against an authenticated registry and scans stderr.
func regctlTrace() {
	bin := filepath.Join(os.Getenv("VERIF_BIN"), "regctl")
	if _, err := os.Stat(bin); err != nil {
		run.Put("regctl_trace", "binary not built")
		return
	}
	rng := ev.Rand("c11/regctl")
	for _, mode := range []string{"basic", "bearer", "bearer-refresh"} {
		w := modelreg.NewWorld()
		h := w.NewHost("reg")
		pass := secret(rng, "pwcli")
		a := &modelreg.AuthCfg{Mode: "bearer", User: "cli", Pass: pass, Service: "svc", Prefix: secret(rng, "tkcli"), IssueRefresh: mode == "bearer-refresh"}
		if mode == "basic" {
			a.Mode = "basic"
		}
		a.Realm = h.Srv.URL + "/token"
		h.Auth = a
		g := gen.Random(rng, "sha256", gen.Shape{Family: "oci", Kind: "image", Layers: 1, MaxBlob: 100}, "v1")
		g.ToHost(h, "proj/app", nil, true)
		cfgDir, _ := os.MkdirTemp(os.Getenv("VERIF_BIN"), "regctlcfg")
		cfg := filepath.Join(cfgDir, "config.json")
		_ = os.WriteFile(cfg, []byte(fmt.Sprintf(`{"hosts":{"%s":{"tls":"disabled","user":"cli","pass":"%s"}}}`, h.Addr(), pass)), 0o600)
		var out bytes.Buffer
		for _, args := range [][]string{{"-v", "trace", "manifest", "get", h.Addr() + "/proj/app:v1"}, {"-v", "trace", "tag", "ls", h.Addr() + "/proj/app"}, {"-v", "debug", "image", "copy", h.Addr() + "/proj/app:v1", h.Addr() + "/proj/app:v2"}} {
			cmd := exec.Command(bin, args...)
			cmd.Env = append(os.Environ(), "REGCTL_CONFIG="+cfg)
			cmd.Stdout, cmd.Stderr = &out, &out
			_ = cmd.Run()
		}
		run.Eval(1)
		run.Count("regctl_trace_bytes_scanned", out.Len())
		for _, s := range append([]string{pass, base64.StdEncoding.EncodeToString([]byte("cli:" + pass))}, a.Secrets()...) {
			if strings.Contains(out.String(), s) {
				run.Violation("secret-in-regctl-output/"+mode, "a secret appears in the output of regctl -v trace", map[string]any{"mode": mode})
				break
			}
		}
		run.Distinct("regctl-trace/" + mode)
		w.Close()
		_ = os.RemoveAll(cfgDir)
	}
}

func main() {
	run = ev.Start("C11", "exploration")
	run.Rule("seeded topologies of 2-5 hosts (upstream, optional mirror, second registry, optional blob-redirect target, optional external-layer host; token endpoint on the registry or separate) x auth scheme per host {none, basic, bearer, bearer with refresh token, identity token} x transport {plain, TLS with pinned cert, TLS insecure} x per-repository auth x extra / malformed challenges x credential source {host configuration, Docker configuration file with keys in several spellings and decoy entries of nobody, credential helper named by that file}; " +
		"redirect targets and external hosts answer 401 with Basic or with Bearer challenges naming their own realm; 17 client operations in random order incl. cross-registry copies with referrers and external layers; " +
		"non-trivial = at least one operation succeeded through authentication; distinct = topology classes")
	run.Assume("every secret is a unique random string; a host may see the secrets of Y only if it is Y or the token endpoint Y itself named in its challenge",
		"httptest TLS hosts share one certificate, so a pinned registry certificate also validates that registry's separate token endpoint")
	n := ev.Scale(220, 3000)
	var wg sync.WaitGroup
	sem := make(chan struct{}, 10)
	for i := 0; i < n; i++ {
		wg.Add(1)
		sem <- struct{}{}
		go func(i int) {
			defer wg.Done()
			defer func() { <-sem }()
			one(i)
		}(i)
	}
	wg.Wait()
	regctlTrace()
	run.Races(func(rep string) string {
		if fn := ev.RaceFrame(rep, "/repo/internal/auth/"); fn != "" {
			return "race/auth/" + fn
		}
		return ""
	})
	if run.Get("requests_carrying_authorization") < 500 || run.Get("token_requests") < 50 || run.Get("redirects_issued") < 20 || run.Get("operations_ok") < int64(n)*5 {
		run.Inconclusive("workload did not exercise authentication enough")
	}
	os.Exit(run.Finish())
}
