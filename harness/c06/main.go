// C06 — tags behave as a name->digest map; deleting a tag removes only that tag.
// Monitor: a reference model (map tag->digest + set of manifests) is stepped alongside the real
// client; after every operation the returned value / error class is compared, after every
// mutating operation the raw state (registry model tags, parsed index.json) is compared too.
// Concurrent histories are recorded at the client boundary and checked with porcupine against
// a register-per-tag model.
package main

import (
	"context"
	"encoding/json"
	"errors"
	"fmt"
	"math/rand"
	"os"
	"path/filepath"
	"sort"
	"strings"
	"sync"
	"sync/atomic"
	"time"

	"github.com/anishathalye/porcupine"
	"github.com/regclient/regclient"
	"github.com/regclient/regclient/scheme/reg"
	"github.com/regclient/regclient/types/errs"
	"github.com/regclient/regclient/types/manifest"
	"github.com/regclient/regclient/types/ref"

	"verif/ev"
	"verif/gen"
	la "verif/layoutaudit"
	"verif/modelreg"
	"verif/rcx"
)

var run *ev.Run

type backend struct {
	Kind    string // reg-api reg-noapi layout layout-foreign
	Page    int
	Foreign string // how the foreign layout was written
	Cache   bool   // the client keeps its response cache (as regctl and regsync do)
	Hole    int    // the registry's k-th tag page is empty (Link only)
	w       *modelreg.World
	h       *modelreg.Host
	dir     string
}

func (b *backend) key() string {
	k := fmt.Sprintf("%s/page%d/%s", b.Kind, b.Page, b.Foreign)
	if b.Cache {
		k += "/cache"
	}
	if b.Hole > 0 {
		k += "/empty-page"
	}
	return k
}

func (b *backend) clientOpts() rcx.Opts {
	if b.Cache {
		return rcx.Opts{RegOpts: []reg.Opts{reg.WithCache(time.Minute, 200)}}
	}
	return rcx.Opts{}
}

func (b *backend) ref(tagOrDigest string) ref.Ref {
	if b.dir != "" {
		return rcx.DirRef(b.dir, tagOrDigest)
	}
	return rcx.Ref(b.h, "proj/app", tagOrDigest)
}

func (b *backend) close() {
	if b.w != nil {
		b.w.Close()
	}
	if b.dir != "" {
		_ = os.RemoveAll(b.dir)
	}
}

// rawTags reads tag -> digests from raw storage (a correct state has one digest per tag).
func (b *backend) rawTags() (map[string][]string, []string) {
	if b.dir != "" {
		l := la.Layout{Dir: b.dir}
		var probs []string
		if _, err := os.Stat(filepath.Join(b.dir, "index.json")); os.IsNotExist(err) {
			if _, err2 := os.Stat(filepath.Join(b.dir, "oci-layout")); os.IsNotExist(err2) {
				return map[string][]string{}, nil // nothing has been written yet: an empty map
			}
		}
		if err := l.CheckMarker(); err != nil {
			probs = append(probs, "oci-layout: "+err.Error())
		}
		idx, err := l.ReadIndex()
		if err != nil {
			return nil, append(probs, "index.json: "+err.Error())
		}
		return idx.Tags(), probs
	}
	out := map[string][]string{}
	b.w.Lock()
	defer b.w.Unlock()
	if rp := b.h.Repos["proj/app"]; rp != nil {
		for t, d := range rp.Tags {
			out[t] = []string{d}
		}
	}
	return out, nil
}

func (b *backend) rawHas(d string) bool {
	if b.dir != "" {
		_, ok := la.Layout{Dir: b.dir}.Blob(d)
		return ok
	}
	_, _, ok := modelreg.Store{H: b.h, Name: "proj/app"}.Manifest(d)
	return ok
}

type pool struct {
	mans []*gen.Node
	objs map[string]manifest.Manifest
	// the same manifests as a caller holds them after fetching them by tag from some other layout:
	// their descriptor is the donor's index entry (it carries the donor's tag name)
	fetched map[string]manifest.Manifest
}

// obj returns the object to push: freshly parsed, or as fetched from a donor layout by tag.
func (p *pool) obj(rng *rand.Rand, d string) (manifest.Manifest, string) {
	if m, ok := p.fetched[d]; ok && rng.Intn(3) == 0 {
		return m, "+fetched-by-tag-elsewhere"
	}
	return p.objs[d], ""
}

func mkPool(rng *rand.Rand) *pool {
	g := gen.New(rng, "sha256")
	p := &pool{objs: map[string]manifest.Manifest{}}
	for i := 0; i < 3; i++ {
		cfg := g.Config("oci", nil, 1)
		l := g.Blob("layer", la.MTOCILayerGz, 30)
		fam := "oci"
		if i == 2 {
			fam = "docker"
			cfg = g.Config("docker", nil, 1)
			l = g.Blob("layer", la.MTD2LayerGz, 30)
		}
		p.mans = append(p.mans, g.Image(cfg, []*gen.Node{l}, gen.ImageOpts{Family: fam, Annotations: map[string]string{"n": fmt.Sprint(i, rng.Int63())}}))
	}
	p.mans = append(p.mans, g.Index("oci", []*gen.Node{p.mans[0], p.mans[1]}, nil, map[string]string{"idx": fmt.Sprint(rng.Int63())}))
	for _, n := range p.mans {
		m, err := manifest.New(manifest.WithRaw(n.Content))
		if err != nil {
			panic(err)
		}
		p.objs[n.Digest] = m
	}
	// donor layout
	p.fetched = map[string]manifest.Manifest{}
	if donor, err := os.MkdirTemp(os.Getenv("VERIF_BIN"), "c06donor"); err == nil {
		defer os.RemoveAll(donor)
		rc := rcx.New(nil, rcx.Opts{})
		ctx := context.Background()
		for i, n := range p.mans {
			r := rcx.DirRef(donor, fmt.Sprintf("donor-%d", i))
			if err := rc.ManifestPut(ctx, r, p.objs[n.Digest]); err != nil {
				continue
			}
			if m, err := rc.ManifestGet(ctx, r); err == nil {
				p.fetched[n.Digest] = m
			}
		}
		_ = rc.Close(ctx, rcx.DirRef(donor, ""))
	}
	return p
}

var tagPool = []string{"a", "b", "v1.0", "latest"}

func newBackend(rng *rand.Rand, kind string, p *pool) *backend {
	b := &backend{Kind: kind}
	switch kind {
	case "reg-api", "reg-noapi":
		b.w = modelreg.NewWorld()
		b.h = b.w.NewHost("reg")
		b.h.Cfg.TagDeleteAPI = kind == "reg-api"
		b.Page = []int{0, 1, 2, 3}[rng.Intn(4)]
		b.h.Cfg.TagPage = b.Page
		if b.Page > 0 && rng.Intn(3) == 0 {
			b.Hole = 1 + rng.Intn(3)
			b.h.Cfg.TagPageHole = b.Hole
		}
		b.Cache = rng.Intn(2) == 0
	case "layout":
		b.dir, _ = os.MkdirTemp(os.Getenv("VERIF_BIN"), "c06l")
		_ = os.Remove(b.dir) // the client creates the layout itself
	case "layout-foreign":
		b.dir, _ = os.MkdirTemp(os.Getenv("VERIF_BIN"), "c06f")
		b.Foreign = []string{"full-names", "adjacent-duplicates", "non-adjacent-duplicates", "untagged-entries", "containerd-names"}[rng.Intn(5)]
		var es []gen.Obj
		entry := func(n *gen.Node, ann map[string]string) gen.Obj {
			o := gen.Obj{{K: "mediaType", V: n.MT}, {K: "digest", V: n.Digest}, {K: "size", V: len(n.Content)}}
			if ann != nil {
				o = append(o, gen.KV{K: "annotations", V: ann})
			}
			return o
		}
		for _, n := range p.mans {
			_ = gen.WriteLayoutBlob(b.dir, n.Digest, n.Content)
		}
		m0, m1, m2 := p.mans[0], p.mans[1], p.mans[2]
		switch b.Foreign {
		case "full-names":
			es = append(es, entry(m0, map[string]string{la.AnnotRefName: "docker.io/library/app:a"}), entry(m1, map[string]string{la.AnnotRefName: "registry.example:5000/proj/app:b"}))
		case "adjacent-duplicates":
			es = append(es, entry(m0, map[string]string{la.AnnotRefName: "a"}), entry(m0, map[string]string{la.AnnotRefName: "a"}), entry(m1, map[string]string{la.AnnotRefName: "b"}))
		case "non-adjacent-duplicates":
			es = append(es, entry(m0, map[string]string{la.AnnotRefName: "a"}), entry(m1, map[string]string{la.AnnotRefName: "b"}), entry(m0, map[string]string{la.AnnotRefName: "a"}))
		case "untagged-entries":
			es = append(es, entry(m2, nil), entry(m0, map[string]string{la.AnnotRefName: "a"}), entry(m1, nil), entry(m1, map[string]string{la.AnnotRefName: "b"}))
		case "containerd-names":
			es = append(es, entry(m0, map[string]string{la.AnnotRefName: "a", la.AnnotContainerd: "docker.io/library/app:a"}), entry(m1, map[string]string{la.AnnotContainerd: "docker.io/library/app:zzz"}))
		}
		_ = gen.WriteLayoutIndex(b.dir, es)
	}
	return b
}

// model state
type model struct {
	T map[string]string
	M map[string]bool
}

func (m *model) clone() *model {
	c := &model{T: map[string]string{}, M: map[string]bool{}}
	for k, v := range m.T {
		c.T[k] = v
	}
	for k := range m.M {
		c.M[k] = true
	}
	return c
}

func initModel(b *backend, p *pool) *model {
	m := &model{T: map[string]string{}, M: map[string]bool{}}
	if b.Kind != "layout-foreign" {
		return m
	}
	// documented lookup rule: exact ref.name, else suffix ":tag"; duplicates count as one tag
	raw, _ := b.rawTags()
	for t, ds := range raw {
		m.T[t] = ds[0]
	}
	for _, n := range p.mans {
		if b.rawHas(n.Digest) {
			m.M[n.Digest] = true
		}
	}
	return m
}

func isNotFound(err error) bool {
	return err != nil && (errors.Is(err, errs.ErrNotFound) || strings.Contains(err.Error(), "not found") || strings.Contains(err.Error(), "no such file"))
}

type opRec struct {
	Op, Tag, Digest string
	Result          string
	Obj             string // how the caller came by the pushed object ("" = freshly parsed)
}

func (o opRec) String() string {
	return fmt.Sprintf("%s%s(%s %s) -> %s", o.Op, o.Obj, o.Tag, short(o.Digest), o.Result)
}

func short(d string) string {
	if len(d) > 19 {
		return d[:19]
	}
	return d
}

func sequential(i int) {
	rng := ev.Rand(fmt.Sprintf("c06/seq/%d", i))
	p := mkPool(rng)
	kind := []string{"reg-api", "reg-noapi", "layout", "layout", "layout-foreign", "layout-foreign"}[i%6]
	b := newBackend(rng, kind, p)
	defer b.close()
	var hosts []*modelreg.Host
	if b.h != nil {
		hosts = append(hosts, b.h)
	}
	rc := rcx.New(hosts, b.clientOpts())
	ctx, cancel := context.WithTimeout(context.Background(), 60*time.Second)
	defer cancel()
	md := initModel(b, p)
	var hist []string
	n := 4 + rng.Intn(22)
	run.Eval(1)
	viol := func(fp, what string) {
		run.Violation(fp+"/"+b.key(), what+" [history: "+strings.Join(hist, "; ")+"]", map[string]any{"backend": b.key(), "history": hist, "model_tags": md.T})
	}
	for s := 0; s < n; s++ {
		t := tagPool[rng.Intn(len(tagPool))]
		man := p.mans[rng.Intn(len(p.mans))]
		foreignNamed := b.Foreign == "full-names" && (t == "a" || t == "b")
		before := md.clone()
		rawBefore, _ := b.rawTags()
		var rec opRec
		mutating := false
		failedMut := false
		op := rng.Intn(10)
		if foreignNamed && op < 3 && rng.Intn(3) == 0 {
			// a push to a tag that the foreign tool stored under a full image name: the documented lookup tries
			// the exact name first and the full-name suffix only as a fall-back, so the push must be what the tag
			// resolves to from now on. The history ends here (what a later delete of such a tag means is not
			// determined by the statement).
			err := rc.ManifestPut(ctx, b.ref(t), p.objs[man.Digest])
			hist = append(hist, fmt.Sprintf("putTag(%s %s) onto a foreign full-named entry -> %v", t, short(man.Digest), err))
			if err != nil {
				viol("put-by-tag-fails", fmt.Sprintf("ManifestPut(%s) failed: %v", t, err))
				return
			}
			run.Count("pushes_onto_foreign_full_named_tags", 1)
			for _, how := range []string{"head", "get"} {
				var m manifest.Manifest
				if how == "head" {
					m, err = rc.ManifestHead(ctx, b.ref(t))
				} else {
					m, err = rc.ManifestGet(ctx, b.ref(t))
				}
				if err != nil || m.GetDescriptor().Digest.String() != man.Digest {
					got := fmt.Sprint(err)
					if err == nil {
						got = m.GetDescriptor().Digest.String()
					}
					viol("push-not-visible/foreign-full-named-tag/"+how, fmt.Sprintf("after ManifestPut(%s -> %s) %s(%s) gives %s", t, short(man.Digest), how, t, short(got)))
					return
				}
			}
			return
		}
		if foreignNamed && op < 3 {
			// a short-named entry next to the foreign full-named one would make the tag ambiguous under the
			// documented two-step lookup; such pushes are otherwise not generated
			op = 8
		}
		switch {
		case op < 3: // push by tag
			obj, how := p.obj(rng, man.Digest)
			rec = opRec{Op: "putTag", Obj: how, Tag: t, Digest: man.Digest}
			mutating = true
			err := rc.ManifestPut(ctx, b.ref(t), obj)
			if err != nil {
				rec.Result = "error: " + err.Error()
				hist = append(hist, rec.String())
				viol("put-by-tag-fails", fmt.Sprintf("ManifestPut(%s) failed: %v", t, err))
				return
			}
			rec.Result = "ok"
			md.T[t], md.M[man.Digest] = man.Digest, true
		case op < 4: // push by digest
			obj, how := p.obj(rng, man.Digest)
			rec = opRec{Op: "putDigest", Obj: how, Digest: man.Digest}
			mutating = true
			err := rc.ManifestPut(ctx, b.ref(man.Digest), obj)
			if err != nil {
				rec.Result = "error: " + err.Error()
				hist = append(hist, rec.String())
				viol("put-by-digest-fails", fmt.Sprintf("ManifestPut by digest failed: %v", err))
				return
			}
			rec.Result = "ok"
			md.M[man.Digest] = true
		case op < 6: // tag delete
			rec = opRec{Op: "tagDelete", Tag: t}
			mutating = true
			err := rc.TagDelete(ctx, b.ref(t))
			_, had := md.T[t]
			switch {
			case err == nil && had:
				rec.Result = "ok"
				delete(md.T, t)
			case err == nil && !had:
				rec.Result = "ok"
				hist = append(hist, rec.String())
				viol("delete-of-absent-tag-succeeds", fmt.Sprintf("TagDelete(%s) returned nil although the tag does not exist", t))
				return
			case err != nil && had:
				rec.Result = "error: " + err.Error()
				hist = append(hist, rec.String())
				viol("delete-of-existing-tag-fails", fmt.Sprintf("TagDelete(%s) failed although the tag exists (resolves to %s): %v", t, short(md.T[t]), err))
				return
			default:
				rec.Result = "not-found"
				failedMut = true
			}
		case op < 7: // manifest delete
			rec = opRec{Op: "manifestDelete", Digest: man.Digest}
			mutating = true
			var opts []regclient.ManifestOpts
			if rng.Intn(2) == 0 {
				opts = append(opts, regclient.WithManifestCheckReferrers())
			}
			// the manifest may be named by digest alone or by a pinned reference (a tag that resolves to it
			// plus the digest): both name the same manifest for a delete
			rDel := b.ref(man.Digest)
			if rng.Intn(3) == 0 {
				var ts []string
				for tt, d := range md.T {
					if d == man.Digest && !strings.ContainsAny(tt, "/@:") {
						ts = append(ts, tt)
					}
				}
				sort.Strings(ts)
				if len(ts) > 0 {
					rDel = b.ref(ts[0]).AddDigest(man.Digest)
					rec.Op = "manifestDelete(pinned " + ts[0] + ")"
					run.Count("manifest_deletes_by_pinned_reference", 1)
				}
			}
			err := rc.ManifestDelete(ctx, rDel, opts...)
			switch {
			case err == nil && md.M[man.Digest]:
				rec.Result = "ok"
				delete(md.M, man.Digest)
				for tt, d := range md.T {
					if d == man.Digest {
						delete(md.T, tt)
					}
				}
			case err == nil:
				rec.Result = "ok"
				hist = append(hist, rec.String())
				viol("delete-of-absent-manifest-succeeds", "ManifestDelete returned nil for a manifest that is not stored")
				return
			case md.M[man.Digest]:
				rec.Result = "error: " + err.Error()
				hist = append(hist, rec.String())
				viol("delete-of-existing-manifest-fails", fmt.Sprintf("ManifestDelete(%s) failed although the manifest is stored: %v", short(man.Digest), err))
				return
			default:
				rec.Result = "not-found"
				failedMut = true
			}
		case op < 8: // list
			rec = opRec{Op: "list"}
			tl, err := rc.TagList(ctx, b.ref(""))
			var got []string
			if err == nil {
				got, err = tl.GetTags()
			}
			if err != nil {
				if len(md.T) == 0 && (isNotFound(err) || b.dir != "") {
					rec.Result = "not-found (no tags)"
					break
				}
				rec.Result = "error: " + err.Error()
				hist = append(hist, rec.String())
				viol("list-fails", fmt.Sprintf("TagList failed: %v", err))
				return
			}
			sort.Strings(got)
			var want []string
			for tt := range md.T {
				want = append(want, tt)
			}
			sort.Strings(want)
			rec.Result = strings.Join(got, ",")
			if strings.Join(got, ",") != strings.Join(want, ",") {
				hist = append(hist, rec.String())
				viol("list-wrong", fmt.Sprintf("TagList returned [%s], the map has [%s]", strings.Join(got, ","), strings.Join(want, ",")))
				return
			}
			run.Count("listings_compared", 1)
		case op < 9: // head / get by tag
			rec = opRec{Op: "head", Tag: t}
			var m manifest.Manifest
			var err error
			if rng.Intn(2) == 0 {
				rec.Op = "get"
				m, err = rc.ManifestGet(ctx, b.ref(t))
			} else {
				m, err = rc.ManifestHead(ctx, b.ref(t))
			}
			want, had := md.T[t]
			switch {
			case err == nil && had:
				rec.Result = short(string(m.GetDescriptor().Digest))
				if string(m.GetDescriptor().Digest) != want {
					hist = append(hist, rec.String())
					viol("tag-resolves-wrong", fmt.Sprintf("%s(%s) resolves to %s, the map says %s", rec.Op, t, short(string(m.GetDescriptor().Digest)), short(want)))
					return
				}
			case err == nil:
				rec.Result = short(string(m.GetDescriptor().Digest))
				hist = append(hist, rec.String())
				viol("absent-tag-resolves", fmt.Sprintf("%s(%s) resolves to %s although the tag does not exist", rec.Op, t, rec.Result))
				return
			case had:
				rec.Result = "error: " + err.Error()
				hist = append(hist, rec.String())
				viol("existing-tag-unresolvable", fmt.Sprintf("%s(%s) failed although the tag exists: %v", rec.Op, t, err))
				return
			default:
				rec.Result = "not-found"
			}
			run.Count("resolutions_compared", 1)
		default: // get by digest
			rec = opRec{Op: "getDigest", Digest: man.Digest}
			m, err := rc.ManifestGet(ctx, b.ref(man.Digest))
			switch {
			case err == nil && md.M[man.Digest]:
				rec.Result = "ok"
				if string(m.GetDescriptor().Digest) != man.Digest {
					hist = append(hist, rec.String())
					viol("get-by-digest-wrong", "get by digest returned another manifest")
					return
				}
			case err == nil:
				rec.Result = "ok"
				if b.dir == "" {
					hist = append(hist, rec.String())
					viol("deleted-manifest-still-served", fmt.Sprintf("get by digest %s succeeds although the manifest was deleted / never stored", short(man.Digest)))
					return
				}
				// layouts keep files of untagged manifests until a collection: representation detail
			case md.M[man.Digest]:
				rec.Result = "error: " + err.Error()
				hist = append(hist, rec.String())
				viol("stored-manifest-unreadable", fmt.Sprintf("get by digest %s failed although the manifest is stored: %v", short(man.Digest), err))
				return
			default:
				rec.Result = "not-found"
			}
		}
		hist = append(hist, rec.String())
		if !mutating {
			continue
		}
		// raw state vs model
		raw, probs := b.rawTags()
		if len(probs) > 0 {
			viol("layout-invalid-after-"+rec.Op, "the layout is no longer valid: "+strings.Join(probs, "; "))
			return
		}
		if failedMut {
			// an operation that returns an error must leave the state as it was
			if fmt.Sprint(raw) != fmt.Sprint(rawBefore) {
				viol("failed-operation-changes-state/"+rec.Op, fmt.Sprintf("%s returned an error but the stored tags changed from %v to %v", rec.Op, rawBefore, raw))
				return
			}
			md = before
			continue
		}
		for tt, ds := range raw {
			// the index must have at most one entry per tag the client wrote, and an operation never adds duplicates
			// (duplicates a foreign tool left for OTHER tags are not the client's to clean up)
			if len(ds) > 1 && (len(ds) > len(rawBefore[tt]) || (rec.Op == "putTag" && rec.Tag == tt)) {
				viol("duplicate-index-entries-after-"+rec.Op, fmt.Sprintf("after %s the index has %d entries for tag %s (before: %d)", rec.Op, len(ds), tt, len(rawBefore[tt])))
				return
			}
			if want, ok := md.T[tt]; !ok {
				viol("tag-present-in-storage-after-"+rec.Op, fmt.Sprintf("after %s tag %s is stored (-> %s) but the map does not have it", rec.Op, tt, short(ds[0])))
				return
			} else if want != ds[0] {
				viol("tag-points-elsewhere-after-"+rec.Op, fmt.Sprintf("after %s tag %s is stored as %s, the map says %s", rec.Op, tt, short(ds[0]), short(want)))
				return
			}
		}
		for tt := range md.T {
			if _, ok := raw[tt]; !ok {
				viol("tag-lost-after-"+rec.Op, fmt.Sprintf("after %s tag %s is gone from storage although only %s was asked for", rec.Op, tt, rec.String()))
				return
			}
		}
		for _, n := range p.mans {
			if md.M[n.Digest] && !b.rawHas(n.Digest) {
				viol("manifest-lost-after-"+rec.Op, fmt.Sprintf("after %s manifest %s is gone from storage", rec.Op, short(n.Digest)))
				return
			}
		}
		run.Count("mutations_compared_with_raw_state", 1)
	}
	run.Distinct(fmt.Sprintf("seq/%s/len%d", b.key(), len(hist)/5))
	if i < 3 {
		run.Sample(map[string]any{"backend": b.key(), "history": hist})
	}
}

// ---- concurrent histories -------------------------------------------------------------------------------

type cin struct {
	Op  string // put get del
	Tag string
	Val string // digest written
}

func concurrent(i int) {
	rng := ev.Rand(fmt.Sprintf("c06/conc/%d", i))
	kind := []string{"reg-api", "layout", "layout"}[i%3]
	// against a registry a tag delete that meets "404" (tag absent at that instant) falls back to the documented
	// non-atomic two-step protocol even when the registry has the API, so only layouts are checked for linearizability
	linearizable := kind == "layout"
	p := mkPool(rng)
	b := newBackend(rng, kind, p)
	defer b.close()
	var hosts []*modelreg.Host
	if b.h != nil {
		hosts = append(hosts, b.h)
		if rng.Intn(2) == 0 {
			var mu sync.Mutex
			jr := rand.New(rand.NewSource(rng.Int63()))
			b.h.Cfg.Latency = func(*modelreg.Event) time.Duration {
				mu.Lock()
				defer mu.Unlock()
				return time.Duration(jr.Intn(800)) * time.Microsecond
			}
		}
	}
	rc := rcx.New(hosts, b.clientOpts())
	ctx, cancel := context.WithTimeout(context.Background(), 60*time.Second)
	defer cancel()
	if b.dir != "" {
		// the layout has to exist before concurrent readers list it
		_ = rc.ManifestPut(ctx, b.ref("seed"), p.objs[p.mans[0].Digest])
	}
	ng := 3 + rng.Intn(2)
	tags := tagPool[:2+rng.Intn(2)]
	var clock atomic.Int64
	var mu sync.Mutex
	var ops []porcupine.Operation
	var listErrs []string
	var wg sync.WaitGroup
	for g := 0; g < ng; g++ {
		wg.Add(1)
		seed := rng.Int63()
		go func(g int, seed int64) {
			defer wg.Done()
			lr := rand.New(rand.NewSource(seed))
			gg := gen.New(lr, "sha256")
			for s := 0; s < 4+lr.Intn(7); s++ {
				t := tags[lr.Intn(len(tags))]
				switch lr.Intn(6) {
				case 0, 1: // unique manifest
					cfg := gg.Config("oci", nil, 1)
					l := gg.Blob("layer", la.MTOCILayerGz, 10)
					n := gg.Image(cfg, []*gen.Node{l}, gen.ImageOpts{Family: "oci", Annotations: map[string]string{"u": fmt.Sprintf("%d-%d-%d", g, s, lr.Int63())}})
					m, _ := manifest.New(manifest.WithRaw(n.Content))
					call := clock.Add(1)
					err := rc.ManifestPut(ctx, b.ref(t), m)
					ret := clock.Add(1)
					if err == nil {
						mu.Lock()
						ops = append(ops, porcupine.Operation{ClientId: g, Input: cin{"put", t, n.Digest}, Call: call, Output: "ok", Return: ret})
						mu.Unlock()
					} else {
						mu.Lock()
						listErrs = append(listErrs, "put: "+err.Error())
						mu.Unlock()
					}
				case 2:
					call := clock.Add(1)
					err := rc.TagDelete(ctx, b.ref(t))
					ret := clock.Add(1)
					out := "ok"
					if err != nil {
						out = "not-found"
						if !isNotFound(err) {
							out = "error"
							mu.Lock()
							listErrs = append(listErrs, "delete: "+err.Error())
							mu.Unlock()
							continue
						}
					}
					mu.Lock()
					ops = append(ops, porcupine.Operation{ClientId: g, Input: cin{"del", t, ""}, Call: call, Output: out, Return: ret})
					mu.Unlock()
				case 3, 4:
					call := clock.Add(1)
					var m manifest.Manifest
					var err error
					if lr.Intn(2) == 0 {
						m, err = rc.ManifestHead(ctx, b.ref(t))
					} else {
						m, err = rc.ManifestGet(ctx, b.ref(t))
					}
					ret := clock.Add(1)
					out := "not-found"
					if err == nil {
						out = string(m.GetDescriptor().Digest)
					} else if !isNotFound(err) {
						mu.Lock()
						listErrs = append(listErrs, "read: "+err.Error())
						mu.Unlock()
						continue
					}
					mu.Lock()
					ops = append(ops, porcupine.Operation{ClientId: g, Input: cin{"get", t, ""}, Call: call, Output: out, Return: ret})
					mu.Unlock()
				default:
					_, err := rc.TagList(ctx, b.ref(""))
					if err != nil && !isNotFound(err) {
						mu.Lock()
						listErrs = append(listErrs, "list: "+err.Error())
						mu.Unlock()
					}
					run.Count("concurrent_listings", 1)
				}
			}
		}(g, seed)
	}
	wg.Wait()
	run.Eval(1)
	if len(listErrs) > 0 {
		run.Violation("concurrent/operation-error/"+b.Kind+"/"+strings.SplitN(listErrs[0], ":", 2)[0], fmt.Sprintf("an operation issued concurrently with others through one client failed on a valid store: %s", listErrs[0]), map[string]any{"backend": b.key(), "errors": listErrs})
	}
	mdl := porcupine.Model{
		Partition: func(h []porcupine.Operation) [][]porcupine.Operation {
			m := map[string][]porcupine.Operation{}
			for _, o := range h {
				m[o.Input.(cin).Tag] = append(m[o.Input.(cin).Tag], o)
			}
			var out [][]porcupine.Operation
			for _, v := range m {
				out = append(out, v)
			}
			return out
		},
		Init: func() any { return "" },
		Step: func(st, in, out any) (bool, any) {
			s, c, o := st.(string), in.(cin), out.(string)
			switch c.Op {
			case "put":
				return true, c.Val
			case "del":
				if o == "ok" {
					return s != "", ""
				}
				return s == "", s
			default:
				if o == "not-found" {
					return s == "", s
				}
				return s == o, s
			}
		},
		Equal: func(a, b any) bool { return a.(string) == b.(string) },
	}
	res := porcupine.Ok
	if linearizable {
		res, _ = porcupine.CheckOperationsVerbose(mdl, ops, 30*time.Second)
	} else {
		run.Count("concurrent_registry_histories_not_checked_for_linearizability", 1)
	}
	switch res {
	case porcupine.Ok:
		if linearizable {
			run.Count("porcupine_ok", 1)
		}
	case porcupine.Illegal:
		var hs []string
		sort.Slice(ops, func(a, c int) bool { return ops[a].Call < ops[c].Call })
		for _, o := range ops {
			in := o.Input.(cin)
			hs = append(hs, fmt.Sprintf("[%d,%d] g%d %s(%s %s) -> %s", o.Call, o.Return, o.ClientId, in.Op, in.Tag, short(in.Val), short(o.Output.(string))))
		}
		run.Violation("concurrent/not-linearizable/"+b.Kind, "a concurrent history of tag operations through one client is not linearizable against a register per tag", map[string]any{"backend": b.key(), "history": hs})
	default:
		run.Count("porcupine_unknown", 1)
	}
	// quiescent raw state must be a valid map
	raw, probs := b.rawTags()
	if len(probs) > 0 {
		run.Violation("concurrent/layout-invalid", strings.Join(probs, "; "), map[string]any{"backend": b.key()})
	}
	for t, ds := range raw {
		if len(ds) > 1 {
			run.Violation("concurrent/duplicate-index-entries", fmt.Sprintf("tag %s has %d index entries after a concurrent history", t, len(ds)), map[string]any{"backend": b.key()})
		}
	}
	run.Distinct(fmt.Sprintf("conc/%s/g%d/ops%d", b.Kind, ng, len(ops)/4))
	run.Count("concurrent_operations_recorded", len(ops))
}

func main() {
	run = ev.Start("C06", "exploration")
	run.Rule("sequential histories of 4-25 operations {push by tag, push by digest, tag delete, manifest delete with / without referrer check, list, head, get by tag, get by digest} over 4 tags x 4 manifests (several tags share a manifest; image, Docker image, index) on: model registry with the tag-delete API, without it (fallback protocol), tag-list page sizes 1/2/3/unlimited, fresh layouts, layouts written by other tools (full image names, adjacent / non-adjacent duplicate entries, untagged entries, containerd names); " +
		"concurrent histories of 3-4 goroutines x 4-10 operations through one client (unique manifests per push) checked with porcupine against a register per tag; non-trivial = every history (all mutate); distinct = (backend, length class)")
	run.Assume("model equivalences: a listing error 'not found' on a repository without tags equals the empty list; listing order is ignored; files of untagged manifests may stay in a layout until a collection; an operation that returns an error must leave the stored tags unchanged",
		"foreign layouts initialise the model by the documented lookup rule (exact ref.name, else suffix ':tag'); duplicate entries of one tag count as one tag",
		"registries without the tag-delete API use a non-atomic two-step fallback by design: they are only driven sequentially")
	nSeq := ev.Scale(3000, 40000)
	var wg sync.WaitGroup
	sem := make(chan struct{}, 12)
	for i := 0; i < nSeq; i++ {
		wg.Add(1)
		sem <- struct{}{}
		go func(i int) { defer wg.Done(); defer func() { <-sem }(); sequential(i) }(i)
	}
	wg.Wait()
	nConc := ev.Scale(1200, 15000)
	for i := 0; i < nConc; i++ {
		wg.Add(1)
		sem <- struct{}{}
		go func(i int) { defer wg.Done(); defer func() { <-sem }(); concurrent(i) }(i)
	}
	wg.Wait()
	for _, rep := range ev.RaceReports(filepath.Join(os.Getenv("VERIF_BIN"), "race")) {
		if strings.Contains(rep, "scheme/ocidir") || strings.Contains(rep, "scheme/reg.(*Reg).Tag") {
			run.Violation("race/tag-operations", "data race in tag / index handling", rep)
		} else {
			run.Count("unattributed_race_reports", 1)
		}
	}
	if run.Get("mutations_compared_with_raw_state") < 1000 || run.Get("porcupine_ok")+run.Get("porcupine_unknown") < int64(nConc)/2 || run.Get("listings_compared") < 200 {
		run.Inconclusive("too few comparisons")
	}
	_ = json.Marshal
	os.Exit(run.Finish())
}
